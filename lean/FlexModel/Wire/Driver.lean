/-
Line-protocol driver for the wire-format models (C02).  One op per line, one canonical line out.
  <hdr>.enc <field ints…>   -> hex of the encoded octets | exception name
  <hdr>.dec <hex|->         -> decoded field ints        | exception name
  spec.pack <layout> <ints…> -> hex of pack              spec.unpack <layout> <hex> -> ints
  rx <0/1> <events…>        -> PDUs of a multi-thread reception schedule (Rx.lean)
  btp req …                 -> length + data of the GN-DATA.request built from a BTP-Data.request
Unknown op / unparsable argument -> `bad-op`.
-/
import FlexModel.Proto
import FlexModel.Wire.Headers
import FlexModel.Wire.Spec
import FlexModel.Wire.Packet
import FlexModel.Wire.Rx

namespace FlexModel.Wire
open FlexModel.Proto

def hexDigit (n : Nat) : Char := "0123456789abcdef".toList.getD n '0'

def toHex (bs : Bytes) : String :=
  if bs.isEmpty then "-" else String.ofList (bs.flatMap fun b => [hexDigit (b / 16 % 16), hexDigit (b % 16)])

def hexVal (c : Char) : Option Nat :=
  if '0' ≤ c ∧ c ≤ '9' then some (c.toNat - '0'.toNat)
  else if 'a' ≤ c ∧ c ≤ 'f' then some (c.toNat - 'a'.toNat + 10)
  else none

def parseHexAux : List Char → Option Bytes
  | [] => some []
  | [_] => none
  | a :: b :: rest => do
    let x ← hexVal a
    let y ← hexVal b
    let r ← parseHexAux rest
    return (x * 16 + y) :: r

def parseHex (s : String) : Option Bytes := if s = "-" then some [] else parseHexAux s.toList

def ints? (ts : List String) : Option (List Int) := ts.mapM int?

def joinInt (xs : List Int) : String := " ".intercalate (xs.map toString)

def outBytes : Except Err Bytes → String
  | .ok bs => toHex bs
  | .error e => e.name

/-- forwarder output: `none` = nothing put on the wire -/
def outOptBytes : Except Err (Option Bytes) → String
  | .ok (some bs) => toHex bs
  | .ok none => "none"
  | .error e => e.name

def nat! (i : Int) : Nat := i.toNat
def bool! (i : Int) : Bool := i != 0

/-- all arguments that stand for Python non-negative ints / enum codes must be ≥ 0 -/
def allNonneg (xs : List Int) : Bool := xs.all (· ≥ 0)

def mkAddr : List Int → Option GNAddr
  | [m, st, mid] => if allNonneg [m, st, mid] then some ⟨nat! m, nat! st, nat! mid⟩ else none
  | _ => none

def mkLpv : List Int → Option LongPV
  | [m, st, mid, tst, lat, lon, pai, s, h] =>
    if allNonneg [m, st, mid, tst, h] then some ⟨⟨nat! m, nat! st, nat! mid⟩, nat! tst, lat, lon, bool! pai, s, nat! h⟩ else none
  | _ => none

def mkSpv : List Int → Option ShortPV
  | [m, st, mid, tst, lat, lon] =>
    if allNonneg [m, st, mid, tst] then some ⟨⟨nat! m, nat! st, nat! mid⟩, nat! tst, lat, lon⟩ else none
  | _ => none

def addrOut (a : GNAddr) : List Int := [a.m, a.st, a.mid]
def lpvOut (p : LongPV) : List Int := addrOut p.addr ++ [(p.tst : Int), p.lat, p.lon, (b2n p.pai : Int), p.s, (p.h : Int)]
def spvOut (p : ShortPV) : List Int := addrOut p.addr ++ [(p.tst : Int), p.lat, p.lon]

def outDec {α} (f : α → List Int) : Except Err α → String
  | .ok x => joinInt (f x)
  | .error e => e.name

def layout? : String → Option Spec.Layout
  | "basic" => some Spec.basicHeader | "common" => some Spec.commonHeader | "tc" => some Spec.trafficClass
  | "gnaddr" => some Spec.gnAddr | "lpv" => some Spec.longPV | "spv" => some Spec.shortPV
  | "gbc" => some Spec.gbc | "tsb" => some Spec.tsb | "shb" => some Spec.shb | "beacon" => some Spec.beacon
  | "guc" => some Spec.guc | "lsrequest" => some Spec.lsRequest | "lsreply" => some Spec.lsReply
  | "btpa" => some Spec.btpA | "btpb" => some Spec.btpB
  | _ => none

def encOp (hdr : String) (a : List Int) : Option String :=
  match hdr, a with
  | "bh", [v, nh, r, mu, ba, rhl] =>
    if allNonneg a then some (outBytes (BasicHeader.encode ⟨nat! v, nat! nh, nat! r, ⟨nat! mu, nat! ba⟩, nat! rhl⟩)) else none
  | "ch", [nh, r, ht, hst, scf, co, id, fl, pl, mhl] =>
    if allNonneg a then
      some (outBytes (CommonHeader.encode ⟨nat! nh, nat! r, nat! ht, nat! hst, ⟨bool! scf, bool! co, nat! id⟩, nat! fl, nat! pl, nat! mhl⟩))
    else none
  | "tc", [scf, co, id] =>
    if allNonneg a then some (toString (TrafficClass.encodeInt ⟨bool! scf, bool! co, nat! id⟩)) else none
  | "ga", _ => (mkAddr a).map fun x => outBytes (toBytes? 8 x.encodeInt)
  | "lpv", _ => (mkLpv a).map fun x => outBytes x.encode
  | "lpvold", _ => (mkLpv a).map fun x => outBytes x.encodeOld
  | "spv", _ => (mkSpv a).map fun x => outBytes x.encode
  | "gbc", _ =>
    match a.take 2, mkLpv ((a.drop 2).take 9), a.drop 11 with
    | [sn, r], some pv, [lat, lon, aa, bb, an, r2] =>
      if allNonneg [sn, r, aa, bb, an, r2] then
        some (outBytes (GBCExt.encode ⟨nat! sn, nat! r, pv, lat, lon, nat! aa, nat! bb, nat! an, nat! r2⟩)) else none
    | _, _, _ => none
  | "tsb", _ =>
    match a.take 2, mkLpv (a.drop 2) with
    | [sn, r], some pv => if allNonneg [sn, r] then some (outBytes (TSBExt.encode ⟨nat! sn, nat! r, pv⟩)) else none
    | _, _ => none
  | "guc", _ =>
    match a.take 2, mkLpv ((a.drop 2).take 9), mkSpv (a.drop 11) with
    | [sn, r], some pv, some de =>
      if allNonneg [sn, r] then some (outBytes (GUCExt.encode ⟨nat! sn, nat! r, pv, de⟩)) else none
    | _, _, _ => none
  | "lsq", _ =>
    match a.take 2, mkLpv ((a.drop 2).take 9), mkAddr (a.drop 11) with
    | [sn, r], some pv, some ad =>
      if allNonneg [sn, r] then some (outBytes (LSReqExt.encode ⟨nat! sn, nat! r, pv, ad⟩)) else none
    | _, _, _ => none
  | "btp", [d, s] => if allNonneg a then some (outBytes (BTPHeader.encode ⟨nat! d, nat! s⟩)) else none
  | _, _ => none

def decOp (hdr : String) (bs : Bytes) : Option String :=
  match hdr with
  | "bh" => some (outDec (fun (h : BasicHeader) => [(h.version : Int), h.nh, h.reserved, h.lt.mult, h.lt.base, h.rhl]) (BasicHeader.decode bs))
  | "ch" => some (outDec (fun (h : CommonHeader) =>
      [(h.nh : Int), h.reserved, h.ht, h.hst, b2n h.tc.scf, b2n h.tc.channelOffload, h.tc.tcId, h.flags, h.pl, h.mhl])
      (CommonHeader.decode bs))
  | "ga" => some (outDec addrOut (GNAddr.decode bs))
  | "lpv" => some (outDec lpvOut (LongPV.decode bs))
  | "spv" => some (outDec spvOut (ShortPV.decode bs))
  | "gbc" => some (outDec (fun (h : GBCExt) => [(h.sn : Int), h.reserved] ++ lpvOut h.soPv ++
      [h.lat, h.lon, (h.a : Int), h.b, h.angle, h.reserved2]) (GBCExt.decode bs))
  | "tsb" => some (outDec (fun (h : TSBExt) => [(h.sn : Int), h.reserved] ++ lpvOut h.soPv) (TSBExt.decode bs))
  | "guc" => some (outDec (fun (h : GUCExt) => [(h.sn : Int), h.reserved] ++ lpvOut h.soPv ++ spvOut h.dePv) (GUCExt.decode bs))
  | "lsq" => some (outDec (fun (h : LSReqExt) => [(h.sn : Int), h.reserved] ++ lpvOut h.soPv ++ addrOut h.reqAddr) (LSReqExt.decode bs))
  | "btp" => let h := BTPHeader.decode bs; some (joinInt [h.dport, h.second])
  | _ => none

def mkVariant : List Int → Option Variant
  | [c, b, v] => some ⟨bool! c, bool! b, bool! v⟩
  | _ => none

def mkMib : List Int → Option Mib
  | [ver, mob, dhl, dl, tc] =>
    if allNonneg [ver, mob, dhl, dl, tc] then some ⟨nat! ver, nat! mob, nat! dhl, nat! dl, nat! tc⟩ else none
  | _ => none

/-- nh ht hst scf co tcid length mhl lifeMs(-1 = none) areaLat areaLon a b angle -/
def mkReq (data : Bytes) : List Int → Option Request
  | [nh, ht, hst, scf, co, id, len, mhl, life, alat, alon, a, b, ang] =>
    if allNonneg [nh, ht, hst, id, len, mhl, a, b, ang] then
      some { nh := nat! nh, ht := nat! ht, hst := nat! hst, tc := ⟨bool! scf, bool! co, nat! id⟩, length := nat! len,
             data, area := ⟨alat, alon, nat! a, nat! b, nat! ang⟩, maxHopLimit := nat! mhl,
             lifetimeMs := if life < 0 then none else some (nat! life) }
    else none
  | _ => none

/-- one event token of an `rx` line: `E<tid>:<hex>` (enter, secured message), `L<tid>` (leave),
`F<tid>:<version,nh,reserved,mult,base,rhl>:<hex>` (`_forward_pdu` with that basic header; hex = common ‖ extended ‖ payload) -/
def rxEv? (tok : String) : Option RxEv :=
  match tok.splitOn ":" with
  | [k] =>
    match k.toList with
    | 'L' :: t => do let t ← nat? (String.ofList t); some (.leave t)
    | _ => none
  | [k, hex] =>
    match k.toList with
    | 'E' :: t => do
      let t ← nat? (String.ofList t)
      let m ← parseHex hex
      some (.enter t m)
    | _ => none
  | [k, bh, hex] =>
    match k.toList with
    | 'F' :: t => do
      let t ← nat? (String.ofList t)
      let a ← ints? (bh.splitOn ",")
      let tail ← parseHex hex
      match a with
      | [v, nh, r, mu, ba, rhl] =>
        if allNonneg a then some (.forward t ⟨nat! v, nat! nh, nat! r, ⟨nat! mu, nat! ba⟩, nat! rhl⟩ tail) else none
      | _ => none
    | _ => none
  | _ => none

/-- `rx <threadLocal 0/1> <event>…` -> the PDUs handed to the link layer in order, `<tid>:<hex|error>`; `-` if none -/
def rxOp (t : List String) : Option String :=
  match t with
  | tl :: evs => do
    let tl ← nat? tl
    let es ← evs.mapM rxEv?
    let outs := rxRun (tl != 0) RxStore.empty es
    some (if outs.isEmpty then "-" else " ".intercalate (outs.map fun o => toString o.1 ++ ":" ++ outBytes o.2))
  | _ => none

/-- `btp req <btp_type> <source_port> <destination_port> <destination_port_info> <declared length> <payload hex>` ->
`<length> <data hex>` of the GN-DATA.request built by `btp_data_request` | exception name -/
def btpOp (t : List String) : Option String :=
  match t with
  | ["req", ty, sp, dp, dpi, decl, hex] => do
    let a ← [ty, sp, dp, dpi, decl].mapM nat?
    let data ← parseHex hex
    match a with
    | [ty, sp, dp, dpi, decl] =>
      let q : BtpRequest := ⟨ty, sp, dp, dpi, decl, data, 5, 0, ⟨false, false, 0⟩, ⟨0, 0, 0, 0, 0⟩, 1, none⟩
      some (match btpGnRequest true q with
            | .ok r => toString r.length ++ " " ++ toHex r.data
            | .error e => e.name)
    | _ => none
  | _ => none

/-- `pkt <kind> …` : kinds beacon shb gbc guc lsq lsr (variant 3, mib 5, then the arguments) / fwd / fwdr / btp -/
def pktOp (t : List String) : Option String :=
  match t with
  | ["fwd", hex] => do
    let bs ← parseHex hex
    some (outOptBytes (forwardPacket none bs))
  | ["fwdr", m, st, mid, tst, lat, lon, hex] => do     -- forwarding with a DE PV refresh from the location table
    let a ← ints? [m, st, mid, tst, lat, lon]
    let pv ← mkSpv a
    let bs ← parseHex hex
    some (outOptBytes (forwardPacket (some pv) bs))
  | ["fwds", kept, hex, plain] => do                  -- forwarding of a secured packet (envelope kept 1 / stripped 0)
    let k ← nat? kept
    let bs ← parseHex hex
    let pl ← parseHex plain
    some (outOptBytes (forwardSecured (k != 0) none bs pl))
  | ["btp", d, s, hex] => do
    let d ← nat? d
    let s ← nat? s
    let bs ← parseHex hex
    some (outBytes (btpWrap ⟨d, s⟩ bs))
  | kind :: rest => do
    let hasData := kind = "shb" ∨ kind = "gbc" ∨ kind = "guc"
    let data ← if hasData then (rest.getLast?.bind parseHex) else some []
    let a ← ints? (if hasData then rest.dropLast else rest)
    let v ← mkVariant (a.take 3)
    let mib ← mkMib ((a.drop 3).take 5)
    let a := a.drop 8
    match kind with
    | "beacon" => do
      let ego ← mkLpv a
      some (outBytes (beaconPacket v mib ego))
    | "shb" => do
      let r ← mkReq data (a.take 14)
      let ego ← mkLpv (a.drop 14)
      some (outBytes (shbPacket v mib r ego))
    | "gbc" => do
      let r ← mkReq data (a.take 14)
      let sn ← (a.drop 14).head?
      let ego ← mkLpv (a.drop 15)
      if sn < 0 then none else some (outBytes (gbcPacket v mib r (nat! sn) ego))
    | "guc" => do
      let r ← mkReq data (a.take 14)
      let sn ← (a.drop 14).head?
      let ego ← mkLpv ((a.drop 15).take 9)
      let de ← mkSpv (a.drop 24)
      if sn < 0 then none else some (outBytes (gucPacket v mib r (nat! sn) ego de))
    | "lsq" => do
      let sn ← a.head?
      let ego ← mkLpv ((a.drop 1).take 9)
      let ad ← mkAddr (a.drop 10)
      if sn < 0 then none else some (outBytes (lsRequestPacket v mib (nat! sn) ego ad))
    | "lsr" => do
      let sn ← a.head?
      let ego ← mkLpv ((a.drop 1).take 9)
      let de ← mkSpv (a.drop 10)
      if sn < 0 then none else some (outBytes (lsReplyPacket v mib (nat! sn) ego de))
    | _ => none
  | _ => none

def wireStep (_ : Unit) (t : List String) : Unit × String :=
  let r : Option String :=
    match t with
    | "spec.pack" :: l :: args => do
      let lay ← layout? l
      let vs ← ints? args
      if vs.length ≠ lay.length then none
      else some (toHex (toBytesBE (lay.bits / 8) (Spec.pack lay vs)))
    | ["spec.unpack", l, hex] => do
      let lay ← layout? l
      let bs ← parseHex hex
      if bs.length * 8 ≠ lay.bits then none else some (joinInt (Spec.unpack lay (fromBytesBE bs)))
    | ["tc.dec", n] => do
      let n ← nat? n
      let t := TrafficClass.decodeInt n
      some (joinNat [b2n t.scf, b2n t.channelOffload, t.tcId])
    | "pkt" :: rest => pktOp rest
    | "rx" :: rest => rxOp rest
    | "btp" :: rest => btpOp rest
    | op :: args =>
      match op.splitOn "." with
      | [hdr, "enc"] => do
        let a ← ints? args
        encOp hdr a
      | [hdr, "dec"] =>
        match args with
        | [hex] => do
          let bs ← parseHex hex
          decOp hdr bs
        | _ => none
      | _ => none
    | _ => none
  ((), r.getD "bad-op")

def wireDomain : Domain := { σ := Unit, init := (), step := wireStep }

end FlexModel.Wire

/-
Helpers shared by the bridge modules `Props/C02Bridge*.lean` (mechanism C of DESIGN section 3): how the flat tuples
returned by the extracted definitions (`Generated/Extracted*.lean`, one component per leaf field in declared
order) relate to the structures of the hand model (`FlexModel/Wire/Headers.lean`), the tactic that finishes a
goal between two `Except` computations, and a few facts about the octet primitives.
No model definition is changed here.
-/
import FlexModel.Wire.Packet
import FlexModel.Wire.BitsLemmas
import Generated.ExtractPrelude

namespace FlexModel.Wire.Bridge
open FlexModel.Wire FlexModel.Geo Generated.Extracted

/-- `enumOf` of the extraction prelude is the model's `enum?` -/
theorem enumOf_eq (c : List Nat) (v : Nat) : enumOf c v = enum? c v := rfl

/-! ### model structure -> flat tuple of leaf fields (declared order of the Python dataclass) -/
@[simp] def flatBasic (h : BasicHeader) : Nat × Nat × Nat × Nat × Nat × Nat :=
  (h.version, h.nh, h.reserved, h.lt.mult, h.lt.base, h.rhl)
@[simp] def flatTC (t : TrafficClass) : Bool × Bool × Nat := (t.scf, t.channelOffload, t.tcId)
@[simp] def flatCommon (h : CommonHeader) : Nat × Nat × Nat × Nat × Bool × Bool × Nat × Nat × Nat × Nat :=
  (h.nh, h.reserved, h.ht, h.hst, h.tc.scf, h.tc.channelOffload, h.tc.tcId, h.flags, h.pl, h.mhl)
@[simp] def flatBTP (h : BTPHeader) : Nat × Nat := (h.dport, h.second)

/-! ### flat tuple -> model structure where the Python object keeps octets the model abstracts to a number
(`MID.mid : bytes` of exactly 6 octets <-> `GNAddr.mid : Nat`) -/
@[simp] def absAddr (t : Nat × Nat × Bytes) : GNAddr := ⟨t.1, t.2.1, fromBytesBE t.2.2⟩
@[simp] def absLPV (t : Nat × Nat × Bytes × Nat × Int × Int × Bool × Int × Nat) : LongPV :=
  ⟨⟨t.1, t.2.1, fromBytesBE t.2.2.1⟩, t.2.2.2.1, t.2.2.2.2.1, t.2.2.2.2.2.1, t.2.2.2.2.2.2.1, t.2.2.2.2.2.2.2.1, t.2.2.2.2.2.2.2.2⟩
@[simp] def absSPV (t : Nat × Nat × Bytes × Nat × Int × Int) : ShortPV :=
  ⟨⟨t.1, t.2.1, fromBytesBE t.2.2.1⟩, t.2.2.2.1, t.2.2.2.2.1, t.2.2.2.2.2⟩

theorem map_eq_bind {α β : Type} (f : α → β) (x : Except Err α) : Except.map f x = x >>= fun a => pure (f a) := by
  cases x <;> rfl

/-- finish `extracted = model` between two `Except` computations after unfolding: (1) monad normal form, the
common prefix of binds is stripped, remaining conditionals are split; or (2) case analysis on every bind and
conditional, then simplification.  Insensitive to renamed locals / reordered independent pure statements. -/
macro "except_cases" : tactic =>
  `(tactic| first
     | with_reducible rfl
     | (simp only [map_eq_bind, bind_assoc, pure_bind, bind_pure]
        repeat (apply bind_congr; intro _)
        repeat' split
        all_goals (first | with_reducible rfl | (subst_vars; simp_all; done) | (simp_all; done) | rfl)
        done)
     | (simp only [bind, Except.bind, Except.map, pure, Except.pure]
        repeat' split
        all_goals (first | with_reducible rfl | (subst_vars; simp_all; done) | (simp_all; done) | rfl)))

theorem lor_left_comm (a b c : Nat) : a ||| (b ||| c) = b ||| (a ||| c) := by
  rw [← Nat.or_assoc, Nat.or_comm a b, Nat.or_assoc]

/-- equality of two `|||`-combinations of the same operands in any order / association, by AC-normalisation with
`simp` (plain `rfl` / `ac_rfl` are avoided: they evaluate `x <<< 28` by `whnf` and time out when the two sides
are not syntactically equal) -/
macro "lor_ac" : tactic =>
  `(tactic| first
     | with_reducible rfl
     | (simp only [Nat.or_assoc, Nat.or_comm, lor_left_comm]; done))

/-! ### octet primitives -/
theorem slice_wf (bs : Bytes) (h : bs.WF) (a b : Nat) : (slice bs a b).WF := by
  intro x hx
  exact h x (List.mem_of_mem_drop (List.mem_of_mem_take hx))

theorem slice_length (bs : Bytes) (a b : Nat) (h : b ≤ bs.length) : (slice bs a b).length = b - a := by
  simp [slice]; omega

/-- `b"\x00\x00" + mid` read big-endian is `mid` read big-endian -/
theorem fromBytesBE_zero_zero (mid : Bytes) : fromBytesBE ([0, 0] ++ mid) = fromBytesBE mid := by
  simp [fromBytesBE]

theorem and_mask32 (x : Nat) : x &&& 4294967295 = x % 2 ^ 32 := by
  simp only [show (4294967295 : Nat) = 2 ^ 32 - 1 from rfl, Nat.and_two_pow_sub_one_eq_mod]

theorem and_mask15 (x : Nat) : x &&& 32767 = x % 2 ^ 15 := by
  simp only [show (32767 : Nat) = 2 ^ 15 - 1 from rfl, Nat.and_two_pow_sub_one_eq_mod]

end FlexModel.Wire.Bridge

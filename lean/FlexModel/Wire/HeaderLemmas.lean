/-
Helper lemmas for Props/C02.lean: bit-operation ↔ arithmetic conversions, enum tables, byte slices,
and per header the arithmetic form of the encoder, its conformance to `Spec.pack`, and the round trip.
-/
import FlexModel.Wire.SpecLemmas

namespace FlexModel.Wire
open Generated.WireEnums
open Spec (pack packAux encField Layout)

/-- `omega` after evaluating literal powers (omega itself overflows its recursion depth on `x * 2 ^ 128`) -/
macro "pomega" : tactic => `(tactic| ((try simp only [Nat.reducePow] at *); omega))

/-! ### tools -/
theorem shl_or_add (a k b : Nat) (h : b < 2 ^ k) : a <<< k ||| b = a <<< k + b := by
  rw [Nat.shiftLeft_add_eq_or_of_lt h]

theorem and_1 (x : Nat) : x &&& 1 = x % 2 := Nat.and_two_pow_sub_one_eq_mod x 1
theorem and_3 (x : Nat) : x &&& 3 = x % 4 := Nat.and_two_pow_sub_one_eq_mod x 2
theorem and_15 (x : Nat) : x &&& 15 = x % 16 := Nat.and_two_pow_sub_one_eq_mod x 4
theorem and_63 (x : Nat) : x &&& 63 = x % 64 := Nat.and_two_pow_sub_one_eq_mod x 6
theorem and_255 (x : Nat) : x &&& 255 = x % 256 := Nat.and_two_pow_sub_one_eq_mod x 8
theorem and_65535 (x : Nat) : x &&& 65535 = x % 65536 := Nat.and_two_pow_sub_one_eq_mod x 16

/-- `x & 0x80` keeps bit 7 -/
theorem and_128 (x : Nat) : x &&& 128 = x / 128 % 2 * 128 := by
  have h1 : x &&& 128 ≤ 128 := Nat.and_le_right
  have h2 : (x &&& 128) % 2 ^ 8 = (x % 2 ^ 8) &&& (128 % 2 ^ 8) := Nat.and_mod_two_pow
  have h3 : ∀ r, r < 256 → r &&& 128 = r / 128 % 2 * 128 := by decide +kernel
  have h4 := h3 (x % 256) (by omega)
  simp only [Nat.reducePow, Nat.reduceMod] at h2
  omega

/-- first octet of a GN address: `(b & 0x80) >> 7` is the M bit, `(b & 0x7C) >> 2` the 5 ST bits -/
theorem octet_m (x : Nat) (hx : x < 256) : (x &&& 128) >>> 7 = x / 128 := by
  have h3 : ∀ r, r < 256 → (r &&& 128) >>> 7 = r / 128 := by decide +kernel
  exact h3 x hx
theorem octet_st (x : Nat) (hx : x < 256) : (x &&& 124) >>> 2 = x / 4 % 32 := by
  have h3 : ∀ r, r < 256 → (r &&& 124) >>> 2 = r / 4 % 32 := by decide +kernel
  exact h3 x hx

/-- the `w`-bit field at bit offset `k` of `x = hi·2^k + lo` -/
theorem field_at (x hi lo k m f : Nat) (hx : x = hi * 2 ^ k + lo) (hlo : lo < 2 ^ k) (hf : hi % m = f) :
    x / 2 ^ k % m = f := by
  have : x / 2 ^ k = hi := by
    rw [hx, Nat.mul_comm, Nat.mul_add_div (Nat.two_pow_pos _), Nat.div_eq_of_lt hlo]; simp
  rw [this, hf]

theorem div_at (x hi lo k : Nat) (hx : x = hi * 2 ^ k + lo) (hlo : lo < 2 ^ k) : x / 2 ^ k = hi := by
  rw [hx, Nat.mul_comm, Nat.mul_add_div (Nat.two_pow_pos _), Nat.div_eq_of_lt hlo]; simp

/-! two's complement (32 and 15 bit instances) -/
theorem toTwos32_lt (v : Int) : toTwos 32 v < 4294967296 := by unfold toTwos; omega
theorem toTwos15_lt (v : Int) : toTwos 15 v < 32768 := by unfold toTwos; omega

theorem fromTwos32_toTwos (v : Int) (h : inS32 v) (x : Nat) : fromTwos 32 (x * 4294967296 + toTwos 32 v) = v := by
  unfold inS32 at h; unfold fromTwos toTwos
  simp only [Nat.shiftRight_eq_div_pow]
  split <;> omega

theorem fromTwos15_toTwos (v : Int) (h : inS15 v) (x : Nat) : fromTwos 15 (x * 32768 + toTwos 15 v) = v := by
  unfold inS15 at h; unfold fromTwos toTwos
  simp only [Nat.shiftRight_eq_div_pow]
  split <;> omega

/-- Python's mask and the textbook two's complement of the standard agree on the field's range -/
theorem toTwos32_spec (v : Int) (h : inS32 v) :
    toTwos 32 v = (if v < 0 then (v + 4294967296).toNat else v.toNat) % 4294967296 := by
  unfold inS32 at h; unfold toTwos; split <;> omega

theorem toTwos15_spec (v : Int) (h : inS15 v) :
    toTwos 15 v = (if v < 0 then (v + 32768).toNat else v.toNat) % 32768 := by
  unfold inS15 at h; unfold toTwos; split <;> omega

theorem b2n_lt (b : Bool) : b2n b < 2 := by unfold b2n; split <;> omega

theorem b2n_ne_zero (x : Nat) (h : x < 2) : b2n (x != 0) = x := by
  unfold b2n; by_cases h0 : x = 0 <;> simp [h0]; omega

theorem ne_zero_b2n (b : Bool) : (b2n b != 0) = b := by cases b <;> simp [b2n]

theorem toBytes?_ok {len n : Nat} (h : n < 256 ^ len) : toBytes? len n = .ok (toBytesBE len n) := by
  simp [toBytes?, h]

theorem enum?_mem {codes : List Nat} {v : Nat} (h : v ∈ codes) : enum? codes v = .ok v := by
  simp [enum?, h]

theorem enum?_ok {codes : List Nat} {v x : Nat} (h : enum? codes v = .ok x) : x = v ∧ v ∈ codes := by
  unfold enum? at h
  split at h
  · rename_i hc
    injection h with h
    exact ⟨h.symm, by simpa using hc⟩
  · cases h

/-- the enum tables read from the source equal the code points of the standard (re-checked on every run) -/
theorem tables :
    BasicNH_values = Spec.basicNH ∧ CommonNH_values = Spec.commonNH ∧ HeaderType_values = Spec.headerTypes ∧
    ST_values = Spec.stationTypes ∧ LTbase_values = [0, 1, 2, 3] ∧ M_values = [0, 1] ∧ GnIsMobile_values = [0, 1] ∧
    (∀ ht ∈ Spec.headerTypes, hstCodes ht = Spec.subTypes ht) := by
  decide

/-! ### octet strings: splitting and slicing -/
theorem toBytesBE_split (a b x : Nat) : toBytesBE (a + b) x = toBytesBE a (x / 256 ^ b) ++ toBytesBE b x := by
  induction b generalizing x with
  | zero => simp [toBytesBE]
  | succ k ih =>
    show toBytesBE (a + k + 1) x = _
    simp only [toBytesBE, ih (x / 256), Nat.div_div_eq_div_mul, List.append_assoc]
    rw [Nat.pow_succ, Nat.mul_comm]

theorem toBytesBE_mod (b x : Nat) : toBytesBE b (x % 256 ^ b) = toBytesBE b x := by
  induction b generalizing x with
  | zero => simp [toBytesBE]
  | succ k ih =>
    simp only [toBytesBE]
    have h1 : x % 256 ^ (k + 1) % 256 = x % 256 := by
      rw [Nat.pow_succ, Nat.mul_comm]; exact Nat.mod_mul_right_mod x 256 (256 ^ k)
    have h2 : x % 256 ^ (k + 1) / 256 = x / 256 % 256 ^ k := by
      rw [Nat.pow_succ, Nat.mul_comm, Nat.mod_mul_right_div_self]
    rw [h1, h2, ih]

theorem slice_append_right (xs ys : Bytes) (i j : Nat) (h : xs.length ≤ i) :
    slice (xs ++ ys) i j = slice ys (i - xs.length) (j - xs.length) := by
  unfold slice
  rw [List.drop_append_of_le_length' h]
  congr 1; omega
  where
    List.drop_append_of_le_length' {xs ys : Bytes} {i : Nat} (h : xs.length ≤ i) :
        (xs ++ ys).drop i = ys.drop (i - xs.length) := by
      rw [List.drop_append]; simp [List.drop_eq_nil_of_le h]

theorem slice_append_left (xs ys : Bytes) (i j : Nat) (h : j ≤ xs.length) :
    slice (xs ++ ys) i j = slice xs i j := by
  unfold slice
  rw [List.drop_append, List.take_append]
  have : j - i - (xs.drop i).length = 0 := by simp; omega
  simp only [this, List.take_zero, List.append_nil]

theorem slice_all (xs : Bytes) (j : Nat) (h : xs.length ≤ j) : slice xs 0 j = xs := by
  unfold slice; simp [List.take_of_length_le h]

theorem slice_prefix (xs ys : Bytes) (j : Nat) (h : j = xs.length) : slice (xs ++ ys) 0 j = xs := by
  rw [slice_append_left _ _ _ _ (by omega), slice_all _ _ (by omega)]

/-! ### basic header -/
theorem BasicHeader.encodeInt_arith (h : BasicHeader) (wf : h.WF) :
    h.encodeInt = h.version * 2 ^ 28 + h.nh * 2 ^ 24 + h.reserved * 2 ^ 16 + (h.lt.mult * 4 + h.lt.base) * 2 ^ 8 + h.rhl := by
  obtain ⟨h1, h2, h3, h4, h5, h6⟩ := wf
  have h2' : h.nh < 3 := by
    simp only [Spec.basicNH, List.mem_cons, List.mem_nil_iff, or_false] at h2; omega
  simp only [BasicHeader.encodeInt]
  simp only [Nat.or_assoc]
  simp (disch := omega) only [shl_or_add]
  simp only [Nat.shiftLeft_eq]
  omega

theorem BasicHeader.encodeInt_eq_pack (h : BasicHeader) (wf : h.WF) :
    h.encodeInt = pack Spec.basicHeader h.fields := by
  rw [BasicHeader.encodeInt_arith h wf]
  obtain ⟨h1, h2, h3, h4, h5, h6⟩ := wf
  have h2' : h.nh < 3 := by
    simp only [Spec.basicNH, List.mem_cons, List.mem_nil_iff, or_false] at h2; omega
  simp only [pack, packAux, Spec.basicHeader, BasicHeader.fields, encField, Int.toNat_natCast]
  simp
  omega

theorem BasicHeader.decodeInt_encodeInt (h : BasicHeader) (wf : h.WF) :
    BasicHeader.decodeInt h.encodeInt = .ok h := by
  have e := BasicHeader.encodeInt_arith h wf
  obtain ⟨h1, h2, h3, h4, h5, h6⟩ := wf
  have h2' : h.nh < 3 := by
    simp only [Spec.basicNH, List.mem_cons, List.mem_nil_iff, or_false] at h2; omega
  have a1 : h.encodeInt >>> 28 &&& 15 = h.version := by rw [and_15, Nat.shiftRight_eq_div_pow, e]; omega
  have a2 : h.encodeInt >>> 24 &&& 15 = h.nh := by rw [and_15, Nat.shiftRight_eq_div_pow, e]; omega
  have a3 : h.encodeInt >>> 16 &&& 255 = h.reserved := by rw [and_255, Nat.shiftRight_eq_div_pow, e]; omega
  have a4 : h.encodeInt >>> 10 &&& 63 = h.lt.mult := by rw [and_63, Nat.shiftRight_eq_div_pow, e]; omega
  have a5 : h.encodeInt >>> 8 &&& 3 = h.lt.base := by rw [and_3, Nat.shiftRight_eq_div_pow, e]; omega
  have a6 : h.encodeInt &&& 255 = h.rhl := by rw [and_255, e]; omega
  have m1 : enum? BasicNH_values h.nh = .ok h.nh := enum?_mem (by rw [tables.1]; exact h2)
  have m2 : enum? LTbase_values h.lt.base = .ok h.lt.base := by
    apply enum?_mem; rw [tables.2.2.2.2.1]
    simp only [List.mem_cons, List.mem_nil_iff, or_false]; omega
  simp only [BasicHeader.decodeInt, bind, Except.bind, pure, Except.pure, a1, a2, a3, a4, a5, a6, m1, m2]

theorem BasicHeader.encodeInt_lt (h : BasicHeader) (wf : h.WF) : h.encodeInt < 256 ^ 4 := by
  rw [BasicHeader.encodeInt_eq_pack h wf]
  exact Spec.pack_lt Spec.basicHeader _

/-! ### traffic class -/
theorem TrafficClass.encodeInt_arith (t : TrafficClass) (wf : t.WF) :
    t.encodeInt = b2n t.scf * 128 + b2n t.channelOffload * 64 + t.tcId := by
  have := b2n_lt t.scf
  have := b2n_lt t.channelOffload
  unfold TrafficClass.WF at wf
  simp only [TrafficClass.encodeInt]
  simp only [Nat.or_assoc]
  simp (disch := omega) only [shl_or_add]
  simp only [Nat.shiftLeft_eq]
  omega

theorem TrafficClass.encodeInt_eq_pack (t : TrafficClass) (wf : t.WF) :
    t.encodeInt = pack Spec.trafficClass t.fields := by
  rw [TrafficClass.encodeInt_arith t wf]
  have := b2n_lt t.scf
  have := b2n_lt t.channelOffload
  unfold TrafficClass.WF at wf
  simp only [pack, packAux, Spec.trafficClass, TrafficClass.fields, encField, Int.toNat_natCast]
  simp
  omega

theorem TrafficClass.decode_arith (x : Nat) (s c : Bool) (i : Nat) (hi : i < 64)
    (hx : x = b2n s * 128 + b2n c * 64 + i) : TrafficClass.decodeInt x = ⟨s, c, i⟩ := by
  have hs := b2n_lt s
  have hc := b2n_lt c
  have e1 : x >>> 7 &&& 1 = b2n s := by rw [and_1, Nat.shiftRight_eq_div_pow, hx]; omega
  have e2 : x >>> 6 &&& 1 = b2n c := by rw [and_1, Nat.shiftRight_eq_div_pow, hx]; omega
  have e3 : x &&& 63 = i := by rw [and_63, hx]; omega
  simp only [TrafficClass.decodeInt, e1, e2, e3, ne_zero_b2n]

theorem TrafficClass.decode_encode (t : TrafficClass) (wf : t.WF) : TrafficClass.decodeInt t.encodeInt = t :=
  TrafficClass.decode_arith _ t.scf t.channelOffload t.tcId wf (TrafficClass.encodeInt_arith t wf)

/-! ### common header -/
theorem hst_lt {ht hst : Nat} (h : hst ∈ Spec.subTypes ht) : hst < 3 := by
  unfold Spec.subTypes at h
  split at h <;> simp only [List.mem_cons, List.mem_nil_iff, or_false] at h <;> omega

theorem CommonHeader.encodeInt_arith (h : CommonHeader) (wf : h.WF) :
    h.encodeInt = h.nh * 2 ^ 60 + h.reserved * 2 ^ 56 + h.ht * 2 ^ 52 + h.hst * 2 ^ 48 +
      (b2n h.tc.scf * 128 + b2n h.tc.channelOffload * 64 + h.tc.tcId) * 2 ^ 40 + h.flags * 2 ^ 32 + h.pl * 2 ^ 16 +
      h.mhl * 2 ^ 8 + h.reserved := by
  obtain ⟨h1, h2, h3, h4, h5, h6, h7, h8⟩ := wf
  have h1' : h.nh < 4 := by simp only [Spec.commonNH, List.mem_cons, List.mem_nil_iff, or_false] at h1; omega
  have h3' : h.ht < 7 := by simp only [Spec.headerTypes, List.mem_cons, List.mem_nil_iff, or_false] at h3; omega
  have h4' := hst_lt h4
  have := b2n_lt h.tc.scf
  have := b2n_lt h.tc.channelOffload
  have h5' : h.tc.tcId < 64 := h5
  simp only [CommonHeader.encodeInt, TrafficClass.encodeInt_arith h.tc h5]
  simp only [Nat.or_assoc]
  simp (disch := omega) only [shl_or_add]
  simp only [Nat.shiftLeft_eq]
  omega

theorem CommonHeader.encodeInt_eq_pack (h : CommonHeader) (wf : h.WF) :
    h.encodeInt = pack Spec.commonHeader h.fields := by
  rw [CommonHeader.encodeInt_arith h wf]
  obtain ⟨h1, h2, h3, h4, h5, h6, h7, h8⟩ := wf
  have h1' : h.nh < 4 := by simp only [Spec.commonNH, List.mem_cons, List.mem_nil_iff, or_false] at h1; omega
  have h3' : h.ht < 7 := by simp only [Spec.headerTypes, List.mem_cons, List.mem_nil_iff, or_false] at h3; omega
  have h4' := hst_lt h4
  have := b2n_lt h.tc.scf
  have := b2n_lt h.tc.channelOffload
  have h5' : h.tc.tcId < 64 := h5
  simp only [pack, packAux, Spec.commonHeader, CommonHeader.fields, TrafficClass.fields, encField, Int.toNat_natCast,
    List.cons_append, List.nil_append]
  simp
  omega

theorem CommonHeader.decodeInt_encodeInt (h : CommonHeader) (wf : h.WF) (fc : h.FlagsConformant) :
    CommonHeader.decodeInt h.encodeInt = .ok h := by
  have e := CommonHeader.encodeInt_arith h wf
  obtain ⟨h1, h2, h3, h4, h5, h6, h7, h8⟩ := wf
  have h1' : h.nh < 4 := by simp only [Spec.commonNH, List.mem_cons, List.mem_nil_iff, or_false] at h1; omega
  have h3' : h.ht < 7 := by simp only [Spec.headerTypes, List.mem_cons, List.mem_nil_iff, or_false] at h3; omega
  have h4' := hst_lt h4
  have hs := b2n_lt h.tc.scf
  have hc := b2n_lt h.tc.channelOffload
  have h5' : h.tc.tcId < 64 := h5
  unfold CommonHeader.FlagsConformant at fc
  generalize htc : b2n h.tc.scf * 128 + b2n h.tc.channelOffload * 64 + h.tc.tcId = tc at e
  have htc' : tc < 256 := by omega
  have a1 : h.encodeInt >>> 60 &&& 15 = h.nh := by
    rw [and_15, Nat.shiftRight_eq_div_pow]
    exact field_at _ h.nh (h.reserved * 2 ^ 56 + h.ht * 2 ^ 52 + h.hst * 2 ^ 48 + tc * 2 ^ 40 + h.flags * 2 ^ 32 +
      h.pl * 2 ^ 16 + h.mhl * 2 ^ 8 + h.reserved) 60 16 _ (by rw [e]; omega) (by omega) (by omega)
  have a2 : h.encodeInt >>> 52 &&& 15 = h.ht := by
    rw [and_15, Nat.shiftRight_eq_div_pow]
    exact field_at _ (h.nh * 256 + h.reserved * 16 + h.ht) (h.hst * 2 ^ 48 + tc * 2 ^ 40 + h.flags * 2 ^ 32 +
      h.pl * 2 ^ 16 + h.mhl * 2 ^ 8 + h.reserved) 52 16 _ (by rw [e]; omega) (by omega) (by omega)
  have a3 : h.encodeInt >>> 48 &&& 15 = h.hst := by
    rw [and_15, Nat.shiftRight_eq_div_pow]
    exact field_at _ (h.nh * 4096 + h.reserved * 256 + h.ht * 16 + h.hst) (tc * 2 ^ 40 + h.flags * 2 ^ 32 +
      h.pl * 2 ^ 16 + h.mhl * 2 ^ 8 + h.reserved) 48 16 _ (by rw [e]; omega) (by omega) (by omega)
  have a4 : h.encodeInt >>> 40 &&& 255 = tc := by
    rw [and_255, Nat.shiftRight_eq_div_pow]
    exact field_at _ (h.nh * 2 ^ 20 + h.reserved * 2 ^ 16 + h.ht * 2 ^ 12 + h.hst * 2 ^ 8 + tc) (h.flags * 2 ^ 32 +
      h.pl * 2 ^ 16 + h.mhl * 2 ^ 8 + h.reserved) 40 256 _ (by rw [e]; omega) (by omega) (by omega)
  have a5 : h.encodeInt >>> 32 &&& 128 = h.flags := by
    rw [and_128, Nat.shiftRight_eq_div_pow]
    have : h.encodeInt / 2 ^ 32 % 256 = h.flags :=
      field_at _ (h.nh * 2 ^ 28 + h.reserved * 2 ^ 24 + h.ht * 2 ^ 20 + h.hst * 2 ^ 16 + tc * 2 ^ 8 + h.flags)
        (h.pl * 2 ^ 16 + h.mhl * 2 ^ 8 + h.reserved) 32 256 _ (by rw [e]; omega) (by omega) (by omega)
    omega
  have a6 : h.encodeInt >>> 16 &&& 65535 = h.pl := by
    rw [and_65535, Nat.shiftRight_eq_div_pow]
    exact field_at _ (h.nh * 2 ^ 44 + h.reserved * 2 ^ 40 + h.ht * 2 ^ 36 + h.hst * 2 ^ 32 + tc * 2 ^ 24 + h.flags * 2 ^ 16 + h.pl)
      (h.mhl * 2 ^ 8 + h.reserved) 16 65536 _ (by rw [e]; omega) (by omega) (by omega)
  have a7 : h.encodeInt >>> 8 &&& 255 = h.mhl := by
    rw [and_255, Nat.shiftRight_eq_div_pow]
    exact field_at _ (h.nh * 2 ^ 52 + h.reserved * 2 ^ 48 + h.ht * 2 ^ 44 + h.hst * 2 ^ 40 + tc * 2 ^ 32 + h.flags * 2 ^ 24 +
      h.pl * 2 ^ 8 + h.mhl) h.reserved 8 256 _ (by rw [e]; omega) (by omega) (by omega)
  have a8 : h.encodeInt &&& 255 = h.reserved := by rw [and_255, e]; omega
  have m1 : enum? CommonNH_values h.nh = .ok h.nh := enum?_mem (by rw [tables.2.1]; exact h1)
  have m2 : enum? HeaderType_values h.ht = .ok h.ht := enum?_mem (by rw [tables.2.2.1]; exact h3)
  have m3 : enum? (hstCodes h.ht) h.hst = .ok h.hst := enum?_mem (by rw [tables.2.2.2.2.2.2.2 _ h3]; exact h4)
  have tcd := TrafficClass.decode_arith _ h.tc.scf h.tc.channelOffload h.tc.tcId h5 (a4.trans htc.symm)
  simp only [CommonHeader.decodeInt, bind, Except.bind, pure, Except.pure, a1, a2, a3, a5, a6, a7, a8, m1, m2, m3, tcd]

theorem CommonHeader.encodeInt_lt (h : CommonHeader) (wf : h.WF) : h.encodeInt < 256 ^ 8 := by
  rw [CommonHeader.encodeInt_eq_pack h wf]
  exact Spec.pack_lt Spec.commonHeader _

/-! ### GN address -/
theorem st_lt {st : Nat} (h : st ∈ Spec.stationTypes) : st < 32 := by
  simp only [Spec.stationTypes, List.mem_cons, List.mem_nil_iff, or_false] at h; omega

theorem GNAddr.encodeInt_arith (a : GNAddr) (wf : a.WF) : a.encodeInt = a.m * 2 ^ 63 + a.st * 2 ^ 58 + a.mid := by
  obtain ⟨h1, h2, h3⟩ := wf
  have h2' := st_lt h2
  simp only [Nat.reducePow] at h3
  simp only [GNAddr.encodeInt, Nat.or_assoc, ← Nat.shiftLeft_add, Nat.reduceAdd]
  simp (disch := omega) only [shl_or_add]
  simp only [Nat.shiftLeft_eq]
  omega

theorem GNAddr.encodeInt_eq_pack (a : GNAddr) (wf : a.WF) : a.encodeInt = pack Spec.gnAddr a.fields := by
  rw [GNAddr.encodeInt_arith a wf]
  obtain ⟨h1, h2, h3⟩ := wf
  have h2' := st_lt h2
  simp only [Nat.reducePow] at h3
  simp only [pack, packAux, Spec.gnAddr, GNAddr.fields, encField, Int.toNat_natCast]
  simp
  omega

theorem GNAddr.encodeInt_lt (a : GNAddr) (wf : a.WF) : a.encodeInt < 2 ^ 64 := by
  rw [GNAddr.encodeInt_eq_pack a wf]
  exact Spec.pack_lt Spec.gnAddr _

/-- decoding the 8 octets `x.to_bytes(8)` whose value is a well-formed address -/
theorem GNAddr.decode_encode (a : GNAddr) (wf : a.WF) : GNAddr.decode (toBytesBE 8 a.encodeInt) = .ok a := by
  have e := GNAddr.encodeInt_arith a wf
  obtain ⟨h1, h2, h3⟩ := wf
  have h2' := st_lt h2
  simp only [Nat.reducePow] at h3
  generalize a.encodeInt = x at e
  have s1 : toBytesBE 8 x = toBytesBE 2 (x / 256 ^ 6) ++ toBytesBE 6 x := toBytesBE_split 2 6 x
  have s2 : toBytesBE 2 (x / 256 ^ 6) = [x / 256 ^ 6 / 256 % 256, x / 256 ^ 6 % 256] := by simp [toBytesBE]
  have hb : x / 256 ^ 6 / 256 % 256 = a.m * 128 + a.st * 4 := by omega
  have hm : x % 256 ^ 6 = a.mid := by omega
  have m1 : enum? M_values a.m = .ok a.m := enum?_mem (by rw [tables.2.2.2.2.2.1]; simp; omega)
  have m2 : enum? ST_values a.st = .ok a.st := enum?_mem (by rw [tables.2.2.2.1]; exact h2)
  have o1 : ((a.m * 128 + a.st * 4) &&& 128) >>> 7 = a.m := by rw [octet_m _ (by omega)]; omega
  have o2 : ((a.m * 128 + a.st * 4) &&& 124) >>> 2 = a.st := by rw [octet_st _ (by omega)]; omega
  have sl : slice (toBytesBE 8 x) 2 8 = toBytesBE 6 x := by
    rw [s1, slice_append_right _ _ _ _ (by simp [toBytesBE_length]), toBytesBE_length]
    exact slice_all _ _ (by simp [toBytesBE_length])
  have g0 : (toBytesBE 8 x).getD 0 0 = a.m * 128 + a.st * 4 := by rw [s1, s2, ← hb]; rfl
  have len : ¬ ((toBytesBE 8 x).length < 8) := by simp [toBytesBE_length]
  simp only [GNAddr.decode, len, if_false, g0, o1, o2, m1, m2, sl, fromBytesBE_toBytesBE, hm, bind, Except.bind, pure,
    Except.pure]

/-! ### long position vector -/
theorem LongPV.encodeInt_arith (p : LongPV) (wf : p.WF) :
    p.encodeInt = p.addr.encodeInt * 2 ^ 128 + p.tst * 2 ^ 96 + toTwos 32 p.lat * 2 ^ 64 + toTwos 32 p.lon * 2 ^ 32 +
      b2n p.pai * 2 ^ 31 + toTwos 15 p.s * 2 ^ 16 + p.h := by
  obtain ⟨h1, h2, h3, h4, h5, h6⟩ := wf
  have := GNAddr.encodeInt_lt p.addr h1
  have := toTwos32_lt p.lat
  have := toTwos32_lt p.lon
  have := toTwos15_lt p.s
  have := b2n_lt p.pai
  simp only [Nat.reducePow] at *
  have ht : p.tst % 4294967296 = p.tst := by omega
  simp only [LongPV.encodeInt, Nat.reducePow, ht]
  simp only [Nat.or_assoc]
  simp (disch := omega) only [shl_or_add]
  simp only [Nat.shiftLeft_eq]
  omega

theorem LongPV.tail_pack (p : LongPV) (wf : p.WF) :
    pack [⟨"tst", 32, false⟩, ⟨"lat", 32, true⟩, ⟨"lon", 32, true⟩, ⟨"pai", 1, false⟩, ⟨"s", 15, true⟩, ⟨"h", 16, false⟩]
      [(p.tst : Int), p.lat, p.lon, (b2n p.pai : Int), p.s, (p.h : Int)] =
    p.tst * 2 ^ 96 + toTwos 32 p.lat * 2 ^ 64 + toTwos 32 p.lon * 2 ^ 32 + b2n p.pai * 2 ^ 31 + toTwos 15 p.s * 2 ^ 16 + p.h := by
  obtain ⟨h1, h2, h3, h4, h5, h6⟩ := wf
  have := toTwos32_lt p.lat
  have := toTwos32_lt p.lon
  have := toTwos15_lt p.s
  have := b2n_lt p.pai
  rw [toTwos32_spec p.lat h3, toTwos32_spec p.lon h4, toTwos15_spec p.s h5] at *
  simp only [pack, packAux, encField, Int.toNat_natCast]
  simp only [Nat.reducePow] at *
  simp
  omega

theorem LongPV.encodeInt_eq_pack (p : LongPV) (wf : p.WF) : p.encodeInt = pack Spec.longPV p.fields := by
  rw [LongPV.encodeInt_arith p wf]
  unfold Spec.longPV LongPV.fields
  rw [Spec.pack_append _ _ _ _ (by rfl), ← GNAddr.encodeInt_eq_pack p.addr wf.1, LongPV.tail_pack p wf]
  have : Layout.bits [⟨"tst", 32, false⟩, ⟨"lat", 32, true⟩, ⟨"lon", 32, true⟩, ⟨"pai", 1, false⟩, ⟨"s", 15, true⟩,
      ⟨"h", 16, false⟩] = 128 := by decide
  rw [this]
  omega

theorem LongPV.encodeInt_lt (p : LongPV) (wf : p.WF) : p.encodeInt < 256 ^ 24 := by
  rw [LongPV.encodeInt_eq_pack p wf]
  exact Spec.pack_lt Spec.longPV _

theorem lpv_split (A T LA LO P S H : Nat) (hT : T < 4294967296) (hLA : LA < 4294967296) (hLO : LO < 4294967296)
    (hP : P < 2) (hS : S < 32768) (hH : H < 65536) (n : Nat)
    (hn : n = A * 2 ^ 128 + T * 2 ^ 96 + LA * 2 ^ 64 + LO * 2 ^ 32 + P * 2 ^ 31 + S * 2 ^ 16 + H) :
    n / 2 ^ 128 = A ∧ n / 2 ^ 96 = A * 4294967296 + T ∧ n / 2 ^ 64 = (A * 4294967296 + T) * 4294967296 + LA ∧
    n / 2 ^ 32 = ((A * 4294967296 + T) * 4294967296 + LA) * 4294967296 + LO ∧
    n / 2 ^ 31 = (((A * 4294967296 + T) * 4294967296 + LA) * 4294967296 + LO) * 2 + P ∧
    n / 2 ^ 16 = ((((A * 4294967296 + T) * 4294967296 + LA) * 4294967296 + LO) * 2 + P) * 32768 + S ∧
    n % 65536 = H := by
  subst hn
  refine ⟨?_, ?_, ?_, ?_, ?_, ?_, ?_⟩ <;> omega

theorem LongPV.decode_encode (p : LongPV) (wf : p.WF) : LongPV.decode (toBytesBE 24 p.encodeInt) = .ok p := by
  have e := LongPV.encodeInt_arith p wf
  have lt := LongPV.encodeInt_lt p wf
  obtain ⟨h1, h2, h3, h4, h5, h6⟩ := wf
  have hdec := GNAddr.decode_encode p.addr h1
  simp only [Nat.reducePow] at h2
  obtain ⟨s1, s2, s3, s4, s5, s6, s7⟩ := lpv_split _ _ _ _ _ _ _ h2 (toTwos32_lt p.lat) (toTwos32_lt p.lon) (b2n_lt p.pai)
    (toTwos15_lt p.s) h6 _ e
  have len : ¬ ((toBytesBE 24 p.encodeInt).length < 24) := by simp [toBytesBE_length]
  have sl : fromBytesBE (slice (toBytesBE 24 p.encodeInt) 0 24) = p.encodeInt := by
    rw [slice_all _ _ (by simp [toBytesBE_length]), fromBytesBE_toBytesBE]; exact Nat.mod_eq_of_lt lt
  have d2 : p.encodeInt >>> 96 % 2 ^ 32 = p.tst := by rw [Nat.shiftRight_eq_div_pow, s2]; omega
  have d3 : fromTwos 32 (p.encodeInt >>> 64) = p.lat := by
    rw [Nat.shiftRight_eq_div_pow, s3]; exact fromTwos32_toTwos _ h3 _
  have d4 : fromTwos 32 (p.encodeInt >>> 32) = p.lon := by
    rw [Nat.shiftRight_eq_div_pow, s4]; exact fromTwos32_toTwos _ h4 _
  have d5 : p.encodeInt >>> 31 &&& 1 = b2n p.pai := by
    have := b2n_lt p.pai
    rw [and_1, Nat.shiftRight_eq_div_pow, s5]; omega
  have d6 : fromTwos 15 (p.encodeInt >>> 16) = p.s := by
    rw [Nat.shiftRight_eq_div_pow, s6]; exact fromTwos15_toTwos _ h5 _
  have d7 : p.encodeInt &&& 65535 = p.h := by rw [and_65535]; exact s7
  simp only [LongPV.decode, len, if_false, sl, Nat.shiftRight_eq_div_pow _ 128, s1, d2, d3, d4, d5, d6, d7, hdec,
    ne_zero_b2n, bind, Except.bind, pure, Except.pure]

end FlexModel.Wire

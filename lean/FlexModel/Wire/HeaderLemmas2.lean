/-
Helper lemmas for Props/C02.lean, part 2: short position vector, extended headers, BTP headers.
-/
import FlexModel.Wire.HeaderLemmas

namespace FlexModel.Wire
open Generated.WireEnums
open Spec (pack packAux encField Layout)

/-! ### short position vector -/
theorem ShortPV.encodeInt_arith (p : ShortPV) (wf : p.WF) :
    p.encodeInt = p.addr.encodeInt * 2 ^ 96 + p.tst * 2 ^ 64 + toTwos 32 p.lat * 2 ^ 32 + toTwos 32 p.lon := by
  obtain ⟨h1, h2, h3, h4⟩ := wf
  have := GNAddr.encodeInt_lt p.addr h1
  have := toTwos32_lt p.lat
  have := toTwos32_lt p.lon
  simp only [Nat.reducePow] at *
  have ht : p.tst % 4294967296 = p.tst := by omega
  simp only [ShortPV.encodeInt, Nat.reducePow, ht]
  simp only [Nat.or_assoc]
  simp (disch := omega) only [shl_or_add]
  simp only [Nat.shiftLeft_eq]
  omega

theorem ShortPV.tail_pack (p : ShortPV) (wf : p.WF) :
    pack [⟨"tst", 32, false⟩, ⟨"lat", 32, true⟩, ⟨"lon", 32, true⟩] [(p.tst : Int), p.lat, p.lon] =
    p.tst * 2 ^ 64 + toTwos 32 p.lat * 2 ^ 32 + toTwos 32 p.lon := by
  obtain ⟨h1, h2, h3, h4⟩ := wf
  have := toTwos32_lt p.lat
  have := toTwos32_lt p.lon
  rw [toTwos32_spec p.lat h3, toTwos32_spec p.lon h4] at *
  simp only [pack, packAux, encField, Int.toNat_natCast]
  simp only [Nat.reducePow] at *
  simp
  omega

theorem ShortPV.encodeInt_eq_pack (p : ShortPV) (wf : p.WF) : p.encodeInt = pack Spec.shortPV p.fields := by
  rw [ShortPV.encodeInt_arith p wf]
  unfold Spec.shortPV ShortPV.fields
  rw [Spec.pack_append _ _ _ _ (by rfl), ← GNAddr.encodeInt_eq_pack p.addr wf.1, ShortPV.tail_pack p wf]
  have : Layout.bits [⟨"tst", 32, false⟩, ⟨"lat", 32, true⟩, ⟨"lon", 32, true⟩] = 96 := by decide
  rw [this]
  omega

theorem ShortPV.encodeInt_lt (p : ShortPV) (wf : p.WF) : p.encodeInt < 256 ^ 20 := by
  rw [ShortPV.encodeInt_eq_pack p wf]
  exact Spec.pack_lt Spec.shortPV _

theorem spv_split (A T LA LO : Nat) (hT : T < 4294967296) (hLA : LA < 4294967296) (hLO : LO < 4294967296) (n : Nat)
    (hn : n = A * 2 ^ 96 + T * 2 ^ 64 + LA * 2 ^ 32 + LO) :
    n / 2 ^ 96 = A ∧ n / 2 ^ 64 = A * 4294967296 + T ∧ n / 2 ^ 32 = (A * 4294967296 + T) * 4294967296 + LA ∧
    n = ((A * 4294967296 + T) * 4294967296 + LA) * 4294967296 + LO := by
  subst hn
  refine ⟨?_, ?_, ?_, ?_⟩ <;> omega

theorem ShortPV.decode_encode (p : ShortPV) (wf : p.WF) : ShortPV.decode (toBytesBE 20 p.encodeInt) = .ok p := by
  have e := ShortPV.encodeInt_arith p wf
  have lt := ShortPV.encodeInt_lt p wf
  obtain ⟨h1, h2, h3, h4⟩ := wf
  have hdec := GNAddr.decode_encode p.addr h1
  have ha := GNAddr.encodeInt_lt p.addr h1
  simp only [Nat.reducePow] at h2
  obtain ⟨s1, s2, s3, s4⟩ := spv_split _ _ _ _ h2 (toTwos32_lt p.lat) (toTwos32_lt p.lon) _ e
  have sl : fromBytesBE (toBytesBE 20 p.encodeInt) = p.encodeInt := by
    rw [fromBytesBE_toBytesBE]; exact Nat.mod_eq_of_lt lt
  have d0 : toBytes? 8 (p.encodeInt >>> 96) = .ok (toBytesBE 8 p.addr.encodeInt) := by
    rw [Nat.shiftRight_eq_div_pow, s1]; exact toBytes?_ok (by simpa using ha)
  have d2 : p.encodeInt >>> 64 % 2 ^ 32 = p.tst := by rw [Nat.shiftRight_eq_div_pow, s2]; omega
  have d3 : fromTwos 32 (p.encodeInt >>> 32) = p.lat := by
    rw [Nat.shiftRight_eq_div_pow, s3]; exact fromTwos32_toTwos _ h3 _
  have d4 : fromTwos 32 p.encodeInt = p.lon := by
    rw [s4]; exact fromTwos32_toTwos _ h4 _
  simp only [ShortPV.decode, sl, d0, d2, d3, d4, hdec, bind, Except.bind, pure, Except.pure]

/-! ### the standard's octets of one-field layouts and of sub-layouts -/
theorem octets_cons (f : Spec.Field) (l : Layout) (v : Int) (vs : List Int) (a b : Nat) (hf : f.width = 8 * a)
    (hl : Layout.bits l = 8 * b) : Spec.octets (f :: l) (v :: vs) = Spec.octets [f] [v] ++ Spec.octets l vs :=
  octets_append [f] l [v] vs a b rfl (by simp [Spec.bits_cons, hf]) hl

theorem octets_u16 (name : String) (v : Nat) (h : v < 65536) : Spec.octets [⟨name, 16, false⟩] [(v : Int)] = toBytesBE 2 v := by
  simp only [Spec.octets, pack, packAux, encField, Int.toNat_natCast, Layout.bits]
  simp
  rw [Nat.mod_eq_of_lt h]

theorem octets_s32 (name : String) (v : Int) (h : inS32 v) : Spec.octets [⟨name, 32, true⟩] [v] = toBytesBE 4 (toTwos 32 v) := by
  rw [toTwos32_spec v h]
  simp only [Spec.octets, pack, packAux, encField, Layout.bits]
  simp

theorem octets_longPV (p : LongPV) (wf : p.WF) : Spec.octets Spec.longPV p.fields = toBytesBE 24 p.encodeInt := by
  have : Layout.bits Spec.longPV / 8 = 24 := by decide
  rw [Spec.octets, this, LongPV.encodeInt_eq_pack p wf]

theorem octets_shortPV (p : ShortPV) (wf : p.WF) : Spec.octets Spec.shortPV p.fields = toBytesBE 20 p.encodeInt := by
  have : Layout.bits Spec.shortPV / 8 = 20 := by decide
  rw [Spec.octets, this, ShortPV.encodeInt_eq_pack p wf]

theorem octets_gnAddr (a : GNAddr) (wf : a.WF) : Spec.octets Spec.gnAddr a.fields = toBytesBE 8 a.encodeInt := by
  have : Layout.bits Spec.gnAddr / 8 = 8 := by decide
  rw [Spec.octets, this, GNAddr.encodeInt_eq_pack a wf]

theorem LongPV.fields_length (p : LongPV) : p.fields.length = 10 := by simp [LongPV.fields, GNAddr.fields]
theorem ShortPV.fields_length (p : ShortPV) : p.fields.length = 7 := by simp [ShortPV.fields, GNAddr.fields]

theorem LongPV.encode_ok (p : LongPV) (wf : p.WF) : p.encode = .ok (toBytesBE 24 p.encodeInt) :=
  toBytes?_ok (LongPV.encodeInt_lt p wf)
theorem ShortPV.encode_ok (p : ShortPV) (wf : p.WF) : p.encode = .ok (toBytesBE 20 p.encodeInt) :=
  toBytes?_ok (ShortPV.encodeInt_lt p wf)

theorem intToBytesSigned4_ok (v : Int) (h : inS32 v) : intToBytesSigned? 4 v = .ok (toBytesBE 4 (toTwos 32 v)) := by
  unfold inS32 at h
  simp only [intToBytesSigned?, Nat.reduceMul, Nat.reduceSub, Nat.reducePow]
  simp
  exact h

theorem u16_ok {v : Nat} (h : v < 65536) : toBytes? 2 v = .ok (toBytesBE 2 v) := toBytes?_ok (by simpa using h)

/-! ### TSB extended header -/
theorem TSBExt.encode_eq (h : TSBExt) (wf : h.WF) :
    h.encode = .ok (toBytesBE 2 h.sn ++ (toBytesBE 2 h.reserved ++ toBytesBE 24 h.soPv.encodeInt)) := by
  obtain ⟨h1, h2, h3⟩ := wf
  simp only [TSBExt.encode, u16_ok h1, u16_ok h2, LongPV.encode_ok _ h3, bind, Except.bind, pure, Except.pure,
    List.append_assoc]

theorem TSBExt.octets_eq (h : TSBExt) (wf : h.WF) :
    Spec.octets Spec.tsb h.fields = toBytesBE 2 h.sn ++ (toBytesBE 2 h.reserved ++ toBytesBE 24 h.soPv.encodeInt) := by
  obtain ⟨h1, h2, h3⟩ := wf
  have b1 : Layout.bits Spec.longPV = 8 * 24 := by decide
  have b2 : Layout.bits (⟨"reserved", 16, false⟩ :: Spec.longPV) = 8 * 26 := by decide
  simp only [Spec.tsb, TSBExt.fields, List.cons_append, List.nil_append]
  rw [octets_cons _ _ _ _ 2 26 rfl b2, octets_cons _ _ _ _ 2 24 rfl b1, octets_u16 _ _ h1, octets_u16 _ _ h2,
    octets_longPV _ h3]

theorem TSBExt.decode_encode (h : TSBExt) (wf : h.WF) (tail : Bytes) :
    TSBExt.decode (toBytesBE 2 h.sn ++ (toBytesBE 2 h.reserved ++ (toBytesBE 24 h.soPv.encodeInt ++ tail))) = .ok h := by
  obtain ⟨h1, h2, h3⟩ := wf
  have len : ¬ ((toBytesBE 2 h.sn ++ (toBytesBE 2 h.reserved ++ (toBytesBE 24 h.soPv.encodeInt ++ tail))).length < 28) := by
    simp [toBytesBE_length]; omega
  have s1 : slice (toBytesBE 2 h.sn ++ (toBytesBE 2 h.reserved ++ (toBytesBE 24 h.soPv.encodeInt ++ tail))) 0 2 = toBytesBE 2 h.sn :=
    slice_prefix _ _ _ (by simp [toBytesBE_length])
  have s2 : slice (toBytesBE 2 h.sn ++ (toBytesBE 2 h.reserved ++ (toBytesBE 24 h.soPv.encodeInt ++ tail))) 2 4 = toBytesBE 2 h.reserved := by
    rw [slice_append_right _ _ _ _ (by simp [toBytesBE_length]), toBytesBE_length]
    exact slice_prefix _ _ _ (by simp [toBytesBE_length])
  have s3 : slice (toBytesBE 2 h.sn ++ (toBytesBE 2 h.reserved ++ (toBytesBE 24 h.soPv.encodeInt ++ tail))) 4 28 = toBytesBE 24 h.soPv.encodeInt := by
    rw [slice_append_right _ _ _ _ (by simp [toBytesBE_length]), toBytesBE_length,
      slice_append_right _ _ _ _ (by simp [toBytesBE_length]), toBytesBE_length]
    exact slice_prefix _ _ _ (by simp [toBytesBE_length])
  simp only [TSBExt.decode, len, if_false, s1, s2, s3, LongPV.decode_encode _ h3, fromBytesBE_toBytesBE, bind, Except.bind,
    pure, Except.pure]
  have e1 : h.sn % 256 ^ 2 = h.sn := Nat.mod_eq_of_lt (by simpa using h1)
  have e2 : h.reserved % 256 ^ 2 = h.reserved := Nat.mod_eq_of_lt (by simpa using h2)
  rw [e1, e2]

/-- skip leading components of a right-nested concatenation until the slice starts at 0 -/
macro "slice_skip" : tactic =>
  `(tactic| (simp (disch := simp [toBytesBE_length]) only [slice_append_right, toBytesBE_length, Nat.reduceSub]))
macro "slice_here" : tactic => `(tactic| exact slice_prefix _ _ _ (by simp [toBytesBE_length]))

theorem u16_mod {v : Nat} (h : v < 65536) : v % 256 ^ 2 = v := Nat.mod_eq_of_lt (by simpa using h)

theorem fromBytesSigned_toTwos (v : Int) (h : inS32 v) : fromBytesSigned (toBytesBE 4 (toTwos 32 v)) = v := by
  have := toTwos32_lt v
  have := fromTwos32_toTwos v h 0
  simp only [fromBytesSigned, toBytesBE_length, fromBytesBE_toBytesBE, Nat.reduceMul, Nat.reducePow]
  rw [Nat.mod_eq_of_lt (by omega)]
  simpa using this

/-! ### GBC / GAC extended header -/
def GBCExt.octets (h : GBCExt) (tail : Bytes) : Bytes :=
  toBytesBE 2 h.sn ++ (toBytesBE 2 h.reserved ++ (toBytesBE 24 h.soPv.encodeInt ++ (toBytesBE 4 (toTwos 32 h.lat) ++
  (toBytesBE 4 (toTwos 32 h.lon) ++ (toBytesBE 2 h.a ++ (toBytesBE 2 h.b ++ (toBytesBE 2 h.angle ++
  (toBytesBE 2 h.reserved2 ++ tail))))))))

theorem GBCExt.encode_eq (h : GBCExt) (wf : h.WF) : h.encode = .ok (h.octets []) := by
  obtain ⟨h1, h2, h3, h4, h5, h6, h7, h8, h9⟩ := wf
  simp only [GBCExt.encode, GBCExt.octets, u16_ok h1, u16_ok h2, LongPV.encode_ok _ h3, intToBytesSigned4_ok _ h4,
    intToBytesSigned4_ok _ h5, u16_ok h6, u16_ok h7, u16_ok h8, u16_ok h9, bind, Except.bind, pure, Except.pure,
    List.append_assoc, List.append_nil]

theorem GBCExt.octets_eq (h : GBCExt) (wf : h.WF) : Spec.octets Spec.gbc h.fields = h.octets [] := by
  obtain ⟨h1, h2, h3, h4, h5, h6, h7, h8, h9⟩ := wf
  have t5 : Layout.bits [(⟨"reserved2", 16, false⟩ : Spec.Field)] = 8 * 2 := by decide
  have t4 : Layout.bits [(⟨"angle", 16, false⟩ : Spec.Field), ⟨"reserved2", 16, false⟩] = 8 * 4 := by decide
  have t3 : Layout.bits [(⟨"b", 16, false⟩ : Spec.Field), ⟨"angle", 16, false⟩, ⟨"reserved2", 16, false⟩] = 8 * 6 := by decide
  have t2 : Layout.bits [(⟨"a", 16, false⟩ : Spec.Field), ⟨"b", 16, false⟩, ⟨"angle", 16, false⟩, ⟨"reserved2", 16, false⟩] = 8 * 8 := by decide
  have t1 : Layout.bits [(⟨"areaLon", 32, true⟩ : Spec.Field), ⟨"a", 16, false⟩, ⟨"b", 16, false⟩, ⟨"angle", 16, false⟩,
    ⟨"reserved2", 16, false⟩] = 8 * 12 := by decide
  have t0 : Layout.bits [(⟨"areaLat", 32, true⟩ : Spec.Field), ⟨"areaLon", 32, true⟩, ⟨"a", 16, false⟩, ⟨"b", 16, false⟩,
    ⟨"angle", 16, false⟩, ⟨"reserved2", 16, false⟩] = 8 * 16 := by decide
  have bl : Layout.bits Spec.longPV = 8 * 24 := by decide
  have b1 : Layout.bits (Spec.longPV ++ [(⟨"areaLat", 32, true⟩ : Spec.Field), ⟨"areaLon", 32, true⟩, ⟨"a", 16, false⟩,
    ⟨"b", 16, false⟩, ⟨"angle", 16, false⟩, ⟨"reserved2", 16, false⟩]) = 8 * 40 := by decide
  have b2 : Layout.bits (⟨"reserved", 16, false⟩ :: (Spec.longPV ++ [(⟨"areaLat", 32, true⟩ : Spec.Field),
    ⟨"areaLon", 32, true⟩, ⟨"a", 16, false⟩, ⟨"b", 16, false⟩, ⟨"angle", 16, false⟩, ⟨"reserved2", 16, false⟩])) = 8 * 42 := by
    decide
  simp only [Spec.gbc, GBCExt.fields, GBCExt.octets, List.cons_append, List.nil_append, List.append_nil]
  rw [octets_cons _ _ _ _ 2 42 rfl b2, octets_cons _ _ _ _ 2 40 rfl b1,
    octets_append _ _ _ _ 24 16 (by simp [LongPV.fields_length, Spec.longPV, Spec.gnAddr]) bl t0,
    octets_cons _ _ _ _ 4 12 rfl t1, octets_cons _ _ _ _ 4 8 rfl t2, octets_cons _ _ _ _ 2 6 rfl t3,
    octets_cons _ _ _ _ 2 4 rfl t4, octets_cons _ _ _ _ 2 2 rfl t5,
    octets_u16 _ _ h1, octets_u16 _ _ h2, octets_longPV _ h3, octets_s32 _ _ h4, octets_s32 _ _ h5, octets_u16 _ _ h6,
    octets_u16 _ _ h7, octets_u16 _ _ h8, octets_u16 _ _ h9]

theorem GBCExt.decode_encode (h : GBCExt) (wf : h.WF) (tail : Bytes) : GBCExt.decode (h.octets tail) = .ok h := by
  obtain ⟨h1, h2, h3, h4, h5, h6, h7, h8, h9⟩ := wf
  have len : ¬ ((h.octets tail).length < 44) := by simp [GBCExt.octets, toBytesBE_length]; omega
  have s1 : slice (h.octets tail) 0 2 = toBytesBE 2 h.sn := by unfold GBCExt.octets; slice_here
  have s2 : slice (h.octets tail) 2 4 = toBytesBE 2 h.reserved := by unfold GBCExt.octets; slice_skip; slice_here
  have s3 : slice (h.octets tail) 4 28 = toBytesBE 24 h.soPv.encodeInt := by unfold GBCExt.octets; slice_skip; slice_here
  have s4 : slice (h.octets tail) 28 32 = toBytesBE 4 (toTwos 32 h.lat) := by unfold GBCExt.octets; slice_skip; slice_here
  have s5 : slice (h.octets tail) 32 36 = toBytesBE 4 (toTwos 32 h.lon) := by unfold GBCExt.octets; slice_skip; slice_here
  have s6 : slice (h.octets tail) 36 38 = toBytesBE 2 h.a := by unfold GBCExt.octets; slice_skip; slice_here
  have s7 : slice (h.octets tail) 38 40 = toBytesBE 2 h.b := by unfold GBCExt.octets; slice_skip; slice_here
  have s8 : slice (h.octets tail) 40 42 = toBytesBE 2 h.angle := by unfold GBCExt.octets; slice_skip; slice_here
  have s9 : slice (h.octets tail) 42 44 = toBytesBE 2 h.reserved2 := by unfold GBCExt.octets; slice_skip; slice_here
  simp only [GBCExt.decode, len, if_false, s1, s2, s3, s4, s5, s6, s7, s8, s9, LongPV.decode_encode _ h3,
    fromBytesBE_toBytesBE, fromBytesSigned_toTwos _ h4, fromBytesSigned_toTwos _ h5, u16_mod h1, u16_mod h2, u16_mod h6,
    u16_mod h7, u16_mod h8, u16_mod h9, bind, Except.bind, pure, Except.pure]

/-! ### GUC / LS reply extended header -/
def GUCExt.octets (h : GUCExt) (tail : Bytes) : Bytes :=
  toBytesBE 2 h.sn ++ (toBytesBE 2 h.reserved ++ (toBytesBE 24 h.soPv.encodeInt ++ (toBytesBE 20 h.dePv.encodeInt ++ tail)))

theorem GUCExt.encode_eq (h : GUCExt) (wf : h.WF) : h.encode = .ok (h.octets []) := by
  obtain ⟨h1, h2, h3, h4⟩ := wf
  simp only [GUCExt.encode, GUCExt.octets, u16_ok h1, u16_ok h2, LongPV.encode_ok _ h3, ShortPV.encode_ok _ h4, bind,
    Except.bind, pure, Except.pure, List.append_assoc, List.append_nil]

theorem GUCExt.octets_eq (h : GUCExt) (wf : h.WF) : Spec.octets Spec.guc h.fields = h.octets [] := by
  obtain ⟨h1, h2, h3, h4⟩ := wf
  have bs : Layout.bits Spec.shortPV = 8 * 20 := by decide
  have bl : Layout.bits Spec.longPV = 8 * 24 := by decide
  have b1 : Layout.bits (Spec.longPV ++ Spec.shortPV) = 8 * 44 := by decide
  have b2 : Layout.bits (⟨"reserved", 16, false⟩ :: (Spec.longPV ++ Spec.shortPV)) = 8 * 46 := by decide
  simp only [Spec.guc, GUCExt.fields, GUCExt.octets, List.cons_append, List.nil_append, List.append_nil]
  rw [octets_cons _ _ _ _ 2 46 rfl b2, octets_cons _ _ _ _ 2 44 rfl b1,
    octets_append _ _ _ _ 24 20 (by simp [LongPV.fields_length, Spec.longPV, Spec.gnAddr]) bl bs,
    octets_u16 _ _ h1, octets_u16 _ _ h2, octets_longPV _ h3, octets_shortPV _ h4]

theorem GUCExt.decode_encode (h : GUCExt) (wf : h.WF) (tail : Bytes) : GUCExt.decode (h.octets tail) = .ok h := by
  obtain ⟨h1, h2, h3, h4⟩ := wf
  have len : ¬ ((h.octets tail).length < 48) := by simp [GUCExt.octets, toBytesBE_length]; omega
  have s1 : slice (h.octets tail) 0 2 = toBytesBE 2 h.sn := by unfold GUCExt.octets; slice_here
  have s2 : slice (h.octets tail) 2 4 = toBytesBE 2 h.reserved := by unfold GUCExt.octets; slice_skip; slice_here
  have s3 : slice (h.octets tail) 4 28 = toBytesBE 24 h.soPv.encodeInt := by unfold GUCExt.octets; slice_skip; slice_here
  have s4 : slice (h.octets tail) 28 48 = toBytesBE 20 h.dePv.encodeInt := by unfold GUCExt.octets; slice_skip; slice_here
  simp only [GUCExt.decode, len, if_false, s1, s2, s3, s4, LongPV.decode_encode _ h3, ShortPV.decode_encode _ h4,
    fromBytesBE_toBytesBE, u16_mod h1, u16_mod h2, bind, Except.bind, pure, Except.pure]

/-! ### LS request extended header -/
def LSReqExt.octets (h : LSReqExt) (tail : Bytes) : Bytes :=
  toBytesBE 2 h.sn ++ (toBytesBE 2 h.reserved ++ (toBytesBE 24 h.soPv.encodeInt ++ (toBytesBE 8 h.reqAddr.encodeInt ++ tail)))

theorem LSReqExt.encode_eq (h : LSReqExt) (wf : h.WF) : h.encode = .ok (h.octets []) := by
  obtain ⟨h1, h2, h3, h4⟩ := wf
  have ha : toBytes? 8 h.reqAddr.encodeInt = .ok (toBytesBE 8 h.reqAddr.encodeInt) :=
    toBytes?_ok (by simpa using GNAddr.encodeInt_lt _ h4)
  simp only [LSReqExt.encode, LSReqExt.octets, u16_ok h1, u16_ok h2, LongPV.encode_ok _ h3, ha, bind,
    Except.bind, pure, Except.pure, List.append_assoc, List.append_nil]

theorem LSReqExt.octets_eq (h : LSReqExt) (wf : h.WF) : Spec.octets Spec.lsRequest h.fields = h.octets [] := by
  obtain ⟨h1, h2, h3, h4⟩ := wf
  have bs : Layout.bits Spec.gnAddr = 8 * 8 := by decide
  have bl : Layout.bits Spec.longPV = 8 * 24 := by decide
  have b1 : Layout.bits (Spec.longPV ++ Spec.gnAddr) = 8 * 32 := by decide
  have b2 : Layout.bits (⟨"reserved", 16, false⟩ :: (Spec.longPV ++ Spec.gnAddr)) = 8 * 34 := by decide
  simp only [Spec.lsRequest, LSReqExt.fields, LSReqExt.octets, List.cons_append, List.nil_append, List.append_nil]
  rw [octets_cons _ _ _ _ 2 34 rfl b2, octets_cons _ _ _ _ 2 32 rfl b1,
    octets_append _ _ _ _ 24 8 (by simp [LongPV.fields_length, Spec.longPV, Spec.gnAddr]) bl bs,
    octets_u16 _ _ h1, octets_u16 _ _ h2, octets_longPV _ h3, octets_gnAddr _ h4]

theorem LSReqExt.decode_encode (h : LSReqExt) (wf : h.WF) (tail : Bytes) : LSReqExt.decode (h.octets tail) = .ok h := by
  obtain ⟨h1, h2, h3, h4⟩ := wf
  have len : ¬ ((h.octets tail).length < 36) := by simp [LSReqExt.octets, toBytesBE_length]; omega
  have s1 : slice (h.octets tail) 0 2 = toBytesBE 2 h.sn := by unfold LSReqExt.octets; slice_here
  have s2 : slice (h.octets tail) 2 4 = toBytesBE 2 h.reserved := by unfold LSReqExt.octets; slice_skip; slice_here
  have s3 : slice (h.octets tail) 4 28 = toBytesBE 24 h.soPv.encodeInt := by unfold LSReqExt.octets; slice_skip; slice_here
  have s4 : slice (h.octets tail) 28 36 = toBytesBE 8 h.reqAddr.encodeInt := by unfold LSReqExt.octets; slice_skip; slice_here
  simp only [LSReqExt.decode, len, if_false, s1, s2, s3, s4, LongPV.decode_encode _ h3, GNAddr.decode_encode _ h4,
    fromBytesBE_toBytesBE, u16_mod h1, u16_mod h2, bind, Except.bind, pure, Except.pure]

/-! ### TSB via the same octets notation -/
def TSBExt.octets (h : TSBExt) (tail : Bytes) : Bytes :=
  toBytesBE 2 h.sn ++ (toBytesBE 2 h.reserved ++ (toBytesBE 24 h.soPv.encodeInt ++ tail))

/-! ### BTP-A / BTP-B -/
theorem BTPHeader.encodeInt_arith (h : BTPHeader) (wf : h.WF) : h.encodeInt = h.dport * 65536 + h.second := by
  obtain ⟨h1, h2⟩ := wf
  simp only [BTPHeader.encodeInt]
  simp (disch := omega) only [shl_or_add]
  simp only [Nat.shiftLeft_eq]
  try omega

theorem BTPHeader.encode_eq (h : BTPHeader) (wf : h.WF) : h.encode = .ok (toBytesBE 2 h.dport ++ toBytesBE 2 h.second) := by
  have e := BTPHeader.encodeInt_arith h wf
  obtain ⟨h1, h2⟩ := wf
  have : h.encodeInt < 256 ^ 4 := by rw [e]; simp; omega
  rw [BTPHeader.encode, toBytes?_ok this, e]
  have := toBytesBE_append 2 2 h.dport h.second (by simpa using h2)
  simp only [Nat.reduceAdd, Nat.reducePow] at this
  rw [this]

theorem BTPHeader.octets_eq (l : Layout) (n1 n2 : String) (hl : l = [⟨n1, 16, false⟩, ⟨n2, 16, false⟩]) (h : BTPHeader)
    (wf : h.WF) : Spec.octets l h.fields = toBytesBE 2 h.dport ++ toBytesBE 2 h.second := by
  obtain ⟨h1, h2⟩ := wf
  subst hl
  have b : Layout.bits [(⟨n2, 16, false⟩ : Spec.Field)] = 8 * 2 := by simp [Layout.bits]
  simp only [BTPHeader.fields]
  rw [octets_cons _ _ _ _ 2 2 rfl b, octets_u16 _ _ h1, octets_u16 _ _ h2]

theorem BTPHeader.decode_encode (h : BTPHeader) (wf : h.WF) (tail : Bytes) :
    BTPHeader.decode (toBytesBE 2 h.dport ++ (toBytesBE 2 h.second ++ tail)) = h := by
  obtain ⟨h1, h2⟩ := wf
  have s1 : slice (toBytesBE 2 h.dport ++ (toBytesBE 2 h.second ++ tail)) 0 2 = toBytesBE 2 h.dport := by slice_here
  have s2 : slice (toBytesBE 2 h.dport ++ (toBytesBE 2 h.second ++ tail)) 2 4 = toBytesBE 2 h.second := by
    slice_skip; slice_here
  simp only [BTPHeader.decode, s1, s2, fromBytesBE_toBytesBE, u16_mod h1, u16_mod h2]

end FlexModel.Wire

/-
C16 — the INSTRUCTION-LEVEL LDM model and its reduction to the block model of `LdmConc.lean`.

Every lock section of `LdmConc.compileT` that contains more than one access in `Generated/Locks.lean` is decomposed
into micro-blocks, one per attribute access (source order):
  DictionaryDataBase.insert                 _next_id read ; database write ; _next_id rmw ; return
  DictionaryDataBase.remove                 database read (scan) ; database write (`del`, may raise KeyError)
  LDMService.del_data_consumer_its_aid      data_consumer_its_aid write ; subscriptions read
  LDMService.store_new_subscription_petition  subscriptions write ; last_checked_subscriptions_time write
  LDMService.remove_subscription            subscriptions read ; subscriptions write (`remove`, may raise ValueError) ;
                                            last_checked_subscriptions_time write
The other sections are a single access (`get`, `update`, `exists`, `all`/`search`, `remove_by_id`, the registry
sections, the subscription snapshot, the last-checked section of `process_notifications`) and stay single blocks.
Each micro-block carries its read / write set over the variables `LV` (`LdmFrame.lean`).  The lock map `prot`:
database attributes (and their ghost counters) under the database lock, registries / subscriptions under the service
lock, registers / responses / snapshots / exception flag of operation `o` local to the thread `owner o`, the ghost
callback log `calls` free.

Results: `fuse_compileF` (fusing the instruction-level program of every operation gives its block program),
`lprotected_fine` (every thread's instruction-level program passes the lock-map check and all micro-blocks are
framed), hence `discipline_fine` and `ldm_block_model_sound` (Props/C16Reduction.lean).

NOT covered (stays "modelled, not verified"): `updMt` – the model's single block `dbUpdateIfPresent` stands for `get`
and `update` in TWO database-lock sections inside ONE `data_containers_lock` section; `fuse` keeps the inner
`acq`/`rel`, so the reduction theorem does not make that outer section atomic (it rests on `mt_wraps`: every
maintenance-level writer takes the same lock).  CPython executes each micro-block atomically (assumption).
-/
import FlexModel.Conc.LdmFrame
import FlexModel.Conc.LdmLemmas

namespace FlexModel.Conc.Ldm
open FlexModel.Conc FlexModel.Conc.Reduction

/-! ## a tactic for framedness of concrete micro-blocks -/

syntax "framed_tac" "[" ident,* "]" : tactic
macro_rules
  | `(tactic| framed_tac [$ids,*]) => `(tactic| (
  constructor
  · intro s v hv
    simp only [$[$ids:ident],*]
    (repeat' split) <;> (cases v <;> simp [agree, Ldm.upd, upd2] at hv ⊢ <;> (try omega) <;> (try grind))
  · intro s s' h v hv
    simp only [List.forall_mem_cons, List.mem_cons, List.not_mem_nil, or_false, forall_eq_or_imp, forall_eq, agree,
      false_implies, implies_true, and_true] at h hv
    simp only [$[$ids:ident],*]
    (try rcases hv with rfl | rfl | rfl | rfl | rfl) <;> (repeat' split) <;> simp_all [agree, Ldm.upd, upd2]))

/-! ## micro-blocks -/

-- DictionaryDataBase.insert: `index = self._next_id` ; `self.database[index] = data` ; `self._next_id += 1` ; `return index`
def insLd (o : Nat) (s : LSt) : LSt := { s with reg := upd2 s.reg o 0 s.nextId }
def insSt (o v : Nat) (s : LSt) : LSt :=
  { s with db := setRow s.db (s.reg o 0) v, insLog := s.reg o 0 :: s.insLog, inserted := s.inserted + 1,
           overwritten := if hasKey s.db (s.reg o 0) then s.overwritten + 1 else s.overwritten }
def insBump (s : LSt) : LSt := { s with nextId := s.nextId + 1 }
def insRet (o : Nat) (s : LSt) : LSt := { s with resp := upd s.resp o [s.reg o 0] }
-- del_data_consumer_its_aid: `discard` ; the comprehension over `self.subscriptions`
def consCollect (o a : Nat) (s : LSt) : LSt := { s with regS := upd s.regS o (s.subs.filter (fun sid => sid / 100 == a)) }
-- store_new_subscription_petition: `subscriptions.append` ; `last_checked[...] = now`
def subApp (sid : Nat) (s : LSt) : LSt := { s with subs := s.subs ++ [sid], subAdded := s.subAdded + 1 }

def mInsLd (o : Nat) : FMB := ⟨[.nextId], [.reg o 0], insLd o⟩
def mInsSt (o v : Nat) : FMB :=
  ⟨[.db, .reg o 0, .insLog, .inserted, .overwritten], [.db, .insLog, .inserted, .overwritten], insSt o v⟩
def mInsBump : FMB := ⟨[.nextId], [.nextId], insBump⟩
def mInsRet (o : Nat) : FMB := ⟨[.reg o 0], [.resp o], insRet o⟩
def mExists (o i : Nat) : FMB := ⟨[.db], [.reg o 1], dbExists o i⟩
def mGet (o i slot : Nat) : FMB := ⟨[.db], [.reg o slot, .reg o 2], dbGet o i slot⟩
def mUpdate (o i w : Nat) : FMB := ⟨[.db, .reg o 2, .revived], [.db, .revived], dbUpdate o i w⟩
def mUpdIf (o i w : Nat) : FMB := ⟨[.db], [.db, .reg o 3], dbUpdateIfPresent o i w⟩
def mRemoveId (o i : Nat) : FMB := ⟨[.db, .removed], [.db, .removed, .reg o 3], dbRemoveId o i⟩
def mScan (o : Nat) : FMB := ⟨[.db, .reg o 5, .reg o 9], [.reg o 8, .reg o 9], fun s => dbScanVal o (s.reg o 5) s⟩
def mDelKey (o : Nat) : FMB := ⟨[.db, .reg o 8, .reg o 9, .removed, .err o], [.db, .removed, .err o], dbDelKey o⟩
def mAll (o : Nat) : FMB := ⟨[.db], [.rows o, .reg o 6], dbAll o⟩
def mProvAdd (a : Nat) : FMB := ⟨[.prov], [.prov], provAdd a⟩
def mProvDel (a : Nat) : FMB := ⟨[.prov], [.prov], provDel a⟩
def mProvHas (o a : Nat) : FMB := ⟨[.prov], [.reg o 1], provHas o a⟩
def mConsAdd (a : Nat) : FMB := ⟨[.cons], [.cons], consAdd a⟩
def mConsDel (a : Nat) : FMB := ⟨[.cons], [.cons], consDel a⟩
def mConsCollect (o a : Nat) : FMB := ⟨[.subs], [.regS o], consCollect o a⟩
def mConsHas (o a : Nat) : FMB := ⟨[.cons], [.reg o 1], consHas o a⟩
def mConsHasR (o : Nat) : FMB := ⟨[.cons, .reg o 5], [.reg o 1], fun s => consHas o (s.reg o 5 / 100) s⟩
def mSubApp (sid : Nat) : FMB := ⟨[.subs, .subAdded], [.subs, .subAdded], subApp sid⟩
def mSubStamp (sid : Nat) : FMB := ⟨[.lastChk], [.lastChk], lastChkSection sid⟩
def mSubsCopy (o : Nat) : FMB := ⟨[.subs], [.regS o], subsCopy o⟩
def mSubTest (o sid : Nat) : FMB := ⟨[.subs], [.reg o 8], subTest o sid⟩
def mSubDrop (o sid : Nat) : FMB := ⟨[.reg o 8, .subs, .subRemoved, .err o], [.subs, .subRemoved, .err o], subDrop o sid⟩
def mSubPop (sid : Nat) : FMB := ⟨[.lastChk], [.lastChk], subPop sid⟩
def mSubTestR (o : Nat) : FMB := ⟨[.subs, .reg o 5], [.reg o 8], fun s => subTest o (s.reg o 5) s⟩
def mSubDropR (o : Nat) : FMB :=
  ⟨[.reg o 5, .reg o 8, .subs, .subRemoved, .err o], [.subs, .subRemoved, .err o], fun s => subDrop o (s.reg o 5) s⟩
def mSubPopR (o : Nat) : FMB := ⟨[.lastChk, .reg o 5], [.lastChk], fun s => subPop (s.reg o 5) s⟩
def mLastChkR (o : Nat) : FMB := ⟨[.lastChk, .reg o 5], [.lastChk], fun s => lastChkSection (s.reg o 5) s⟩
def mSubStoredR (o : Nat) : FMB := ⟨[.subs, .reg o 5], [.reg o 7], subStored o⟩
-- thread-local steps
def mGcPick (o : Nat) : FMB := ⟨[.rows o, .reg o 5], [.rows o, .reg o 4, .reg o 5], gcPick o⟩
def mSubPick (o : Nat) : FMB := ⟨[.regS o, .reg o 5], [.regS o, .reg o 4, .reg o 5], subPick o⟩
def mRemovePick (o : Nat) : FMB := ⟨[.regT o, .reg o 5], [.regT o, .reg o 4, .reg o 5], removePick o⟩
def mMarkRemove (o : Nat) : FMB := ⟨[.regT o, .reg o 5], [.regT o], markRemove o⟩
def mCallback (o : Nat) : FMB := ⟨[.reg o 5, .rows o, .calls], [.calls], callback o⟩
def mUnsubFind (o sid : Nat) : FMB := ⟨[.regS o], [.reg o 3], unsubFind o sid⟩
/-- `setResp o g` for a `g` that reads the registers `ks` of `o` -/
def mSetResp (o : Nat) (ks : List Nat) (g : LSt → List Nat) : FMB := ⟨ks.map (LV.reg o), [.resp o], setResp o g⟩
/-- a micro-block under a register guard: reads the guard register; when the guard is false the writes keep their values -/
def FMB.guard (o k v : Nat) (m : FMB) : FMB := ⟨.reg o k :: (m.rd ++ m.wr), m.wr, whenReg o k v m.f⟩

theorem framed_guard (o k v : Nat) (m : FMB) (hm : m.Framed) : (m.guard o k v).Framed := by
  constructor
  · intro s w hw
    simp only [FMB.guard, whenReg]
    split
    · exact hm.1 s w hw
    · exact agree_refl w s
  · intro s s' h w hw
    have hg : s.reg o k = s'.reg o k := h (.reg o k) (by simp [FMB.guard])
    simp only [FMB.guard, whenReg, hg]
    split
    · exact hm.2 s s' (fun x hx => h x (by simp [FMB.guard, hx])) w hw
    · exact h w (by simp only [FMB.guard, List.mem_cons, List.mem_append]; exact Or.inr (Or.inr hw))

theorem framed_mInsLd (o : Nat) : (mInsLd o).Framed := by unfold mInsLd; framed_tac [insLd]
theorem framed_mInsSt (o v : Nat) : (mInsSt o v).Framed := by unfold mInsSt; framed_tac [insSt]
theorem framed_mInsBump : mInsBump.Framed := by unfold mInsBump; framed_tac [insBump]
theorem framed_mInsRet (o : Nat) : (mInsRet o).Framed := by unfold mInsRet; framed_tac [insRet]
theorem framed_mExists (o i : Nat) : (mExists o i).Framed := by unfold mExists; framed_tac [dbExists]
theorem framed_mGet (o i slot : Nat) : (mGet o i slot).Framed := by unfold mGet; framed_tac [dbGet]
theorem framed_mUpdate (o i w : Nat) : (mUpdate o i w).Framed := by unfold mUpdate; framed_tac [dbUpdate]
theorem framed_mUpdIf (o i w : Nat) : (mUpdIf o i w).Framed := by unfold mUpdIf; framed_tac [dbUpdateIfPresent]
theorem framed_mRemoveId (o i : Nat) : (mRemoveId o i).Framed := by unfold mRemoveId; framed_tac [dbRemoveId]
theorem framed_mScan (o : Nat) : (mScan o).Framed := by unfold mScan; framed_tac [dbScanVal]
theorem framed_mDelKey (o : Nat) : (mDelKey o).Framed := by unfold mDelKey; framed_tac [dbDelKey]
theorem framed_mAll (o : Nat) : (mAll o).Framed := by unfold mAll; framed_tac [dbAll]
theorem framed_mProvAdd (a : Nat) : (mProvAdd a).Framed := by unfold mProvAdd; framed_tac [provAdd]
theorem framed_mProvDel (a : Nat) : (mProvDel a).Framed := by unfold mProvDel; framed_tac [provDel]
theorem framed_mProvHas (o a : Nat) : (mProvHas o a).Framed := by unfold mProvHas; framed_tac [provHas]
theorem framed_mConsAdd (a : Nat) : (mConsAdd a).Framed := by unfold mConsAdd; framed_tac [consAdd]
theorem framed_mConsDel (a : Nat) : (mConsDel a).Framed := by unfold mConsDel; framed_tac [consDel]
theorem framed_mConsCollect (o a : Nat) : (mConsCollect o a).Framed := by unfold mConsCollect; framed_tac [consCollect]
theorem framed_mConsHas (o a : Nat) : (mConsHas o a).Framed := by unfold mConsHas; framed_tac [consHas]
theorem framed_mConsHasR (o : Nat) : (mConsHasR o).Framed := by unfold mConsHasR; framed_tac [consHas]
theorem framed_mSubApp (sid : Nat) : (mSubApp sid).Framed := by unfold mSubApp; framed_tac [subApp]
theorem framed_mSubStamp (sid : Nat) : (mSubStamp sid).Framed := by unfold mSubStamp; framed_tac [lastChkSection]
theorem framed_mSubsCopy (o : Nat) : (mSubsCopy o).Framed := by unfold mSubsCopy; framed_tac [subsCopy]
theorem framed_mSubTest (o sid : Nat) : (mSubTest o sid).Framed := by unfold mSubTest; framed_tac [subTest]
theorem framed_mSubDrop (o sid : Nat) : (mSubDrop o sid).Framed := by unfold mSubDrop; framed_tac [subDrop]
theorem framed_mSubPop (sid : Nat) : (mSubPop sid).Framed := by unfold mSubPop; framed_tac [subPop]
theorem framed_mSubTestR (o : Nat) : (mSubTestR o).Framed := by unfold mSubTestR; framed_tac [subTest]
theorem framed_mSubDropR (o : Nat) : (mSubDropR o).Framed := by unfold mSubDropR; framed_tac [subDrop]
theorem framed_mSubPopR (o : Nat) : (mSubPopR o).Framed := by unfold mSubPopR; framed_tac [subPop]
theorem framed_mLastChkR (o : Nat) : (mLastChkR o).Framed := by unfold mLastChkR; framed_tac [lastChkSection]
theorem framed_mSubStoredR (o : Nat) : (mSubStoredR o).Framed := by unfold mSubStoredR; framed_tac [subStored]
theorem framed_mGcPick (o : Nat) : (mGcPick o).Framed := by unfold mGcPick; framed_tac [gcPick]
theorem framed_mSubPick (o : Nat) : (mSubPick o).Framed := by unfold mSubPick; framed_tac [subPick]
theorem framed_mRemovePick (o : Nat) : (mRemovePick o).Framed := by unfold mRemovePick; framed_tac [removePick]
theorem framed_mMarkRemove (o : Nat) : (mMarkRemove o).Framed := by unfold mMarkRemove; framed_tac [markRemove]
theorem framed_mCallback (o : Nat) : (mCallback o).Framed := by unfold mCallback; framed_tac [callback]
theorem framed_mUnsubFind (o sid : Nat) : (mUnsubFind o sid).Framed := by unfold mUnsubFind; framed_tac [unsubFind]

theorem framed_mSetResp (o : Nat) (ks : List Nat) (g : LSt → List Nat)
    (hg : ∀ s s', (∀ k ∈ ks, s.reg o k = s'.reg o k) → g s = g s') : (mSetResp o ks g).Framed := by
  constructor
  · intro s v hv
    cases v <;> simp [agree, mSetResp, setResp, Ldm.upd] at hv ⊢ <;> (try omega) <;> (try grind)
  · intro s s' h v hv
    simp only [mSetResp, List.mem_cons, List.not_mem_nil, or_false] at hv
    subst hv
    have : g s = g s' := hg s s' (fun k hk => h (.reg o k) (by simp only [mSetResp]; exact List.mem_map_of_mem hk))
    simp [agree, mSetResp, setResp, Ldm.upd, this]

/-! ## the instruction-level programs -/

/-- a lock section of micro-blocks -/
def asect (l : Lock) (ms : List FMB) : List FI := .acq l :: (ms.map .blk ++ [.rel l])
/-- a run of micro-blocks under one register guard (the `if` that encloses the `with` in the source) -/
def gd (o k v : Nat) (ms : List FMB) : List FMB := ms.map (FMB.guard o k v)

def gcIterA (o : Nat) : List FI := [.blk (mGcPick o)] ++ asect lkDb (gd o 4 1 [mScan o, mDelKey o])
def subRemoveIterA (o : Nat) (pick : FMB) : List FI :=
  [.blk pick] ++ asect lkSvc (gd o 4 1 [mSubTestR o, mSubDropR o, mSubPopR o])
def attendIterA (o : Nat) : List FI :=
  [.blk (mSubPick o)] ++ asect lkSvc [(mConsHasR o).guard o 4 1] ++
  [.blk (((mMarkRemove o).guard o 1 0).guard o 4 1)] ++
  asect lkDb [((mAll o).guard o 1 1).guard o 4 1] ++
  asect lkSvc [(((mSubStoredR o).guard o 6 1).guard o 1 1).guard o 4 1] ++
  asect lkSvc [((((mLastChkR o).guard o 7 1).guard o 6 1).guard o 1 1).guard o 4 1] ++
  asect lkApp [((((mCallback o).guard o 7 1).guard o 6 1).guard o 1 1).guard o 4 1]

def respA (o : Nat) (ks : List Nat) (g : LSt → List Nat) : List FI := [.blk (mSetResp o ks g)]

def compileA : Op → List FI
  | .regP a => asect lkSvc [mProvAdd a]
  | .deregP o a => asect lkSvc [mProvHas o a] ++ asect lkSvc [(mProvDel a).guard o 1 1] ++ respA o [1] (fun s => [s.reg o 1])
  | .regC a => asect lkSvc [mConsAdd a]
  | .deregC o a n =>
      asect lkSvc [mConsHas o a] ++
      asect lkSvc (if n = 0 then [(mConsDel a).guard o 1 1] else gd o 1 1 [mConsDel a, mConsCollect o a]) ++
      (List.replicate n (subRemoveIterA o (mSubPick o))).flatten ++ respA o [1] (fun s => [s.reg o 1])
  | .add o a v => asect lkSvc [mProvHas o a] ++ asect lkDb (gd o 1 1 [mInsLd o, mInsSt o v, mInsBump, mInsRet o])
  | .upd o i v =>
      asect lkDb [mExists o i] ++ asect lkDb [(mGet o i 6).guard o 1 1] ++ asect lkDb [(mGet o i 7).guard o 6 1] ++
      asect lkDb [(mUpdate o i v).guard o 7 1] ++
      respA o [1, 6, 7] (fun s => [updCode (s.reg o 1) (s.reg o 6) (s.reg o 7)])
  | .updMt o i v =>
      asect lkDb [mExists o i] ++ [.acq lkMt] ++ asect lkDb [(mGet o i 6).guard o 1 1] ++ [.rel lkMt, .acq lkMt] ++
      asect lkDb [(mUpdIf o i v).guard o 6 1] ++ [.rel lkMt] ++
      respA o [1, 6, 3] (fun s => [updCode (s.reg o 1) (s.reg o 6) (s.reg o 3)])
  | .del o i =>
      asect lkDb [mExists o i] ++ asect lkDb [(mRemoveId o i).guard o 1 1] ++
      respA o [1, 3] (fun s => [if s.reg o 1 = 1 ∧ s.reg o 3 = 1 then 1 else 0])
  | .qry o a => asect lkSvc [mConsHas o a] ++ asect lkDb [(mAll o).guard o 1 1] ++ respA o [1] (fun s => [s.reg o 1])
  | .sub o a sid =>
      asect lkSvc [mConsHas o a] ++ asect lkSvc (gd o 1 1 [mSubApp sid, mSubStamp sid]) ++ respA o [1] (fun s => [s.reg o 1])
  | .unsub o a sid =>
      asect lkSvc [mConsHas o a] ++ asect lkSvc [(mSubsCopy o).guard o 1 1] ++ [.blk ((mUnsubFind o sid).guard o 1 1)] ++
      asect lkSvc (gd o 3 1 [mSubTest o sid, mSubDrop o sid, mSubPop sid]) ++
      respA o [1, 3, 8] (fun s => [s.reg o 1, if s.reg o 3 = 1 ∧ s.reg o 8 = 1 then 1 else 0])
  | .gc o n =>
      asect lkDb [mAll o] ++ asect lkDb [mAll o] ++ (List.replicate n (gcIterA o)).flatten ++
      asect lkDb [mAll o] ++ asect lkDb [mAll o]
  | .attend o n =>
      asect lkSvc [mSubsCopy o] ++ (List.replicate n (attendIterA o)).flatten ++
      (List.replicate n (subRemoveIterA o (mRemovePick o))).flatten

/-- the instruction-level program of an operation / a thread / a system -/
def compileF (op : Op) : List (Instr LSt) := eraseF (compileA op)
def threadProgA (ops : List Op) : List FI := (ops.map compileA).flatten
def threadProgF (ops : List Op) : List (Instr LSt) := (ops.map compileF).flatten
def sysF (threads : List (List Op)) : Sys LSt := mkSys {} (threads.map threadProgF)

theorem threadProgF_eq (ops : List Op) : threadProgF ops = eraseF (threadProgA ops) := by
  unfold threadProgF threadProgA compileF
  rw [eraseF_flatten, List.map_map]
  rfl

/-! ## fusing the instruction-level programs gives the block programs -/

theorem pipe_guard (o k v : Nat) (fs : List (LSt → LSt)) (h : ∀ f ∈ fs, ∀ s, (f s).reg o k = s.reg o k) :
    pipe (fs.map (whenReg o k v)) = whenReg o k v (pipe fs) := by
  funext s
  induction fs generalizing s with
  | nil => simp [pipe, whenReg]
  | cons f fs ih =>
    have hf := h f (by simp)
    simp only [List.map_cons, pipe_cons]
    rw [ih (fun g hg => h g (List.mem_cons_of_mem _ hg))]
    unfold whenReg
    by_cases hg : s.reg o k = v
    · simp [hg, hf s]
    · simp only [hg, if_false]

theorem pipe_insert (o v : Nat) : pipe [insLd o, insSt o v, insBump, insRet o] = dbInsert o v := by
  funext s
  simp [pipe, insLd, insSt, insBump, insRet, dbInsert, upd2, Ldm.upd]

theorem pipe_remove (o : Nat) : pipe [(fun s => dbScanVal o (s.reg o 5) s), dbDelKey o] = gcRemove o := rfl

theorem pipe_collect (o a : Nat) : pipe [consDel a, consCollect o a] = consDelCollect o a := by
  funext s
  simp [pipe, consDel, consCollect, consDelCollect]

theorem pipe_subAdd (sid : Nat) : pipe [subApp sid, lastChkSection sid] = subAdd sid := by
  funext s
  simp [pipe, subApp, lastChkSection, subAdd]

theorem pipe_subRemove (o sid : Nat) : pipe [subTest o sid, subDrop o sid, subPop sid] = subRemove o sid := rfl

theorem subTest_reg5 (o sid : Nat) (s : LSt) : (subTest o sid s).reg o 5 = s.reg o 5 := by simp [subTest, upd2]
theorem subDrop_reg5 (o sid : Nat) (s : LSt) : (subDrop o sid s).reg o 5 = s.reg o 5 := by
  unfold subDrop; split <;> (try split) <;> rfl

theorem pipe_subRemoveR (o : Nat) :
    pipe [(fun s => subTest o (s.reg o 5) s), (fun s => subDrop o (s.reg o 5) s), (fun s => subPop (s.reg o 5) s)] =
      (fun s => subRemove o (s.reg o 5) s) := by
  funext s
  simp only [pipe, List.foldl_cons, List.foldl_nil, subRemove, subTest_reg5, subDrop_reg5]

theorem gpipe_insert (o v : Nat) :
    pipe [whenReg o 1 1 (insLd o), whenReg o 1 1 (insSt o v), whenReg o 1 1 insBump, whenReg o 1 1 (insRet o)] =
      whenReg o 1 1 (dbInsert o v) := by
  rw [← pipe_insert]
  exact pipe_guard o 1 1 [insLd o, insSt o v, insBump, insRet o] (by
    intro f hf s
    simp only [List.mem_cons, List.not_mem_nil, or_false] at hf
    rcases hf with rfl | rfl | rfl | rfl <;> simp [insLd, insSt, insBump, insRet, upd2])

theorem gpipe_remove (o : Nat) :
    pipe [whenReg o 4 1 (fun s => dbScanVal o (s.reg o 5) s), whenReg o 4 1 (dbDelKey o)] = whenReg o 4 1 (gcRemove o) := by
  rw [← pipe_remove]
  exact pipe_guard o 4 1 [(fun s => dbScanVal o (s.reg o 5) s), dbDelKey o] (by
    intro f hf s
    simp only [List.mem_cons, List.not_mem_nil, or_false] at hf
    rcases hf with rfl | rfl
    · simp only [dbScanVal]; split <;> simp [upd2]
    · simp only [dbDelKey]; split <;> (try split) <;> rfl)

theorem gpipe_collect (o a : Nat) :
    pipe [whenReg o 1 1 (consDel a), whenReg o 1 1 (consCollect o a)] = whenReg o 1 1 (consDelCollect o a) := by
  rw [← pipe_collect]
  exact pipe_guard o 1 1 [consDel a, consCollect o a] (by
    intro f hf s
    simp only [List.mem_cons, List.not_mem_nil, or_false] at hf
    rcases hf with rfl | rfl <;> rfl)

theorem gpipe_subAdd (o sid : Nat) :
    pipe [whenReg o 1 1 (subApp sid), whenReg o 1 1 (lastChkSection sid)] = whenReg o 1 1 (subAdd sid) := by
  rw [← pipe_subAdd]
  exact pipe_guard o 1 1 [subApp sid, lastChkSection sid] (by
    intro f hf s
    simp only [List.mem_cons, List.not_mem_nil, or_false] at hf
    rcases hf with rfl | rfl <;> rfl)

theorem subTest_regk (o sid k : Nat) (hk : k ≠ 8) (s : LSt) : (subTest o sid s).reg o k = s.reg o k := by
  simp [subTest, upd2, hk]
theorem subDrop_regk (o sid k : Nat) (s : LSt) : (subDrop o sid s).reg o k = s.reg o k := by
  unfold subDrop; split <;> (try split) <;> rfl

theorem gpipe_subRemove (o sid : Nat) :
    pipe [whenReg o 3 1 (subTest o sid), whenReg o 3 1 (subDrop o sid), whenReg o 3 1 (subPop sid)] =
      whenReg o 3 1 (subRemove o sid) := by
  rw [← pipe_subRemove]
  exact pipe_guard o 3 1 [subTest o sid, subDrop o sid, subPop sid] (by
    intro f hf s
    simp only [List.mem_cons, List.not_mem_nil, or_false] at hf
    rcases hf with rfl | rfl | rfl
    · exact subTest_regk o sid 3 (by omega) s
    · exact subDrop_regk o sid 3 s
    · rfl)

theorem gpipe_subRemoveR (o : Nat) :
    pipe [whenReg o 4 1 (fun s => subTest o (s.reg o 5) s), whenReg o 4 1 (fun s => subDrop o (s.reg o 5) s),
          whenReg o 4 1 (fun s => subPop (s.reg o 5) s)] = whenReg o 4 1 (fun s => subRemove o (s.reg o 5) s) := by
  rw [← pipe_subRemoveR]
  exact pipe_guard o 4 1 [(fun s => subTest o (s.reg o 5) s), (fun s => subDrop o (s.reg o 5) s), (fun s => subPop (s.reg o 5) s)] (by
    intro f hf s
    simp only [List.mem_cons, List.not_mem_nil, or_false] at hf
    rcases hf with rfl | rfl | rfl
    · exact subTest_regk o _ 4 (by omega) s
    · exact subDrop_regk o _ 4 s
    · rfl)

macro "fuse_eval" : tactic => `(tactic| (
  simp only [compileF, compileA, eraseF, asect, gd, respA, gcIterA, subRemoveIterA, attendIterA, List.map_cons, List.map_nil, List.map_append,
    List.cons_append, List.nil_append, List.append_nil, FI.erase, FMB.guard,
    mInsLd, mInsSt, mInsBump, mInsRet, mExists, mGet, mUpdate, mUpdIf, mRemoveId, mScan, mDelKey, mAll, mProvAdd, mProvDel,
    mProvHas, mConsAdd, mConsDel, mConsCollect, mConsHas, mConsHasR, mSubApp, mSubStamp, mSubsCopy, mSubTest, mSubDrop,
    mSubPop, mSubTestR, mSubDropR, mSubPopR, mLastChkR, mSubStoredR, mGcPick, mSubPick, mRemovePick, mMarkRemove, mCallback,
    mUnsubFind, mSetResp]
  simp only [fuse, fuseA_acq, fuseA_rel, fuseA_blk, startsBlk, fuseA_nil, lkDb, lkSvc, lkMt, lkApp, List.isEmpty_cons, List.isEmpty_nil,
    Bool.not_false, Bool.not_true, Bool.and_true, Bool.true_and, Bool.false_and, Bool.and_false, if_true, if_false, List.erase_cons_head,
    List.nil_append, List.cons_append, List.append_assoc, pipe_single, gpipe_insert, gpipe_remove, gpipe_collect, gpipe_subAdd, gpipe_subRemove, gpipe_subRemoveR,
    reduceCtorEq, ↓reduceIte, Bool.false_eq_true]
  simp only [compile, compileT, tsect, gcIter, attendIter, attendRemove, TI.erase, List.map_cons, List.map_nil, List.map_append, List.cons_append,
    List.nil_append, List.append_nil, lkDb, lkSvc, lkMt, lkApp]))

theorem fuse_gcIterA (o : Nat) : fuse (eraseF (gcIterA o)) = (gcIter o).map TI.erase := by fuse_eval
theorem fuse_attendIterA (o : Nat) : fuse (eraseF (attendIterA o)) = (attendIter o).map TI.erase := by fuse_eval
theorem fuse_attendRemoveA (o : Nat) : fuse (eraseF (subRemoveIterA o (mRemovePick o))) = (attendRemove o).map TI.erase := by fuse_eval

theorem eraseF_asect (l : Lock) (ms : List FMB) : eraseF (asect l ms) = sectN l (ms.map (·.f)) := by
  simp [eraseF, asect, sectN, FI.erase, List.map_map]

theorem WFp_asect (l : Lock) (ms : List FMB) : WFp rank [] (eraseF (asect l ms)) := by
  rw [eraseF_asect]; exact WFp_sectN rank l _

theorem fuse_replicate (n : Nat) (p : List (Instr LSt)) (hw : WFp rank [] p) :
    fuse (List.replicate n p).flatten = (List.replicate n (fuse p)).flatten := by
  rw [fuse_flatten rank _ (by intro q hq; rw [List.mem_replicate] at hq; rw [hq.2]; exact hw), List.map_replicate]

theorem WFp_replicate (n : Nat) (p : List (Instr LSt)) (hw : WFp rank [] p) : WFp rank [] (List.replicate n p).flatten :=
  WFp_flatten rank _ (by intro q hq; rw [List.mem_replicate] at hq; rw [hq.2]; exact hw)

theorem WFp_gcIterA (o : Nat) : WFp rank [] (eraseF (gcIterA o)) := by
  simp [gcIterA, eraseF, asect, gd, FI.erase, WFp]
theorem WFp_subRemoveIterA (o : Nat) (m : FMB) : WFp rank [] (eraseF (subRemoveIterA o m)) := by
  simp [subRemoveIterA, eraseF, asect, gd, FI.erase, WFp]
theorem WFp_attendIterA (o : Nat) : WFp rank [] (eraseF (attendIterA o)) := by
  simp [attendIterA, eraseF, asect, gd, FI.erase, WFp]

theorem fuse_compileF_gc (o n : Nat) : fuse (compileF (.gc o n)) = compile (.gc o n) := by
  simp only [compileF, compileA, eraseF_append, eraseF_flatten, List.map_replicate, List.append_assoc]
  rw [fuse_append rank _ _ (WFp_asect _ _), fuse_append rank _ _ (WFp_asect _ _),
    fuse_append rank _ _ (WFp_replicate n _ (WFp_gcIterA o)), fuse_append rank _ _ (WFp_asect _ _),
    fuse_replicate n _ (WFp_gcIterA o), fuse_gcIterA]
  simp only [compile, compileT, List.map_append, List.map_flatten, List.map_replicate, List.append_assoc]
  congr 1 <;> (try congr 1) <;> (try congr 1) <;> (try congr 1) <;> fuse_eval

theorem fuse_deregIter (o : Nat) :
    fuse (eraseF (subRemoveIterA o (mSubPick o))) =
      ([TI.loc (subPick o)] ++ tsect lkSvc (.gblk o 4 1 (fun s => subRemove o (s.reg o 5) s))).map TI.erase := by fuse_eval

theorem fuse_compileF_deregC (o a n : Nat) : fuse (compileF (.deregC o a n)) = compile (.deregC o a n) := by
  by_cases hn : n = 0
  · subst hn
    simp only [compileF, compileA, List.replicate_zero, List.flatten_nil, List.append_nil, if_true]
    fuse_eval
    simp
  · simp only [compileF, compileA, hn, if_false, eraseF_append, eraseF_flatten, List.map_replicate, List.append_assoc]
    rw [fuse_append rank _ _ (WFp_asect _ _), fuse_append rank _ _ (WFp_asect _ _),
      fuse_append rank _ _ (WFp_replicate n _ (WFp_subRemoveIterA o _)),
      fuse_replicate n _ (WFp_subRemoveIterA o _), fuse_deregIter]
    simp only [compile, compileT, hn, if_false, List.map_append, List.map_flatten, List.map_replicate, List.append_assoc]
    congr 1 <;> (try congr 1) <;> (try congr 1) <;> fuse_eval

theorem fuse_compileF_attend (o n : Nat) : fuse (compileF (.attend o n)) = compile (.attend o n) := by
  simp only [compileF, compileA, eraseF_append, eraseF_flatten, List.map_replicate, List.append_assoc]
  rw [fuse_append rank _ _ (WFp_asect _ _), fuse_append rank _ _ (WFp_replicate n _ (WFp_attendIterA o)),
    fuse_replicate n _ (WFp_attendIterA o), fuse_replicate n _ (WFp_subRemoveIterA o _), fuse_attendIterA, fuse_attendRemoveA]
  simp only [compile, compileT, List.map_append, List.map_flatten, List.map_replicate, List.append_assoc]
  congr 1 <;> fuse_eval

/-- **decomposition**: fusing the instruction-level program of an operation gives its block program -/
theorem fuse_compileF (op : Op) : fuse (compileF op) = compile op := by
  cases op with
  | deregC o a n => exact fuse_compileF_deregC o a n
  | gc o n => exact fuse_compileF_gc o n
  | attend o n => exact fuse_compileF_attend o n
  | _ => fuse_eval

theorem WFp_compileF (op : Op) : WFp rank [] (compileF op) := by
  cases op with
  | deregC o a n =>
    simp only [compileF, compileA, eraseF_append, eraseF_flatten, List.map_replicate]
    refine WFp_append _ _ _ _ (WFp_append _ _ _ _ (WFp_append _ _ _ _ (WFp_asect _ _) (WFp_asect _ _)) ?_) ?_
    · exact WFp_replicate n _ (WFp_subRemoveIterA o _)
    · simp [respA, eraseF, FI.erase, WFp]
  | gc o n =>
    simp only [compileF, compileA, eraseF_append, eraseF_flatten, List.map_replicate]
    refine WFp_append _ _ _ _ (WFp_append _ _ _ _ (WFp_append _ _ _ _ (WFp_append _ _ _ _ (WFp_asect _ _) (WFp_asect _ _)) ?_)
      (WFp_asect _ _)) (WFp_asect _ _)
    exact WFp_replicate n _ (WFp_gcIterA o)
  | attend o n =>
    simp only [compileF, compileA, eraseF_append, eraseF_flatten, List.map_replicate]
    exact WFp_append _ _ _ _ (WFp_append _ _ _ _ (WFp_asect _ _) (WFp_replicate n _ (WFp_attendIterA o)))
      (WFp_replicate n _ (WFp_subRemoveIterA o _))
  | updMt o i v => simp [compileF, compileA, eraseF, asect, respA, FI.erase, WFp, rank, lkMt, lkDb]
  | _ => simp [compileF, compileA, eraseF, asect, gd, respA, FI.erase, WFp]

theorem fuse_threadProgF (ops : List Op) : fuse (threadProgF ops) = threadProg ops := by
  unfold threadProgF threadProg
  rw [fuse_flatten rank _ (by intro p hp; rw [List.mem_map] at hp; obtain ⟨op, _, rfl⟩ := hp; exact WFp_compileF op),
    List.map_map]
  congr 1
  apply List.map_congr_left
  intro op _
  exact fuse_compileF op

theorem fuse_progsF (threads : List (List Op)) : (threads.map threadProgF).map fuse = threads.map threadProg := by
  rw [List.map_map]
  apply List.map_congr_left
  intro ops _
  exact fuse_threadProgF ops

/-! ## the lock map and the check -/

/-- operation ids (register banks) an operation uses -/
def Op.ids : Op → List Nat
  | .regP _ => [] | .regC _ => []
  | .deregP o _ => [o] | .deregC o _ _ => [o] | .add o _ _ => [o] | .upd o _ _ => [o] | .updMt o _ _ => [o]
  | .del o _ => [o] | .qry o _ => [o] | .sub o _ _ => [o] | .unsub o _ _ => [o] | .gc o _ => [o] | .attend o _ => [o]

/-- the lock map of the LDM (mirrors `guarded_ldm`): database attributes under the database lock, registries and
subscription state under the service lock, the registers of operation `o` local to thread `owner o`, `calls` free (the callback that appends to it runs as
the single, hence final, micro-block of a section of the APPLICATION mutex `lkApp`, which protects no LDM variable) -/
def prot (owner : Nat → ThreadId) : LV → LGuard
  | .db => .lock lkDb | .nextId => .lock lkDb | .insLog => .lock lkDb | .inserted => .lock lkDb
  | .removed => .lock lkDb | .revived => .lock lkDb | .overwritten => .lock lkDb
  | .prov => .lock lkSvc | .cons => .lock lkSvc | .subs => .lock lkSvc | .lastChk => .lock lkSvc
  | .subAdded => .lock lkSvc | .subRemoved => .lock lkSvc
  | .calls => .free
  | .resp o => .loc (owner o) | .rows o => .loc (owner o) | .reg o _ => .loc (owner o) | .regS o => .loc (owner o)
  | .regT o => .loc (owner o) | .err o => .loc (owner o)

macro "lcheck_eval" ho:term : tactic => `(tactic| (
  simp [compileA, asect, gd, respA, gcIterA, subRemoveIterA, attendIterA, lcheck, endH, lallowedB, prot, startsBlkF, FMB.guard,
    mInsLd, mInsSt, mInsBump, mInsRet, mExists, mGet, mUpdate, mUpdIf, mRemoveId, mScan, mDelKey, mAll, mProvAdd, mProvDel,
    mProvHas, mConsAdd, mConsDel, mConsCollect, mConsHas, mConsHasR, mSubApp, mSubStamp, mSubsCopy, mSubTest, mSubDrop,
    mSubPop, mSubTestR, mSubDropR, mSubPopR, mLastChkR, mSubStoredR, mGcPick, mSubPick, mRemovePick, mMarkRemove, mCallback,
    mUnsubFind, mSetResp, lkDb, lkSvc, lkMt, lkApp, $ho:term]))

theorem replicate_all {α : Type} (n : Nat) (p : α) (P : α → Prop) (h : P p) : ∀ q ∈ List.replicate n p, P q := by
  intro q hq; rw [List.mem_replicate] at hq; rw [hq.2]; exact h

/-- every operation's instruction-level program passes the lock-map check (and ends with no lock held) -/
theorem lcheck_compileA (owner : Nat → ThreadId) (t : ThreadId) (op : Op) (h : ∀ o ∈ op.ids, owner o = t) :
    endH [] (compileA op) = [] ∧ lcheck (prot owner) t [] (compileA op) = true := by
  cases op with
  | regP a => lcheck_eval True.intro
  | regC a => lcheck_eval True.intro
  | deregP o a => have ho : owner o = t := h o (by simp [Op.ids]); lcheck_eval ho
  | add o a v => have ho : owner o = t := h o (by simp [Op.ids]); lcheck_eval ho
  | upd o i v => have ho : owner o = t := h o (by simp [Op.ids]); lcheck_eval ho
  | updMt o i v => have ho : owner o = t := h o (by simp [Op.ids]); lcheck_eval ho
  | del o i => have ho : owner o = t := h o (by simp [Op.ids]); lcheck_eval ho
  | qry o a => have ho : owner o = t := h o (by simp [Op.ids]); lcheck_eval ho
  | sub o a sid => have ho : owner o = t := h o (by simp [Op.ids]); lcheck_eval ho
  | unsub o a sid => have ho : owner o = t := h o (by simp [Op.ids]); lcheck_eval ho
  | deregC o a n =>
    have ho : owner o = t := h o (by simp [Op.ids])
    have hit : endH [] (subRemoveIterA o (mSubPick o)) = [] ∧ lcheck (prot owner) t [] (subRemoveIterA o (mSubPick o)) = true := by
      lcheck_eval ho
    have hrep := replicate_all n _ (fun p => endH [] p = [] ∧ lcheck (prot owner) t [] p = true) hit
    have h1 : endH [] (asect lkSvc [mConsHas o a]) = [] ∧ lcheck (prot owner) t [] (asect lkSvc [mConsHas o a]) = true := by
      lcheck_eval ho
    have h2 : ∀ ms, ms = (if n = 0 then [(mConsDel a).guard o 1 1] else gd o 1 1 [mConsDel a, mConsCollect o a]) →
        endH [] (asect lkSvc ms) = [] ∧ lcheck (prot owner) t [] (asect lkSvc ms) = true := by
      intro ms hms
      by_cases hn : n = 0
      · simp only [hn, if_true] at hms; subst hms; lcheck_eval ho
      · simp only [hn, if_false] at hms; subst hms; lcheck_eval ho
    have h3 : endH [] (respA o [1] (fun s => [s.reg o 1])) = [] ∧ lcheck (prot owner) t [] (respA o [1] (fun s => [s.reg o 1])) = true := by
      lcheck_eval ho
    have hflat := lcheck_flatten (prot owner) t
      [asect lkSvc [mConsHas o a], asect lkSvc (if n = 0 then [(mConsDel a).guard o 1 1] else gd o 1 1 [mConsDel a, mConsCollect o a]),
       (List.replicate n (subRemoveIterA o (mSubPick o))).flatten, respA o [1] (fun s => [s.reg o 1])]
    have hend := endH_flatten
      [asect lkSvc [mConsHas o a], asect lkSvc (if n = 0 then [(mConsDel a).guard o 1 1] else gd o 1 1 [mConsDel a, mConsCollect o a]),
       (List.replicate n (subRemoveIterA o (mSubPick o))).flatten, respA o [1] (fun s => [s.reg o 1])]
    have hall : ∀ p ∈ [asect lkSvc [mConsHas o a], asect lkSvc (if n = 0 then [(mConsDel a).guard o 1 1] else gd o 1 1 [mConsDel a, mConsCollect o a]),
       (List.replicate n (subRemoveIterA o (mSubPick o))).flatten, respA o [1] (fun s => [s.reg o 1])],
        endH [] p = [] ∧ lcheck (prot owner) t [] p = true := by
      intro p hp
      simp only [List.mem_cons, List.not_mem_nil, or_false] at hp
      rcases hp with rfl | rfl | rfl | rfl
      · exact h1
      · exact h2 _ rfl
      · exact ⟨endH_flatten _ (fun q hq => (hrep q hq).1), lcheck_flatten _ _ _ hrep⟩
      · exact h3
    have e : compileA (.deregC o a n) = [asect lkSvc [mConsHas o a], asect lkSvc (if n = 0 then [(mConsDel a).guard o 1 1] else gd o 1 1 [mConsDel a, mConsCollect o a]),
       (List.replicate n (subRemoveIterA o (mSubPick o))).flatten, respA o [1] (fun s => [s.reg o 1])].flatten := by
      simp [compileA]
    rw [e]
    exact ⟨hend (fun p hp => (hall p hp).1), hflat hall⟩
  | gc o n =>
    have ho : owner o = t := h o (by simp [Op.ids])
    have hit : endH [] (gcIterA o) = [] ∧ lcheck (prot owner) t [] (gcIterA o) = true := by lcheck_eval ho
    have hrep := replicate_all n _ (fun p => endH [] p = [] ∧ lcheck (prot owner) t [] p = true) hit
    have h1 : endH [] (asect lkDb [mAll o]) = [] ∧ lcheck (prot owner) t [] (asect lkDb [mAll o]) = true := by lcheck_eval ho
    have e : compileA (.gc o n) = [asect lkDb [mAll o], asect lkDb [mAll o], (List.replicate n (gcIterA o)).flatten,
        asect lkDb [mAll o], asect lkDb [mAll o]].flatten := by simp [compileA]
    have hall : ∀ p ∈ [asect lkDb [mAll o], asect lkDb [mAll o], (List.replicate n (gcIterA o)).flatten,
        asect lkDb [mAll o], asect lkDb [mAll o]], endH [] p = [] ∧ lcheck (prot owner) t [] p = true := by
      intro p hp
      simp only [List.mem_cons, List.not_mem_nil, or_false] at hp
      rcases hp with rfl | rfl | rfl | rfl | rfl
      · exact h1
      · exact h1
      · exact ⟨endH_flatten _ (fun q hq => (hrep q hq).1), lcheck_flatten _ _ _ hrep⟩
      · exact h1
      · exact h1
    rw [e]
    exact ⟨endH_flatten _ (fun p hp => (hall p hp).1), lcheck_flatten _ _ _ hall⟩
  | attend o n =>
    have ho : owner o = t := h o (by simp [Op.ids])
    have hit : endH [] (attendIterA o) = [] ∧ lcheck (prot owner) t [] (attendIterA o) = true := by lcheck_eval ho
    have hit2 : endH [] (subRemoveIterA o (mRemovePick o)) = [] ∧ lcheck (prot owner) t [] (subRemoveIterA o (mRemovePick o)) = true := by
      lcheck_eval ho
    have hrep := replicate_all n _ (fun p => endH [] p = [] ∧ lcheck (prot owner) t [] p = true) hit
    have hrep2 := replicate_all n _ (fun p => endH [] p = [] ∧ lcheck (prot owner) t [] p = true) hit2
    have h1 : endH [] (asect lkSvc [mSubsCopy o]) = [] ∧ lcheck (prot owner) t [] (asect lkSvc [mSubsCopy o]) = true := by lcheck_eval ho
    have e : compileA (.attend o n) = [asect lkSvc [mSubsCopy o], (List.replicate n (attendIterA o)).flatten,
        (List.replicate n (subRemoveIterA o (mRemovePick o))).flatten].flatten := by simp [compileA]
    have hall : ∀ p ∈ [asect lkSvc [mSubsCopy o], (List.replicate n (attendIterA o)).flatten,
        (List.replicate n (subRemoveIterA o (mRemovePick o))).flatten], endH [] p = [] ∧ lcheck (prot owner) t [] p = true := by
      intro p hp
      simp only [List.mem_cons, List.not_mem_nil, or_false] at hp
      rcases hp with rfl | rfl | rfl
      · exact h1
      · exact ⟨endH_flatten _ (fun q hq => (hrep q hq).1), lcheck_flatten _ _ _ hrep⟩
      · exact ⟨endH_flatten _ (fun q hq => (hrep2 q hq).1), lcheck_flatten _ _ _ hrep2⟩
    rw [e]
    exact ⟨endH_flatten _ (fun p hp => (hall p hp).1), lcheck_flatten _ _ _ hall⟩

/-! ## every micro-block is framed -/

theorem allFramedF_append_iff (p q : List FI) : AllFramedF (p ++ q) ↔ AllFramedF p ∧ AllFramedF q := by
  constructor
  · intro h
    exact ⟨fun m hm => h m (List.mem_append_left _ hm), fun m hm => h m (List.mem_append_right _ hm)⟩
  · intro h; exact allFramedF_append p q h.1 h.2

theorem allFramedF_asect_iff (l : Lock) (ms : List FMB) : AllFramedF (asect l ms) ↔ ∀ m ∈ ms, m.Framed := by
  unfold AllFramedF asect
  constructor
  · intro h m hm; exact h m (by simp [hm])
  · intro h m hm
    simp only [List.mem_cons, List.mem_append, List.mem_map, reduceCtorEq, false_or, List.not_mem_nil, or_false] at hm
    obtain ⟨m', hm', he⟩ := hm
    cases he
    exact h m hm'

theorem allFramedF_single (m : FMB) : AllFramedF [FI.blk m] ↔ m.Framed := by
  unfold AllFramedF
  constructor
  · intro h; exact h m (by simp)
  · intro h m' hm'
    simp only [List.mem_cons, List.not_mem_nil, or_false] at hm'
    cases hm'; exact h

theorem allFramedF_locks (p : List FI) (h : ∀ i ∈ p, ∃ l, i = .acq l ∨ i = .rel l) : AllFramedF p := by
  intro m hm
  obtain ⟨l, hl | hl⟩ := h _ hm <;> cases hl

theorem forall_mem_gd_iff (o k v : Nat) (ms : List FMB) :
    (∀ m ∈ gd o k v ms, m.Framed) ↔ ∀ m ∈ ms, (m.guard o k v).Framed := by
  simp [gd]

theorem framed_resp1 (o : Nat) : (mSetResp o [1] (fun s => [s.reg o 1])).Framed :=
  framed_mSetResp _ _ _ (by intro s s' h; simp_all)
theorem framed_respUpd (o : Nat) : (mSetResp o [1, 6, 7] (fun s => [updCode (s.reg o 1) (s.reg o 6) (s.reg o 7)])).Framed :=
  framed_mSetResp _ _ _ (by intro s s' h; simp_all)
theorem framed_respUpdMt (o : Nat) : (mSetResp o [1, 6, 3] (fun s => [updCode (s.reg o 1) (s.reg o 6) (s.reg o 3)])).Framed :=
  framed_mSetResp _ _ _ (by intro s s' h; simp_all)
theorem framed_respDel (o : Nat) : (mSetResp o [1, 3] (fun s => [if s.reg o 1 = 1 ∧ s.reg o 3 = 1 then 1 else 0])).Framed :=
  framed_mSetResp _ _ _ (by intro s s' h; simp_all)
theorem framed_respUnsub (o : Nat) :
    (mSetResp o [1, 3, 8] (fun s => [s.reg o 1, if s.reg o 3 = 1 ∧ s.reg o 8 = 1 then 1 else 0])).Framed :=
  framed_mSetResp _ _ _ (by intro s s' h; simp_all)

macro "framed_eval" : tactic => `(tactic| (
  simp (maxDischargeDepth := 6) only [compileA, gcIterA, subRemoveIterA, attendIterA, respA, allFramedF_append_iff, allFramedF_asect_iff, allFramedF_single,
    forall_mem_gd_iff, List.forall_mem_cons, List.not_mem_nil, false_implies, implies_true, and_true, true_and, and_self,
    framed_guard, framed_resp1, framed_respUpd, framed_respUpdMt, framed_respDel, framed_respUnsub,
    framed_mInsLd, framed_mInsSt, framed_mInsBump, framed_mInsRet, framed_mExists, framed_mGet, framed_mUpdate, framed_mUpdIf,
    framed_mRemoveId, framed_mScan, framed_mDelKey, framed_mAll, framed_mProvAdd, framed_mProvDel, framed_mProvHas,
    framed_mConsAdd, framed_mConsDel, framed_mConsCollect, framed_mConsHas, framed_mConsHasR, framed_mSubApp, framed_mSubStamp,
    framed_mSubsCopy, framed_mSubTest, framed_mSubDrop, framed_mSubPop, framed_mSubTestR, framed_mSubDropR, framed_mSubPopR,
    framed_mLastChkR, framed_mSubStoredR, framed_mGcPick, framed_mSubPick, framed_mRemovePick, framed_mMarkRemove, framed_mCallback,
    framed_mUnsubFind]))

theorem allFramedF_replicate (n : Nat) (p : List FI) (h : AllFramedF p) : AllFramedF (List.replicate n p).flatten :=
  allFramedF_flatten _ (replicate_all n p AllFramedF h)

theorem allFramedF_compileA (op : Op) : AllFramedF (compileA op) := by
  cases op with
  | deregC o a n =>
    have hit : AllFramedF (subRemoveIterA o (mSubPick o)) := by framed_eval
    have hr := allFramedF_replicate n _ hit
    by_cases hn : n = 0
    · simp only [compileA, hn, if_true, allFramedF_append_iff]
      refine ⟨⟨⟨?_, ?_⟩, by simpa [hn] using hr⟩, ?_⟩ <;> framed_eval
    · simp only [compileA, hn, if_false, allFramedF_append_iff]
      refine ⟨⟨⟨?_, ?_⟩, hr⟩, ?_⟩ <;> framed_eval
  | gc o n =>
    have hit : AllFramedF (gcIterA o) := by framed_eval
    have hr := allFramedF_replicate n _ hit
    simp only [compileA, allFramedF_append_iff]
    refine ⟨⟨⟨⟨?_, ?_⟩, hr⟩, ?_⟩, ?_⟩ <;> framed_eval
  | attend o n =>
    have hit : AllFramedF (attendIterA o) := by framed_eval
    have hit2 : AllFramedF (subRemoveIterA o (mRemovePick o)) := by framed_eval
    simp only [compileA, allFramedF_append_iff]
    refine ⟨⟨?_, allFramedF_replicate n _ hit⟩, allFramedF_replicate n _ hit2⟩
    framed_eval
  | updMt o i v =>
    simp only [compileA, allFramedF_append_iff]
    refine ⟨⟨⟨⟨⟨⟨?_, ?_⟩, ?_⟩, ?_⟩, ?_⟩, ?_⟩, ?_⟩
    · framed_eval
    · exact allFramedF_locks _ (by intro i hi; simp at hi; subst hi; exact ⟨_, Or.inl rfl⟩)
    · framed_eval
    · exact allFramedF_locks _ (by
        intro i hi; simp at hi; rcases hi with rfl | rfl
        · exact ⟨_, Or.inr rfl⟩
        · exact ⟨_, Or.inl rfl⟩)
    · framed_eval
    · exact allFramedF_locks _ (by intro i hi; simp at hi; subst hi; exact ⟨_, Or.inr rfl⟩)
    · framed_eval
  | _ => framed_eval

/-! ## the instruction-level system obeys the discipline; the block model over-approximates it -/

/-- every operation id is used by one thread only (the harness numbers the operations of a scenario 1, 2, 3, …) -/
def Owned (owner : Nat → ThreadId) (threads : List (List Op)) : Prop :=
  ∀ t ops, threads[t]? = some ops → ∀ op ∈ ops, ∀ o ∈ op.ids, owner o = t

theorem lcheck_threadProgA (owner : Nat → ThreadId) (t : ThreadId) (ops : List Op)
    (h : ∀ op ∈ ops, ∀ o ∈ op.ids, owner o = t) : lcheck (prot owner) t [] (threadProgA ops) = true := by
  unfold threadProgA
  apply lcheck_flatten
  intro p hp
  rw [List.mem_map] at hp
  obtain ⟨op, hop, rfl⟩ := hp
  exact lcheck_compileA owner t op (h op hop)

theorem allFramedF_threadProgA (ops : List Op) : AllFramedF (threadProgA ops) := by
  unfold threadProgA
  apply allFramedF_flatten
  intro p hp
  rw [List.mem_map] at hp
  obtain ⟨op, _, rfl⟩ := hp
  exact allFramedF_compileA op

theorem progsF_eq (threads : List (List Op)) : threads.map threadProgF = (threads.map threadProgA).map eraseF := by
  rw [List.map_map]
  apply List.map_congr_left
  intro ops _
  exact threadProgF_eq ops

/-- **lock-map check ⇒ protection** for the instruction-level LDM programs -/
theorem lprotected_fine (owner : Nat → ThreadId) (threads : List (List Op)) (h : Owned owner threads) :
    LProtected (prot owner) (threads.map threadProgF) := by
  rw [progsF_eq]
  apply lprotected_of_check
  · intro t p hp
    simp only [List.getElem?_map, Option.map_eq_some_iff] at hp
    obtain ⟨ops, hops, rfl⟩ := hp
    exact lcheck_threadProgA owner t ops (h t ops hops)
  · intro p hp
    rw [List.mem_map] at hp
    obtain ⟨ops, _, rfl⟩ := hp
    exact allFramedF_threadProgA ops

/-- the commutation discipline of the reduction theorem holds for the instruction-level LDM programs -/
theorem discipline_fine (owner : Nat → ThreadId) (threads : List (List Op)) (h : Owned owner threads) :
    Discipline (threads.map threadProgF) :=
  discipline_of_lprotected (prot owner) _ (lprotected_fine owner threads h)

end FlexModel.Conc.Ldm

/-
C16 — linearisability of the LDM operations whose only shared-state access besides the registration check is ONE block
(register, deregister a provider, the old consumer deregistration, add, request, subscribe): instantiation of
`LdmSerial.serialise`.

Each such operation is a transaction  `check` ; `action` ; `response`:  the registration check (`provHas` / `consHas`: a
read of the registry copy into a register) and the response (`setResp`: registers only) are MOVERS – they commute with
every block of every other thread PROVIDED no other thread writes the registration they read (`AppOwned`: every
application is registered / deregistered / used by one thread only – "no (de)registration of that application
overlaps") and operation ids are not shared (`Owned`).  That is the complement of known finding C16-KF2.
-/
import FlexModel.Conc.LdmSerial
import FlexModel.Conc.LdmFine

open FlexModel.Conc FlexModel.Conc.Reduction FlexModel.Conc.Serial

namespace FlexModel.Conc.Ldm

/-- the operations with ONE block that touches shared state besides the registration check: register, the old
deregistration (`n = 0`), deregister a provider, add, request, subscribe – as transactions `check ; action ; response` -/
def txnOf : Op → Option (Txn LSt)
  | .regP a => some ⟨[], provAdd a, []⟩
  | .regC a => some ⟨[], consAdd a, []⟩
  | .deregP o a => some ⟨[provHas o a], whenReg o 1 1 (provDel a), [setResp o (fun s => [s.reg o 1])]⟩
  | .deregC o a 0 => some ⟨[consHas o a], whenReg o 1 1 (consDel a), [setResp o (fun s => [s.reg o 1])]⟩
  | .add o a v => some ⟨[provHas o a], whenReg o 1 1 (dbInsert o v), []⟩
  | .qry o a => some ⟨[consHas o a], whenReg o 1 1 (dbAll o), [setResp o (fun s => [s.reg o 1])]⟩
  | .sub o a sid => some ⟨[consHas o a], whenReg o 1 1 (subAdd sid), [setResp o (fun s => [s.reg o 1])]⟩
  | _ => none

theorem blocks_txnOf (op : Op) (x : Txn LSt) (h : txnOf op = some x) : blocksOf (compile op) = x.blocks := by
  cases op with
  | deregC o a n =>
    cases n with
    | zero => simp [txnOf] at h; subst h; simp [compile, compileT, tsect, TI.erase, blocksOf, Txn.blocks]
    | succ n => simp [txnOf] at h
  | regP a => simp [txnOf] at h; subst h; simp [compile, compileT, tsect, TI.erase, blocksOf, Txn.blocks]
  | regC a => simp [txnOf] at h; subst h; simp [compile, compileT, tsect, TI.erase, blocksOf, Txn.blocks]
  | deregP o a => simp [txnOf] at h; subst h; simp [compile, compileT, tsect, TI.erase, blocksOf, Txn.blocks]
  | add o a v => simp [txnOf] at h; subst h; simp [compile, compileT, tsect, TI.erase, blocksOf, Txn.blocks]
  | qry o a => simp [txnOf] at h; subst h; simp [compile, compileT, tsect, TI.erase, blocksOf, Txn.blocks]
  | sub o a sid => simp [txnOf] at h; subst h; simp [compile, compileT, tsect, TI.erase, blocksOf, Txn.blocks]
  | _ => simp [txnOf] at h

/-- provider / consumer application an operation's registration check or registry update refers to -/
def Op.pApp : Op → Option Nat
  | .regP a => some a | .deregP _ a => some a | .add _ a _ => some a | _ => none
def Op.cApp : Op → Option Nat
  | .regC a => some a | .deregC _ a _ => some a | .qry _ a => some a | .sub _ a _ => some a | _ => none

theorem upd2_comm (f : Nat → Nat → Nat) (o k x o' k' y : Nat) (h : o ≠ o') :
    upd2 (upd2 f o k x) o' k' y = upd2 (upd2 f o' k' y) o k x := by
  funext i j
  simp only [upd2]
  by_cases h1 : i = o' ∧ j = k' <;> by_cases h2 : i = o ∧ j = k <;> simp [h1, h2]
  · exact absurd (h2.1.symm.trans h1.1) h
  · intro e; exact absurd e.symm h
  · intro e; exact absurd e h

theorem upd_comm {α : Type} (f : Nat → α) (o o' : Nat) (x y : α) (h : o ≠ o') :
    Ldm.upd (Ldm.upd f o x) o' y = Ldm.upd (Ldm.upd f o' y) o x := by
  funext i
  simp only [Ldm.upd]
  by_cases h1 : i = o' <;> by_cases h2 : i = o <;> simp [h1, h2]
  · exact absurd (h2.symm.trans h1) h
  · intro e; exact absurd e.symm h
  · intro e; exact absurd e h

macro "comm_tac" : tactic => `(tactic| (
  intro s
  try simp only [whenReg]
  repeat' split
  all_goals (try simp_all [provHas, provAdd, provDel, consHas, consAdd, consDel, dbInsert, dbAll, subAdd, setResp, Ldm.upd, upd2])
  all_goals (repeat' apply And.intro)
  all_goals (first | done | rfl | (apply upd2_comm; assumption) | (apply upd_comm; assumption) | (funext i j; simp only [upd2]; grind) | (funext i; simp only [Ldm.upd]; grind))))

/-- the movers of these operations: registration check of a provider / consumer, response -/
inductive MK where
  | pH (o a : Nat) | cH (o a : Nat) | sR (o : Nat)
/-- the blocks of these operations -/
inductive BK where
  | pA (a : Nat) | cA (a : Nat) | pH (o a : Nat) | cH (o a : Nat) | pD (o a : Nat) | cD (o a : Nat)
  | ins (o v : Nat) | all (o : Nat) | sA (o sid : Nat) | sR (o : Nat)

def MK.fn : MK → LSt → LSt
  | .pH o a => provHas o a | .cH o a => consHas o a | .sR o => setResp o (fun s => [s.reg o 1])
def MK.id : MK → Nat
  | .pH o _ => o | .cH o _ => o | .sR o => o
def MK.pR : MK → Option Nat
  | .pH _ a => some a | _ => none
def MK.cR : MK → Option Nat
  | .cH _ a => some a | _ => none

def BK.fn : BK → LSt → LSt
  | .pA a => provAdd a | .cA a => consAdd a | .pH o a => provHas o a | .cH o a => consHas o a
  | .pD o a => whenReg o 1 1 (provDel a) | .cD o a => whenReg o 1 1 (consDel a)
  | .ins o v => whenReg o 1 1 (dbInsert o v) | .all o => whenReg o 1 1 (dbAll o) | .sA o sid => whenReg o 1 1 (subAdd sid)
  | .sR o => setResp o (fun s => [s.reg o 1])
def BK.id : BK → Option Nat
  | .pA _ => none | .cA _ => none | .pH o _ => some o | .cH o _ => some o | .pD o _ => some o | .cD o _ => some o
  | .ins o _ => some o | .all o => some o | .sA o _ => some o | .sR o => some o
/-- provider / consumer application whose registration the block WRITES -/
def BK.pW : BK → Option Nat
  | .pA a => some a | .pD _ a => some a | _ => none
def BK.cW : BK → Option Nat
  | .cA a => some a | .cD _ a => some a | _ => none

/-- a mover commutes with a block of another operation that does not write the registration it reads -/
theorem commute_mk_bk (m : MK) (b : BK) (hid : ∀ o', b.id = some o' → m.id ≠ o')
    (hp : ∀ a a', m.pR = some a → b.pW = some a' → a ≠ a') (hc : ∀ a a', m.cR = some a → b.cW = some a' → a ≠ a') :
    Commute m.fn b.fn := by
  cases m <;> cases b <;> simp only [MK.id, BK.id, MK.pR, MK.cR, BK.pW, BK.cW, Option.some.injEq, forall_eq', reduceCtorEq,
      false_implies, implies_true, forall_const] at hid hp hc <;> simp only [MK.fn, BK.fn] <;>
    (first
      | (have ho' := Ne.symm hid; have ha' := Ne.symm hp; comm_tac)
      | (have ho' := Ne.symm hid; have ha' := Ne.symm hc; comm_tac)
      | (have ho' := Ne.symm hid; comm_tac)
      | (have ha' := Ne.symm hp; comm_tac)
      | (have ha' := Ne.symm hc; comm_tac)
      | comm_tac)
macro "desc_m" m:term : tactic => `(tactic| exact ⟨$m, rfl, by simp [MK.id, Op.ids], by simp [MK.pR, Op.pApp], by simp [MK.cR, Op.cApp]⟩)
macro "desc_b" b:term : tactic => `(tactic| exact ⟨$b, rfl, by simp [BK.id, Op.ids], by simp [BK.pW, Op.pApp], by simp [BK.cW, Op.cApp]⟩)

theorem movers_desc (op : Op) (x : Txn LSt) (h : txnOf op = some x) :
    ∀ f ∈ x.pre ++ x.post, ∃ m : MK, f = m.fn ∧ m.id ∈ op.ids ∧ (∀ a, m.pR = some a → op.pApp = some a) ∧
      (∀ a, m.cR = some a → op.cApp = some a) := by
  intro f hf
  cases op with
  | deregC o a n =>
    cases n with
    | zero =>
      simp [txnOf] at h; subst h; simp at hf
      rcases hf with rfl | rfl
      · desc_m (.cH o a)
      · desc_m (.sR o)
    | succ n => simp [txnOf] at h
  | regP a => simp [txnOf] at h; subst h; simp at hf
  | regC a => simp [txnOf] at h; subst h; simp at hf
  | deregP o a =>
    simp [txnOf] at h; subst h; simp at hf
    rcases hf with rfl | rfl
    · desc_m (.pH o a)
    · desc_m (.sR o)
  | add o a v =>
    simp [txnOf] at h; subst h; simp at hf; subst hf
    desc_m (.pH o a)
  | qry o a =>
    simp [txnOf] at h; subst h; simp at hf
    rcases hf with rfl | rfl
    · desc_m (.cH o a)
    · desc_m (.sR o)
  | sub o a sid =>
    simp [txnOf] at h; subst h; simp at hf
    rcases hf with rfl | rfl
    · desc_m (.cH o a)
    · desc_m (.sR o)
  | _ => simp [txnOf] at h

theorem blocks_desc (op : Op) (x : Txn LSt) (h : txnOf op = some x) :
    ∀ g ∈ x.blocks, ∃ b : BK, g = b.fn ∧ (∀ o, b.id = some o → o ∈ op.ids) ∧ (∀ a, b.pW = some a → op.pApp = some a) ∧
      (∀ a, b.cW = some a → op.cApp = some a) := by
  intro g hg
  cases op with
  | deregC o a n =>
    cases n with
    | zero =>
      simp [txnOf] at h; subst h; simp [Txn.blocks] at hg
      rcases hg with rfl | rfl | rfl
      · desc_b (.cH o a)
      · desc_b (.cD o a)
      · desc_b (.sR o)
    | succ n => simp [txnOf] at h
  | regP a =>
    simp [txnOf] at h; subst h; simp [Txn.blocks] at hg; subst hg
    desc_b (.pA a)
  | regC a =>
    simp [txnOf] at h; subst h; simp [Txn.blocks] at hg; subst hg
    desc_b (.cA a)
  | deregP o a =>
    simp [txnOf] at h; subst h; simp [Txn.blocks] at hg
    rcases hg with rfl | rfl | rfl
    · desc_b (.pH o a)
    · desc_b (.pD o a)
    · desc_b (.sR o)
  | add o a v =>
    simp [txnOf] at h; subst h; simp [Txn.blocks] at hg
    rcases hg with rfl | rfl
    · desc_b (.pH o a)
    · desc_b (.ins o v)
  | qry o a =>
    simp [txnOf] at h; subst h; simp [Txn.blocks] at hg
    rcases hg with rfl | rfl | rfl
    · desc_b (.cH o a)
    · desc_b (.all o)
    · desc_b (.sR o)
  | sub o a sid =>
    simp [txnOf] at h; subst h; simp [Txn.blocks] at hg
    rcases hg with rfl | rfl | rfl
    · desc_b (.cH o a)
    · desc_b (.sA o sid)
    · desc_b (.sR o)
  | _ => simp [txnOf] at h

/-- every operation of every thread is in the class -/
def LinOps (threads : List (List Op)) : Prop := ∀ ops ∈ threads, ∀ op ∈ ops, (txnOf op).isSome = true

/-- every application is registered, deregistered and used (as provider resp. consumer) by one thread only -/
def AppOwned (ownerP ownerC : Nat → ThreadId) (threads : List (List Op)) : Prop :=
  ∀ t ops, threads[t]? = some ops → ∀ op ∈ ops, (∀ a, op.pApp = some a → ownerP a = t) ∧ (∀ a, op.cApp = some a → ownerC a = t)

/-- the operation executed atomically -/
def opSem (op : Op) : LSt → LSt := pipe (blocksOf (compile op))
/-- whole operations one after the other -/
def seqRun (ops : List Op) (x : LSt) : LSt := ops.foldl (fun s op => opSem op s) x

def txns (ops : List Op) : List (Txn LSt) := ops.filterMap txnOf

theorem flat_txns (ops : List Op) (h : ∀ op ∈ ops, (txnOf op).isSome = true) : flat (txns ops) = blocksOf (threadProg ops) := by
  induction ops with
  | nil => rfl
  | cons op r ih =>
    have hop := h op (by simp)
    obtain ⟨x, hx⟩ := Option.isSome_iff_exists.mp hop
    have ihr := ih (fun o ho => h o (List.mem_cons_of_mem _ ho))
    simp only [txns, List.filterMap_cons, hx, flat_cons, threadProg, List.map_cons, List.flatten_cons, blocksOf_append]
    rw [blocks_txnOf op x hx]
    congr 1

def MvOf (threads : List (List Op)) (t : ThreadId) (f : LSt → LSt) : Prop :=
  ∃ ops, threads[t]? = some ops ∧ ∃ op ∈ ops, ∃ x, txnOf op = some x ∧ f ∈ x.pre ++ x.post
def BkOf (threads : List (List Op)) (t : ThreadId) (g : LSt → LSt) : Prop :=
  ∃ ops, threads[t]? = some ops ∧ ∃ op ∈ ops, ∃ x, txnOf op = some x ∧ g ∈ x.blocks

theorem movers_ldm (threads : List (List Op)) (owner ownerP ownerC : Nat → ThreadId) (ho : Owned owner threads)
    (ha : AppOwned ownerP ownerC threads) : Movers (MvOf threads) (BkOf threads) := by
  constructor
  · intro t f ⟨ops, hops, op, hop, x, hx, hf⟩
    refine ⟨ops, hops, op, hop, x, hx, ?_⟩
    simp only [Txn.blocks, List.mem_append, List.mem_cons] at hf ⊢
    rcases hf with hf | hf
    · exact Or.inl hf
    · exact Or.inr (Or.inr hf)
  · intro t u htu f g ⟨ops, hops, op, hop, x, hx, hf⟩ ⟨ops', hops', op', hop', x', hx', hg⟩
    obtain ⟨m, rfl, hmid, hmp, hmc⟩ := movers_desc op x hx f hf
    obtain ⟨b, rfl, hbid, hbp, hbc⟩ := blocks_desc op' x' hx' g hg
    apply commute_mk_bk
    · intro o' ho' e
      have h1 := ho t ops hops op hop m.id hmid
      have h2 := ho u ops' hops' op' hop' o' (hbid o' ho')
      rw [e] at h1
      exact htu (h1.symm.trans h2)
    · intro a a' h1 h2 e
      have k1 := (ha t ops hops op hop).1 a (hmp a h1)
      have k2 := (ha u ops' hops' op' hop').1 a' (hbp a' h2)
      rw [e] at k1
      exact htu (k1.symm.trans k2)
    · intro a a' h1 h2 e
      have k1 := (ha t ops hops op hop).2 a (hmc a h1)
      have k2 := (ha u ops' hops' op' hop').2 a' (hbc a' h2)
      rw [e] at k1
      exact htu (k1.symm.trans k2)

/-! ## from the commit order of transactions to an order of operations -/

theorem relabel {α β : Type} (g : α → β) (cm : List (ThreadId × β)) (L : ThreadId → List α)
    (h : ∀ u, (cm.filter (fun c => c.1 == u)).map (·.2) = (L u).map g) :
    ∃ π : List (ThreadId × α), π.map (fun p => (p.1, g p.2)) = cm ∧ ∀ u, (π.filter (fun c => c.1 == u)).map (·.2) = L u := by
  induction cm generalizing L with
  | nil =>
    refine ⟨[], rfl, ?_⟩
    intro u
    have := h u
    simp only [List.filter_nil, List.map_nil] at this
    simp only [List.filter_nil, List.map_nil]
    exact (List.map_eq_nil_iff.mp this.symm).symm
  | cons c cm ih =>
    obtain ⟨t, y⟩ := c
    have ht := h t
    simp only [List.filter_cons, beq_self_eq_true, if_true, List.map_cons] at ht
    cases hL : L t with
    | nil => rw [hL] at ht; cases ht
    | cons a r =>
      rw [hL, List.map_cons, List.cons.injEq] at ht
      obtain ⟨hy, hrest⟩ := ht
      obtain ⟨π', hπ1, hπ2⟩ := ih (fun u => if u = t then r else L u) (by
        intro u
        by_cases hut : u = t
        · subst hut; simpa using hrest
        · have hf : (t == u) = false := by simpa using fun e : t = u => hut e.symm
          have := h u
          simp only [List.filter_cons, hf] at this
          simpa [hut] using this)
      refine ⟨(t, a) :: π', by simp [hπ1, hy], ?_⟩
      intro u
      by_cases hut : u = t
      · subst hut
        have := hπ2 u
        simp only [if_true] at this
        simp [this, hL]
      · have hf : (t == u) = false := by simpa using fun e : t = u => hut e.symm
        have := hπ2 u
        simp only [hut, if_false] at this
        simp [List.filter_cons, hf, this]

instance : Inhabited (Txn LSt) := ⟨⟨[], id, []⟩⟩
/-- the transaction of an operation of the class -/
def txnD (op : Op) : Txn LSt := (txnOf op).getD default

theorem txns_eq_map (ops : List Op) (h : ∀ op ∈ ops, (txnOf op).isSome = true) : txns ops = ops.map txnD := by
  induction ops with
  | nil => rfl
  | cons op r ih =>
    obtain ⟨x, hx⟩ := Option.isSome_iff_exists.mp (h op (by simp))
    simp only [txns, List.filterMap_cons, hx, List.map_cons, txnD, Option.getD_some]
    congr 1
    exact ih (fun o ho => h o (List.mem_cons_of_mem _ ho))

theorem sem_txnD (op : Op) (h : (txnOf op).isSome = true) : (txnD op).sem = opSem op := by
  obtain ⟨x, hx⟩ := Option.isSome_iff_exists.mp h
  simp only [txnD, hx, Option.getD_some, Txn.sem, opSem, blocks_txnOf op x hx]

theorem seqRun_eq_pipe (ops : List Op) (x : LSt) : seqRun ops x = pipe (ops.map opSem) x := by
  simp [seqRun, pipe, List.foldl_map]

theorem progOf_sys (threads : List (List Op)) (u : ThreadId) :
    progOf (sys threads) u = ((threads[u]?).map threadProg).getD [] := by
  simp only [progOf, sys, mkSys, List.getElem?_map]
  cases threads[u]? <;> rfl

theorem progOf_finished {σ : Type} (s : Sys σ) (h : finished s = true) (u : ThreadId) : progOf s u = [] := by
  unfold progOf
  cases hu : s.thr[u]? with
  | none => rfl
  | some th =>
    unfold finished at h
    rw [List.all_eq_true] at h
    have := h th (List.mem_of_getElem? hu)
    simp only [Option.map_some, Option.getD_some]
    exact List.isEmpty_iff.mp this

/-- **Linearisability** of register / deregister-provider / add / request / subscribe (and the old consumer
deregistration) outside the region of known finding C16-KF2. -/
theorem ldm_linearizable (threads : List (List Op)) (hlin : LinOps threads) (owner ownerP ownerC : Nat → ThreadId)
    (ho : Owned owner threads) (ha : AppOwned ownerP ownerC threads) (sched : List ThreadId)
    (hfin : finished (run (sys threads) sched) = true) :
    ∃ π : List (ThreadId × Op),
      (∀ u, (π.filter (fun c => c.1 == u)).map (·.2) = (threads[u]?).getD []) ∧
      (run (sys threads) sched).sh = seqRun (π.map (·.2)) {} ∧
      π.map (fun p => (p.1, txnD p.2)) = commits (threads.map txns) (trace (sys threads) sched) := by
  have hm := movers_ldm threads owner ownerP ownerC ho ha
  have hsh : (run (sys threads) sched).sh = applyAll (trace (sys threads) sched) {} := run_eq_trace (sys threads) sched
  have htr : ∀ u, tracedBy u (trace (sys threads) sched) = flat (((threads.map txns)[u]?).getD []) := by
    intro u
    have := trace_thread_order (sys threads) sched u
    rw [progOf_finished _ hfin u] at this
    simp only [blocksOf, List.append_nil] at this
    rw [this, progOf_sys, List.getElem?_map]
    cases hu : threads[u]? with
    | none => rfl
    | some ops =>
      simp only [Option.map_some, Option.getD_some]
      exact (flat_txns ops (hlin ops (List.mem_of_getElem? hu))).symm
  have hg : ∀ t P, (threads.map txns)[t]? = some P → ∀ x ∈ P, GoodT (MvOf threads t) (BkOf threads t) x := by
    intro t P hP x hx
    simp only [List.getElem?_map, Option.map_eq_some_iff] at hP
    obtain ⟨ops, hops, rfl⟩ := hP
    simp only [txns, List.mem_filterMap] at hx
    obtain ⟨op, hop, hxo⟩ := hx
    refine ⟨?_, ?_, ?_⟩
    · intro f hf; exact ⟨ops, hops, op, hop, x, hxo, List.mem_append_left _ hf⟩
    · exact ⟨ops, hops, op, hop, x, hxo, by simp [Txn.blocks]⟩
    · intro f hf; exact ⟨ops, hops, op, hop, x, hxo, List.mem_append_right _ hf⟩
  obtain ⟨h1, h2, _⟩ := serialise hm (threads.map txns) hg (trace (sys threads) sched) htr {}
  obtain ⟨π, hπ1, hπ2⟩ := relabel txnD (commits (threads.map txns) (trace (sys threads) sched))
    (fun u => (threads[u]?).getD []) (by
      intro u
      rw [h2 u, List.getElem?_map]
      cases hu : threads[u]? with
      | none => rfl
      | some ops => simp only [Option.map_some, Option.getD_some]; exact txns_eq_map ops (hlin ops (List.mem_of_getElem? hu)))
  refine ⟨π, hπ2, ?_, hπ1⟩
  rw [hsh, h1, ← hπ1, seqRun_eq_pipe, List.map_map, List.map_map]
  congr 1
  apply List.map_congr_left
  intro p hp
  have hmem : p.2 ∈ (threads[p.1]?).getD [] := by
    rw [← hπ2 p.1]
    exact List.mem_map.mpr ⟨p, List.mem_filter.mpr ⟨hp, by simp⟩, rfl⟩
  cases hu : threads[p.1]? with
  | none => rw [hu] at hmem; cases hmem
  | some ops =>
    rw [hu] at hmem
    exact sem_txnD p.2 (hlin ops (List.mem_of_getElem? hu) p.2 hmem)

theorem ldm_linearisation_points (threads : List (List Op)) (hlin : LinOps threads) (owner ownerP ownerC : Nat → ThreadId)
    (ho : Owned owner threads) (ha : AppOwned ownerP ownerC threads) (sched : List ThreadId)
    (hfin : finished (run (sys threads) sched) = true) (tr1 : List (Ev LSt)) (e : Ev LSt) (tr2 : List (Ev LSt))
    (hsplit : trace (sys threads) sched = tr1 ++ e :: tr2) :
    commits (threads.map txns) (tr1 ++ [e]) = commits (threads.map txns) tr1 ∨
    ∃ y, commits (threads.map txns) (tr1 ++ [e]) = commits (threads.map txns) tr1 ++ [(e.1, y)] ∧ e.2 = y.lp := by
  have hm := movers_ldm threads owner ownerP ownerC ho ha
  have htr : ∀ u, tracedBy u (trace (sys threads) sched) = flat (((threads.map txns)[u]?).getD []) := by
    intro u
    have := trace_thread_order (sys threads) sched u
    rw [progOf_finished _ hfin u] at this
    simp only [blocksOf, List.append_nil] at this
    rw [this, progOf_sys, List.getElem?_map]
    cases hu : threads[u]? with
    | none => rfl
    | some ops =>
      simp only [Option.map_some, Option.getD_some]
      exact (flat_txns ops (hlin ops (List.mem_of_getElem? hu))).symm
  have hg : ∀ t P, (threads.map txns)[t]? = some P → ∀ x ∈ P, GoodT (MvOf threads t) (BkOf threads t) x := by
    intro t P hP x hx
    simp only [List.getElem?_map, Option.map_eq_some_iff] at hP
    obtain ⟨ops, hops, rfl⟩ := hP
    simp only [txns, List.mem_filterMap] at hx
    obtain ⟨op, hop, hxo⟩ := hx
    refine ⟨?_, ?_, ?_⟩
    · intro f hf; exact ⟨ops, hops, op, hop, x, hxo, List.mem_append_left _ hf⟩
    · exact ⟨ops, hops, op, hop, x, hxo, by simp [Txn.blocks]⟩
    · intro f hf; exact ⟨ops, hops, op, hop, x, hxo, List.mem_append_right _ hf⟩
  exact (serialise hm (threads.map txns) hg (trace (sys threads) sched) htr {}).2.2 tr1 e tr2 hsplit

theorem trace_append {σ : Type} (s : Sys σ) (a b : List ThreadId) : trace s (a ++ b) = trace s a ++ trace (run s a) b := by
  induction a generalizing s with
  | nil => rfl
  | cons t r ih =>
    rw [List.cons_append, trace_cons, trace_cons, run_cons, ih, List.append_assoc]

/-- number of blocks of the operations from index `k` on -/
def blocksAfter (ops : List Op) (k : Nat) : Nat := (blocksOf (threadProg (ops.drop k))).length

theorem tailLen_txns (ops : List Op) (h : ∀ op ∈ ops, (txnOf op).isSome = true) (k : Nat) :
    tailLen (txns ops) k = blocksAfter ops k := by
  unfold tailLen blocksAfter
  have hd : ∀ op ∈ ops.drop k, (txnOf op).isSome = true := fun op hop => h op (List.mem_of_mem_drop hop)
  rw [txns_eq_map ops h, ← List.map_drop, ← txns_eq_map _ hd, flat_txns _ hd]

/-- **Real-time order of the linearisation.**  Split the schedule anywhere (`s1 ++ s2`).  `commits … (trace … s1)` is a
prefix of the final linearisation order; it contains `m` operations of thread `u`.  Every operation of `u` that has
returned during `s1` (the blocks `u` still has to execute, `r`, are at most the blocks of its later operations) is among
them, every operation of `u` not yet invoked after `s1` is not. -/
theorem ldm_realtime (threads : List (List Op)) (hlin : LinOps threads) (s1 s2 : List ThreadId)
    (hfin : finished (run (sys threads) (s1 ++ s2)) = true) (u : ThreadId) (ops : List Op) (hu : threads[u]? = some ops) :
    let π1 := commits (threads.map txns) (trace (sys threads) s1)
    let m := (π1.filter (fun c => c.1 == u)).length
    let r := (blocksOf (progOf (run (sys threads) s1) u)).length
    (∃ rest, commits (threads.map txns) (trace (sys threads) (s1 ++ s2)) = π1 ++ rest) ∧
    (∀ j, j < ops.length → r ≤ blocksAfter ops (j + 1) → j < m) ∧ (∀ j, j < ops.length → blocksAfter ops j ≤ r → m ≤ j) := by
  have hl := hlin ops (List.mem_of_getElem? hu)
  have htr : ∀ v, tracedBy v (trace (sys threads) s1 ++ trace (run (sys threads) s1) s2) =
      flat (((threads.map txns)[v]?).getD []) := by
    intro v
    rw [← trace_append]
    have := trace_thread_order (sys threads) (s1 ++ s2) v
    rw [progOf_finished _ hfin v] at this
    simp only [blocksOf, List.append_nil] at this
    rw [this, progOf_sys, List.getElem?_map]
    cases hv : threads[v]? with
    | none => rfl
    | some o =>
      simp only [Option.map_some, Option.getD_some]
      exact (flat_txns o (hlin o (List.mem_of_getElem? hv))).symm
  have hP : (threads.map txns)[u]? = some (txns ops) := by simp [hu]
  have hrt := realtime (threads.map txns) (trace (sys threads) s1) (trace (run (sys threads) s1) s2) htr u (txns ops) hP
  have hrem : tracedBy u (trace (run (sys threads) s1) s2) = blocksOf (progOf (run (sys threads) s1) u) := by
    have := trace_thread_order (run (sys threads) s1) s2 u
    rw [← run_append, progOf_finished _ hfin u] at this
    simpa [blocksOf] using this
  have hlen : (txns ops).length = ops.length := by rw [txns_eq_map ops hl, List.length_map]
  intro π1 m r
  refine ⟨⟨_, by rw [trace_append]; exact commits_append _ _ _⟩, ?_, ?_⟩
  · intro j hj hle
    apply hrt.1 j (by omega)
    rw [hrem, tailLen_txns ops hl]
    exact hle
  · intro j hj hle
    apply hrt.2 j (by omega)
    rw [hrem, tailLen_txns ops hl]
    exact hle

end FlexModel.Conc.Ldm

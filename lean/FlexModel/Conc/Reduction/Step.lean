/-
Reduction, part 3: one fine step is matched by at most one coarse step of the same thread (`sim_step`); any fine
schedule is matched by a coarse schedule that is a sub-list of it (`sim_run`).
Imports core Lean only.
-/
import FlexModel.Conc.Reduction.Sim

namespace FlexModel.Conc.Reduction
open FlexModel.Conc

variable {σ : Type} {S : ThreadId → ABlk σ → Prop}

theorem sys_eta (s : Sys σ) : ({ sh := s.sh, thr := s.thr } : Sys σ) = s := rfl

theorem sim_step_acq {fs cs : Sys σ} {pd : List (List (σ → σ))} (h : Sim S fs cs pd) (t : ThreadId)
    (fth : Thread σ) (hth : fs.thr[t]? = some fth) (l : Lock) (q : List (Instr σ)) (hprog : fth.prog = .acq l :: q)
    (hfree : lockFree fs l = true) :
    ∃ cs' pd', step cs t = some cs' ∧
      Sim S { fs with thr := fs.thr.set t { prog := q, held := l :: fth.held } } cs' pd' := by
  obtain ⟨p, hp, hc, hpend, hS⟩ := h.thr t fth hth
  have hp0 : p = [] := by
    apply Classical.byContradiction
    intro hne
    have := (hpend hne).2
    rw [hprog] at this
    cases this
  subst hp0
  have hcs : step cs t = some { cs with thr := cs.thr.set t (cthread { prog := q, held := l :: fth.held } []) } := by
    rw [step_acq cs t (cthread fth []) l (fuseA (l :: fth.held) [] q) hc (by simp [cthread, hprog]),
      h.lockFree_eq, if_pos hfree]
    rfl
  refine ⟨_, pd.set t [], hcs, ?_⟩
  apply h.update t fth hth
  · intro hne; exact absurd rfl hne
  · intro b hb
    apply hS
    simpa [ablocks, hprog] using hb
  · intro u b hut hu l' hl'
    rcases List.mem_cons.mp hl' with rfl | hl'
    · exact lockFree_not_mem fs _ hfree u b hu
    · exact h.excl t u fth b (fun e => hut e.symm) hth hu l' hl'
  · rw [set_of_getElem? pd t [] hp]; exact h.sh

theorem sim_step_rel {fs cs : Sys σ} {pd : List (List (σ → σ))} (h : Sim S fs cs pd) (t : ThreadId)
    (fth : Thread σ) (hth : fs.thr[t]? = some fth) (l : Lock) (q : List (Instr σ)) (hprog : fth.prog = .rel l :: q) :
    ∃ cs' pd', step cs t = some cs' ∧
      Sim S { fs with thr := fs.thr.set t { prog := q, held := fth.held.erase l } } cs' pd' := by
  obtain ⟨p, hp, hc, hpend, hS⟩ := h.thr t fth hth
  have hp0 : p = [] := by
    apply Classical.byContradiction
    intro hne
    have := (hpend hne).2
    rw [hprog] at this
    cases this
  subst hp0
  have hcs : step cs t = some { cs with thr := cs.thr.set t (cthread { prog := q, held := fth.held.erase l } []) } := by
    rw [step_rel cs t (cthread fth []) l (fuseA (fth.held.erase l) [] q) hc (by simp [cthread, hprog])]
    rfl
  refine ⟨_, pd.set t [], hcs, ?_⟩
  apply h.update t fth hth
  · intro hne; exact absurd rfl hne
  · intro b hb
    apply hS
    simpa [ablocks, hprog] using hb
  · intro u b hut hu l' hl'
    exact h.excl t u fth b (fun e => hut e.symm) hth hu l' (List.mem_of_mem_erase hl')
  · rw [set_of_getElem? pd t [] hp]; exact h.sh

/-- a non-final micro-block: the coarse system does not move, the block becomes pending -/
theorem sim_step_mid (hd : Disc S) {fs cs : Sys σ} {pd : List (List (σ → σ))} (h : Sim S fs cs pd) (t : ThreadId)
    (fth : Thread σ) (hth : fs.thr[t]? = some fth) (g : σ → σ) (q : List (Instr σ)) (hprog : fth.prog = .blk g :: q)
    (hm : (!fth.held.isEmpty && startsBlk q) = true) :
    ∃ pd', Sim S { sh := g fs.sh, thr := fs.thr.set t { prog := q, held := fth.held } } cs pd' := by
  obtain ⟨p, hp, hc, hpend, hS⟩ := h.thr t fth hth
  have hSg : S t (fth.held, (!fth.held.isEmpty && startsBlk q), g) := hS _ (by simp [ablocks, hprog])
  have hcth : cthread { prog := q, held := fth.held } (p ++ [g]) = cthread fth p := by
    simp only [cthread, hprog]
    rw [fuseA_blk_mid _ _ _ _ hm]
  have key := h.update t fth hth { prog := q, held := fth.held } (p ++ [g]) (g fs.sh) cs.sh
    (by
      intro _
      simp only [Bool.and_eq_true, Bool.not_eq_true', List.isEmpty_eq_false_iff] at hm
      exact ⟨hm.1, hm.2⟩)
    (by
      intro b hb
      apply hS
      simp only [ablocks, hprog, annot_blk, List.map_append, List.map_cons, List.map_nil, List.mem_append,
        List.mem_cons, List.mem_map, List.not_mem_nil, or_false] at hb ⊢
      rcases hb with (hb | hb) | hb
      · exact Or.inl hb
      · rw [hb, hm]; exact Or.inr (Or.inl rfl)
      · exact Or.inr (Or.inr hb))
    (by
      intro u b hut hu l' hl'
      exact h.excl t u fth b (fun e => hut e.symm) hth hu l' hl')
    (by
      rw [h.sh]
      exact pipe_extend pd t p hp g
        (fun u k hut hk f hf => h.pending_commute hd t u hut fth hth k hk f hf _ g hSg) cs.sh)
  rw [hcth, set_of_getElem? cs.thr t _ hc] at key
  exact ⟨_, key⟩

/-- the last micro-block of a run (or an unlocked block): the coarse thread executes the fused block -/
theorem sim_step_last (hd : Disc S) {fs cs : Sys σ} {pd : List (List (σ → σ))} (h : Sim S fs cs pd) (t : ThreadId)
    (fth : Thread σ) (hth : fs.thr[t]? = some fth) (g : σ → σ) (q : List (Instr σ)) (hprog : fth.prog = .blk g :: q)
    (hm : (!fth.held.isEmpty && startsBlk q) = false) :
    ∃ cs' pd', step cs t = some cs' ∧
      Sim S { sh := g fs.sh, thr := fs.thr.set t { prog := q, held := fth.held } } cs' pd' := by
  obtain ⟨p, hp, hc, hpend, hS⟩ := h.thr t fth hth
  have hSg : S t (fth.held, (!fth.held.isEmpty && startsBlk q), g) := hS _ (by simp [ablocks, hprog])
  have hSp : ∀ f ∈ p, S t (fth.held, true, f) := by
    intro f hf
    apply hS
    simp only [ablocks, List.mem_append, List.mem_map]
    exact Or.inl ⟨f, hf, rfl⟩
  have hcs : step cs t =
      some ⟨pipe (p ++ [g]) cs.sh, cs.thr.set t (cthread { prog := q, held := fth.held } [])⟩ := by
    rw [step_blk cs t (cthread fth p) (pipe (p ++ [g])) (fuseA fth.held [] q) hc
      (by simp only [cthread, hprog]; rw [fuseA_blk_last _ _ _ _ hm])]
    rfl
  refine ⟨_, pd.set t [], hcs, ?_⟩
  apply h.update t fth hth
  · intro hne; exact absurd rfl hne
  · intro b hb
    apply hS
    simp only [ablocks, hprog, annot_blk, List.map_nil, List.nil_append, List.mem_append, List.mem_cons] at hb ⊢
    exact Or.inr (Or.inr hb)
  · intro u b hut hu l' hl'
    exact h.excl t u fth b (fun e => hut e.symm) hth hu l' hl'
  · rw [h.sh]
    apply pipe_commit pd t p hp g
    intro f hf u k hut hk k' hk'
    rcases List.mem_append.mp hf with hf | hf
    · exact h.pending_commute hd t u hut fth hth k hk k' hk' _ f (hSp f hf)
    · simp only [List.mem_cons, List.not_mem_nil, or_false] at hf
      subst hf
      exact h.pending_commute hd t u hut fth hth k hk k' hk' _ f hSg

/-- **One-step simulation.** Every enabled step of the fine system is matched by the same thread's step in the
coarse system or by no step at all. -/
theorem sim_step (hd : Disc S) {fs cs : Sys σ} {pd : List (List (σ → σ))} (h : Sim S fs cs pd) (t : ThreadId)
    (fs' : Sys σ) (hs : step fs t = some fs') :
    ∃ cs' pd', (cs' = cs ∨ step cs t = some cs') ∧ Sim S fs' cs' pd' := by
  cases hth : fs.thr[t]? with
  | none => rw [step_none_thr fs t hth] at hs; cases hs
  | some fth =>
    cases hprog : fth.prog with
    | nil => rw [step_nil fs t fth hth hprog] at hs; cases hs
    | cons i q =>
      cases i with
      | acq l =>
        rw [step_acq fs t fth l q hth hprog] at hs
        split at hs
        · rename_i hfree
          simp only [Option.some.injEq] at hs
          subst hs
          obtain ⟨cs', pd', h1, h2⟩ := sim_step_acq h t fth hth l q hprog hfree
          exact ⟨cs', pd', Or.inr h1, h2⟩
        · cases hs
      | rel l =>
        rw [step_rel fs t fth l q hth hprog] at hs
        simp only [Option.some.injEq] at hs
        subst hs
        obtain ⟨cs', pd', h1, h2⟩ := sim_step_rel h t fth hth l q hprog
        exact ⟨cs', pd', Or.inr h1, h2⟩
      | blk g =>
        rw [step_blk fs t fth g q hth hprog] at hs
        simp only [Option.some.injEq] at hs
        subst hs
        cases hm : (!fth.held.isEmpty && startsBlk q) with
        | true =>
          obtain ⟨pd', h2⟩ := sim_step_mid hd h t fth hth g q hprog hm
          exact ⟨cs, pd', Or.inl rfl, h2⟩
        | false =>
          obtain ⟨cs', pd', h1, h2⟩ := sim_step_last hd h t fth hth g q hprog hm
          exact ⟨cs', pd', Or.inr h1, h2⟩

/-- **Schedule simulation.** For every schedule of the fine system there is a schedule of the coarse system (a
sub-list of the fine one) that keeps the two related. -/
theorem sim_run (hd : Disc S) {fs cs : Sys σ} {pd : List (List (σ → σ))} (h : Sim S fs cs pd)
    (sched : List ThreadId) :
    ∃ csched pd', csched.Sublist sched ∧ Sim S (run fs sched) (run cs csched) pd' := by
  induction sched generalizing fs cs pd with
  | nil => exact ⟨[], pd, List.Sublist.refl _, h⟩
  | cons t r ih =>
    rw [run_cons]
    cases hs : step fs t with
    | none =>
      have e : stepD fs t = fs := by simp [stepD, hs]
      rw [e]
      obtain ⟨c, pd', hsub, hsim⟩ := ih h
      exact ⟨c, pd', List.Sublist.cons _ hsub, hsim⟩
    | some fs' =>
      have e : stepD fs t = fs' := by simp [stepD, hs]
      rw [e]
      obtain ⟨cs', pd1, hc, hsim1⟩ := sim_step hd h t fs' hs
      obtain ⟨c, pd', hsub, hsim⟩ := ih hsim1
      rcases hc with rfl | hc
      · exact ⟨c, pd', List.Sublist.cons _ hsub, hsim⟩
      · refine ⟨t :: c, pd', List.Sublist.cons_cons _ hsub, ?_⟩
        rw [run_cons]
        have e' : stepD cs t = cs' := by simp [stepD, hc]
        rw [e']
        exact hsim

end FlexModel.Conc.Reduction

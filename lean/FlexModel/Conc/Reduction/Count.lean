/-
Reduction, part 6: a counting rule for block systems (used by the worked example, generic in `σ`).

If every block of every thread increases a measure `m` of the shared state by exactly one, then after ANY schedule
`m` has grown by the number of blocks executed: `m + (blocks still to execute)` is constant.  For a complete run the
measure equals its initial value plus the total number of blocks – "no update is lost".
Imports core Lean only.
-/
import FlexModel.Conc.Sched

namespace FlexModel.Conc.Reduction
open FlexModel.Conc

variable {σ : Type}

/-- number of blocks the threads still have to execute -/
def remaining (s : Sys σ) : Nat := (s.thr.map (fun th => (blocksOf th.prog).length)).sum

theorem sum_map_set {β : Type} (w : β → Nat) (l : List β) (t : Nat) (a b : β) (h : l[t]? = some b) :
    ((l.set t a).map w).sum + w b = (l.map w).sum + w a := by
  induction l generalizing t with
  | nil => simp at h
  | cons c l ih =>
    cases t with
    | zero =>
      simp only [List.getElem?_cons_zero, Option.some.injEq] at h
      subst h
      simp only [List.set_cons_zero, List.map_cons, List.sum_cons]
      omega
    | succ t =>
      simp only [List.getElem?_cons_succ] at h
      have := ih t h
      simp only [List.set_cons_succ, List.map_cons, List.sum_cons]
      omega

theorem remaining_set (s : Sys σ) (t : ThreadId) (th th' : Thread σ) (x : σ) (h : s.thr[t]? = some th) :
    remaining { sh := x, thr := s.thr.set t th' } + (blocksOf th.prog).length =
      remaining s + (blocksOf th'.prog).length :=
  sum_map_set (fun (k : Thread σ) => (blocksOf k.prog).length) s.thr t th' th h

def AllInc (m : σ → Nat) (s : Sys σ) : Prop := ∀ th ∈ s.thr, ∀ f ∈ blocksOf th.prog, ∀ x, m (f x) = m x + 1

theorem count_step (m : σ → Nat) (K : Nat) (s : Sys σ) (t : ThreadId) (s' : Sys σ)
    (hP : m s.sh + remaining s = K ∧ AllInc m s) (hs : step s t = some s') :
    m s'.sh + remaining s' = K ∧ AllInc m s' := by
  obtain ⟨hK, hI⟩ := hP
  cases hth : s.thr[t]? with
  | none => rw [step_none_thr s t hth] at hs; cases hs
  | some th =>
    have hmem : th ∈ s.thr := List.mem_of_getElem? hth
    cases hp : th.prog with
    | nil => rw [step_nil s t th hth hp] at hs; cases hs
    | cons i p =>
      have hsub : ∀ f ∈ blocksOf p, ∀ x, m (f x) = m x + 1 := by
        intro f hf
        apply hI th hmem f
        rw [hp]
        cases i <;> simp [blocksOf, hf]
      have hset : ∀ (x : σ) (th' : Thread σ), th'.prog = p → AllInc m { sh := x, thr := s.thr.set t th' } := by
        intro x th' hth' th'' hmem'' f hf
        rcases List.mem_or_eq_of_mem_set hmem'' with h1 | h1
        · exact hI th'' h1 f hf
        · subst h1; rw [hth'] at hf; exact hsub f hf
      cases i with
      | acq l =>
        rw [step_acq s t th l p hth hp] at hs
        split at hs
        · simp only [Option.some.injEq] at hs
          subst hs
          refine ⟨?_, hset _ _ rfl⟩
          have := remaining_set s t th { prog := p, held := l :: th.held } s.sh hth
          simp only [hp, blocksOf] at this
          simp only; omega
        · cases hs
      | rel l =>
        rw [step_rel s t th l p hth hp] at hs
        simp only [Option.some.injEq] at hs
        subst hs
        refine ⟨?_, hset _ _ rfl⟩
        have := remaining_set s t th { prog := p, held := th.held.erase l } s.sh hth
        simp only [hp, blocksOf] at this
        simp only; omega
      | blk f =>
        rw [step_blk s t th f p hth hp] at hs
        simp only [Option.some.injEq] at hs
        subst hs
        refine ⟨?_, hset _ _ rfl⟩
        have := remaining_set s t th { prog := p, held := th.held } (f s.sh) hth
        simp only [hp, blocksOf, List.length_cons] at this
        have hinc := hI th hmem f (by rw [hp]; simp [blocksOf]) s.sh
        simp only; omega

/-- **Counting rule.** If every block adds exactly one to `m`, then under ANY schedule
`m + remaining blocks` keeps its initial value. -/
theorem count_run (m : σ → Nat) (s0 : Sys σ) (hI : AllInc m s0) (sched : List ThreadId) :
    m (run s0 sched).sh + remaining (run s0 sched) = m s0.sh + remaining s0 :=
  (run_induction (P := fun s => m s.sh + remaining s = m s0.sh + remaining s0 ∧ AllInc m s)
    (fun s t s' hP hs => count_step m _ s t s' hP hs) s0 ⟨rfl, hI⟩ sched).1

theorem remaining_of_finished (s : Sys σ) (h : finished s = true) : remaining s = 0 := by
  unfold finished at h
  rw [List.all_eq_true] at h
  unfold remaining
  have : ∀ n ∈ s.thr.map (fun th => (blocksOf th.prog).length), n = 0 := by
    intro n hn
    simp only [List.mem_map] at hn
    obtain ⟨th, hth, rfl⟩ := hn
    have := h th hth
    cases hp : th.prog with
    | nil => rfl
    | cons i p => rw [hp] at this; cases this
  generalize s.thr.map (fun th => (blocksOf th.prog).length) = L at this
  induction L with
  | nil => rfl
  | cons a L ih =>
    simp only [List.sum_cons]
    rw [this a (by simp), ih (fun n hn => this n (List.mem_cons_of_mem _ hn))]

end FlexModel.Conc.Reduction

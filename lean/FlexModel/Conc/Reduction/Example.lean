/-
Reduction, part 7: worked example – `n` threads increment a shared counter under a lock with the three micro-steps
`r := c` (load), `r := r + 1` (add), `c := r` (store), `r` a thread-local register – and its unlocked twin.
State: `Nat → Nat`; variable 0 is the counter, variable `t + 1` the register of thread `t`.
Imports core Lean only.
-/
import FlexModel.Conc.Reduction.Frame
import FlexModel.Conc.Reduction.Count

namespace FlexModel.Conc.Reduction.Counter
open FlexModel.Conc FlexModel.Conc.Reduction

abbrev St := Nat → Nat
def ctr : Nat := 0
def reg (t : Nat) : Nat := t + 1
def lk : Lock := 0

def load (t : Nat) : MB Nat Nat := MB.assign (reg t) [ctr] (fun s => s ctr)
def add (t : Nat) : MB Nat Nat := MB.assign (reg t) [reg t] (fun s => s (reg t) + 1)
def store (t : Nat) : MB Nat Nat := MB.assign ctr [reg t] (fun s => s (reg t))

theorem framed_load (t : Nat) : (load t).Framed := framed_assign _ _ _ (fun s s' h => h ctr (by simp))
theorem framed_add (t : Nat) : (add t).Framed :=
  framed_assign _ _ _ (fun s s' h => by simp only [h (reg t) (by simp)])
theorem framed_store (t : Nat) : (store t).Framed := framed_assign _ _ _ (fun s s' h => h (reg t) (by simp))

/-- instruction-level program of thread `t`: `with lk: c += 1` -/
def aLocked (t : Nat) : List (AInstr Nat Nat) := [.acq lk, .blk (load t), .blk (add t), .blk (store t), .rel lk]
/-- the same increment without the lock -/
def aUnlocked (t : Nat) : List (AInstr Nat Nat) := [.blk (load t), .blk (add t), .blk (store t)]

def fineProgs (n : Nat) : List (List (Instr St)) := (List.range n).map (fun t => eraseProg (aLocked t))

/-- the whole increment as one function: `store ∘ add ∘ load` -/
def incr (t : Nat) : St → St := pipe [(load t).f, (add t).f, (store t).f]

/-- block model: one atomic block per `with lk:` section -/
def coarseProgs (n : Nat) : List (List (Instr St)) := (List.range n).map (fun t => sect lk (incr t))

theorem incr_ctr (t : Nat) (x : St) : incr t x ctr = x ctr + 1 := by
  simp [incr, pipe, load, add, store, MB.assign, upd, reg, ctr]

/-- (i) decomposition: the fine programs fuse to the block model -/
theorem fuse_fine (n : Nat) : (fineProgs n).map fuse = coarseProgs n := by
  simp only [fineProgs, coarseProgs, List.map_map]
  apply List.map_congr_left
  intro t _
  exact fuse_sectN lk [(load t).f, (add t).f] (store t).f

/-- the lock map: the counter is protected by `lk`, variable `t + 1` is local to thread `t` -/
def prot : Nat → Guard := fun v => if v = 0 then .lock lk else .loc (v - 1)

theorem check_locked (t : Nat) : lockCheck prot t [] (aLocked t) = true := by
  simp [aLocked, lockCheck, allowedB, load, add, store, MB.assign, prot, reg, ctr, lk]

/-- (ii) the protection facts hold for the fine programs -/
theorem protected_fine (n : Nat) : Protected prot (fineProgs n) := by
  have e : fineProgs n = ((List.range n).map aLocked).map eraseProg := by
    simp [fineProgs, List.map_map, Function.comp_def]
  rw [e]
  apply protected_of_check prot ((List.range n).map aLocked)
  · intro t p hp
    simp only [List.getElem?_map, Option.map_eq_some_iff] at hp
    obtain ⟨k, hk, rfl⟩ := hp
    have : k = t := by
      have := List.getElem?_eq_some_iff.mp hk
      obtain ⟨_, h2⟩ := this
      exact (by simpa using h2 : t = k).symm
    subst this
    exact check_locked k
  · intro p hp m hm
    simp only [List.mem_map] at hp
    obtain ⟨t, _, rfl⟩ := hp
    simp only [aLocked, List.mem_cons, AInstr.blk.injEq, List.not_mem_nil, or_false, reduceCtorEq, false_or] at hm
    rcases hm with rfl | rfl | rfl
    · exact framed_load t
    · exact framed_add t
    · exact framed_store t

/-- protection facts ⇒ discipline -/
theorem discipline_fine (n : Nat) : Discipline (fineProgs n) :=
  discipline_of_protected prot _ (protected_fine n)

theorem remaining_coarse (x : St) (n : Nat) : remaining (mkSys x (coarseProgs n)) = n := by
  have : ∀ L : List Nat, (List.map ((fun th : Thread St => (blocksOf th.prog).length) ∘
      (fun p => ({ prog := p, held := [] } : Thread St)) ∘ fun t => sect lk (incr t)) L).sum = L.length := by
    intro L
    induction L with
    | nil => rfl
    | cons a L ih => simp only [List.map_cons, List.sum_cons, ih]; simp [sect, blocksOf]; omega
  simpa [remaining, mkSys, coarseProgs, List.map_map] using this (List.range n)

theorem allInc_coarse (x : St) (n : Nat) : AllInc (fun s => s ctr) (mkSys x (coarseProgs n)) := by
  intro th hth f hf y
  simp only [mkSys, coarseProgs, List.map_map, List.mem_map] at hth
  obtain ⟨t, _, rfl⟩ := hth
  simp only [Function.comp, sect, blocksOf, List.mem_cons, List.not_mem_nil, or_false] at hf
  subst hf
  exact incr_ctr t y

/-- the block model counts every increment, under every schedule -/
theorem coarse_counts (x : St) (n : Nat) (csched : List ThreadId) :
    (run (mkSys x (coarseProgs n)) csched).sh ctr + remaining (run (mkSys x (coarseProgs n)) csched) = x ctr + n := by
  have := count_run (fun s => s ctr) (mkSys x (coarseProgs n)) (allInc_coarse x n) csched
  rw [remaining_coarse] at this
  exact this

/-- **No lost update, instruction level.** For every number of threads, every initial state and EVERY schedule of
the load/add/store programs: if all threads finish, the counter has grown by exactly `n`. -/
theorem no_lost_update (n : Nat) (x : St) (sched : List ThreadId)
    (hfin : finished (run (mkSys x (fineProgs n)) sched) = true) :
    (run (mkSys x (fineProgs n)) sched).sh ctr = x ctr + n := by
  obtain ⟨csched, hcf, hsh⟩ :=
    (block_model_sound (coarseProgs n) (fineProgs n) (fuse_fine n) (discipline_fine n) x sched).2 hfin
  have := coarse_counts x n csched
  rw [remaining_of_finished _ hcf, hsh] at this
  simpa using this

/-- at EVERY point of EVERY instruction-level run the counter is at most `x ctr + n` (use of (c2): the predicate
does not mention the registers written by the non-final micro-blocks `load`, `add`) -/
theorem counter_bounded (n : Nat) (x : St) (sched : List ThreadId) :
    (run (mkSys x (fineProgs n)) sched).sh ctr ≤ x ctr + n := by
  apply reduction_invariant (fineProgs n) (discipline_fine n) x (fun y => y ctr ≤ x ctr + n)
  · intro csched
    rw [fuse_fine]
    have := coarse_counts x n csched
    show (run (mkSys x (coarseProgs n)) csched).sh ctr ≤ x ctr + n
    omega
  · intro t b ⟨p, hp, hb⟩ hflag y hy
    simp only [fineProgs, List.getElem?_map, Option.map_eq_some_iff] at hp
    obtain ⟨k, _, rfl⟩ := hp
    simp only [eraseProg, aLocked, List.map_cons, List.map_nil, AInstr.erase, annot_acq, annot_blk, annot_rel,
      annot_nil, List.mem_cons, List.not_mem_nil, or_false] at hb
    rcases hb with rfl | rfl | rfl
    · simpa [load, MB.assign, upd, reg, ctr] using hy
    · simpa [add, MB.assign, upd, reg, ctr] using hy
    · simp [startsBlk] at hflag

/-! ## the negative twin: no lock -/

def unlockedProgs : List (List (Instr St)) := [eraseProg (aUnlocked 0), eraseProg (aUnlocked 1)]
/-- the block model one would write if the increment were atomic -/
def atomicProgs : List (List (Instr St)) := [[.blk (incr 0)], [.blk (incr 1)]]

/-- both threads load 0, both store 1 -/
def badSched : List ThreadId := [0, 0, 1, 1, 1, 0]

theorem lost_update :
    finished (run (mkSys (fun _ => 0) unlockedProgs) badSched) = true ∧
    (run (mkSys (fun _ => 0) unlockedProgs) badSched).sh ctr = 1 := by decide

/-- without sections nothing is fused: the atomic-increment model is not `fuse` of the unlocked program -/
theorem fuse_unlocked : unlockedProgs.map fuse = unlockedProgs := by
  simp only [unlockedProgs, List.map_cons, List.map_nil]
  rw [fuse_lockless, fuse_lockless]
  · intro i hi; simp [eraseProg, aUnlocked, AInstr.erase] at hi; rcases hi with rfl | rfl | rfl <;> exact ⟨_, rfl⟩
  · intro i hi; simp [eraseProg, aUnlocked, AInstr.erase] at hi; rcases hi with rfl | rfl | rfl <;> exact ⟨_, rfl⟩

/-- no lock map passes the check for the unlocked programs -/
theorem check_unlocked_fails (p : Nat → Guard) :
    ¬ (lockCheck p 0 [] (aUnlocked 0) = true ∧ lockCheck p 1 [] (aUnlocked 1) = true) := by
  intro ⟨h0, h1⟩
  simp only [aUnlocked, lockCheck, allowedB, load, add, store, MB.assign, ctr, reg, Bool.and_eq_true,
    List.all_eq_true, List.mem_append, List.mem_cons, List.not_mem_nil, or_false] at h0 h1
  have a0 := h0.2.2.1 0 (Or.inr rfl)
  have a1 := h1.2.2.1 0 (Or.inr rfl)
  cases hp : p 0 with
  | lock l => rw [hp] at a0; simp at a0
  | loc u => rw [hp] at a0 a1; simp at a0 a1; exact absurd (a0.symm.trans a1) (by decide)
  | frozen => rw [hp] at a0; simp at a0

/-- … and, semantically, no protection map exists at all: the counter is written by two threads outside any
section -/
theorem unlocked_not_protected : ¬ ∃ p : Nat → Guard, Protected p unlockedProgs := by
  intro ⟨p, hP⟩
  have wr_ctr : ∀ t (m : MB Nat Nat), m.f = (store t).f → m.Framed → ctr ∈ m.wr := by
    intro t m hmf hF
    apply Classical.byContradiction
    intro hn
    have := hF.1 (fun v => if v = reg t then 1 else 0) ctr hn
    rw [hmf] at this
    simp [store, MB.assign, upd, reg, ctr] at this
  have hb : ∀ t, t < 2 → blocksAt unlockedProgs t ([], false, (store t).f) := by
    intro t ht
    refine ⟨eraseProg (aUnlocked t), ?_, ?_⟩
    · match t, ht with
      | 0, _ => rfl
      | 1, _ => rfl
    · simp [eraseProg, aUnlocked, AInstr.erase, startsBlk]
  obtain ⟨m0, hf0, hF0, hA0⟩ := hP 0 _ (hb 0 (by decide))
  obtain ⟨m1, hf1, hF1, hA1⟩ := hP 1 _ (hb 1 (by decide))
  have w0 := wr_ctr 0 m0 hf0 hF0
  have w1 := wr_ctr 1 m1 hf1 hF1
  have a0 := hA0 ctr (Or.inr w0)
  have a1 := hA1 ctr (Or.inr w1)
  cases hp : p ctr with
  | lock l => rw [hp] at a0; cases a0
  | loc u => rw [hp] at a0 a1; simp only at a0 a1; exact absurd (a0.symm.trans a1) (by decide)
  | frozen => rw [hp] at a0; exact a0 w0

/-- the atomic-increment model always ends with both increments counted … -/
theorem atomic_counts (csched : List ThreadId)
    (hfin : finished (run (mkSys (fun _ => 0) atomicProgs) csched) = true) :
    (run (mkSys (fun _ => 0) atomicProgs) csched).sh ctr = 2 := by
  have hI : AllInc (fun s : St => s ctr) (mkSys (fun _ => 0) atomicProgs) := by
    intro th hth f hf y
    simp only [mkSys, atomicProgs, List.map_cons, List.map_nil, List.mem_cons, List.not_mem_nil, or_false] at hth
    rcases hth with rfl | rfl <;>
      (simp only [blocksOf, List.mem_cons, List.not_mem_nil, or_false] at hf; subst hf; exact incr_ctr _ y)
  have := count_run (fun s : St => s ctr) _ hI csched
  rw [remaining_of_finished _ hfin] at this
  simpa [remaining, mkSys, atomicProgs, blocksOf] using this

/-- … so WITHOUT the lock the block model does not over-approximate the instruction-level model -/
theorem atomic_model_unsound_without_lock :
    ¬ ∀ sched, finished (run (mkSys (fun _ => 0) unlockedProgs) sched) = true →
        ∃ csched, finished (run (mkSys (fun _ => 0) atomicProgs) csched) = true ∧
          (run (mkSys (fun _ => 0) atomicProgs) csched).sh = (run (mkSys (fun _ => 0) unlockedProgs) sched).sh := by
  intro h
  obtain ⟨csched, hf, hsh⟩ := h badSched lost_update.1
  have h2 := atomic_counts csched hf
  rw [hsh, lost_update.2] at h2
  cases h2

end FlexModel.Conc.Reduction.Counter

/-
Reduction, part 2: the simulation between a FINE system and its COARSE (`fuse`d) system.

`Sim S fs cs pd`: `fs` is a fine system state, `cs` a coarse one, `pd` the list (one entry per thread) of PENDING
micro-blocks: the micro-blocks of the run a thread is currently inside which it has already executed, while the
coarse thread has not yet executed the fused block (the coarse thread commits the whole run when the fine thread
executes its LAST micro-block).  The relation says
* thread by thread: same locks held, coarse program = `fuseA held pending fineProgram`; pending ≠ [] only when the
  thread holds a lock and its next instruction is a `blk`;
* lock exclusivity: two different threads never hold the same lock;
* every pending block and every block still to be executed is one of the annotated blocks `S t` of its thread (the
  commutation discipline `Disc S` talks about these);
* shared state: `fs.sh = pipe pd.flatten cs.sh` – the fine shared state is the coarse one with the pending
  micro-blocks applied on top.
`sim_step`: every enabled fine step is matched by a coarse step of the same thread or by no step. `sim_run`: every
fine schedule is matched by a coarse schedule (a sub-list of it).
Imports core Lean only.
-/
import FlexModel.Conc.Reduction.Fuse

namespace FlexModel.Conc.Reduction
open FlexModel.Conc

variable {σ : Type}

def Commute (f g : σ → σ) : Prop := ∀ x, f (g x) = g (f x)

theorem Commute.symm {f g : σ → σ} (h : Commute f g) : Commute g f := fun x => (h x).symm

/-- **Commutation discipline** over a family `S t` of annotated blocks per thread: a NON-FINAL micro-block of a run
(flag `true`; it sits inside a section) commutes with every block of another thread that runs under a set of locks
disjoint from its own.  Final micro-blocks, single-block sections and unlocked blocks are not constrained against
each other. -/
def Disc (S : ThreadId → ABlk σ → Prop) : Prop :=
  ∀ t u, t ≠ u → ∀ a b, S t a → S u b → a.2.1 = true → (∀ l ∈ a.1, l ∉ b.1) → Commute a.2.2 b.2.2

/-! ## `pipe` and commuting lists -/

theorem commute_pipe (g : σ → σ) (B : List (σ → σ)) (h : ∀ f ∈ B, Commute g f) (x : σ) :
    g (pipe B x) = pipe B (g x) := by
  induction B generalizing x with
  | nil => rfl
  | cons f B ih =>
    rw [pipe_cons, pipe_cons, ih (fun k hk => h k (List.mem_cons_of_mem _ hk)), h f (by simp)]

theorem pipe_commute_pipe (P A : List (σ → σ)) (h : ∀ f ∈ P, ∀ a ∈ A, Commute f a) (x : σ) :
    pipe P (pipe A x) = pipe A (pipe P x) := by
  induction P generalizing x with
  | nil => rfl
  | cons f P ih =>
    rw [pipe_cons, pipe_cons, commute_pipe f A (h f (by simp)),
      ih (fun k hk => h k (List.mem_cons_of_mem _ hk))]

theorem mem_take_flatten {α : Type} (pd : List (List α)) (t : Nat) (h : α) (hm : h ∈ (pd.take t).flatten) :
    ∃ u q, u ≠ t ∧ pd[u]? = some q ∧ h ∈ q := by
  obtain ⟨q, hq, hh⟩ := List.mem_flatten.mp hm
  obtain ⟨j, hj, rfl⟩ := List.mem_take_iff_getElem.mp hq
  have h1 : j < t := by omega
  have h2 : j < pd.length := by omega
  exact ⟨j, pd[j], by omega, by simp [h2], hh⟩

theorem mem_drop_flatten {α : Type} (pd : List (List α)) (t : Nat) (h : α) (hm : h ∈ (pd.drop (t + 1)).flatten) :
    ∃ u q, u ≠ t ∧ pd[u]? = some q ∧ h ∈ q := by
  obtain ⟨q, hq, hh⟩ := List.mem_flatten.mp hm
  obtain ⟨j, hj, rfl⟩ := List.mem_drop_iff_getElem.mp hq
  exact ⟨t + 1 + j, pd[t + 1 + j], by omega, by simp, hh⟩

theorem set_of_getElem? {α : Type} (l : List α) (t : Nat) (a : α) (h : l[t]? = some a) : l.set t a = l := by
  obtain ⟨hlt, rfl⟩ := List.getElem?_eq_some_iff.mp h
  exact List.set_getElem_self hlt

theorem pipe_set_flatten (pd : List (List (σ → σ))) (t : Nat) (hlt : t < pd.length) (q : List (σ → σ)) (x : σ) :
    pipe (pd.set t q).flatten x = pipe (pd.drop (t + 1)).flatten (pipe q (pipe (pd.take t).flatten x)) := by
  rw [List.set_eq_take_append_cons_drop, if_pos hlt]
  simp [pipe_append]

theorem pipe_flatten_at (pd : List (List (σ → σ))) (t : Nat) (p : List (σ → σ)) (hp : pd[t]? = some p) (x : σ) :
    pipe pd.flatten x = pipe (pd.drop (t + 1)).flatten (pipe p (pipe (pd.take t).flatten x)) := by
  have hlt : t < pd.length := (List.getElem?_eq_some_iff.mp hp).1
  rw [← pipe_set_flatten pd t hlt p x, set_of_getElem? pd t p hp]

/-- thread `t` appends `g` to its pending list -/
theorem pipe_extend (pd : List (List (σ → σ))) (t : Nat) (p : List (σ → σ)) (hp : pd[t]? = some p) (g : σ → σ)
    (hc : ∀ u q, u ≠ t → pd[u]? = some q → ∀ h ∈ q, Commute g h) (x : σ) :
    g (pipe pd.flatten x) = pipe (pd.set t (p ++ [g])).flatten x := by
  have hlt : t < pd.length := (List.getElem?_eq_some_iff.mp hp).1
  rw [pipe_flatten_at pd t p hp, pipe_set_flatten pd t hlt, commute_pipe g, pipe_append]
  · rfl
  · intro h hm
    obtain ⟨u, q, hu, hq, hh⟩ := mem_drop_flatten pd t h hm
    exact hc u q hu hq h hh

/-- thread `t` commits its run `p ++ [g]`: the coarse thread executes the fused block -/
theorem pipe_commit (pd : List (List (σ → σ))) (t : Nat) (p : List (σ → σ)) (hp : pd[t]? = some p) (g : σ → σ)
    (hc : ∀ f ∈ p ++ [g], ∀ u q, u ≠ t → pd[u]? = some q → ∀ h ∈ q, Commute f h) (x : σ) :
    g (pipe pd.flatten x) = pipe (pd.set t []).flatten (pipe (p ++ [g]) x) := by
  have hlt : t < pd.length := (List.getElem?_eq_some_iff.mp hp).1
  rw [pipe_flatten_at pd t p hp, pipe_set_flatten pd t hlt, pipe_nil]
  rw [commute_pipe g]
  · have e : g (pipe p (pipe (pd.take t).flatten x)) = pipe (p ++ [g]) (pipe (pd.take t).flatten x) := by
      rw [pipe_append]; rfl
    rw [e, pipe_commute_pipe (p ++ [g]) (pd.take t).flatten]
    · intro f hf a ha
      obtain ⟨u, q, hu, hq, hh⟩ := mem_take_flatten pd t a ha
      exact hc f hf u q hu hq a hh
  · intro h hm
    obtain ⟨u, q, hu, hq, hh⟩ := mem_drop_flatten pd t h hm
    exact hc g (by simp) u q hu hq h hh

/-! ## the relation -/

/-- pending and future blocks of a thread, annotated -/
def ablocks (th : Thread σ) (p : List (σ → σ)) : List (ABlk σ) :=
  p.map (fun f => (th.held, true, f)) ++ annot th.held th.prog

/-- the coarse thread of a fine thread with pending micro-blocks `p` -/
def cthread (th : Thread σ) (p : List (σ → σ)) : Thread σ :=
  { prog := fuseA th.held p th.prog, held := th.held }

structure Sim (S : ThreadId → ABlk σ → Prop) (fs cs : Sys σ) (pd : List (List (σ → σ))) : Prop where
  lenc : cs.thr.length = fs.thr.length
  lenp : pd.length = fs.thr.length
  thr : ∀ t fth, fs.thr[t]? = some fth → ∃ p, pd[t]? = some p ∧ cs.thr[t]? = some (cthread fth p) ∧
      (p ≠ [] → fth.held ≠ [] ∧ startsBlk fth.prog = true) ∧ (∀ b ∈ ablocks fth p, S t b)
  excl : ∀ (t u : ThreadId) (a b : Thread σ), t ≠ u → fs.thr[t]? = some a → fs.thr[u]? = some b → ∀ l ∈ a.held, l ∉ b.held
  sh : fs.sh = pipe pd.flatten cs.sh

variable {S : ThreadId → ABlk σ → Prop}

theorem Sim.held_eq {fs cs : Sys σ} {pd : List (List (σ → σ))} (h : Sim S fs cs pd) :
    cs.thr.map (·.held) = fs.thr.map (·.held) := by
  apply List.ext_getElem?
  intro t
  rw [List.getElem?_map, List.getElem?_map]
  cases hf : fs.thr[t]? with
  | none =>
    have : cs.thr[t]? = none := by
      rw [List.getElem?_eq_none_iff] at hf ⊢
      rw [h.lenc]; exact hf
    rw [this]
  | some fth =>
    obtain ⟨p, _, hc, _, _⟩ := h.thr t fth hf
    rw [hc]; rfl

theorem lockFree_eq_map (s : Sys σ) (l : Lock) :
    lockFree s l = (s.thr.map (·.held)).all (fun h => !h.contains l) := by
  rw [lockFree, List.all_map]; rfl

theorem Sim.lockFree_eq {fs cs : Sys σ} {pd : List (List (σ → σ))} (h : Sim S fs cs pd) (l : Lock) :
    lockFree cs l = lockFree fs l := by
  rw [lockFree_eq_map, lockFree_eq_map, h.held_eq]

theorem lockFree_not_mem (s : Sys σ) (l : Lock) (h : lockFree s l = true) (u : ThreadId) (b : Thread σ)
    (hb : s.thr[u]? = some b) : l ∉ b.held := by
  unfold lockFree at h
  rw [List.all_eq_true] at h
  have := h b (List.mem_of_getElem? hb)
  simpa using this

/-- **Update lemma.** Replace fine thread `t` by `fth'`, its pending list by `p'` and the coarse thread by the
corresponding coarse thread; the relation is kept when the local side conditions hold. -/
theorem Sim.update {fs cs : Sys σ} {pd : List (List (σ → σ))} (h : Sim S fs cs pd) (t : ThreadId) (fth : Thread σ)
    (hf : fs.thr[t]? = some fth) (fth' : Thread σ) (p' : List (σ → σ)) (fsh csh : σ)
    (hpend : p' ≠ [] → fth'.held ≠ [] ∧ startsBlk fth'.prog = true)
    (hS : ∀ b ∈ ablocks fth' p', S t b)
    (hex : ∀ u b, u ≠ t → fs.thr[u]? = some b → ∀ l ∈ fth'.held, l ∉ b.held)
    (hsh : fsh = pipe (pd.set t p').flatten csh) :
    Sim S { sh := fsh, thr := fs.thr.set t fth' } { sh := csh, thr := cs.thr.set t (cthread fth' p') }
      (pd.set t p') := by
  have hlt : t < fs.thr.length := (List.getElem?_eq_some_iff.mp hf).1
  refine ⟨by simp [h.lenc], by simp [h.lenp], ?_, ?_, hsh⟩
  · intro u uth hu
    by_cases hut : u = t
    · subst hut
      simp only [List.getElem?_set_self hlt, Option.some.injEq] at hu
      subst hu
      refine ⟨p', ?_, ?_, hpend, hS⟩
      · exact List.getElem?_set_self (by rw [h.lenp]; exact hlt)
      · exact List.getElem?_set_self (by rw [h.lenc]; exact hlt)
    · have hne : t ≠ u := fun e => hut e.symm
      simp only [List.getElem?_set_ne hne] at hu ⊢
      exact h.thr u uth hu
  · intro u v a b huv hu hv l hl
    by_cases hut : u = t
    · subst hut
      have hne : u ≠ v := huv
      simp only [List.getElem?_set_self hlt, Option.some.injEq] at hu
      subst hu
      simp only [List.getElem?_set_ne hne] at hv
      exact hex v b (fun e => huv e.symm) hv l hl
    · have hne : t ≠ u := fun e => hut e.symm
      simp only [List.getElem?_set_ne hne] at hu
      by_cases hvt : v = t
      · subst hvt
        simp only [List.getElem?_set_self hlt, Option.some.injEq] at hv
        subst hv
        intro hl'
        exact hex u a hut hu l hl' hl
      · have hne' : t ≠ v := fun e => hvt e.symm
        simp only [List.getElem?_set_ne hne'] at hv
        exact h.excl u v a b huv hu hv l hl

/-- a pending block of another thread commutes with every block thread `t` can execute now -/
theorem Sim.pending_commute {fs cs : Sys σ} {pd : List (List (σ → σ))} (h : Sim S fs cs pd) (hd : Disc S)
    (t u : ThreadId) (htu : u ≠ t) (fth : Thread σ) (hf : fs.thr[t]? = some fth) (q : List (σ → σ))
    (hq : pd[u]? = some q) (k : σ → σ) (hk : k ∈ q) (flag : Bool) (f : σ → σ) (hSf : S t (fth.held, flag, f)) :
    Commute f k := by
  have hlt : u < fs.thr.length := by rw [← h.lenp]; exact (List.getElem?_eq_some_iff.mp hq).1
  obtain ⟨q', hq', _, hpend, hS⟩ := h.thr u fs.thr[u] (by simp [hlt])
  rw [hq] at hq'
  simp only [Option.some.injEq] at hq'
  subst hq'
  have hSk : S u ((fs.thr[u]).held, true, k) := hS _ (by simp [ablocks]; exact Or.inl hk)
  have hdis : ∀ l ∈ (fs.thr[u]).held, l ∉ fth.held :=
    h.excl u t _ _ htu (by simp [hlt]) hf
  exact (hd u t htu _ _ hSk hSf rfl hdis).symm

end FlexModel.Conc.Reduction

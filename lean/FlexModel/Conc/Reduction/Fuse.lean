/-
Reduction, part 1: FINE vs COARSE programs over `Conc/Sched`.

A fine-grained program may contain, while a lock is held, several consecutive `blk` micro-steps (one per
bytecode-level access).  `fuse` maps it to the coarse program in which every maximal run of consecutive `blk`s
executed while AT LEAST ONE lock is held is ONE `blk` (the composition of the run in program order).  Blocks outside
every section stay single blocks.  Nested sections are handled: `acq`/`rel` end a run, so
`acq a; f1; f2; acq b; g1; g2; rel b; h1; h2; rel a` becomes `acq a; f2∘f1; acq b; g2∘g1; rel b; h2∘h1; rel a`
(exactly the shape of `sect2` in `Sched.lean`).  No well-bracketedness is needed for the definitions or the theorem.

`annot` lists the blocks of a program together with the locks held when the block runs and a flag "non-final
micro-block of a run" (a lock is held and the next instruction is again a `blk`).  The commutation discipline is
stated on these annotated blocks.
Imports core Lean only.
-/
import FlexModel.Conc.Sched

namespace FlexModel.Conc.Reduction
open FlexModel.Conc

variable {σ : Type}

/-- sequential composition in list order: `pipe [f1, …, fk] = fk ∘ … ∘ f1` -/
def pipe (fs : List (σ → σ)) (x : σ) : σ := fs.foldl (fun x f => f x) x

@[simp] theorem pipe_nil (x : σ) : pipe [] x = x := rfl
@[simp] theorem pipe_cons (f : σ → σ) (fs : List (σ → σ)) (x : σ) : pipe (f :: fs) x = pipe fs (f x) := rfl
theorem pipe_append (a b : List (σ → σ)) (x : σ) : pipe (a ++ b) x = pipe b (pipe a x) := by
  simp [pipe, List.foldl_append]
theorem pipe_single (f : σ → σ) : pipe [f] = f := rfl

/-- `pipe` is `applyAll` of `Sched.lean` without the thread tags -/
theorem applyAll_eq_pipe (tr : List (ThreadId × (σ → σ))) (x : σ) : applyAll tr x = pipe (tr.map (·.2)) x := by
  simp [applyAll, pipe, List.foldl_map]

def startsBlk : List (Instr σ) → Bool
  | .blk _ :: _ => true
  | _ => false

/-- `fuseA held acc p`: fuse `p`, executed with the locks `held`, where `acc` are the micro-blocks of the current
run that were already consumed.  The accumulated run is emitted at its LAST micro-block. -/
def fuseA (held : List Lock) (acc : List (σ → σ)) : List (Instr σ) → List (Instr σ)
  | [] => []
  | .acq l :: p => .acq l :: fuseA (l :: held) [] p
  | .rel l :: p => .rel l :: fuseA (held.erase l) [] p
  | .blk f :: p =>
    if (!held.isEmpty && startsBlk p) = true then fuseA held (acc ++ [f]) p
    else .blk (pipe (acc ++ [f])) :: fuseA held [] p

/-- the coarse program of a fine program started with no lock held -/
def fuse (p : List (Instr σ)) : List (Instr σ) := fuseA [] [] p

/-- annotated block: locks held, "non-final micro-block of a run", the function -/
abbrev ABlk (σ : Type) := List Lock × Bool × (σ → σ)

def annot (held : List Lock) : List (Instr σ) → List (ABlk σ)
  | [] => []
  | .acq l :: p => annot (l :: held) p
  | .rel l :: p => annot (held.erase l) p
  | .blk f :: p => (held, (!held.isEmpty && startsBlk p), f) :: annot held p

@[simp] theorem fuseA_nil (h : List Lock) (acc : List (σ → σ)) : fuseA h acc ([] : List (Instr σ)) = [] := rfl
@[simp] theorem fuseA_acq (h : List Lock) (acc : List (σ → σ)) (l : Lock) (p : List (Instr σ)) :
    fuseA h acc (.acq l :: p) = .acq l :: fuseA (l :: h) [] p := rfl
@[simp] theorem fuseA_rel (h : List Lock) (acc : List (σ → σ)) (l : Lock) (p : List (Instr σ)) :
    fuseA h acc (.rel l :: p) = .rel l :: fuseA (h.erase l) [] p := rfl
theorem fuseA_blk (h : List Lock) (acc : List (σ → σ)) (f : σ → σ) (p : List (Instr σ)) :
    fuseA h acc (.blk f :: p) =
      if (!h.isEmpty && startsBlk p) = true then fuseA h (acc ++ [f]) p
      else .blk (pipe (acc ++ [f])) :: fuseA h [] p := rfl
theorem fuseA_blk_mid (h : List Lock) (acc : List (σ → σ)) (f : σ → σ) (p : List (Instr σ))
    (hm : (!h.isEmpty && startsBlk p) = true) : fuseA h acc (.blk f :: p) = fuseA h (acc ++ [f]) p := by
  rw [fuseA_blk, if_pos hm]
theorem fuseA_blk_last (h : List Lock) (acc : List (σ → σ)) (f : σ → σ) (p : List (Instr σ))
    (hm : (!h.isEmpty && startsBlk p) = false) :
    fuseA h acc (.blk f :: p) = .blk (pipe (acc ++ [f])) :: fuseA h [] p := by
  rw [fuseA_blk, if_neg (by simp [hm])]

@[simp] theorem annot_nil (h : List Lock) : annot h ([] : List (Instr σ)) = [] := rfl
@[simp] theorem annot_acq (h : List Lock) (l : Lock) (p : List (Instr σ)) :
    annot h (.acq l :: p) = annot (l :: h) p := rfl
@[simp] theorem annot_rel (h : List Lock) (l : Lock) (p : List (Instr σ)) :
    annot h (.rel l :: p) = annot (h.erase l) p := rfl
@[simp] theorem annot_blk (h : List Lock) (f : σ → σ) (p : List (Instr σ)) :
    annot h (.blk f :: p) = (h, (!h.isEmpty && startsBlk p), f) :: annot h p := rfl

/-- outside every section nothing is fused -/
theorem fuseA_unlocked_blk (f : σ → σ) (p : List (Instr σ)) :
    fuseA [] [] (.blk f :: p) = .blk f :: fuseA [] [] p := by
  rw [fuseA_blk_last _ _ _ _ (by simp)]; rfl

/-- a program without lock operations is its own coarse program -/
theorem fuse_lockless (p : List (Instr σ)) (h : ∀ i ∈ p, ∃ f, i = .blk f) : fuse p = p := by
  unfold fuse
  induction p with
  | nil => rfl
  | cons i p ih =>
    obtain ⟨f, rfl⟩ := h i (by simp)
    rw [fuseA_unlocked_blk, ih (fun j hj => h j (List.mem_cons_of_mem _ hj))]

/-- a flagged block sits inside a section -/
theorem annot_flag_held (h : List Lock) (p : List (Instr σ)) (b : ABlk σ) (hb : b ∈ annot h p)
    (hf : b.2.1 = true) : b.1 ≠ [] := by
  induction p generalizing h with
  | nil => simp at hb
  | cons i p ih =>
    cases i with
    | acq l => exact ih _ hb
    | rel l => exact ih _ hb
    | blk f =>
      rw [annot_blk, List.mem_cons] at hb
      rcases hb with rfl | hb
      · intro he
        simp only at he hf
        simp [he] at hf
      · exact ih _ hb

/-! ## building fine programs from sections, and what `fuse` does to them -/

/-- a critical section of micro-blocks `fs` (program order) under `l` -/
def sectN (l : Lock) (fs : List (σ → σ)) : List (Instr σ) := .acq l :: (fs.map .blk ++ [.rel l])

theorem fuseA_run (h : List Lock) (hne : h ≠ []) (acc fs : List (σ → σ)) (g : σ → σ) (q : List (Instr σ))
    (hq : startsBlk q = false) :
    fuseA h acc ((fs ++ [g]).map .blk ++ q) = .blk (pipe (acc ++ fs ++ [g])) :: fuseA h [] q := by
  induction fs generalizing acc with
  | nil =>
    simp only [List.nil_append, List.map_cons, List.map_nil, List.cons_append, List.append_nil]
    rw [fuseA_blk_last _ _ _ _ (by simp [hq])]
  | cons f fs ih =>
    have hs : startsBlk ((fs ++ [g]).map Instr.blk ++ q) = true := by
      cases fs <;> simp [startsBlk]
    have hm : (!h.isEmpty && startsBlk ((fs ++ [g]).map Instr.blk ++ q)) = true := by
      cases h with
      | nil => exact absurd rfl hne
      | cons a r => rw [hs]; rfl
    simp only [List.cons_append, List.map_cons]
    rw [fuseA_blk_mid _ _ _ _ hm, ih]
    simp [List.append_assoc]

/-- **Decomposition hook.** A section of micro-blocks `f1 … fk` (k ≥ 1) fuses to the one-block section of
`Sched.sect` with block `fk ∘ … ∘ f1`. -/
theorem fuse_sectN (l : Lock) (fs : List (σ → σ)) (g : σ → σ) :
    fuse (sectN l (fs ++ [g])) = sect l (pipe (fs ++ [g])) := by
  unfold fuse sectN sect
  rw [fuseA_acq, fuseA_run [l] (by simp) [] fs g [.rel l] rfl]
  simp

/-- `fuse` distributes over concatenation of well-bracketed pieces (`WFp` of `Sched.lean`) -/
theorem fuseA_append (rank : Lock → Nat) (h : List Lock) (acc : List (σ → σ)) (p q : List (Instr σ))
    (hw : WFp rank h p) (hacc : h = [] → acc = []) :
    fuseA h acc (p ++ q) = fuseA h acc p ++ fuse q := by
  induction p generalizing h acc with
  | nil =>
    simp only [WFp] at hw
    subst hw
    rw [hacc rfl]
    rfl
  | cons i p ih =>
    cases i with
    | acq l => simp only [List.cons_append, fuseA_acq]; rw [ih _ _ hw.2 (fun _ => rfl)]
    | rel l => simp only [List.cons_append, fuseA_rel]; rw [ih _ _ hw.2 (fun _ => rfl)]
    | blk f =>
      have hw' : WFp rank h p := hw
      have hs : (!h.isEmpty && startsBlk (p ++ q)) = (!h.isEmpty && startsBlk p) := by
        cases p with
        | nil =>
          simp only [WFp] at hw'
          subst hw'
          rfl
        | cons j p => cases j <;> rfl
      simp only [List.cons_append]
      rw [fuseA_blk, fuseA_blk, hs]
      split
      · rename_i hm
        refine ih _ _ hw' ?_
        intro he; subst he; simp at hm
      · rw [ih _ _ hw' (fun _ => rfl)]; rfl

theorem fuse_append (rank : Lock → Nat) (p q : List (Instr σ)) (hw : WFp rank [] p) :
    fuse (p ++ q) = fuse p ++ fuse q :=
  fuseA_append rank [] [] p q hw (fun _ => rfl)

/-- programs built as `ps.flatten` (as in `RouterConc`/`LdmConc`) are fused piecewise -/
theorem fuse_flatten (rank : Lock → Nat) (ps : List (List (Instr σ))) (h : ∀ p ∈ ps, WFp rank [] p) :
    fuse ps.flatten = (ps.map fuse).flatten := by
  induction ps with
  | nil => rfl
  | cons p r ih =>
    simp only [List.flatten_cons, List.map_cons]
    rw [fuse_append rank p _ (h p (by simp)), ih (fun q hq => h q (List.mem_cons_of_mem _ hq))]

theorem WFp_sectN (rank : Lock → Nat) (l : Lock) (fs : List (σ → σ)) : WFp rank [] (sectN (σ := σ) l fs) := by
  unfold sectN
  refine ⟨by simp, ?_⟩
  induction fs with
  | nil => simp [WFp]
  | cons f fs ih => exact ih

end FlexModel.Conc.Reduction

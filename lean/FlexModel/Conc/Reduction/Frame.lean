/-
Reduction, part 5: a SYNTACTIC sufficient condition for the commutation discipline, checkable from a lock map.

State = `V → α` (variables to values).  A micro-block declares a read set and a write set and is FRAMED: it changes
only its writes and the new values depend only on its reads.  A protection map `prot : V → Guard` says for every
variable which lock protects it (`lock l`: every micro-block of every thread that reads or writes it runs while `l`
is held), that it is a thread-local register (`loc t`: only thread `t` touches it) or that it is never written
(`frozen`).  This is the shape of the facts `Generated/Locks.lean` records about the source ("every access to
attribute X is under lock L", `allUnder X L`).

`discipline_of_protected`: framed + protected ⇒ `Discipline` (in fact ALL lock-disjoint blocks of different threads
commute, not only the non-final micro-blocks).  `protected_of_check` gives the same from a Boolean check
`lockCheck` over programs whose blocks carry their read/write sets.
Imports core Lean only.
-/
import FlexModel.Conc.Reduction.Main

namespace FlexModel.Conc.Reduction
open FlexModel.Conc

variable {V α : Type}

/-- a micro-block with declared read and write sets -/
structure MB (V α : Type) where
  rd : List V
  wr : List V
  f : (V → α) → (V → α)

/-- it changes only its writes, and what it writes depends only on its reads -/
def MB.Framed (m : MB V α) : Prop :=
  (∀ s v, v ∉ m.wr → m.f s v = s v) ∧
  (∀ s s', (∀ v ∈ m.rd, s v = s' v) → ∀ v ∈ m.wr, m.f s v = m.f s' v)

/-- framed blocks without a write/read or write/write conflict commute -/
theorem framed_commute (m n : MB V α) (hm : m.Framed) (hn : n.Framed)
    (h1 : ∀ v ∈ m.wr, v ∉ n.rd ∧ v ∉ n.wr) (h2 : ∀ v ∈ n.wr, v ∉ m.rd ∧ v ∉ m.wr) : Commute m.f n.f := by
  intro s
  funext v
  have hmr : ∀ w ∈ m.rd, n.f s w = s w := fun w hw => hn.1 s w (fun hc => (h2 w hc).1 hw)
  have hnr : ∀ w ∈ n.rd, m.f s w = s w := fun w hw => hm.1 s w (fun hc => (h1 w hc).1 hw)
  by_cases hv : v ∈ m.wr
  · rw [hm.2 (n.f s) s hmr v hv, hn.1 (m.f s) v (h1 v hv).2]
  · rw [hm.1 (n.f s) v hv]
    by_cases hv' : v ∈ n.wr
    · rw [hn.2 (m.f s) s hnr v hv']
    · rw [hn.1 s v hv', hn.1 (m.f s) v hv', hm.1 s v hv]

inductive Guard where
  | lock (l : Lock)
  | loc (t : ThreadId)
  | frozen

/-- micro-block `m` of thread `t`, executed while the locks `H` are held, respects the protection map -/
def Allowed (prot : V → Guard) (t : ThreadId) (H : List Lock) (m : MB V α) : Prop :=
  ∀ v, (v ∈ m.rd ∨ v ∈ m.wr) →
    match prot v with
    | .lock l => l ∈ H
    | .loc u => u = t
    | .frozen => v ∉ m.wr

theorem no_conflict (prot : V → Guard) (t u : ThreadId) (htu : t ≠ u) (Ha Hb : List Lock)
    (hdis : ∀ l ∈ Ha, l ∉ Hb) (m n : MB V α) (hm : Allowed prot t Ha m) (hn : Allowed prot u Hb n)
    (v : V) (hv : v ∈ m.wr) : v ∉ n.rd ∧ v ∉ n.wr := by
  have key : ¬ (v ∈ n.rd ∨ v ∈ n.wr) := by
    intro hacc
    have h1 := hm v (Or.inr hv)
    have h2 := hn v hacc
    cases hp : prot v with
    | lock l => rw [hp] at h1 h2; exact hdis l h1 h2
    | loc w => rw [hp] at h1 h2; exact htu (h1.symm.trans h2)
    | frozen => rw [hp] at h1; exact h1 hv
  exact ⟨fun h => key (Or.inl h), fun h => key (Or.inr h)⟩

/-- **Protection.** Every block of every thread is (the function of) a framed micro-block whose accesses respect
the protection map at the locks held there. -/
def Protected (prot : V → Guard) (progs : List (List (Instr (V → α)))) : Prop :=
  ∀ t b, blocksAt progs t b → ∃ m : MB V α, m.f = b.2.2 ∧ m.Framed ∧ Allowed prot t b.1 m

/-- all blocks of different threads that run under disjoint lock sets commute -/
theorem commute_of_protected (prot : V → Guard) (progs : List (List (Instr (V → α)))) (h : Protected prot progs)
    (t u : ThreadId) (htu : t ≠ u) (a b : ABlk (V → α)) (ha : blocksAt progs t a) (hb : blocksAt progs u b)
    (hdis : ∀ l ∈ a.1, l ∉ b.1) : Commute a.2.2 b.2.2 := by
  obtain ⟨m, hmf, hmF, hmA⟩ := h t a ha
  obtain ⟨n, hnf, hnF, hnA⟩ := h u b hb
  rw [← hmf, ← hnf]
  apply framed_commute m n hmF hnF
  · exact fun v hv => no_conflict prot t u htu a.1 b.1 hdis m n hmA hnA v hv
  · exact fun v hv => no_conflict prot u t (fun e => htu e.symm) b.1 a.1
      (fun l hl hl' => hdis l hl' hl) n m hnA hmA v hv

/-- **protected + framed ⇒ the semantic commutation discipline** -/
theorem discipline_of_protected (prot : V → Guard) (progs : List (List (Instr (V → α))))
    (h : Protected prot progs) : Discipline progs :=
  fun t u htu a b ha hb _ hdis => commute_of_protected prot progs h t u htu a b ha hb hdis

/-- for programs WITHOUT nested sections (at most one lock held at any block) protection also gives the per-lock
form of the discipline; with nested sections the per-lock form can fail although `Discipline` holds
(`acq a; acq b; f(v); …` against `acq b; g(v); …`, `v` protected by `b`, `l = a`) -/
theorem disciplineL_of_protected_flat (prot : V → Guard) (progs : List (List (Instr (V → α))))
    (h : Protected prot progs) (hflat : ∀ t a, blocksAt progs t a → a.1.length ≤ 1) : DisciplineL progs := by
  intro t u htu a b ha hb l hl hnl
  apply commute_of_protected prot progs h t u htu a b ha hb
  intro l' hl'
  have := hflat t a ha
  match hA : a.1, this with
  | [], _ => rw [hA] at hl; cases hl
  | [k], _ =>
    rw [hA] at hl hl'
    simp only [List.mem_cons, List.not_mem_nil, or_false] at hl hl'
    rw [hl', ← hl]; exact hnl

/-! ## programs that carry their read/write sets, and a Boolean check -/

inductive AInstr (V α : Type) where
  | acq (l : Lock)
  | rel (l : Lock)
  | blk (m : MB V α)

def AInstr.erase : AInstr V α → Instr (V → α)
  | .acq l => .acq l
  | .rel l => .rel l
  | .blk m => .blk m.f

def eraseProg (p : List (AInstr V α)) : List (Instr (V → α)) := p.map AInstr.erase

variable [DecidableEq V]

def allowedB (prot : V → Guard) (t : ThreadId) (H : List Lock) (m : MB V α) : Bool :=
  (m.rd ++ m.wr).all (fun v =>
    match prot v with
    | .lock l => H.contains l
    | .loc u => u == t
    | .frozen => !m.wr.contains v)

theorem allowed_of_allowedB (prot : V → Guard) (t : ThreadId) (H : List Lock) (m : MB V α)
    (h : allowedB prot t H m = true) : Allowed prot t H m := by
  intro v hv
  unfold allowedB at h
  rw [List.all_eq_true] at h
  have := h v (by simpa using hv)
  cases hp : prot v with
  | lock l => rw [hp] at this; simpa using this
  | loc u => rw [hp] at this; simpa using this
  | frozen => rw [hp] at this; simpa using this

/-- the lock-map check of one thread's program: walk the program, track the held locks, check every block -/
def lockCheck (prot : V → Guard) (t : ThreadId) : List Lock → List (AInstr V α) → Bool
  | _, [] => true
  | H, .acq l :: p => lockCheck prot t (l :: H) p
  | H, .rel l :: p => lockCheck prot t (H.erase l) p
  | H, .blk m :: p => allowedB prot t H m && lockCheck prot t H p

def AllFramed (p : List (AInstr V α)) : Prop := ∀ m, AInstr.blk m ∈ p → m.Framed

theorem check_annot (prot : V → Guard) (t : ThreadId) (H : List Lock) (p : List (AInstr V α))
    (hc : lockCheck prot t H p = true) (hf : AllFramed p) :
    ∀ b ∈ annot H (eraseProg p), ∃ m : MB V α, m.f = b.2.2 ∧ m.Framed ∧ Allowed prot t b.1 m := by
  induction p generalizing H with
  | nil => intro b hb; simp [eraseProg] at hb
  | cons i p ih =>
    have hf' : AllFramed p := fun m hm => hf m (List.mem_cons_of_mem _ hm)
    cases i with
    | acq l => exact ih (l :: H) hc hf'
    | rel l => exact ih (H.erase l) hc hf'
    | blk m =>
      simp only [lockCheck, Bool.and_eq_true] at hc
      intro b hb
      simp only [eraseProg, List.map_cons, AInstr.erase, annot_blk, List.mem_cons] at hb
      rcases hb with rfl | hb
      · exact ⟨m, rfl, hf m (by simp), allowed_of_allowedB prot t H m hc.1⟩
      · exact ih H hc.2 hf' b hb

/-- **Checkable form.** If every thread's annotated program passes `lockCheck` and all its blocks are framed, the
erased programs are `Protected`, hence satisfy the `Discipline`. -/
theorem protected_of_check (prot : V → Guard) (aprogs : List (List (AInstr V α)))
    (hc : ∀ t p, aprogs[t]? = some p → lockCheck prot t [] p = true)
    (hf : ∀ p ∈ aprogs, AllFramed p) : Protected prot (aprogs.map eraseProg) := by
  intro t b ⟨p, hp, hb⟩
  simp only [List.getElem?_map, Option.map_eq_some_iff] at hp
  obtain ⟨ap, hap, rfl⟩ := hp
  exact check_annot prot t [] ap (hc t ap hap) (hf ap (List.mem_of_getElem? hap)) b hb

/-! ## a standard framed micro-block: one assignment -/

def upd (s : V → α) (v : V) (a : α) : V → α := fun w => if w = v then a else s w

/-- `v := e` where `e` reads only `rd` -/
def MB.assign (v : V) (rd : List V) (e : (V → α) → α) : MB V α :=
  { rd := rd, wr := [v], f := fun s => upd s v (e s) }

theorem framed_assign (v : V) (rd : List V) (e : (V → α) → α)
    (he : ∀ s s', (∀ w ∈ rd, s w = s' w) → e s = e s') : (MB.assign v rd e).Framed := by
  constructor
  · intro s w hw
    simp only [MB.assign, List.mem_cons, List.not_mem_nil, or_false] at hw
    simp [MB.assign, upd, hw]
  · intro s s' hag w hw
    simp only [MB.assign, List.mem_cons, List.not_mem_nil, or_false] at hw
    subst hw
    simp [MB.assign, upd, he s s' hag]

end FlexModel.Conc.Reduction

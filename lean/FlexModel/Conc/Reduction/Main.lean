/-
Reduction, part 4: the reduction theorems for systems started by `mkSys` (no lock held).

`Discipline progs` is the semantic commutation hypothesis on the FINE programs; `reduction_general` (b),
`reduction_complete` (a), `reduction_quiescent` / `reduction_invariant` (c) and the instantiation hook
`block_model_sound` are consequences of `sim_run`.
Imports core Lean only.
-/
import FlexModel.Conc.Reduction.Step

namespace FlexModel.Conc.Reduction
open FlexModel.Conc

variable {σ : Type}

/-- the annotated blocks of thread `t` of the program list `progs` -/
def blocksAt (progs : List (List (Instr σ))) : ThreadId → ABlk σ → Prop :=
  fun t b => ∃ p, progs[t]? = some p ∧ b ∈ annot [] p

/-- **Commutation discipline (the form the theorem needs).** For threads `t ≠ u`: every NON-FINAL micro-block of a
run of `t` (it sits inside a section) commutes with every block of `u` whose held-lock set is disjoint from the
locks held at the micro-block. -/
def Discipline (progs : List (List (Instr σ))) : Prop := Disc (blocksAt progs)

/-- **Commutation discipline, per-lock form.** For threads `t ≠ u` and every lock `l`: every block of `t` inside a
section holding `l` commutes with every block of `u` that is NOT inside a section of `u` holding `l`. -/
def DisciplineL (progs : List (List (Instr σ))) : Prop :=
  ∀ t u, t ≠ u → ∀ a b, blocksAt progs t a → blocksAt progs u b → ∀ l, l ∈ a.1 → l ∉ b.1 → Commute a.2.2 b.2.2

theorem discipline_of_perLock (progs : List (List (Instr σ))) (h : DisciplineL progs) : Discipline progs := by
  intro t u htu a b ha hb hflag hdis
  obtain ⟨p, _, hmem⟩ := ha
  have hne : a.1 ≠ [] := annot_flag_held [] p a hmem hflag
  cases hl : a.1 with
  | nil => exact absurd hl hne
  | cons l r =>
    have hin : l ∈ a.1 := by rw [hl]; simp
    exact h t u htu a b ⟨p, ‹_›, hmem⟩ hb l hin (hdis l hin)

/-- the initial fine and coarse systems are related, nothing pending -/
theorem sim_init (progs : List (List (Instr σ))) (x : σ) :
    Sim (blocksAt progs) (mkSys x progs) (mkSys x (progs.map fuse)) (progs.map (fun _ => [])) := by
  refine ⟨by simp [mkSys], by simp [mkSys], ?_, ?_, ?_⟩
  · intro t fth hf
    simp only [mkSys, List.getElem?_map, Option.map_eq_some_iff] at hf
    obtain ⟨p0, hp0, rfl⟩ := hf
    refine ⟨[], by simp [hp0], ?_, fun hne => absurd rfl hne, ?_⟩
    · simp [mkSys, hp0, cthread, fuse]
    · intro b hb
      exact ⟨p0, hp0, by simpa [ablocks] using hb⟩
  · intro t u a b _ ha _ l hl
    simp only [mkSys, List.getElem?_map, Option.map_eq_some_iff] at ha
    obtain ⟨_, _, rfl⟩ := ha
    cases hl
  · have : (progs.map (fun _ => ([] : List (σ → σ)))).flatten = [] := by
      rw [List.flatten_eq_nil_iff]
      intro l hl
      simp only [List.mem_map] at hl
      obtain ⟨_, _, rfl⟩ := hl
      rfl
    rw [this]; rfl

/-- **(b) General reduction.** For every schedule of the fine system there is a schedule of the coarse system (a
sub-list of it) such that the reached states are related by `Sim`: same locks, coarse programs = fused remaining
fine programs, and the fine shared state is the coarse shared state with the pending micro-blocks of the runs in
progress applied on top. -/
theorem reduction_general (progs : List (List (Instr σ))) (hd : Discipline progs) (x : σ) (sched : List ThreadId) :
    ∃ csched pend, csched.Sublist sched ∧
      Sim (blocksAt progs) (run (mkSys x progs) sched) (run (mkSys x (progs.map fuse)) csched) pend :=
  sim_run hd (sim_init progs x) sched

/-! ## readable consequences of `Sim` -/

variable {S : ThreadId → ABlk σ → Prop}

/-- no thread is inside a multi-step run: every thread holds no lock or its next instruction is not a `blk` -/
def Quiescent (s : Sys σ) : Prop := ∀ th ∈ s.thr, th.held = [] ∨ startsBlk th.prog = false

/-- Boolean form of `Quiescent` (for `decide` on concrete states) -/
def quiescentB (s : Sys σ) : Bool := s.thr.all (fun th => th.held.isEmpty || !startsBlk th.prog)

theorem quiescent_iff (s : Sys σ) : Quiescent s ↔ quiescentB s = true := by
  unfold Quiescent quiescentB
  rw [List.all_eq_true]
  constructor
  · intro h th hth
    rcases h th hth with h1 | h1
    · simp [h1]
    · simp [h1]
  · intro h th hth
    have := h th hth
    simp only [Bool.or_eq_true, List.isEmpty_iff, Bool.not_eq_true'] at this
    exact this

theorem Sim.pending_nil_of {fs cs : Sys σ} {pd : List (List (σ → σ))} (h : Sim S fs cs pd)
    (hq : Quiescent fs) : pd.flatten = [] := by
  rw [List.flatten_eq_nil_iff]
  intro p hp
  obtain ⟨t, ht⟩ := List.getElem?_of_mem hp
  have hlt : t < fs.thr.length := by rw [← h.lenp]; exact (List.getElem?_eq_some_iff.mp ht).1
  obtain ⟨p', hp', _, hpend, _⟩ := h.thr t fs.thr[t] (by simp [hlt])
  rw [ht] at hp'
  simp only [Option.some.injEq] at hp'
  subst hp'
  apply Classical.byContradiction
  intro hne
  obtain ⟨h1, h2⟩ := hpend hne
  rcases hq fs.thr[t] (List.getElem_mem hlt) with h3 | h3
  · exact h1 h3
  · rw [h2] at h3; cases h3

theorem Sim.sh_eq_of_quiescent {fs cs : Sys σ} {pd : List (List (σ → σ))} (h : Sim S fs cs pd)
    (hq : Quiescent fs) : fs.sh = cs.sh := by
  rw [h.sh, h.pending_nil_of hq]; rfl

theorem quiescent_of_finished (s : Sys σ) (h : finished s = true) : Quiescent s := by
  intro th hth
  unfold finished at h
  rw [List.all_eq_true] at h
  have := h th hth
  cases hp : th.prog with
  | nil => exact Or.inr rfl
  | cons i p => rw [hp] at this; cases this

theorem Sim.finished {fs cs : Sys σ} {pd : List (List (σ → σ))} (h : Sim S fs cs pd)
    (hf : finished fs = true) : finished cs = true := by
  unfold Conc.finished at hf ⊢
  rw [List.all_eq_true] at hf ⊢
  intro cth hcth
  obtain ⟨t, ht⟩ := List.getElem?_of_mem hcth
  have hlt : t < fs.thr.length := by rw [← h.lenc]; exact (List.getElem?_eq_some_iff.mp ht).1
  obtain ⟨p, _, hc, _, _⟩ := h.thr t fs.thr[t] (by simp [hlt])
  rw [ht] at hc
  simp only [Option.some.injEq] at hc
  subst hc
  have := hf fs.thr[t] (List.getElem_mem hlt)
  cases hp : (fs.thr[t]).prog with
  | nil => simp [cthread, hp]
  | cons i q => rw [hp] at this; cases this

/-- every pending micro-block is a flagged (non-final) block of its thread -/
theorem Sim.pending_mem {fs cs : Sys σ} {pd : List (List (σ → σ))} (h : Sim S fs cs pd) (f : σ → σ)
    (hf : f ∈ pd.flatten) : ∃ t H, S t (H, true, f) := by
  obtain ⟨p, hp, hfp⟩ := List.mem_flatten.mp hf
  obtain ⟨t, ht⟩ := List.getElem?_of_mem hp
  have hlt : t < fs.thr.length := by rw [← h.lenp]; exact (List.getElem?_eq_some_iff.mp ht).1
  obtain ⟨p', hp', _, _, hS⟩ := h.thr t fs.thr[t] (by simp [hlt])
  rw [ht] at hp'
  simp only [Option.some.injEq] at hp'
  subst hp'
  exact ⟨t, _, hS _ (by simp only [ablocks, List.mem_append, List.mem_map]; exact Or.inl ⟨f, hfp, rfl⟩)⟩

theorem pipe_preserves (P : σ → Prop) (L : List (σ → σ)) (h : ∀ f ∈ L, ∀ x, P x → P (f x)) (x : σ) (hx : P x) :
    P (pipe L x) := by
  induction L generalizing x with
  | nil => exact hx
  | cons f L ih =>
    rw [pipe_cons]
    exact ih (fun k hk => h k (List.mem_cons_of_mem _ hk)) _ (h f (by simp) x hx)

/-! ## headline theorems -/

/-- **(a) Complete executions.** If a fine schedule finishes all threads, some coarse schedule finishes all
threads of the fused system in the SAME shared state. -/
theorem reduction_complete (progs : List (List (Instr σ))) (hd : Discipline progs) (x : σ) (sched : List ThreadId)
    (hfin : finished (run (mkSys x progs) sched) = true) :
    ∃ csched, csched.Sublist sched ∧ finished (run (mkSys x (progs.map fuse)) csched) = true ∧
      (run (mkSys x (progs.map fuse)) csched).sh = (run (mkSys x progs) sched).sh := by
  obtain ⟨csched, pend, hsub, hsim⟩ := reduction_general progs hd x sched
  exact ⟨csched, hsub, hsim.finished hfin, (hsim.sh_eq_of_quiescent (quiescent_of_finished _ hfin)).symm⟩

/-- **(c1) Invariants at quiescent points.** A predicate that holds in the shared state of every coarse-reachable
state holds in every fine-reachable state in which no thread is inside a multi-step run. -/
theorem reduction_quiescent (progs : List (List (Instr σ))) (hd : Discipline progs) (x : σ) (P : σ → Prop)
    (hP : ∀ csched, P (run (mkSys x (progs.map fuse)) csched).sh) (sched : List ThreadId)
    (hq : Quiescent (run (mkSys x progs) sched)) : P (run (mkSys x progs) sched).sh := by
  obtain ⟨csched, pend, _, hsim⟩ := reduction_general progs hd x sched
  rw [hsim.sh_eq_of_quiescent hq]
  exact hP csched

/-- **(c2) Invariants insensitive to runs in progress.** A predicate that holds in every coarse-reachable state and
is preserved by every non-final micro-block (e.g. it does not mention the thread-local registers those write) holds
in EVERY fine-reachable state. -/
theorem reduction_invariant (progs : List (List (Instr σ))) (hd : Discipline progs) (x : σ) (P : σ → Prop)
    (hP : ∀ csched, P (run (mkSys x (progs.map fuse)) csched).sh)
    (hins : ∀ t b, blocksAt progs t b → b.2.1 = true → ∀ y, P y → P (b.2.2 y))
    (sched : List ThreadId) : P (run (mkSys x progs) sched).sh := by
  obtain ⟨csched, pend, _, hsim⟩ := reduction_general progs hd x sched
  rw [hsim.sh]
  apply pipe_preserves P _ _ _ (hP csched)
  intro f hf
  obtain ⟨t, H, hS⟩ := hsim.pending_mem f hf
  exact hins t _ hS rfl

/-- **Instantiation hook.** `cprogs` is a block model (one `blk` per `with lock:` section), `fprogs` an
instruction-level model whose runs of micro-blocks compose to the blocks of `cprogs` (`fprogs.map fuse = cprogs`;
use `fuse_sectN`, `fuse_flatten`).  Under the discipline the block model over-approximates the instruction-level
model: every property of all block-model states holds at the quiescent points of every instruction-level run, and
every complete instruction-level run ends in a shared state that a complete block-model run produces. -/
theorem block_model_sound (cprogs fprogs : List (List (Instr σ))) (hdec : fprogs.map fuse = cprogs)
    (hd : Discipline fprogs) (x : σ) (sched : List ThreadId) :
    (∀ P : σ → Prop, (∀ csched, P (run (mkSys x cprogs) csched).sh) →
        Quiescent (run (mkSys x fprogs) sched) → P (run (mkSys x fprogs) sched).sh) ∧
    (finished (run (mkSys x fprogs) sched) = true →
        ∃ csched, finished (run (mkSys x cprogs) csched) = true ∧
          (run (mkSys x cprogs) csched).sh = (run (mkSys x fprogs) sched).sh) := by
  subst hdec
  refine ⟨fun P hP hq => reduction_quiescent fprogs hd x P hP sched hq, fun hfin => ?_⟩
  obtain ⟨c, _, h1, h2⟩ := reduction_complete fprogs hd x sched hfin
  exact ⟨c, h1, h2⟩

/-- any system in which no thread holds a lock is a `mkSys` -/
theorem eq_mkSys_of_noLocks (s : Sys σ) (h : ∀ th ∈ s.thr, th.held = []) :
    s = mkSys s.sh (s.thr.map (·.prog)) := by
  cases s with
  | mk sh thr =>
    simp only [mkSys, List.map_map, Sys.mk.injEq, true_and]
    induction thr with
    | nil => rfl
    | cons th r ih =>
      simp only [List.map_cons, List.cons.injEq]
      refine ⟨?_, ih (fun k hk => h k (List.mem_cons_of_mem _ hk))⟩
      have := h th (by simp)
      cases th with
      | mk prog held => simp only at this; subst this; rfl

end FlexModel.Conc.Reduction

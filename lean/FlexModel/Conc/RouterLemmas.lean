/-
Helper lemmas for Props/C15: the closed set of block forms used by the router programs (`Blk`), the invariant
rule specialised to router systems, lock discipline of the compiled programs, and the four invariants
(sequence numbers, CBF conservation, position-vector history, location-service conservation).
-/
import FlexModel.Conc.RouterConc

namespace FlexModel.Conc.Router
open FlexModel.Conc

/-- the block functions occurring in compiled router programs (`purge = true` admits the blocks of refresh_table and of
frame reception, `unl = true` those of a reception whose LocTE update runs outside `loc_t_lock`) -/
inductive Blk (purge old new unl : Bool) : (St → St) → Prop
  | getSN (o) : Blk purge old new unl (getSN o)
  | readEgo (o) : Blk purge old new unl (readEgo o)
  | egoSwap (v) : Blk purge old new unl (egoSwap v)
  | sendPkt (o kind ref b) (h : kind < 4) : Blk purge old new unl (sendPkt o kind ref b)
  | cbfArrive (o k) : Blk purge old new unl (cbfArrive o k)
  | timerStart (o) : Blk purge old new unl (timerStart o)
  | timerCheck (o src) : Blk purge old new unl (timerCheck o src)
  | cbfExpire (o k) : Blk purge old new unl (cbfExpire o k)
  | cbfSend (o k) : Blk purge old new unl (cbfSend o k)
  | cbfDiscard (o k) : Blk purge old new unl (cbfDiscard o k)
  | gucLookup (fx o d) : Blk purge old new unl (gucLookup fx o d)
  | lsRegisterOrQueue (fx o d) (h : (fx = false → old = true) ∧ (fx = true → new = true)) :
      Blk purge old new unl (lsRegisterOrQueue fx o d)
  | lsEnsure (d) : Blk purge old new unl (lsEnsure d)
  | lsStoreTimer (o d) : Blk purge old new unl (lsStoreTimer o d)
  | lsStoreTimer' (o d) : Blk purge old new unl (lsStoreTimer' o d)
  | lsRetransmitCheck (mr o d) : Blk purge old new unl (lsRetransmitCheck mr o d)
  | loctLearn (d) : Blk purge old new unl (loctLearn d)
  | lsReplyPop (o d) : Blk purge old new unl (lsReplyPop o d)
  | lsReplyCancel (o) : Blk purge old new unl (lsReplyCancel o)
  | lsFlushPick (o ok) : Blk purge old new unl (lsFlushPick o ok)
  | gucInit (o r) : Blk purge old new unl (gucInit o r)
  | gucSend (o d) : Blk purge old new unl (gucSend o d)
  | loctPurge (d) (h : purge = true) : Blk purge old new unl (loctPurge d)
  | locTRefresh (exp) (h : purge = true) : Blk purge old new unl (locTRefresh exp)
  | rxRecv (mh o a k) (h : purge = true) : Blk purge old new unl (rxRecv mh o a k)
  | rxGetOrCreate (o a) (h : purge = true ∧ unl = true) : Blk purge old new unl (rxGetOrCreate o a)
  | rxDpl (mh o a k) (h : purge = true ∧ unl = true) : Blk purge old new unl (rxDpl mh o a k)
  | rxPV (o) (h : purge = true ∧ unl = true) : Blk purge old new unl (rxPV o)
  | idB : Blk purge old new unl id
  | whenReg (o slot v f) : Blk purge old new unl f → Blk purge old new unl (whenReg o slot v f)

def Op.isPurge : Op → Bool
  | .purge _ => true
  | .gbcRx .. => true
  | .shbRx .. => true
  | .refresh _ => true
  | _ => false

/-- a frame reception handled by the code before repair C15-locte-update-under-lock -/
def Op.isUnl : Op → Bool
  | .gbcRx _ _ _ lk _ _ => !lk
  | .shbRx _ _ lk _ => !lk
  | _ => false

/-- a GeoUnicast request handled by the code before the LS-order commit -/
def Op.isOld : Op → Bool
  | .guc _ _ _ fx => !fx
  | .lsReply _ _ _ fx => !fx
  | _ => false

def Op.isNew : Op → Bool
  | .guc _ _ _ fx => fx
  | .lsReply _ _ _ fx => fx
  | _ => false

theorem mem_blocksOf_replicate (k : Nat) (p : List (Instr St)) (f : St → St)
    (h : f ∈ blocksOf (List.replicate k p).flatten) : f ∈ blocksOf p := by
  obtain ⟨q, hq, hf⟩ := mem_blocksOf_flatten _ f h
  rw [List.mem_replicate] at hq
  rw [← hq.2]; exact hf

theorem sendLsReq_blocks (p q n u : Bool) (o d : Nat) (store : St → St) (hs : Blk p q n u store) (f : St → St)
    (h : f ∈ blocksOf ((sendLsReq o d store).map TI.erase)) : Blk p q n u f := by
  simp only [sendLsReq, tsect, List.map_append, List.map_cons, List.map_nil, TI.erase, List.cons_append,
    List.nil_append, blocksOf, List.mem_cons, List.not_mem_nil, or_false] at h
  rcases h with rfl | rfl | rfl | rfl | rfl
  · exact .whenReg _ _ _ _ (.readEgo _)
  · exact .whenReg _ _ _ _ (.getSN _)
  · exact .whenReg _ _ _ _ (.sendPkt _ _ _ _ (by decide))
  · exact .whenReg _ _ _ _ (.timerStart _)
  · exact .whenReg _ _ _ _ hs

theorem gucBody_blocks (p q n u : Bool) (o d : Nat) (fx : Bool) (hq : fx = false → q = true) (hn : fx = true → n = true)
    (f : St → St) (h : f ∈ blocksOf ((gucBody o d fx).map TI.erase)) : Blk p q n u f := by
  have hreg : Blk p q n u (lsRegisterOrQueue fx o d) := .lsRegisterOrQueue _ _ _ ⟨hq, hn⟩
  simp only [gucBody, List.map_append, blocksOf_append, List.mem_append] at h
  rcases h with (((h | h) | h) | h) | h
  · simp [tsect, TI.erase, blocksOf] at h
    subst h; exact .whenReg _ _ _ _ (.gucLookup _ _ _)
  · simp [tsect, TI.erase, blocksOf] at h
    subst h; exact .whenReg _ _ _ _ (.getSN _)
  · simp [TI.erase, blocksOf] at h
    rcases h with rfl | rfl
    · exact .whenReg _ _ _ _ (.readEgo _)
    · exact .whenReg _ _ _ _ (.gucSend _ _)
  · cases fx
    · simp [tsect2, TI.erase, blocksOf] at h
      rcases h with rfl | rfl
      · exact .whenReg _ _ _ _ hreg
      · exact .idB
    · simp [TI.erase, blocksOf] at h
      rcases h with rfl | rfl
      · exact .whenReg _ _ _ _ (.lsEnsure _)
      · exact .whenReg _ _ _ _ hreg
  · exact sendLsReq_blocks p q n u o d _ (.lsStoreTimer _ _) f h

theorem flushIter_blocks (p q n u : Bool) (o d : Nat) (fx : Bool) (k : Nat) (hq : fx = false → q = true)
    (hn : fx = true → n = true) (f : St → St) (h : f ∈ blocksOf ((flushIter o d fx k).map TI.erase)) : Blk p q n u f := by
  simp only [flushIter, List.map_append, blocksOf_append, List.mem_append] at h
  rcases h with h | h
  · simp [TI.erase, blocksOf] at h
    subst h; exact .lsFlushPick _ _
  · exact gucBody_blocks p q n u _ d fx hq hn f h

/-- every block of a compiled operation is one of the `Blk` forms -/
theorem rxProg_blocks (p q n u : Bool) (o a k : Nat) (mh lk : Bool) (exp : List Nat) (hp : p = true)
    (hu : lk = false → u = true) (f : St → St) (h : f ∈ blocksOf ((rxProg o a k mh lk exp).map TI.erase)) : Blk p q n u f := by
  cases lk
  · have hu' := hu rfl
    simp [rxProg, tsect, TI.erase, blocksOf] at h
    rcases h with rfl | rfl | rfl | rfl | rfl
    · exact .locTRefresh _ hp
    · exact .rxGetOrCreate _ _ ⟨hp, hu'⟩
    · exact .rxDpl _ _ _ _ ⟨hp, hu'⟩
    · exact .rxPV _ ⟨hp, hu'⟩
    · exact .whenReg _ _ _ _ (.locTRefresh _ hp)
  · simp [rxProg, tsect, TI.erase, blocksOf] at h
    rcases h with rfl | rfl | rfl | rfl
    · exact .locTRefresh _ hp
    · exact .rxRecv _ _ _ _ hp
    · exact .idB
    · exact .whenReg _ _ _ _ (.locTRefresh _ hp)

theorem compile_blocks (p q n u : Bool) (op : Op) (hp : op.isPurge = true → p = true) (hq : op.isOld = true → q = true)
    (hn : op.isNew = true → n = true) (hu : op.isUnl = true → u = true) (f : St → St) (h : f ∈ blocksOf (compile op)) : Blk p q n u f := by
  cases op with
  | sn o =>
    simp [compile, compileT, tsect, TI.erase, blocksOf] at h
    subst h; exact .getSN _
  | shb o =>
    simp [compile, compileT, TI.erase, blocksOf] at h
    rcases h with rfl | rfl
    · exact .readEgo _
    · exact .sendPkt _ _ _ _ (by decide)
  | gbc o =>
    simp [compile, compileT, tsect, TI.erase, blocksOf] at h
    rcases h with rfl | rfl | rfl
    · exact .getSN _
    · exact .readEgo _
    · exact .sendPkt _ _ _ _ (by decide)
  | ego v =>
    simp [compile, compileT, tsect, TI.erase, blocksOf] at h
    subst h; exact .egoSwap _
  | cbfArrive o k =>
    simp [compile, compileT, tsect2, TI.erase, blocksOf] at h
    rcases h with rfl | rfl | rfl
    · exact .cbfArrive _ _
    · exact .idB
    · exact .whenReg _ _ _ _ (.timerStart _)
  | gbcRx o a k lk disc exp =>
    simp only [compile, compileT, List.map_append, blocksOf_append, List.mem_append] at h
    rcases h with ((h | h) | h) | h
    · exact rxProg_blocks p q n u o a k true lk exp (hp rfl) (by intro hl; apply hu; simp [Op.isUnl, hl]) f h
    · simp [tsect2, TI.erase, blocksOf] at h
      rcases h with rfl | rfl
      · exact .whenReg _ _ _ _ (.cbfArrive _ _)
      · exact .idB
    · simp [TI.erase, blocksOf] at h
      subst h; exact .whenReg _ _ _ _ (.whenReg _ _ _ _ (.timerStart _))
    · cases disc
      · simp [blocksOf] at h
      · simp [tsect, TI.erase, blocksOf] at h
        rcases h with rfl | rfl
        · exact .whenReg _ _ _ _ (.cbfDiscard _ _)
        · exact .whenReg _ _ _ _ (.lsReplyCancel _)
  | cbfFire o k src =>
    simp [compile, compileT, tsect, TI.erase, blocksOf] at h
    rcases h with rfl | rfl | rfl
    · exact .timerCheck _ _
    · exact .whenReg _ _ _ _ (.cbfExpire _ _)
    · exact .whenReg _ _ _ _ (.cbfSend _ _)
  | guc o r d fx =>
    simp only [compile, compileT, List.map_append, blocksOf_append, List.mem_append] at h
    rcases h with h | h
    · simp [TI.erase, blocksOf] at h
      subst h; exact .gucInit _ _
    · exact gucBody_blocks p q n u o d fx (by intro hfx; apply hq; simp [Op.isOld, hfx])
        (by intro hfx; apply hn; simp [Op.isNew, hfx]) f h
  | lsReply o d cnt fx =>
    simp only [compile, compileT, List.map_append, blocksOf_append, List.mem_append] at h
    rcases h with ((h | h) | h) | h
    · simp [tsect, TI.erase, blocksOf] at h
      subst h; exact .loctLearn _
    · simp [tsect2, TI.erase, blocksOf] at h
      rcases h with rfl | rfl
      · exact .lsReplyPop _ _
      · exact .idB
    · simp [TI.erase, blocksOf] at h
      subst h; exact .whenReg _ _ _ _ (.lsReplyCancel _)
    · rw [List.map_flatten, List.map_map] at h
      obtain ⟨pr, hpr, hf⟩ := mem_blocksOf_flatten _ f h
      rw [List.mem_map] at hpr
      obtain ⟨k, _, rfl⟩ := hpr
      exact flushIter_blocks p q n u o d fx k (by intro hfx; apply hq; simp [Op.isOld, hfx])
        (by intro hfx; apply hn; simp [Op.isNew, hfx]) f hf
  | lsFire o d src mr =>
    simp only [compile, compileT, List.map_append, blocksOf_append, List.mem_append] at h
    rcases h with (h | h) | h
    · simp [TI.erase, blocksOf] at h
      subst h; exact .timerCheck _ _
    · simp [tsect2, TI.erase, blocksOf] at h
      rcases h with rfl | rfl
      · exact .whenReg _ _ _ _ (.lsRetransmitCheck _ _ _)
      · exact .idB
    · exact sendLsReq_blocks p q n u o d _ (.lsStoreTimer' _ _) f h
  | purge d =>
    simp [compile, compileT, tsect, TI.erase, blocksOf] at h
    subst h; exact .loctPurge _ (hp rfl)
  | shbRx o a lk exp =>
    simp only [compile, compileT] at h
    exact rxProg_blocks p q n u o a 0 false lk exp (hp rfl) (by intro hl; apply hu; simp [Op.isUnl, hl]) f h
  | refresh exp =>
    simp [compile, compileT, tsect, TI.erase, blocksOf] at h
    subst h; exact .locTRefresh _ (hp rfl)

/-- **Invariant rule for router systems**: a predicate preserved by every `Blk` form holds after any schedule -/
theorem router_inv (p q n u : Bool) (P : St → Prop) (threads : List (List Op))
    (hpurge : ∀ ops ∈ threads, ∀ op ∈ ops, op.isPurge = true → p = true)
    (hold : ∀ ops ∈ threads, ∀ op ∈ ops, op.isOld = true → q = true)
    (hnew : ∀ ops ∈ threads, ∀ op ∈ ops, op.isNew = true → n = true)
    (hunl : ∀ ops ∈ threads, ∀ op ∈ ops, op.isUnl = true → u = true)
    (h0 : P {}) (hB : ∀ f, Blk p q n u f → ∀ x, P x → P (f x)) (sched : List ThreadId) :
    P (run (sys threads) sched).sh := by
  apply inv_of_blocks P (sys threads) h0
  intro th hth f hf
  simp only [sys, mkSys, List.mem_map] at hth
  obtain ⟨prog, ⟨ops, hops, rfl⟩, rfl⟩ := hth
  simp only [threadProg] at hf
  obtain ⟨q', hq', hfq⟩ := mem_blocksOf_flatten _ f hf
  rw [List.mem_map] at hq'
  obtain ⟨op, hop, rfl⟩ := hq'
  exact hB f (compile_blocks p q n u op (hpurge ops hops op hop) (hold ops hops op hop) (hnew ops hops op hop) (hunl ops hops op hop) f hfq)

theorem whenReg_preserves (P : St → Prop) (o slot v : Nat) (f : St → St) (h : ∀ x, P x → P (f x)) :
    ∀ x, P x → P (whenReg o slot v f x) := by
  intro x hx
  unfold whenReg
  split
  · exact h x hx
  · exact hx

/-- fields not touched by the registration block -/
theorem lsReg_frame (fx : Bool) (o d : Nat) (x : St) :
    let y := lsRegisterOrQueue fx o d x
    y.sn = x.sn ∧ y.snLog = x.snLog ∧ y.ego = x.ego ∧ y.egoHist = x.egoHist ∧ y.sent = x.sent ∧ y.cbf = x.cbf ∧
    y.cbfIns = x.cbfIns ∧ y.cbfCan = x.cbfCan ∧ y.cbfCom = x.cbfCom ∧ y.cbfSent = x.cbfSent ∧ y.cbfPend = x.cbfPend ∧
    y.err = x.err ∧ (∀ o', y.reg o' 1 = x.reg o' 1) := by
  simp only [lsRegisterOrQueue, lsRegCore]
  repeat' split
  all_goals (refine ⟨rfl, rfl, rfl, rfl, rfl, rfl, rfl, rfl, rfl, rfl, rfl, rfl, ?_⟩; intro o'; simp [upd2])

theorem gucSend_frame (o d : Nat) (x : St) :
    let y := gucSend o d x
    y.sn = x.sn ∧ y.snLog = x.snLog ∧ y.ego = x.ego ∧ y.egoHist = x.egoHist ∧ y.cbf = x.cbf ∧
    y.cbfIns = x.cbfIns ∧ y.cbfCan = x.cbfCan ∧ y.cbfCom = x.cbfCom ∧ y.cbfSent = x.cbfSent ∧ y.cbfPend = x.cbfPend ∧
    y.err = x.err ∧ y.reg = x.reg ∧ (y.sent = x.sent ∨ y.sent = ⟨2, x.reg o 6, x.reg o 0, x.reg o 1⟩ :: x.sent) := by
  simp only [gucSend]
  repeat' split
  all_goals simp

theorem lsReg_core_fields (fx : Bool) (o d : Nat) (x : St) :
    let y := lsRegisterOrQueue fx o d x
    let t := lsRegCore fx o (x.reg o 6) d x
    (y.loct = x.loct ∧ y.pending = x.pending ∧ y.lsBuf = x.lsBuf ∧ y.lsCnt = x.lsCnt ∧ y.lsLost = x.lsLost) ∨
    (y.loct = t.loct ∧ y.pending = t.pending ∧ y.lsBuf = t.lsBuf ∧ y.lsCnt = t.lsCnt ∧ y.lsLost = t.lsLost) := by
  simp only [lsRegisterOrQueue]
  repeat' split
  all_goals simp

/-! ## blocks that only touch the location table, the LocTE objects and the duplicate-detection ghosts -/

/-- `y` differs from `x` at most in the location table, the LocTE objects, `pending`, the duplicate-detection ghosts and
registers other than the position-vector register -/
def SameCore (x y : St) : Prop :=
  y.sn = x.sn ∧ y.snLog = x.snLog ∧ y.ego = x.ego ∧ y.egoHist = x.egoHist ∧ y.sent = x.sent ∧ y.cbf = x.cbf ∧
  y.cbfIns = x.cbfIns ∧ y.cbfCan = x.cbfCan ∧ y.cbfCom = x.cbfCom ∧ y.cbfSent = x.cbfSent ∧ y.cbfPend = x.cbfPend ∧
  y.err = x.err ∧ (∀ o', y.reg o' 1 = x.reg o' 1) ∧ y.lsQueued = x.lsQueued ∧ y.lsBuf = x.lsBuf ∧ y.lsFlight = x.lsFlight ∧
  y.lsSent = x.lsSent ∧ y.lsDropped = x.lsDropped ∧ y.lsLost = x.lsLost ∧ y.lsCnt = x.lsCnt ∧ y.lsPops = x.lsPops

theorem SameCore.refl (x : St) : SameCore x x :=
  ⟨rfl, rfl, rfl, rfl, rfl, rfl, rfl, rfl, rfl, rfl, rfl, rfl, fun _ => rfl, rfl, rfl, rfl, rfl, rfl, rfl, rfl, rfl⟩

theorem SameCore.trans {x y z : St} (h1 : SameCore x y) (h2 : SameCore y z) : SameCore x z := by
  obtain ⟨a1, a2, a3, a4, a5, a6, a7, a8, a9, a10, a11, a12, a13, a14, a15, a16, a17, a18, a19, a20, a21⟩ := h1
  obtain ⟨b1, b2, b3, b4, b5, b6, b7, b8, b9, b10, b11, b12, b13, b14, b15, b16, b17, b18, b19, b20, b21⟩ := h2
  exact ⟨b1.trans a1, b2.trans a2, b3.trans a3, b4.trans a4, b5.trans a5, b6.trans a6, b7.trans a7, b8.trans a8,
    b9.trans a9, b10.trans a10, b11.trans a11, b12.trans a12, fun o => (b13 o).trans (a13 o), b14.trans a14, b15.trans a15,
    b16.trans a16, b17.trans a17, b18.trans a18, b19.trans a19, b20.trans a20, b21.trans a21⟩

theorem newEntry_core (a : Nat) (x : St) : SameCore x (newEntry a x) := SameCore.refl x

theorem lsEnsure_core (d : Nat) (x : St) : SameCore x (lsEnsure d x) := by
  unfold lsEnsure lsFlag lsEnsure0; split
  · exact SameCore.refl x
  · exact newEntry_core d x

theorem loctLearn_core (d : Nat) (x : St) : SameCore x (loctLearn d x) := by
  unfold loctLearn; split <;> exact SameCore.refl x

theorem locTRefresh_core (exp : List Nat) (x : St) : SameCore x (locTRefresh exp x) := SameCore.refl x

theorem loctPurge_core (d : Nat) (x : St) : SameCore x (loctPurge d x) := SameCore.refl x

theorem rxGetOrCreate_core (o a : Nat) (x : St) : SameCore x (rxGetOrCreate o a x) := by
  unfold rxGetOrCreate
  split <;>
    exact ⟨rfl, rfl, rfl, rfl, rfl, rfl, rfl, rfl, rfl, rfl, rfl, rfl, fun o' => by simp [upd2], rfl, rfl, rfl, rfl, rfl, rfl, rfl, rfl⟩

theorem rxDpl_core (mh : Bool) (o a k : Nat) (x : St) : SameCore x (rxDpl mh o a k x) := by
  simp only [rxDpl, dplOn]
  repeat' split
  all_goals
    exact ⟨rfl, rfl, rfl, rfl, rfl, rfl, rfl, rfl, rfl, rfl, rfl, rfl, fun o' => by simp [upd2], rfl, rfl, rfl, rfl, rfl, rfl, rfl, rfl⟩

theorem rxPV_core (o : Nat) (x : St) : SameCore x (rxPV o x) := by
  unfold rxPV; split <;> exact SameCore.refl x

theorem rxRecv_core (mh : Bool) (o a k : Nat) (x : St) : SameCore x (rxRecv mh o a k x) :=
  ((rxGetOrCreate_core o a x).trans (rxDpl_core mh o a k _)).trans (rxPV_core o _)

/-! ## sequence numbers -/

def SnInv (s : St) : Prop :=
  s.sn = s.snLog.length % M ∧ ∀ i, i < s.snLog.length → s.snLog[i]? = some ((s.snLog.length - i) % M)

theorem getSN_SnInv (o : Nat) (x : St) (h : SnInv x) : SnInv (getSN o x) := by
  obtain ⟨h1, h2⟩ := h
  simp only [SnInv, getSN, List.length_cons]
  refine ⟨by rw [h1]; simp only [M]; omega, ?_⟩
  intro i hi
  cases i with
  | zero => simp [M]; rw [h1]; simp only [M]; omega
  | succ j =>
    simp only [List.getElem?_cons_succ]
    rw [h2 j (by omega)]
    congr 2
    omega

theorem SnInv_core {x y : St} (h : SameCore x y) (hx : SnInv x) : SnInv y := by
  obtain ⟨e1, e2, _⟩ := h
  simp only [SnInv] at *
  rw [e1, e2]; exact hx

theorem SnInv_blk (p q n u : Bool) (f : St → St) (hf : Blk p q n u f) : ∀ x, SnInv x → SnInv (f x) := by
  induction hf with
  | getSN o => exact getSN_SnInv o
  | lsRegisterOrQueue fx o d _ =>
    intro x h
    obtain ⟨h1, h2, _⟩ := lsReg_frame fx o d x
    simp only [SnInv] at *
    rw [h1, h2]; exact h
  | gucSend o d =>
    intro x h
    obtain ⟨h1, h2, _⟩ := gucSend_frame o d x
    simp only [SnInv] at *
    rw [h1, h2]; exact h
  | whenReg o slot v f _ ih => exact whenReg_preserves _ o slot v f ih
  | idB => exact fun x h => h
  | lsEnsure d => exact fun x h => SnInv_core (lsEnsure_core d x) h
  | loctLearn d => exact fun x h => SnInv_core (loctLearn_core d x) h
  | locTRefresh exp _ => exact fun x h => SnInv_core (locTRefresh_core exp x) h
  | loctPurge d _ => exact fun x h => SnInv_core (loctPurge_core d x) h
  | rxRecv mh o a k _ => exact fun x h => SnInv_core (rxRecv_core mh o a k x) h
  | rxGetOrCreate o a _ => exact fun x h => SnInv_core (rxGetOrCreate_core o a x) h
  | rxDpl mh o a k _ => exact fun x h => SnInv_core (rxDpl_core mh o a k x) h
  | rxPV o _ => exact fun x h => SnInv_core (rxPV_core o x) h
  | _ =>
    intro x h
    first
      | exact h
      | (simp only [readEgo, egoSwap, sendPkt, timerStart, timerCheck, gucLookup, gucInit, lsStoreTimer, lsStoreTimer', loctLearn, lsEnsure,
          lsReplyPop, lsReplyCancel, loctPurge]; exact h)
      | (simp only [cbfArrive, cbfExpire, cbfSend, cbfDiscard, lsRetransmitCheck, lsFlushPick]
         split <;> exact h)

/-! ## CBF conservation -/

def cbfPkts (s : St) (k : Nat) : Nat := (s.sent.filter (fun p => p.kind == 4 && p.ref == k)).length

def CbfInv (s : St) : Prop :=
  ∀ k, s.cbfIns k = s.cbfCan k + s.cbfCom k + (if s.cbf k then 1 else 0) ∧ s.cbfCom k = s.cbfSent k + s.cbfPend k
    ∧ cbfPkts s k = s.cbfSent k

theorem cbfArrive_CbfInv (o k' : Nat) (x : St) (h : CbfInv x) : CbfInv (cbfArrive o k' x) := by
  intro k
  obtain ⟨h1, h2, h3⟩ := h k
  unfold cbfArrive cbfDel
  by_cases hk : k = k'
  · subst hk
    split <;> rename_i hc <;> simp [cbfPkts, hc] at * <;> omega
  · split <;> simp [cbfPkts, upd, hk, *] at * <;> omega

theorem cbfExpire_CbfInv (o k' : Nat) (x : St) (h : CbfInv x) : CbfInv (cbfExpire o k' x) := by
  intro k
  obtain ⟨h1, h2, h3⟩ := h k
  unfold cbfExpire cbfDel
  by_cases hk : k = k'
  · subst hk
    split <;> rename_i hc <;> simp [cbfPkts, hc] at * <;> omega
  · split <;> simp [cbfPkts, upd, hk, *] at * <;> omega

theorem cbfDiscard_CbfInv (o k' : Nat) (x : St) (h : CbfInv x) : CbfInv (cbfDiscard o k' x) := by
  intro k
  obtain ⟨h1, h2, h3⟩ := h k
  unfold cbfDiscard
  by_cases hk : k = k'
  · subst hk
    split <;> rename_i hc <;> simp [cbfPkts, hc] at * <;> omega
  · split <;> simp [cbfPkts, upd, hk] at * <;> omega

theorem cbfSend_CbfInv (o k' : Nat) (x : St) (h : CbfInv x) : CbfInv (cbfSend o k' x) := by
  intro k
  obtain ⟨h1, h2, h3⟩ := h k
  unfold cbfSend
  by_cases hk : k = k'
  · subst hk
    split <;> rename_i hc <;> simp [cbfPkts, List.filter_cons] at * <;> omega
  · have hk' : ¬ k' = k := fun e => hk e.symm
    split <;> simp [cbfPkts, upd, hk, hk', List.filter_cons] at * <;> omega

theorem sendPkt_CbfInv (o kind ref : Nat) (b : Bool) (hk : kind < 4) (x : St) (h : CbfInv x) :
    CbfInv (sendPkt o kind ref b x) := by
  intro k
  have hne : (kind == 4) = false := by simp; omega
  obtain ⟨h1, h2, h3⟩ := h k
  refine ⟨h1, h2, ?_⟩
  simp only [cbfPkts] at h3 ⊢
  simp only [sendPkt, List.filter_cons, hne, Bool.false_and]
  exact h3

theorem gucSend_CbfInv (o d : Nat) (x : St) (h : CbfInv x) : CbfInv (gucSend o d x) := by
  intro k
  obtain ⟨_, _, _, _, e1, e2, e3, e4, e5, e6, _, _, hs⟩ := gucSend_frame o d x
  obtain ⟨h1, h2, h3⟩ := h k
  simp only [cbfPkts] at h3 ⊢
  rw [e1, e2, e3, e4, e5, e6]
  refine ⟨h1, h2, ?_⟩
  rcases hs with hs | hs
  · rw [hs]; exact h3
  · rw [hs]; simp only [List.filter_cons]; exact h3

theorem lsReg_CbfInv (fx : Bool) (o d : Nat) (x : St) (h : CbfInv x) : CbfInv (lsRegisterOrQueue fx o d x) := by
  intro k
  obtain ⟨_, _, _, _, e0, e1, e2, e3, e4, e5, e6, _, _⟩ := lsReg_frame fx o d x
  obtain ⟨h1, h2, h3⟩ := h k
  simp only [cbfPkts] at h3 ⊢
  rw [e0, e1, e2, e3, e4, e5, e6]
  exact ⟨h1, h2, h3⟩

theorem CbfInv_core {x y : St} (h : SameCore x y) (hx : CbfInv x) : CbfInv y := by
  obtain ⟨_, _, _, _, e5, e6, e7, e8, e9, e10, e11, _⟩ := h
  intro k
  simp only [cbfPkts]
  rw [e5, e6, e7, e8, e9, e10, e11]
  exact hx k

theorem CbfInv_blk (p q n u : Bool) (f : St → St) (hf : Blk p q n u f) : ∀ x, CbfInv x → CbfInv (f x) := by
  induction hf with
  | cbfArrive o k => exact cbfArrive_CbfInv o k
  | cbfExpire o k => exact cbfExpire_CbfInv o k
  | cbfSend o k => exact cbfSend_CbfInv o k
  | cbfDiscard o k => exact cbfDiscard_CbfInv o k
  | sendPkt o kind ref b h => exact sendPkt_CbfInv o kind ref b h
  | gucSend o d => exact gucSend_CbfInv o d
  | lsRegisterOrQueue fx o d _ => exact lsReg_CbfInv fx o d
  | whenReg o slot v f _ ih => exact whenReg_preserves _ o slot v f ih
  | idB => exact fun x h => h
  | lsEnsure d => exact fun x h => CbfInv_core (lsEnsure_core d x) h
  | loctLearn d => exact fun x h => CbfInv_core (loctLearn_core d x) h
  | locTRefresh exp _ => exact fun x h => CbfInv_core (locTRefresh_core exp x) h
  | loctPurge d _ => exact fun x h => CbfInv_core (loctPurge_core d x) h
  | rxRecv mh o a k _ => exact fun x h => CbfInv_core (rxRecv_core mh o a k x) h
  | rxGetOrCreate o a _ => exact fun x h => CbfInv_core (rxGetOrCreate_core o a x) h
  | rxDpl mh o a k _ => exact fun x h => CbfInv_core (rxDpl_core mh o a k x) h
  | rxPV o _ => exact fun x h => CbfInv_core (rxPV_core o x) h
  | _ =>
    intro x h
    first
      | exact h
      | (simp only [getSN, readEgo, egoSwap, timerStart, timerCheck, gucLookup, gucInit, lsStoreTimer, lsStoreTimer', loctLearn, lsEnsure,
          lsReplyPop, lsReplyCancel, loctPurge]; exact h)
      | (simp only [lsRetransmitCheck, lsFlushPick]
         split <;> exact h)

/-! ## position vectors, exceptions -/

theorem upd2_slot_ne (f : Nat → Nat → Nat) (o k v i j : Nat) (h : j ≠ k) : upd2 f o k v i j = f i j := by
  simp [upd2, h]

def PvInv (s : St) : Prop :=
  s.ego ∈ s.egoHist ∧ 0 ∈ s.egoHist ∧ (∀ o, s.reg o 1 ∈ s.egoHist) ∧ ∀ p ∈ s.sent, p.pv ∈ s.egoHist

def ErrInv (s : St) : Prop := s.err = 0

theorem ErrInv_core {x y : St} (h : SameCore x y) (hx : ErrInv x) : ErrInv y := by
  have e := h.2.2.2.2.2.2.2.2.2.2.2.1
  simp only [ErrInv] at *
  rw [e]; exact hx

theorem ErrInv_blk (p q n u : Bool) (f : St → St) (hf : Blk p q n u f) : ∀ x, ErrInv x → ErrInv (f x) := by
  induction hf with
  | whenReg o slot v f _ ih => exact whenReg_preserves _ o slot v f ih
  | idB => exact fun x h => h
  | lsRegisterOrQueue fx o d _ =>
    intro x h
    have := (lsReg_frame fx o d x).2.2.2.2.2.2.2.2.2.2.2.1
    simp only [ErrInv] at *; rw [this]; exact h
  | gucSend o d =>
    intro x h
    have := (gucSend_frame o d x).2.2.2.2.2.2.2.2.2.2.1
    simp only [ErrInv] at *; rw [this]; exact h
  | cbfExpire o k =>
    -- `del` cannot raise: the same block has just seen the key (`hc`)
    intro x h
    unfold cbfExpire cbfDel
    split
    · rename_i hc; simp [ErrInv, hc] at *; exact h
    · exact h
  | cbfArrive o k =>
    -- `pop(key)` cannot raise: the same block has just seen the key (`hc`)
    intro x h
    unfold cbfArrive cbfDel
    split
    · rename_i hc; simp [ErrInv, hc] at *; exact h
    · exact h
  | lsEnsure d => exact fun x h => ErrInv_core (lsEnsure_core d x) h
  | loctLearn d => exact fun x h => ErrInv_core (loctLearn_core d x) h
  | locTRefresh exp _ => exact fun x h => ErrInv_core (locTRefresh_core exp x) h
  | loctPurge d _ => exact fun x h => ErrInv_core (loctPurge_core d x) h
  | rxRecv mh o a k _ => exact fun x h => ErrInv_core (rxRecv_core mh o a k x) h
  | rxGetOrCreate o a _ => exact fun x h => ErrInv_core (rxGetOrCreate_core o a x) h
  | rxDpl mh o a k _ => exact fun x h => ErrInv_core (rxDpl_core mh o a k x) h
  | rxPV o _ => exact fun x h => ErrInv_core (rxPV_core o x) h
  | _ =>
    intro x h
    first
      | exact h
      | (simp only [getSN, readEgo, egoSwap, sendPkt, timerStart, timerCheck, gucLookup, gucInit, lsStoreTimer, lsStoreTimer', loctLearn, lsEnsure,
          lsReplyPop, lsReplyCancel, loctPurge]; exact h)
      | (simp only [cbfArrive, cbfSend, cbfDiscard, lsRetransmitCheck, lsFlushPick]
         split <;> exact h)

theorem PvInv_core {x y : St} (h : SameCore x y) (hx : PvInv x) : PvInv y := by
  obtain ⟨_, _, e3, e4, e5, _, _, _, _, _, _, _, e13, _⟩ := h
  obtain ⟨h1, h2, h3, h4⟩ := hx
  simp only [PvInv]
  rw [e3, e4, e5]
  exact ⟨h1, h2, fun o => by rw [e13 o]; exact h3 o, h4⟩

theorem PvInv_blk (p q n u : Bool) (f : St → St) (hf : Blk p q n u f) : ∀ x, PvInv x → PvInv (f x) := by
  induction hf with
  | whenReg o slot v f _ ih => exact whenReg_preserves _ o slot v f ih
  | idB => exact fun x h => h
  | readEgo o =>
    intro x ⟨h1, h2, h3, h4⟩
    refine ⟨h1, h2, ?_, h4⟩
    intro o'
    simp only [readEgo, upd2]
    split
    · exact h1
    · exact h3 o'
  | egoSwap v =>
    intro x ⟨h1, h2, h3, h4⟩
    simp only [PvInv, egoSwap]
    exact ⟨by simp, List.mem_cons_of_mem _ h2, fun o => List.mem_cons_of_mem _ (h3 o),
      fun p hp => List.mem_cons_of_mem _ (h4 p hp)⟩
  | sendPkt o kind ref b _ =>
    intro x ⟨h1, h2, h3, h4⟩
    refine ⟨h1, h2, h3, ?_⟩
    intro p hp
    simp only [sendPkt, List.mem_cons] at hp
    rcases hp with rfl | hp
    · exact h3 o
    · exact h4 p hp
  | cbfSend o k =>
    intro x ⟨h1, h2, h3, h4⟩
    unfold cbfSend
    split
    · refine ⟨h1, h2, ?_, ?_⟩
      · intro o'; simp only [upd2_slot_ne _ _ _ _ _ _ (by decide : (1:Nat) ≠ 2)]; exact h3 o'
      · intro p hp
        simp only [List.mem_cons] at hp
        rcases hp with rfl | hp
        · exact h2
        · exact h4 p hp
    · exact ⟨h1, h2, h3, h4⟩
  | gucSend o d =>
    intro x ⟨h1, h2, h3, h4⟩
    obtain ⟨_, _, e1, e2, _, _, _, _, _, _, _, e3, hs⟩ := gucSend_frame o d x
    simp only [PvInv]
    rw [e1, e2, e3]
    refine ⟨h1, h2, h3, ?_⟩
    intro p hp
    rcases hs with hs | hs
    · rw [hs] at hp; exact h4 p hp
    · rw [hs] at hp
      simp only [List.mem_cons] at hp
      rcases hp with rfl | hp
      · exact h3 o
      · exact h4 p hp
  | lsRegisterOrQueue fx o d _ =>
    intro x ⟨h1, h2, h3, h4⟩
    obtain ⟨_, _, e1, e2, e3, _, _, _, _, _, _, _, e4⟩ := lsReg_frame fx o d x
    simp only [PvInv]
    rw [e1, e2, e3]
    exact ⟨h1, h2, fun o' => by rw [e4 o']; exact h3 o', h4⟩
  | lsEnsure d => exact fun x h => PvInv_core (lsEnsure_core d x) h
  | loctLearn d => exact fun x h => PvInv_core (loctLearn_core d x) h
  | locTRefresh exp _ => exact fun x h => PvInv_core (locTRefresh_core exp x) h
  | loctPurge d _ => exact fun x h => PvInv_core (loctPurge_core d x) h
  | rxRecv mh o a k _ => exact fun x h => PvInv_core (rxRecv_core mh o a k x) h
  | rxGetOrCreate o a _ => exact fun x h => PvInv_core (rxGetOrCreate_core o a x) h
  | rxDpl mh o a k _ => exact fun x h => PvInv_core (rxDpl_core mh o a k x) h
  | rxPV o _ => exact fun x h => PvInv_core (rxPV_core o x) h
  | _ =>
    intro x ⟨h1, h2, h3, h4⟩
    first
      | exact ⟨h1, h2, h3, h4⟩
      | (simp only [getSN, timerStart, timerCheck, gucLookup, gucInit, lsStoreTimer, lsStoreTimer', loctLearn, lsEnsure,
          lsReplyPop, lsReplyCancel, loctPurge]
         refine ⟨h1, h2, ?_, h4⟩
         intro o'
         first
          | exact h3 o'
          | (simp only [upd2]; repeat' split
             all_goals first | exact h3 o' | omega))
      | (simp only [cbfArrive, cbfExpire, cbfDiscard, lsRetransmitCheck, lsFlushPick]
         split <;> (
           refine ⟨h1, h2, ?_, h4⟩
           intro o'
           first
            | exact h3 o'
            | (simp only [upd2]; repeat' split
               all_goals first | exact h3 o' | omega)))

/-! ## location service -/

def LsInv (s : St) : Prop :=
  ∀ d r, (s.lsQueued d).count r =
    (s.lsBuf d).count r + (s.lsFlight d).count r + (s.lsSent d).count r + (s.lsDropped d).count r + (s.lsLost d).count r

/-- no request is lost – invariant A (any registration variant, no purge of LocT entries):
no lookup pending ⇒ nothing buffered -/
def LsNoLossA (s : St) : Prop := ∀ d, ((s.loct d && s.pending d) = false → s.lsBuf d = []) ∧ s.lsLost d = []

/-- invariant B (registration recognises a running lookup by its retransmit counter; LocT entries may be purged):
no counter ⇒ nothing buffered; an entry that does not exist is not pending.  ("pending ⇒ counter" holds only while
`_ls_lock` is free – the flag is stored by the nested `loc_t_lock` section before the counter – and is not needed.) -/
def LsNoLossB (s : St) : Prop :=
  ∀ d, (s.lsCnt d = none → s.lsBuf d = []) ∧ (s.loct d = false → s.pending d = false) ∧ s.lsLost d = []

/-- the registration core on the ghost-free LS fields, as counts -/
theorem lsRegCore_counts (fx : Bool) (o r' d' : Nat) (x : St) (d r : Nat) :
    let t := lsRegCore fx o r' d' x
    (t.lsBuf d).count r + (t.lsLost d).count r =
      (x.lsBuf d).count r + (x.lsLost d).count r + (if d = d' ∧ r' = r then 1 else 0) ∧
    t.lsFlight = x.lsFlight ∧ t.lsSent = x.lsSent ∧ t.lsDropped = x.lsDropped ∧ t.lsQueued = x.lsQueued := by
  simp only [lsRegCore]
  by_cases hd : d = d'
  · subst hd
    split <;> (refine ⟨?_, rfl, rfl, rfl, rfl⟩; simp [List.count_append, List.count_cons]; split <;> simp_all <;> omega)
  · split <;> (refine ⟨?_, rfl, rfl, rfl, rfl⟩; simp [upd, hd])

theorem LsInv_core {x y : St} (h : SameCore x y) (hx : LsInv x) : LsInv y := by
  obtain ⟨_, _, _, _, _, _, _, _, _, _, _, _, _, e14, e15, e16, e17, e18, e19, _⟩ := h
  intro d r
  rw [e14, e15, e16, e17, e18, e19]
  exact hx d r

theorem LsInv_blk (p q n u : Bool) (f : St → St) (hf : Blk p q n u f) : ∀ x, LsInv x → LsInv (f x) := by
  induction hf with
  | whenReg o slot v f _ ih => exact whenReg_preserves _ o slot v f ih
  | idB => exact fun x h => h
  | lsRegisterOrQueue fx o d' _ =>
    intro x h d r
    have hx := h d r
    simp only [lsRegisterOrQueue]
    obtain ⟨hc, e1, e2, e3, e4⟩ := lsRegCore_counts fx o (x.reg o 6) d' x d r
    split
    · split
      · rename_i hm
        simp only
        rw [e2, e3, e4]
        by_cases hd : d = d'
        · subst hd
          simp only [upd_self, e1]
          by_cases hr : x.reg o 6 = r
          · subst hr
            have hpos : 0 < (x.lsFlight d).count (x.reg o 6) := List.count_pos_iff.mpr hm
            simp only [List.count_erase_self]
            simp only [true_and, if_true] at hc
            omega
          · have hr' : ¬ (r = x.reg o 6) := fun e => hr e.symm
            simp only [List.count_erase_of_ne hr']
            simp only [hr, and_false, if_false] at hc
            omega
        · simp only [upd, hd, if_false, e1]
          simp only [hd, false_and, if_false] at hc
          omega
      · exact hx
    · simp only
      rw [e1, e2, e3]
      by_cases hd : d = d'
      · subst hd
        simp only [upd_self, e4, List.count_cons]
        by_cases hr : x.reg o 6 = r
        · subst hr
          simp only [true_and, if_true, beq_self_eq_true] at hc ⊢
          omega
        · have hb : (x.reg o 6 == r) = false := by simpa using hr
          simp only [hr, and_false, if_false] at hc
          simp only [hb, Bool.false_eq_true, if_false]
          omega
      · simp only [upd, hd, if_false, e4]
        simp only [hd, false_and, if_false] at hc
        omega
  | gucSend o d' =>
    intro x h d r
    have hx := h d r
    simp only [gucSend]
    split
    · split
      · rename_i hm
        by_cases hd : d = d'
        · subst hd
          simp only [upd_self, List.count_cons]
          by_cases hr : x.reg o 6 = r
          · subst hr
            have hpos : 0 < (x.lsFlight d).count (x.reg o 6) := List.count_pos_iff.mpr hm
            simp only [List.count_erase_self, beq_self_eq_true, if_true]
            omega
          · have hr' : ¬ (r = x.reg o 6) := fun e => hr e.symm
            have hb : (x.reg o 6 == r) = false := by simpa using hr
            simp only [List.count_erase_of_ne hr', hb, Bool.false_eq_true, if_false]
            omega
        · simp only [upd, hd, if_false]; exact hx
      · exact hx
    · exact hx
  | lsRetransmitCheck mr o d' =>
    intro x h d r
    have := h d r
    simp only [lsRetransmitCheck]
    by_cases hd : d = d'
    · subst hd
      split <;> simp [List.count_append] at * <;> omega
    · split <;> simp [upd, hd] at * <;> omega
  | lsReplyPop o d' =>
    intro x h d r
    have := h d r
    simp only [lsReplyPop]
    by_cases hd : d = d'
    · subst hd
      simp [List.count_append] at * ; omega
    · simp [upd, hd] at * ; omega
  | lsEnsure d => exact fun x h => LsInv_core (lsEnsure_core d x) h
  | loctLearn d => exact fun x h => LsInv_core (loctLearn_core d x) h
  | locTRefresh exp _ => exact fun x h => LsInv_core (locTRefresh_core exp x) h
  | loctPurge d _ => exact fun x h => LsInv_core (loctPurge_core d x) h
  | rxRecv mh o a k _ => exact fun x h => LsInv_core (rxRecv_core mh o a k x) h
  | rxGetOrCreate o a _ => exact fun x h => LsInv_core (rxGetOrCreate_core o a x) h
  | rxDpl mh o a k _ => exact fun x h => LsInv_core (rxDpl_core mh o a k x) h
  | rxPV o _ => exact fun x h => LsInv_core (rxPV_core o x) h
  | _ =>
    intro x h
    first
      | exact h
      | (simp only [getSN, readEgo, egoSwap, sendPkt, timerStart, timerCheck, gucLookup, gucInit, lsStoreTimer, lsStoreTimer', loctLearn,
          lsEnsure, lsReplyCancel, loctPurge]; exact h)
      | (simp only [cbfArrive, cbfExpire, cbfSend, cbfDiscard, lsFlushPick]
         split <;> exact h)
/-! "sent after the reply": a buffered request is in flight or counted as sent only after a reply block ran -/

def LsAfter (s : St) : Prop := ∀ d, (s.lsFlight d ≠ [] ∨ s.lsSent d ≠ []) → 0 < s.lsPops d

theorem LsAfter_core {x y : St} (h : SameCore x y) (hx : LsAfter x) : LsAfter y := by
  obtain ⟨_, _, _, _, _, _, _, _, _, _, _, _, _, _, _, e16, e17, _, _, _, e21⟩ := h
  intro d
  rw [e16, e17, e21]
  exact hx d

theorem erase_ne_nil {l : List Nat} {r : Nat} (h : l.erase r ≠ []) : l ≠ [] := by
  intro e; rw [e] at h; exact h rfl

theorem gucSend_ls (o d : Nat) (x : St) :
    let y := gucSend o d x
    (y.lsFlight = x.lsFlight ∧ y.lsSent = x.lsSent ∧ y.lsPops = x.lsPops) ∨
    (x.reg o 6 ∈ x.lsFlight d ∧ y.lsFlight = upd x.lsFlight d ((x.lsFlight d).erase (x.reg o 6)) ∧
      y.lsSent = upd x.lsSent d (x.reg o 6 :: x.lsSent d) ∧ y.lsPops = x.lsPops) := by
  simp only [gucSend]
  split
  · split
    · rename_i hm; exact Or.inr ⟨hm, rfl, rfl, rfl⟩
    · exact Or.inl ⟨rfl, rfl, rfl⟩
  · exact Or.inl ⟨rfl, rfl, rfl⟩

theorem lsReg_ls (fx : Bool) (o d : Nat) (x : St) :
    let y := lsRegisterOrQueue fx o d x
    (y.lsFlight = x.lsFlight ∧ y.lsSent = x.lsSent ∧ y.lsPops = x.lsPops) ∨
    (x.reg o 6 ∈ x.lsFlight d ∧ y.lsFlight = upd x.lsFlight d ((x.lsFlight d).erase (x.reg o 6)) ∧
      y.lsSent = x.lsSent ∧ y.lsPops = x.lsPops) := by
  have hfr : (lsRegCore fx o (x.reg o 6) d x).lsFlight = x.lsFlight ∧ (lsRegCore fx o (x.reg o 6) d x).lsSent = x.lsSent ∧
      (lsRegCore fx o (x.reg o 6) d x).lsPops = x.lsPops := by
    simp only [lsRegCore]; split <;> exact ⟨rfl, rfl, rfl⟩
  simp only [lsRegisterOrQueue]
  split
  · split
    · rename_i hm
      refine Or.inr ⟨hm, ?_, hfr.2.1, hfr.2.2⟩
      simp only [hfr.1]
    · exact Or.inl ⟨rfl, rfl, rfl⟩
  · exact Or.inl hfr

theorem LsAfter_blk (p q n u : Bool) (f : St → St) (hf : Blk p q n u f) : ∀ x, LsAfter x → LsAfter (f x) := by
  induction hf with
  | whenReg o slot v f _ ih => exact whenReg_preserves _ o slot v f ih
  | idB => exact fun x h => h
  | lsEnsure d => exact fun x h => LsAfter_core (lsEnsure_core d x) h
  | loctLearn d => exact fun x h => LsAfter_core (loctLearn_core d x) h
  | locTRefresh exp _ => exact fun x h => LsAfter_core (locTRefresh_core exp x) h
  | loctPurge d _ => exact fun x h => LsAfter_core (loctPurge_core d x) h
  | rxRecv mh o a k _ => exact fun x h => LsAfter_core (rxRecv_core mh o a k x) h
  | rxGetOrCreate o a _ => exact fun x h => LsAfter_core (rxGetOrCreate_core o a x) h
  | rxDpl mh o a k _ => exact fun x h => LsAfter_core (rxDpl_core mh o a k x) h
  | rxPV o _ => exact fun x h => LsAfter_core (rxPV_core o x) h
  | lsReplyPop o d' =>
    intro x h d hd
    simp only [lsReplyPop] at hd ⊢
    by_cases e : d = d'
    · subst e; simp
    · simp only [upd_ne _ _ _ _ e] at hd ⊢
      exact h d hd
  | gucSend o d' =>
    intro x h d hd
    rcases gucSend_ls o d' x with ⟨e1, e2, e3⟩ | ⟨hm, e1, e2, e3⟩
    · rw [e1, e2] at hd; rw [e3]; exact h d hd
    · rw [e3]
      by_cases e : d = d'
      · subst e; exact h d (Or.inl (List.ne_nil_of_mem hm))
      · rw [e1, e2] at hd
        simp only [upd_ne _ _ _ _ e] at hd
        exact h d hd
  | lsRegisterOrQueue fx o d' _ =>
    intro x h d hd
    rcases lsReg_ls fx o d' x with ⟨e1, e2, e3⟩ | ⟨hm, e1, e2, e3⟩
    · rw [e1, e2] at hd; rw [e3]; exact h d hd
    · rw [e3]
      by_cases e : d = d'
      · subst e; exact h d (Or.inl (List.ne_nil_of_mem hm))
      · rw [e1, e2] at hd
        simp only [upd_ne _ _ _ _ e] at hd
        exact h d hd
  | _ =>
    intro x h
    first
      | exact h
      | (simp only [getSN, readEgo, egoSwap, sendPkt, timerStart, timerCheck, gucLookup, gucInit, lsStoreTimer, lsStoreTimer',
          lsReplyCancel]; exact h)
      | (simp only [cbfArrive, cbfExpire, cbfSend, cbfDiscard, lsRetransmitCheck, lsFlushPick]
         split <;> exact h)

theorem LsNoLossA_congr (x y : St) (h : y.loct = x.loct ∧ y.pending = x.pending ∧ y.lsBuf = x.lsBuf ∧ y.lsCnt = x.lsCnt ∧ y.lsLost = x.lsLost)
    (hx : LsNoLossA x) : LsNoLossA y := by
  obtain ⟨e1, e2, e3, _, e5⟩ := h
  intro d
  simp only [e1, e2, e3, e5]
  exact hx d

theorem LsNoLossB_congr (x y : St) (h : y.loct = x.loct ∧ y.pending = x.pending ∧ y.lsBuf = x.lsBuf ∧ y.lsCnt = x.lsCnt ∧ y.lsLost = x.lsLost)
    (hx : LsNoLossB x) : LsNoLossB y := by
  obtain ⟨e1, e2, e3, e4, e5⟩ := h
  intro d
  simp only [e1, e2, e3, e4, e5]
  exact hx d

theorem lsRegCore_NoLossA (o r' d' : Nat) (x : St) (h : LsNoLossA x) : LsNoLossA (lsRegCore false o r' d' x) := by
  intro d
  obtain ⟨h1, h2⟩ := h d
  unfold lsRegCore
  simp only [Bool.false_and, Bool.false_or, Bool.not_false, Bool.true_and, Bool.false_eq_true, if_false]
  by_cases hd : d = d'
  · subst hd
    split
    · rename_i hc
      refine ⟨?_, h2⟩
      intro hp
      rw [hc] at hp; cases hp
    · rename_i hc
      have hb := h1 (by simpa using hc)
      simp [hb, h2]
  · split
    · simpa [upd, hd] using And.intro h1 h2
    · simpa [upd, hd] using And.intro h1 h2

theorem lsRegCore_NoLossB (o r' d' : Nat) (x : St) (h : LsNoLossB x) : LsNoLossB (lsRegCore true o r' d' x) := by
  intro d
  obtain ⟨h1, h2, h4⟩ := h d
  unfold lsRegCore
  simp only [Bool.true_and, Bool.not_true, Bool.false_and, Bool.or_false]
  by_cases hd : d = d'
  · subst hd
    split
    · rename_i hs
      refine ⟨?_, h2, h4⟩
      intro hn; rw [hn] at hs; cases hs
    · rename_i hc
      have hn : x.lsCnt d = none := by
        cases hcnt : x.lsCnt d with
        | none => rfl
        | some c => simp [hcnt] at hc
      exact ⟨by simp, h2, by simp [h1 hn, h4]⟩
  · split
    · exact ⟨by simpa [upd, hd] using h1, h2, h4⟩
    · exact ⟨by simpa [upd, hd] using h1, h2, by simpa [upd, hd] using h4⟩

/-! LocT blocks and the two no-loss invariants -/

/-- (for `LsNoLossA`) the LS buffers are untouched and a pending entry stays a pending entry -/
def KeepsPending (x y : St) : Prop :=
  y.lsBuf = x.lsBuf ∧ y.lsLost = x.lsLost ∧ ∀ d, x.loct d = true → x.pending d = true → y.loct d = true ∧ y.pending d = true

theorem LsNoLossA_keeps {x y : St} (h : KeepsPending x y) (hx : LsNoLossA x) : LsNoLossA y := by
  obtain ⟨e1, e2, hk⟩ := h
  intro d
  obtain ⟨h1, h2⟩ := hx d
  rw [e1, e2]
  refine ⟨?_, h2⟩
  intro hy
  apply h1
  cases hl : x.loct d
  · rfl
  · cases hp : x.pending d
    · rfl
    · obtain ⟨a, b⟩ := hk d hl hp
      rw [a, b] at hy; cases hy

theorem newEntry_keeps (a : Nat) (x : St) (ha : x.loct a = false) : KeepsPending x (newEntry a x) := by
  refine ⟨rfl, rfl, ?_⟩
  intro d hl hp
  have hd : d ≠ a := by intro e; subst e; rw [ha] at hl; cases hl
  simp [newEntry, upd, hd, hl, hp]

theorem lsEnsure0_keeps (d : Nat) (x : St) : KeepsPending x (lsEnsure0 d x) := by
  unfold lsEnsure0
  split
  · exact ⟨rfl, rfl, fun _ a b => ⟨a, b⟩⟩
  · rename_i hl
    exact newEntry_keeps d x (by simpa using hl)

theorem lsEnsure_keeps (d : Nat) (x : St) : KeepsPending x (lsEnsure d x) := by
  obtain ⟨e1, e2, e3⟩ := lsEnsure0_keeps d x
  refine ⟨e1, e2, ?_⟩
  intro d' hl hp
  obtain ⟨a, b⟩ := e3 d' hl hp
  refine ⟨a, ?_⟩
  show upd (lsEnsure0 d x).pending d true d' = true
  by_cases hd : d' = d
  · subst hd; simp
  · rw [upd_ne _ _ _ _ hd]; exact b

theorem loctLearn_keeps (d : Nat) (x : St) : KeepsPending x (loctLearn d x) := by
  unfold loctLearn
  split
  · exact ⟨rfl, rfl, fun _ a b => ⟨a, b⟩⟩
  · rename_i hl
    exact newEntry_keeps d x (by simpa using hl)

/-- (for `LsNoLossB`) the LS buffers and counters are untouched, an address without entry afterwards is not pending,
and nothing becomes pending -/
def TableStep (x y : St) : Prop :=
  y.lsBuf = x.lsBuf ∧ y.lsCnt = x.lsCnt ∧ y.lsLost = x.lsLost ∧
  ∀ d, ((x.loct d = false → x.pending d = false) → (y.loct d = false → y.pending d = false)) ∧
    (y.pending d = true → x.pending d = true)

theorem TableStep.refl (x : St) : TableStep x x := ⟨rfl, rfl, rfl, fun _ => ⟨fun h => h, fun h => h⟩⟩

theorem TableStep.trans {x y z : St} (h1 : TableStep x y) (h2 : TableStep y z) : TableStep x z := by
  obtain ⟨a1, a2, a3, a4⟩ := h1
  obtain ⟨b1, b2, b3, b4⟩ := h2
  exact ⟨b1.trans a1, b2.trans a2, b3.trans a3, fun d => ⟨fun h => (b4 d).1 ((a4 d).1 h), fun h => (a4 d).2 ((b4 d).2 h)⟩⟩

theorem TableStep.of_eq {x y : St} (e1 : y.lsBuf = x.lsBuf) (e2 : y.lsCnt = x.lsCnt) (e3 : y.lsLost = x.lsLost)
    (e4 : y.loct = x.loct) (e5 : y.pending = x.pending) : TableStep x y :=
  ⟨e1, e2, e3, fun d => by rw [e4, e5]; exact ⟨fun h => h, fun h => h⟩⟩

theorem LsNoLossB_step {x y : St} (h : TableStep x y) (hx : LsNoLossB x) : LsNoLossB y := by
  obtain ⟨e1, e2, e3, hk⟩ := h
  intro d
  obtain ⟨h1, h2, h4⟩ := hx d
  rw [e1, e2, e3]
  exact ⟨h1, (hk d).1 h2, h4⟩

theorem newEntry_step (a : Nat) (x : St) : TableStep x (newEntry a x) := by
  refine ⟨rfl, rfl, rfl, ?_⟩
  intro d
  by_cases hd : d = a
  · subst hd; simp [newEntry]
  · simp [newEntry, upd, hd]

theorem lsEnsure0_step (d : Nat) (x : St) : TableStep x (lsEnsure0 d x) := by
  unfold lsEnsure0; split
  · exact TableStep.refl x
  · exact newEntry_step d x

theorem lsEnsure0_loct (d : Nat) (x : St) : (lsEnsure0 d x).loct d = true := by
  unfold lsEnsure0; split
  · assumption
  · simp [newEntry]

/-- the placeholder is created and flagged in one block: the flag lands on an entry that IS in the table -/
theorem lsEnsure_NoLossB (d : Nat) (x : St) (h : LsNoLossB x) : LsNoLossB (lsEnsure d x) := by
  have h0 := LsNoLossB_step (lsEnsure0_step d x) h
  intro d'
  obtain ⟨h1, h2, h4⟩ := h0 d'
  refine ⟨h1, ?_, h4⟩
  intro hl
  have hl' : (lsEnsure0 d x).loct d' = false := hl
  have hd : d' ≠ d := by
    intro e; subst e; rw [lsEnsure0_loct] at hl'; cases hl'
  show upd (lsEnsure0 d x).pending d true d' = false
  rw [upd_ne _ _ _ _ hd]; exact h2 hl'

theorem loctLearn_step (d : Nat) (x : St) : TableStep x (loctLearn d x) := by
  unfold loctLearn; split
  · exact TableStep.refl x
  · exact newEntry_step d x

theorem locTRefresh_step (exp : List Nat) (x : St) : TableStep x (locTRefresh exp x) := by
  refine ⟨rfl, rfl, rfl, ?_⟩
  intro d
  simp only [locTRefresh]
  cases hl : x.loct d <;> cases hk : keepE exp x d <;> simp

theorem rxGetOrCreate_step (o a : Nat) (x : St) : TableStep x (rxGetOrCreate o a x) := by
  unfold rxGetOrCreate; split
  · exact TableStep.refl x
  · exact newEntry_step a x

theorem rxDpl_step (mh : Bool) (o a k : Nat) (x : St) : TableStep x (rxDpl mh o a k x) := by
  simp only [rxDpl, dplOn]
  repeat' split
  all_goals exact TableStep.refl x

theorem rxPV_step (o : Nat) (x : St) : TableStep x (rxPV o x) := by
  unfold rxPV; split <;> exact TableStep.refl x

theorem rxRecv_step (mh : Bool) (o a k : Nat) (x : St) : TableStep x (rxRecv mh o a k x) :=
  ((rxGetOrCreate_step o a x).trans (rxDpl_step mh o a k _)).trans (rxPV_step o _)

theorem LsNoLossA_blk (f : St → St) (u : Bool) (hf : Blk false true false u f) : ∀ x, LsNoLossA x → LsNoLossA (f x) := by
  induction hf with
  | whenReg o slot v f _ ih => exact whenReg_preserves _ o slot v f ih
  | idB => exact fun x h => h
  | loctPurge d h => cases h
  | lsRegisterOrQueue fx o d' hfx =>
    have hf : fx = false := by cases fx <;> simp_all
    subst hf
    intro x h
    rcases lsReg_core_fields false o d' x with e | e
    · exact LsNoLossA_congr x _ e h
    · exact LsNoLossA_congr _ _ e (lsRegCore_NoLossA o _ d' x h)
  | gucSend o d' =>
    intro x h
    refine LsNoLossA_congr x _ ?_ h
    simp only [gucSend]
    repeat' split
    all_goals simp
  | lsRetransmitCheck mr o d' =>
    intro x h d
    obtain ⟨h1, h2⟩ := h d
    simp only [lsRetransmitCheck]
    by_cases hd : d = d'
    · subst hd
      split
      · simp [h2]
      · exact ⟨h1, h2⟩
    · split
      · refine ⟨?_, by simpa [upd, hd] using h2⟩
        simp only [upd, hd, if_false]
        split <;> simpa [upd, hd] using h1
      · exact ⟨h1, h2⟩
  | lsReplyPop o d' =>
    intro x h d
    obtain ⟨h1, h2⟩ := h d
    simp only [lsReplyPop]
    by_cases hd : d = d'
    · subst hd; simp [h2]
    · refine ⟨?_, h2⟩
      simp only [upd, hd, if_false]
      split <;> simpa [upd, hd] using h1
  | lsEnsure d' => exact fun x h => LsNoLossA_keeps (lsEnsure_keeps d' x) h
  | loctLearn d' => exact fun x h => LsNoLossA_keeps (loctLearn_keeps d' x) h
  | locTRefresh exp h => cases h
  | rxRecv mh o a k h => cases h
  | rxGetOrCreate o a h => cases h.1
  | rxDpl mh o a k h => cases h.1
  | rxPV o h => cases h.1
  | _ =>
    intro x h
    first
      | exact h
      | (simp only [getSN, readEgo, egoSwap, sendPkt, timerStart, timerCheck, gucLookup, gucInit, lsStoreTimer, lsStoreTimer',
          lsReplyCancel]; exact h)
      | (simp only [cbfArrive, cbfExpire, cbfSend, cbfDiscard, lsFlushPick]
         split <;> exact h)

theorem LsNoLossB_blk (p u : Bool) (f : St → St) (hf : Blk p false true u f) : ∀ x, LsNoLossB x → LsNoLossB (f x) := by
  induction hf with
  | whenReg o slot v f _ ih => exact whenReg_preserves _ o slot v f ih
  | idB => exact fun x h => h
  | loctPurge d' _ =>
    intro x h d
    obtain ⟨h1, h2, h4⟩ := h d
    simp only [loctPurge]
    by_cases hd : d = d'
    · subst hd; simp [h4]; exact h1
    · simpa [upd, hd] using ⟨h1, h2, h4⟩
  | lsRegisterOrQueue fx o d' hfx =>
    have hf : fx = true := by cases fx <;> simp_all
    subst hf
    intro x h
    rcases lsReg_core_fields true o d' x with e | e
    · exact LsNoLossB_congr x _ e h
    · exact LsNoLossB_congr _ _ e (lsRegCore_NoLossB o _ d' x h)
  | gucSend o d' =>
    intro x h
    refine LsNoLossB_congr x _ ?_ h
    simp only [gucSend]
    repeat' split
    all_goals simp
  | lsEnsure d' => exact fun x h => lsEnsure_NoLossB d' x h
  | locTRefresh exp _ => exact fun x h => LsNoLossB_step (locTRefresh_step exp x) h
  | rxRecv mh o a k _ => exact fun x h => LsNoLossB_step (rxRecv_step mh o a k x) h
  | rxGetOrCreate o a _ => exact fun x h => LsNoLossB_step (rxGetOrCreate_step o a x) h
  | rxDpl mh o a k _ => exact fun x h => LsNoLossB_step (rxDpl_step mh o a k x) h
  | rxPV o _ => exact fun x h => LsNoLossB_step (rxPV_step o x) h
  | lsRetransmitCheck mr o d' =>
    intro x h d
    obtain ⟨h1, h2, h4⟩ := h d
    simp only [lsRetransmitCheck]
    by_cases hd : d = d'
    · subst hd
      split
      · refine ⟨by simp, ?_, by simpa using h4⟩
        intro hl; simp at hl; simp [hl]; exact h2 hl
      · exact ⟨by simp, h2, h4⟩
    · split
      · refine ⟨by simpa [upd, hd] using h1, ?_, by simpa [upd, hd] using h4⟩
        split <;> simpa [upd, hd] using h2
      · exact ⟨by simpa [upd, hd] using h1, h2, h4⟩
  | lsReplyPop o d' =>
    intro x h d
    obtain ⟨h1, h2, h4⟩ := h d
    simp only [lsReplyPop]
    by_cases hd : d = d'
    · subst hd
      refine ⟨by simp, ?_, by simpa using h4⟩
      intro hl; simp [hl]; exact h2 hl
    · refine ⟨by simpa [upd, hd] using h1, ?_, by simpa [upd, hd] using h4⟩
      split <;> simpa [upd, hd] using h2
  | loctLearn d' => exact fun x h => LsNoLossB_step (loctLearn_step d' x) h
  | _ =>
    intro x h
    first
      | exact h
      | (simp only [getSN, readEgo, egoSwap, sendPkt, timerStart, timerCheck, gucLookup, gucInit, lsStoreTimer, lsStoreTimer',
          lsReplyCancel]; exact h)
      | (simp only [cbfArrive, cbfExpire, cbfSend, cbfDiscard, lsFlushPick]
         split <;> exact h)

/-! ## lock discipline of the compiled programs -/

theorem WFp_sendLsReq (o d : Nat) (store : St → St) : WFp rank [] ((sendLsReq o d store).map TI.erase) := by
  simp [sendLsReq, tsect, TI.erase, WFp]

theorem WFp_gucBody (o d : Nat) (fx : Bool) : WFp rank [] ((gucBody o d fx).map TI.erase) := by
  simp only [gucBody, List.map_append]
  refine WFp_append _ _ _ _ ?_ (WFp_sendLsReq o d _)
  cases fx <;> simp [tsect, tsect2, TI.erase, WFp, rank, lkLocT, lkSN, lkLs]

theorem WFp_flushIter (o d : Nat) (fx : Bool) (k : Nat) : WFp rank [] ((flushIter o d fx k).map TI.erase) := by
  simp only [flushIter, List.map_append]
  exact WFp_append _ _ _ _ (by simp [TI.erase, WFp]) (WFp_gucBody _ d fx)

theorem WFp_compile (op : Op) : WFp rank [] (compile op) := by
  cases op with
  | guc o r d fx =>
    simp only [compile, compileT, List.map_append]
    exact WFp_append _ _ _ _ (by simp [TI.erase, WFp]) (WFp_gucBody o d fx)
  | lsReply o d n fx =>
    simp only [compile, compileT, List.map_append]
    refine WFp_append _ _ _ _ ?_ ?_
    · simp [tsect, tsect2, TI.erase, WFp, rank, lkLocT, lkLs]
    · rw [List.map_flatten, List.map_map]
      apply WFp_flatten
      intro p hp
      rw [List.mem_map] at hp
      obtain ⟨k, _, rfl⟩ := hp
      exact WFp_flushIter o d fx k
  | lsFire o d src mr =>
    simp only [compile, compileT, List.map_append]
    refine WFp_append _ _ _ _ ?_ (WFp_sendLsReq o d _)
    simp [tsect2, TI.erase, WFp, rank, lkLocT, lkLs]
  | gbcRx o a k lk disc exp =>
    cases lk <;> cases disc <;> simp [compile, compileT, rxProg, tsect, tsect2, TI.erase, WFp, rank, lkLocT, lkCbf, lkDpl, lkPv]
  | shbRx o a lk exp =>
    cases lk <;> simp [compile, compileT, rxProg, tsect, TI.erase, WFp, rank, lkLocT, lkDpl, lkPv]
  | _ => simp [compile, compileT, tsect, tsect2, TI.erase, WFp, rank, lkLocT, lkCbf, lkSN, lkEgo, lkDpl]

theorem WF_sys (threads : List (List Op)) : WF rank (sys threads) := by
  apply WF_mkSys
  intro p hp
  rw [List.mem_map] at hp
  obtain ⟨ops, _, rfl⟩ := hp
  apply WFp_flatten
  intro q hq
  rw [List.mem_map] at hq
  obtain ⟨op, _, rfl⟩ := hq
  exact WFp_compile op

end FlexModel.Conc.Router

/-
Helper lemmas for Props/C15: the closed set of block forms used by the router programs (`Blk`), the invariant
rule specialised to router systems, lock discipline of the compiled programs, and the four invariants
(sequence numbers, CBF conservation, position-vector history, location-service conservation).
-/
import FlexModel.Conc.RouterConc

namespace FlexModel.Conc.Router
open FlexModel.Conc

/-- the block functions occurring in compiled router programs (`purge = true` admits `loctPurge`) -/
inductive Blk (purge : Bool) : (St → St) → Prop
  | getSN (o) : Blk purge (getSN o)
  | readEgo (o) : Blk purge (readEgo o)
  | egoSwap (v) : Blk purge (egoSwap v)
  | sendPkt (o kind ref b) (h : kind < 4) : Blk purge (sendPkt o kind ref b)
  | cbfArrive (o k) : Blk purge (cbfArrive o k)
  | timerStart (o) : Blk purge (timerStart o)
  | timerCheck (o src) : Blk purge (timerCheck o src)
  | cbfExpire (o k) : Blk purge (cbfExpire o k)
  | cbfSend (o k) : Blk purge (cbfSend o k)
  | dplCheck (o k) : Blk purge (dplCheck o k)
  | gucLookup (o d) : Blk purge (gucLookup o d)
  | lsRegisterOrQueue (o r d) : Blk purge (lsRegisterOrQueue o r d)
  | lsStoreTimer (o d) : Blk purge (lsStoreTimer o d)
  | lsStoreTimer' (o d) : Blk purge (lsStoreTimer' o d)
  | lsRetransmitCheck (mr o d) : Blk purge (lsRetransmitCheck mr o d)
  | loctLearn (d) : Blk purge (loctLearn d)
  | lsReplyPop (o d) : Blk purge (lsReplyPop o d)
  | lsReplyCancel (o) : Blk purge (lsReplyCancel o)
  | lsFlushPick (o) : Blk purge (lsFlushPick o)
  | lsFlushSend (o d) : Blk purge (lsFlushSend o d)
  | loctPurge (d) (h : purge = true) : Blk purge (loctPurge d)
  | idB : Blk purge id
  | whenReg (o slot v f) : Blk purge f → Blk purge (whenReg o slot v f)

def Op.isPurge : Op → Bool
  | .purge _ => true
  | _ => false

theorem mem_blocksOf_replicate (n : Nat) (p : List (Instr St)) (f : St → St)
    (h : f ∈ blocksOf (List.replicate n p).flatten) : f ∈ blocksOf p := by
  obtain ⟨q, hq, hf⟩ := mem_blocksOf_flatten _ f h
  rw [List.mem_replicate] at hq
  rw [← hq.2]; exact hf

theorem sendLsReq_blocks (p : Bool) (o d : Nat) (store : St → St) (hs : Blk p store) (f : St → St)
    (h : f ∈ blocksOf ((sendLsReq o d store).map TI.erase)) : Blk p f := by
  simp only [sendLsReq, tsect, List.map_append, List.map_cons, List.map_nil, TI.erase, List.cons_append,
    List.nil_append, blocksOf, List.mem_cons, List.not_mem_nil, or_false] at h
  rcases h with rfl | rfl | rfl | rfl | rfl
  · exact .whenReg _ _ _ _ (.readEgo _)
  · exact .whenReg _ _ _ _ (.getSN _)
  · exact .whenReg _ _ _ _ (.sendPkt _ _ _ _ (by decide))
  · exact .whenReg _ _ _ _ (.timerStart _)
  · exact .whenReg _ _ _ _ hs

theorem flushIter_blocks (p : Bool) (o d : Nat) (f : St → St)
    (h : f ∈ blocksOf ((flushIter o d).map TI.erase)) : Blk p f := by
  simp only [flushIter, tsect, List.map_append, List.map_cons, List.map_nil, TI.erase, List.cons_append,
    List.nil_append, blocksOf, List.mem_cons, List.not_mem_nil, or_false] at h
  rcases h with rfl | rfl | rfl | rfl
  · exact .lsFlushPick _
  · exact .whenReg _ _ _ _ (.getSN _)
  · exact .whenReg _ _ _ _ (.readEgo _)
  · exact .whenReg _ _ _ _ (.lsFlushSend _ _)

/-- every block of a compiled operation is one of the `Blk` forms -/
theorem compile_blocks (p : Bool) (op : Op) (hp : op.isPurge = true → p = true) (f : St → St)
    (h : f ∈ blocksOf (compile op)) : Blk p f := by
  cases op with
  | sn o =>
    simp [compile, compileT, tsect, TI.erase, blocksOf] at h
    subst h; exact .getSN _
  | shb o =>
    simp [compile, compileT, TI.erase, blocksOf] at h
    rcases h with rfl | rfl
    · exact .readEgo _
    · exact .sendPkt _ _ _ _ (by decide)
  | gbc o =>
    simp [compile, compileT, tsect, TI.erase, blocksOf] at h
    rcases h with rfl | rfl | rfl
    · exact .getSN _
    · exact .readEgo _
    · exact .sendPkt _ _ _ _ (by decide)
  | ego v =>
    simp [compile, compileT, tsect, TI.erase, blocksOf] at h
    subst h; exact .egoSwap _
  | cbfArrive o k =>
    simp [compile, compileT, tsect2, TI.erase, blocksOf] at h
    rcases h with rfl | rfl | rfl
    · exact .cbfArrive _ _
    · exact .idB
    · exact .whenReg _ _ _ _ (.timerStart _)
  | gbcRx o k =>
    simp [compile, compileT, tsect, tsect2, TI.erase, blocksOf] at h
    rcases h with rfl | rfl | rfl | rfl | rfl
    · exact .idB
    · exact .dplCheck _ _
    · exact .whenReg _ _ _ _ (.cbfArrive _ _)
    · exact .idB
    · exact .whenReg _ _ _ _ (.whenReg _ _ _ _ (.timerStart _))
  | cbfFire o k src =>
    simp [compile, compileT, tsect, TI.erase, blocksOf] at h
    rcases h with rfl | rfl | rfl
    · exact .timerCheck _ _
    · exact .whenReg _ _ _ _ (.cbfExpire _ _)
    · exact .whenReg _ _ _ _ (.cbfSend _ _)
  | guc o r d =>
    simp only [compile, compileT, List.map_append, blocksOf_append, List.mem_append] at h
    rcases h with (((h | h) | h) | h) | h
    · simp [tsect, TI.erase, blocksOf] at h
      subst h; exact .gucLookup _ _
    · simp [tsect, TI.erase, blocksOf] at h
      subst h; exact .whenReg _ _ _ _ (.getSN _)
    · simp [TI.erase, blocksOf] at h
      rcases h with rfl | rfl
      · exact .whenReg _ _ _ _ (.readEgo _)
      · exact .whenReg _ _ _ _ (.sendPkt _ _ _ _ (by decide))
    · simp [tsect2, TI.erase, blocksOf] at h
      rcases h with rfl | rfl
      · exact .whenReg _ _ _ _ (.lsRegisterOrQueue _ _ _)
      · exact .idB
    · exact sendLsReq_blocks p o d _ (.lsStoreTimer _ _) f h
  | lsReply o d n =>
    simp only [compile, compileT, List.map_append, blocksOf_append, List.mem_append] at h
    rcases h with ((h | h) | h) | h
    · simp [tsect, TI.erase, blocksOf] at h
      subst h; exact .loctLearn _
    · simp [tsect2, TI.erase, blocksOf] at h
      rcases h with rfl | rfl
      · exact .lsReplyPop _ _
      · exact .idB
    · simp [TI.erase, blocksOf] at h
      subst h; exact .whenReg _ _ _ _ (.lsReplyCancel _)
    · rw [List.map_flatten, List.map_replicate] at h
      exact flushIter_blocks p o d f (mem_blocksOf_replicate n _ f h)
  | lsFire o d src mr =>
    simp only [compile, compileT, List.map_append, blocksOf_append, List.mem_append] at h
    rcases h with (h | h) | h
    · simp [TI.erase, blocksOf] at h
      subst h; exact .timerCheck _ _
    · simp [tsect2, TI.erase, blocksOf] at h
      rcases h with rfl | rfl
      · exact .whenReg _ _ _ _ (.lsRetransmitCheck _ _ _)
      · exact .idB
    · exact sendLsReq_blocks p o d _ (.lsStoreTimer' _ _) f h
  | purge d =>
    simp [compile, compileT, tsect, TI.erase, blocksOf] at h
    subst h; exact .loctPurge _ (hp rfl)

/-- **Invariant rule for router systems**: a predicate preserved by every `Blk` form holds after any schedule -/
theorem router_inv (p : Bool) (P : St → Prop) (threads : List (List Op))
    (hpurge : ∀ ops ∈ threads, ∀ op ∈ ops, op.isPurge = true → p = true)
    (h0 : P {}) (hB : ∀ f, Blk p f → ∀ x, P x → P (f x)) (sched : List ThreadId) :
    P (run (sys threads) sched).sh := by
  apply inv_of_blocks P (sys threads) h0
  intro th hth f hf
  simp only [sys, mkSys, List.mem_map] at hth
  obtain ⟨prog, ⟨ops, hops, rfl⟩, rfl⟩ := hth
  simp only [threadProg] at hf
  obtain ⟨q, hq, hfq⟩ := mem_blocksOf_flatten _ f hf
  rw [List.mem_map] at hq
  obtain ⟨op, hop, rfl⟩ := hq
  exact hB f (compile_blocks p op (hpurge ops hops op hop) f hfq)

theorem whenReg_preserves (P : St → Prop) (o slot v : Nat) (f : St → St) (h : ∀ x, P x → P (f x)) :
    ∀ x, P x → P (whenReg o slot v f x) := by
  intro x hx
  unfold whenReg
  split
  · exact h x hx
  · exact hx

/-! ## sequence numbers -/

def SnInv (s : St) : Prop :=
  s.sn = s.snLog.length % M ∧ ∀ i, i < s.snLog.length → s.snLog[i]? = some ((s.snLog.length - i) % M)

theorem getSN_SnInv (o : Nat) (x : St) (h : SnInv x) : SnInv (getSN o x) := by
  obtain ⟨h1, h2⟩ := h
  simp only [SnInv, getSN, List.length_cons]
  refine ⟨by rw [h1]; simp only [M]; omega, ?_⟩
  intro i hi
  cases i with
  | zero => simp [M]; rw [h1]; simp only [M]; omega
  | succ j =>
    simp only [List.getElem?_cons_succ]
    rw [h2 j (by omega)]
    congr 2
    omega

theorem SnInv_blk (p : Bool) (f : St → St) (hf : Blk p f) : ∀ x, SnInv x → SnInv (f x) := by
  induction hf with
  | getSN o => exact getSN_SnInv o
  | whenReg o slot v f _ ih => exact whenReg_preserves _ o slot v f ih
  | idB => exact fun x h => h
  | _ =>
    intro x h
    first
      | exact h
      | (simp only [readEgo, egoSwap, sendPkt, timerStart, timerCheck, gucLookup, lsStoreTimer, lsStoreTimer', loctLearn,
          lsReplyPop, lsReplyCancel, loctPurge]; exact h)
      | (simp only [cbfArrive, cbfExpire, cbfSend, dplCheck, lsRegisterOrQueue, lsRetransmitCheck, lsFlushPick, lsFlushSend]
         split <;> exact h)

/-! ## CBF conservation -/

def cbfPkts (s : St) (k : Nat) : Nat := (s.sent.filter (fun p => p.kind == 4 && p.ref == k)).length

def CbfInv (s : St) : Prop :=
  ∀ k, s.cbfIns k = s.cbfCan k + s.cbfCom k + (if s.cbf k then 1 else 0) ∧ s.cbfCom k = s.cbfSent k + s.cbfPend k
    ∧ cbfPkts s k = s.cbfSent k

theorem cbfArrive_CbfInv (o k' : Nat) (x : St) (h : CbfInv x) : CbfInv (cbfArrive o k' x) := by
  intro k
  obtain ⟨h1, h2, h3⟩ := h k
  unfold cbfArrive
  by_cases hk : k = k'
  · subst hk
    split <;> rename_i hc <;> simp [cbfPkts, hc] at * <;> omega
  · split <;> simp [cbfPkts, upd, hk] at * <;> omega

theorem cbfExpire_CbfInv (o k' : Nat) (x : St) (h : CbfInv x) : CbfInv (cbfExpire o k' x) := by
  intro k
  obtain ⟨h1, h2, h3⟩ := h k
  unfold cbfExpire
  by_cases hk : k = k'
  · subst hk
    split <;> rename_i hc <;> simp [cbfPkts, hc] at * <;> omega
  · split <;> simp [cbfPkts, upd, hk] at * <;> omega

theorem cbfSend_CbfInv (o k' : Nat) (x : St) (h : CbfInv x) : CbfInv (cbfSend o k' x) := by
  intro k
  obtain ⟨h1, h2, h3⟩ := h k
  unfold cbfSend
  by_cases hk : k = k'
  · subst hk
    split <;> rename_i hc <;> simp [cbfPkts, List.filter_cons] at * <;> omega
  · have hk' : ¬ k' = k := fun e => hk e.symm
    split <;> simp [cbfPkts, upd, hk, hk', List.filter_cons] at * <;> omega

theorem sendPkt_CbfInv (o kind ref : Nat) (b : Bool) (hk : kind < 4) (x : St) (h : CbfInv x) :
    CbfInv (sendPkt o kind ref b x) := by
  intro k
  have hne : (kind == 4) = false := by simp; omega
  obtain ⟨h1, h2, h3⟩ := h k
  refine ⟨h1, h2, ?_⟩
  simp only [cbfPkts] at h3 ⊢
  simp only [sendPkt, List.filter_cons, hne, Bool.false_and]
  exact h3

theorem lsFlushSend_CbfInv (o d : Nat) (x : St) (h : CbfInv x) : CbfInv (lsFlushSend o d x) := by
  intro k
  unfold lsFlushSend
  split
  · obtain ⟨h1, h2, h3⟩ := h k
    refine ⟨h1, h2, ?_⟩
    simp only [cbfPkts] at h3 ⊢
    simp only [List.filter_cons]
    exact h3
  · exact h k

theorem CbfInv_blk (p : Bool) (f : St → St) (hf : Blk p f) : ∀ x, CbfInv x → CbfInv (f x) := by
  induction hf with
  | cbfArrive o k => exact cbfArrive_CbfInv o k
  | cbfExpire o k => exact cbfExpire_CbfInv o k
  | cbfSend o k => exact cbfSend_CbfInv o k
  | sendPkt o kind ref b h => exact sendPkt_CbfInv o kind ref b h
  | lsFlushSend o d => exact lsFlushSend_CbfInv o d
  | whenReg o slot v f _ ih => exact whenReg_preserves _ o slot v f ih
  | idB => exact fun x h => h
  | _ =>
    intro x h
    first
      | exact h
      | (simp only [getSN, readEgo, egoSwap, timerStart, timerCheck, gucLookup, lsStoreTimer, lsStoreTimer', loctLearn,
          lsReplyPop, lsReplyCancel, loctPurge]; exact h)
      | (simp only [dplCheck, lsRegisterOrQueue, lsRetransmitCheck, lsFlushPick]
         split <;> exact h)

/-! ## position vectors, exceptions -/

theorem upd2_slot_ne (f : Nat → Nat → Nat) (o k v i j : Nat) (h : j ≠ k) : upd2 f o k v i j = f i j := by
  simp [upd2, h]

def PvInv (s : St) : Prop :=
  s.ego ∈ s.egoHist ∧ 0 ∈ s.egoHist ∧ (∀ o, s.reg o 1 ∈ s.egoHist) ∧ ∀ p ∈ s.sent, p.pv ∈ s.egoHist

def ErrInv (s : St) : Prop := s.err = 0

theorem ErrInv_blk (p : Bool) (f : St → St) (hf : Blk p f) : ∀ x, ErrInv x → ErrInv (f x) := by
  induction hf with
  | whenReg o slot v f _ ih => exact whenReg_preserves _ o slot v f ih
  | idB => exact fun x h => h
  | cbfExpire o k =>
    intro x h
    unfold cbfExpire
    split
    · rename_i hc; simp [ErrInv, hc] at *; exact h
    · exact h
  | _ =>
    intro x h
    first
      | exact h
      | (simp only [getSN, readEgo, egoSwap, sendPkt, timerStart, timerCheck, gucLookup, lsStoreTimer, lsStoreTimer', loctLearn,
          lsReplyPop, lsReplyCancel, loctPurge]; exact h)
      | (simp only [cbfArrive, cbfSend, dplCheck, lsRegisterOrQueue, lsRetransmitCheck, lsFlushPick, lsFlushSend]
         split <;> exact h)

theorem PvInv_blk (p : Bool) (f : St → St) (hf : Blk p f) : ∀ x, PvInv x → PvInv (f x) := by
  induction hf with
  | whenReg o slot v f _ ih => exact whenReg_preserves _ o slot v f ih
  | idB => exact fun x h => h
  | readEgo o =>
    intro x ⟨h1, h2, h3, h4⟩
    refine ⟨h1, h2, ?_, h4⟩
    intro o'
    simp only [readEgo, upd2]
    split
    · exact h1
    · exact h3 o'
  | egoSwap v =>
    intro x ⟨h1, h2, h3, h4⟩
    simp only [PvInv, egoSwap]
    exact ⟨by simp, List.mem_cons_of_mem _ h2, fun o => List.mem_cons_of_mem _ (h3 o),
      fun p hp => List.mem_cons_of_mem _ (h4 p hp)⟩
  | sendPkt o kind ref b _ =>
    intro x ⟨h1, h2, h3, h4⟩
    refine ⟨h1, h2, h3, ?_⟩
    intro p hp
    simp only [sendPkt, List.mem_cons] at hp
    rcases hp with rfl | hp
    · exact h3 o
    · exact h4 p hp
  | cbfSend o k =>
    intro x ⟨h1, h2, h3, h4⟩
    unfold cbfSend
    split
    · refine ⟨h1, h2, ?_, ?_⟩
      · intro o'; simp only [upd2_slot_ne _ _ _ _ _ _ (by decide : (1:Nat) ≠ 2)]; exact h3 o'
      · intro p hp
        simp only [List.mem_cons] at hp
        rcases hp with rfl | hp
        · exact h2
        · exact h4 p hp
    · exact ⟨h1, h2, h3, h4⟩
  | lsFlushSend o d =>
    intro x ⟨h1, h2, h3, h4⟩
    unfold lsFlushSend
    split
    · refine ⟨h1, h2, h3, ?_⟩
      intro p hp
      simp only [List.mem_cons] at hp
      rcases hp with rfl | hp
      · exact h3 o
      · exact h4 p hp
    · exact ⟨h1, h2, h3, h4⟩
  | _ =>
    intro x ⟨h1, h2, h3, h4⟩
    first
      | exact ⟨h1, h2, h3, h4⟩
      | (simp only [getSN, timerStart, timerCheck, gucLookup, lsStoreTimer, lsStoreTimer', loctLearn,
          lsReplyPop, lsReplyCancel, loctPurge]
         refine ⟨h1, h2, ?_, h4⟩
         intro o'
         first
          | exact h3 o'
          | (simp only [upd2]; repeat' split
             all_goals first | exact h3 o' | omega))
      | (simp only [cbfArrive, cbfExpire, dplCheck, lsRegisterOrQueue, lsRetransmitCheck, lsFlushPick]
         split <;> (
           refine ⟨h1, h2, ?_, h4⟩
           intro o'
           first
            | exact h3 o'
            | (simp only [upd2]; repeat' split
               all_goals first | exact h3 o' | omega)))

/-! ## location service -/

def LsInv (s : St) : Prop :=
  ∀ d r, (s.lsQueued d).count r =
    (s.lsBuf d).count r + (s.lsFlight d).count r + (s.lsSent d).count r + (s.lsDropped d).count r + (s.lsLost d).count r

def LsNoLoss (s : St) : Prop := ∀ d, ((s.loct d && s.pending d) = false → s.lsBuf d = []) ∧ s.lsLost d = []

theorem LsInv_blk (p : Bool) (f : St → St) (hf : Blk p f) : ∀ x, LsInv x → LsInv (f x) := by
  induction hf with
  | whenReg o slot v f _ ih => exact whenReg_preserves _ o slot v f ih
  | idB => exact fun x h => h
  | lsRegisterOrQueue o r' d' =>
    intro x h d r
    have := h d r
    unfold lsRegisterOrQueue
    by_cases hd : d = d'
    · subst hd
      split <;> simp [List.count_cons, List.count_append] at * <;> omega
    · split <;> simp [upd, hd] at * <;> omega
  | lsRetransmitCheck mr o d' =>
    intro x h d r
    have := h d r
    simp only [lsRetransmitCheck]
    by_cases hd : d = d'
    · subst hd
      split <;> simp [List.count_append] at * <;> omega
    · split <;> simp [upd, hd] at * <;> omega
  | lsReplyPop o d' =>
    intro x h d r
    have := h d r
    simp only [lsReplyPop]
    by_cases hd : d = d'
    · subst hd
      simp [List.count_append] at * ; omega
    · simp [upd, hd] at * ; omega
  | lsFlushSend o d' =>
    intro x h d r
    have := h d r
    unfold lsFlushSend
    split
    · rename_i hm
      by_cases hd : d = d'
      · subst hd
        simp only [upd_self, List.count_cons]
        by_cases hr : x.reg o 6 = r
        · subst hr
          have hpos : 0 < (x.lsFlight d).count (x.reg o 6) := List.count_pos_iff.mpr hm
          simp only [List.count_erase_self, beq_self_eq_true, if_true]
          omega
        · have hr' : ¬ (r = x.reg o 6) := fun e => hr e.symm
          have hb : (x.reg o 6 == r) = false := by simpa using hr
          simp only [List.count_erase_of_ne hr', hb]
          simp only [Bool.false_eq_true, if_false]
          omega
      · simp [upd, hd] at * ; omega
    · exact this
  | _ =>
    intro x h
    first
      | exact h
      | (simp only [getSN, readEgo, egoSwap, sendPkt, timerStart, timerCheck, gucLookup, lsStoreTimer, lsStoreTimer', loctLearn,
          lsReplyCancel, loctPurge]; exact h)
      | (simp only [cbfArrive, cbfExpire, cbfSend, dplCheck, lsFlushPick]
         split <;> exact h)

theorem LsNoLoss_blk (f : St → St) (hf : Blk false f) : ∀ x, LsNoLoss x → LsNoLoss (f x) := by
  induction hf with
  | whenReg o slot v f _ ih => exact whenReg_preserves _ o slot v f ih
  | idB => exact fun x h => h
  | loctPurge d h => cases h
  | lsRegisterOrQueue o r' d' =>
    intro x h d
    obtain ⟨h1, h2⟩ := h d
    unfold lsRegisterOrQueue
    by_cases hd : d = d'
    · subst hd
      split
      · rename_i hc
        simp [hc] at *
        exact h2
      · rename_i hc
        have hb := h1 (by simpa using hc)
        simp [hb, h2]
    · split
      · simpa [upd, hd] using And.intro h1 h2
      · simpa [upd, hd] using And.intro h1 h2
  | lsRetransmitCheck mr o d' =>
    intro x h d
    obtain ⟨h1, h2⟩ := h d
    simp only [lsRetransmitCheck]
    by_cases hd : d = d'
    · subst hd
      split
      · simp [h2]
      · exact ⟨h1, h2⟩
    · split
      · refine ⟨?_, by simpa [upd, hd] using h2⟩
        simp only [upd, hd, if_false]
        split <;> simpa [upd, hd] using h1
      · exact ⟨h1, h2⟩
  | lsReplyPop o d' =>
    intro x h d
    obtain ⟨h1, h2⟩ := h d
    simp only [lsReplyPop]
    by_cases hd : d = d'
    · subst hd; simp [h2]
    · refine ⟨?_, h2⟩
      simp only [upd, hd, if_false]
      split <;> simpa [upd, hd] using h1
  | loctLearn d' =>
    intro x h d
    obtain ⟨h1, h2⟩ := h d
    simp only [loctLearn]
    refine ⟨?_, h2⟩
    by_cases hd : d = d'
    · subst hd
      simp only [upd_self, Bool.true_and]
      intro hp
      exact h1 (by simp [hp])
    · simpa [upd, hd] using h1
  | lsFlushSend o d' =>
    intro x h
    unfold lsFlushSend
    split
    · exact h
    · exact h
  | _ =>
    intro x h
    first
      | exact h
      | (simp only [getSN, readEgo, egoSwap, sendPkt, timerStart, timerCheck, gucLookup, lsStoreTimer, lsStoreTimer',
          lsReplyCancel]; exact h)
      | (simp only [cbfArrive, cbfExpire, cbfSend, dplCheck, lsFlushPick]
         split <;> exact h)

/-! ## lock discipline of the compiled programs -/

theorem WFp_sendLsReq (o d : Nat) (store : St → St) : WFp rank [] ((sendLsReq o d store).map TI.erase) := by
  simp [sendLsReq, tsect, TI.erase, WFp]

theorem WFp_flushIter (o d : Nat) : WFp rank [] ((flushIter o d).map TI.erase) := by
  simp [flushIter, tsect, TI.erase, WFp]

theorem WFp_compile (op : Op) : WFp rank [] (compile op) := by
  cases op with
  | guc o r d =>
    simp only [compile, compileT, List.map_append]
    refine WFp_append _ _ _ _ ?_ (WFp_sendLsReq o d _)
    simp [tsect, tsect2, TI.erase, WFp, rank, lkLocT, lkSN, lkLs]
  | lsReply o d n =>
    simp only [compile, compileT, List.map_append]
    refine WFp_append _ _ _ _ ?_ ?_
    · simp [tsect, tsect2, TI.erase, WFp, rank, lkLocT, lkLs]
    · rw [List.map_flatten, List.map_replicate]
      apply WFp_flatten
      intro p hp
      rw [List.mem_replicate] at hp
      rw [hp.2]
      exact WFp_flushIter o d
  | lsFire o d src mr =>
    simp only [compile, compileT, List.map_append]
    refine WFp_append _ _ _ _ ?_ (WFp_sendLsReq o d _)
    simp [tsect2, TI.erase, WFp, rank, lkLocT, lkLs]
  | _ => simp [compile, compileT, tsect, tsect2, TI.erase, WFp, rank, lkLocT, lkCbf, lkSN, lkEgo, lkDpl]

theorem WF_sys (threads : List (List Op)) : WF rank (sys threads) := by
  apply WF_mkSys
  intro p hp
  rw [List.mem_map] at hp
  obtain ⟨ops, _, rfl⟩ := hp
  apply WFp_flatten
  intro q hq
  rw [List.mem_map] at hq
  obtain ⟨op, _, rfl⟩ := hq
  exact WFp_compile op

end FlexModel.Conc.Router

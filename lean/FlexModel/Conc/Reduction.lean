/-
Mechanised reduction (Lipton, specialised to lock sections) for `Conc/Sched`: the block model in which a
`with lock:` section is ONE atomic block over-approximates the instruction-level model in which the section is a
run of micro-blocks, provided the micro-blocks obey the commutation discipline (which follows from "every access
to X is under lock L" + thread-local registers).  See `design_notes/REDUCTION.md`.

  Reduction/Fuse.lean     `pipe`, `fuse`, `annot`, `sectN`, `fuse_sectN`, `fuse_append`, `fuse_flatten`
  Reduction/Sim.lean      `Commute`, `Disc`, the simulation relation `Sim`, `Sim.update`
  Reduction/Step.lean     `sim_step`, `sim_run`
  Reduction/Main.lean     `Discipline`, `DisciplineL`, `reduction_general|complete|quiescent|invariant`,
                          `block_model_sound`
  Reduction/Frame.lean    read/write sets, `Protected`, `discipline_of_protected`, `lockCheck`, `protected_of_check`
  Reduction/Count.lean    counting rule `count_run`
  Reduction/Example.lean  lock-protected counter (load/add/store) and its unlocked twin
Headline statements: `Props/ConcReduction.lean`.
-/
import FlexModel.Conc.Reduction.Fuse
import FlexModel.Conc.Reduction.Sim
import FlexModel.Conc.Reduction.Step
import FlexModel.Conc.Reduction.Main
import FlexModel.Conc.Reduction.Frame
import FlexModel.Conc.Reduction.Count
import FlexModel.Conc.Reduction.Example

/-
C15 — the GeoNetworking router's shared state as atomic blocks over `Conc/Sched`.

Mirrors `geonet/router.py` (and the LocT get-or-create of `geonet/location_table.py`) at lock granularity:
  getSN            get_sequence_number            under sequence_number_lock
  readEgo          `self.ego_position_vector`     unlocked load of the immutable PV reference
  readEgoLocked    _send_ls_request_packet        the same load under ego_position_vector_lock
  egoSwap          refresh_ego_position_vector    under ego_position_vector_lock
  cbfArrive        gn_area_cbf_forwarding         under _cbf_lock (duplicate: pop+cancel | new: insert), nested loc_t_lock
  cbfExpire        _cbf_timeout                   under _cbf_lock (present: del, commit to send | absent: return)
  cbfSend          _cbf_timeout                   unlocked link_layer.send after the block
  gucLookup        gn_data_request_guc            LocationTable.get_entry under loc_t_lock
  lsEnsure         gn_ls_request 1st section     `with loc_t_lock: ensure_entry(dest).ls_pending = True` nested in _ls_lock:
                   placeholder LocTE created AND flagged in one loc_t_lock section (repair C01-F4)
  lsRegisterOrQueue gn_ls_request 1st section     the rest under _ls_lock (counter test, buffers, counters)
  lsStoreTimer     gn_ls_request / _ls_retransmit 2nd section under _ls_lock
  lsRetransmitCheck _ls_retransmit 1st section    under _ls_lock (give up: drop buffer | count+1)
  lsReplyPop       gn_data_indicate_ls_reply      under _ls_lock, nested loc_t_lock
  lsFlushPick      … `for req in buffered: gn_data_request_guc(req)`: each iteration runs the whole GeoUnicast
                   request body again (lookup; send | register/queue again + LS request), under its own operation id
  loctPurge        LocationTable.refresh_table    under loc_t_lock (drops an entry unconditionally; only used by the KF1 `_witness`)
  locTRefresh      LocationTable.refresh_table    under loc_t_lock: drops every entry that is expired (`exp`, an input: time is
                   not modelled) or has no position vector yet and no pending location service
  rxRecv           LocationTable.new_*_packet     get-or-create AND entry update (duplicate packet list, first PV) in ONE
                   loc_t_lock section (repair C15-locte-update-under-lock)
  rxGetOrCreate / rxDpl / rxPV                    the same code before the repair: create under loc_t_lock, then
                   check_duplicate_sn under the entry's dpl_lock, then update_position_vector under its
                   position_vector_lock – three blocks (dual variant; the old race is `dpl_at_most_once_witness`)
LocTEs are OBJECTS: `eid a` is the identity of the object stored for address `a`; a thread of the old variant keeps
the identity in a register and may update an object that a concurrent refresh_table already dropped from the table.
Branches are encoded with per-operation registers (`reg o slot`), i.e. thread-local variables.
The decomposition is tied to the source by `blocks_*` theorems below (`decide` against `Generated.Locks`).
Values are abstract: PVs, keys, destinations, request ids are `Nat`s.
-/
import FlexModel.Conc.Sched
import FlexModel.Geo.LocT
import Generated.Locks
import Generated.OpenFindings
import Generated.Mib

namespace FlexModel.Conc.Router
open FlexModel.Conc

/-! ## locks -/
def lkSN : Lock := 0
def lkCbf : Lock := 1
def lkLs : Lock := 2
def lkEgo : Lock := 3
def lkLocT : Lock := 4
/-- the rank used by the model programs (`_cbf_lock`, `_ls_lock` before `loc_t_lock`) -/
def rank : Lock → Nat := fun l => l

open Generated.Locks in
/-- the same rank on the generated lock names (entry locks and LDM locks are not used by the router blocks) -/
def lkRank : Lk → Nat
  | .Router_sequence_number_lock => 0
  | .Router__cbf_lock => 1
  | .Router__ls_lock => 2
  | .Router_ego_position_vector_lock => 3
  | .LocationTable_loc_t_lock => 4
  | .LocationTableEntry_position_vector_lock => 5
  | .LocationTableEntry_tst_lock => 5
  | .LocationTableEntry_pdr_lock => 5
  | .LocationTableEntry_dpl_lock => 5
  | .LDMMaintenanceThread_data_containers_lock => 1
  | .LDMServiceThreads_data_containers_lock => 1
  | .LDMMaintenanceReactive_lock => 1
  | .LDMServiceReactive_lock => 1
  | .LDMService__lock => 2
  | .DictionaryDataBase__lock => 3

/-! ## state -/

def M : Nat := 65535     -- 2**16 - 1, the modulus of get_sequence_number

structure Pkt where
  kind : Nat      -- 0 SHB, 1 GBC, 2 GUC, 3 LS request, 4 CBF re-broadcast
  ref : Nat       -- request id / CBF key / sought destination
  sn : Nat        -- sequence number (0 when the packet type has none)
  pv : Nat        -- ego position vector carried (CBF re-broadcasts carry the source's PV: 0)
  deriving DecidableEq, Repr

structure St where
  sn : Nat := 0
  snLog : List Nat := []            -- values returned by get_sequence_number, newest first
  ego : Nat := 0
  egoHist : List Nat := [0]         -- every PV ever installed, newest first (initial PV = 0)
  sent : List Pkt := []             -- link_layer.send calls, newest first
  cbf : Nat → Bool := fun _ => false   -- key ∈ _cbf_buffer
  cbfTok : Nat → Nat := fun _ => 0     -- the timer stored for the key (id of the inserting operation)
  cbfIns : Nat → Nat := fun _ => 0     -- insert blocks per key
  cbfCan : Nat → Nat := fun _ => 0     -- duplicate-cancel blocks per key
  cbfCom : Nat → Nat := fun _ => 0     -- expire blocks that found the key (committed to send)
  cbfSent : Nat → Nat := fun _ => 0    -- sends of the key's packet
  cbfPend : Nat → Nat := fun _ => 0    -- expire blocks that committed and have not sent yet
  tStarted : Nat → Bool := fun _ => false    -- Timer.start() was called (timer id = creating operation)
  tCancelled : Nat → Bool := fun _ => false  -- Timer.cancel() was called
  loct : Nat → Bool := fun _ => false      -- LocT has an entry for the address
  eid : Nat → Nat := fun _ => 0            -- identity of the LocTE object stored for the address (meaningful iff `loct`)
  eNext : Nat := 0                         -- LocTE objects constructed so far (identities 1 … eNext)
  ePV : Nat → Bool := fun _ => false       -- per object: `position_vector is not _NO_POSITION_VECTOR`
  eDpl : Nat → List Nat := fun _ => []     -- per object: dpl_deque (oldest first)
  pending : Nat → Bool := fun _ => false   -- entry.ls_pending
  lsBuf : Nat → List Nat := fun _ => []    -- _ls_packet_buffers
  lsCnt : Nat → Option Nat := fun _ => none  -- _ls_retransmit_counters
  lsTimer : Nat → Option Nat := fun _ => none   -- _ls_timers (timer id)
  -- ghost bookkeeping per destination (not in the code; what the property talks about)
  lsQueued : Nat → List Nat := fun _ => []   -- request ids ever stored in the buffer
  lsFlight : Nat → List Nat := fun _ => []   -- popped by a reply block, not yet re-submitted by that thread
  lsSent : Nat → List Nat := fun _ => []     -- buffered requests sent after a reply
  lsDropped : Nat → List Nat := fun _ => []  -- buffered requests dropped by the give-up block
  lsLost : Nat → List Nat := fun _ => []     -- buffered requests overwritten by a new registration
  lsPops : Nat → Nat := fun _ => 0           -- reply blocks executed for the destination
  -- ghost bookkeeping of duplicate detection (not in the code; what the property talks about)
  ePass : Nat → List Nat := fun _ => []      -- per object: SNs that passed check_duplicate_sn on it, oldest first
  srcPass : Nat → List Nat := fun _ => []    -- per source: SNs that passed since the source's entry was last purged
  srcLives : Nat → List (List Nat) := fun _ => []  -- per source: the `srcPass` lists closed by a purge of its entry
  reg : Nat → Nat → Nat := fun _ _ => 0        -- thread-local scalars of operation o
  regL : Nat → List Nat := fun _ => []         -- thread-local list of operation o (`buffered`)
  err : Nat := 0                    -- exceptions raised by blocks (KeyError of `del`)

def upd {α : Type} (f : Nat → α) (k : Nat) (v : α) : Nat → α := fun i => if i = k then v else f i
def upd2 (f : Nat → Nat → Nat) (o k v : Nat) : Nat → Nat → Nat := fun i j => if i = o ∧ j = k then v else f i j

@[simp] theorem upd_self {α : Type} (f : Nat → α) (k : Nat) (v : α) : upd f k v k = v := by simp [upd]
@[simp] theorem upd_ne {α : Type} (f : Nat → α) (k j : Nat) (v : α) (h : j ≠ k) : upd f k v j = f j := by simp [upd, h]

/-! ## blocks
registers of operation `o`: 0 SN, 1 PV, 2 CBF outcome (1 = expire block found the key / arrive block inserted),
3 destination known, 4 "an LS request has to go out", 5/6 flush loop, 7 timer check, 8 popped timer, 9 DPL (1 = not a duplicate),
10 a timer was popped, 12 the LocTE object held by a reception (`entry`), 13 `is_new_entry` -/

/-- `with sequence_number_lock: self.sequence_number = (self.sequence_number + 1) % (2**16 - 1); return it` -/
def getSN (o : Nat) (s : St) : St :=
  let v := (s.sn + 1) % M
  { s with sn := v, snLog := v :: s.snLog, reg := upd2 s.reg o 0 v }

/-- unlocked `self.ego_position_vector` (also used for the load under the lock in `_send_ls_request_packet`) -/
def readEgo (o : Nat) (s : St) : St := { s with reg := upd2 s.reg o 1 s.ego }

/-- `with ego_position_vector_lock: self.ego_position_vector = …refresh_with_tpv_data(tpv)` (fresh PV `v`) -/
def egoSwap (v : Nat) (s : St) : St := { s with ego := v, egoHist := v :: s.egoHist }

/-- a store to `self.ego_position_vector` that is NOT the publication of a fix: the intermediate value of a refresh that
assigns the attribute more than once (new position, accuracy flag of the previous fix, …).  No compiled program contains
it – `refresh_ego_position_vector` rebinds the attribute exactly once (`ego_single_store`, regenerated from the source);
used by `Props.C15.pv_was_ego_witness` only, which shows what a second store would break. -/
def egoStore (v : Nat) (s : St) : St := { s with ego := v }

/-- the refresh with two stores inside its `ego_position_vector_lock` section (readers take no lock, the section does not
make the two stores atomic for them) -/
def twoStoreRefresh (mid v : Nat) : List (Instr St) := [.acq lkEgo, .blk (egoStore mid), .blk (egoSwap v), .rel lkEgo]

/-- `link_layer.send` of an originated packet carrying the SN and PV read before -/
def sendPkt (o kind ref : Nat) (useSN : Bool) (s : St) : St :=
  { s with sent := ⟨kind, ref, if useSN then s.reg o 0 else 0, s.reg o 1⟩ :: s.sent }

/-- run `f` only in the branch where register `slot` of `o` has value `v` -/
def whenReg (o slot v : Nat) (f : St → St) (s : St) : St := if s.reg o slot = v then f s else s

/-- `del self._cbf_buffer[k]` / `self._cbf_buffer.pop(k)` (no default): removes the key – and raises KeyError, i.e. the
thread FAILS, when the key is absent.  The two call sites below run it in the section that has just seen the key. -/
def cbfDel (k : Nat) (s : St) : St :=
  if s.cbf k then { s with cbf := upd s.cbf k false } else { s with err := s.err + 1 }

/-- gn_area_cbf_forwarding under `_cbf_lock`: duplicate (`if key in buf`) → `pop(key)` + cancel; new → insert (timer id = `o`) -/
def cbfArrive (o k : Nat) (s : St) : St :=
  if s.cbf k then
    { s with cbf := (cbfDel k s).cbf, err := (cbfDel k s).err, cbfCan := upd s.cbfCan k (s.cbfCan k + 1),
             tCancelled := upd s.tCancelled (s.cbfTok k) true, reg := upd2 s.reg o 2 0 }
  else
    { s with cbf := upd s.cbf k true, cbfIns := upd s.cbfIns k (s.cbfIns k + 1), cbfTok := upd s.cbfTok k o,
             reg := upd2 s.reg o 2 1 }

/-- `timer.start()` after the section (only when the packet was buffered) -/
def timerStart (o : Nat) (s : St) : St := { s with tStarted := upd s.tStarted o true }

/-- threading.Timer.run: `if not self.finished.is_set(): self.function(...)` for the timer created by `src` -/
def timerCheck (o src : Nat) (s : St) : St :=
  { s with reg := upd2 s.reg o 7 (if s.tStarted src && !s.tCancelled src then 1 else 0) }

/-- `_cbf_timeout` under `_cbf_lock`: `if key not in buf: return` else `del buf[key]` (KeyError if absent) -/
def cbfExpire (o k : Nat) (s : St) : St :=
  if s.cbf k then
    { s with cbf := (cbfDel k s).cbf, err := (cbfDel k s).err, cbfCom := upd s.cbfCom k (s.cbfCom k + 1),
             cbfPend := upd s.cbfPend k (s.cbfPend k + 1), reg := upd2 s.reg o 2 1 }
  else { s with reg := upd2 s.reg o 2 0 }

/-- the two halves of `cbfExpire` as separate steps (what `_cbf_timeout` would be if the membership test and the `del`
were NOT in one `_cbf_lock` section; used by `no_thread_fails_witness` only): the test … -/
def cbfCheck (o k : Nat) (s : St) : St := { s with reg := upd2 s.reg o 2 (if s.cbf k then 1 else 0) }

/-- … and the `del` with the commit bookkeeping -/
def cbfDelCommit (k : Nat) (s : St) : St :=
  { s with cbf := (cbfDel k s).cbf, err := (cbfDel k s).err, cbfCom := upd s.cbfCom k (s.cbfCom k + 1),
           cbfPend := upd s.cbfPend k (s.cbfPend k + 1) }

/-- executed without interruption the two halves are the one-section block -/
theorem cbfExpire_eq_split (o k : Nat) (s : St) : cbfExpire o k s = whenReg o 2 1 (cbfDelCommit k) (cbfCheck o k s) := by
  unfold cbfExpire whenReg cbfCheck cbfDelCommit cbfDel
  by_cases h : s.cbf k = true <;> simp [h, upd2]

/-- `_cbf_timeout` after the lock: send iff the expire block found the key -/
def cbfSend (o k : Nat) (s : St) : St :=
  if s.reg o 2 = 1 ∧ 0 < s.cbfPend k then
    { s with sent := ⟨4, k, 0, 0⟩ :: s.sent, cbfSent := upd s.cbfSent k (s.cbfSent k + 1),
             cbfPend := upd s.cbfPend k (s.cbfPend k - 1), reg := upd2 s.reg o 2 0 }
  else s

/-- `_cbf_discard` (fix C06-cbf-duplicate-discards) under `_cbf_lock`: a duplicate recognised by the DPL pops the
buffered copy; the timer is cancelled after the section -/
def cbfDiscard (o k : Nat) (s : St) : St :=
  if s.cbf k then
    { s with cbf := upd s.cbf k false, cbfCan := upd s.cbfCan k (s.cbfCan k + 1),
             reg := upd2 (upd2 s.reg o 8 (s.cbfTok k)) o 10 1 }
  else { s with reg := upd2 s.reg o 10 0 }

/-! `_cbf_discard` with a LOCK-FREE look-up in front of the section – NOT the code (`blocks_cbf_discard`: the function is ONE
`_cbf_lock` section containing its only access to the buffer); used by `Props.C15.cbf_discard_unlocked_witness` only, which
shows what the section buys: removal by the discard and removal by the expiry exclude each other. -/

/-- `old_timer = self._cbf_buffer.get(key)` without the lock; `if old_timer is None: return False` -/
def cbfPeek (o k : Nat) (s : St) : St :=
  { s with reg := upd2 (upd2 s.reg o 8 (s.cbfTok k)) o 10 (if s.cbf k then 1 else 0) }

/-- `old_timer.cancel()`, then `pop(key, None)` under the lock, `return True`: the discard reports a completed cancellation
whether or not the entry it saw is still there -/
def cbfPopLate (o k : Nat) (s : St) : St :=
  if s.reg o 10 = 1 then
    { s with cbf := upd s.cbf k false, cbfCan := upd s.cbfCan k (s.cbfCan k + 1), tCancelled := upd s.tCancelled (s.reg o 8) true }
  else s

def discardUnlocked (o k : Nat) : List (Instr St) := [.blk (cbfPeek o k), .acq lkCbf, .blk (cbfPopLate o k), .rel lkCbf]

/-- the code: the section, then `old_timer.cancel()` -/
def discardLocked (o k : Nat) : List (Instr St) :=
  [.acq lkCbf, .blk (cbfDiscard o k), .rel lkCbf,
   .blk (whenReg o 10 1 (fun s => { s with tCancelled := upd s.tCancelled (s.reg o 8) true }))]

/-- `de_entry = self.location_table.get_entry(dest)`; usable (register 3 := 1) iff it exists and (`fx`, commit
"GeoUnicast requests issued during a pending location-service lookup keep their order") is not a pending placeholder;
otherwise register 3 := 2 (0 = the request body is not active) -/
def gucLookup (fx : Bool) (o d : Nat) (s : St) : St :=
  { s with reg := upd2 s.reg o 3 (if s.loct d && !(fx && s.pending d) then 1 else 2) }

/-- the request handled by operation `o`: request id in register 6, register 11 = 1 iff it was popped by a reply block
and is being re-submitted (`for req in buffered: self.gn_data_request_guc(req)`); register 5 := 1 activates the body -/
def gucInit (o r : Nat) (s : St) : St := { s with reg := upd2 (upd2 (upd2 s.reg o 6 r) o 11 0) o 5 1 }

/-- `link_layer.send` of the GeoUnicast packet.  For a re-submitted request the ghost bookkeeping moves it from
"in flight" to "sent"; the ghost guard `∈ lsFlight d` says that the request held in the thread-local variable is one
that a reply block popped and that has not been handled yet (redundant when operation ids are unique; the
correspondence driver runs the same definition). -/
def gucSend (o d : Nat) (s : St) : St :=
  let r := s.reg o 6
  if s.reg o 11 = 1 then
    if r ∈ s.lsFlight d then
      { s with sent := ⟨2, r, s.reg o 0, s.reg o 1⟩ :: s.sent, lsSent := upd s.lsSent d (r :: s.lsSent d),
               lsFlight := upd s.lsFlight d ((s.lsFlight d).erase r) }
    else s
  else { s with sent := ⟨2, r, s.reg o 0, s.reg o 1⟩ :: s.sent }

/-- `itsGnDPLLength`: length of the duplicate packet list (ring) of a LocTE -/
def dplLen : Nat := Generated.Mib.itsGnDPLLength

/-- `entry = LocationTableEntry(self.mib); self.loc_t[a] = entry` (inside a `loc_t_lock` section): a NEW object –
no position vector, empty duplicate packet list, `ls_pending = False` -/
def newEntry (a : Nat) (s : St) : St :=
  { s with loct := upd s.loct a true, pending := upd s.pending a false, eid := upd s.eid a (s.eNext + 1), eNext := s.eNext + 1,
           ePV := upd s.ePV (s.eNext + 1) false, eDpl := upd s.eDpl (s.eNext + 1) [], ePass := upd s.ePass (s.eNext + 1) [] }

/-- `location_table.ensure_entry(dest)`: fetch the LocTE or create the placeholder -/
def lsEnsure0 (d : Nat) (s : St) : St := if s.loct d then s else newEntry d s

/-- `….ls_pending = True` on the entry just fetched / created (same `loc_t_lock` section: it is the entry of the table) -/
def lsFlag (d : Nat) (s : St) : St := { s with pending := upd s.pending d true }

/-- `with self.location_table.loc_t_lock: self.location_table.ensure_entry(dest).ls_pending = True` inside the `_ls_lock`
section of gn_ls_request (both branches of the code run it; repair C01-F4, /repo 36b8bac): the placeholder LocTE is created
(or fetched) AND flagged in ONE `loc_t_lock` section – no `get_entry` / refresh_table of another thread ever sees the
placeholder without its flag (before that repair `ensure_entry` and the store of the flag were two steps: a concurrent
GeoUnicast request found an unflagged all-zero entry, a concurrent refresh_table dropped it). -/
def lsEnsure (d : Nat) (s : St) : St := lsFlag d (lsEnsure0 d s)

/-- the rest of the first `_ls_lock` section of gn_ls_request, without the ghost bookkeeping.
`fx = true` (code with the LS-order commit): a lookup in progress is recognised by its retransmit counter; the entry was
created/fetched and flagged by `lsEnsure` just before (own `loc_t_lock` section nested in this `_ls_lock` section).  The
code evaluates `(entry is not None and entry.ls_pending) or dest in self._ls_retransmit_counters` at the START of the
section, the model evaluates the counter test here and leaves the first disjunct out: the counter only changes inside
`_ls_lock` sections, and whenever `_ls_lock` is free a flagged entry in the table has a counter (the flag is set only by
this function, which sets / finds the counter before it leaves; reply and give-up remove flag and counter together) – so
the first disjunct never decides.  That the section does read the counters is the regenerated fact
`ls_request_checks_counter`.
`fx = false` (code before that commit): condition on the entry alone; the new-lookup branch creates and flags the entry. -/
def lsRegCore (fx : Bool) (o r d : Nat) (s : St) : St :=
  if (fx && (s.lsCnt d).isSome) || (!fx && (s.loct d && s.pending d)) then
    { s with lsBuf := upd s.lsBuf d (s.lsBuf d ++ [r]), reg := upd2 s.reg o 4 0 }
  else
    { s with loct := if fx then s.loct else upd s.loct d true,
             pending := if fx then s.pending else upd s.pending d true,
             lsLost := upd s.lsLost d (s.lsBuf d ++ s.lsLost d),
             lsBuf := upd s.lsBuf d [r], lsCnt := upd s.lsCnt d (some 0), reg := upd2 s.reg o 4 1 }

/-- … with the ghost bookkeeping: a fresh request is recorded as queued; a re-submitted one (register 11 = 1, ghost
guard as in `gucSend`) goes from "in flight" back into the buffer -/
def lsRegisterOrQueue (fx : Bool) (o d : Nat) (s : St) : St :=
  let r := s.reg o 6
  if s.reg o 11 = 1 then
    if r ∈ s.lsFlight d then
      let t := lsRegCore fx o r d s
      { t with lsFlight := upd t.lsFlight d ((t.lsFlight d).erase r) }
    else s
  else
    let t := lsRegCore fx o r d s
    { t with lsQueued := upd t.lsQueued d (r :: t.lsQueued d) }

/-- the registration section WITHOUT the retransmit-counter test (`if entry is not None and entry.ls_pending:` alone, as
if a flagged LocTE could not leave the table while the lookup runs).  Not the code: `ls_request_checks_counter`
(regenerated from the source) says the section reads `_ls_retransmit_counters`; used by
`Props.C15.ls_exactly_once_counter_witness` only.  The test is made on the entry fetched at the start of the section
(register 14), before `lsEnsure` flags it. -/
def lsCheckNC (o d : Nat) (s : St) : St := { s with reg := upd2 s.reg o 14 (if s.loct d && s.pending d then 1 else 0) }

def lsRegCoreNC (o r d : Nat) (s : St) : St :=
  if s.reg o 14 = 1 then
    { s with lsBuf := upd s.lsBuf d (s.lsBuf d ++ [r]), reg := upd2 s.reg o 4 0 }
  else
    { s with lsLost := upd s.lsLost d (s.lsBuf d ++ s.lsLost d),
             lsBuf := upd s.lsBuf d [r], lsCnt := upd s.lsCnt d (some 0), reg := upd2 s.reg o 4 1 }

def lsRegisterOrQueueNC (o d : Nat) (s : St) : St :=
  let t := lsRegCoreNC o (s.reg o 6) d s
  { t with lsQueued := upd t.lsQueued d (s.reg o 6 :: t.lsQueued d) }

/-- second `_ls_lock` section of gn_ls_request: `old = pop; if old: old.cancel(); _ls_timers[dest] = timer` -/
def lsStoreTimer (o d : Nat) (s : St) : St :=
  { s with lsTimer := upd s.lsTimer d (some o),
           tCancelled := match s.lsTimer d with | some t => upd s.tCancelled t true | none => s.tCancelled }

/-- second `_ls_lock` section of `_ls_retransmit`: `_ls_timers[dest] = timer` -/
def lsStoreTimer' (o d : Nat) (s : St) : St := { s with lsTimer := upd s.lsTimer d (some o) }

def maxRetrans : Nat := Generated.Mib.itsGnLocationServiceMaxRetrans

/-- first `_ls_lock` section of `_ls_retransmit` (`mr` = itsGnLocationServiceMaxRetrans of the scenario) -/
def lsRetransmitCheck (mr o d : Nat) (s : St) : St :=
  let c := (s.lsCnt d).getD 0
  if c ≥ mr then
    { s with lsDropped := upd s.lsDropped d (s.lsBuf d ++ s.lsDropped d), lsBuf := upd s.lsBuf d [], lsTimer := upd s.lsTimer d none,
             lsCnt := upd s.lsCnt d none, pending := if s.loct d then upd s.pending d false else s.pending,
             reg := upd2 s.reg o 4 0 }
  else { s with lsCnt := upd s.lsCnt d (some (c + 1)), reg := upd2 s.reg o 4 1 }

/-- LocationTable.new_ls_reply_packet: entry created/updated (position vector) under loc_t_lock; the reply's own sequence
number is not tracked -/
def loctLearn (d : Nat) (s : St) : St :=
  let t := if s.loct d then s else newEntry d s
  { t with ePV := upd t.ePV (t.eid d) true }

/-- `_ls_lock` section of gn_data_indicate_ls_reply -/
def lsReplyPop (o d : Nat) (s : St) : St :=
  { s with lsTimer := upd s.lsTimer d none, lsCnt := upd s.lsCnt d none,
           reg := upd2 (upd2 s.reg o 8 ((s.lsTimer d).getD 0)) o 10 (if (s.lsTimer d).isSome then 1 else 0),
           regL := upd s.regL o (s.lsBuf d), lsFlight := upd s.lsFlight d (s.lsBuf d ++ s.lsFlight d), lsBuf := upd s.lsBuf d [],
           lsPops := upd s.lsPops d (s.lsPops d + 1),
           pending := if s.loct d then upd s.pending d false else s.pending }

/-- the section with `buffered = self._ls_packet_buffers.get(addr, [])` instead of `.pop(addr, [])` – NOT the code (the pop is
what hands every buffered request to exactly ONE reply thread: `lsReplyPop_empties`); used by
`Props.C15.ls_flush_twice_witness` only.  The entry is deleted after the flush loop (`lsReplyForget`). -/
def lsReplyPeek (o d : Nat) (s : St) : St :=
  { lsReplyPop o d s with lsBuf := s.lsBuf }

/-- (`if self._ls_packet_buffers.get(addr) is buffered: del …` – the identity test is not modelled: no request is buffered in
between in the witness) -/
def lsReplyForget (d : Nat) (s : St) : St := { s with lsBuf := upd s.lsBuf d [] }

/-- after the reply section the buffer of the destination is empty: a second reply handled afterwards – by whatever thread, at
whatever later point, unless a new request was buffered in between – gets nothing to flush -/
theorem lsReplyPop_empties (o d : Nat) (s : St) : (lsReplyPop o d s).lsBuf d = [] := by simp [lsReplyPop, upd]

theorem lsReplyPop_second_gets_nothing (o o' d : Nat) (s : St) : (lsReplyPop o' d (lsReplyPop o d s)).regL o' = [] := by
  simp [lsReplyPop, upd]

/-- `if timer is not None: timer.cancel()` after the section -/
def lsReplyCancel (o : Nat) (s : St) : St := { s with tCancelled := upd s.tCancelled (s.reg o 8) true }

/-- one iteration of `for req in buffered: self.gn_data_request_guc(req)`: pick the next request of the reply operation
`o` (thread-local list) for the iteration's own operation id `ok` -/
def lsFlushPick (o ok : Nat) (s : St) : St :=
  match s.regL o with
  | [] => { s with reg := upd2 s.reg ok 5 0 }
  | r :: rest => { s with regL := upd s.regL o rest, reg := upd2 (upd2 (upd2 s.reg ok 5 1) ok 6 r) ok 11 1 }

/-- LocationTable.refresh_table dropping the entry of `d` (a placeholder has TST 0 and is always "expired") -/
def loctPurge (d : Nat) (s : St) : St :=
  { s with loct := upd s.loct d false, pending := upd s.pending d false,
           srcLives := if s.loct d then upd s.srcLives d (s.srcPass d :: s.srcLives d) else s.srcLives,
           srcPass := upd s.srcPass d [] }

/-! ### LocTE life cycle (LocationTable.refresh_table / new_*_packet) -/

/-- keep-condition of refresh_table for the entry of `a`: an entry without position vector (Location Service
placeholder, or – before repair C15-locte-update-under-lock – an entry whose creator has not updated it yet) is kept
exactly while its LS is pending; otherwise it is kept unless its PV aged out (`a ∈ exp`; which PVs are older than
itsGnLifetimeLocTE at this instant is an input of the block: time is not modelled) -/
def keepE (exp : List Nat) (s : St) (a : Nat) : Bool :=
  if s.ePV (s.eid a) then !exp.contains a else s.pending a

/-- `with loc_t_lock: self.loc_t = {gn: e for gn, e in self.loc_t.items() if keep(e)}`; dropping an entry ends the
current life of its source (ghost: `srcPass` is closed into `srcLives`) -/
def locTRefresh (exp : List Nat) (s : St) : St :=
  { s with loct := fun a => s.loct a && keepE exp s a,
           pending := fun a => if s.loct a && !keepE exp s a then false else s.pending a,
           srcLives := fun a => if s.loct a && !keepE exp s a then s.srcPass a :: s.srcLives a else s.srcLives a,
           srcPass := fun a => if s.loct a && !keepE exp s a then [] else s.srcPass a }

/-- `entry = self.loc_t.get(a); is_new_entry = entry is None; if is_new_entry: entry = LocationTableEntry(); loc_t[a] = entry`
(register 12 := the object, register 13 := is_new_entry) -/
def rxGetOrCreate (o a : Nat) (s : St) : St :=
  if s.loct a then { s with reg := upd2 (upd2 s.reg o 12 (s.eid a)) o 13 0 }
  else { newEntry a s with reg := upd2 (upd2 s.reg o 12 (s.eNext + 1)) o 13 1 }

/-- LocationTableEntry.check_duplicate_sn of object `e` under its `dpl_lock` (`mh = false`: SHB / beacon, no sequence
number, no duplicate detection): a duplicate raises DuplicatedPacketException (register 9 := 0), otherwise the SN is
pushed into the ring (`FlexModel.Geo.dplPush`, the definition of C06/C08) and the reception counts as passed -/
def dplOn (mh : Bool) (o a k e : Nat) (s : St) : St :=
  if mh then
    if (s.eDpl e).contains k then { s with reg := upd2 s.reg o 9 0 }
    else { s with eDpl := upd s.eDpl e (FlexModel.Geo.dplPush dplLen (s.eDpl e) k), ePass := upd s.ePass e (s.ePass e ++ [k]),
                  srcPass := upd s.srcPass a (s.srcPass a ++ [k]), reg := upd2 s.reg o 9 1 }
  else { s with reg := upd2 s.reg o 9 1 }

/-- … on the object the thread holds in its local variable `entry` -/
def rxDpl (mh : Bool) (o a k : Nat) (s : St) : St := dplOn mh o a k (s.reg o 12) s

/-- LocationTableEntry.update_position_vector of the held object under its `position_vector_lock` (not reached after
DuplicatedPacketException): the object has a position vector from now on -/
def rxPV (o : Nat) (s : St) : St := if s.reg o 9 = 1 then { s with ePV := upd s.ePV (s.reg o 12) true } else s

/-- the repaired new_*_packet: get-or-create, duplicate detection and PV update in ONE `loc_t_lock` section -/
def rxRecv (mh : Bool) (o a k : Nat) (s : St) : St := rxPV o (rxDpl mh o a k (rxGetOrCreate o a s))

/-! ### neighbour scan (LocationTable.get_neighbours: `for … in self.loc_t.items()`)
Every origination and every forwarder scans the table.  A dict iterator remembers the size of the dict when it is
created and raises RuntimeError ("dictionary changed size during iteration") at its next step if the size differs.
The table object grows in place exactly when a LocTE object is constructed (`newEntry`; refresh_table REPLACES the dict,
`Generated.Locks.rebinds`), so `eNext` stands for the size of the dict being scanned.  The compiled programs do not
contain the scan (it has no effect on the modelled state when it runs as one `loc_t_lock` section:
`scan_in_section`); the two halves are used by `Props.C15.no_thread_fails_scan_witness`. -/

/-- `iter(self.loc_t.items())`: register 14 := size seen by the iterator -/
def scanBegin (o : Nat) (s : St) : St := { s with reg := upd2 s.reg o 14 s.eNext }

/-- the iterator's next step: raises (the scanning thread FAILS) when the table grew since `scanBegin` -/
def scanNext (o : Nat) (s : St) : St := if s.reg o 14 = s.eNext then s else { s with err := s.err + 1 }

/-- get_neighbours as it is: the whole scan inside one `loc_t_lock` section -/
def scanLocked (o : Nat) : List (Instr St) := [.acq lkLocT, .blk (scanBegin o), .blk (scanNext o), .rel lkLocT]

/-- the scan without the lock -/
def scanUnlocked (o : Nat) : List (Instr St) := [.blk (scanBegin o), .blk (scanNext o)]

/-- executed without interruption – i.e. as ONE block, which is what the `loc_t_lock` section makes of it
(`blocks_get_neighbours`, `guarded`, `Props.C15.sections_atomic`) – the scan never raises -/
theorem scan_in_section (o : Nat) (s : St) : (scanNext o (scanBegin o s)).err = s.err := by
  simp [scanNext, scanBegin, upd2]

/-! ## operations and their programs -/

inductive Op where
  | sn (o : Nat)                    -- get_sequence_number alone
  | shb (o : Nat)                   -- gn_data_request_shb
  | gbc (o : Nat)                   -- gn_data_request_gbc
  | ego (v : Nat)                   -- refresh_ego_position_vector
  | cbfArrive (o k : Nat)           -- gn_area_cbf_forwarding (forwarder operation for key k)
  | gbcRx (o a k : Nat) (lk disc : Bool) (exp : List Nat)
      -- gn_data_indicate of a GBC frame of source a with sequence number k (LocT update incl. DPL, then CBF with key k;
      -- `lk`: LocTE updated inside the loc_t_lock section (repaired code); `disc`: duplicates discard the buffered copy;
      -- `exp`: addresses whose PV is older than the LocTE lifetime when the frame arrives)
  | shbRx (o a : Nat) (lk : Bool) (exp : List Nat)   -- gn_data_indicate of a SHB / beacon frame of station a (no DPL)
  | refresh (exp : List Nat)        -- LocationTable.refresh_table alone
  | cbfFire (o k src : Nat)         -- timer thread of the timer created by `src`: _cbf_timeout
  | guc (o r d : Nat) (fx : Bool)   -- gn_data_request_guc of request r to destination d (`fx`: code with the LS-order commit)
  | lsReply (o d n : Nat) (fx : Bool)  -- gn_data_indicate_ls_reply from d (flush loop unrolled n times; iteration k has id 1000(k+1)+o)
  | lsFire (o d src mr : Nat)       -- timer thread of the timer created by `src`: _ls_retransmit
  | purge (d : Nat)                 -- refresh_table dropping d (behaviour before fix C15-ls-placeholder-purge)
  deriving DecidableEq, Repr

def lkDpl : Lock := 5
def lkPv : Lock := 6

/-- tagged instructions: the tags only tell the correspondence driver which steps are invisible to other threads
(`gblk` with a false guard, `loc`, `nop`); the semantics and all theorems use the erased program -/
inductive TI where
  | acq (l : Lock)
  | rel (l : Lock)
  | blk (f : St → St)                      -- block reading or writing shared state
  | gblk (o slot v : Nat) (f : St → St)    -- the same in a branch selected by the thread-local register (o, slot) = v
  | loc (f : St → St)                      -- touches only registers of its own operation
  | nop                                    -- code without modelled effect (keeps the lock structure)

def TI.erase : TI → Instr St
  | .acq l => .acq l
  | .rel l => .rel l
  | .blk f => .blk f
  | .gblk o slot v f => .blk (whenReg o slot v f)
  | .loc f => .blk f
  | .nop => .blk id

def tsect (l : Lock) (i : TI) : List TI := [.acq l, i, .rel l]
/-- a section under `l1` with a nested acquisition of `l2` (LocT lookups made while `_cbf_lock`/`_ls_lock` is held) -/
def tsect2 (l1 l2 : Lock) (i : TI) : List TI := [.acq l1, i, .acq l2, .nop, .rel l2, .rel l1]

/-- `_send_ls_request_packet`, `Timer(...).start()` and the timer store, guarded by register 4 of `o` -/
def sendLsReq (o d : Nat) (store : St → St) : List TI :=
  tsect lkEgo (.gblk o 4 1 (readEgo o)) ++ tsect lkSN (.gblk o 4 1 (getSN o)) ++
  [.gblk o 4 1 (sendPkt o 3 d true), .gblk o 4 1 (timerStart o)] ++ tsect lkLs (.gblk o 4 1 store)

/-- the body of gn_data_request_guc for the request held in register 6 of `o` (active iff register 5 = 1) -/
def gucBody (o d : Nat) (fx : Bool) : List TI :=
  tsect lkLocT (.gblk o 5 1 (gucLookup fx o d)) ++
  -- usable destination: SN, PV, send
  tsect lkSN (.gblk o 3 1 (getSN o)) ++ [.gblk o 3 1 (readEgo o), .gblk o 3 1 (gucSend o d)] ++
  -- otherwise: location service
  (if fx then [.acq lkLs, .acq lkLocT, .gblk o 3 2 (lsEnsure d), .rel lkLocT, .gblk o 3 2 (lsRegisterOrQueue fx o d), .rel lkLs]
   else tsect2 lkLs lkLocT (.gblk o 3 2 (lsRegisterOrQueue fx o d))) ++ sendLsReq o d (lsStoreTimer o d)

def flushIter (o d : Nat) (fx : Bool) (k : Nat) : List TI :=
  [.loc (lsFlushPick o (1000 * (k + 1) + o))] ++ gucBody (1000 * (k + 1) + o) d fx

/-- LocationTable.new_*_packet for a frame of source `a` with sequence number `k`: refresh_table; get-or-create and
entry update – ONE `loc_t_lock` section taking the entry locks inside (`lk`, repaired code) or a `loc_t_lock` section
followed by the unprotected update (old code); refresh_table again unless DuplicatedPacketException was raised -/
def rxProg (o a k : Nat) (mh lk : Bool) (exp : List Nat) : List TI :=
  tsect lkLocT (.blk (locTRefresh exp)) ++
  (if lk then [.acq lkLocT, .blk (rxRecv mh o a k), .acq lkDpl, .nop, .rel lkDpl, .rel lkLocT]
   else tsect lkLocT (.blk (rxGetOrCreate o a)) ++ tsect lkDpl (.blk (rxDpl mh o a k)) ++ tsect lkPv (.blk (rxPV o))) ++
  tsect lkLocT (.gblk o 9 1 (locTRefresh exp))

def compileT : Op → List TI
  | .sn o => tsect lkSN (.blk (getSN o))
  | .shb o => [.blk (readEgo o), .blk (sendPkt o 0 o false)]
  | .gbc o => tsect lkSN (.blk (getSN o)) ++ [.blk (readEgo o), .blk (sendPkt o 1 o true)]
  | .ego v => tsect lkEgo (.blk (egoSwap v))
  | .cbfArrive o k => tsect2 lkCbf lkLocT (.blk (cbfArrive o k)) ++ [.gblk o 2 1 (timerStart o)]
  | .gbcRx o a k lk disc exp =>
      rxProg o a k true lk exp ++
      tsect2 lkCbf lkLocT (.gblk o 9 1 (cbfArrive o k)) ++ [.gblk o 9 1 (whenReg o 2 1 (timerStart o))] ++
      (if disc then tsect lkCbf (.gblk o 9 0 (cbfDiscard o k)) ++ [.gblk o 10 1 (lsReplyCancel o)] else [])
  | .cbfFire o k src =>
      [.blk (timerCheck o src)] ++ tsect lkCbf (.gblk o 7 1 (cbfExpire o k)) ++ [.gblk o 2 1 (cbfSend o k)]
  | .guc o r d fx => [.loc (gucInit o r)] ++ gucBody o d fx
  | .lsReply o d n fx =>
      tsect lkLocT (.blk (loctLearn d)) ++ tsect2 lkLs lkLocT (.blk (lsReplyPop o d)) ++ [.gblk o 10 1 (lsReplyCancel o)] ++
      ((List.range n).map (flushIter o d fx)).flatten
  | .lsFire o d src mr =>
      [.blk (timerCheck o src)] ++ tsect2 lkLs lkLocT (.gblk o 7 1 (lsRetransmitCheck mr o d)) ++
      sendLsReq o d (lsStoreTimer' o d)
  | .purge d => tsect lkLocT (.blk (loctPurge d))
  | .shbRx o a lk exp => rxProg o a 0 false lk exp
  | .refresh exp => tsect lkLocT (.blk (locTRefresh exp))

def compile (op : Op) : List (Instr St) := (compileT op).map TI.erase

/-- `guc o r d true` with the registration section replaced by the variant without the counter test: the entry is fetched
and tested first (`lsCheckNC`, own `loc_t_lock` section = get_entry), then created/flagged, then registered (witness only) -/
def gucNoCounterT (o r d : Nat) : List TI :=
  [TI.loc (gucInit o r)] ++ tsect lkLocT (.gblk o 5 1 (gucLookup true o d)) ++
    tsect lkSN (.gblk o 3 1 (getSN o)) ++ [TI.gblk o 3 1 (readEgo o), TI.gblk o 3 1 (gucSend o d)] ++
    [TI.acq lkLs, TI.acq lkLocT, TI.gblk o 3 2 (lsCheckNC o d), TI.rel lkLocT, TI.acq lkLocT, TI.gblk o 3 2 (lsEnsure d),
     TI.rel lkLocT, TI.gblk o 3 2 (lsRegisterOrQueueNC o d), TI.rel lkLs] ++
    sendLsReq o d (lsStoreTimer o d)

def gucNoCounter (o r d : Nat) : List (Instr St) := (gucNoCounterT o r d).map TI.erase

/-- `lsReply o d 1 fx` with the peeking section and the late delete (see `lsReplyPeek`) -/
def lsReplyPeekProg (o d : Nat) (fx : Bool) : List (Instr St) :=
  (tsect lkLocT (.blk (loctLearn d)) ++ tsect2 lkLs lkLocT (.blk (lsReplyPeek o d)) ++ [TI.gblk o 10 1 (lsReplyCancel o)] ++
    flushIter o d fx 0 ++ tsect lkLs (.blk (lsReplyForget d))).map TI.erase

/-- a thread performs its operations one after the other -/
def threadProg (ops : List Op) : List (Instr St) := (ops.map compile).flatten

/-- the router with one thread per operation list -/
def sys (threads : List (List Op)) : Sys St := mkSys {} (threads.map threadProg)

/-! ## tie to the source: the block decomposition assumed above is the generated one -/
section Tie
open Generated.Locks

theorem blocks_get_sequence_number :
    shape .Router_get_sequence_number = [([.Router_sequence_number_lock], [.Router_sequence_number])] := by decide

theorem blocks_cbf_timeout : shape .Router__cbf_timeout = [([.Router__cbf_lock], [.Router__cbf_buffer])] := by decide

/-- `_cbf_discard`: the look-up-and-remove of the buffered copy is ONE `_cbf_lock` section and the function touches the buffer
nowhere else (a lock-free look-up in front of the section would be a second entry: `cbfPeek`) -/
theorem blocks_cbf_discard : shape .Router__cbf_discard = [([.Router__cbf_lock], [.Router__cbf_buffer])] := by decide

theorem blocks_cbf_forwarding :
    shape .Router_gn_area_cbf_forwarding = [([.Router__cbf_lock], [.Router__cbf_buffer, .Router_ego_position_vector])] := by
  decide

theorem blocks_refresh_ego :
    shape .Router_refresh_ego_position_vector = [([.Router_ego_position_vector_lock], [.Router_ego_position_vector])] := by
  decide

/-- **one store per refresh**: `refresh_ego_position_vector` can rebind `self.ego_position_vector` exactly once per call
(`egoSwap` is ONE store; readers load the attribute without the lock, so every value ever stored is a value a packet can
carry), and nothing else rebinds it after construction (`setup_gn_address` runs inside `__init__`) -/
theorem ego_single_store :
    rebindCount .Router_refresh_ego_position_vector .Router_ego_position_vector = 1 ∧
    (rebinds.all fun r => r.2.1 != .Router_ego_position_vector || r.1 == .Router_refresh_ego_position_vector
      || r.1 == .Router_setup_gn_address) = true := by decide +kernel

/-- the registration section of gn_ls_request starts (first access to shared state, under exactly `_ls_lock`) by READING
the retransmit counters – the in-progress test of `lsRegCore true` – and writes them later under the same lock -/
theorem ls_request_checks_counter :
    ((blocks .Router_gn_ls_request).head?.map fun b =>
      b.1 == [.Router__ls_lock] && b.2.contains (.Router__ls_retransmit_counters, .read)) = some true ∧
    ((blocks .Router_gn_ls_request).any fun b =>
      b.1 == [.Router__ls_lock] && b.2.contains (.Router__ls_retransmit_counters, .write)) = true := by decide +kernel

/-- gn_ls_request: the registration under `_ls_lock` (counter test; `ls_pending` stored in a `loc_t_lock` section nested in
it – once per branch, `lsEnsure`; buffers, counters), then the timer store in a second `_ls_lock` section.  (An outer
section interrupted by a lexically nested one is listed in pieces.) -/
theorem blocks_ls_request :
    shape .Router_gn_ls_request =
      [([.Router__ls_lock], [.Router__ls_retransmit_counters]),
       ([.Router__ls_lock, .LocationTable_loc_t_lock], [.ext_ls_pending]),
       ([.Router__ls_lock], [.Router__ls_packet_buffers]),
       ([.Router__ls_lock, .LocationTable_loc_t_lock], [.ext_ls_pending]),
       ([.Router__ls_lock], [.Router__ls_packet_buffers, .Router__ls_retransmit_counters]),
       ([.Router__ls_lock], [.Router__ls_timers])] ∧
    -- the LocTE is created/fetched inside that nested section, in both branches
    ((calls .Router_gn_ls_request).filter fun c => c.2 == .LocationTable_ensure_entry) =
      [([.Router__ls_lock, .LocationTable_loc_t_lock], .LocationTable_ensure_entry),
       ([.Router__ls_lock, .LocationTable_loc_t_lock], .LocationTable_ensure_entry)] := by decide +kernel

theorem blocks_ls_retransmit :
    shape .Router__ls_retransmit =
      [([.Router__ls_lock], [.Router__ls_packet_buffers, .Router__ls_retransmit_counters, .Router__ls_timers, .ext_ls_pending]),
       ([.Router__ls_lock], [.Router__ls_timers])] := by decide

theorem blocks_ls_reply :
    shape .Router_gn_data_indicate_ls_reply =
      [([.Router__ls_lock], [.Router__ls_packet_buffers, .Router__ls_retransmit_counters, .Router__ls_timers, .ext_ls_pending])] := by
  decide

/-- … and that ONE section's access to `_ls_packet_buffers` is a WRITE (`pop`: read-and-remove in one dict operation), the
`lsReplyPop` block; a `get` there (entry deleted in a later section) is `lsReplyPeek` -/
theorem ls_reply_pops_buffer :
    (blocks .Router_gn_data_indicate_ls_reply).map (fun b => (b.1, b.2.filter (fun x => x.1 == .Router__ls_packet_buffers))) =
      [([.Router__ls_lock], [(.Router__ls_packet_buffers, .write)])] := by decide

theorem blocks_send_ls_request :
    shape .Router__send_ls_request_packet = [([.Router_ego_position_vector_lock], [.Router_ego_position_vector])] := by decide

theorem blocks_ensure_entry :
    shape .LocationTable_ensure_entry = [([.LocationTable_loc_t_lock], [.LocationTable_loc_t])] := by decide

theorem blocks_get_entry :
    shape .LocationTable_get_entry = [([.LocationTable_loc_t_lock], [.LocationTable_loc_t])] := by decide

/-! ### LocTE life cycle: refresh_table, get_neighbours and the seven `new_*_packet` functions -/

theorem blocks_refresh_table :
    shape .LocationTable_refresh_table = [([.LocationTable_loc_t_lock], [.LocationTable_loc_t])] := by decide

theorem blocks_get_neighbours :
    shape .LocationTable_get_neighbours = [([.LocationTable_loc_t_lock], [.LocationTable_loc_t])] := by decide

def rxFns : List Fn :=
  [.LocationTable_new_shb_packet, .LocationTable_new_guc_packet, .LocationTable_new_tsb_packet, .LocationTable_new_gac_packet,
   .LocationTable_new_ls_request_packet, .LocationTable_new_ls_reply_packet, .LocationTable_new_gbc_packet]

/-- the methods of LocationTableEntry that write the entry (DPL, position vector, PDR, IS_NEIGHBOUR) -/
def entryUpdaters : List Fn :=
  [.LocationTableEntry_check_duplicate_sn, .LocationTableEntry_update_position_vector, .LocationTableEntry_update_pdr,
   .LocationTableEntry_update_with_gbc_packet, .LocationTableEntry_update_with_shb_packet,
   .LocationTableEntry_update_with_tsb_packet]

/-- first and last call of `f`: refresh_table, with no lock held -/
def framedByRefresh (f : Fn) : Bool :=
  (calls f).head? == some ([], .LocationTable_refresh_table) &&
  (calls f).getLast? == some ([], .LocationTable_refresh_table)

/-- the shape `rxProg … (lk := true)` assumes (repair C15-locte-update-under-lock): refresh_table; ONE `loc_t_lock`
section that touches `loc_t` and in which every other call – the entry update among them – is made; refresh_table -/
def rxLocked (f : Fn) : Bool :=
  framedByRefresh f && (shape f).map (·.1) == [[.LocationTable_loc_t_lock]] &&
  ((shape f).all fun b => b.2.contains .LocationTable_loc_t) &&
  ((calls f).all fun c => c == ([], .LocationTable_refresh_table) || c.1 == [.LocationTable_loc_t_lock]) &&
  ((calls f).any fun c => entryUpdaters.contains c.2)

/-- the shape `rxProg … (lk := false)` assumes (code before the repair): the get-or-create section under
`loc_t_lock`, then the entry update with NO lock held -/
def rxUnlocked (f : Fn) : Bool :=
  framedByRefresh f && ((shape f).head?.map (·.1)) == some [.LocationTable_loc_t_lock] &&
  ((shape f).head?.map fun b => b.2.contains .LocationTable_loc_t) == some true &&
  ((calls f).all fun c => !entryUpdaters.contains c.2 || c.1 == []) &&
  ((calls f).any fun c => entryUpdaters.contains c.2)

/-- no function outside LocationTableEntry calls an entry updater without holding `loc_t_lock` -/
def updatersUnderLocT : Bool :=
  allFns.all fun f => entryUpdaters.contains f ||
    ((calls f).all fun c => !entryUpdaters.contains c.2 || c.1.contains .LocationTable_loc_t_lock)

/-- **the seven `new_*_packet` functions have the shape of the repaired variant**; the shape of the unrepaired
code is accepted only while known finding C15-KF2 is open (`Generated.OpenFindings`, from known_findings.d/C15.json):
once the finding is marked fixed this theorem is strict and moving an entry update out of the `loc_t_lock` section
again re-opens it.  (A mixture of the two shapes is never accepted.) -/
theorem blocks_new_packet :
    ((rxFns.all rxLocked && updatersUnderLocT) ||
      (Generated.OpenFindings.C15_KF2 && rxFns.all rxUnlocked)) = true := by decide +kernel

/-- which variant the source is (used by the non-vacuity examples only; the harness probes the variant at run time) -/
def sourceLocked : Bool := rxFns.all rxLocked && updatersUnderLocT

/-- no shared attribute of the router / location table is read-modified-written outside a lock (`setup_gn_address`
runs inside `__init__`) -/
theorem no_unlocked_rmw :
    accesses.all (fun x => x.kind != .rmw || !x.locks.isEmpty || x.fn == .Router_setup_gn_address
      || x.attr == .LDMMaintenance_new_data_recieved_flag) = true := by decide +kernel

/-- every access to the counter / the CBF buffer / the LS dictionaries / the LocT dictionary is under its lock -/
theorem guarded :
    allUnder .Router_sequence_number .Router_sequence_number_lock = true ∧
    allUnder .Router__cbf_buffer .Router__cbf_lock = true ∧
    allUnder .Router__ls_timers .Router__ls_lock = true ∧
    allUnder .Router__ls_packet_buffers .Router__ls_lock = true ∧
    allUnder .Router__ls_retransmit_counters .Router__ls_lock = true ∧
    allUnder .ext_ls_pending .Router__ls_lock = true ∧
    allUnder .LocationTable_loc_t .LocationTable_loc_t_lock = true ∧
    allUnder .LocationTableEntry_dpl_set .LocationTableEntry_dpl_lock = true ∧
    allUnder .LocationTableEntry_dpl_deque .LocationTableEntry_dpl_lock = true := by decide +kernel

/-- the ego PV is only ever *replaced* under its lock (readers load the immutable reference without it);
`setup_gn_address` runs inside `__init__`, before the router is shared -/
theorem ego_writes_guarded :
    accesses.all (fun x => x.attr != .Router_ego_position_vector || x.kind == .read
      || x.fn == .Router_setup_gn_address || x.locks.contains .Router_ego_position_vector_lock) = true := by decide +kernel

/-- the generated lock-order graph is acyclic: every edge goes strictly upwards in `lkRank`; no non-reentrant lock
is re-acquired by its holder -/
theorem order_ranked : ranked lkRank = true := by decide +kernel

theorem reentrant_only : reentrantSelf.all (fun l => reentrant.contains l) = true := by decide +kernel

/-- the edges the model's nested sections use are those of the source -/
theorem router_edges :
    edges.filter (fun e => e.1 == .Router__cbf_lock || e.1 == .Router__ls_lock || e.1 == .Router_sequence_number_lock
        || e.1 == .Router_ego_position_vector_lock) =
      [(.Router__cbf_lock, .LocationTable_loc_t_lock), (.Router__ls_lock, .LocationTable_loc_t_lock)] := by decide +kernel

end Tie

end FlexModel.Conc.Router

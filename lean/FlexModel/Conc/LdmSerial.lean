/-
C16 — serialisation of interleaved TRANSACTIONS (generic in the state type; used for the linearisability theorem of
`Props/C16.lean`).

A transaction is a straight-line sequence of blocks `pre ++ [lp] ++ post` executed by one thread; `pre` and `post` are
MOVERS: each of them commutes with every block of every other thread.  `lp` (the linearisation point) is arbitrary.
Theorem `serialise`: for every trace `tr` (blocks tagged with their thread, e.g. `Sched.trace`) whose per-thread
projections are the threads' transaction lists, the result `applyAll tr x` equals the result of executing whole
transactions one after the other, in the order `commits` in which their `lp` blocks occur in the trace – a merge of the
threads' transaction lists.  `commits` is a left fold over the trace, so for every split `tr = tr1 ++ tr2` the
transactions committed in `tr1` are a prefix of the final order (`commits_append`); a step adds a transaction exactly
when it executes that transaction's own `lp` block (`commit_at_own_lp`); and `realtime`: a transaction all of whose
blocks lie in `tr1` is among those committed in `tr1`, a transaction none of whose blocks lies in `tr1` is not – the
order respects real time.

Proof: forward simulation with TWO pending lists per thread – the `pre` blocks already executed of a transaction not
yet committed (right-movers, as in `Reduction/Sim.lean`) and the `post` blocks not yet executed of a committed
transaction (left-movers): `pipe pendPost.flatten concrete = pipe pendPre.flatten abstract`.
Imports core Lean + the `pipe` lemmas of `Conc/Reduction`.
-/
import FlexModel.Conc.Reduction

namespace FlexModel.Conc.Serial
open FlexModel.Conc FlexModel.Conc.Reduction

variable {σ : Type}

structure Txn (σ : Type) where
  pre : List (σ → σ)
  lp : σ → σ
  post : List (σ → σ)

def Txn.blocks (x : Txn σ) : List (σ → σ) := x.pre ++ x.lp :: x.post
/-- the transaction executed atomically -/
def Txn.sem (x : Txn σ) : σ → σ := pipe x.blocks

def flat (P : List (Txn σ)) : List (σ → σ) := P.flatMap Txn.blocks

@[simp] theorem flat_nil : flat ([] : List (Txn σ)) = [] := rfl
@[simp] theorem flat_cons (x : Txn σ) (P : List (Txn σ)) : flat (x :: P) = x.blocks ++ flat P := by simp [flat]
theorem flat_append (P Q : List (Txn σ)) : flat (P ++ Q) = flat P ++ flat Q := by simp [flat]

/-- state of one thread: between transactions / inside the `pre` part (`done` executed, `todo` then `lp` to come) /
inside the `post` part of a committed transaction -/
inductive TSt (σ : Type) where
  | idle (rest : List (Txn σ))
  | inPre (done todo : List (σ → σ)) (lp : σ → σ) (post : List (σ → σ)) (rest : List (Txn σ))
  | inPost (todo : List (σ → σ)) (rest : List (Txn σ))

def start : List (Txn σ) → TSt σ
  | [] => .idle []
  | x :: r => .inPre [] x.pre x.lp x.post r

def afterLp (post : List (σ → σ)) (rest : List (Txn σ)) : TSt σ :=
  match post with
  | [] => start rest
  | _ :: _ => .inPost post rest

/-- blocks still to be executed -/
def TSt.rem : TSt σ → List (σ → σ)
  | .idle rest => flat rest
  | .inPre _ todo lp post rest => todo ++ lp :: post ++ flat rest
  | .inPost todo rest => todo ++ flat rest

def TSt.pendPre : TSt σ → List (σ → σ)
  | .inPre done _ _ _ _ => done
  | _ => []

def TSt.pendPost : TSt σ → List (σ → σ)
  | .inPost todo _ => todo
  | _ => []

/-- transactions not yet committed -/
def TSt.unc : TSt σ → List (Txn σ)
  | .idle rest => rest
  | .inPre done todo lp post rest => ⟨done ++ todo, lp, post⟩ :: rest
  | .inPost _ rest => rest

/-- execute the next block: new state and the transaction committed by this step (if the block is an `lp`) -/
def TSt.adv : TSt σ → TSt σ × Option (Txn σ)
  | .inPre done (f :: todo) lp post rest => (.inPre (done ++ [f]) todo lp post rest, none)
  | .inPre done [] lp post rest => (afterLp post rest, some ⟨done, lp, post⟩)
  | .inPost (_ :: todo) rest => (afterLp todo rest, none)
  | s => (s, none)

/-- normal states: never `idle (x :: _)`, never `post []` -/
def TSt.Norm : TSt σ → Prop
  | .idle rest => rest = []
  | .inPre _ _ _ _ _ => True
  | .inPost todo _ => todo ≠ []

theorem start_norm (P : List (Txn σ)) : (start P).Norm := by cases P <;> simp [start, TSt.Norm]
theorem afterLp_norm (post : List (σ → σ)) (rest : List (Txn σ)) : (afterLp post rest).Norm := by
  cases post with
  | nil => exact start_norm rest
  | cons g q => simp [afterLp, TSt.Norm]

theorem start_rem (P : List (Txn σ)) : (start P).rem = flat P := by
  cases P with
  | nil => rfl
  | cons x r => simp [start, TSt.rem, Txn.blocks]
theorem start_pendPre (P : List (Txn σ)) : (start P).pendPre = [] := by cases P <;> rfl
theorem start_pendPost (P : List (Txn σ)) : (start P).pendPost = [] := by cases P <;> rfl
theorem start_unc (P : List (Txn σ)) : (start P).unc = P := by
  cases P with
  | nil => rfl
  | cons x r => cases x; simp [start, TSt.unc]

theorem afterLp_rem (post : List (σ → σ)) (rest : List (Txn σ)) : (afterLp post rest).rem = post ++ flat rest := by
  cases post with
  | nil => simp [afterLp, start_rem]
  | cons g q => rfl
theorem afterLp_pendPre (post : List (σ → σ)) (rest : List (Txn σ)) : (afterLp post rest).pendPre = [] := by
  cases post with
  | nil => exact start_pendPre rest
  | cons g q => rfl
theorem afterLp_pendPost (post : List (σ → σ)) (rest : List (Txn σ)) : (afterLp post rest).pendPost = post := by
  cases post with
  | nil => exact start_pendPost rest
  | cons g q => rfl
theorem afterLp_unc (post : List (σ → σ)) (rest : List (Txn σ)) : (afterLp post rest).unc = rest := by
  cases post with
  | nil => exact start_unc rest
  | cons g q => rfl

theorem adv_norm (s : TSt σ) (h : s.Norm) : s.adv.1.Norm := by
  cases s with
  | idle rest => exact h
  | inPre done todo lp post rest =>
    cases todo with
    | nil => exact afterLp_norm post rest
    | cons f todo => trivial
  | inPost todo rest =>
    cases todo with
    | nil => exact h
    | cons g todo => exact afterLp_norm todo rest

/-- a normal state with remaining blocks `f :: r` executes `f` and has `r` left -/
theorem adv_rem (s : TSt σ) (h : s.Norm) (f : σ → σ) (r : List (σ → σ)) (hr : s.rem = f :: r) : s.adv.1.rem = r := by
  cases s with
  | idle rest => simp only [TSt.Norm] at h; subst h; simp [TSt.rem] at hr
  | inPre done todo lp post rest =>
    cases todo with
    | nil =>
      simp only [TSt.rem, List.nil_append, List.cons_append, List.cons.injEq] at hr
      simp only [TSt.adv, afterLp_rem]; exact hr.2
    | cons g todo =>
      simp only [TSt.rem, List.cons_append, List.cons.injEq] at hr
      simp only [TSt.adv, TSt.rem]; exact hr.2
  | inPost todo rest =>
    cases todo with
    | nil => exact absurd rfl h
    | cons g todo =>
      simp only [TSt.rem, List.cons_append, List.cons.injEq] at hr
      simp only [TSt.adv, afterLp_rem]; exact hr.2

/-! ## the simulation over a trace -/

abbrev Ev (σ : Type) := ThreadId × (σ → σ)

/-- thread states after a trace (only the thread ids of the events matter) -/
def stepSt (sts : List (TSt σ)) (t : ThreadId) : List (TSt σ) :=
  match sts[t]? with
  | some s => sts.set t s.adv.1
  | none => sts

def stepCm (sts : List (TSt σ)) (t : ThreadId) : List (ThreadId × Txn σ) :=
  match sts[t]? with
  | some s => (match s.adv.2 with | some x => [(t, x)] | none => [])
  | none => []

def runSt (sts : List (TSt σ)) : List (Ev σ) → List (TSt σ)
  | [] => sts
  | e :: tr => runSt (stepSt sts e.1) tr

/-- the transactions committed along a trace, in commit order -/
def commitsFrom (sts : List (TSt σ)) : List (Ev σ) → List (ThreadId × Txn σ)
  | [] => []
  | e :: tr => stepCm sts e.1 ++ commitsFrom (stepSt sts e.1) tr

theorem runSt_append (sts : List (TSt σ)) (a b : List (Ev σ)) : runSt sts (a ++ b) = runSt (runSt sts a) b := by
  induction a generalizing sts with
  | nil => rfl
  | cons e a ih => exact ih _

theorem commitsFrom_append (sts : List (TSt σ)) (a b : List (Ev σ)) :
    commitsFrom sts (a ++ b) = commitsFrom sts a ++ commitsFrom (runSt sts a) b := by
  induction a generalizing sts with
  | nil => rfl
  | cons e a ih => simp only [List.cons_append, commitsFrom, runSt, ih, List.append_assoc]

/-- the trace executes, thread by thread, exactly the remaining blocks of the thread states -/
def Consistent (sts : List (TSt σ)) (tr : List (Ev σ)) : Prop :=
  ∀ u, tracedBy u tr = ((sts[u]?).map TSt.rem).getD []

theorem tracedBy_cons_self (t : ThreadId) (f : σ → σ) (tr : List (Ev σ)) :
    tracedBy t ((t, f) :: tr) = f :: tracedBy t tr := by simp [tracedBy]
theorem tracedBy_cons_ne (u t : ThreadId) (f : σ → σ) (tr : List (Ev σ)) (h : t ≠ u) :
    tracedBy u ((t, f) :: tr) = tracedBy u tr := by
  have : (t == u) = false := by simpa using h
  simp [tracedBy, this]

theorem consistent_cons (sts : List (TSt σ)) (hn : ∀ s ∈ sts, s.Norm) (t : ThreadId) (f : σ → σ) (tr : List (Ev σ))
    (h : Consistent sts ((t, f) :: tr)) :
    ∃ s, sts[t]? = some s ∧ s.rem = f :: tracedBy t tr ∧ Consistent (stepSt sts t) tr := by
  have ht := h t
  rw [tracedBy_cons_self] at ht
  cases hs : sts[t]? with
  | none => rw [hs] at ht; cases ht
  | some s =>
    rw [hs] at ht
    simp only [Option.map_some, Option.getD_some] at ht
    refine ⟨s, rfl, ht.symm, ?_⟩
    have hlt : t < sts.length := (List.getElem?_eq_some_iff.mp hs).1
    intro u
    simp only [stepSt, hs]
    by_cases hut : u = t
    · subst hut
      rw [List.getElem?_set_self hlt]
      simp only [Option.map_some, Option.getD_some]
      exact (adv_rem s (hn s (List.mem_of_getElem? hs)) f _ ht.symm).symm
    · have hne : t ≠ u := fun e => hut e.symm
      rw [List.getElem?_set_ne hne, ← h u, tracedBy_cons_ne u t f tr hne]

theorem stepSt_norm (sts : List (TSt σ)) (hn : ∀ s ∈ sts, s.Norm) (t : ThreadId) : ∀ s ∈ stepSt sts t, s.Norm := by
  unfold stepSt
  cases hs : sts[t]? with
  | none => exact hn
  | some s =>
    intro s' hs'
    rcases List.mem_or_eq_of_mem_set hs' with h | h
    · exact hn s' h
    · rw [h]; exact adv_norm s (hn s (List.mem_of_getElem? hs))

/-! ## movers -/

/-- `M t f`: `f` is a mover of thread `t`; `B t f`: `f` is a block of thread `t` -/
structure Movers (M B : ThreadId → (σ → σ) → Prop) : Prop where
  sub : ∀ t f, M t f → B t f
  comm : ∀ t u, t ≠ u → ∀ f g, M t f → B u g → Commute f g

def GoodT (M B : (σ → σ) → Prop) (x : Txn σ) : Prop := (∀ f ∈ x.pre, M f) ∧ B x.lp ∧ (∀ f ∈ x.post, M f)

def TSt.Good (M B : (σ → σ) → Prop) : TSt σ → Prop
  | .idle rest => ∀ x ∈ rest, GoodT M B x
  | .inPre done todo lp post rest => (∀ f ∈ done, M f) ∧ (∀ f ∈ todo, M f) ∧ B lp ∧ (∀ f ∈ post, M f) ∧ ∀ x ∈ rest, GoodT M B x
  | .inPost todo rest => (∀ f ∈ todo, M f) ∧ ∀ x ∈ rest, GoodT M B x

theorem start_good (M B : (σ → σ) → Prop) (P : List (Txn σ)) (h : ∀ x ∈ P, GoodT M B x) : (start P).Good M B := by
  cases P with
  | nil => exact h
  | cons x r =>
    obtain ⟨h1, h2, h3⟩ := h x (by simp)
    exact ⟨by simp, h1, h2, h3, fun y hy => h y (List.mem_cons_of_mem _ hy)⟩

theorem afterLp_good (M B : (σ → σ) → Prop) (post : List (σ → σ)) (rest : List (Txn σ)) (hp : ∀ f ∈ post, M f)
    (hr : ∀ x ∈ rest, GoodT M B x) : (afterLp post rest).Good M B := by
  cases post with
  | nil => exact start_good M B rest hr
  | cons g q => exact ⟨hp, hr⟩

theorem adv_good (M B : (σ → σ) → Prop) (s : TSt σ) (h : s.Good M B) : s.adv.1.Good M B := by
  cases s with
  | idle rest => exact h
  | inPre done todo lp post rest =>
    obtain ⟨h1, h2, h3, h4, h5⟩ := h
    cases todo with
    | nil => exact afterLp_good M B post rest h4 h5
    | cons f todo =>
      refine ⟨?_, fun g hg => h2 g (List.mem_cons_of_mem _ hg), h3, h4, h5⟩
      intro g hg
      rcases List.mem_append.mp hg with hg | hg
      · exact h1 g hg
      · simp only [List.mem_cons, List.not_mem_nil, or_false] at hg; subst hg; exact h2 _ (by simp)
  | inPost todo rest =>
    obtain ⟨h1, h2⟩ := h
    cases todo with
    | nil => exact ⟨h1, h2⟩
    | cons g todo => exact afterLp_good M B todo rest (fun f hf => h1 f (List.mem_cons_of_mem _ hf)) h2

theorem good_pendPre (M B : (σ → σ) → Prop) (s : TSt σ) (h : s.Good M B) : ∀ f ∈ s.pendPre, M f := by
  cases s with
  | idle rest => intro f hf; cases hf
  | inPre done todo lp post rest => exact h.1
  | inPost todo rest => intro f hf; cases hf

theorem good_pendPost (M B : (σ → σ) → Prop) (s : TSt σ) (h : s.Good M B) : ∀ f ∈ s.pendPost, M f := by
  cases s with
  | idle rest => intro f hf; cases hf
  | inPre done todo lp post rest => intro f hf; cases hf
  | inPost todo rest => exact h.1

/-! ## two more `pipe` lemmas (the others are in `Reduction/Sim.lean`) -/

/-- thread `t` executes the first block of its pending list -/
theorem pipe_pop (pd : List (List (σ → σ))) (t : Nat) (g : σ → σ) (q : List (σ → σ)) (hp : pd[t]? = some (g :: q))
    (hc : ∀ u r, u ≠ t → pd[u]? = some r → ∀ h ∈ r, Commute g h) (x : σ) :
    pipe pd.flatten x = pipe (pd.set t q).flatten (g x) := by
  have hlt : t < pd.length := (List.getElem?_eq_some_iff.mp hp).1
  rw [pipe_flatten_at pd t (g :: q) hp, pipe_set_flatten pd t hlt, pipe_cons, commute_pipe g]
  intro h hm
  obtain ⟨u, r, hu, hr, hh⟩ := mem_take_flatten pd t h hm
  exact hc u r hu hr h hh

/-- thread `t`, whose pending list is empty, gets the pending list `q` -/
theorem pipe_push (pd : List (List (σ → σ))) (t : Nat) (q : List (σ → σ)) (hp : pd[t]? = some [])
    (hc : ∀ f ∈ q, ∀ u r, u ≠ t → pd[u]? = some r → ∀ h ∈ r, Commute f h) (x : σ) :
    pipe (pd.set t q).flatten x = pipe q (pipe pd.flatten x) := by
  have hlt : t < pd.length := (List.getElem?_eq_some_iff.mp hp).1
  rw [pipe_set_flatten pd t hlt, pipe_flatten_at pd t [] hp, pipe_nil]
  refine (pipe_commute_pipe q _ ?_ _).symm
  intro f hf a ha
  obtain ⟨u, r, hu, hr, hh⟩ := mem_drop_flatten pd t a ha
  exact hc f hf u r hu hr a hh

/-- a function that commutes with every pending block of every OTHER thread, when thread `t` has none pending -/
theorem commute_pending (pd : List (List (σ → σ))) (t : Nat) (g : σ → σ) (hp : pd[t]? = some [])
    (hc : ∀ u r, u ≠ t → pd[u]? = some r → ∀ h ∈ r, Commute g h) (x : σ) :
    g (pipe pd.flatten x) = pipe pd.flatten (g x) := by
  apply commute_pipe
  intro h hm
  obtain ⟨r, hr, hh⟩ := List.mem_flatten.mp hm
  obtain ⟨u, hu⟩ := List.getElem?_of_mem hr
  by_cases hut : u = t
  · subst hut; rw [hp] at hu; cases hu; cases hh
  · exact hc u r hut hu h hh

/-! ## the invariant and one step -/

structure Inv (M B : ThreadId → (σ → σ) → Prop) (sts : List (TSt σ)) (conc abs : σ) : Prop where
  norm : ∀ s ∈ sts, s.Norm
  good : ∀ (t : ThreadId) (s : TSt σ), sts[t]? = some s → s.Good (M t) (B t)
  sh : pipe (sts.map TSt.pendPost).flatten conc = pipe (sts.map TSt.pendPre).flatten abs

theorem getElem?_map_some {α β : Type} (l : List α) (g : α → β) (u : Nat) (r : β) (h : (l.map g)[u]? = some r) :
    ∃ a, l[u]? = some a ∧ g a = r := by
  rw [List.getElem?_map] at h
  cases ha : l[u]? with
  | none => rw [ha] at h; cases h
  | some a => rw [ha] at h; exact ⟨a, rfl, by simpa using h⟩

theorem inv_step {M B : ThreadId → (σ → σ) → Prop} (hm : Movers M B) (sts : List (TSt σ)) (conc abs : σ)
    (h : Inv M B sts conc abs) (t : ThreadId) (s : TSt σ) (hs : sts[t]? = some s) (f : σ → σ) (r : List (σ → σ))
    (hr : s.rem = f :: r) :
    Inv M B (stepSt sts t) (f conc) (pipe ((stepCm sts t).map (·.2.sem)) abs) := by
  have hlt : t < sts.length := (List.getElem?_eq_some_iff.mp hs).1
  have hgs := h.good t s hs
  -- pending blocks of other threads are movers of those threads
  have hoPre : ∀ u q, u ≠ t → (sts.map TSt.pendPre)[u]? = some q → ∀ k ∈ q, M u k := by
    intro u q _ hq k hk
    obtain ⟨a, ha, rfl⟩ := getElem?_map_some sts TSt.pendPre u q hq
    exact good_pendPre _ _ a (h.good u a ha) k hk
  have hoPost : ∀ u q, u ≠ t → (sts.map TSt.pendPost)[u]? = some q → ∀ k ∈ q, M u k := by
    intro u q _ hq k hk
    obtain ⟨a, ha, rfl⟩ := getElem?_map_some sts TSt.pendPost u q hq
    exact good_pendPost _ _ a (h.good u a ha) k hk
  -- a block of `t` commutes with the pending blocks of the other threads
  have cPre : ∀ g, B t g → ∀ u q, u ≠ t → (sts.map TSt.pendPre)[u]? = some q → ∀ k ∈ q, Commute g k :=
    fun g hg u q hu hq k hk => (hm.comm u t hu k g (hoPre u q hu hq k hk) hg).symm
  have cPost : ∀ g, B t g → ∀ u q, u ≠ t → (sts.map TSt.pendPost)[u]? = some q → ∀ k ∈ q, Commute g k :=
    fun g hg u q hu hq k hk => (hm.comm u t hu k g (hoPost u q hu hq k hk) hg).symm
  have hnorm := stepSt_norm sts h.norm t
  have hgood : ∀ (u : ThreadId) (a : TSt σ), (stepSt sts t)[u]? = some a → a.Good (M u) (B u) := by
    intro u a ha
    simp only [stepSt, hs] at ha
    by_cases hut : u = t
    · subst hut
      rw [List.getElem?_set_self hlt] at ha
      cases ha
      exact adv_good _ _ s hgs
    · rw [List.getElem?_set_ne (fun e => hut e.symm)] at ha
      exact h.good u a ha
  refine ⟨hnorm, hgood, ?_⟩
  have hPre : (sts.map TSt.pendPre)[t]? = some s.pendPre := by simp [hs]
  have hPost : (sts.map TSt.pendPost)[t]? = some s.pendPost := by simp [hs]
  simp only [stepSt, stepCm, hs, List.map_set]
  cases s with
  | idle rest =>
    have := h.norm _ (List.mem_of_getElem? hs)
    simp only [TSt.Norm] at this
    subst this
    simp [TSt.rem] at hr
  | inPre done todo lp post rest =>
    obtain ⟨g1, g2, g3, g4, g5⟩ := hgs
    cases todo with
    | cons f' todo =>
      -- a `pre` block: it becomes pending
      simp only [TSt.rem, List.cons_append, List.cons.injEq] at hr
      have hf : f = f' := hr.1.symm
      rw [hf]
      have hMf : M t f' := g2 f' (by simp)
      simp only [TSt.adv, TSt.pendPre, TSt.pendPost, List.map_nil, pipe_nil]
      rw [set_of_getElem? _ t [] hPost]
      rw [← commute_pending _ t f' hPost (cPost f' (hm.sub t f' hMf)), h.sh]
      exact pipe_extend _ t done hPre f' (cPre f' (hm.sub t f' hMf)) abs
    | nil =>
      -- the linearisation point: the abstract run executes the whole transaction
      simp only [TSt.rem, List.nil_append] at hr
      have hf : f = lp := (List.cons.inj hr).1.symm
      rw [hf]
      simp only [TSt.adv, afterLp_pendPre, afterLp_pendPost]
      simp only [List.map_cons, List.map_nil, pipe_cons, pipe_nil, Txn.sem, Txn.blocks]
      have hBpost : ∀ k ∈ post, B t k := fun k hk => hm.sub t k (g4 k hk)
      rw [pipe_push _ t post hPost (fun k hk => cPost k (hBpost k hk))]
      rw [← commute_pending _ t lp hPost (cPost lp g3), h.sh]
      have hall : ∀ k ∈ done ++ [lp], B t k := by
        intro k hk
        rcases List.mem_append.mp hk with hk | hk
        · exact hm.sub t k (g1 k hk)
        · simp only [List.mem_cons, List.not_mem_nil, or_false] at hk; subst hk; exact g3
      rw [pipe_commit _ t done hPre lp (fun k hk => cPre k (hall k hk))]
      rw [pipe_commute_pipe post]
      · have : done ++ lp :: post = (done ++ [lp]) ++ post := by simp
        rw [this]
        simp only [pipe_append]
      · intro k hk a ha
        obtain ⟨r', hr', hh⟩ := List.mem_flatten.mp ha
        obtain ⟨u, hu⟩ := List.getElem?_of_mem hr'
        by_cases hut : u = t
        · subst hut
          rw [List.getElem?_set_self (by simpa using hlt)] at hu
          cases hu; cases hh
        · rw [List.getElem?_set_ne (fun e => hut e.symm)] at hu
          exact cPre k (hBpost k hk) u r' hut hu a hh
  | inPost todo rest =>
    obtain ⟨g1, g2⟩ := hgs
    cases todo with
    | nil => exact absurd rfl (h.norm _ (List.mem_of_getElem? hs))
    | cons g todo =>
      -- a `post` block of a committed transaction: it leaves the pending list
      simp only [TSt.rem, List.cons_append, List.cons.injEq] at hr
      have hf : f = g := hr.1.symm
      rw [hf]
      have hMg : M t g := g1 g (by simp)
      simp only [TSt.adv, afterLp_pendPre, afterLp_pendPost]
      simp only [TSt.pendPre, List.map_nil, pipe_nil]
      rw [set_of_getElem? _ t [] hPre]
      rw [← pipe_pop _ t g todo hPost (cPost g (hm.sub t g hMg)) conc]
      exact h.sh

/-! ## the whole trace -/

theorem inv_run {M B : ThreadId → (σ → σ) → Prop} (hm : Movers M B) (tr : List (Ev σ)) (sts : List (TSt σ))
    (conc abs : σ) (h : Inv M B sts conc abs) (hc : Consistent sts tr) :
    Inv M B (runSt sts tr) (applyAll tr conc) (pipe ((commitsFrom sts tr).map (·.2.sem)) abs) := by
  induction tr generalizing sts conc abs with
  | nil => exact h
  | cons e tr ih =>
    obtain ⟨t, f⟩ := e
    obtain ⟨s, hs, hr, hc'⟩ := consistent_cons sts h.norm t f tr hc
    have hstep := inv_step hm sts conc abs h t s hs f _ hr
    have := ih (stepSt sts t) (f conc) _ hstep hc'
    simp only [runSt, commitsFrom, List.map_append, pipe_append]
    exact this

theorem adv_unc (s : TSt σ) : (match s.adv.2 with | some x => [x] | none => []) ++ s.adv.1.unc = s.unc := by
  cases s with
  | idle rest => rfl
  | inPre done todo lp post rest =>
    cases todo with
    | nil =>
      show [(⟨done, lp, post⟩ : Txn σ)] ++ (afterLp post rest).unc = _
      rw [afterLp_unc]; simp [TSt.unc]
    | cons g todo => simp [TSt.adv, TSt.unc]
  | inPost todo rest =>
    cases todo with
    | nil => rfl
    | cons g todo =>
      show [] ++ (afterLp todo rest).unc = _
      rw [afterLp_unc]; rfl

/-- per thread, the committed transactions followed by the uncommitted ones are the thread's transactions -/
theorem commits_proj (sts : List (TSt σ)) (tr : List (Ev σ)) (u : ThreadId) :
    ((commitsFrom sts tr).filter (fun c => c.1 == u)).map (·.2) ++ (((runSt sts tr)[u]?).map TSt.unc).getD [] =
      ((sts[u]?).map TSt.unc).getD [] := by
  induction tr generalizing sts with
  | nil => simp [commitsFrom, runSt]
  | cons e tr ih =>
    obtain ⟨t, f⟩ := e
    simp only [commitsFrom, runSt, List.filter_append, List.map_append, List.append_assoc]
    rw [ih (stepSt sts t)]
    unfold stepSt stepCm
    cases hs : sts[t]? with
    | none => simp
    | some s =>
      have hlt : t < sts.length := (List.getElem?_eq_some_iff.mp hs).1
      by_cases hut : u = t
      · subst hut
        simp only [List.getElem?_set_self hlt, Option.map_some, Option.getD_some, hs]
        rw [← adv_unc s]
        cases s.adv.2 <;> simp
      · have hne : t ≠ u := fun e => hut e.symm
        have hf : (t == u) = false := by simpa using hne
        simp only [List.getElem?_set_ne hne]
        cases s.adv.2 <;> simp [hf]

/-- when the trace has executed all blocks, every thread is idle with nothing left -/
theorem finished_states (sts : List (TSt σ)) (hn : ∀ s ∈ sts, s.Norm) (tr : List (Ev σ)) (hc : Consistent sts tr) :
    ∀ s ∈ runSt sts tr, s = .idle [] := by
  induction tr generalizing sts with
  | nil =>
    intro s hs
    obtain ⟨u, hu⟩ := List.getElem?_of_mem hs
    have := hc u
    simp only [tracedBy, List.filter_nil, List.map_nil, runSt] at this hu
    rw [hu] at this
    simp only [Option.map_some, Option.getD_some] at this
    have hns := hn s hs
    cases s with
    | idle rest => simp only [TSt.Norm] at hns; rw [hns]
    | inPre done todo lp post rest => simp [TSt.rem] at this
    | inPost todo rest =>
      simp only [TSt.rem] at this
      cases todo with
      | nil => exact absurd rfl hns
      | cons g q => simp at this
  | cons e tr ih =>
    obtain ⟨t, f⟩ := e
    obtain ⟨s, hs, hr, hc'⟩ := consistent_cons sts hn t f tr hc
    exact ih (stepSt sts t) (stepSt_norm sts hn t) hc'

/-- initial thread states of a list of thread programs -/
def initSts (progs : List (List (Txn σ))) : List (TSt σ) := progs.map start

/-- the transactions in the order of their linearisation points along the trace -/
def commits (progs : List (List (Txn σ))) (tr : List (Ev σ)) : List (ThreadId × Txn σ) := commitsFrom (initSts progs) tr

theorem commits_append (progs : List (List (Txn σ))) (a b : List (Ev σ)) :
    commits progs (a ++ b) = commits progs a ++ commitsFrom (runSt (initSts progs) a) b :=
  commitsFrom_append _ a b

theorem commits_snoc (progs : List (List (Txn σ))) (a : List (Ev σ)) (e : Ev σ) :
    commits progs (a ++ [e]) = commits progs a ++ stepCm (runSt (initSts progs) a) e.1 := by
  rw [commits_append]; simp [commitsFrom]

/-- **Linearisation points.**  A step of the trace adds at most one transaction to the commit order, and when it does the
block executed by that step is the `lp` block of that very transaction (of the thread that executes the step). -/
theorem commit_at_own_lp (sts : List (TSt σ)) (hn : ∀ s ∈ sts, s.Norm) (t : ThreadId) (f : σ → σ) (tr : List (Ev σ))
    (hc : Consistent sts ((t, f) :: tr)) :
    stepCm sts t = [] ∨ ∃ x, stepCm sts t = [(t, x)] ∧ f = x.lp := by
  obtain ⟨s, hs, hr, _⟩ := consistent_cons sts hn t f tr hc
  have hns := hn s (List.mem_of_getElem? hs)
  simp only [stepCm, hs]
  cases s with
  | idle rest => left; rfl
  | inPre done todo lp post rest =>
    cases todo with
    | nil =>
      right
      simp only [TSt.rem, List.nil_append] at hr
      exact ⟨⟨done, lp, post⟩, rfl, (List.cons.inj hr).1.symm⟩
    | cons g todo => left; rfl
  | inPost todo rest =>
    cases todo with
    | nil => left; rfl
    | cons g todo => left; rfl

theorem runSt_norm (sts : List (TSt σ)) (hn : ∀ s ∈ sts, s.Norm) (tr : List (Ev σ)) : ∀ s ∈ runSt sts tr, s.Norm := by
  induction tr generalizing sts with
  | nil => exact hn
  | cons e tr ih => exact ih _ (stepSt_norm sts hn e.1)

theorem consistent_suffix (sts : List (TSt σ)) (hn : ∀ s ∈ sts, s.Norm) (a b : List (Ev σ)) (hc : Consistent sts (a ++ b)) :
    Consistent (runSt sts a) b := by
  induction a generalizing sts with
  | nil => exact hc
  | cons e a ih =>
    obtain ⟨t, f⟩ := e
    obtain ⟨_, _, _, hc'⟩ := consistent_cons sts hn t f (a ++ b) hc
    exact ih _ (stepSt_norm sts hn t) hc'

/-- **Serialisation.**  If the `pre` / `post` blocks of every thread's transactions commute with all blocks of the
other threads, then for EVERY trace that executes exactly the threads' blocks the result equals the sequential
execution of whole transactions in commit order, and that order is a merge of the threads' transaction lists. -/
theorem serialise {M B : ThreadId → (σ → σ) → Prop} (hm : Movers M B) (progs : List (List (Txn σ)))
    (hg : ∀ t P, progs[t]? = some P → ∀ x ∈ P, GoodT (M t) (B t) x)
    (tr : List (Ev σ)) (htr : ∀ u, tracedBy u tr = flat ((progs[u]?).getD [])) (x : σ) :
    applyAll tr x = pipe ((commits progs tr).map (·.2.sem)) x ∧
    (∀ u, ((commits progs tr).filter (fun c => c.1 == u)).map (·.2) = (progs[u]?).getD []) ∧
    (∀ tr1 e tr2, tr = tr1 ++ e :: tr2 →
      commits progs (tr1 ++ [e]) = commits progs tr1 ∨
      ∃ y, commits progs (tr1 ++ [e]) = commits progs tr1 ++ [(e.1, y)] ∧ e.2 = y.lp) := by
  have hcons : Consistent (initSts progs) tr := by
    intro u
    rw [htr u]
    simp only [initSts, List.getElem?_map]
    cases progs[u]? with
    | none => rfl
    | some P => simp [start_rem]
  have hnorm : ∀ s ∈ initSts progs, s.Norm := by
    intro s hs
    simp only [initSts, List.mem_map] at hs
    obtain ⟨P, _, rfl⟩ := hs
    exact start_norm P
  have hinv0 : Inv M B (initSts progs) x x := by
    refine ⟨hnorm, ?_, ?_⟩
    · intro t s hs
      simp only [initSts, List.getElem?_map, Option.map_eq_some_iff] at hs
      obtain ⟨P, hP, rfl⟩ := hs
      exact start_good _ _ P (hg t P hP)
    · have e1 : (initSts progs).map TSt.pendPost = progs.map (fun _ => ([] : List (σ → σ))) := by
        simp [initSts, List.map_map, Function.comp_def, start_pendPost]
      have e2 : (initSts progs).map TSt.pendPre = progs.map (fun _ => ([] : List (σ → σ))) := by
        simp [initSts, List.map_map, Function.comp_def, start_pendPre]
      rw [e1, e2]
  have hfin := inv_run hm tr (initSts progs) x x hinv0 hcons
  have hidle := finished_states (initSts progs) hnorm tr hcons
  refine ⟨?_, ?_, ?_⟩
  · unfold commits
    have hp1 : ((runSt (initSts progs) tr).map TSt.pendPost).flatten = [] := by
      rw [List.flatten_eq_nil_iff]
      intro l hl
      rw [List.mem_map] at hl
      obtain ⟨s, hs, rfl⟩ := hl
      rw [hidle s hs]; rfl
    have hp2 : ((runSt (initSts progs) tr).map TSt.pendPre).flatten = [] := by
      rw [List.flatten_eq_nil_iff]
      intro l hl
      rw [List.mem_map] at hl
      obtain ⟨s, hs, rfl⟩ := hl
      rw [hidle s hs]; rfl
    have := hfin.sh
    rw [hp1, hp2] at this
    exact this
  · intro u
    unfold commits
    have := commits_proj (initSts progs) tr u
    have hun : (((runSt (initSts progs) tr)[u]?).map TSt.unc).getD [] = [] := by
      cases hu : (runSt (initSts progs) tr)[u]? with
      | none => rfl
      | some s => rw [hidle s (List.mem_of_getElem? hu)]; rfl
    rw [hun, List.append_nil] at this
    rw [this]
    simp only [initSts, List.getElem?_map]
    cases progs[u]? with
    | none => rfl
    | some P => simp [start_unc]
  · intro tr1 e tr2 he
    obtain ⟨t, f⟩ := e
    rw [commits_snoc]
    have hc2 : Consistent (runSt (initSts progs) tr1) ((t, f) :: tr2) :=
      consistent_suffix _ hnorm tr1 _ (he ▸ hcons)
    rcases commit_at_own_lp _ (runSt_norm _ hnorm tr1) t f tr2 hc2 with h | ⟨y, h1, h2⟩
    · left; rw [h, List.append_nil]
    · right; exact ⟨y, by rw [h1], h2⟩

/-! ## real-time order -/

/-- number of blocks of the transactions from index `k` on -/
def tailLen (P : List (Txn σ)) (k : Nat) : Nat := (flat (P.drop k)).length

theorem blocks_length (x : Txn σ) : x.blocks.length = x.pre.length + 1 + x.post.length := by
  simp [Txn.blocks]; omega

theorem tailLen_step (P : List (Txn σ)) (k : Nat) (x : Txn σ) (h : P[k]? = some x) :
    tailLen P k = x.blocks.length + tailLen P (k + 1) := by
  have hlt : k < P.length := (List.getElem?_eq_some_iff.mp h).1
  have hx : P[k] = x := (List.getElem?_eq_some_iff.mp h).2
  unfold tailLen
  rw [List.drop_eq_getElem_cons hlt, flat_cons, List.length_append, hx]

theorem tailLen_antitone (P : List (Txn σ)) (j k : Nat) (h : j ≤ k) : tailLen P k ≤ tailLen P j := by
  induction k with
  | zero => have : j = 0 := by omega
            subst this; exact Nat.le_refl _
  | succ k ih =>
    by_cases hjk : j = k + 1
    · subst hjk; exact Nat.le_refl _
    · have hle : j ≤ k := by omega
      refine Nat.le_trans ?_ (ih hle)
      cases hk : P[k]? with
      | none =>
        have : P.length ≤ k := List.getElem?_eq_none_iff.mp hk
        simp [tailLen, List.drop_eq_nil_of_le this, List.drop_eq_nil_of_le (Nat.le_succ_of_le this)]
      | some x => rw [tailLen_step P k x hk]; omega

theorem tailLen_strict (P : List (Txn σ)) (j m : Nat) (hjm : j < m) (hm : m ≤ P.length) : tailLen P m + 1 ≤ tailLen P j := by
  have hlt : j < P.length := by omega
  have hx : P[j]? = some P[j] := by simp [hlt]
  rw [tailLen_step P j _ hx, blocks_length]
  have := tailLen_antitone P (j + 1) m (by omega)
  omega

/-- thread state ↔ position in the thread's transaction list `P`: `m` transactions committed -/
def Shape (P : List (Txn σ)) (m : Nat) : TSt σ → Prop
  | .idle rest => rest = [] ∧ m = P.length
  | .inPre done todo lp post rest => P[m]? = some ⟨done ++ todo, lp, post⟩ ∧ rest = P.drop (m + 1)
  | .inPost todo rest => 0 < m ∧ rest = P.drop m ∧ ∃ x e, P[m - 1]? = some x ∧ x.post = e ++ todo

theorem shape_start (P : List (Txn σ)) (m : Nat) (hm : m ≤ P.length) : Shape P m (start (P.drop m)) := by
  by_cases h : m = P.length
  · subst h; simp [start, Shape]
  · have hlt : m < P.length := by omega
    rw [List.drop_eq_getElem_cons hlt]
    simp [start, Shape, hlt]

theorem shape_afterLp (P : List (Txn σ)) (m : Nat) (hm : 0 < m) (hle : m ≤ P.length) (post : List (σ → σ)) (x : Txn σ)
    (e : List (σ → σ)) (hx : P[m - 1]? = some x) (hp : x.post = e ++ post) : Shape P m (afterLp post (P.drop m)) := by
  cases post with
  | nil => exact shape_start P m hle
  | cons g q => exact ⟨hm, rfl, x, e, hx, hp⟩

/-- one step keeps the shape; the number of committed transactions grows iff the step commits -/
theorem shape_adv (P : List (Txn σ)) (m : Nat) (s : TSt σ) (hn : s.Norm) (h : Shape P m s) :
    Shape P (m + (match s.adv.2 with | some _ => 1 | none => 0)) s.adv.1 := by
  cases s with
  | idle rest => exact h
  | inPre done todo lp post rest =>
    obtain ⟨h1, h2⟩ := h
    have hlt : m < P.length := (List.getElem?_eq_some_iff.mp h1).1
    cases todo with
    | nil =>
      simp only [TSt.adv]
      rw [h2]
      exact shape_afterLp P (m + 1) (by omega) (by omega) post ⟨done ++ [], lp, post⟩ [] (by simpa using h1) rfl
    | cons f todo =>
      simp only [TSt.adv, Nat.add_zero, Shape]
      exact ⟨by simpa using h1, h2⟩
  | inPost todo rest =>
    obtain ⟨h1, h2, x, e, hx, hp⟩ := h
    cases todo with
    | nil => exact absurd rfl hn
    | cons g todo =>
      simp only [TSt.adv, Nat.add_zero]
      rw [h2]
      have hle : m ≤ P.length := by
        have := (List.getElem?_eq_some_iff.mp hx).1
        omega
      exact shape_afterLp P m h1 hle todo x (e ++ [g]) hx (by simp [hp])

/-- remaining blocks of a thread state of shape `(P, m)`, between the committed and the uncommitted transactions -/
theorem shape_bounds (P : List (Txn σ)) (m : Nat) (s : TSt σ) (hn : s.Norm) (h : Shape P m s) :
    m ≤ P.length ∧ (m < P.length → tailLen P (m + 1) < s.rem.length) ∧
    (0 < m → s.rem.length < tailLen P (m - 1)) := by
  cases s with
  | idle rest =>
    obtain ⟨h1, h2⟩ := h
    subst h1; subst h2
    refine ⟨Nat.le_refl _, fun hlt => absurd hlt (Nat.lt_irrefl _), ?_⟩
    intro hpos
    have := tailLen_strict P (P.length - 1) P.length (by omega) (Nat.le_refl _)
    simp only [TSt.rem, flat_nil, List.length_nil]
    omega
  | inPre done todo lp post rest =>
    obtain ⟨h1, h2⟩ := h
    have hlt : m < P.length := (List.getElem?_eq_some_iff.mp h1).1
    have hstep := tailLen_step P m _ h1
    rw [blocks_length] at hstep
    have hrem : (TSt.inPre done todo lp post rest).rem.length = todo.length + 1 + post.length + tailLen P (m + 1) := by
      simp only [TSt.rem, h2, tailLen, List.length_append, List.length_cons]; omega
    refine ⟨by omega, fun _ => by omega, ?_⟩
    intro hpos
    have := tailLen_strict P (m - 1) m (by omega) (by omega)
    simp only [List.length_append] at hstep
    omega
  | inPost todo rest =>
    obtain ⟨h1, h2, x, e, hx, hp⟩ := h
    have hlt : m - 1 < P.length := (List.getElem?_eq_some_iff.mp hx).1
    have hstep := tailLen_step P (m - 1) x hx
    rw [blocks_length, hp, show m - 1 + 1 = m by omega] at hstep
    have hrem : (TSt.inPost todo rest).rem.length = todo.length + tailLen P m := by
      simp only [TSt.rem, h2, tailLen, List.length_append]
    have htodo : 0 < todo.length := by
      cases todo with
      | nil => exact absurd rfl hn
      | cons g q => simp
    refine ⟨by omega, ?_, ?_⟩
    · intro hm
      have := tailLen_antitone P m (m + 1) (by omega)
      omega
    · intro _
      simp only [List.length_append] at hstep
      omega

/-- shape and commit count along a trace, for the thread `u` -/
theorem shape_run (P : List (Txn σ)) (u : ThreadId) (tr : List (Ev σ)) (sts : List (TSt σ)) (hn : ∀ s ∈ sts, s.Norm)
    (m : Nat) (s : TSt σ) (hs : sts[u]? = some s) (h : Shape P m s) :
    ∃ s', (runSt sts tr)[u]? = some s' ∧
      Shape P (m + ((commitsFrom sts tr).filter (fun c => c.1 == u)).length) s' := by
  induction tr generalizing sts m s with
  | nil => exact ⟨s, hs, by simpa [commitsFrom] using h⟩
  | cons e tr ih =>
    obtain ⟨t, f⟩ := e
    have hn' := stepSt_norm sts hn t
    simp only [runSt, commitsFrom, List.filter_append, List.length_append]
    by_cases hut : t = u
    · subst hut
      have hlt : t < sts.length := (List.getElem?_eq_some_iff.mp hs).1
      have hs' : (stepSt sts t)[t]? = some s.adv.1 := by simp [stepSt, hs, List.getElem?_set_self hlt]
      have hsh := shape_adv P m s (hn s (List.mem_of_getElem? hs)) h
      obtain ⟨s', h1, h2⟩ := ih (stepSt sts t) hn' _ s.adv.1 hs' hsh
      refine ⟨s', h1, ?_⟩
      have hc : ((stepCm sts t).filter (fun c => c.1 == t)).length = (match s.adv.2 with | some _ => 1 | none => 0) := by
        simp only [stepCm, hs]
        cases s.adv.2 <;> simp
      rw [hc, ← Nat.add_assoc]
      exact h2
    · have hs' : (stepSt sts t)[u]? = some s := by
        unfold stepSt
        cases ht : sts[t]? with
        | none => exact hs
        | some a => simp only [List.getElem?_set_ne hut]; exact hs
      obtain ⟨s', h1, h2⟩ := ih (stepSt sts t) hn' m s hs' h
      refine ⟨s', h1, ?_⟩
      have hc : ((stepCm sts t).filter (fun c => c.1 == u)).length = 0 := by
        have hf : (t == u) = false := by simpa using hut
        unfold stepCm
        split
        · split <;> simp [hf]
        · rfl
      rw [hc, Nat.zero_add]
      exact h2

/-- **Real-time order.**  Split the trace anywhere.  Let `m` be the number of thread `u`'s transactions among those
committed in the first part and `r` the number of blocks `u` still executes in the second part.  Every transaction of
`u` that has RETURNED (all its blocks lie in the first part: `r ≤` the blocks of the later transactions) is among the
first `m`, and every transaction that has NOT BEEN INVOKED (none of its blocks lies in the first part) is not.  Since
`commits (tr1 ++ tr2) = commits tr1 ++ …`, a transaction that returned before another one was invoked precedes it in the
serial order. -/
theorem realtime (progs : List (List (Txn σ))) (tr1 tr2 : List (Ev σ))
    (htr : ∀ u, tracedBy u (tr1 ++ tr2) = flat ((progs[u]?).getD [])) (u : ThreadId) (P : List (Txn σ))
    (hP : progs[u]? = some P) :
    let m := ((commits progs tr1).filter (fun c => c.1 == u)).length
    let r := (tracedBy u tr2).length
    (∀ j, j < P.length → r ≤ tailLen P (j + 1) → j < m) ∧ (∀ j, j < P.length → tailLen P j ≤ r → m ≤ j) := by
  have hnorm : ∀ s ∈ initSts progs, s.Norm := by
    intro s hs
    simp only [initSts, List.mem_map] at hs
    obtain ⟨Q, _, rfl⟩ := hs
    exact start_norm Q
  have hcons : Consistent (initSts progs) (tr1 ++ tr2) := by
    intro v
    rw [htr v]
    simp only [initSts, List.getElem?_map]
    cases progs[v]? with
    | none => rfl
    | some Q => simp [start_rem]
  have hs0 : (initSts progs)[u]? = some (start P) := by simp [initSts, hP]
  have hsh0 : Shape P 0 (start P) := by simpa using shape_start P 0 (Nat.zero_le _)
  obtain ⟨s', hs', hshape⟩ := shape_run P u tr1 (initSts progs) hnorm 0 (start P) hs0 hsh0
  rw [Nat.zero_add] at hshape
  have hn' := runSt_norm _ hnorm tr1 s' (List.mem_of_getElem? hs')
  have hrem : tracedBy u tr2 = s'.rem := by
    have := consistent_suffix _ hnorm tr1 tr2 hcons u
    rw [hs'] at this
    simpa using this
  obtain ⟨b1, b2, b3⟩ := shape_bounds P _ s' hn' hshape
  intro m r
  have hm : m = ((commitsFrom (initSts progs) tr1).filter (fun c => c.1 == u)).length := rfl
  have hr : r = s'.rem.length := by simp only [r, hrem]
  rw [← hm] at b1 b2 b3
  rw [← hr] at b2 b3
  constructor
  · intro j hj hle
    apply Classical.byContradiction
    intro hnot
    have hmj : m ≤ j := by omega
    have hmlt : m < P.length := by omega
    have h1 := b2 hmlt
    have h2 := tailLen_antitone P (m + 1) (j + 1) (by omega)
    omega
  · intro j hj hle
    apply Classical.byContradiction
    intro hnot
    have hjm : j < m := by omega
    have h1 := b3 (by omega)
    have h2 := tailLen_antitone P j (m - 1) (by omega)
    omega

end FlexModel.Conc.Serial

/-
C16 — the Local Dynamic Map's shared state as atomic blocks over `Conc/Sched`.

Blocks = each `DictionaryDataBase` method (one `RLock` section), each registry / subscription section of
`LDMService` (its `RLock`); IF.LDM.3 / IF.LDM.4 calls, the maintenance pass and the attendance pass are SEQUENCES of
such blocks (mirrors the code with the fixes C12-delete-by-id, C12-update-keeps-record, C14-no-callback-after-
deregister):
  add      get_data_provider_its_aid ; insert
  upd      exists ; get (type check) ; get ; update          -- `LDMMaintenance.update_provider_data`: get, then update
  updMt    exists ; get ; [get ; update] as ONE block         -- LDMMaintenanceThread: both under data_containers_lock
  del      exists ; remove_by_id                              -- the answer is the removal's result (fix C16-delete-result)
  qry      get_data_consumer_its_aid ; all/search
  deregP/C get_…_its_aid ; discard
  sub      get_data_consumer_its_aid ; append + last_checked
  unsub    get_data_consumer_its_aid ; copy ; remove (per match) -- the answer is what was removed (fix C16-unsubscribe-result)
  gc n     all ; all ; n × remove(row) ; all ; all            -- collect_trash (time-validity pass; rows are "expired" iff odd)
  attend n copy ; n × (get_data_consumer_its_aid ; search ; still-stored section ; last_checked section ; callback) ; removes
           -- (attend_subscription with fix C14-removed-subscription-not-notified: the membership test is its own section)
           -- the callback is USER CODE: it may block on the application (`lkApp`), which may itself be calling the LDM
The consumer callback is not LDM code.  What matters for the LDM is what it may WAIT for: another application thread
that is itself inside an IF.LDM.3 / IF.LDM.4 call (hand-over to a worker, an application mutex taken around LDM calls).
That is modelled by the application mutex `lkApp`: every callback takes it (`tsect lkApp`), and an application thread
is a list of segments (`Seg`) of LDM operations each issued while holding it or not (`sysApp`).  The callback runs with
NO LDM lock held (`callbacks_outside_locks`, `notification_chain_unlocked`, regenerated from the source).
Records are codes `2·payload + expiredBit` (`Nat`): the payload is what queries return, the bit stands for the record's
timestamp / time validity; an update replaces the payload and keeps the bit (fix C12-update-keeps-record).  Registry keys, ids, subscription ids
are `Nat`.  Tie to the source: `blocks_*`/`guarded_ldm` below (`decide` against `Generated.Locks`).
-/
import FlexModel.Conc.Sched
import Generated.Locks
import Generated.LdmShape

namespace FlexModel.Conc.Ldm
open FlexModel.Conc

def lkApp : Lock := 0    -- an APPLICATION mutex (user code, not an LDM lock): what a consumer callback may block on
def lkMt : Lock := 1     -- LDMMaintenanceThread.data_containers_lock
def lkSvc : Lock := 2    -- LDMService._lock (RLock)
def lkDb : Lock := 3     -- DictionaryDataBase._lock (RLock)
def rank : Lock → Nat := fun l => l

structure LSt where
  db : List (Nat × Nat) := []          -- DictionaryDataBase.database in dict (insertion) order: id ↦ record
  nextId : Nat := 0
  prov : Nat → Bool := fun _ => false  -- data_provider_its_aid
  cons : Nat → Bool := fun _ => false  -- data_consumer_its_aid
  subs : List Nat := []                -- subscriptions (ids)
  lastChk : Nat → Bool := fun _ => false
  -- ghost
  insLog : List Nat := []              -- ids returned by insert, newest first
  inserted : Nat := 0
  removed : Nat := 0
  revived : Nat := 0                   -- rows (re-)created by `update` of an absent id
  overwritten : Nat := 0               -- inserts that hit an existing key
  subAdded : Nat := 0
  subRemoved : Nat := 0
  -- responses and thread-local variables of operation o
  resp : Nat → List Nat := fun _ => []
  rows : Nat → List (Nat × Nat) := fun _ => []       -- last snapshot / query result of o
  calls : List (Nat × List (Nat × Nat)) := []        -- subscription callbacks (sub id, rows), newest first
  reg : Nat → Nat → Nat := fun _ _ => 0
  regS : Nat → List Nat := fun _ => []               -- thread-local copy of the subscription list
  regT : Nat → List Nat := fun _ => []               -- thread-local `subscriptions_to_remove`
  err : Nat → Nat := fun _ => 0                      -- exception raised inside operation o (1 KeyError, 2 ValueError, 3 TypeError)

def upd {α : Type} (f : Nat → α) (k : Nat) (v : α) : Nat → α := fun i => if i = k then v else f i
def upd2 (f : Nat → Nat → Nat) (o k v : Nat) : Nat → Nat → Nat := fun i j => if i = o ∧ j = k then v else f i j
@[simp] theorem upd_self {α : Type} (f : Nat → α) (k : Nat) (v : α) : upd f k v k = v := by simp [upd]

def hasKey (db : List (Nat × Nat)) (i : Nat) : Bool := db.any (fun p => p.1 == i)
def lookup (db : List (Nat × Nat)) (i : Nat) : Option Nat := (db.find? (fun p => p.1 == i)).map (·.2)
def expired (v : Nat) : Bool := v % 2 == 1

/-- remove the first row whose record equals `v` (DictionaryDataBase.remove deletes by VALUE) -/
def removeVal : List (Nat × Nat) → Nat → List (Nat × Nat)
  | [], _ => []
  | p :: r, v => if p.2 == v then r else p :: removeVal r v
def removeId (db : List (Nat × Nat)) (i : Nat) : List (Nat × Nat) := db.filter (fun p => p.1 != i)
/-- `del self.database[key]` on a present key: the (first) row with that key goes -/
def eraseKey : List (Nat × Nat) → Nat → List (Nat × Nat)
  | [], _ => []
  | p :: r, k => if p.1 == k then r else p :: eraseKey r k
/-- `self.database[index] = data`: replace in place, or append a new key -/
def setRow : List (Nat × Nat) → Nat → Nat → List (Nat × Nat)
  | [], i, v => [(i, v)]
  | p :: r, i, v => if p.1 == i then (i, v) :: r else p :: setRow r i v

/-! ## database blocks (each under `DictionaryDataBase._lock`) — registers: 0 id, 1 found, 2 value, 3 flag -/

/-- `index = self._next_id; self.database[index] = data; self._next_id += 1; return index` (a dict assignment: an
existing key would be overwritten – ghost counter `overwritten`) -/
def dbInsert (o v : Nat) (s : LSt) : LSt :=
  { s with db := setRow s.db s.nextId v, nextId := s.nextId + 1, insLog := s.nextId :: s.insLog,
           inserted := s.inserted + 1, overwritten := if hasKey s.db s.nextId then s.overwritten + 1 else s.overwritten,
           reg := upd2 s.reg o 0 s.nextId, resp := upd s.resp o [s.nextId] }

def dbExists (o i : Nat) (s : LSt) : LSt := { s with reg := upd2 s.reg o 1 (if hasKey s.db i then 1 else 0) }

def dbGet (o i slot : Nat) (s : LSt) : LSt :=
  { s with reg := upd2 (upd2 s.reg o slot (if hasKey s.db i then 1 else 0)) o 2 ((lookup s.db i).getD 0) }

/-- The statement between the first look-up of IF.LDM.3 update_provider_data and the rest of the operation:
`stored_data_container["dataObject"]` (comparison of the message types).  The look-up answers None when the object was
removed after the existence check had answered True (register 1 = 1, register 6 = 0: the two are separate lock sections);
subscripting None RAISES TypeError (`err` 3) unless the test `stored_data_container is not None` comes first (`guarded`).
With the guard the statement does not change the state (`updTypeChk_guarded`) - which is why `compileT` has no
instruction for it; that the source has the guard is the regenerated fact `optional_lookups_guarded`. -/
def updTypeChk (guarded : Bool) (o : Nat) (s : LSt) : LSt :=
  if s.reg o 1 = 1 ∧ s.reg o 6 = 0 ∧ guarded = false then { s with err := upd s.err o 3 } else s

theorem updTypeChk_guarded (o : Nat) (s : LSt) : updTypeChk true o s = s := by simp [updTypeChk]

/-- `update(updated_container, index)`: `self.database[index] = data` — creates the row when the id is absent.  The
container is the copy fetched by the preceding `get` (register 2 of `o`) with the new payload `w` -/
def dbUpdate (o i w : Nat) (s : LSt) : LSt :=
  { s with db := setRow s.db i (2 * w + s.reg o 2 % 2), revived := if hasKey s.db i then s.revived else s.revived + 1 }

/-- get + update of LDMMaintenance.update_provider_data as one block (LDMMaintenanceThread holds
`data_containers_lock` across both, and every other maintenance-level writer takes the same lock) -/
def dbUpdateIfPresent (o i w : Nat) (s : LSt) : LSt :=
  if hasKey s.db i then { s with db := setRow s.db i (2 * w + (lookup s.db i).getD 0 % 2), reg := upd2 s.reg o 3 1 }
  else { s with reg := upd2 s.reg o 3 0 }

def dbRemoveId (o i : Nat) (s : LSt) : LSt :=
  if hasKey s.db i then { s with db := removeId s.db i, removed := s.removed + (s.db.length - (removeId s.db i).length),
                                 reg := upd2 s.reg o 3 1 }
  else { s with reg := upd2 s.reg o 3 0 }

/-! `remove(data_object)` is a scan and a `del` in ONE lock section:
    for key, value in self.database.items():
        if value == data_object: del self.database[key]; return True
registers 8 (found) and 9 (key) of the operation hold the scan's result.  `del` RAISES KeyError on an absent key. -/
def dbScanVal (o v : Nat) (s : LSt) : LSt :=
  match s.db.find? (fun p => p.2 == v) with
  | some p => { s with reg := upd2 (upd2 s.reg o 8 1) o 9 p.1 }
  | none => { s with reg := upd2 s.reg o 8 0 }
def dbDelKey (o : Nat) (s : LSt) : LSt :=
  if s.reg o 8 = 1 then
    if hasKey s.db (s.reg o 9) then { s with db := eraseKey s.db (s.reg o 9), removed := s.removed + 1 }
    else { s with err := upd s.err o 1 }
  else s
def dbRemoveVal (o v : Nat) (s : LSt) : LSt := dbDelKey o (dbScanVal o v s)

/-- `all()` / `search()`: the rows present at this instant (register 6: non-empty) -/
def dbAll (o : Nat) (s : LSt) : LSt :=
  { s with rows := upd s.rows o s.db, reg := upd2 s.reg o 6 (if s.db.isEmpty then 0 else 1) }

/-! ## service blocks (each under `LDMService._lock`) -/

def provAdd (a : Nat) (s : LSt) : LSt := { s with prov := upd s.prov a true }
def provDel (a : Nat) (s : LSt) : LSt := { s with prov := upd s.prov a false }
def provHas (o a : Nat) (s : LSt) : LSt := { s with reg := upd2 s.reg o 1 (if s.prov a then 1 else 0) }
def consAdd (a : Nat) (s : LSt) : LSt := { s with cons := upd s.cons a true }
def consDel (a : Nat) (s : LSt) : LSt := { s with cons := upd s.cons a false }
/-- del_data_consumer_its_aid with fix C14-no-callback-after-deregister: discard and collect the consumer's subscriptions
(subscription ids carry their application id: `sid / 100`) in the same section -/
def consDelCollect (o a : Nat) (s : LSt) : LSt :=
  { s with cons := upd s.cons a false, regS := upd s.regS o (s.subs.filter (fun sid => sid / 100 == a)) }
def consHas (o a : Nat) (s : LSt) : LSt := { s with reg := upd2 s.reg o 1 (if s.cons a then 1 else 0) }
def subAdd (sid : Nat) (s : LSt) : LSt :=
  { s with subs := s.subs ++ [sid], lastChk := upd s.lastChk sid true, subAdded := s.subAdded + 1 }
def subsCopy (o : Nat) (s : LSt) : LSt := { s with regS := upd s.regS o s.subs }
/-! remove_subscription (one service-lock section): `present = sub in subs` ; `if present: subs.remove(sub)` ;
`last_checked.pop(sub, None)`.  Register 8 of the operation holds `present` (what the call reports, fix
C16-unsubscribe-result).  `list.remove` RAISES ValueError on an absent element. -/
def subTest (o sid : Nat) (s : LSt) : LSt := { s with reg := upd2 s.reg o 8 (if sid ∈ s.subs then 1 else 0) }
def subDrop (o sid : Nat) (s : LSt) : LSt :=
  if s.reg o 8 = 1 then
    if sid ∈ s.subs then { s with subs := s.subs.erase sid, subRemoved := s.subRemoved + 1 }
    else { s with err := upd s.err o 2 }
  else s
def subPop (sid : Nat) (s : LSt) : LSt := { s with lastChk := upd s.lastChk sid false }
def subRemove (o sid : Nat) (s : LSt) : LSt := subPop sid (subDrop o sid (subTest o sid s))
def lastChkSection (sid : Nat) (s : LSt) : LSt := { s with lastChk := upd s.lastChk sid true }
/-- `attend_subscription`: `with self._lock: if subscription not in self.subscriptions: return` (fix C14-removed-
subscription-not-notified) – register 7 of the attendance pass: the subscription in register 5 is still stored -/
def subStored (o : Nat) (s : LSt) : LSt := { s with reg := upd2 s.reg o 7 (if s.reg o 5 ∈ s.subs then 1 else 0) }

/-! ## thread-local steps -/

def whenReg (o slot v : Nat) (f : LSt → LSt) (s : LSt) : LSt := if s.reg o slot = v then f s else s
def setResp (o : Nat) (f : LSt → List Nat) (s : LSt) : LSt := { s with resp := upd s.resp o (f s) }
/-- next expired row of the snapshot of `o` (thread-local): reg 4 := 1 and reg 5 := its value, or reg 4 := 0 -/
def gcPick (o : Nat) (s : LSt) : LSt :=
  match (s.rows o).find? (fun p => expired p.2) with
  | some p => { s with rows := upd s.rows o ((s.rows o).erase p), reg := upd2 (upd2 s.reg o 4 1) o 5 p.2 }
  | none => { s with reg := upd2 s.reg o 4 0 }
def gcRemove (o : Nat) (s : LSt) : LSt := dbRemoveVal o (s.reg o 5) s
/-- next subscription of the copy (thread-local) -/
def subPick (o : Nat) (s : LSt) : LSt :=
  match s.regS o with
  | [] => { s with reg := upd2 s.reg o 4 0 }
  | sid :: r => { s with regS := upd s.regS o r, reg := upd2 (upd2 s.reg o 4 1) o 5 sid }
def callback (o : Nat) (s : LSt) : LSt := { s with calls := (s.reg o 5, s.rows o) :: s.calls }
def markRemove (o : Nat) (s : LSt) : LSt := { s with regT := upd s.regT o (s.regT o ++ [s.reg o 5]) }
def removePick (o : Nat) (s : LSt) : LSt :=
  match s.regT o with
  | [] => { s with reg := upd2 s.reg o 4 0 }
  | sid :: r => { s with regT := upd s.regT o r, reg := upd2 (upd2 s.reg o 4 1) o 5 sid }
/-- result code of IF.LDM.3 update_provider_data from the three look-ups (exists, get, get-before-update) -/
def updCode (e g1 g2 : Nat) : Nat := if e = 0 then 1 else if g1 = 1 ∧ g2 = 1 then 0 else 2
def unsubFind (o sid : Nat) (s : LSt) : LSt := { s with reg := upd2 s.reg o 3 (if sid ∈ s.regS o then 1 else 0) }

/-! ## operations -/

inductive Op where
  | regP (a : Nat) | deregP (o a : Nat) | regC (a : Nat)
  | deregC (o a n : Nat)            -- n = 0: code before fix C14-no-callback-after-deregister; else removal loop unrolled n times
  | add (o a v : Nat)               -- IF.LDM.3 add_provider_data
  | upd (o i v : Nat)               -- IF.LDM.3 update_provider_data (plain / reactive maintenance)
  | updMt (o i v : Nat)             -- the same with LDMMaintenanceThread
  | del (o i : Nat)                 -- IF.LDM.3 delete_provider_data
  | qry (o a : Nat)                 -- IF.LDM.4 request_data_objects
  | sub (o a sid : Nat) | unsub (o a sid : Nat)
  | gc (o n : Nat)                  -- one maintenance pass, removal loop unrolled n times
  | attend (o n : Nat)              -- one attendance pass over at most n subscriptions
  deriving DecidableEq, Repr

inductive TI where
  | acq (l : Lock) | rel (l : Lock)
  | blk (f : LSt → LSt)
  | gblk (o slot v : Nat) (f : LSt → LSt)
  | loc (f : LSt → LSt)

def TI.erase : TI → Instr LSt
  | .acq l => .acq l | .rel l => .rel l | .blk f => .blk f
  | .gblk o slot v f => .blk (whenReg o slot v f) | .loc f => .blk f

def tsect (l : Lock) (i : TI) : List TI := [.acq l, i, .rel l]

def gcIter (o : Nat) : List TI := [.loc (gcPick o)] ++ tsect lkDb (.gblk o 4 1 (gcRemove o))
/-- one subscription of the attendance pass (with fixes C14-no-callback-after-deregister, C14-attendance-isolation,
C14-removed-subscription-not-notified): registration check first; `attend_subscription` = search; still-stored
section; `last_checked` section; callback – or mark for removal.  The callback is user code that may wait for the
application: it takes the application mutex `lkApp`, holding no LDM lock (`callbacks_outside_locks`) -/
def attendIter (o : Nat) : List TI :=
  [.loc (subPick o)] ++ tsect lkSvc (.gblk o 4 1 (fun s => consHas o (s.reg o 5 / 100) s)) ++
  [.loc (whenReg o 4 1 (whenReg o 1 0 (markRemove o)))] ++
  tsect lkDb (.gblk o 4 1 (whenReg o 1 1 (dbAll o))) ++
  tsect lkSvc (.gblk o 4 1 (whenReg o 1 1 (whenReg o 6 1 (subStored o)))) ++
  tsect lkSvc (.gblk o 4 1 (whenReg o 1 1 (whenReg o 6 1 (whenReg o 7 1 (fun s => lastChkSection (s.reg o 5) s))))) ++
  tsect lkApp (.gblk o 4 1 (whenReg o 1 1 (whenReg o 6 1 (whenReg o 7 1 (callback o)))))
def attendRemove (o : Nat) : List TI :=
  [.loc (removePick o)] ++ tsect lkSvc (.gblk o 4 1 (fun s => subRemove o (s.reg o 5) s))

def compileT : Op → List TI
  | .regP a => tsect lkSvc (.blk (provAdd a))
  | .deregP o a => tsect lkSvc (.blk (provHas o a)) ++ tsect lkSvc (.gblk o 1 1 (provDel a)) ++ [.loc (setResp o (fun s => [s.reg o 1]))]
  | .regC a => tsect lkSvc (.blk (consAdd a))
  | .deregC o a n =>
      tsect lkSvc (.blk (consHas o a)) ++ tsect lkSvc (.gblk o 1 1 (if n = 0 then consDel a else consDelCollect o a)) ++
      (List.replicate n ([.loc (subPick o)] ++ tsect lkSvc (.gblk o 4 1 (fun s => subRemove o (s.reg o 5) s)))).flatten ++
      [.loc (setResp o (fun s => [s.reg o 1]))]
  | .add o a v => tsect lkSvc (.blk (provHas o a)) ++ tsect lkDb (.gblk o 1 1 (dbInsert o v))
  | .upd o i v =>
      tsect lkDb (.blk (dbExists o i)) ++ tsect lkDb (.gblk o 1 1 (dbGet o i 6)) ++ tsect lkDb (.gblk o 6 1 (dbGet o i 7)) ++
      tsect lkDb (.gblk o 7 1 (dbUpdate o i v)) ++ [.loc (setResp o (fun s => [updCode (s.reg o 1) (s.reg o 6) (s.reg o 7)]))]
  | .updMt o i v =>
      tsect lkDb (.blk (dbExists o i)) ++ [.acq lkMt] ++ tsect lkDb (.gblk o 1 1 (dbGet o i 6)) ++ [.rel lkMt, .acq lkMt] ++
      tsect lkDb (.gblk o 6 1 (dbUpdateIfPresent o i v)) ++ [.rel lkMt] ++
      [.loc (setResp o (fun s => [updCode (s.reg o 1) (s.reg o 6) (s.reg o 3)]))]
  | .del o i => tsect lkDb (.blk (dbExists o i)) ++ tsect lkDb (.gblk o 1 1 (dbRemoveId o i)) ++
      [.loc (setResp o (fun s => [if s.reg o 1 = 1 ∧ s.reg o 3 = 1 then 1 else 0]))]
  | .qry o a => tsect lkSvc (.blk (consHas o a)) ++ tsect lkDb (.gblk o 1 1 (dbAll o)) ++ [.loc (setResp o (fun s => [s.reg o 1]))]
  | .sub o a sid => tsect lkSvc (.blk (consHas o a)) ++ tsect lkSvc (.gblk o 1 1 (subAdd sid)) ++ [.loc (setResp o (fun s => [s.reg o 1]))]
  | .unsub o a sid =>
      tsect lkSvc (.blk (consHas o a)) ++ tsect lkSvc (.gblk o 1 1 (subsCopy o)) ++ [.loc (whenReg o 1 1 (unsubFind o sid))] ++
      tsect lkSvc (.gblk o 3 1 (subRemove o sid)) ++
      [.loc (setResp o (fun s => [s.reg o 1, if s.reg o 3 = 1 ∧ s.reg o 8 = 1 then 1 else 0]))]
  | .gc o n => tsect lkDb (.blk (dbAll o)) ++ tsect lkDb (.blk (dbAll o)) ++ (List.replicate n (gcIter o)).flatten ++
      tsect lkDb (.blk (dbAll o)) ++ tsect lkDb (.blk (dbAll o))
  | .attend o n => tsect lkSvc (.blk (subsCopy o)) ++ (List.replicate n (attendIter o)).flatten ++
      (List.replicate n (attendRemove o)).flatten

def compile (op : Op) : List (Instr LSt) := (compileT op).map TI.erase
def threadProg (ops : List Op) : List (Instr LSt) := (ops.map compile).flatten
def sys (threads : List (List Op)) : Sys LSt := mkSys {} (threads.map threadProg)

/-! ## application threads
A segment of an application thread: LDM operations issued one after the other, `true` = while the thread holds the
application mutex `lkApp` (`with app_mutex: ldm.if_ldm_4.request_data_objects(…)`), the mutex consumer callbacks take.
Any bracketing of one non-re-entrant mutex around straight-line LDM calls is a list of segments. -/
abbrev Seg := Bool × List Op
def segProg (g : Seg) : List (Instr LSt) :=
  if g.1 then [.acq lkApp] ++ (threadProg g.2 ++ [.rel lkApp]) else threadProg g.2
def appProg (segs : List Seg) : List (Instr LSt) := (segs.map segProg).flatten
def sysApp (threads : List (List Seg)) : Sys LSt := mkSys {} (threads.map appProg)
def Op.isAttend : Op → Bool
  | .attend _ _ => true
  | _ => false
/-- the application's own obligation: a thread does not run an attendance pass (whose callbacks take the
non-re-entrant application mutex) while it holds that mutex itself -/
def AppOk (threads : List (List Seg)) : Prop := ∀ segs ∈ threads, ∀ g ∈ segs, g.1 = true → ∀ op ∈ g.2, op.isAttend = false

theorem appProg_plain (ops : List Op) : appProg [(false, ops)] = threadProg ops := by
  simp [appProg, segProg]
/-- threads that never take the application mutex: `sys` is the special case of `sysApp` -/
theorem sys_eq_sysApp (threads : List (List Op)) : sys threads = sysApp (threads.map (fun ops => [(false, ops)])) := by
  unfold sys sysApp
  rw [List.map_map]
  congr 1
  apply List.map_congr_left
  intro ops _
  exact (appProg_plain ops).symm

/-! ## tie to the source -/
section Tie
open Generated.Locks

/-- every `DictionaryDataBase` method is ONE lock section containing all its accesses -/
theorem blocks_db :
    shape .DictionaryDataBase_insert = [([.DictionaryDataBase__lock], [.DictionaryDataBase__next_id, .DictionaryDataBase_database])] ∧
    shape .DictionaryDataBase_update = [([.DictionaryDataBase__lock], [.DictionaryDataBase_database])] ∧
    shape .DictionaryDataBase_get = [([.DictionaryDataBase__lock], [.DictionaryDataBase_database])] ∧
    shape .DictionaryDataBase_remove = [([.DictionaryDataBase__lock], [.DictionaryDataBase_database])] ∧
    shape .DictionaryDataBase_all = [([.DictionaryDataBase__lock], [.DictionaryDataBase_database])] ∧
    shape .DictionaryDataBase_exists = [([.DictionaryDataBase__lock], [.DictionaryDataBase_database])] := by
  refine ⟨by decide, by decide, by decide, by decide, by decide, by decide⟩

/-- the store, the id allocator, the registries and the subscription state are only touched under their lock -/
theorem guarded_ldm :
    allUnder .DictionaryDataBase_database .DictionaryDataBase__lock = true ∧
    allUnder .DictionaryDataBase__next_id .DictionaryDataBase__lock = true ∧
    allUnder .LDMService_data_provider_its_aid .LDMService__lock = true ∧
    allUnder .LDMService_data_consumer_its_aid .LDMService__lock = true ∧
    allUnder .LDMService_subscriptions .LDMService__lock = true ∧
    allUnder .LDMService_last_checked_subscriptions_time .LDMService__lock = true := by decide +kernel

/-- the registry sections are single blocks -/
theorem blocks_service :
    shape .LDMService_add_data_provider_its_aid = [([.LDMService__lock], [.LDMService_data_provider_its_aid])] ∧
    shape .LDMService_del_data_provider_its_aid = [([.LDMService__lock], [.LDMService_data_provider_its_aid])] ∧
    shape .LDMService_get_data_provider_its_aid = [([.LDMService__lock], [.LDMService_data_provider_its_aid])] ∧
    shape .LDMService_add_data_consumer_its_aid = [([.LDMService__lock], [.LDMService_data_consumer_its_aid])] ∧
    (shape .LDMService_del_data_consumer_its_aid = [([.LDMService__lock], [.LDMService_data_consumer_its_aid])] ∨
     shape .LDMService_del_data_consumer_its_aid =
       [([.LDMService__lock], [.LDMService_data_consumer_its_aid, .LDMService_subscriptions])]) ∧
    shape .LDMService_get_data_consumer_its_aid = [([.LDMService__lock], [.LDMService_data_consumer_its_aid])] ∧
    shape .LDMService_store_new_subscription_petition =
      [([.LDMService__lock], [.LDMService_last_checked_subscriptions_time, .LDMService_subscriptions])] ∧
    shape .LDMService_remove_subscription =
      [([.LDMService__lock], [.LDMService_last_checked_subscriptions_time, .LDMService_subscriptions])] := by
  refine ⟨by decide, by decide, by decide, by decide, by decide, by decide, by decide, by decide⟩

/-- multi-block operations: no lock is held across the calls of IF.LDM.3 update / delete and of the maintenance pass -/
theorem calls_unlocked :
    (calls .InterfaceLDM3_update_provider_data).all (fun c => c.1.isEmpty) = true ∧
    (calls .InterfaceLDM3_delete_provider_data).all (fun c => c.1.isEmpty) = true ∧
    (calls .LDMMaintenance_collect_trash).all (fun c => c.1.isEmpty) = true ∧
    (calls .LDMMaintenance_check_and_delete_time_validity).all (fun c => c.1.isEmpty) = true ∧
    (calls .LDMService_attend_subscriptions).all (fun c => c.1.isEmpty) = true := by decide +kernel

/-- LDMMaintenanceThread wraps every maintenance-level WRITER (add, update, remove by value, remove by id) in
`data_containers_lock` -/
theorem mt_wraps :
    (calls .LDMMaintenanceThread_update_provider_data) = [([.LDMMaintenanceThread_data_containers_lock], .LDMMaintenance_update_provider_data)] ∧
    (calls .LDMMaintenanceThread_del_provider_data) = [([.LDMMaintenanceThread_data_containers_lock], .LDMMaintenance_del_provider_data)] ∧
    (calls .LDMMaintenanceThread_del_provider_data_by_id) = [([.LDMMaintenanceThread_data_containers_lock], .LDMMaintenance_del_provider_data_by_id)] ∧
    (calls .LDMMaintenanceThread_add_provider_data) = [([.LDMMaintenanceThread_data_containers_lock], .LDMMaintenance_add_provider_data)] := by
  decide +kernel

/-- `search` (a filtered / unfiltered request, the attendance pass's query) runs entirely inside ONE database-lock
section: snapshot (`all`) and filter evaluation are one block (`dbAll`) -/
theorem search_locked :
    (calls .DictionaryDataBase_search).all (fun c => c.1 == [.DictionaryDataBase__lock]) = true ∧
    (calls .LDMMaintenance_search_data_containers) = [([], .DictionaryDataBase_search)] ∧
    (calls .LDMService_search_data) = [([], .DictionaryDataBase_search)] := by decide +kernel

open Generated.LdmShape in
/-- the block SEQUENCES `compileT` assumes for the multi-block operations are the synchronisation skeletons of the
source (harness/gen_ldm_shape.py: lock sections, loops and lock-taking calls in source order):
`attend` = snapshot section ; per subscription (registry copy ; `attend_subscription` = search ; still-stored section ;
last-checked section) ; removals - the registry is read INSIDE the loop, after the snapshot; `upd` = exists ; get ; (get ; update); `del` = exists ;
remove_by_id; `deregC` = discard+collect section ; removals; `unsub` = registry copy ; (copy section ; removals);
`gc` = all ; (all ; per row remove) ; area pass ; all -/
theorem skeletons :
    skeleton_LDMService_attend_subscriptions =
      ["with _lock", "end", "loop", "call get_data_consumer_its_aid", "call attend_subscription", "endloop",
       "loop", "call remove_subscription", "endloop"] ∧
    skeleton_LDMService_attend_subscription =
      ["call search_data", "call order_search_results", "with _lock", "end", "call process_notifications"] ∧
    skeleton_LDMService_process_notifications = ["with _lock", "end"] ∧
    skeleton_LDMService_remove_subscription = ["with _lock", "end"] ∧
    skeleton_LDMService_delete_subscription = ["with _lock", "end", "loop", "call remove_subscription", "endloop"] ∧
    skeleton_LDMService_del_data_consumer_its_aid = ["with _lock", "end", "loop", "call remove_subscription", "endloop"] ∧
    skeleton_InterfaceLDM3_add_provider_data = ["call get_data_provider_its_aid", "call add_provider_data"] ∧
    skeleton_InterfaceLDM3_update_provider_data = ["call exists", "call get_provider_data", "call update_provider_data"] ∧
    skeleton_LDMMaintenance_update_provider_data = ["call get", "call update"] ∧
    skeleton_LDMMaintenanceThread_update_provider_data = ["with data_containers_lock", "call update_provider_data", "end"] ∧
    skeleton_InterfaceLDM3_delete_provider_data = ["call exists", "call del_provider_data_by_id"] ∧
    skeleton_InterfaceLDM3_deregister_data_provider = ["call get_data_provider_its_aid", "call del_data_provider_its_aid"] ∧
    skeleton_InterfaceLDM4_deregister_data_consumer = ["call get_data_consumer_its_aid", "call del_data_consumer_its_aid"] ∧
    skeleton_InterfaceLDM4_request_data_objects = ["call get_data_consumer_its_aid", "call query"] ∧
    skeleton_InterfaceLDM4_unsubscribe_data_consumer = ["call get_data_consumer_its_aid", "call delete_subscription"] ∧
    skeleton_LDMMaintenance_check_and_delete_time_validity =
      ["call get_all_data_containers", "loop", "call del_provider_data", "endloop"] ∧
    skeleton_LDMMaintenance_collect_trash =
      ["call get_all_data_containers", "call check_and_delete_time_validity", "call check_and_delete_area_of_maintenance",
       "call get_all_data_containers"] :=
  ⟨rfl, rfl, rfl, rfl, rfl, rfl, rfl, rfl, rfl, rfl, rfl, rfl, rfl, rfl, rfl, rfl, rfl⟩

/-- no method stores into an object fetched from the data base: the in-memory back-end hands out the stored objects
themselves, so a record (`Nat` code in the model) only ever changes through an `update` block under the database lock,
and an object already returned to a consumer never changes -/
theorem no_inplace_mutation : Generated.LdmShape.inplace = [] := rfl

/-- every use (`x[…]`, `x.attr`, iteration) of the answer of a single-object look-up (`get`, `get_provider_data`) in the LDM
sources is dominated by a test that the answer is not None (harness/gen_ldm_shape.py `OptionalUse`): a look-up of an id
whose existence was checked in an EARLIER lock section may still answer None, and no method dereferences that None - the
`guarded = true` case of `updTypeChk` is the code -/
theorem optional_lookups_guarded : Generated.LdmShape.optionalDerefs = [] := rfl

/-- every lock acquisition in the LDM sources is a `with` statement (what harness/gen_locks.py analyses): there is no
explicit `.acquire()` / `.release()` call -/
theorem no_explicit_lock_calls : Generated.LdmShape.explicitLockCalls = [] := rfl

/-- **user code runs outside every lock section**: the only invocation of a consumer callback in the LDM sources is the
one in `LDMService.process_notifications`, and no `with self.<lock>` section encloses it (harness/gen_ldm_shape.py
`userCalls`) – the `callback` step of `attendIter` follows the released last-checked section and holds only `lkApp` -/
theorem callbacks_outside_locks :
    Generated.LdmShape.userCalls = [("LDMService_process_notifications", [])] := by decide

/-- the functions from which `t` is reached through the call graph of `Generated.Locks.calls` (one round) -/
def callersStep (ts : List Fn) : List Fn :=
  allFns.filter (fun g => ts.contains g || (calls g).any (fun c => ts.contains c.2))
/-- `process_notifications` and everything that (transitively) calls it -/
def notifiers : List Fn := callersStep (callersStep (callersStep (callersStep (callersStep [.LDMService_process_notifications]))))

/-- … and no lock is held ALONG THE CALL CHAIN that reaches the notification: `notifiers` is closed under "calls a
member" (five rounds reach the fixpoint), it contains the attendance pass, its per-subscription step and both drivers
(the reactive add, the service thread), and every call from a member to a member is made with no lock held -/
theorem notification_chain_unlocked :
    callersStep notifiers = notifiers ∧
    notifiers.contains .LDMService_attend_subscription = true ∧ notifiers.contains .LDMService_attend_subscriptions = true ∧
    notifiers.contains .LDMServiceReactive_add_provider_data = true ∧
    notifiers.contains .LDMServiceThreads_subscriptions_service = true ∧
    notifiers.all (fun g => (calls g).all (fun c => !notifiers.contains c.2 || c.1.isEmpty)) = true := by
  decide +kernel

/-- rank of the generated lock names (maintenance-thread lock < service lock < database lock; the router's locks are
ranked as in `RouterConc`) -/
def lkRank : Lk → Nat
  | .Router_sequence_number_lock => 0
  | .Router__cbf_lock => 1
  | .Router__ls_lock => 2
  | .Router_ego_position_vector_lock => 3
  | .LocationTable_loc_t_lock => 4
  | .LocationTableEntry_position_vector_lock => 5
  | .LocationTableEntry_tst_lock => 5
  | .LocationTableEntry_pdr_lock => 5
  | .LocationTableEntry_dpl_lock => 5
  | .LDMMaintenanceThread_data_containers_lock => 1
  | .LDMServiceThreads_data_containers_lock => 1
  | .LDMMaintenanceReactive_lock => 1
  | .LDMServiceReactive_lock => 1
  | .LDMService__lock => 2
  | .DictionaryDataBase__lock => 3

theorem order_ranked : ranked lkRank = true := by decide +kernel
theorem reentrant_only : reentrantSelf.all (fun l => reentrant.contains l) = true := by decide +kernel
/-- the only nesting among the LDM locks -/
theorem ldm_edges :
    edges.filter (fun e => e.1 == .LDMMaintenanceThread_data_containers_lock || e.1 == .LDMService__lock
        || e.1 == .DictionaryDataBase__lock || e.1 == .LDMServiceThreads_data_containers_lock) =
      [(.LDMMaintenanceThread_data_containers_lock, .DictionaryDataBase__lock)] := by decide +kernel

end Tie

end FlexModel.Conc.Ldm

/-
Generic interleaving semantics over ATOMIC BLOCKS (C15, C16).

A thread is a straight-line list of instructions: `acq l`, `rel l` (lock operations) and `blk f` (one atomic
block: the statements executed while a lock is held, or a single unlocked access to shared state).  Branches of
the Python code are encoded inside the block functions through per-operation registers kept in the shared state.
`step s t` lets thread `t` execute its next instruction (`none` = finished, unknown thread, or blocked on a
lock).  A schedule is ANY `List ThreadId`; choices that are not enabled are skipped (stutter), so every list is
a schedule and the theorems quantify over all of them.

Proved once, for every state type `σ`, every number of threads and every program:
* `run_eq_trace`, `trace_thread_order` (linearisation): the shared state reached under a schedule is the
  sequential composition of the blocks in the order in which they were executed, and that order contains each
  thread's blocks in program order – a block is a linearisation point;
* `swap_independent` (mover lemma): adjacent blocks of different threads that commute can be exchanged;
* `no_deadlock`: if every thread's program takes locks along a strict rank (a witness that the lock-order graph
  is acyclic) and is well bracketed, no reachable state is a deadlock.
Imports core Lean only.
-/
namespace FlexModel.Conc

abbrev Lock := Nat
abbrev ThreadId := Nat

inductive Instr (σ : Type) where
  | acq (l : Lock)
  | rel (l : Lock)
  | blk (f : σ → σ)

structure Thread (σ : Type) where
  prog : List (Instr σ)
  held : List Lock := []

structure Sys (σ : Type) where
  sh : σ
  thr : List (Thread σ)

variable {σ : Type}

def lockFree (s : Sys σ) (l : Lock) : Bool := s.thr.all (fun th => !th.held.contains l)

/-- one instruction of thread `t`; `none` when `t` is unknown, finished or blocked -/
def step (s : Sys σ) (t : ThreadId) : Option (Sys σ) :=
  match s.thr[t]? with
  | none => none
  | some th =>
    match th.prog with
    | [] => none
    | .acq l :: p =>
      if lockFree s l then some { s with thr := s.thr.set t { prog := p, held := l :: th.held } } else none
    | .rel l :: p => some { s with thr := s.thr.set t { prog := p, held := th.held.erase l } }
    | .blk f :: p => some { sh := f s.sh, thr := s.thr.set t { prog := p, held := th.held } }

def stepD (s : Sys σ) (t : ThreadId) : Sys σ := (step s t).getD s

def run (s : Sys σ) (sched : List ThreadId) : Sys σ := sched.foldl stepD s

def Reachable (s0 s : Sys σ) : Prop := ∃ sched, run s0 sched = s

def finished (s : Sys σ) : Bool := s.thr.all (fun th => th.prog.isEmpty)

/-- some thread is unfinished and no thread can move -/
def Deadlock (s : Sys σ) : Prop := (∃ th ∈ s.thr, th.prog ≠ []) ∧ ∀ t, step s t = none

theorem run_nil (s : Sys σ) : run s [] = s := rfl
theorem run_cons (s : Sys σ) (t : ThreadId) (r : List ThreadId) : run s (t :: r) = run (stepD s t) r := rfl
theorem run_append (s : Sys σ) (a b : List ThreadId) : run s (a ++ b) = run (run s a) b := by
  simp [run, List.foldl_append]

/-- an invariant of every enabled step holds in every reachable state -/
theorem run_induction {P : Sys σ → Prop} (hstep : ∀ s t s', P s → step s t = some s' → P s')
    (s : Sys σ) (h : P s) (sched : List ThreadId) : P (run s sched) := by
  induction sched generalizing s with
  | nil => exact h
  | cons t r ih =>
    rw [run_cons]
    apply ih
    unfold stepD
    cases hs : step s t with
    | none => simpa using h
    | some s' => simpa using hstep s t s' h hs

/-! ## Linearisation: the result of a schedule is the sequential composition of its blocks -/

/-- the block executed by `step s t`, if that step is a block -/
def stepBlk (s : Sys σ) (t : ThreadId) : Option (σ → σ) :=
  match s.thr[t]? with
  | none => none
  | some th =>
    match th.prog with
    | .blk f :: _ => some f
    | _ => none

/-- blocks executed under a schedule, in execution order, tagged with their thread -/
def trace : Sys σ → List ThreadId → List (ThreadId × (σ → σ))
  | _, [] => []
  | s, t :: r =>
    match stepBlk s t with
    | some f => (t, f) :: trace (stepD s t) r
    | none => trace (stepD s t) r

def applyAll (fs : List (ThreadId × (σ → σ))) (x : σ) : σ := fs.foldl (fun x tf => tf.2 x) x

/-! characterisation of `step` by the thread's next instruction -/
theorem step_none_thr (s : Sys σ) (t : ThreadId) (h : s.thr[t]? = none) : step s t = none := by
  simp [step, h]
theorem step_nil (s : Sys σ) (t : ThreadId) (th : Thread σ) (h : s.thr[t]? = some th) (hp : th.prog = []) :
    step s t = none := by
  simp [step, h, hp]
theorem step_acq (s : Sys σ) (t : ThreadId) (th : Thread σ) (l : Lock) (p : List (Instr σ))
    (h : s.thr[t]? = some th) (hp : th.prog = .acq l :: p) :
    step s t = if lockFree s l then some { s with thr := s.thr.set t { prog := p, held := l :: th.held } } else none := by
  simp [step, h, hp]
theorem step_rel (s : Sys σ) (t : ThreadId) (th : Thread σ) (l : Lock) (p : List (Instr σ))
    (h : s.thr[t]? = some th) (hp : th.prog = .rel l :: p) :
    step s t = some { s with thr := s.thr.set t { prog := p, held := th.held.erase l } } := by
  simp [step, h, hp]
theorem step_blk (s : Sys σ) (t : ThreadId) (th : Thread σ) (f : σ → σ) (p : List (Instr σ))
    (h : s.thr[t]? = some th) (hp : th.prog = .blk f :: p) :
    step s t = some { sh := f s.sh, thr := s.thr.set t { prog := p, held := th.held } } := by
  simp [step, h, hp]

theorem stepBlk_blk (s : Sys σ) (t : ThreadId) (th : Thread σ) (f : σ → σ) (p : List (Instr σ))
    (h : s.thr[t]? = some th) (hp : th.prog = .blk f :: p) : stepBlk s t = some f := by
  simp [stepBlk, h, hp]
theorem stepBlk_none_thr (s : Sys σ) (t : ThreadId) (h : s.thr[t]? = none) : stepBlk s t = none := by
  simp [stepBlk, h]
theorem stepBlk_nil (s : Sys σ) (t : ThreadId) (th : Thread σ) (h : s.thr[t]? = some th) (hp : th.prog = []) :
    stepBlk s t = none := by
  simp [stepBlk, h, hp]
theorem stepBlk_acq (s : Sys σ) (t : ThreadId) (th : Thread σ) (l : Lock) (p : List (Instr σ))
    (h : s.thr[t]? = some th) (hp : th.prog = .acq l :: p) : stepBlk s t = none := by
  simp [stepBlk, h, hp]
theorem stepBlk_rel (s : Sys σ) (t : ThreadId) (th : Thread σ) (l : Lock) (p : List (Instr σ))
    (h : s.thr[t]? = some th) (hp : th.prog = .rel l :: p) : stepBlk s t = none := by
  simp [stepBlk, h, hp]

theorem trace_cons (s : Sys σ) (t : ThreadId) (r : List ThreadId) :
    trace s (t :: r) = (match stepBlk s t with | some f => [(t, f)] | none => []) ++ trace (stepD s t) r := by
  rw [trace]
  cases stepBlk s t <;> simp

/-- effect of one scheduler choice on the shared state -/
theorem stepD_sh (s : Sys σ) (t : ThreadId) :
    (stepD s t).sh = (match stepBlk s t with | some f => f s.sh | none => s.sh) := by
  unfold stepD
  cases hth : s.thr[t]? with
  | none => simp [step_none_thr s t hth, stepBlk_none_thr s t hth]
  | some th =>
    cases hp : th.prog with
    | nil => simp [step_nil s t th hth hp, stepBlk_nil s t th hth hp]
    | cons i p =>
      cases i with
      | acq l =>
        rw [step_acq s t th l p hth hp, stepBlk_acq s t th l p hth hp]
        split <;> simp
      | rel l => simp [step_rel s t th l p hth hp, stepBlk_rel s t th l p hth hp]
      | blk f => simp [step_blk s t th f p hth hp, stepBlk_blk s t th f p hth hp]

/-- **Linearisation (state).** The shared state after ANY schedule equals the blocks executed, applied one after
the other in execution order. -/
theorem run_eq_trace (s : Sys σ) (sched : List ThreadId) :
    (run s sched).sh = applyAll (trace s sched) s.sh := by
  induction sched generalizing s with
  | nil => rfl
  | cons t r ih =>
    rw [run_cons, ih, trace_cons, stepD_sh]
    cases stepBlk s t <;> simp [applyAll]

/-- the blocks of a program, in program order -/
def blocksOf : List (Instr σ) → List (σ → σ)
  | [] => []
  | .blk f :: p => f :: blocksOf p
  | .acq _ :: p => blocksOf p
  | .rel _ :: p => blocksOf p

def progOf (s : Sys σ) (t : ThreadId) : List (Instr σ) := (s.thr[t]?.map (·.prog)).getD []

def tracedBy (t : ThreadId) (tr : List (ThreadId × (σ → σ))) : List (σ → σ) :=
  (tr.filter (fun x => x.1 == t)).map (·.2)

theorem progOf_set_ne (s : Sys σ) (t u : ThreadId) (th : Thread σ) (x : σ) (h : u ≠ t) :
    progOf { sh := x, thr := s.thr.set t th } u = progOf s u := by
  have hne : t ≠ u := fun e => h e.symm
  simp [progOf, List.getElem?_set_ne hne]

theorem progOf_set_self (s : Sys σ) (t : ThreadId) (th : Thread σ) (x : σ) (h : t < s.thr.length) :
    progOf { sh := x, thr := s.thr.set t th } t = th.prog := by
  simp [progOf, List.getElem?_set_self h]

theorem progOf_stepD_ne (s : Sys σ) (t u : ThreadId) (h : u ≠ t) : progOf (stepD s t) u = progOf s u := by
  unfold stepD
  cases hth : s.thr[t]? with
  | none => simp [step_none_thr s t hth]
  | some th =>
    cases hp : th.prog with
    | nil => simp [step_nil s t th hth hp]
    | cons i p =>
      cases i with
      | acq l =>
        rw [step_acq s t th l p hth hp]
        split
        · exact progOf_set_ne s t u _ _ h
        · rfl
      | rel l => rw [step_rel s t th l p hth hp]; exact progOf_set_ne s t u _ _ h
      | blk f => rw [step_blk s t th f p hth hp]; exact progOf_set_ne s t u _ _ h

theorem blocksOf_progOf_stepD (s : Sys σ) (t : ThreadId) :
    blocksOf (progOf s t) = (match stepBlk s t with | some f => [f] | none => []) ++ blocksOf (progOf (stepD s t) t) := by
  unfold stepD
  cases hth : s.thr[t]? with
  | none => simp [step_none_thr s t hth, stepBlk_none_thr s t hth]
  | some th =>
    have hlt : t < s.thr.length := (List.getElem?_eq_some_iff.mp hth).1
    have hpo : progOf s t = th.prog := by simp [progOf, hth]
    cases hp : th.prog with
    | nil => simp [step_nil s t th hth hp, stepBlk_nil s t th hth hp]
    | cons i p =>
      cases i with
      | acq l =>
        rw [step_acq s t th l p hth hp, stepBlk_acq s t th l p hth hp]
        by_cases hf : lockFree s l = true
        · simp only [hf, if_true, Option.getD_some, List.nil_append]
          rw [progOf_set_self s t _ _ hlt, hpo, hp, blocksOf]
        · simp [hf]
      | rel l =>
        rw [step_rel s t th l p hth hp, stepBlk_rel s t th l p hth hp]
        simp only [Option.getD_some, List.nil_append]
        rw [progOf_set_self s t _ _ hlt, hpo, hp, blocksOf]
      | blk f =>
        rw [step_blk s t th f p hth hp, stepBlk_blk s t th f p hth hp]
        simp only [Option.getD_some, List.singleton_append]
        rw [progOf_set_self s t _ _ hlt, hpo, hp, blocksOf]

theorem tracedBy_append (u : ThreadId) (a b : List (ThreadId × (σ → σ))) :
    tracedBy u (a ++ b) = tracedBy u a ++ tracedBy u b := by
  simp [tracedBy]

/-- **Linearisation (order).** For every thread, the blocks it executed under the schedule followed by the blocks
it still has to execute are exactly its blocks in program order: the execution order of `run_eq_trace` is an
interleaving of the threads' block sequences. -/
theorem trace_thread_order (s : Sys σ) (sched : List ThreadId) (u : ThreadId) :
    tracedBy u (trace s sched) ++ blocksOf (progOf (run s sched) u) = blocksOf (progOf s u) := by
  induction sched generalizing s with
  | nil => simp [trace, tracedBy, run]
  | cons t r ih =>
    rw [run_cons, trace_cons, tracedBy_append, List.append_assoc, ih (stepD s t)]
    by_cases hut : u = t
    · subst hut
      rw [blocksOf_progOf_stepD s u]
      cases stepBlk s u <;> simp [tracedBy]
    · rw [progOf_stepD_ne s t u hut]
      have hne : (t == u) = false := by simp; exact fun e => hut e.symm
      cases stepBlk s t <;> simp [tracedBy, hne]

/-! ## Invariants from blocks -/

theorem blocksOf_append (p q : List (Instr σ)) : blocksOf (p ++ q) = blocksOf p ++ blocksOf q := by
  induction p with
  | nil => rfl
  | cons i p ih => cases i <;> simp [blocksOf, ih]

theorem mem_blocksOf_flatten (ps : List (List (Instr σ))) (f : σ → σ) (h : f ∈ blocksOf ps.flatten) :
    ∃ p ∈ ps, f ∈ blocksOf p := by
  induction ps with
  | nil => simp [blocksOf] at h
  | cons p r ih =>
    simp only [List.flatten_cons, blocksOf_append, List.mem_append] at h
    rcases h with h | h
    · exact ⟨p, by simp, h⟩
    · obtain ⟨q, hq, hf⟩ := ih h
      exact ⟨q, List.mem_cons_of_mem _ hq, hf⟩

/-- every block still to be executed by some thread preserves `P` -/
def BlocksPreserve (P : σ → Prop) (s : Sys σ) : Prop :=
  ∀ th ∈ s.thr, ∀ f ∈ blocksOf th.prog, ∀ x, P x → P (f x)

/-- **Invariant rule.** A predicate on the shared state that holds initially and is preserved by every block of
every thread's program holds after ANY schedule. -/
theorem inv_of_blocks (P : σ → Prop) (s0 : Sys σ) (h0 : P s0.sh) (hB : BlocksPreserve P s0)
    (sched : List ThreadId) : P (run s0 sched).sh := by
  have key : P (run s0 sched).sh ∧ BlocksPreserve P (run s0 sched) := by
    refine run_induction (P := fun s => P s.sh ∧ BlocksPreserve P s) ?_ s0 ⟨h0, hB⟩ sched
    intro s t s' ⟨hP, hBs⟩ hs
    cases hth : s.thr[t]? with
    | none => rw [step_none_thr s t hth] at hs; cases hs
    | some th =>
      have hmem : th ∈ s.thr := List.mem_of_getElem? hth
      cases hp : th.prog with
      | nil => rw [step_nil s t th hth hp] at hs; cases hs
      | cons i p =>
        have hsub : ∀ f ∈ blocksOf p, ∀ x, P x → P (f x) := by
          intro f hf
          apply hBs th hmem f
          rw [hp]
          cases i <;> simp [blocksOf, hf]
        have hset : ∀ (x : σ) (th' : Thread σ), th'.prog = p →
            BlocksPreserve P { sh := x, thr := s.thr.set t th' } := by
          intro x th' hth' th'' hmem'' f hf
          rcases List.mem_or_eq_of_mem_set hmem'' with h1 | h1
          · exact hBs th'' h1 f hf
          · subst h1; rw [hth'] at hf; exact hsub f hf
        cases i with
        | acq l =>
          rw [step_acq s t th l p hth hp] at hs
          split at hs
          · simp only [Option.some.injEq] at hs
            subst hs
            exact ⟨hP, hset _ _ rfl⟩
          · cases hs
        | rel l =>
          rw [step_rel s t th l p hth hp] at hs
          simp only [Option.some.injEq] at hs
          subst hs
          exact ⟨hP, hset _ _ rfl⟩
        | blk f =>
          rw [step_blk s t th f p hth hp] at hs
          simp only [Option.some.injEq] at hs
          subst hs
          refine ⟨?_, hset _ _ rfl⟩
          apply hBs th hmem f _ _ hP
          rw [hp]; simp [blocksOf]
  exact key.1

/-! ## Mover lemma -/

theorem applyAll_swap (a b : ThreadId × (σ → σ)) (pre post : List (ThreadId × (σ → σ)))
    (hc : ∀ x, a.2 (b.2 x) = b.2 (a.2 x)) (x : σ) :
    applyAll (pre ++ a :: b :: post) x = applyAll (pre ++ b :: a :: post) x := by
  simp [applyAll, List.foldl_append, hc]

/-! ## Deadlock freedom from a lock rank -/

/-- a program is well bracketed and acquires locks along a strictly increasing `rank`, given the locks held -/
def WFp (rank : Lock → Nat) : List Lock → List (Instr σ) → Prop
  | held, [] => held = []
  | held, .acq l :: p => (∀ h ∈ held, rank h < rank l) ∧ WFp rank (l :: held) p
  | held, .rel l :: p => l ∈ held ∧ WFp rank (held.erase l) p
  | held, .blk _ :: p => WFp rank held p

def WF (rank : Lock → Nat) (s : Sys σ) : Prop := ∀ th ∈ s.thr, WFp rank th.held th.prog

theorem WF_step (rank : Lock → Nat) (s : Sys σ) (t : ThreadId) (s' : Sys σ) (h : WF rank s)
    (hs : step s t = some s') : WF rank s' := by
  unfold step at hs
  cases hth : s.thr[t]? with
  | none => simp [hth] at hs
  | some th =>
    have hmem : th ∈ s.thr := List.mem_of_getElem? hth
    have hw := h th hmem
    simp only [hth] at hs
    cases hp : th.prog with
    | nil => simp [hp] at hs
    | cons i p =>
      rw [hp] at hw
      simp only [hp] at hs
      intro th' hth'
      cases i with
      | acq l =>
        simp only at hs
        split at hs
        · simp only [Option.some.injEq] at hs
          subst hs
          rcases List.mem_or_eq_of_mem_set hth' with h1 | h1
          · exact h th' h1
          · subst h1; exact hw.2
        · cases hs
      | rel l =>
        simp only [Option.some.injEq] at hs
        subst hs
        rcases List.mem_or_eq_of_mem_set hth' with h1 | h1
        · exact h th' h1
        · subst h1; exact hw.2
      | blk f =>
        simp only [Option.some.injEq] at hs
        subst hs
        rcases List.mem_or_eq_of_mem_set hth' with h1 | h1
        · exact h th' h1
        · subst h1; exact hw

theorem exists_max_rank (rank : Lock → Nat) (ls : List Lock) (h : ls ≠ []) :
    ∃ m ∈ ls, ∀ l ∈ ls, rank l ≤ rank m := by
  induction ls with
  | nil => exact absurd rfl h
  | cons a r ih =>
    by_cases hr : r = []
    · subst hr; exact ⟨a, by simp, by simp⟩
    · obtain ⟨m, hm, hmax⟩ := ih hr
      by_cases hle : rank m ≤ rank a
      · refine ⟨a, by simp, ?_⟩
        intro l hl
        rcases List.mem_cons.mp hl with rfl | hl
        · exact Nat.le_refl _
        · exact Nat.le_trans (hmax l hl) hle
      · refine ⟨m, List.mem_cons_of_mem _ hm, ?_⟩
        intro l hl
        rcases List.mem_cons.mp hl with rfl | hl
        · omega
        · exact hmax l hl

theorem not_lockFree (s : Sys σ) (l : Lock) (h : lockFree s l = false) : ∃ th ∈ s.thr, l ∈ th.held := by
  unfold lockFree at h
  rw [List.all_eq_false] at h
  obtain ⟨th, hth, hc⟩ := h
  refine ⟨th, hth, ?_⟩
  simpa using hc

/-- a thread that cannot move although it is unfinished waits for a lock that some thread holds -/
theorem blocked_waits (s : Sys σ) (t : ThreadId) (th : Thread σ) (hth : s.thr[t]? = some th)
    (hp : th.prog ≠ []) (hs : step s t = none) :
    ∃ l p, th.prog = .acq l :: p ∧ ∃ o ∈ s.thr, l ∈ o.held := by
  unfold step at hs
  simp only [hth] at hs
  cases hq : th.prog with
  | nil => exact absurd hq hp
  | cons i p =>
    simp only [hq] at hs
    cases i with
    | acq l =>
      simp only at hs
      split at hs
      · cases hs
      · rename_i hf
        have hf' : lockFree s l = false := by simpa using hf
        exact ⟨l, p, rfl, not_lockFree s l hf'⟩
    | rel l => simp at hs
    | blk f => simp at hs

theorem WF_not_deadlock (rank : Lock → Nat) (s : Sys σ) (h : WF rank s) : ¬ Deadlock s := by
  rintro ⟨⟨th0, hth0, hp0⟩, hall⟩
  -- some lock is held
  obtain ⟨t0, ht0⟩ := List.getElem?_of_mem hth0
  obtain ⟨l0, _, _, o0, ho0, hl0⟩ := blocked_waits s t0 th0 ht0 hp0 (hall t0)
  let allHeld := s.thr.flatMap (·.held)
  have hne : allHeld ≠ [] := by
    intro he
    have : l0 ∈ allHeld := List.mem_flatMap.mpr ⟨o0, ho0, hl0⟩
    rw [he] at this
    cases this
  obtain ⟨m, hm, hmax⟩ := exists_max_rank rank allHeld hne
  obtain ⟨om, hom, hmo⟩ := List.mem_flatMap.mp hm
  -- its owner is unfinished …
  have hwm := h om hom
  have hpm : om.prog ≠ [] := by
    intro he
    rw [he] at hwm
    simp only [WFp] at hwm
    rw [hwm] at hmo
    cases hmo
  obtain ⟨tm, htm⟩ := List.getElem?_of_mem hom
  -- … hence blocked on a held lock of larger rank
  obtain ⟨l, p, hprog, o, ho, hlo⟩ := blocked_waits s tm om htm hpm (hall tm)
  rw [hprog] at hwm
  have h1 : rank m < rank l := hwm.1 m hmo
  have h2 : rank l ≤ rank m := hmax l (List.mem_flatMap.mpr ⟨o, ho, hlo⟩)
  omega

/-- **No deadlock.** If every thread's program is well bracketed and takes locks along a strict rank, then no
state reachable under ANY schedule is a deadlock. -/
theorem no_deadlock (rank : Lock → Nat) (s0 : Sys σ) (h : WF rank s0) (sched : List ThreadId) :
    ¬ Deadlock (run s0 sched) :=
  WF_not_deadlock rank _ (run_induction (fun s t s' hs hst => WF_step rank s t s' hs hst) s0 h sched)

/-! ## Building programs from sections -/

/-- a critical section: the block `f` executed while `l` is held -/
def sect (l : Lock) (f : σ → σ) : List (Instr σ) := [.acq l, .blk f, .rel l]

/-- a section under `l1` that takes `l2` inside (nested `with`) -/
def sect2 (l1 l2 : Lock) (f g h : σ → σ) : List (Instr σ) :=
  [.acq l1, .blk f, .acq l2, .blk g, .rel l2, .blk h, .rel l1]

theorem WFp_append (rank : Lock → Nat) (p q : List (Instr σ)) (held : List Lock)
    (hp : WFp rank held p) (hq : WFp rank [] q) : WFp rank held (p ++ q) := by
  induction p generalizing held with
  | nil => simp only [WFp] at hp; subst hp; simpa using hq
  | cons i p ih =>
    cases i with
    | acq l => exact ⟨hp.1, ih _ hp.2⟩
    | rel l => exact ⟨hp.1, ih _ hp.2⟩
    | blk f => exact ih _ hp

theorem WFp_flatten (rank : Lock → Nat) (ps : List (List (Instr σ))) (h : ∀ p ∈ ps, WFp rank [] p) :
    WFp rank [] ps.flatten := by
  induction ps with
  | nil => simp [WFp]
  | cons p r ih =>
    simp only [List.flatten_cons]
    exact WFp_append rank p _ [] (h p (by simp)) (ih (fun q hq => h q (List.mem_cons_of_mem _ hq)))

theorem WFp_sect (rank : Lock → Nat) (l : Lock) (f : σ → σ) : WFp rank [] (sect l f) := by
  simp [sect, WFp]

theorem WFp_blk (rank : Lock → Nat) (f : σ → σ) : WFp rank [] [Instr.blk f] := by
  simp [WFp]

theorem WFp_sect2 (rank : Lock → Nat) (l1 l2 : Lock) (f g h : σ → σ) (hr : rank l1 < rank l2) :
    WFp rank [] (sect2 l1 l2 f g h) := by
  have hne : l1 ≠ l2 := by intro e; subst e; omega
  simp [sect2, WFp, hr, Ne.symm hne]

/-- initial system: threads with the given programs, no lock held -/
def mkSys (x : σ) (progs : List (List (Instr σ))) : Sys σ :=
  { sh := x, thr := progs.map (fun p => { prog := p, held := [] }) }

theorem WF_mkSys (rank : Lock → Nat) (x : σ) (progs : List (List (Instr σ))) (h : ∀ p ∈ progs, WFp rank [] p) :
    WF rank (mkSys x progs) := by
  intro th hth
  simp only [mkSys, List.mem_map] at hth
  obtain ⟨p, hp, rfl⟩ := hth
  exact h p hp

end FlexModel.Conc

/-
Helper lemmas for Props/C15 (LocTE life cycle): duplicate detection per LocTE object (`ObjInv`, every code variant)
and per source (`SrcInv`, code with repair C15-locte-update-under-lock), both as block invariants of every schedule.
The ring of `check_duplicate_sn` is `FlexModel.Geo.dplPush` / `lastN` / `dplSpec` of C06/C08.
-/
import FlexModel.Conc.RouterLemmas
import FlexModel.Geo.RouterLemmas

namespace FlexModel.Conc.Router
open FlexModel.Conc
open FlexModel.Geo (lastN lastN_push dplPush dplSpec)

/-! ## accepted sequence numbers -/

/-- annex A.2 on the list of ACCEPTED sequence numbers (oldest first): each one was not among the `L` accepted before it -/
def Accepts (L : Nat) (l : List Nat) : Prop := ∀ n (h : n < l.length), l[n] ∉ lastN L (l.take n)

theorem Accepts_nil (L : Nat) : Accepts L [] := by
  intro n h; simp at h

theorem Accepts_snoc (L : Nat) (l : List Nat) (k : Nat) (h : Accepts L l) (hk : k ∉ lastN L l) : Accepts L (l ++ [k]) := by
  intro n hn
  simp only [List.length_append, List.length_cons, List.length_nil] at hn
  by_cases hl : n < l.length
  · rw [List.getElem_append_left hl, List.take_append_of_le_length (by omega)]
    exact h n hl
  · have hn' : n = l.length := by omega
    subst hn'
    simp only [List.getElem_append_right (Nat.le_refl _), Nat.sub_self, List.getElem_cons_zero]
    rw [List.take_append_of_le_length (Nat.le_refl _), List.take_length]
    exact hk

/-- **at most once within the window**: two accepted packets at most `L` acceptances apart carry different SNs -/
theorem Accepts_window (L : Nat) (l : List Nat) (h : Accepts L l) (i j : Nat) (hij : i < j) (hj : j < l.length)
    (hw : j ≤ i + L) : l[i]? ≠ l[j]? := by
  have hi : i < l.length := by omega
  rw [List.getElem?_eq_getElem hi, List.getElem?_eq_getElem hj]
  intro he
  simp only [Option.some.injEq] at he
  apply h j hj
  rw [← he]
  simp only [lastN, List.length_take]
  have hmin : min j l.length = j := by omega
  rw [hmin, List.mem_iff_getElem]
  refine ⟨i - (j - L), ?_, ?_⟩
  · simp only [List.length_drop, List.length_take, hmin]; omega
  · simp only [List.getElem_drop, List.getElem_take]
    congr 1
    omega

theorem dplLen_pos : 0 < dplLen := by decide

/-! ## per LocTE object (all code variants) -/

/-- the ring of every LocTE object holds the last `dplLen` sequence numbers accepted on it -/
def ObjInv (s : St) : Prop := ∀ e, s.eDpl e = lastN dplLen (s.ePass e) ∧ Accepts dplLen (s.ePass e)

theorem newEntry_ObjInv (a : Nat) (x : St) (h : ObjInv x) : ObjInv (newEntry a x) := by
  intro e
  simp only [newEntry]
  by_cases he : e = x.eNext + 1
  · subst he
    simp only [upd_self]
    exact ⟨by simp [lastN], Accepts_nil _⟩
  · simp only [upd_ne _ _ _ _ he]
    exact h e

theorem dplOn_ObjInv (mh : Bool) (o a k e' : Nat) (x : St) (h : ObjInv x) : ObjInv (dplOn mh o a k e' x) := by
  unfold dplOn
  split
  · split
    · exact h
    · rename_i hc
      intro e
      by_cases he : e = e'
      · subst he
        simp only [upd_self]
        obtain ⟨h1, h2⟩ := h e
        refine ⟨?_, ?_⟩
        · rw [h1]; exact lastN_push dplLen dplLen_pos _ k
        · apply Accepts_snoc _ _ _ h2
          rw [← h1]
          intro hm
          apply hc
          simpa using hm
      · simp only [upd_ne _ _ _ _ he]
        exact h e
  · exact h

/-- `y` has the same LocTE rings and acceptance lists as `x` -/
def SameObj (x y : St) : Prop := y.eDpl = x.eDpl ∧ y.ePass = x.ePass

theorem ObjInv_same {x y : St} (h : SameObj x y) (hx : ObjInv x) : ObjInv y := by
  intro e; rw [h.1, h.2]; exact hx e

theorem ObjInv_blk (p q n u : Bool) (f : St → St) (hf : Blk p q n u f) : ∀ x, ObjInv x → ObjInv (f x) := by
  induction hf with
  | whenReg o slot v f _ ih => exact whenReg_preserves _ o slot v f ih
  | idB => exact fun x h => h
  | lsEnsure d =>
    intro x h; unfold lsEnsure lsFlag lsEnsure0; split
    · exact ObjInv_same ⟨rfl, rfl⟩ h
    · exact ObjInv_same ⟨rfl, rfl⟩ (newEntry_ObjInv d x h)
  | loctLearn d =>
    intro x h; unfold loctLearn; split
    · exact ObjInv_same ⟨rfl, rfl⟩ h
    · exact ObjInv_same ⟨rfl, rfl⟩ (newEntry_ObjInv d x h)
  | rxGetOrCreate o a _ =>
    intro x h; unfold rxGetOrCreate; split
    · exact ObjInv_same ⟨rfl, rfl⟩ h
    · exact ObjInv_same ⟨rfl, rfl⟩ (newEntry_ObjInv a x h)
  | rxDpl mh o a k _ => exact fun x h => dplOn_ObjInv mh o a k _ x h
  | rxPV o _ =>
    intro x h; unfold rxPV; split
    · exact ObjInv_same ⟨rfl, rfl⟩ h
    · exact h
  | rxRecv mh o a k _ =>
    intro x h
    have h1 : ObjInv (rxGetOrCreate o a x) := by
      unfold rxGetOrCreate; split
      · exact ObjInv_same ⟨rfl, rfl⟩ h
      · exact ObjInv_same ⟨rfl, rfl⟩ (newEntry_ObjInv a x h)
    have h2 : ObjInv (rxDpl mh o a k (rxGetOrCreate o a x)) := dplOn_ObjInv mh o a k _ _ h1
    unfold rxRecv rxPV; split
    · exact ObjInv_same ⟨rfl, rfl⟩ h2
    · exact h2
  | lsRegisterOrQueue fx o d _ =>
    intro x h
    refine ObjInv_same ?_ h
    simp only [lsRegisterOrQueue, lsRegCore]
    repeat' split
    all_goals exact ⟨rfl, rfl⟩
  | _ =>
    intro x h
    refine ObjInv_same ?_ h
    first
      | exact ⟨rfl, rfl⟩
      | (simp only [cbfArrive, cbfExpire, cbfSend, cbfDiscard, gucSend, lsRetransmitCheck, lsFlushPick]
         repeat' split
         all_goals exact ⟨rfl, rfl⟩)

/-! ## per source (code with repair C15-locte-update-under-lock) -/

/-- LocTE objects in the table are distinct objects constructed earlier; the acceptance list of a source whose entry
lives is the acceptance list of that entry object; a source without entry has accepted nothing since the purge; every
closed life obeys annex A.2 -/
def SrcInv (s : St) : Prop :=
  (∀ a, s.loct a = true → s.eid a ≤ s.eNext) ∧
  (∀ a b, s.loct a = true → s.loct b = true → s.eid a = s.eid b → a = b) ∧
  (∀ a, s.loct a = true → s.srcPass a = s.ePass (s.eid a)) ∧
  (∀ a, s.loct a = false → s.srcPass a = []) ∧
  (∀ a, ∀ l ∈ s.srcLives a, Accepts dplLen l)

def DplInv (s : St) : Prop := ObjInv s ∧ SrcInv s

/-- `y` has the same table, objects and acceptance ghosts as `x` -/
def SameLocT (x y : St) : Prop :=
  y.loct = x.loct ∧ y.eid = x.eid ∧ y.eNext = x.eNext ∧ y.ePass = x.ePass ∧ y.srcPass = x.srcPass ∧ y.srcLives = x.srcLives

theorem SrcInv_same {x y : St} (h : SameLocT x y) (hx : SrcInv x) : SrcInv y := by
  obtain ⟨e1, e2, e3, e4, e5, e6⟩ := h
  simp only [SrcInv]
  rw [e1, e2, e3, e4, e5, e6]
  exact hx

theorem newEntry_SrcInv (a : Nat) (x : St) (hl : x.loct a = false) (h : SrcInv x) : SrcInv (newEntry a x) := by
  obtain ⟨h1, h2, h3, h4, h5⟩ := h
  have hloct : ∀ b, b ≠ a → (newEntry a x).loct b = x.loct b := fun b hb => by simp [newEntry, upd, hb]
  have heid : ∀ b, b ≠ a → (newEntry a x).eid b = x.eid b := fun b hb => by simp [newEntry, upd, hb]
  have heida : (newEntry a x).eid a = x.eNext + 1 := by simp [newEntry]
  refine ⟨?_, ?_, ?_, ?_, h5⟩
  · intro b hb
    by_cases hba : b = a
    · subst hba; rw [heida]; exact Nat.le_refl _
    · rw [heid b hba]
      rw [hloct b hba] at hb
      have := h1 b hb
      show x.eid b ≤ x.eNext + 1
      omega
  · intro b c hb hc he
    by_cases hba : b = a
    · by_cases hca : c = a
      · rw [hba, hca]
      · exfalso
        rw [hba, heida, heid c hca] at he
        rw [hloct c hca] at hc
        have := h1 c hc
        omega
    · by_cases hca : c = a
      · exfalso
        rw [hca, heida, heid b hba] at he
        rw [hloct b hba] at hb
        have := h1 b hb
        omega
      · rw [heid b hba, heid c hca] at he
        rw [hloct b hba] at hb
        rw [hloct c hca] at hc
        exact h2 b c hb hc he
  · intro b hb
    by_cases hba : b = a
    · subst hba
      rw [heida]
      show x.srcPass b = upd x.ePass (x.eNext + 1) [] (x.eNext + 1)
      rw [upd_self]
      exact h4 b hl
    · rw [heid b hba]
      rw [hloct b hba] at hb
      have hle := h1 b hb
      show x.srcPass b = upd x.ePass (x.eNext + 1) [] (x.eid b)
      rw [upd_ne _ _ _ _ (by omega)]
      exact h3 b hb
  · intro b hb
    by_cases hba : b = a
    · subst hba; simp [newEntry] at hb
    · rw [hloct b hba] at hb
      exact h4 b hb

theorem ensure_DplInv (a : Nat) (x : St) (h : DplInv x) :
    DplInv (if x.loct a = true then x else newEntry a x) := by
  split
  · exact h
  · rename_i hl
    exact ⟨newEntry_ObjInv a x h.1, newEntry_SrcInv a x (by simpa using hl) h.2⟩

theorem dplOn_SrcInv (mh : Bool) (o a k : Nat) (x : St) (hl : x.loct a = true) (h : SrcInv x) :
    SrcInv (dplOn mh o a k (x.eid a) x) := by
  obtain ⟨h1, h2, h3, h4, h5⟩ := h
  unfold dplOn
  split
  · split
    · exact ⟨h1, h2, h3, h4, h5⟩
    · refine ⟨h1, h2, ?_, ?_, h5⟩
      · intro b hb
        by_cases hba : b = a
        · subst hba
          show upd x.srcPass b (x.srcPass b ++ [k]) b = upd x.ePass (x.eid b) (x.ePass (x.eid b) ++ [k]) (x.eid b)
          rw [upd_self, upd_self, h3 b hb]
        · have hne : x.eid b ≠ x.eid a := fun e => hba (h2 b a hb hl e)
          show upd x.srcPass a (x.srcPass a ++ [k]) b = upd x.ePass (x.eid a) (x.ePass (x.eid a) ++ [k]) (x.eid b)
          rw [upd_ne _ _ _ _ hba, upd_ne _ _ _ _ hne]
          exact h3 b hb
      · intro b hb
        have hba : b ≠ a := by intro e; subst e; rw [hl] at hb; cases hb
        show upd x.srcPass a (x.srcPass a ++ [k]) b = []
        rw [upd_ne _ _ _ _ hba]
        exact h4 b hb
  · exact ⟨h1, h2, h3, h4, h5⟩

theorem locTRefresh_DplInv (exp : List Nat) (x : St) (h : DplInv x) : DplInv (locTRefresh exp x) := by
  obtain ⟨hobj, h1, h2, h3, h4, h5⟩ := h
  refine ⟨ObjInv_same ⟨rfl, rfl⟩ hobj, ?_, ?_, ?_, ?_, ?_⟩
  · intro a ha
    simp only [locTRefresh, Bool.and_eq_true] at ha
    exact h1 a ha.1
  · intro a b ha hb
    simp only [locTRefresh, Bool.and_eq_true] at ha hb
    exact h2 a b ha.1 hb.1
  · intro a ha
    simp only [locTRefresh, Bool.and_eq_true] at ha
    simp only [locTRefresh, ha.1, ha.2, Bool.not_true, Bool.and_false, Bool.false_eq_true, if_false]
    exact h3 a ha.1
  · intro a ha
    simp only [locTRefresh] at ha ⊢
    cases hl : x.loct a
    · simp only [Bool.false_and, Bool.false_eq_true, if_false]
      exact h4 a hl
    · rw [hl] at ha
      simp only [Bool.true_and] at ha
      simp [ha]
  · intro a l hlm
    simp only [locTRefresh] at hlm
    split at hlm
    · rename_i hg
      simp only [Bool.and_eq_true] at hg
      rcases List.mem_cons.mp hlm with rfl | hlm
      · rw [h3 a hg.1]
        exact (hobj _).2
      · exact h5 a l hlm
    · exact h5 a l hlm

theorem loctPurge_DplInv (d : Nat) (x : St) (h : DplInv x) : DplInv (loctPurge d x) := by
  obtain ⟨hobj, h1, h2, h3, h4, h5⟩ := h
  refine ⟨ObjInv_same ⟨rfl, rfl⟩ hobj, ?_, ?_, ?_, ?_, ?_⟩
  · intro a ha
    by_cases had : a = d
    · subst had; simp [loctPurge] at ha
    · simp only [loctPurge, upd_ne _ _ _ _ had] at ha
      exact h1 a ha
  · intro a b ha hb
    by_cases had : a = d
    · subst had; simp [loctPurge] at ha
    · by_cases hbd : b = d
      · subst hbd; simp [loctPurge] at hb
      · simp only [loctPurge, upd_ne _ _ _ _ had] at ha
        simp only [loctPurge, upd_ne _ _ _ _ hbd] at hb
        exact h2 a b ha hb
  · intro a ha
    by_cases had : a = d
    · subst had; simp [loctPurge] at ha
    · simp only [loctPurge, upd_ne _ _ _ _ had] at ha ⊢
      exact h3 a ha
  · intro a ha
    by_cases had : a = d
    · subst had; simp [loctPurge]
    · simp only [loctPurge, upd_ne _ _ _ _ had] at ha ⊢
      exact h4 a ha
  · intro a l hlm
    simp only [loctPurge] at hlm
    split at hlm
    · rename_i hl
      by_cases had : a = d
      · subst had
        rw [upd_self] at hlm
        rcases List.mem_cons.mp hlm with rfl | hlm
        · rw [h3 a hl]; exact (hobj _).2
        · exact h5 a l hlm
      · rw [upd_ne _ _ _ _ had] at hlm
        exact h5 a l hlm
    · exact h5 a l hlm

theorem rxGetOrCreate_DplInv (o a : Nat) (x : St) (h : DplInv x) :
    let t := rxGetOrCreate o a x
    DplInv t ∧ t.loct a = true ∧ t.reg o 12 = t.eid a := by
  simp only [rxGetOrCreate]
  split
  · rename_i hl
    refine ⟨⟨ObjInv_same ⟨rfl, rfl⟩ h.1, SrcInv_same ⟨rfl, rfl, rfl, rfl, rfl, rfl⟩ h.2⟩, hl, ?_⟩
    simp [upd2]
  · rename_i hl
    have hl' : x.loct a = false := by simpa using hl
    refine ⟨⟨ObjInv_same ⟨rfl, rfl⟩ (newEntry_ObjInv a x h.1),
      SrcInv_same ⟨rfl, rfl, rfl, rfl, rfl, rfl⟩ (newEntry_SrcInv a x hl' h.2)⟩, ?_, ?_⟩
    · simp [newEntry]
    · simp [upd2, newEntry]

theorem rxPV_DplInv (o : Nat) (x : St) (h : DplInv x) : DplInv (rxPV o x) := by
  unfold rxPV; split
  · exact ⟨ObjInv_same ⟨rfl, rfl⟩ h.1, SrcInv_same ⟨rfl, rfl, rfl, rfl, rfl, rfl⟩ h.2⟩
  · exact h

theorem rxRecv_DplInv (mh : Bool) (o a k : Nat) (x : St) (h : DplInv x) : DplInv (rxRecv mh o a k x) := by
  obtain ⟨h1, hl, hr⟩ := rxGetOrCreate_DplInv o a x h
  unfold rxRecv
  apply rxPV_DplInv
  unfold rxDpl
  rw [hr]
  exact ⟨dplOn_ObjInv mh o a k _ _ h1.1, dplOn_SrcInv mh o a k _ hl h1.2⟩

/-- every block of the code as it is now (LS-order commit: `old = false`; LocTE update inside `loc_t_lock`:
`unl = false`) preserves the duplicate-detection invariant -/
theorem DplInv_blk (p n : Bool) (f : St → St) (hf : Blk p false n false f) : ∀ x, DplInv x → DplInv (f x) := by
  induction hf with
  | whenReg o slot v f _ ih => exact whenReg_preserves _ o slot v f ih
  | idB => exact fun x h => h
  | lsEnsure d =>
    intro x h
    have := ensure_DplInv d x h
    unfold lsEnsure lsFlag lsEnsure0
    exact ⟨ObjInv_same ⟨rfl, rfl⟩ this.1, SrcInv_same ⟨rfl, rfl, rfl, rfl, rfl, rfl⟩ this.2⟩
  | loctLearn d =>
    intro x h
    have := ensure_DplInv d x h
    unfold loctLearn
    exact ⟨ObjInv_same ⟨rfl, rfl⟩ this.1, SrcInv_same ⟨rfl, rfl, rfl, rfl, rfl, rfl⟩ this.2⟩
  | locTRefresh exp _ => exact locTRefresh_DplInv exp
  | loctPurge d _ => exact loctPurge_DplInv d
  | rxRecv mh o a k _ => exact rxRecv_DplInv mh o a k
  | rxGetOrCreate o a h => cases h.2
  | rxDpl mh o a k h => cases h.2
  | rxPV o h => cases h.2
  | lsRegisterOrQueue fx o d hfx =>
    have hf : fx = true := by cases fx <;> simp_all
    subst hf
    intro x h
    refine ⟨ObjInv_blk p false n false _ (.lsRegisterOrQueue true o d hfx) x h.1, SrcInv_same ?_ h.2⟩
    simp only [lsRegisterOrQueue, lsRegCore, Bool.true_and, if_true, ↓reduceIte]
    repeat' split
    all_goals exact ⟨rfl, rfl, rfl, rfl, rfl, rfl⟩
  | _ =>
    intro x h
    refine ⟨ObjInv_same ?_ h.1, SrcInv_same ?_ h.2⟩
    all_goals
      first
        | exact ⟨rfl, rfl⟩
        | exact ⟨rfl, rfl, rfl, rfl, rfl, rfl⟩
        | (simp only [cbfArrive, cbfExpire, cbfSend, cbfDiscard, gucSend, lsRetransmitCheck, lsFlushPick]
           repeat' split
           all_goals first | exact ⟨rfl, rfl⟩ | exact ⟨rfl, rfl, rfl, rfl, rfl, rfl⟩)

theorem DplInv_init : DplInv {} := by
  refine ⟨fun e => ⟨by simp [lastN], Accepts_nil _⟩, ?_, ?_, ?_, ?_, ?_⟩
  · intro a ha; cases ha
  · intro a b ha; cases ha
  · intro a ha; cases ha
  · intro a _; rfl
  · intro a l hl; cases hl

end FlexModel.Conc.Router

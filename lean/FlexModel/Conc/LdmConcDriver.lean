/-
Line-protocol driver for the LDM block model (C16 correspondence).

  explore <op> <op> / <op> … / …      threads separated by `/`; ops:
      regP:a deregP:o:a regC:a deregC:o:a:n add:o:a:v upd:o:i:v updMt:o:i:v del:o:i qry:o:a sub:o:a:sid unsub:o:a:sid
      gc:o:n attend:o:n
      `app{` … `}`   the operations in between are issued while the thread holds the APPLICATION mutex `lkApp` (the
                     mutex every notification callback takes): one segment `(true, ops)` of `sysApp`
  → all outcomes reachable under SOME schedule of the blocks, `|`-separated (sorted), or `bad-op`.
  seq <ops …>                          the same operations executed one after the other in EVERY order that respects the
                                       threads' program order (each operation atomic) → their outcomes
Same memoised macro-step search as the router driver (invisible steps: `loc`, blocks/sections with a false guard).
-/
import FlexModel.Proto
import FlexModel.Conc.LdmConc
import Std.Data.HashSet

namespace FlexModel.Conc.Ldm
open FlexModel.Proto FlexModel.Conc

def parseOp (t : String) : Option Op :=
  match t.splitOn ":" with
  | ["regP", a] => (nat? a).map Op.regP
  | ["deregP", o, a] => do some (Op.deregP (← nat? o) (← nat? a))
  | ["regC", a] => (nat? a).map Op.regC
  | ["deregC", o, a, n] => do some (Op.deregC (← nat? o) (← nat? a) (← nat? n))
  | ["add", o, a, v] => do some (Op.add (← nat? o) (← nat? a) (← nat? v))
  | ["upd", o, i, v] => do some (Op.upd (← nat? o) (← nat? i) (← nat? v))
  | ["updMt", o, i, v] => do some (Op.updMt (← nat? o) (← nat? i) (← nat? v))
  | ["del", o, i] => do some (Op.del (← nat? o) (← nat? i))
  | ["qry", o, a] => do some (Op.qry (← nat? o) (← nat? a))
  | ["sub", o, a, sid] => do some (Op.sub (← nat? o) (← nat? a) (← nat? sid))
  | ["unsub", o, a, sid] => do some (Op.unsub (← nat? o) (← nat? a) (← nat? sid))
  | ["gc", o, n] => do some (Op.gc (← nat? o) (← nat? n))
  | ["attend", o, n] => do some (Op.attend (← nat? o) (← nat? n))
  | _ => none

def splitThreads (ts : List String) : List (List String) :=
  let r := ts.foldl (fun (acc : List (List String) × List String) t =>
    if t == "/" then (acc.1 ++ [acc.2], []) else (acc.1, acc.2 ++ [t])) ([], [])
  r.1 ++ [r.2]

def parseThreads (ts : List String) : Option (List (List Op)) := (splitThreads ts).mapM (fun th => th.mapM parseOp)

/-- one thread's tokens → segments (`app{ ops }` = a segment under the application mutex; no nesting) -/
def parseSegs (ts : List String) : Option (List Seg) :=
  let rec go (ts : List String) (inApp : Bool) (cur : List Op) (acc : List Seg) (fuel : Nat) : Option (List Seg) :=
    match fuel, ts with
    | 0, _ => none
    | _, [] => if inApp then none else some (acc ++ (if cur.isEmpty then [] else [(false, cur)]))
    | f + 1, "app{" :: r => if inApp then none else go r true [] (acc ++ (if cur.isEmpty then [] else [(false, cur)])) f
    | f + 1, "}" :: r => if inApp then go r false [] (acc ++ [(true, cur)]) f else none
    | f + 1, t :: r => match parseOp t with
      | some op => go r inApp (cur ++ [op]) acc f
      | none => none
  go ts false [] [] (ts.length + 1)

def parseAppThreads (ts : List String) : Option (List (List Seg)) := (splitThreads ts).mapM parseSegs

def segTI (g : Seg) : List TI :=
  if g.1 then [TI.acq lkApp] ++ ((g.2.map compileT).flatten ++ [TI.rel lkApp]) else (g.2.map compileT).flatten

def opIds : Op → List Nat
  | .deregP o _ => [o] | .deregC o _ _ => [o] | .add o _ _ => [o] | .upd o _ _ => [o] | .updMt o _ _ => [o] | .del o _ => [o]
  | .qry o _ => [o] | .sub o _ _ => [o] | .unsub o _ _ => [o] | .gc o _ => [o] | .attend o _ => [o] | _ => []
def opQry : Op → List Nat
  | .qry o _ => [o] | _ => []
def opAids : Op → List Nat
  | .regP a => [a] | .deregP _ a => [a] | .regC a => [a] | .deregC _ a _ => [a] | .add _ a _ => [a] | .qry _ a => [a]
  | .sub _ a _ => [a] | .unsub _ a _ => [a] | _ => []

def natsStr (xs : List Nat) : String := ",".intercalate (xs.map toString)
def rowsStr (xs : List (Nat × Nat)) : String := ",".intercalate (xs.map (fun p => s!"{p.1}.{p.2 / 2}"))
def rowsRaw (xs : List (Nat × Nat)) : String := ",".intercalate (xs.map (fun p => s!"{p.1}.{p.2}"))
def valsStr (xs : List (Nat × Nat)) : String := ",".intercalate (xs.map (fun p => toString (p.2 / 2)))
def sortNat (xs : List Nat) : List Nat := (xs.toArray.qsort (· < ·)).toList
def dedup (xs : List Nat) : List Nat := xs.foldl (fun acc x => if acc.contains x then acc else acc ++ [x]) []

/-- observable outcome: responses per operation, query results (values in store order), callbacks in order, final
store, registries, subscriptions, exceptions -/
def obs (ids qs aids : List Nat) (s : LSt) : String :=
  let r := ";".intercalate (ids.map (fun o => s!"{o}:{natsStr (s.resp o)}"))
  let q := ";".intercalate (qs.map (fun o => s!"{o}:{if s.reg o 1 = 1 then valsStr (s.rows o) else "-"}"))
  let k := ";".intercalate (s.calls.reverse.map (fun c => s!"{c.1}:{valsStr c.2}"))
  s!"R={r}_Q={q}_K={k}_D={rowsStr s.db}_P={natsStr (aids.filter s.prov)}_C={natsStr (aids.filter s.cons)}_S={natsStr s.subs}_E={(ids.filter (fun o => s.err o != 0)).length}"

def fullKey (ids qs aids : List Nat) (s : LSt) : String :=
  let regs := ";".intercalate (ids.map (fun o => natsStr ((List.range 10).map (s.reg o)) ++ "/" ++ rowsRaw (s.rows o) ++ "/" ++
    natsStr (s.regS o) ++ "/" ++ natsStr (s.regT o)))
  s!"{obs ids qs aids s}#{s.nextId}#{rowsRaw s.db}#{regs}"

structure XS where
  sys : Sys LSt
  tp : List (List TI)

def guardFalse (s : LSt) : TI → Bool
  | .gblk o slot v _ => s.reg o slot != v
  | _ => false

def dropN (x : XS) (t n : Nat) : XS :=
  match x.sys.thr[t]? with
  | none => x
  | some th =>
    { sys := { x.sys with thr := x.sys.thr.set t { th with prog := th.prog.drop n } },
      tp := x.tp.set t ((x.tp[t]?.getD []).drop n) }

def step1 (x : XS) (t : Nat) : Option XS :=
  (step x.sys t).map (fun s' => { sys := s', tp := x.tp.set t ((x.tp[t]?.getD []).drop 1) })

partial def macroStep (x : XS) (t : ThreadId) : Option XS :=
  let rec go (x : XS) (vis : Bool) (moved : Bool) : Option XS :=
    match x.tp[t]?.getD [] with
    | [] => if moved then some x else none
    | .acq _ :: i :: .rel _ :: _ =>
      if guardFalse x.sys.sh i then go (dropN x t 3) vis true
      else if vis then some x
      else match step1 x t with
        | some x' => go x' vis true
        | none => none
    | .acq _ :: _ =>
      if vis then some x
      else match step1 x t with
        | some x' => go x' vis true
        | none => none
    | .rel _ :: _ => match step1 x t with
        | some x' => go x' vis true
        | none => some x
    | .loc _ :: _ => match step1 x t with
        | some x' => go x' vis true
        | none => some x
    | i :: _ =>
      if guardFalse x.sys.sh i then go (dropN x t 1) vis true
      else if vis then some x
      else match step1 x t with
        | some x' => go x' true true
        | none => none
  go x false false

def sysKey (ids qs aids : List Nat) (s : Sys LSt) : String :=
  fullKey ids qs aids s.sh ++ "@" ++ natsStr (s.thr.map (·.prog.length)) ++ "@" ++
    ";".intercalate (s.thr.map (fun th => natsStr th.held))

partial def explore (ids qs aids : List Nat) (x : XS)
    (seen : Std.HashSet String) (outs : Std.HashSet String) : Std.HashSet String × Std.HashSet String :=
  let k := sysKey ids qs aids x.sys
  if seen.contains k then (seen, outs) else
  let seen := seen.insert k
  if finished x.sys then (seen, outs.insert (obs ids qs aids x.sys.sh)) else
  let n := x.sys.thr.length
  let succs := (List.range n).filterMap (macroStep x)
  if succs.isEmpty then (seen, outs.insert "DEADLOCK") else
  succs.foldl (fun (acc : Std.HashSet String × Std.HashSet String) x' => explore ids qs aids x' acc.1 acc.2) (seen, outs)

/-- all merges of the threads' operation lists (program order kept) -/
partial def merges : List (List Op) → List (List Op)
  | ths =>
    if ths.all (·.isEmpty) then [[]] else
    (List.range ths.length).flatMap (fun i =>
      match ths[i]? with
      | some (op :: rest) => (merges (ths.set i rest)).map (fun m => op :: m)
      | _ => [])

/-- `setup-ops // threads`: the set-up operations run first, one after the other, on the empty LDM -/
def splitSetup (ts : List String) : List String × List String :=
  match ts.span (· != "//") with
  | (a, _ :: b) => (a, b)
  | (a, []) => ([], a)

def withScenario (ts : List String) (f : LSt → List (List Seg) → List Nat → List Nat → List Nat → List String) : String :=
  let (su, rest) := splitSetup ts
  match su.mapM parseOp, parseAppThreads rest with
  | some setup, some threads =>
    let s0 := (run (sys [setup]) (List.replicate (threadProg setup).length 0)).sh
    let ops := setup ++ (threads.flatten.map (·.2)).flatten
    let ids := sortNat (dedup (ops.flatMap opIds))
    let qs := sortNat (dedup (ops.flatMap opQry))
    let aids := sortNat (dedup (ops.flatMap opAids))
    let l := ((f s0 threads ids qs aids).toArray.qsort (· < ·)).toList
    "|".intercalate (l.foldl (fun acc x => if acc.getLast? == some x then acc else acc ++ [x]) [])
  | _, _ => "bad-op"

def exploreLine (ts : List String) : String :=
  withScenario ts (fun s0 threads ids qs aids =>
    let x0 : XS := { sys := { sysApp threads with sh := s0 }, tp := threads.map (fun segs => (segs.map segTI).flatten) }
    (explore ids qs aids x0 {} {}).2.toList)

/-- sequential outcomes: every merge run as ONE thread (operations atomic, in that order) -/
def seqLine (ts : List String) : String :=
  withScenario ts (fun s0 threads ids qs aids =>
    (merges (threads.map (fun segs => (segs.map (·.2)).flatten))).map (fun m =>
      let s := { sys [m] with sh := s0 }
      obs ids qs aids (run s (List.replicate (threadProg m).length 0)).sh))

def ldmStep (_ : Unit) (t : List String) : Unit × String :=
  match t with
  | "explore" :: rest => ((), exploreLine rest)
  | "seq" :: rest => ((), seqLine rest)
  | _ => ((), "bad-op")

def ldmConcDomain : Domain := { σ := Unit, init := (), step := ldmStep }

end FlexModel.Conc.Ldm

/-
C16 — read/write frames over the LDM state `LSt` (a record, not a function `V → α`), and the lock-map check that
yields the commutation discipline of `Conc/Reduction` for LDM programs.

`Reduction/Frame.lean` states the syntactic sufficient condition for states of the form `V → α`.  `LSt` is a structure
whose fields have different types, so the same development is repeated here for a state seen through a family of
VARIABLES `LV` with a per-variable agreement relation `agree v s t` ("`s` and `t` hold the same value in `v`") and
extensionality (`ext_agree`).  One extension: a variable may be `free` (protected by nothing) provided no NON-FINAL
micro-block of a lock section touches it – the reduction theorem constrains only those (`Reduction.Disc`).  The only
free variable of the LDM model is the ghost log `calls` of subscription callbacks, appended outside every lock.
Imports core Lean + `Conc/Reduction`.
-/
import FlexModel.Conc.LdmConc
import FlexModel.Conc.Reduction

namespace FlexModel.Conc.Ldm
open FlexModel.Conc FlexModel.Conc.Reduction

/-- the variables of the LDM state: the shared attributes (one per attribute of `Generated.Locks.At` that the model
represents, plus their ghost counters) and the per-operation registers -/
inductive LV where
  | db | nextId | insLog | inserted | removed | revived | overwritten         -- DictionaryDataBase.database / _next_id
  | prov | cons | subs | lastChk | subAdded | subRemoved                       -- LDMService registries / subscriptions
  | calls                                                                       -- ghost: callbacks in execution order
  | resp (o : Nat) | rows (o : Nat) | reg (o k : Nat) | regS (o : Nat) | regT (o : Nat) | err (o : Nat)
  deriving DecidableEq, Repr

def agree : LV → LSt → LSt → Prop
  | .db, s, t => s.db = t.db
  | .nextId, s, t => s.nextId = t.nextId
  | .insLog, s, t => s.insLog = t.insLog
  | .inserted, s, t => s.inserted = t.inserted
  | .removed, s, t => s.removed = t.removed
  | .revived, s, t => s.revived = t.revived
  | .overwritten, s, t => s.overwritten = t.overwritten
  | .prov, s, t => s.prov = t.prov
  | .cons, s, t => s.cons = t.cons
  | .subs, s, t => s.subs = t.subs
  | .lastChk, s, t => s.lastChk = t.lastChk
  | .subAdded, s, t => s.subAdded = t.subAdded
  | .subRemoved, s, t => s.subRemoved = t.subRemoved
  | .calls, s, t => s.calls = t.calls
  | .resp o, s, t => s.resp o = t.resp o
  | .rows o, s, t => s.rows o = t.rows o
  | .reg o k, s, t => s.reg o k = t.reg o k
  | .regS o, s, t => s.regS o = t.regS o
  | .regT o, s, t => s.regT o = t.regT o
  | .err o, s, t => s.err o = t.err o

theorem agree_refl (v : LV) (s : LSt) : agree v s s := by cases v <;> rfl
theorem agree_symm {v : LV} {s t : LSt} (h : agree v s t) : agree v t s := by
  cases v <;> exact Eq.symm h
theorem agree_trans {v : LV} {s t u : LSt} (h1 : agree v s t) (h2 : agree v t u) : agree v s u := by
  cases v <;> exact Eq.trans h1 h2

/-- two states that agree on every variable are equal -/
theorem ext_agree (s t : LSt) (h : ∀ v, agree v s t) : s = t := by
  cases s; cases t
  simp only [LSt.mk.injEq]
  refine ⟨h .db, h .nextId, h .prov, h .cons, h .subs, h .lastChk, h .insLog, h .inserted, h .removed, h .revived,
    h .overwritten, h .subAdded, h .subRemoved, ?_, ?_, h .calls, ?_, ?_, ?_, ?_⟩
  · funext o; exact h (.resp o)
  · funext o; exact h (.rows o)
  · funext o k; exact h (.reg o k)
  · funext o; exact h (.regS o)
  · funext o; exact h (.regT o)
  · funext o; exact h (.err o)

/-- a micro-block with declared read and write sets -/
structure FMB where
  rd : List LV
  wr : List LV
  f : LSt → LSt

/-- it changes only its writes, and what it writes depends only on its reads -/
def FMB.Framed (m : FMB) : Prop :=
  (∀ s v, v ∉ m.wr → agree v (m.f s) s) ∧
  (∀ s s', (∀ v ∈ m.rd, agree v s s') → ∀ v ∈ m.wr, agree v (m.f s) (m.f s'))

/-- framed blocks without a write/read or write/write conflict commute -/
theorem fmb_commute (m n : FMB) (hm : m.Framed) (hn : n.Framed)
    (h1 : ∀ v ∈ m.wr, v ∉ n.rd ∧ v ∉ n.wr) (h2 : ∀ v ∈ n.wr, v ∉ m.rd ∧ v ∉ m.wr) : Commute m.f n.f := by
  intro s
  apply ext_agree
  intro v
  have hmr : ∀ w ∈ m.rd, agree w (n.f s) s := fun w hw => hn.1 s w (fun hc => (h2 w hc).1 hw)
  have hnr : ∀ w ∈ n.rd, agree w (m.f s) s := fun w hw => hm.1 s w (fun hc => (h1 w hc).1 hw)
  by_cases hv : v ∈ m.wr
  · exact agree_trans (hm.2 (n.f s) s hmr v hv) (agree_symm (hn.1 (m.f s) v (h1 v hv).2))
  · refine agree_trans (hm.1 (n.f s) v hv) ?_
    by_cases hv' : v ∈ n.wr
    · exact agree_symm (hn.2 (m.f s) s hnr v hv')
    · exact agree_trans (hn.1 s v hv') (agree_symm (agree_trans (hn.1 (m.f s) v hv') (hm.1 s v hv)))

/-- who may touch a variable -/
inductive LGuard where
  | lock (l : Lock)      -- only while `l` is held
  | loc (t : ThreadId)   -- only thread `t` (operation registers)
  | free                 -- anybody, but never from a non-final micro-block of a lock section

/-- micro-block `m` of thread `t`, executed while the locks `H` are held, `flag` = non-final micro-block of a run -/
def LAllowed (prot : LV → LGuard) (t : ThreadId) (H : List Lock) (flag : Bool) (m : FMB) : Prop :=
  ∀ v, (v ∈ m.rd ∨ v ∈ m.wr) →
    match prot v with
    | .lock l => l ∈ H
    | .loc u => u = t
    | .free => flag = false

theorem l_no_conflict (prot : LV → LGuard) (t u : ThreadId) (htu : t ≠ u) (Ha Hb : List Lock) (fa fb : Bool)
    (hfl : fa = true ∨ fb = true) (hdis : ∀ l ∈ Ha, l ∉ Hb) (m n : FMB)
    (hm : LAllowed prot t Ha fa m) (hn : LAllowed prot u Hb fb n) (v : LV) (hv : v ∈ m.rd ∨ v ∈ m.wr) :
    v ∉ n.rd ∧ v ∉ n.wr := by
  have key : ¬ (v ∈ n.rd ∨ v ∈ n.wr) := by
    intro hacc
    have h1 := hm v hv
    have h2 := hn v hacc
    cases hp : prot v with
    | lock l => rw [hp] at h1 h2; exact hdis l h1 h2
    | loc w => rw [hp] at h1 h2; exact htu (h1.symm.trans h2)
    | free =>
      rw [hp] at h1 h2
      rcases hfl with h | h
      · rw [h1] at h; cases h
      · rw [h2] at h; cases h
  exact ⟨fun h => key (Or.inl h), fun h => key (Or.inr h)⟩

/-- **Protection.** Every annotated block of every thread is (the function of) a framed micro-block whose accesses
respect the protection map at the locks held there. -/
def LProtected (prot : LV → LGuard) (progs : List (List (Instr LSt))) : Prop :=
  ∀ t b, blocksAt progs t b → ∃ m : FMB, m.f = b.2.2 ∧ m.Framed ∧ LAllowed prot t b.1 b.2.1 m

/-- **protected + framed ⇒ the commutation discipline of the reduction theorem** -/
theorem discipline_of_lprotected (prot : LV → LGuard) (progs : List (List (Instr LSt))) (h : LProtected prot progs) :
    Discipline progs := by
  intro t u htu a b ha hb hflag hdis
  obtain ⟨m, hmf, hmF, hmA⟩ := h t a ha
  obtain ⟨n, hnf, hnF, hnA⟩ := h u b hb
  rw [← hmf, ← hnf]
  apply fmb_commute m n hmF hnF
  · exact fun v hv => l_no_conflict prot t u htu a.1 b.1 a.2.1 b.2.1 (Or.inl hflag) hdis m n hmA hnA v (Or.inr hv)
  · intro v hv
    have := l_no_conflict prot u t (fun e => htu e.symm) b.1 a.1 b.2.1 a.2.1 (Or.inr hflag)
      (fun l hl hl' => hdis l hl' hl) n m hnA hmA v (Or.inr hv)
    exact this

/-! ## programs that carry their read/write sets, and a Boolean check -/

inductive FI where
  | acq (l : Lock)
  | rel (l : Lock)
  | blk (m : FMB)

def FI.erase : FI → Instr LSt
  | .acq l => .acq l
  | .rel l => .rel l
  | .blk m => .blk m.f

def eraseF (p : List FI) : List (Instr LSt) := p.map FI.erase

theorem eraseF_append (p q : List FI) : eraseF (p ++ q) = eraseF p ++ eraseF q := by simp [eraseF]
theorem eraseF_flatten (ps : List (List FI)) : eraseF ps.flatten = (ps.map eraseF).flatten := by
  unfold eraseF
  rw [List.map_flatten]

def startsBlkF : List FI → Bool
  | .blk _ :: _ => true
  | _ => false

theorem startsBlk_eraseF (p : List FI) : startsBlk (eraseF p) = startsBlkF p := by
  cases p with
  | nil => rfl
  | cons i p => cases i <;> rfl

def lallowedB (prot : LV → LGuard) (t : ThreadId) (H : List Lock) (flag : Bool) (m : FMB) : Bool :=
  (m.rd ++ m.wr).all (fun v =>
    match prot v with
    | .lock l => H.contains l
    | .loc u => u == t
    | .free => !flag)

theorem lallowed_of_B (prot : LV → LGuard) (t : ThreadId) (H : List Lock) (flag : Bool) (m : FMB)
    (h : lallowedB prot t H flag m = true) : LAllowed prot t H flag m := by
  intro v hv
  unfold lallowedB at h
  rw [List.all_eq_true] at h
  have := h v (by simpa using hv)
  cases hp : prot v with
  | lock l => rw [hp] at this; simpa using this
  | loc u => rw [hp] at this; simpa using this
  | free => rw [hp] at this; simpa using this

/-- the lock-map check of one thread's program: walk the program, track the held locks, check every block -/
def lcheck (prot : LV → LGuard) (t : ThreadId) : List Lock → List FI → Bool
  | _, [] => true
  | H, .acq l :: p => lcheck prot t (l :: H) p
  | H, .rel l :: p => lcheck prot t (H.erase l) p
  | H, .blk m :: p => lallowedB prot t H (!H.isEmpty && startsBlkF p) m && lcheck prot t H p

def AllFramedF (p : List FI) : Prop := ∀ m, FI.blk m ∈ p → m.Framed

theorem lcheck_annot (prot : LV → LGuard) (t : ThreadId) (H : List Lock) (p : List FI)
    (hc : lcheck prot t H p = true) (hf : AllFramedF p) :
    ∀ b ∈ annot H (eraseF p), ∃ m : FMB, m.f = b.2.2 ∧ m.Framed ∧ LAllowed prot t b.1 b.2.1 m := by
  induction p generalizing H with
  | nil => intro b hb; simp [eraseF] at hb
  | cons i p ih =>
    have hf' : AllFramedF p := fun m hm => hf m (List.mem_cons_of_mem _ hm)
    cases i with
    | acq l => exact ih (l :: H) hc hf'
    | rel l => exact ih (H.erase l) hc hf'
    | blk m =>
      simp only [lcheck, Bool.and_eq_true] at hc
      intro b hb
      have he : eraseF (FI.blk m :: p) = .blk m.f :: eraseF p := rfl
      rw [he, annot_blk, List.mem_cons] at hb
      rcases hb with rfl | hb
      · refine ⟨m, rfl, hf m (by simp), ?_⟩
        simp only
        rw [startsBlk_eraseF]
        exact lallowed_of_B prot t H _ m hc.1
      · exact ih H hc.2 hf' b hb

/-- **Checkable form.** If every thread's annotated program passes `lcheck` and all its blocks are framed, the erased
programs are protected, hence satisfy the `Discipline` of the reduction theorem. -/
theorem lprotected_of_check (prot : LV → LGuard) (aprogs : List (List FI))
    (hc : ∀ t p, aprogs[t]? = some p → lcheck prot t [] p = true)
    (hf : ∀ p ∈ aprogs, AllFramedF p) : LProtected prot (aprogs.map eraseF) := by
  intro t b ⟨p, hp, hb⟩
  simp only [List.getElem?_map, Option.map_eq_some_iff] at hp
  obtain ⟨ap, hap, rfl⟩ := hp
  exact lcheck_annot prot t [] ap (hc t ap hap) (hf ap (List.mem_of_getElem? hap)) b hb

/-- locks held after a program (static: programs are straight-line) -/
def endH : List Lock → List FI → List Lock
  | H, [] => H
  | H, .acq l :: p => endH (l :: H) p
  | H, .rel l :: p => endH (H.erase l) p
  | H, .blk _ :: p => endH H p

/-- `lcheck` of a concatenation whose first piece ends with no lock held: piece by piece (the flag "non-final
micro-block" of the first piece's blocks does not depend on what follows, because no lock is held at its end) -/
theorem lcheck_append (prot : LV → LGuard) (t : ThreadId) (H : List Lock) (p q : List FI) (he : endH H p = []) :
    lcheck prot t H (p ++ q) = (lcheck prot t H p && lcheck prot t [] q) := by
  induction p generalizing H with
  | nil => simp only [endH] at he; subst he; simp [lcheck]
  | cons i p ih =>
    cases i with
    | acq l => exact ih (l :: H) he
    | rel l => exact ih (H.erase l) he
    | blk m =>
      have he' : endH H p = [] := he
      have hs : (!H.isEmpty && startsBlkF (p ++ q)) = (!H.isEmpty && startsBlkF p) := by
        cases p with
        | nil => simp only [endH] at he'; subst he'; rfl
        | cons j p => cases j <;> rfl
      simp only [List.cons_append, lcheck, hs, ih H he', Bool.and_assoc]

theorem lcheck_flatten (prot : LV → LGuard) (t : ThreadId) (ps : List (List FI))
    (h : ∀ p ∈ ps, endH [] p = [] ∧ lcheck prot t [] p = true) : lcheck prot t [] ps.flatten = true := by
  induction ps with
  | nil => rfl
  | cons p r ih =>
    simp only [List.flatten_cons]
    rw [lcheck_append prot t [] p _ (h p (by simp)).1, (h p (by simp)).2,
      ih (fun q hq => h q (List.mem_cons_of_mem _ hq))]
    rfl

theorem endH_append (H : List Lock) (p q : List FI) : endH H (p ++ q) = endH (endH H p) q := by
  induction p generalizing H with
  | nil => rfl
  | cons i p ih => cases i <;> exact ih _

theorem endH_flatten (ps : List (List FI)) (h : ∀ p ∈ ps, endH [] p = []) : endH [] ps.flatten = [] := by
  induction ps with
  | nil => rfl
  | cons p r ih =>
    simp only [List.flatten_cons]
    rw [endH_append, h p (by simp), ih (fun q hq => h q (List.mem_cons_of_mem _ hq))]

theorem allFramedF_append (p q : List FI) (hp : AllFramedF p) (hq : AllFramedF q) : AllFramedF (p ++ q) := by
  intro m hm
  rcases List.mem_append.mp hm with h | h
  · exact hp m h
  · exact hq m h

theorem allFramedF_flatten (ps : List (List FI)) (h : ∀ p ∈ ps, AllFramedF p) : AllFramedF ps.flatten := by
  intro m hm
  obtain ⟨p, hp, hmp⟩ := List.mem_flatten.mp hm
  exact h p hp m hmp

end FlexModel.Conc.Ldm

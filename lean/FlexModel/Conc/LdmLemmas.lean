/-
Helper lemmas for Props/C16: the closed set of block forms of the LDM programs (`Blk`), the invariant rule for LDM
systems, lock discipline, and the invariants (id allocation, store conservation, subscription conservation).
-/
import FlexModel.Conc.LdmConc

namespace FlexModel.Conc.Ldm
open FlexModel.Conc

/-- block functions of compiled LDM programs; `plain = true` admits the unguarded `dbUpdate` of the plain/reactive
maintenance variant -/
inductive Blk (plain : Bool) : (LSt → LSt) → Prop
  | dbInsert (o v) : Blk plain (dbInsert o v)
  | dbExists (o i) : Blk plain (dbExists o i)
  | dbGet (o i slot) : Blk plain (dbGet o i slot)
  | dbUpdate (o i v) (h : plain = true) : Blk plain (dbUpdate o i v)
  | dbUpdateIfPresent (o i v) : Blk plain (dbUpdateIfPresent o i v)
  | dbRemoveId (o i) : Blk plain (dbRemoveId o i)
  | gcRemove (o) : Blk plain (gcRemove o)
  | dbAll (o) : Blk plain (dbAll o)
  | provAdd (a) : Blk plain (provAdd a)
  | provDel (a) : Blk plain (provDel a)
  | provHas (o a) : Blk plain (provHas o a)
  | consAdd (a) : Blk plain (consAdd a)
  | consDel (a) : Blk plain (consDel a)
  | consDelCollect (o a) : Blk plain (consDelCollect o a)
  | consHas (o a) : Blk plain (consHas o a)
  | consHasReg (o) : Blk plain (fun s => consHas o (s.reg o 5 / 100) s)
  | subAdd (sid) : Blk plain (subAdd sid)
  | subsCopy (o) : Blk plain (subsCopy o)
  | subRemove (o sid) : Blk plain (subRemove o sid)
  | subRemoveReg (o) : Blk plain (fun s => subRemove o (s.reg o 5) s)
  | lastChkReg (o) : Blk plain (fun s => lastChkSection (s.reg o 5) s)
  | subStored (o) : Blk plain (subStored o)
  | setResp (o g) : Blk plain (setResp o g)
  | gcPick (o) : Blk plain (gcPick o)
  | subPick (o) : Blk plain (subPick o)
  | removePick (o) : Blk plain (removePick o)
  | markRemove (o) : Blk plain (markRemove o)
  | callback (o) : Blk plain (callback o)
  | unsubFind (o sid) : Blk plain (unsubFind o sid)
  | whenReg (o slot v f) : Blk plain f → Blk plain (whenReg o slot v f)

def Op.isPlainUpd : Op → Bool
  | .upd _ _ _ => true
  | _ => false

theorem mem_blocksOf_replicate (k : Nat) (p : List (Instr LSt)) (f : LSt → LSt)
    (h : f ∈ blocksOf (List.replicate k p).flatten) : f ∈ blocksOf p := by
  obtain ⟨q, hq, hf⟩ := mem_blocksOf_flatten _ f h
  rw [List.mem_replicate] at hq
  rw [← hq.2]; exact hf

theorem compile_blocks (p : Bool) (op : Op) (hp : op.isPlainUpd = true → p = true) (f : LSt → LSt)
    (h : f ∈ blocksOf (compile op)) : Blk p f := by
  cases op with
  | regP a => simp [compile, compileT, tsect, TI.erase, blocksOf] at h; subst h; exact .provAdd _
  | regC a => simp [compile, compileT, tsect, TI.erase, blocksOf] at h; subst h; exact .consAdd _
  | deregP o a =>
    simp [compile, compileT, tsect, TI.erase, blocksOf] at h
    rcases h with rfl | rfl | rfl
    · exact .provHas _ _
    · exact .whenReg _ _ _ _ (.provDel _)
    · exact .setResp _ _
  | deregC o a n =>
    simp only [compile, compileT, List.map_append, blocksOf_append, List.mem_append] at h
    rcases h with ((h | h) | h) | h
    · simp [tsect, TI.erase, blocksOf] at h; subst h; exact .consHas _ _
    · simp [tsect, TI.erase, blocksOf] at h; subst h
      split
      · exact .whenReg _ _ _ _ (.consDel _)
      · exact .whenReg _ _ _ _ (.consDelCollect _ _)
    · rw [List.map_flatten, List.map_replicate] at h
      have := mem_blocksOf_replicate n _ f h
      simp [tsect, TI.erase, blocksOf] at this
      rcases this with rfl | rfl
      · exact .subPick _
      · exact .whenReg _ _ _ _ (.subRemoveReg _)
    · simp [TI.erase, blocksOf] at h; subst h; exact .setResp _ _
  | add o a v =>
    simp [compile, compileT, tsect, TI.erase, blocksOf] at h
    rcases h with rfl | rfl
    · exact .provHas _ _
    · exact .whenReg _ _ _ _ (.dbInsert _ _)
  | upd o i v =>
    simp [compile, compileT, tsect, TI.erase, blocksOf] at h
    rcases h with rfl | rfl | rfl | rfl | rfl
    · exact .dbExists _ _
    · exact .whenReg _ _ _ _ (.dbGet _ _ _)
    · exact .whenReg _ _ _ _ (.dbGet _ _ _)
    · exact .whenReg _ _ _ _ (.dbUpdate _ _ _ (hp rfl))
    · exact .setResp _ _
  | updMt o i v =>
    simp [compile, compileT, tsect, TI.erase, blocksOf] at h
    rcases h with rfl | rfl | rfl | rfl
    · exact .dbExists _ _
    · exact .whenReg _ _ _ _ (.dbGet _ _ _)
    · exact .whenReg _ _ _ _ (.dbUpdateIfPresent _ _ _)
    · exact .setResp _ _
  | del o i =>
    simp [compile, compileT, tsect, TI.erase, blocksOf] at h
    rcases h with rfl | rfl | rfl
    · exact .dbExists _ _
    · exact .whenReg _ _ _ _ (.dbRemoveId _ _)
    · exact .setResp _ _
  | qry o a =>
    simp [compile, compileT, tsect, TI.erase, blocksOf] at h
    rcases h with rfl | rfl | rfl
    · exact .consHas _ _
    · exact .whenReg _ _ _ _ (.dbAll _)
    · exact .setResp _ _
  | sub o a sid =>
    simp [compile, compileT, tsect, TI.erase, blocksOf] at h
    rcases h with rfl | rfl | rfl
    · exact .consHas _ _
    · exact .whenReg _ _ _ _ (.subAdd _)
    · exact .setResp _ _
  | unsub o a sid =>
    simp [compile, compileT, tsect, TI.erase, blocksOf] at h
    rcases h with rfl | rfl | rfl | rfl | rfl
    · exact .consHas _ _
    · exact .whenReg _ _ _ _ (.subsCopy _)
    · exact .whenReg _ _ _ _ (.unsubFind _ _)
    · exact .whenReg _ _ _ _ (.subRemove _ _)
    · exact .setResp _ _
  | gc o n =>
    simp only [compile, compileT, List.map_append, blocksOf_append, List.mem_append] at h
    rcases h with (((h | h) | h) | h) | h
    · simp [tsect, TI.erase, blocksOf] at h; subst h; exact .dbAll _
    · simp [tsect, TI.erase, blocksOf] at h; subst h; exact .dbAll _
    · rw [List.map_flatten, List.map_replicate] at h
      have := mem_blocksOf_replicate n _ f h
      simp [gcIter, tsect, TI.erase, blocksOf] at this
      rcases this with rfl | rfl
      · exact .gcPick _
      · exact .whenReg _ _ _ _ (.gcRemove _)
    · simp [tsect, TI.erase, blocksOf] at h; subst h; exact .dbAll _
    · simp [tsect, TI.erase, blocksOf] at h; subst h; exact .dbAll _
  | attend o n =>
    simp only [compile, compileT, List.map_append, blocksOf_append, List.mem_append] at h
    rcases h with (h | h) | h
    · simp [tsect, TI.erase, blocksOf] at h; subst h; exact .subsCopy _
    · rw [List.map_flatten, List.map_replicate] at h
      have := mem_blocksOf_replicate n _ f h
      simp [attendIter, tsect, TI.erase, blocksOf] at this
      rcases this with rfl | rfl | rfl | rfl | rfl | rfl | rfl
      · exact .subPick _
      · exact .whenReg _ _ _ _ (.consHasReg _)
      · exact .whenReg _ _ _ _ (.whenReg _ _ _ _ (.markRemove _))
      · exact .whenReg _ _ _ _ (.whenReg _ _ _ _ (.dbAll _))
      · exact .whenReg _ _ _ _ (.whenReg _ _ _ _ (.whenReg _ _ _ _ (.subStored _)))
      · exact .whenReg _ _ _ _ (.whenReg _ _ _ _ (.whenReg _ _ _ _ (.whenReg _ _ _ _ (.lastChkReg _))))
      · exact .whenReg _ _ _ _ (.whenReg _ _ _ _ (.whenReg _ _ _ _ (.whenReg _ _ _ _ (.callback _))))
    · rw [List.map_flatten, List.map_replicate] at h
      have := mem_blocksOf_replicate n _ f h
      simp [attendRemove, tsect, TI.erase, blocksOf] at this
      rcases this with rfl | rfl
      · exact .removePick _
      · exact .whenReg _ _ _ _ (.subRemoveReg _)

theorem ldm_inv (p : Bool) (P : LSt → Prop) (threads : List (List Op))
    (hp : ∀ ops ∈ threads, ∀ op ∈ ops, op.isPlainUpd = true → p = true)
    (h0 : P {}) (hB : ∀ f, Blk p f → ∀ x, P x → P (f x)) (sched : List ThreadId) :
    P (run (sys threads) sched).sh := by
  apply inv_of_blocks P (sys threads) h0
  intro th hth f hf
  simp only [sys, mkSys, List.mem_map] at hth
  obtain ⟨prog, ⟨ops, hops, rfl⟩, rfl⟩ := hth
  simp only [threadProg] at hf
  obtain ⟨q', hq', hfq⟩ := mem_blocksOf_flatten _ f hf
  rw [List.mem_map] at hq'
  obtain ⟨op, hop, rfl⟩ := hq'
  exact hB f (compile_blocks p op (hp ops hops op hop) f hfq)

theorem whenReg_preserves (P : LSt → Prop) (o slot v : Nat) (f : LSt → LSt) (h : ∀ x, P x → P (f x)) :
    ∀ x, P x → P (whenReg o slot v f x) := by
  intro x hx
  unfold whenReg
  split
  · exact h x hx
  · exact hx

theorem upd2_slot_ne (f : Nat → Nat → Nat) (o k v i j : Nat) (h : j ≠ k) : upd2 f o k v i j = f i j := by
  simp [upd2, h]

/-! list facts -/
theorem setRow_length (db : List (Nat × Nat)) (i v : Nat) :
    (setRow db i v).length = if hasKey db i then db.length else db.length + 1 := by
  induction db with
  | nil => simp [setRow, hasKey]
  | cons p r ih =>
    simp only [setRow, hasKey, List.any_cons] at *
    by_cases h : p.1 == i
    · simp [h]
    · have hf : (p.1 == i) = false := by simpa using h
      simp only [hf, Bool.false_or, Bool.false_eq_true, if_false, List.length_cons, ih]
      split <;> simp_all

theorem mem_setRow (db : List (Nat × Nat)) (i v : Nat) (q : Nat × Nat) (h : q ∈ setRow db i v) :
    q ∈ db ∨ q = (i, v) := by
  induction db with
  | nil => simp [setRow] at h; exact Or.inr h
  | cons p r ih =>
    simp only [setRow] at h
    by_cases hp : p.1 == i
    · simp [hp] at h
      rcases h with h | h
      · exact Or.inr h
      · exact Or.inl (List.mem_cons_of_mem _ h)
    · simp [hp] at h
      rcases h with h | h
      · exact Or.inl (by simp [h])
      · rcases ih h with h | h
        · exact Or.inl (List.mem_cons_of_mem _ h)
        · exact Or.inr h

theorem hasKey_mem (db : List (Nat × Nat)) (i : Nat) (h : hasKey db i = true) : ∃ q ∈ db, q.1 = i := by
  simp only [hasKey, List.any_eq_true] at h
  obtain ⟨q, hq, he⟩ := h
  exact ⟨q, hq, by simpa using he⟩

theorem removeVal_length (db : List (Nat × Nat)) (v : Nat) (h : db.any (fun p => p.2 == v) = true) :
    (removeVal db v).length + 1 = db.length := by
  induction db with
  | nil => simp at h
  | cons p r ih =>
    simp only [removeVal]
    by_cases hp : p.2 == v
    · simp [hp]
    · simp only [List.any_cons, hp, Bool.false_or] at h
      simp [hp, ih h]

theorem mem_removeVal (db : List (Nat × Nat)) (v : Nat) (q : Nat × Nat) (h : q ∈ removeVal db v) : q ∈ db := by
  induction db with
  | nil => simp [removeVal] at h
  | cons p r ih =>
    simp only [removeVal] at h
    by_cases hp : p.2 == v
    · simp [hp] at h; exact List.mem_cons_of_mem _ h
    · simp [hp] at h
      rcases h with h | h
      · simp [h]
      · exact List.mem_cons_of_mem _ (ih h)

theorem eraseKey_length (db : List (Nat × Nat)) (k : Nat) (h : hasKey db k = true) :
    (eraseKey db k).length + 1 = db.length := by
  induction db with
  | nil => simp [hasKey] at h
  | cons p r ih =>
    simp only [eraseKey]
    by_cases hp : p.1 == k
    · simp [hp]
    · simp only [hasKey, List.any_cons, hp, Bool.false_or] at h
      simp [hp, ih h]

theorem mem_eraseKey (db : List (Nat × Nat)) (k : Nat) (q : Nat × Nat) (h : q ∈ eraseKey db k) : q ∈ db := by
  induction db with
  | nil => simp [eraseKey] at h
  | cons p r ih =>
    simp only [eraseKey] at h
    by_cases hp : p.1 == k
    · simp [hp] at h; exact List.mem_cons_of_mem _ h
    · simp [hp] at h
      rcases h with h | h
      · simp [h]
      · exact List.mem_cons_of_mem _ (ih h)

/-- what `remove(data_object)` does as ONE block: the scan's hit is still present when `del` runs, so the KeyError
branch is dead -/
theorem dbRemoveVal_spec (o v : Nat) (s : LSt) :
    (∃ p, s.db.find? (fun p => p.2 == v) = some p ∧ hasKey s.db p.1 = true ∧
      dbRemoveVal o v s = { s with db := eraseKey s.db p.1, removed := s.removed + 1, reg := upd2 (upd2 s.reg o 8 1) o 9 p.1 }) ∨
    (s.db.find? (fun p => p.2 == v) = none ∧ dbRemoveVal o v s = { s with reg := upd2 s.reg o 8 0 }) := by
  cases hf : s.db.find? (fun p => p.2 == v) with
  | none =>
    right
    refine ⟨rfl, ?_⟩
    simp [dbRemoveVal, dbScanVal, dbDelKey, hf, upd2]
  | some p =>
    left
    have hk : hasKey s.db p.1 = true := by
      simp only [hasKey, List.any_eq_true]
      exact ⟨p, List.mem_of_find?_eq_some hf, by simp⟩
    refine ⟨p, rfl, hk, ?_⟩
    simp [dbRemoveVal, dbScanVal, dbDelKey, hf, upd2, hk]

/-- what `remove_subscription` does as ONE block: the membership test still holds when `list.remove` runs, so the
ValueError branch is dead -/
theorem subRemove_spec (o sid : Nat) (s : LSt) :
    (sid ∈ s.subs ∧ subRemove o sid s = { s with subs := s.subs.erase sid, subRemoved := s.subRemoved + 1, lastChk := upd s.lastChk sid false, reg := upd2 s.reg o 8 1 }) ∨
    (sid ∉ s.subs ∧ subRemove o sid s = { s with lastChk := upd s.lastChk sid false, reg := upd2 s.reg o 8 0 }) := by
  by_cases h : sid ∈ s.subs
  · left
    refine ⟨h, ?_⟩
    simp [subRemove, subTest, subDrop, subPop, h, upd2]
  · right
    refine ⟨h, ?_⟩
    simp [subRemove, subTest, subDrop, subPop, h, upd2]

/-- a predicate that ignores the registers and is kept by a successful removal is kept by `dbRemoveVal` -/
theorem dbRemoveVal_preserves (P : LSt → Prop) (o v : Nat) (s : LSt) (hs : P s)
    (hreg : ∀ (x : LSt) (r : Nat → Nat → Nat), P x → P { x with reg := r })
    (hdel : ∀ (x : LSt) (k : Nat), P x → hasKey x.db k = true →
      P { x with db := eraseKey x.db k, removed := x.removed + 1 }) : P (dbRemoveVal o v s) := by
  rcases dbRemoveVal_spec o v s with ⟨p, _, hk, he⟩ | ⟨_, he⟩
  · rw [he]
    exact hreg { s with db := eraseKey s.db p.1, removed := s.removed + 1 } _ (hdel s p.1 hs hk)
  · rw [he]; exact hreg s _ hs

theorem subRemove_preserves (P : LSt → Prop) (o sid : Nat) (s : LSt) (hs : P s)
    (hreg : ∀ (x : LSt) (r : Nat → Nat → Nat) (c : Nat → Bool), P x → P { x with reg := r, lastChk := c })
    (hdel : ∀ (x : LSt), P x → sid ∈ x.subs →
      P { x with subs := x.subs.erase sid, subRemoved := x.subRemoved + 1 }) : P (subRemove o sid s) := by
  rcases subRemove_spec o sid s with ⟨hm, he⟩ | ⟨_, he⟩
  · rw [he]
    exact hreg { s with subs := s.subs.erase sid, subRemoved := s.subRemoved + 1 } _ _ (hdel s hs hm)
  · rw [he]; exact hreg s _ _ hs

theorem dbRemoveVal_prov (o v : Nat) (s : LSt) : (dbRemoveVal o v s).prov = s.prov := by
  rcases dbRemoveVal_spec o v s with ⟨p, _, _, he⟩ | ⟨_, he⟩ <;> rw [he]

theorem subRemove_prov (o sid : Nat) (s : LSt) : (subRemove o sid s).prov = s.prov := by
  rcases subRemove_spec o sid s with ⟨_, he⟩ | ⟨_, he⟩ <;> rw [he]

/-! ## id allocation -/
def IdInv (s : LSt) : Prop :=
  s.nextId = s.insLog.length ∧ ∀ i, i < s.insLog.length → s.insLog[i]? = some (s.insLog.length - 1 - i)

theorem dbInsert_IdInv (o v : Nat) (x : LSt) (h : IdInv x) : IdInv (dbInsert o v x) := by
  obtain ⟨h1, h2⟩ := h
  simp only [IdInv, dbInsert, List.length_cons]
  refine ⟨by omega, ?_⟩
  intro i hi
  cases i with
  | zero => simp [h1]
  | succ j =>
    simp only [List.getElem?_cons_succ]
    rw [h2 j (by omega)]
    congr 1
    omega

/-! ## store conservation -/
def StoreInv (s : LSt) : Prop := s.db.length + s.removed + s.overwritten = s.inserted + s.revived

def StoreInvStrict (s : LSt) : Prop :=
  (∀ q ∈ s.db, q.1 < s.nextId) ∧ s.db.length + s.removed = s.inserted ∧ s.revived = 0 ∧ s.overwritten = 0

def SubInv (s : LSt) : Prop := s.subs.length + s.subRemoved = s.subAdded

macro "ldm_frame" h:ident : tactic => `(tactic| first
  | exact $h
  | (simp only [dbExists, dbGet, dbAll, provAdd, provDel, provHas, consAdd, consDel, consDelCollect, consHas, subsCopy,
       lastChkSection, setResp, markRemove, callback, unsubFind]; exact $h)
  | (simp only [gcPick, subPick, removePick]; split <;> exact $h))

theorem IdInv_blk (p : Bool) (f : LSt → LSt) (hf : Blk p f) : ∀ x, IdInv x → IdInv (f x) := by
  induction hf with
  | dbInsert o v => exact dbInsert_IdInv o v
  | whenReg o slot v f _ ih => exact whenReg_preserves _ o slot v f ih
  | dbUpdate o i v _ => intro x h; exact h
  | dbUpdateIfPresent o i v => intro x h; unfold dbUpdateIfPresent; split <;> exact h
  | dbRemoveId o i => intro x h; unfold dbRemoveId; split <;> exact h
  | gcRemove o => intro x h; exact dbRemoveVal_preserves IdInv _ _ x h (fun _ _ hx => hx) (fun _ _ hx _ => hx)
  | subAdd sid => intro x h; exact h
  | subRemove o sid => intro x h; exact subRemove_preserves IdInv _ _ x h (fun _ _ _ hx => hx) (fun _ hx _ => hx)
  | subRemoveReg o => intro x h; exact subRemove_preserves IdInv _ _ x h (fun _ _ _ hx => hx) (fun _ hx _ => hx)
  | _ => intro x h; ldm_frame h

theorem SubInv_erase (sid : Nat) (x : LSt) (h : SubInv x) (hm : sid ∈ x.subs) :
    SubInv { x with subs := x.subs.erase sid, subRemoved := x.subRemoved + 1 } := by
  have := List.length_erase_of_mem hm
  have hpos : 0 < x.subs.length := List.length_pos_of_mem hm
  simp only [SubInv] at *
  omega

theorem SubInv_blk (p : Bool) (f : LSt → LSt) (hf : Blk p f) : ∀ x, SubInv x → SubInv (f x) := by
  induction hf with
  | whenReg o slot v f _ ih => exact whenReg_preserves _ o slot v f ih
  | dbInsert o v => intro x h; exact h
  | dbUpdate o i v _ => intro x h; exact h
  | dbUpdateIfPresent o i v => intro x h; unfold dbUpdateIfPresent; split <;> exact h
  | dbRemoveId o i => intro x h; unfold dbRemoveId; split <;> exact h
  | gcRemove o => intro x h; exact dbRemoveVal_preserves SubInv _ _ x h (fun _ _ hx => hx) (fun _ _ hx _ => hx)
  | subAdd sid => intro x h; simp only [SubInv, subAdd, List.length_append, List.length_singleton] at *; omega
  | subRemove o sid =>
    intro x h; exact subRemove_preserves SubInv _ _ x h (fun _ _ _ hx => hx) (fun y hy hm => SubInv_erase sid y hy hm)
  | subRemoveReg o =>
    intro x h; exact subRemove_preserves SubInv _ _ x h (fun _ _ _ hx => hx) (fun y hy hm => SubInv_erase _ y hy hm)
  | _ => intro x h; ldm_frame h

theorem dbRemoveVal_StoreInv (o v : Nat) (x : LSt) (h : StoreInv x) : StoreInv (dbRemoveVal o v x) := by
  refine dbRemoveVal_preserves StoreInv o v x h (fun _ _ hx => hx) ?_
  intro y k hy hk
  have := eraseKey_length y.db k hk
  simp only [StoreInv] at *
  omega

theorem StoreInv_blk (p : Bool) (f : LSt → LSt) (hf : Blk p f) : ∀ x, StoreInv x → StoreInv (f x) := by
  induction hf with
  | whenReg o slot v f _ ih => exact whenReg_preserves _ o slot v f ih
  | dbInsert o v =>
    intro x h
    simp only [StoreInv, dbInsert, setRow_length] at *
    split <;> omega
  | dbUpdate o i v _ =>
    intro x h
    simp only [StoreInv, dbUpdate, setRow_length] at *
    split <;> omega
  | dbUpdateIfPresent o i v =>
    intro x h
    unfold dbUpdateIfPresent
    split
    · rename_i hk
      simp only [StoreInv, setRow_length, hk, if_true] at *
      exact h
    · exact h
  | dbRemoveId o i =>
    intro x h
    unfold dbRemoveId
    split
    · have : (removeId x.db i).length ≤ x.db.length := List.length_filter_le _ _
      simp only [StoreInv] at *
      omega
    · exact h
  | gcRemove o => intro x h; exact dbRemoveVal_StoreInv _ _ x h
  | subAdd sid => intro x h; exact h
  | subRemove o sid => intro x h; exact subRemove_preserves StoreInv _ _ x h (fun _ _ _ hx => hx) (fun _ hx _ => hx)
  | subRemoveReg o => intro x h; exact subRemove_preserves StoreInv _ _ x h (fun _ _ _ hx => hx) (fun _ hx _ => hx)
  | _ => intro x h; ldm_frame h

theorem StoreInvStrict_blk (f : LSt → LSt) (hf : Blk false f) : ∀ x, StoreInvStrict x → StoreInvStrict (f x) := by
  induction hf with
  | whenReg o slot v f _ ih => exact whenReg_preserves _ o slot v f ih
  | dbUpdate o i v h => cases h
  | dbInsert o v =>
    intro x ⟨h1, h2, h3, h4⟩
    have hk : hasKey x.db x.nextId = false := by
      cases hh : hasKey x.db x.nextId with
      | false => rfl
      | true =>
        obtain ⟨q, hq, he⟩ := hasKey_mem _ _ hh
        have := h1 q hq
        omega
    refine ⟨?_, ?_, h3, ?_⟩
    · intro q hq
      simp only [dbInsert] at hq ⊢
      rcases mem_setRow _ _ _ _ hq with hq | hq
      · have := h1 q hq; omega
      · subst hq; simp
    · simp only [dbInsert, setRow_length, hk]
      simp only [Bool.false_eq_true, if_false]
      omega
    · simp only [dbInsert, hk]
      simpa using h4
  | dbUpdateIfPresent o i v =>
    intro x ⟨h1, h2, h3, h4⟩
    unfold dbUpdateIfPresent
    split
    · rename_i hk
      refine ⟨?_, ?_, h3, h4⟩
      · intro q hq
        rcases mem_setRow _ _ _ _ hq with hq | hq
        · exact h1 q hq
        · subst hq
          obtain ⟨q', hq', he⟩ := hasKey_mem _ _ hk
          have := h1 q' hq'
          simp only; omega
      · simp only [setRow_length, hk, if_true]; exact h2
    · exact ⟨h1, h2, h3, h4⟩
  | dbRemoveId o i =>
    intro x ⟨h1, h2, h3, h4⟩
    unfold dbRemoveId
    split
    · have : (removeId x.db i).length ≤ x.db.length := List.length_filter_le _ _
      refine ⟨?_, ?_, h3, h4⟩
      · intro q hq
        exact h1 q (List.mem_filter.mp hq).1
      · simp only; omega
    · exact ⟨h1, h2, h3, h4⟩
  | gcRemove o =>
    intro x h
    refine dbRemoveVal_preserves StoreInvStrict _ _ x h (fun _ _ hx => hx) ?_
    intro y k ⟨h1, h2, h3, h4⟩ hk
    have := eraseKey_length y.db k hk
    refine ⟨fun q hq => h1 q (mem_eraseKey _ _ _ hq), ?_, h3, h4⟩
    simp only; omega
  | subAdd sid => intro x h; exact h
  | subRemove o sid => intro x h; exact subRemove_preserves StoreInvStrict _ _ x h (fun _ _ _ hx => hx) (fun _ hx _ => hx)
  | subRemoveReg o => intro x h; exact subRemove_preserves StoreInvStrict _ _ x h (fun _ _ _ hx => hx) (fun _ hx _ => hx)
  | _ => intro x h; ldm_frame h

/-! ## lock discipline -/
theorem WFp_compile (op : Op) : WFp rank [] (compile op) := by
  cases op with
  | deregC o a n =>
    simp only [compile, compileT, List.map_append]
    refine WFp_append _ _ _ _ (WFp_append _ _ _ _ ?_ ?_) ?_
    · simp [tsect, TI.erase, WFp]
    · rw [List.map_flatten, List.map_replicate]
      apply WFp_flatten
      intro p hp
      rw [List.mem_replicate] at hp
      rw [hp.2]
      simp [tsect, TI.erase, WFp]
    · simp [TI.erase, WFp]
  | gc o n =>
    simp only [compile, compileT, List.map_append]
    refine WFp_append _ _ _ _ (WFp_append _ _ _ _ (WFp_append _ _ _ _ ?_ ?_) ?_) ?_
    · simp [tsect, TI.erase, WFp]
    · rw [List.map_flatten, List.map_replicate]
      apply WFp_flatten
      intro p hp
      rw [List.mem_replicate] at hp
      rw [hp.2]
      simp [gcIter, tsect, TI.erase, WFp]
    · simp [tsect, TI.erase, WFp]
    · simp [tsect, TI.erase, WFp]
  | attend o n =>
    simp only [compile, compileT, List.map_append]
    refine WFp_append _ _ _ _ (WFp_append _ _ _ _ ?_ ?_) ?_
    · simp [tsect, TI.erase, WFp]
    · rw [List.map_flatten, List.map_replicate]
      apply WFp_flatten
      intro p hp
      rw [List.mem_replicate] at hp
      rw [hp.2]
      simp [attendIter, tsect, TI.erase, WFp]
    · rw [List.map_flatten, List.map_replicate]
      apply WFp_flatten
      intro p hp
      rw [List.mem_replicate] at hp
      rw [hp.2]
      simp [attendRemove, tsect, TI.erase, WFp]
  | updMt o i v => simp [compile, compileT, tsect, TI.erase, WFp, rank, lkMt, lkDb]
  | _ => simp [compile, compileT, tsect, TI.erase, WFp]

theorem WF_sys (threads : List (List Op)) : WF rank (sys threads) := by
  apply WF_mkSys
  intro p hp
  rw [List.mem_map] at hp
  obtain ⟨ops, _, rfl⟩ := hp
  apply WFp_flatten
  intro q hq
  rw [List.mem_map] at hq
  obtain ⟨op, _, rfl⟩ := hq
  exact WFp_compile op


/-! ## application threads: LDM calls made while holding the application mutex `lkApp` -/

/-- the locks a program acquires -/
def acqs : List (Instr LSt) → List Lock
  | [] => []
  | .acq l :: p => l :: acqs p
  | .rel _ :: p => acqs p
  | .blk _ :: p => acqs p

theorem acqs_append (p q : List (Instr LSt)) : acqs (p ++ q) = acqs p ++ acqs q := by
  induction p with
  | nil => rfl
  | cons i p ih => cases i <;> simp [acqs, ih]

theorem mem_acqs_flatten (ps : List (List (Instr LSt))) (l : Lock) (h : l ∈ acqs ps.flatten) : ∃ p ∈ ps, l ∈ acqs p := by
  induction ps with
  | nil => simp [acqs] at h
  | cons p r ih =>
    simp only [List.flatten_cons, acqs_append, List.mem_append] at h
    rcases h with h | h
    · exact ⟨p, by simp, h⟩
    · obtain ⟨q, hq, hl⟩ := ih h
      exact ⟨q, List.mem_cons_of_mem _ hq, hl⟩

/-- **framing a well-bracketed program by an outer lock**: a program that is well bracketed from `held` stays so when
the thread additionally holds `l` throughout, provided every lock it acquires ranks above `l`; afterwards `q` runs
with exactly `l` held -/
theorem WFp_frame (rank : Lock → Nat) (l : Lock) (p q : List (Instr LSt)) (held : List Lock)
    (hp : WFp rank held p) (hacq : ∀ a ∈ acqs p, rank l < rank a) (hq : WFp rank [l] q) :
    WFp rank (held ++ [l]) (p ++ q) := by
  induction p generalizing held with
  | nil => simp only [WFp] at hp; subst hp; simpa using hq
  | cons i p ih =>
    cases i with
    | acq a =>
      have ha : rank l < rank a := hacq a (by simp [acqs])
      refine ⟨?_, ?_⟩
      · intro h hh
        rcases List.mem_append.mp hh with h1 | h1
        · exact hp.1 h h1
        · simp only [List.mem_cons, List.not_mem_nil, or_false] at h1; subst h1; exact ha
      · exact ih (a :: held) hp.2 (fun b hb => hacq b (by simp [acqs, hb]))
    | rel a =>
      refine ⟨List.mem_append_left _ hp.1, ?_⟩
      rw [List.erase_append_left _ hp.1]
      exact ih (held.erase a) hp.2 (fun b hb => hacq b (by simpa [acqs] using hb))
    | blk f => exact ih held hp (fun b hb => hacq b (by simpa [acqs] using hb))

theorem acqs_replicate (n : Nat) (p : List (Instr LSt)) (l : Lock) (h : l ∈ acqs (List.replicate n p).flatten) : l ∈ acqs p := by
  obtain ⟨q, hq, hl⟩ := mem_acqs_flatten _ l h
  rw [List.mem_replicate] at hq
  rw [← hq.2]; exact hl

/-- an LDM operation other than an attendance pass takes LDM locks only (the maintenance-thread lock, the service
lock, the database lock) – never the application mutex -/
theorem acqs_compile (op : Op) (h : op.isAttend = false) : ∀ a ∈ acqs (compile op), rank lkApp < rank a := by
  intro a ha
  cases op with
  | attend o n => cases h
  | deregC o a' n =>
    simp only [compile, compileT, List.map_append, acqs_append, List.mem_append] at ha
    rcases ha with ((ha | ha) | ha) | ha
    · simp [tsect, TI.erase, acqs] at ha; subst ha; decide
    · simp [tsect, TI.erase, acqs] at ha; subst ha; decide
    · rw [List.map_flatten, List.map_replicate] at ha
      have := acqs_replicate n _ a ha
      simp [tsect, TI.erase, acqs] at this; subst this; decide
    · simp [TI.erase, acqs] at ha
  | gc o n =>
    simp only [compile, compileT, List.map_append, acqs_append, List.mem_append] at ha
    rcases ha with (((ha | ha) | ha) | ha) | ha
    · simp [tsect, TI.erase, acqs] at ha; subst ha; decide
    · simp [tsect, TI.erase, acqs] at ha; subst ha; decide
    · rw [List.map_flatten, List.map_replicate] at ha
      have := acqs_replicate n _ a ha
      simp [gcIter, tsect, TI.erase, acqs] at this; subst this; decide
    · simp [tsect, TI.erase, acqs] at ha; subst ha; decide
    · simp [tsect, TI.erase, acqs] at ha; subst ha; decide
  | updMt o i v =>
    simp [compile, compileT, tsect, TI.erase, acqs] at ha
    rcases ha with rfl | rfl | rfl | rfl | rfl <;> decide
  | _ =>
    simp [compile, compileT, tsect, TI.erase, acqs] at ha
    first
      | (subst ha; decide)
      | (rcases ha with rfl | rfl <;> decide)
      | (rcases ha with rfl | rfl | rfl <;> decide)
      | (rcases ha with rfl | rfl | rfl | rfl <;> decide)

theorem WFp_threadProg (ops : List Op) : WFp rank [] (threadProg ops) := by
  apply WFp_flatten
  intro q hq
  rw [List.mem_map] at hq
  obtain ⟨op, _, rfl⟩ := hq
  exact WFp_compile op

theorem WFp_segProg (g : Seg) (h : g.1 = true → ∀ op ∈ g.2, op.isAttend = false) : WFp rank [] (segProg g) := by
  unfold segProg
  by_cases hg : g.1 = true
  · simp only [hg, if_true]
    refine ⟨by simp, ?_⟩
    have := WFp_frame rank lkApp (threadProg g.2) [.rel lkApp] [] (WFp_threadProg g.2) ?_ (by simp [WFp])
    · simpa using this
    · intro a ha
      obtain ⟨p, hp, hl⟩ := mem_acqs_flatten _ a ha
      rw [List.mem_map] at hp
      obtain ⟨op, hop, rfl⟩ := hp
      exact acqs_compile op (h hg op hop) a hl
  · simp only [hg]
    exact WFp_threadProg g.2

/-- every application thread takes its locks along the rank application mutex < maintenance-thread lock < service lock
< database lock, well bracketed – PROVIDED the consumer callback runs with no LDM lock held (it does in `attendIter`:
`callbacks_outside_locks`) and the application does not run an attendance pass while holding its own mutex -/
theorem WF_sysApp (threads : List (List Seg)) (h : AppOk threads) : WF rank (sysApp threads) := by
  apply WF_mkSys
  intro p hp
  rw [List.mem_map] at hp
  obtain ⟨segs, hsegs, rfl⟩ := hp
  apply WFp_flatten
  intro q hq
  rw [List.mem_map] at hq
  obtain ⟨g, hg, rfl⟩ := hq
  exact WFp_segProg g (h segs hsegs g hg)

theorem blocksOf_segProg (g : Seg) : blocksOf (segProg g) = blocksOf (threadProg g.2) := by
  unfold segProg
  split
  · simp [blocksOf, blocksOf_append]
  · rfl

/-- the invariant rule for systems with application threads: taking the application mutex adds no block -/
theorem ldm_inv_app (p : Bool) (P : LSt → Prop) (threads : List (List Seg))
    (hp : ∀ segs ∈ threads, ∀ g ∈ segs, ∀ op ∈ g.2, op.isPlainUpd = true → p = true)
    (h0 : P {}) (hB : ∀ f, Blk p f → ∀ x, P x → P (f x)) (sched : List ThreadId) :
    P (run (sysApp threads) sched).sh := by
  apply inv_of_blocks P (sysApp threads) h0
  intro th hth f hf
  simp only [sysApp, mkSys, List.mem_map] at hth
  obtain ⟨prog, ⟨segs, hsegs, rfl⟩, rfl⟩ := hth
  simp only [appProg] at hf
  obtain ⟨q', hq', hfq⟩ := mem_blocksOf_flatten _ f hf
  rw [List.mem_map] at hq'
  obtain ⟨g, hg, rfl⟩ := hq'
  rw [blocksOf_segProg, threadProg] at hfq
  obtain ⟨q'', hq'', hfq'⟩ := mem_blocksOf_flatten _ f hfq
  rw [List.mem_map] at hq''
  obtain ⟨op, hop, rfl⟩ := hq''
  exact hB f (compile_blocks p op (hp segs hsegs g hg op hop) f hfq')

/-! ## recognising a deadlocked state -/

/-- some thread is unfinished and every unfinished thread's next instruction is the acquisition of a held lock -/
def stuckB (s : Sys LSt) : Bool :=
  s.thr.any (fun th => !th.prog.isEmpty) &&
  s.thr.all (fun th => match th.prog with
    | [] => true
    | .acq l :: _ => !lockFree s l
    | _ => false)

theorem deadlock_of_stuckB (s : Sys LSt) (h : stuckB s = true) : Deadlock s := by
  simp only [stuckB, Bool.and_eq_true, List.any_eq_true, List.all_eq_true] at h
  obtain ⟨⟨th0, hth0, hp0⟩, hall⟩ := h
  refine ⟨⟨th0, hth0, by intro e; simp [e] at hp0⟩, ?_⟩
  intro t
  cases hth : s.thr[t]? with
  | none => exact step_none_thr s t hth
  | some th =>
    have := hall th (List.mem_of_getElem? hth)
    cases hp : th.prog with
    | nil => exact step_nil s t th hth hp
    | cons i p =>
      rw [hp] at this
      cases i with
      | acq l =>
        rw [step_acq s t th l p hth hp]
        have hf : lockFree s l = false := by simpa using this
        simp [hf]
      | rel l => simp at this
      | blk f => simp at this

end FlexModel.Conc.Ldm

/-
Line-protocol driver for the router block model (C15 correspondence).

  explore <op> <op> / <op> … / …      threads separated by `/`; ops:
      sn:o shb:o gbc:o ego:v cbfA:o:k gbcRx:o:k cbfF:o:k:src guc:o:r:d lsR:o:d:n lsF:o:d:src:mr purge:d
  → all outcomes reachable under SOME schedule of the blocks, `|`-separated (sorted, de-duplicated), or `bad-op`.

The search is a memoised DFS over macro steps (a thread runs up to and including its next block and the releases
that follow; acquires are right movers, releases left movers, so the set of final outcomes is the one of the
instruction-level semantics of `Conc/Sched`).  `DEADLOCK` is reported as an outcome of its own.
-/
import FlexModel.Proto
import FlexModel.Conc.RouterConc
import Std.Data.HashSet

namespace FlexModel.Conc.Router
open FlexModel.Proto FlexModel.Conc

def parseOp (t : String) : Option Op :=
  match t.splitOn ":" with
  | ["shb", o] => (nat? o).map Op.shb
  | ["gbc", o] => (nat? o).map Op.gbc
  | ["ego", v] => (nat? v).map Op.ego
  | ["cbfA", o, k] => do some (Op.cbfArrive (← nat? o) (← nat? k))
  | ["sn", o] => (nat? o).map Op.sn
  | ["gbcRx", o, k] => do some (Op.gbcRx (← nat? o) (← nat? k) false)
  | ["gbcRxD", o, k] => do some (Op.gbcRx (← nat? o) (← nat? k) true)
  | ["cbfF", o, k, src] => do some (Op.cbfFire (← nat? o) (← nat? k) (← nat? src))
  | ["guc", o, r, d] => do some (Op.guc (← nat? o) (← nat? r) (← nat? d) true)
  | ["gucOld", o, r, d] => do some (Op.guc (← nat? o) (← nat? r) (← nat? d) false)
  | ["lsR", o, d, n] => do some (Op.lsReply (← nat? o) (← nat? d) (← nat? n) true)
  | ["lsROld", o, d, n] => do some (Op.lsReply (← nat? o) (← nat? d) (← nat? n) false)
  | ["lsF", o, d, src, mr] => do some (Op.lsFire (← nat? o) (← nat? d) (← nat? src) (← nat? mr))
  | ["purge", d] => (nat? d).map Op.purge
  | _ => none

def splitThreads (ts : List String) : List (List String) :=
  let r := ts.foldl (fun (acc : List (List String) × List String) t =>
    if t == "/" then (acc.1 ++ [acc.2], []) else (acc.1, acc.2 ++ [t])) ([], [])
  r.1 ++ [r.2]

def parseThreads (ts : List String) : Option (List (List Op)) :=
  (splitThreads ts).mapM (fun th => th.mapM parseOp)

def opKeys : Op → List Nat
  | .cbfArrive _ k => [k] | .cbfFire _ k _ => [k] | .gbcRx _ k _ => [k] | _ => []
def opDests : Op → List Nat
  | .guc _ _ d _ => [d] | .lsReply _ d _ _ => [d] | .lsFire _ d _ _ => [d] | .purge d => [d] | _ => []
def opReqs : Op → List Nat
  | .guc _ r _ _ => [r] | _ => []
def opIds : Op → List Nat
  | .sn o => [o] | .shb o => [o] | .gbc o => [o] | .cbfArrive o _ => [o] | .gbcRx o _ _ => [o] | .cbfFire o _ _ => [o]
  | .guc o _ _ _ => [o] | .lsReply o _ n _ => o :: (List.range n).map (fun k => 1000 * (k + 1) + o) | .lsFire o _ _ _ => [o] | _ => []

def natsStr (xs : List Nat) : String := ",".intercalate (xs.map toString)

def pktStr (p : Pkt) : String := s!"{p.kind}:{p.ref}:{p.sn}:{p.pv}"

def sortNat (xs : List Nat) : List Nat := (xs.toArray.qsort (· < ·)).toList

/-- the observable outcome: packets in emission order, exceptions, final CBF / LS bookkeeping, and the requests that
were neither sent nor are still buffered (`D`) -/
def obs (keys dests reqs : List Nat) (s : St) : String :=
  let pk := ",".intercalate (s.sent.reverse.map pktStr)
  let cb := natsStr (keys.filter s.cbf)
  let ls := ";".intercalate (dests.map (fun d =>
    s!"{d}:{if s.loct d && s.pending d then 1 else 0}:{if (s.lsTimer d).isSome then 1 else 0}:{match s.lsCnt d with | some c => toString c | none => "-"}:{natsStr (s.lsBuf d)}"))
  let sentReqs := (s.sent.filter (fun p => p.kind == 2)).map (·.ref)
  let gone := reqs.filter (fun r => !sentReqs.contains r && !(dests.any (fun d => (s.lsBuf d).contains r)))
  s!"S={pk}_E={s.err}_C={cb}_L={ls}_D={natsStr (sortNat gone)}_N={natsStr s.snLog.reverse}"

/-- everything the future can depend on (memo key together with the program counters) -/
def fullKey (keys dests reqs ids : List Nat) (s : St) : String :=
  let regs := ";".intercalate (ids.map (fun o => natsStr ((List.range 12).map (s.reg o)) ++ "/" ++ natsStr (s.regL o) ++ "/" ++
    (if s.tStarted o then "s" else "") ++ (if s.tCancelled o then "c" else "")))
  let perD := ";".intercalate (dests.map (fun d => s!"{if s.loct d then 1 else 0}/{natsStr (s.lsFlight d)}/{match s.lsTimer d with | some t => toString t | none => "-"}"))
  let perK := ";".intercalate (keys.map (fun k => s!"{s.cbfTok k}/{s.cbfPend k}/{if s.dpl k then 1 else 0}"))
  s!"{obs keys dests reqs s}#{s.sn}#{s.ego}#{regs}#{perD}#{perK}"

/-- search state: the `Conc/Sched` system plus the tagged remainder of every thread's program -/
structure XS where
  sys : Sys St
  tp : List (List TI)

def guardFalse (s : St) : TI → Bool
  | .gblk o slot v _ => s.reg o slot != v
  | .nop => true
  | _ => false

/-- drop `n` instructions of thread `t` without executing them (they are invisible no-ops) -/
def dropN (x : XS) (t n : Nat) : XS :=
  match x.sys.thr[t]? with
  | none => x
  | some th =>
    { sys := { x.sys with thr := x.sys.thr.set t { th with prog := th.prog.drop n } },
      tp := x.tp.set t ((x.tp[t]?.getD []).drop n) }

def step1 (x : XS) (t : Nat) : Option XS :=
  (step x.sys t).map (fun s' => { sys := s', tp := x.tp.set t ((x.tp[t]?.getD []).drop 1) })

/-- macro step of thread `t`: invisible steps (`loc`, `nop`, blocks and whole sections whose register guard is
false) are fused with the visible block they surround; the step ends before the next visible block/section.
`none` when the thread is finished or blocked before doing anything visible. -/
partial def macroStep (x : XS) (t : ThreadId) : Option XS :=
  let rec go (x : XS) (vis : Bool) (moved : Bool) : Option XS :=
    match x.tp[t]?.getD [] with
    | [] => if moved then some x else none
    | .acq _ :: i :: .rel _ :: _ =>
      if guardFalse x.sys.sh i then go (dropN x t 3) vis true
      else if vis then some x
      else match step1 x t with
        | some x' => go x' vis true
        | none => none
    | .acq _ :: _ =>
      if vis then some x
      else match step1 x t with
        | some x' => go x' vis true
        | none => none
    | .rel _ :: _ => match step1 x t with
        | some x' => go x' vis true
        | none => some x
    | .loc _ :: _ => match step1 x t with
        | some x' => go x' vis true
        | none => some x
    | i :: _ =>
      if guardFalse x.sys.sh i then go (dropN x t 1) vis true
      else if vis then some x
      else match step1 x t with
        | some x' => go x' true true
        | none => none
  go x false false

def sysKey (keys dests reqs ids : List Nat) (s : Sys St) : String :=
  fullKey keys dests reqs ids s.sh ++ "@" ++ natsStr (s.thr.map (·.prog.length)) ++ "@" ++
    ";".intercalate (s.thr.map (fun th => natsStr th.held))

partial def explore (keys dests reqs ids : List Nat) (x : XS)
    (seen : Std.HashSet String) (outs : Std.HashSet String) : Std.HashSet String × Std.HashSet String :=
  let k := sysKey keys dests reqs ids x.sys
  if seen.contains k then (seen, outs) else
  let seen := seen.insert k
  if finished x.sys then (seen, outs.insert (obs keys dests reqs x.sys.sh)) else
  let n := x.sys.thr.length
  let succs := (List.range n).filterMap (macroStep x)
  if succs.isEmpty then (seen, outs.insert "DEADLOCK") else
  succs.foldl (fun (acc : Std.HashSet String × Std.HashSet String) x' => explore keys dests reqs ids x' acc.1 acc.2) (seen, outs)

def dedup (xs : List Nat) : List Nat := xs.foldl (fun acc x => if acc.contains x then acc else acc ++ [x]) []

def exploreLine (ts : List String) : String :=
  match parseThreads ts with
  | none => "bad-op"
  | some threads =>
    let ops := threads.flatten
    let keys := sortNat (dedup (ops.flatMap opKeys))
    let dests := sortNat (dedup (ops.flatMap opDests))
    let ids := sortNat (dedup (ops.flatMap opIds))
    let reqs := sortNat (dedup (ops.flatMap opReqs))
    let x0 : XS := { sys := sys threads, tp := threads.map (fun ops => (ops.map compileT).flatten) }
    let (_, outs) := explore keys dests reqs ids x0 {} {}
    let l := (outs.toList.toArray.qsort (· < ·)).toList
    "|".intercalate l

def routerStep (_ : Unit) (t : List String) : Unit × String :=
  match t with
  | "explore" :: rest => ((), exploreLine rest)
  | _ => ((), "bad-op")

def routerConcDomain : Domain := { σ := Unit, init := (), step := routerStep }

end FlexModel.Conc.Router

/-
Line-protocol driver for the router block model (C15 correspondence).

  explore <op> <op> / <op> … / …      threads separated by `/`; ops:
      sn:o shb:o gbc:o ego:v cbfA:o:k cbfF:o:k:src guc:o:r:d lsR:o:d:n lsF:o:d:src:mr purge:d refresh
      gbcRx:o:a:k (GBC of source a, SN k; suffix U = LocTE update outside loc_t_lock, D = duplicates discard) shbRx:o:a shbRxU:o:a
      a first segment starting with the token `init` is not a thread; it builds the initial state: `warm:a:k` (a GBC of
      source a with SN k was received before the run), `sn0:v` (the sequence counter starts at v), any other op (executed
      sequentially, to completion, before the threads start)
  → all outcomes reachable under SOME schedule of the blocks, `|`-separated (sorted, de-duplicated), or `bad-op`.

The search is a memoised DFS over macro steps (a thread runs up to and including its next block and the releases
that follow; acquires are right movers, releases left movers, so the set of final outcomes is the one of the
instruction-level semantics of `Conc/Sched`).  `DEADLOCK` is reported as an outcome of its own.
-/
import FlexModel.Proto
import FlexModel.Conc.RouterConc
import Std.Data.HashSet

namespace FlexModel.Conc.Router
open FlexModel.Proto FlexModel.Conc

def parseOp (t : String) : Option Op :=
  match t.splitOn ":" with
  | ["shb", o] => (nat? o).map Op.shb
  | ["gbc", o] => (nat? o).map Op.gbc
  | ["ego", v] => (nat? v).map Op.ego
  | ["cbfA", o, k] => do some (Op.cbfArrive (← nat? o) (← nat? k))
  | ["sn", o] => (nat? o).map Op.sn
  | ["gbcRx", o, a, k] => do some (Op.gbcRx (← nat? o) (← nat? a) (← nat? k) true false [])
  | ["gbcRxD", o, a, k] => do some (Op.gbcRx (← nat? o) (← nat? a) (← nat? k) true true [])
  | ["gbcRxU", o, a, k] => do some (Op.gbcRx (← nat? o) (← nat? a) (← nat? k) false false [])
  | ["gbcRxUD", o, a, k] => do some (Op.gbcRx (← nat? o) (← nat? a) (← nat? k) false true [])
  | ["shbRx", o, a] => do some (Op.shbRx (← nat? o) (← nat? a) true [])
  | ["shbRxU", o, a] => do some (Op.shbRx (← nat? o) (← nat? a) false [])
  | ["refresh"] => some (Op.refresh [])
  | ["cbfF", o, k, src] => do some (Op.cbfFire (← nat? o) (← nat? k) (← nat? src))
  | ["guc", o, r, d] => do some (Op.guc (← nat? o) (← nat? r) (← nat? d) true)
  | ["gucOld", o, r, d] => do some (Op.guc (← nat? o) (← nat? r) (← nat? d) false)
  | ["lsR", o, d, n] => do some (Op.lsReply (← nat? o) (← nat? d) (← nat? n) true)
  | ["lsROld", o, d, n] => do some (Op.lsReply (← nat? o) (← nat? d) (← nat? n) false)
  | ["lsF", o, d, src, mr] => do some (Op.lsFire (← nat? o) (← nat? d) (← nat? src) (← nat? mr))
  | ["purge", d] => (nat? d).map Op.purge
  | _ => none

def splitThreads (ts : List String) : List (List String) :=
  let r := ts.foldl (fun (acc : List (List String) × List String) t =>
    if t == "/" then (acc.1 ++ [acc.2], []) else (acc.1, acc.2 ++ [t])) ([], [])
  r.1 ++ [r.2]

def parseThreads (ts : List String) : Option (List (List Op)) :=
  (splitThreads ts).mapM (fun th => th.mapM parseOp)

def opKeys : Op → List Nat
  | .cbfArrive _ k => [k] | .cbfFire _ k _ => [k] | .gbcRx _ _ k _ _ _ => [k] | _ => []
def opDests : Op → List Nat
  | .guc _ _ d _ => [d] | .lsReply _ d _ _ => [d] | .lsFire _ d _ _ => [d] | .purge d => [d] | _ => []
/-- source addresses of received frames -/
def opSrcs : Op → List Nat
  | .gbcRx _ a _ _ _ _ => [a] | .shbRx _ a _ _ => [a] | _ => []
/-- (source, SN) of received multi-hop packets -/
def opRx : Op → List (Nat × Nat)
  | .gbcRx _ a k _ _ _ => [(a, k)] | _ => []
def opReqs : Op → List Nat
  | .guc _ r _ _ => [r] | _ => []
def opIds : Op → List Nat
  | .sn o => [o] | .shb o => [o] | .gbc o => [o] | .cbfArrive o _ => [o] | .gbcRx o _ _ _ _ _ => [o] | .shbRx o _ _ _ => [o] | .cbfFire o _ _ => [o]
  | .guc o _ _ _ => [o] | .lsReply o _ n _ => o :: (List.range n).map (fun k => 1000 * (k + 1) + o) | .lsFire o _ _ _ => [o] | _ => []

def natsStr (xs : List Nat) : String := ",".intercalate (xs.map toString)

def pktStr (p : Pkt) : String := s!"{p.kind}:{p.ref}:{p.sn}:{p.pv}"

def sortNat (xs : List Nat) : List Nat := (xs.toArray.qsort (· < ·)).toList

/-- scenario-wide parameters of the observation: CBF keys, LS destinations, request ids, operation ids, source addresses
of received frames, (source, SN) of received multi-hop packets -/
structure Par where
  keys : List Nat
  dests : List Nat
  reqs : List Nat
  ids : List Nat
  srcs : List Nat
  rx : List (Nat × Nat)

/-- the observable outcome: packets in emission order, exceptions, final CBF / LS bookkeeping, the requests that
were neither sent nor are still buffered (`D`), the sequence numbers handed out (`N`), how often each received
(source, SN) passed duplicate detection (`P`) and the final LocTE of each frame source (`T`: 0 none, 1 with PV, 2 without) -/
def obs (q : Par) (s : St) : String :=
  let pk := ",".intercalate (s.sent.reverse.map pktStr)
  let cb := natsStr (q.keys.filter s.cbf)
  let ls := ";".intercalate (q.dests.map (fun d =>
    s!"{d}:{if s.loct d && s.pending d then 1 else 0}:{if (s.lsTimer d).isSome then 1 else 0}:{match s.lsCnt d with | some c => toString c | none => "-"}:{natsStr (s.lsBuf d)}"))
  let sentReqs := (s.sent.filter (fun p => p.kind == 2)).map (·.ref)
  let gone := q.reqs.filter (fun r => !sentReqs.contains r && !(q.dests.any (fun d => (s.lsBuf d).contains r)))
  let ps := ",".intercalate (q.rx.map (fun ak => s!"{ak.1}:{ak.2}:{((s.srcPass ak.1 :: s.srcLives ak.1).flatten).count ak.2}"))
  let tb := ",".intercalate (q.srcs.map (fun a => s!"{a}:{if s.loct a then (if s.ePV (s.eid a) then 1 else 2) else 0}"))
  s!"S={pk}_E={s.err}_C={cb}_L={ls}_D={natsStr (sortNat gone)}_N={natsStr (sortNat s.snLog)}_P={ps}_T={tb}"

/-- everything the future can depend on (memo key together with the program counters) -/
def fullKey (q : Par) (s : St) : String :=
  let regs := ";".intercalate (q.ids.map (fun o => natsStr ((List.range 14).map (s.reg o)) ++ "/" ++ natsStr (s.regL o) ++ "/" ++
    (if s.tStarted o then "s" else "") ++ (if s.tCancelled o then "c" else "")))
  let perD := ";".intercalate (q.dests.map (fun d => s!"{if s.loct d then 1 else 0}/{natsStr (s.lsFlight d)}/{match s.lsTimer d with | some t => toString t | none => "-"}"))
  let perK := ";".intercalate (q.keys.map (fun k => s!"{s.cbfTok k}/{s.cbfPend k}"))
  let perA := ";".intercalate ((q.srcs ++ q.dests).map (fun a => s!"{if s.loct a then 1 else 0}/{s.eid a}/{if s.pending a then 1 else 0}"))
  let perE := ";".intercalate ((List.range s.eNext).map (fun i => s!"{if s.ePV (i + 1) then 1 else 0}/{natsStr (s.eDpl (i + 1))}"))
  s!"{obs q s}#{s.sn}#{s.ego}#{regs}#{perD}#{perK}#{perA}#{perE}"

/-- search state: the `Conc/Sched` system plus the tagged remainder of every thread's program -/
structure XS where
  sys : Sys St
  tp : List (List TI)

def guardFalse (s : St) : TI → Bool
  | .gblk o slot v _ => s.reg o slot != v
  | .nop => true
  | _ => false

/-- drop `n` instructions of thread `t` without executing them (they are invisible no-ops) -/
def dropN (x : XS) (t n : Nat) : XS :=
  match x.sys.thr[t]? with
  | none => x
  | some th =>
    { sys := { x.sys with thr := x.sys.thr.set t { th with prog := th.prog.drop n } },
      tp := x.tp.set t ((x.tp[t]?.getD []).drop n) }

def step1 (x : XS) (t : Nat) : Option XS :=
  (step x.sys t).map (fun s' => { sys := s', tp := x.tp.set t ((x.tp[t]?.getD []).drop 1) })

/-- macro step of thread `t`: invisible steps (`loc`, `nop`, blocks and whole sections whose register guard is
false) are fused with the visible block they surround; the step ends before the next visible block/section.
`none` when the thread is finished or blocked before doing anything visible. -/
partial def macroStep (x : XS) (t : ThreadId) : Option XS :=
  let rec go (x : XS) (vis : Bool) (moved : Bool) : Option XS :=
    match x.tp[t]?.getD [] with
    | [] => if moved then some x else none
    | .acq _ :: i :: .rel _ :: _ =>
      if guardFalse x.sys.sh i then go (dropN x t 3) vis true
      else if vis then some x
      else match step1 x t with
        | some x' => go x' vis true
        | none => none
    | .acq _ :: _ =>
      if vis then some x
      else match step1 x t with
        | some x' => go x' vis true
        | none => none
    | .rel _ :: _ => match step1 x t with
        | some x' => go x' vis true
        | none => some x
    | .loc _ :: _ => match step1 x t with
        | some x' => go x' vis true
        | none => some x
    | i :: _ =>
      if guardFalse x.sys.sh i then go (dropN x t 1) vis true
      else if vis then some x
      else match step1 x t with
        | some x' => go x' true true
        | none => none
  go x false false

def sysKey (q : Par) (s : Sys St) : String :=
  fullKey q s.sh ++ "@" ++ natsStr (s.thr.map (·.prog.length)) ++ "@" ++
    ";".intercalate (s.thr.map (fun th => natsStr th.held))

partial def explore (q : Par) (x : XS)
    (seen : Std.HashSet String) (outs : Std.HashSet String) : Std.HashSet String × Std.HashSet String :=
  let k := sysKey q x.sys
  if seen.contains k then (seen, outs) else
  let seen := seen.insert k
  if finished x.sys then (seen, outs.insert (obs q x.sys.sh)) else
  let n := x.sys.thr.length
  let succs := (List.range n).filterMap (macroStep x)
  if succs.isEmpty then (seen, outs.insert "DEADLOCK") else
  succs.foldl (fun (acc : Std.HashSet String × Std.HashSet String) x' => explore q x' acc.1 acc.2) (seen, outs)

def dedup (xs : List Nat) : List Nat := xs.foldl (fun acc x => if acc.contains x then acc else acc ++ [x]) []

def dedupP (xs : List (Nat × Nat)) : List (Nat × Nat) := xs.foldl (fun acc x => if acc.contains x then acc else acc ++ [x]) []

/-- tokens of the `init` segment -/
inductive InitTok where
  | warm (a k : Nat)      -- the source `a` is known before the run (a GBC with SN `k` was received: entry with PV and DPL [k])
  | sn0 (v : Nat)         -- `router.sequence_number = v`
  | op (op : Op)          -- an operation executed sequentially before the threads start

def parseInit (t : String) : Option InitTok :=
  match t.splitOn ":" with
  | ["warm", a, k] => do some (.warm (← nat? a) (← nat? k))
  | ["sn0", v] => (nat? v).map .sn0
  | _ => (parseOp t).map .op

def applyInit (s : St) : InitTok → St
  | .warm a k =>
    let t := locTRefresh [] (rxRecv true 0 a k (locTRefresh [] s))
    -- the ghost acceptance lists only count receptions of the run itself
    { t with srcPass := fun _ => [], srcLives := fun _ => [] }
  | .sn0 v => { s with sn := v }
  | .op op =>
    let prog := threadProg [op]
    (run { sh := s, thr := [{ prog := prog, held := [] }] } (List.replicate prog.length 0)).sh

def initOps : InitTok → List Op
  | .op op => [op]
  | _ => []
def initSrcs : InitTok → List Nat
  | .warm a _ => [a]
  | _ => []

def exploreLine (ts : List String) : String :=
  let segs := splitThreads ts
  let (initToks, segs) : Option (List InitTok) × List (List String) := match segs with
    | ("init" :: rest) :: more => (rest.mapM parseInit, more)
    | _ => (some [], segs)
  match initToks, segs.mapM (fun th => th.mapM parseOp) with
  | some inits, some threads =>
    let ops := threads.flatten ++ inits.flatMap initOps
    let q : Par := {
      keys := sortNat (dedup (ops.flatMap opKeys)), dests := sortNat (dedup (ops.flatMap opDests)),
      ids := sortNat (dedup (ops.flatMap opIds)), reqs := sortNat (dedup (ops.flatMap opReqs)),
      srcs := sortNat (dedup (ops.flatMap opSrcs ++ inits.flatMap initSrcs)),
      rx := (dedupP (ops.flatMap opRx)).toArray.qsort (fun x y => x.1 < y.1 || (x.1 == y.1 && x.2 < y.2)) |>.toList }
    let s0 : St := inits.foldl applyInit {}
    let x0 : XS := { sys := { sys threads with sh := s0 }, tp := threads.map (fun ops => (ops.map compileT).flatten) }
    let (_, outs) := explore q x0 {} {}
    let l := (outs.toList.toArray.qsort (· < ·)).toList
    "|".intercalate l
  | _, _ => "bad-op"

def routerStep (_ : Unit) (t : List String) : Unit × String :=
  match t with
  | "explore" :: rest => ((), exploreLine rest)
  | _ => ((), "bad-op")

def routerConcDomain : Domain := { σ := Unit, init := (), step := routerStep }

end FlexModel.Conc.Router

/-
C15 — instantiation of the reduction theorem (`Conc/Reduction`, `design_notes/REDUCTION.md`) for the router and the
location table: "a `with lock:` section is ONE atomic block" derived, not assumed, at the level of ATTRIBUTE ACCESSES.

The instruction-level model is generated from the facts of `Generated/Locks.lean`: a thread calls a list of functions
(`Fn`); a function is its `blocks f` – the `with self.<lock>` sections and the unlocked accesses in source order – and
every recorded access to a lock-guarded shared attribute is ONE micro-step:
  read  X    `reg_t[i] := X`
  write X    `X := e(reg_t[0..R))`                 (`e` = `sem f i`: ANY function of the thread's registers)
  rmw   X    `X := e(X, reg_t[0..R))`
(registers are thread-local; which value a micro-step computes is a parameter – the theorem holds for every `sem`).
State: `Var → Nat` with `Var = sh (a : At) | loc t i`.  Lock map: `guardOf` (the attributes of theorem
`RouterConc.guarded`); accesses to attributes WITHOUT a guarding lock (ego position vector: single-store section with
unlocked readers; fields of LocTE objects reached through a local variable; LDM attributes, C16) are not part of the
access-level programs – for them the one-block modelling of `RouterConc` stays an assumption.

`sections_checked` (by `decide` over every function of `Generated.Locks.allFns`) is the only fact about the source:
every access to a guarded attribute sits in a section holding its lock, and sections are nested at most two deep.  From it:
`lockCheck` passes for every thread of every thread list (`thr_lockCheck`), every micro-step is framed
(`thr_framed`), hence `Protected` ⇒ `Discipline` (`access_discipline`) and `Reduction.block_model_sound` applies.
-/
import FlexModel.Conc.Reduction
import Generated.Locks

namespace FlexModel.Conc.Router.Red
open FlexModel.Conc FlexModel.Conc.Reduction Generated.Locks

/-- number of thread-local registers a micro-step may read -/
def R : Nat := 8

inductive Var where
  | sh (a : At)
  | loc (t : ThreadId) (i : Nat)
  deriving DecidableEq

/-- the lock guarding an attribute (`RouterConc.guarded`: every access to it, in every function, holds that lock) -/
def guardOf : At → Option Lk
  | .Router_sequence_number => some .Router_sequence_number_lock
  | .Router__cbf_buffer => some .Router__cbf_lock
  | .Router__ls_timers => some .Router__ls_lock
  | .Router__ls_packet_buffers => some .Router__ls_lock
  | .Router__ls_retransmit_counters => some .Router__ls_lock
  | .ext_ls_pending => some .Router__ls_lock
  | .LocationTable_loc_t => some .LocationTable_loc_t_lock
  | .LocationTableEntry_dpl_set => some .LocationTableEntry_dpl_lock
  | .LocationTableEntry_dpl_deque => some .LocationTableEntry_dpl_lock
  | _ => none

/-- numbering of the locks of the source (injective) -/
def lkNum : Lk → Lock
  | .DictionaryDataBase__lock => 0
  | .LDMMaintenanceReactive_lock => 1
  | .LDMMaintenanceThread_data_containers_lock => 2
  | .LDMServiceReactive_lock => 3
  | .LDMServiceThreads_data_containers_lock => 4
  | .LDMService__lock => 5
  | .LocationTableEntry_dpl_lock => 6
  | .LocationTableEntry_pdr_lock => 7
  | .LocationTableEntry_position_vector_lock => 8
  | .LocationTableEntry_tst_lock => 9
  | .LocationTable_loc_t_lock => 10
  | .Router__cbf_lock => 11
  | .Router__ls_lock => 12
  | .Router_ego_position_vector_lock => 13
  | .Router_sequence_number_lock => 14

theorem lkNum_inj (a b : Lk) (h : lkNum a = lkNum b) : a = b := by
  cases a <;> cases b <;> first | rfl | (simp [lkNum] at h)

def prot : Var → Guard
  | .sh a => match guardOf a with
    | some l => .lock (lkNum l)
    | none => .frozen
  | .loc t _ => .loc t

/-- what the `i`-th access of function `f` writes: any function of the values it reads -/
abbrev Sem := Fn → Nat → List Nat → Nat

def regs (t : ThreadId) : List Var := (List.range R).map (Var.loc t)

/-- the micro-step of one recorded access -/
def mbOf (sem : Sem) (t : ThreadId) (f : Fn) (i : Nat) (a : At) : Kd → MB Var Nat
  | .read => MB.assign (.loc t (i % R)) [.sh a] (fun s => s (.sh a))
  | .write => MB.assign (.sh a) (regs t) (fun s => sem f i ((regs t).map s))
  | .rmw => MB.assign (.sh a) (.sh a :: regs t) (fun s => sem f i (s (.sh a) :: (regs t).map s))

/-- the micro-steps of the accesses of one section (attributes without guarding lock are skipped) -/
def mbs (sem : Sem) (t : ThreadId) (f : Fn) : Nat → List (At × Kd) → List (AInstr Var Nat)
  | _, [] => []
  | i, (a, k) :: r =>
    (if (guardOf a).isSome then [AInstr.blk (mbOf sem t f i a k)] else []) ++ mbs sem t f (i + 1) r

/-- one entry of `blocks f`: a `with self.<lock>` section (`acq`, micro-steps, `rel`), a section lexically nested in
another one (`with a: … with b: …` – the entry of the inner section carries both locks: both are taken, outermost first;
the outer section is listed in pieces around it, i.e. modelled as consecutive sections – finer than the code, so the
atomicity derived for it is the weaker claim) or unlocked accesses -/
def sectA (sem : Sem) (t : ThreadId) (f : Fn) (j : Nat) (b : List Lk × List (At × Kd)) : List (AInstr Var Nat) :=
  match b.1 with
  | [] => mbs sem t f (16 * j) b.2
  | [l] => AInstr.acq (lkNum l) :: (mbs sem t f (16 * j) b.2 ++ [AInstr.rel (lkNum l)])
  | l :: l' :: _ =>
    AInstr.acq (lkNum l) :: AInstr.acq (lkNum l') :: (mbs sem t f (16 * j) b.2 ++ [AInstr.rel (lkNum l'), AInstr.rel (lkNum l)])

def sectsA (sem : Sem) (t : ThreadId) (f : Fn) : Nat → List (List Lk × List (At × Kd)) → List (AInstr Var Nat)
  | _, [] => []
  | j, b :: r => sectA sem t f j b ++ sectsA sem t f (j + 1) r

/-- the access-level program of one call of `f` by thread `t` -/
def fnA (sem : Sem) (t : ThreadId) (f : Fn) : List (AInstr Var Nat) := sectsA sem t f 0 (blocks f)

/-- a thread calls functions one after the other -/
def thrA (sem : Sem) (t : ThreadId) : List Fn → List (AInstr Var Nat)
  | [] => []
  | f :: r => fnA sem t f ++ thrA sem t r

/-- the instruction-level system: one thread per call list -/
def aprogs (sem : Sem) (threads : List (List Fn)) : List (List (AInstr Var Nat)) :=
  threads.mapIdx (fun t calls => thrA sem t calls)

def fineProgs (sem : Sem) (threads : List (List Fn)) : List (List (Instr (Var → Nat))) :=
  (aprogs sem threads).map eraseProg

/-- the block model: every run of micro-steps inside a section fused into one block -/
def blockProgs (sem : Sem) (threads : List (List Fn)) : List (List (Instr (Var → Nat))) :=
  (fineProgs sem threads).map fuse

/-! ## the fact about the source -/

/-- every access of the section to a guarded attribute holds the guarding lock; the section holds at most two locks -/
def secOK (b : List Lk × List (At × Kd)) : Bool :=
  decide (b.1.length ≤ 2) && b.2.all (fun ak => match guardOf ak.1 with
    | some l => b.1.contains l
    | none => true)

/-- **the lock map holds in the source** (regenerated on every run): in every function every access to a guarded
attribute sits lexically inside a `with` section of the guarding lock, and sections are nested at most two deep -/
theorem sections_checked : allFns.all (fun f => (blocks f).all secOK) = true := by decide +kernel

/-- the functions of the generated table (every constructor of `Fn` is listed) -/
theorem allFns_complete (f : Fn) : f ∈ allFns := by cases f <;> decide

theorem fn_checked (f : Fn) : (blocks f).all secOK = true :=
  List.all_eq_true.mp sections_checked f (allFns_complete f)

/-! ## lockCheck -/

theorem allowedB_mbOf (sem : Sem) (t : ThreadId) (H : List Lock) (f : Fn) (i : Nat) (a : At) (k : Kd) (l : Lk)
    (hg : guardOf a = some l) (hH : H.contains (lkNum l) = true) : allowedB prot t H (mbOf sem t f i a k) = true := by
  have hH' : lkNum l ∈ H := by simpa using hH
  have hregs : ∀ v ∈ regs t, prot v = .loc t := by
    intro v hv
    simp only [regs, List.mem_map] at hv
    obtain ⟨_, _, rfl⟩ := hv
    rfl
  unfold allowedB
  rw [List.all_eq_true]
  intro v hv
  cases k with
  | read =>
    simp only [mbOf, MB.assign, List.mem_append, List.mem_cons, List.not_mem_nil, or_false] at hv
    rcases hv with rfl | rfl
    · simp [prot, hg, hH']
    · simp [prot]
  | write =>
    simp only [mbOf, MB.assign, List.mem_append, List.mem_cons, List.not_mem_nil, or_false] at hv
    rcases hv with hv | rfl
    · rw [hregs v hv]; simp
    · simp [prot, hg, hH']
  | rmw =>
    simp only [mbOf, MB.assign, List.mem_append, List.mem_cons, List.not_mem_nil, or_false] at hv
    rcases hv with (rfl | hv) | rfl
    · simp [prot, hg, hH']
    · rw [hregs v hv]; simp
    · simp [prot, hg, hH']

theorem lockCheck_append_blks (t : ThreadId) (H : List Lock) (p q : List (AInstr Var Nat))
    (hp : ∀ i ∈ p, ∃ m, i = AInstr.blk m ∧ allowedB prot t H m = true) :
    lockCheck prot t H (p ++ q) = lockCheck prot t H q := by
  induction p with
  | nil => rfl
  | cons i p ih =>
    obtain ⟨m, rfl, hm⟩ := hp i (by simp)
    simp only [List.cons_append, lockCheck, hm, Bool.true_and]
    exact ih (fun j hj => hp j (List.mem_cons_of_mem _ hj))

theorem mbs_allowed (sem : Sem) (t : ThreadId) (f : Fn) (H : List Lock) (accs : List (At × Kd)) (i : Nat)
    (h : ∀ ak ∈ accs, ∀ l, guardOf ak.1 = some l → H.contains (lkNum l) = true) :
    ∀ x ∈ mbs sem t f i accs, ∃ m, x = AInstr.blk m ∧ allowedB prot t H m = true := by
  induction accs generalizing i with
  | nil => intro x hx; simp [mbs] at hx
  | cons ak r ih =>
    obtain ⟨a, k⟩ := ak
    intro x hx
    simp only [mbs, List.mem_append] at hx
    rcases hx with hx | hx
    · cases hg : guardOf a with
      | none => simp [hg] at hx
      | some l =>
        simp only [hg, Option.isSome_some, if_true, List.mem_cons, List.not_mem_nil, or_false] at hx
        subst hx
        exact ⟨_, rfl, allowedB_mbOf sem t H f i a k l hg (h (a, k) (by simp) l hg)⟩
    · exact ih (i + 1) (fun ak hak => h ak (List.mem_cons_of_mem _ hak)) x hx

theorem sectA_check (sem : Sem) (t : ThreadId) (f : Fn) (j : Nat) (b : List Lk × List (At × Kd)) (hb : secOK b = true)
    (q : List (AInstr Var Nat)) : lockCheck prot t [] (sectA sem t f j b ++ q) = lockCheck prot t [] q := by
  obtain ⟨locks, accs⟩ := b
  simp only [secOK, Bool.and_eq_true, decide_eq_true_eq, List.all_eq_true] at hb
  obtain ⟨hlen, hacc⟩ := hb
  match locks, hlen, hacc with
  | [], _, hacc =>
    simp only [sectA]
    apply lockCheck_append_blks
    apply mbs_allowed
    intro ak hak l hg
    have := hacc ak hak
    simp [hg] at this
  | [l0], _, hacc =>
    simp only [sectA, List.cons_append, lockCheck, List.append_assoc]
    rw [lockCheck_append_blks t [lkNum l0] _ _ ?_]
    · simp [lockCheck]
    · apply mbs_allowed
      intro ak hak l hg
      have := hacc ak hak
      simp only [hg, List.contains_cons, List.contains_nil, Bool.or_false, beq_iff_eq] at this
      subst this
      simp
  | [l0, l1], _, hacc =>
    simp only [sectA, List.cons_append, lockCheck, List.append_assoc]
    rw [lockCheck_append_blks t [lkNum l1, lkNum l0] _ _ ?_]
    · simp [lockCheck]
    · apply mbs_allowed
      intro ak hak l hg
      have := hacc ak hak
      simp only [hg, List.contains_cons, List.contains_nil, Bool.or_false, Bool.or_eq_true, beq_iff_eq] at this
      rcases this with rfl | rfl <;> simp

theorem sectsA_check (sem : Sem) (t : ThreadId) (f : Fn) (j : Nat) (bs : List (List Lk × List (At × Kd)))
    (hb : bs.all secOK = true) (q : List (AInstr Var Nat)) :
    lockCheck prot t [] (sectsA sem t f j bs ++ q) = lockCheck prot t [] q := by
  induction bs generalizing j with
  | nil => rfl
  | cons b r ih =>
    simp only [List.all_cons, Bool.and_eq_true] at hb
    simp only [sectsA, List.append_assoc]
    rw [sectA_check sem t f j b hb.1]
    exact ih (j + 1) hb.2

/-- every thread of every thread list passes the lock-map check -/
theorem thr_lockCheck (sem : Sem) (t : ThreadId) (calls : List Fn) : lockCheck prot t [] (thrA sem t calls) = true := by
  induction calls with
  | nil => rfl
  | cons f r ih =>
    simp only [thrA, fnA]
    rw [sectsA_check sem t f 0 (blocks f) (fn_checked f)]
    exact ih

/-! ## framedness -/

theorem map_congr_regs (t : ThreadId) (s s' : Var → Nat) (h : ∀ w ∈ regs t, s w = s' w) :
    (regs t).map s = (regs t).map s' := List.map_congr_left h

theorem mbOf_framed (sem : Sem) (t : ThreadId) (f : Fn) (i : Nat) (a : At) (k : Kd) : (mbOf sem t f i a k).Framed := by
  cases k with
  | read =>
    exact framed_assign _ _ _ (fun s s' h => h _ (by simp))
  | write =>
    exact framed_assign _ _ _ (fun s s' h => by rw [map_congr_regs t s s' h])
  | rmw =>
    refine framed_assign _ _ _ (fun s s' h => ?_)
    have h1 : s (.sh a) = s' (.sh a) := h _ (by simp)
    have h2 := map_congr_regs t s s' (fun w hw => h w (List.mem_cons_of_mem _ hw))
    show sem f i (s (.sh a) :: (regs t).map s) = sem f i (s' (.sh a) :: (regs t).map s')
    rw [h1, h2]

theorem mbs_blk (sem : Sem) (t : ThreadId) (f : Fn) (accs : List (At × Kd)) (i : Nat) (m : MB Var Nat)
    (h : AInstr.blk m ∈ mbs sem t f i accs) : ∃ i' a k, m = mbOf sem t f i' a k := by
  induction accs generalizing i with
  | nil => simp [mbs] at h
  | cons ak r ih =>
    obtain ⟨a, k⟩ := ak
    simp only [mbs, List.mem_append] at h
    rcases h with h | h
    · split at h
      · simp only [List.mem_cons, List.not_mem_nil, or_false, AInstr.blk.injEq] at h
        exact ⟨i, a, k, h⟩
      · cases h
    · exact ih (i + 1) h

theorem sectsA_blk (sem : Sem) (t : ThreadId) (f : Fn) (bs : List (List Lk × List (At × Kd))) (j : Nat) (m : MB Var Nat)
    (h : AInstr.blk m ∈ sectsA sem t f j bs) : ∃ i' a k, m = mbOf sem t f i' a k := by
  induction bs generalizing j with
  | nil => simp [sectsA] at h
  | cons b r ih =>
    simp only [sectsA, List.mem_append] at h
    rcases h with h | h
    · obtain ⟨locks, accs⟩ := b
      match locks, h with
      | [], h => exact mbs_blk sem t f accs _ m h
      | [_], h =>
        simp only [sectA, List.mem_cons, List.mem_append, List.not_mem_nil, or_false, reduceCtorEq, false_or] at h
        exact mbs_blk sem t f accs _ m h
      | _ :: _ :: _, h =>
        simp only [sectA, List.mem_cons, List.mem_append, List.not_mem_nil, or_false, reduceCtorEq, false_or] at h
        exact mbs_blk sem t f accs _ m h
    · exact ih (j + 1) h

theorem thr_framed (sem : Sem) (t : ThreadId) (calls : List Fn) : AllFramed (thrA sem t calls) := by
  induction calls with
  | nil => intro m hm; simp [thrA] at hm
  | cons f r ih =>
    intro m hm
    simp only [thrA, List.mem_append] at hm
    rcases hm with hm | hm
    · obtain ⟨i, a, k, rfl⟩ := sectsA_blk sem t f (blocks f) 0 m hm
      exact mbOf_framed sem t f i a k
    · exact ih m hm

/-! ## the discipline -/

theorem access_protected (sem : Sem) (threads : List (List Fn)) : Protected prot (fineProgs sem threads) := by
  apply protected_of_check prot (aprogs sem threads)
  · intro t p hp
    simp only [aprogs, List.getElem?_mapIdx, Option.map_eq_some_iff] at hp
    obtain ⟨calls, _, rfl⟩ := hp
    exact thr_lockCheck sem t calls
  · intro p hp
    simp only [aprogs, List.mem_mapIdx] at hp
    obtain ⟨t, _, rfl⟩ := hp
    exact thr_framed sem t _

/-- the commutation discipline of the reduction theorem holds for the access-level programs of EVERY thread list -/
theorem access_discipline (sem : Sem) (threads : List (List Fn)) : Discipline (fineProgs sem threads) :=
  discipline_of_protected prot _ (access_protected sem threads)

end FlexModel.Conc.Router.Red

/-
Adaptive DCC / LIMERIC (flexstack/management/dcc_adaptive.py: DccAdaptive.update), over exact rationals.
The Python code computes in IEEE doubles; the harness compares with a relative tolerance (see harness/props/c19.py).
-/
namespace FlexModel.Dcc

structure Params where
  alpha : Rat
  beta : Rat
  cbrTarget : Rat
  deltaMax : Rat
  deltaMin : Rat
  deltaUpMax : Rat
  deltaDownMax : Rat
  deriving DecidableEq, Repr

structure AState where
  cbrItsS : Rat
  delta : Rat
  deriving DecidableEq, Repr

/-- `__post_init__`: `cbr_its_s = 0.0`, `delta = parameters.delta_min` -/
def AState.init (p : Params) : AState := ⟨0, p.deltaMin⟩

inductive AErr where
  | local        -- ValueError("cbr_local must be in [0.0, 1.0] …")
  | localPrev    -- ValueError("cbr_local_previous must be in …")
  deriving DecidableEq, Repr

/-- `not 0.0 <= val <= 1.0` -/
def outsideUnit (v : Rat) : Bool := !(0 ≤ v ∧ v ≤ 1)

/-- `DccAdaptive.update`; the checks come first, so a rejected call leaves the state untouched -/
def aUpdate (p : Params) (s : AState) (l lp : Rat) (g gp : Option Rat) : Except AErr AState :=
  if outsideUnit l then .error .local
  else if outsideUnit lp then .error .localPrev
  else
    let cbrAvg := match g, gp with
      | some g, some gp => (g + gp) / 2
      | _, _ => (l + lp) / 2
    let its := (1/2 : Rat) * s.cbrItsS + (1/2 : Rat) * cbrAvg
    let diff := p.cbrTarget - its
    let off := if diff > 0 then min (p.beta * diff) p.deltaUpMax else max (p.beta * diff) p.deltaDownMax
    let d := (1 - p.alpha) * s.delta + off
    let d := if d > p.deltaMax then p.deltaMax else d
    let d := if d < p.deltaMin then p.deltaMin else d
    .ok ⟨its, d⟩

structure AIn where
  l : Rat
  lp : Rat
  g : Option Rat
  gp : Option Rat

/-- state after one call, rejected calls keep the state -/
def aStep (p : Params) (s : AState) (i : AIn) : AState :=
  match aUpdate p s i.l i.lp i.g i.gp with
  | .ok s' => s'
  | .error _ => s

/-- values returned by the successful calls of a history -/
def aReturns (p : Params) : AState → List AIn → List Rat
  | _, [] => []
  | s, i :: is =>
    match aUpdate p s i.l i.lp i.g i.gp with
    | .ok s' => s'.delta :: aReturns p s' is
    | .error _ => aReturns p s is

end FlexModel.Dcc

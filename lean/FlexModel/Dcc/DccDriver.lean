import FlexModel.Proto
import FlexModel.Dcc.Reactive
import FlexModel.Dcc.Adaptive
import FlexModel.Dcc.Gate
import FlexModel.Dcc.Spec
/-
Line protocol of the DCC models (domain `Dcc`).  Rationals are written `n/d` (or `n`), absent values `-`.
  r new <t_on_max_us> | r set <state> | r upd <cbr1e-4> | r tgt <a2> <cbr> | r band <a2> <cbr>
  r spec <a2> <s0> <cbr:state:rate:toff>…            (Spec.reactiveHolds on a trace recorded from the real code)
  a new <alpha> <beta> <target> <dmax> <dmin> <up> <down> | a set <its> <delta> | a upd <l> <lp> <g|-> <gp|->
  g new <delta> | g set <delta> <tpg|-> <tgo|-> | g open <t> | g adm <t> <ton> | g upd <t> <dnew>
-/
namespace FlexModel.Dcc
open FlexModel.Proto

def rat? (s : String) : Option Rat :=
  match s.splitOn "/" with
  | [n] => n.toInt?.map (fun n => (n : Rat))
  | [n, d] => match n.toInt?, d.toNat? with
    | some n, some d => if d = 0 then none else some (mkRat n d)
    | _, _ => none
  | _ => none

def orat? (s : String) : Option (Option Rat) := if s = "-" then some none else (rat? s).map some

def showRat (q : Rat) : String := s!"{q.num}/{q.den}"
def showORat : Option Rat → String
  | none => "-"
  | some q => showRat q

structure DState where
  a2 : Bool := false
  rs : Nat := 0
  p : Params := ⟨0, 0, 0, 0, 0, 0, 0⟩
  as : AState := ⟨0, 0⟩
  g : GState := ⟨1, none, none⟩

def showG (c : GCfg) (s : GState) (t : Rat) : String :=
  let m := match s.tgo with
    | none => "-"
    | some b => showRat (t - (b - c.eps))
  s!"{showRat s.delta} {showORat s.tpg} {showORat s.tgo} {m}"

def rev? (s : String) : Option Spec.REv :=
  match s.splitOn ":" with
  | [c, st, r, t] => match c.toInt?, st.toNat?, r.toNat?, t.toNat? with
    | some c, some st, some r, some t => some ⟨c, st, r, t⟩
    | _, _, _, _ => none
  | _ => none

def bool? : String → Option Bool
  | "0" => some false | "1" => some true | _ => none

def dccStep (s : DState) (t : List String) : DState × String :=
  match t with
  | ["r", "new", v] =>
    match int? v with
    | some v => ({ s with a2 := useA2 v, rs := 0 }, s!"ok {if useA2 v then 1 else 0}")
    | none => (s, "bad-op")
  | ["r", "set", v] =>
    match nat? v with
    | some v => ({ s with rs := v }, "ok")
    | none => (s, "bad-op")
  | ["r", "upd", c] =>
    match int? c with
    | some c =>
      let (s', o) := update (codeTable s.a2) s.rs c
      ({ s with rs := s' }, match o with
        | .ok st r tf => s!"ok {st} {r} {tf}"
        | .valueError => "ValueError"
        | .keyError => "KeyError")
    | none => (s, "bad-op")
  | ["r", "tgt", a, c] =>
    match bool? a, int? c with
    | some a, some c => (s, toString (target (codeTable a) c))
    | _, _ => (s, "bad-op")
  | ["r", "band", a, c] =>
    match bool? a, int? c with
    | some a, some c => (s, toString (Spec.band (Spec.annex a) c))
    | _, _ => (s, "bad-op")
  | "r" :: "spec" :: a :: s0 :: evs =>
    match bool? a, nat? s0, evs.mapM rev? with
    | some a, some s0, some evs => (s, if Spec.reactiveHolds (Spec.annex a) s0 evs then "1" else "0")
    | _, _, _ => (s, "bad-op")
  | ["a", "new", a, b, c, d, e, f, g] =>
    match rat? a, rat? b, rat? c, rat? d, rat? e, rat? f, rat? g with
    | some a, some b, some c, some d, some e, some f, some g =>
      let p : Params := ⟨a, b, c, d, e, f, g⟩
      ({ s with p := p, as := AState.init p }, s!"ok {showRat (AState.init p).cbrItsS} {showRat (AState.init p).delta}")
    | _, _, _, _, _, _, _ => (s, "bad-op")
  | ["a", "set", i, d] =>
    match rat? i, rat? d with
    | some i, some d => ({ s with as := ⟨i, d⟩ }, "ok")
    | _, _ => (s, "bad-op")
  | ["a", "upd", l, lp, g, gp] =>
    match rat? l, rat? lp, orat? g, orat? gp with
    | some l, some lp, some g, some gp =>
      match aUpdate s.p s.as l lp g gp with
      | .ok s' => ({ s with as := s' }, s!"ok {showRat s'.cbrItsS} {showRat s'.delta} {showRat (s.p.cbrTarget - s'.cbrItsS)}")
      | .error .local => (s, "ValueError:cbr_local")
      | .error .localPrev => (s, "ValueError:cbr_local_previous")
    | _, _, _, _ => (s, "bad-op")
  | ["g", "new", d] =>
    match rat? d with
    | some d => ({ s with g := GState.init d }, "ok")
    | none => (s, "bad-op")
  | ["g", "set", d, a, b] =>
    match rat? d, orat? a, orat? b with
    | some d, some a, some b => ({ s with g := ⟨d, a, b⟩ }, "ok")
    | _, _, _ => (s, "bad-op")
  | ["g", "open", t] =>
    match rat? t with
    | some t => (s, s!"{if isOpen codeCfg s.g t then 1 else 0} {showG codeCfg s.g t}")
    | none => (s, "bad-op")
  | ["g", "adm", t, ton] =>
    match rat? t, rat? ton with
    | some t, some ton =>
      let (g', r) := admitPkt codeCfg s.g t ton
      let rs := match r with
        | .admitted => "admitted" | .rejected => "rejected" | .valueError => "ValueError"
        | .zeroDiv => "ZeroDivisionError" | .done => "done"
      ({ s with g := g' }, s!"{rs} {showG codeCfg s.g t} {showRat g'.delta} {showORat g'.tpg} {showORat g'.tgo}")
    | _, _ => (s, "bad-op")
  | ["g", "upd", t, d] =>
    match rat? t, rat? d with
    | some t, some d =>
      let (g', r) := updDelta codeCfg s.g t d
      let rs := match r with
        | .valueError => "ValueError" | _ => "done"
      ({ s with g := g' }, s!"{rs} {showG codeCfg s.g t} {showRat g'.delta} {showORat g'.tpg} {showORat g'.tgo}")
    | _, _ => (s, "bad-op")
  | _ => (s, "bad-op")

def dccDomain : Domain := { σ := DState, init := {}, step := dccStep }

end FlexModel.Dcc

/-
Reactive DCC (flexstack/management/dcc_reactive.py), model of the code as it exists.
Units: CBR in 1e-4 (`Int`, so that negative and >1 inputs exist and are rejected), packet rate in mHz, T_off in ms.
A Python float `x` is abstracted by the harness to the cell `k` with `k/10000 ≤ x < (k+1)/10000` (`k` itself when
`x` is the double of `k/10000`); every comparison of the code is against a grid value, so the abstraction is exact.
-/
import Generated.Dcc

namespace FlexModel.Dcc

/-- one `DccStateConfig` together with its key (enum value of the `DccState`) -/
structure Row where
  state : Nat
  cbrMin : Int
  cbrMax : Int
  rate : Nat
  tOff : Nat
  deriving DecidableEq, Repr

abbrev Table := List Row

def Row.ofRaw : Nat × Int × Int × Nat × Nat → Row
  | (s, lo, hi, r, t) => ⟨s, lo, hi, r, t⟩

/-- `_TABLE_A1` as generated from the source -/
def codeA1 : Table := Generated.Dcc.tableA1.map Row.ofRaw
/-- `_TABLE_A2` as generated from the source -/
def codeA2 : Table := Generated.Dcc.tableA2.map Row.ofRaw

/-- `DccReactive.__init__`: `_TABLE_A2 if t_on_max_us <= 500 else _TABLE_A1` -/
def useA2 (tOnMaxUs : Int) : Bool := tOnMaxUs ≤ 500

def codeTable (a2 : Bool) : Table := if a2 then codeA2 else codeA1

/-- `_TABLE_A1` with the bands of TS 102 687 Table A.1 (Active 3 up to 65 %): the repaired variant -/
def stdA1 : Table := [⟨0, 0, 3000, 10000, 100⟩, ⟨1, 3000, 4000, 5000, 200⟩, ⟨2, 4000, 5000, 2500, 400⟩,
  ⟨3, 5000, 6500, 2000, 500⟩, ⟨4, 6500, 10100, 1000, 1000⟩]

/-- `_TABLE_A1` as the repository has it (Active 3 / Restrictive edge at 60 %): known finding C19-KF2 -/
def knownA1 : Table := [⟨0, 0, 3000, 10000, 100⟩, ⟨1, 3000, 4000, 5000, 200⟩, ⟨2, 4000, 5000, 2500, 400⟩,
  ⟨3, 5000, 6000, 2000, 500⟩, ⟨4, 6000, 10100, 1000, 1000⟩]

/-- `_target_state`: first row (dict order) whose band contains `cbr`, else RESTRICTIVE (4) -/
def target : Table → Int → Nat
  | [], _ => 4
  | r :: rs, cbr => if r.cbrMin ≤ cbr ∧ cbr < r.cbrMax then r.state else target rs cbr

/-- the single-step move of `update` on indices of `_STATE_ORDER` -/
def stepIdx (cur tgt : Nat) : Nat :=
  if tgt > cur then cur + 1 else if tgt < cur then cur - 1 else cur

/-- `self._table[self.state]` -/
def lookup (tbl : Table) (s : Nat) : Option Row := tbl.find? (fun r => r.state == s)

inductive ROut where
  | ok (state rate tOff : Nat)
  | valueError
  | keyError
  deriving DecidableEq, Repr

/-- `DccReactive.update` (state = index in `_STATE_ORDER` = enum value; obligation `stateOrder = [0,1,2,3,4]`) -/
def update (tbl : Table) (s : Nat) (cbr : Int) : Nat × ROut :=
  if cbr < 0 ∨ 10000 < cbr then (s, .valueError)
  else
    let s' := stepIdx s (target tbl cbr)
    match lookup tbl s' with
    | some r => (s', .ok s' r.rate r.tOff)
    | none => (s', .keyError)

/-- states visited by a sequence of evaluations (rejected inputs leave the state unchanged) -/
def states (tbl : Table) : Nat → List Int → List Nat
  | _, [] => []
  | s, c :: cs => (update tbl s c).1 :: states tbl (update tbl s c).1 cs

def outs (tbl : Table) : Nat → List Int → List ROut
  | _, [] => []
  | s, c :: cs => (update tbl s c).2 :: outs tbl (update tbl s c).1 cs

def run (tbl : Table) (s : Nat) (cs : List Int) : Nat := cs.foldl (fun s c => (update tbl s c).1) s

end FlexModel.Dcc

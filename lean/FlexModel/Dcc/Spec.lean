/-
Independent specification for C19, transcribed from ETSI TS 102 687 V1.2.1 (2018-04):
Annex A tables A.1/A.2 (reactive approach), clause 5.4 equations (1)-(6) and Table 3 (adaptive approach),
Annex B equations B.1/B.2 (gate keeping).  Written from the standard, not from the code; see
design_notes/C19.md for the provenance of every number.  Imports nothing from the model.

Round 3: (i) Table A.1 carries the standard's bands (50 % to 65 % / > 65 %, the same as Table A.2), no longer the
repository's 60 % (that deviation is known finding C19-KF2).  (ii) Clause 5.4 and Annex B are stated a second time as
*relations* (`Clause54`, `B1`, `B2`): step by step, division-free, piecewise instead of min/max, so that the
theorems "the code computes what the clause prescribes" are not `rfl` against a re-typed copy of the code.
The function forms (`limeric`, `b1`, `b2`) are kept as reference evaluators and are proved to satisfy the relations.
-/
namespace FlexModel.Dcc.Spec

/-! ## Annex A (reactive approach) -/

/-- one Annex A table: the CBR value (1e-4 units) from which Active 1, Active 2, Active 3, Restrictive apply,
and packet rate [mHz] / T_off [ms] of Relaxed, Active 1, Active 2, Active 3, Restrictive -/
structure Annex where
  edges : List Int
  rates : List Nat
  toffs : List Nat
  deriving DecidableEq, Repr

/-- Table A.1 (T_on ≤ 1 ms): <30 % 10 Hz 100 ms | 30-39 % 5 Hz 200 ms | 40-49 % 2,5 Hz 400 ms |
50-65 % 2 Hz 500 ms | >65 % 1 Hz 1000 ms.  The CBR column is the same in both tables of Annex A.  (The repository
uses 60 % here and pins it by a unit test: known finding C19-KF2; the PDF could not be consulted, see
design_notes/C19.md "Table A.1" - this single definition is the switch.) -/
def tableA1 : Annex := ⟨[3000, 4000, 5000, 6500], [10000, 5000, 2500, 2000, 1000], [100, 200, 400, 500, 1000]⟩

/-- Table A.2 (T_on ≤ 500 µs): <30 % 20 Hz 50 ms | 30-39 % 10 Hz 100 ms | 40-49 % 5 Hz 200 ms |
50-65 % 4 Hz 250 ms | >65 % 1 Hz 1000 ms -/
def tableA2 : Annex := ⟨[3000, 4000, 5000, 6500], [20000, 10000, 5000, 4000, 1000], [50, 100, 200, 250, 1000]⟩

def annex (a2 : Bool) : Annex := if a2 then tableA2 else tableA1

/-- index (0 = Relaxed … 4 = Restrictive) of the state whose band contains `cbr`: number of edges reached -/
def band (a : Annex) (cbr : Int) : Nat := (a.edges.filter (fun e => e ≤ cbr)).length

/-- lower (inclusive) and upper (exclusive) end of the band of state `s`; CBR is at most 100 % -/
def lo (a : Annex) (s : Nat) : Int := if s = 0 then 0 else a.edges.getD (s - 1) 0
def hi (a : Annex) (s : Nat) : Int := a.edges.getD s 10001
def inBand (a : Annex) (s : Nat) (cbr : Int) : Prop := s ≤ 4 ∧ lo a s ≤ cbr ∧ cbr < hi a s

/-- one accepted evaluation as observed at `update()`: input and returned state / rate / T_off -/
structure REv where
  cbr : Int
  state : Nat
  rate : Nat
  tOff : Nat
  deriving DecidableEq, Repr

def adjacent (s s' : Nat) : Bool := s' ≤ s + 1 && s ≤ s' + 1

/-- adjacency along a list of visited states -/
def statesAdj : List Nat → Bool
  | [] => true
  | [_] => true
  | x :: y :: r => adjacent x y && statesAdj (y :: r)

/-- "moves by at most one state per evaluation" -/
def adjOK : Nat → List REv → Bool
  | _, [] => true
  | s, e :: es => adjacent s e.state && adjOK e.state es

/-- "outputs that state's Annex A packet rate and T_off" -/
def rowOK (a : Annex) (e : REv) : Bool :=
  a.rates[e.state]? == some e.rate && a.toffs[e.state]? == some e.tOff

def rowsOK (a : Annex) (es : List REv) : Bool := es.all (rowOK a)

/-- "reaches the state whose CBR band contains a constant input within four evaluations" (and stays while the
input stays): from the 4th consecutive evaluation with the same CBR on, the state is that CBR's band -/
def convOK (a : Annex) : Option Int → Nat → List REv → Bool
  | _, _, [] => true
  | prev, n, e :: es =>
    let n' := if prev = some e.cbr then n + 1 else 1
    (if 4 ≤ n' then e.state == band a e.cbr else true) && convOK a (some e.cbr) n' es

/-- the reactive part of the property on a trace of accepted evaluations starting in state `s0` -/
def reactiveHolds (a : Annex) (s0 : Nat) (es : List REv) : Bool :=
  adjOK s0 es && rowsOK a es && convOK a none 0 es

/-! ## Clause 5.4 (adaptive approach), equations (1)–(6), Table 3 -/

/-- (1) CBR_ITS-S = 0,5 × CBR_ITS-S + 0,5 × ((CBR_L_0_Hop + CBR_L_0_Hop_Previous) / 2) -/
def eq1 (its c cPrev : Rat) : Rat := (1/2) * its + (1/2) * ((c + cPrev) / 2)

/-- (2),(3) δ_offset = min(β (CBR_target − CBR_ITS-S), δ_UP_MAX) if the difference is positive,
else max(β (CBR_target − CBR_ITS-S), δ_DOWN_MAX) -/
def eq23 (beta target its up down : Rat) : Rat :=
  if 0 < target - its then min (beta * (target - its)) up else max (beta * (target - its)) down

/-- (4) δ = (1 − α) δ + δ_offset -/
def eq4 (alpha delta off : Rat) : Rat := (1 - alpha) * delta + off

/-- (5) if δ > δ_max then δ = δ_max -/
def eq5 (dmax delta : Rat) : Rat := if dmax < delta then dmax else delta

/-- (6) if δ < δ_min then δ = δ_min -/
def eq6 (dmin delta : Rat) : Rat := if delta < dmin then dmin else delta

/-- the CBR pair used in step 1: the global values if both are available (NOTE of clause 5.4), else the local ones -/
def effective (l lp : Rat) (g gp : Option Rat) : Rat × Rat :=
  match g, gp with
  | some g, some gp => (g, gp)
  | _, _ => (l, lp)

/-- steps 1–5 of clause 5.4 in order: new (CBR_ITS-S, δ) from the old pair and the two CBR values of step 1 -/
def limeric (alpha beta target dmax dmin up down its delta c cPrev : Rat) : Rat × Rat :=
  let its' := eq1 its c cPrev
  (its', eq6 dmin (eq5 dmax (eq4 alpha delta (eq23 beta target its' up down))))

/-- Table 3: α, β, CBR_target, δ_max, δ_min, δ_UP_MAX, δ_DOWN_MAX -/
def table3 : List Rat := [16/1000, 12/10000, 68/100, 3/100, 6/10000, 5/10000, -25/100000]

/-! ### Clause 5.4 once more, as the five steps read as conditions on the new values (no evaluation order, no
min/max, no division): what "computes δ exactly as clause 5.4 prescribes" means -/

/-- the parameters of Table 3 under the standard's names -/
structure P54 where
  alpha : Rat
  beta : Rat
  target : Rat
  dmax : Rat
  dmin : Rat
  up : Rat
  down : Rat

/-- step 1, eq. (1), cleared of fractions: 4·CBR_ITS-S' = 2·CBR_ITS-S + CBR_L_0_Hop + CBR_L_0_Hop_Previous -/
def Step1 (its c cPrev its' : Rat) : Prop := 4 * its' = 2 * its + (c + cPrev)

/-- step 2: if CBR_target − CBR_ITS-S is positive, δ_offset is the smaller of β·(…) and δ_UP_MAX (eq. 2), otherwise
the larger of β·(…) and δ_DOWN_MAX (eq. 3); "the smaller of a, b" = below both and equal to one of them -/
def Step2 (P : P54) (its' off : Rat) : Prop :=
  (0 < P.target - its' →
    off ≤ P.beta * (P.target - its') ∧ off ≤ P.up ∧ (off = P.beta * (P.target - its') ∨ off = P.up)) ∧
  (P.target - its' ≤ 0 →
    P.beta * (P.target - its') ≤ off ∧ P.down ≤ off ∧ (off = P.beta * (P.target - its') ∨ off = P.down))

/-- step 3, eq. (4) δ = (1 − α)·δ + δ_offset, written as δ' + α·δ = δ + δ_offset -/
def Step3 (P : P54) (delta off d : Rat) : Prop := d + P.alpha * delta = delta + off

/-- step 4, eq. (5): if δ > δ_max then δ = δ_max (else unchanged) -/
def Step4 (P : P54) (d d' : Rat) : Prop := (P.dmax < d → d' = P.dmax) ∧ (d ≤ P.dmax → d' = d)

/-- step 5, eq. (6): if δ < δ_min then δ = δ_min (else unchanged) -/
def Step5 (P : P54) (d d' : Rat) : Prop := (d < P.dmin → d' = P.dmin) ∧ (P.dmin ≤ d → d' = d)

/-- one evaluation of clause 5.4: the new (CBR_ITS-S, δ) are related to the old pair and the two CBR values of step 1
through the five steps in order -/
def Clause54 (P : P54) (its delta c cPrev its' delta' : Rat) : Prop :=
  ∃ off d3 d4, Step1 its c cPrev its' ∧ Step2 P its' off ∧ Step3 P delta off d3 ∧ Step4 P d3 d4 ∧ Step5 P d4 delta'

/-! ## Annex B (gate keeping) -/

/-- the bounds 25 ms and 1 s of B.1/B.2 -/
def gMin : Rat := 25/1000
def gMax : Rat := 1

/-- (B.1) t_go = t_pg + min(max(T_on_pp / δ, 0,025), 1), bounds as parameters -/
def b1 (mn mx tpg ton delta : Rat) : Rat := tpg + min (max (ton / delta) mn) mx

/-- (B.2) t_go = t_pg + min(max(δ_old/δ_new · (t_go − t_pg), 0,025), 1), bounds as parameters -/
def b2 (mn mx tpg tgo dOld dNew : Rat) : Rat := tpg + min (max (dOld / dNew * (tgo - tpg)) mn) mx

/-! ### B.1/B.2 once more as relations: the waiting time is the quotient limited to [25 ms, 1 s], stated piecewise
and with the quotient defined by a product (no division, no min/max) -/

/-- `iv` is `x` limited to [mn, mx] -/
def Limited (mn mx x iv : Rat) : Prop :=
  (x ≤ mn → iv = mn) ∧ (mn ≤ x → x ≤ mx → iv = x) ∧ (mx ≤ x → iv = mx)

/-- (B.1): t_go = t_pg + (T_on_pp / δ limited to [mn, mx]) -/
def B1 (mn mx tpg ton delta tgo : Rat) : Prop :=
  ∃ x iv, x * delta = ton ∧ Limited mn mx x iv ∧ tgo = tpg + iv

/-- (B.2): t_go' = t_pg + (δ_old/δ_new · (t_go − t_pg) limited to [mn, mx]) -/
def B2 (mn mx tpg tgoOld dOld dNew tgo : Rat) : Prop :=
  ∃ x iv, x * dNew = dOld * (tgoOld - tpg) ∧ Limited mn mx x iv ∧ tgo = tpg + iv

/-- "the gate opens exactly at t_go": open at `t` iff nothing is scheduled or `t_go ≤ t` -/
def OpensAt (tgo : Option Rat) (t : Rat) (isOpen : Bool) : Prop :=
  isOpen = true ↔ (tgo = none ∨ ∃ b, tgo = some b ∧ b ≤ t)

/-- consecutive admission times are at least `gap` apart -/
def spaced (gap : Rat) : Option Rat → List Rat → Bool
  | _, [] => true
  | none, t :: ts => spaced gap (some t) ts
  | some a, t :: ts => decide (a + gap ≤ t) && spaced gap (some t) ts

end FlexModel.Dcc.Spec

import FlexModel.Dcc.Reactive
import FlexModel.Dcc.Spec
namespace FlexModel.Dcc
open Spec

theorem stepIdx_adj (c t : Nat) : stepIdx c t ≤ c + 1 ∧ c ≤ stepIdx c t + 1 := by
  unfold stepIdx
  repeat' split
  all_goals omega

theorem stepIdx_le4 (c t : Nat) (hc : c ≤ 4) (ht : t ≤ 4) : stepIdx c t ≤ 4 := by
  unfold stepIdx
  repeat' split
  all_goals omega

def dist (s t : Nat) : Nat := if s ≤ t then t - s else s - t

theorem dist_step (s t : Nat) : dist (stepIdx s t) t = dist s t - 1 := by
  unfold dist stepIdx
  repeat' split
  all_goals omega

theorem dist_zero (s t : Nat) : dist s t = 0 ↔ s = t := by
  unfold dist; split <;> omega

theorem dist_le4 (s t : Nat) (hs : s ≤ 4) (ht : t ≤ 4) : dist s t ≤ 4 := by
  unfold dist; split <;> omega

theorem update_fst (tbl : Table) (s : Nat) (c : Int) :
    (update tbl s c).1 = if c < 0 ∨ 10000 < c then s else stepIdx s (target tbl c) := by
  unfold update; split
  · rfl
  · dsimp only; split <;> rfl

theorem target_le (tbl : Table) (h : ∀ r ∈ tbl, r.state ≤ 4) (c : Int) : target tbl c ≤ 4 := by
  induction tbl with
  | nil => simp [target]
  | cons r rs ih =>
    unfold target; split
    · exact h r (by simp)
    · exact ih (fun r' hr' => h r' (by simp [hr']))

/-- decidable well-formedness of a code table against an Annex A table: keys 0..4 only, and for every state the
row found by `self._table[state]` carries the Annex A rate and T_off -/
def rowsMatchB (tbl : Table) (a : Annex) : Bool :=
  tbl.all (fun r => decide (r.state ≤ 4)) &&
  (List.range 5).all (fun s => match lookup tbl s with
    | some r => a.rates[s]? == some r.rate && a.toffs[s]? == some r.tOff
    | none => false)

theorem rowsMatch_states {tbl : Table} {a : Annex} (h : rowsMatchB tbl a = true) : ∀ r ∈ tbl, r.state ≤ 4 := by
  unfold rowsMatchB at h
  simp only [Bool.and_eq_true, List.all_eq_true, decide_eq_true_eq] at h
  exact h.1

theorem rowsMatch_lookup {tbl : Table} {a : Annex} (h : rowsMatchB tbl a = true) (s : Nat) (hs : s ≤ 4) :
    ∃ r, lookup tbl s = some r ∧ a.rates[s]? = some r.rate ∧ a.toffs[s]? = some r.tOff := by
  unfold rowsMatchB at h
  simp only [Bool.and_eq_true, List.all_eq_true] at h
  have h2 := h.2 s (by simp; omega)
  split at h2
  · rename_i r hr
    simp only [Bool.and_eq_true, beq_iff_eq] at h2
    exact ⟨r, hr, h2.1, h2.2⟩
  · cases h2

/-- the accepted evaluations of a history as the Spec sees them -/
def trace (tbl : Table) : Nat → List Int → List REv
  | _, [] => []
  | s, c :: cs =>
    match (update tbl s c).2 with
    | .ok st r t => ⟨c, st, r, t⟩ :: trace tbl (update tbl s c).1 cs
    | _ => trace tbl (update tbl s c).1 cs

theorem update_invalid (tbl : Table) (s : Nat) (c : Int) (h : c < 0 ∨ 10000 < c) :
    update tbl s c = (s, .valueError) := by
  unfold update; simp [h]

theorem update_valid {tbl : Table} {a : Annex} (hm : rowsMatchB tbl a = true) (s : Nat) (hs : s ≤ 4) (c : Int)
    (h : ¬ (c < 0 ∨ 10000 < c)) :
    ∃ r t, update tbl s c = (stepIdx s (target tbl c), .ok (stepIdx s (target tbl c)) r t) ∧
      a.rates[stepIdx s (target tbl c)]? = some r ∧ a.toffs[stepIdx s (target tbl c)]? = some t := by
  have h4 := stepIdx_le4 s (target tbl c) hs (target_le tbl (rowsMatch_states hm) c)
  obtain ⟨r, hr, h1, h2⟩ := rowsMatch_lookup hm _ h4
  refine ⟨r.rate, r.tOff, ?_, h1, h2⟩
  unfold update
  simp only [h, if_false]
  rw [hr]


theorem trace_invalid (tbl : Table) (s : Nat) (c : Int) (cs : List Int) (h : c < 0 ∨ 10000 < c) :
    trace tbl s (c :: cs) = trace tbl s cs := by
  simp only [trace, update_invalid tbl s c h]

theorem trace_valid {tbl : Table} {a : Annex} (hm : rowsMatchB tbl a = true) (s : Nat) (hs : s ≤ 4) (c : Int)
    (cs : List Int) (h : ¬ (c < 0 ∨ 10000 < c)) :
    ∃ r t, trace tbl s (c :: cs) = ⟨c, stepIdx s (target tbl c), r, t⟩ :: trace tbl (stepIdx s (target tbl c)) cs ∧
      a.rates[stepIdx s (target tbl c)]? = some r ∧ a.toffs[stepIdx s (target tbl c)]? = some t := by
  obtain ⟨r, t, hu, h1, h2⟩ := update_valid hm s hs c h
  exact ⟨r, t, by simp only [trace, hu], h1, h2⟩

theorem adj_trace {tbl : Table} {a : Annex} (hm : rowsMatchB tbl a = true) :
    ∀ (cs : List Int) (s : Nat), s ≤ 4 → adjOK s (trace tbl s cs) = true := by
  intro cs
  induction cs with
  | nil => intro s _; simp [trace, adjOK]
  | cons c cs ih =>
    intro s hs
    by_cases h : c < 0 ∨ 10000 < c
    · rw [trace_invalid tbl s c cs h]; exact ih s hs
    · obtain ⟨r, t, ht, _, _⟩ := trace_valid hm s hs c cs h
      have h4 := stepIdx_le4 s (target tbl c) hs (target_le tbl (rowsMatch_states hm) c)
      have ha := stepIdx_adj s (target tbl c)
      rw [ht]
      simp only [adjOK, adjacent, Bool.and_eq_true, decide_eq_true_eq]
      exact ⟨⟨ha.1, ha.2⟩, ih _ h4⟩

theorem rows_trace {tbl : Table} {a : Annex} (hm : rowsMatchB tbl a = true) :
    ∀ (cs : List Int) (s : Nat), s ≤ 4 → rowsOK a (trace tbl s cs) = true := by
  intro cs
  induction cs with
  | nil => intro s _; simp [trace, rowsOK]
  | cons c cs ih =>
    intro s hs
    by_cases h : c < 0 ∨ 10000 < c
    · rw [trace_invalid tbl s c cs h]; exact ih s hs
    · obtain ⟨r, t, ht, h1, h2⟩ := trace_valid hm s hs c cs h
      have h4 := stepIdx_le4 s (target tbl c) hs (target_le tbl (rowsMatch_states hm) c)
      have := ih _ h4
      rw [ht]
      simp only [rowsOK, List.all_cons, Bool.and_eq_true, rowOK, beq_iff_eq] at this ⊢
      exact ⟨⟨h1, h2⟩, this⟩

theorem conv_trace {tbl : Table} {a : Annex} (hm : rowsMatchB tbl a = true) (good : Int → Prop)
    (hg : ∀ c, 0 ≤ c → c ≤ 10000 → good c → target tbl c = band a c) (hb : ∀ c, band a c ≤ 4) :
    ∀ (cs : List Int) (s : Nat) (prev : Option Int) (n : Nat), s ≤ 4 → (∀ c ∈ cs, good c) →
      (∀ c, prev = some c → dist s (band a c) + min n 4 ≤ 4) →
      convOK a prev n (trace tbl s cs) = true := by
  intro cs
  induction cs with
  | nil => intro s prev n _ _ _; simp [trace, convOK]
  | cons c cs ih =>
    intro s prev n hs hgood hinv
    have hgc : good c := hgood c (by simp)
    have hgcs : ∀ c' ∈ cs, good c' := fun c' hc' => hgood c' (by simp [hc'])
    by_cases h : c < 0 ∨ 10000 < c
    · rw [trace_invalid tbl s c cs h]; exact ih s prev n hs hgcs hinv
    · obtain ⟨r, t, ht, _, _⟩ := trace_valid hm s hs c cs h
      have htb : target tbl c = band a c := hg c (by omega) (by omega) hgc
      have h4 := stepIdx_le4 s (target tbl c) hs (target_le tbl (rowsMatch_states hm) c)
      rw [ht, htb] at *
      have hd := dist_step s (band a c)
      have hd4 := dist_le4 s (band a c) hs (hb c)
      simp only [convOK, Bool.and_eq_true]
      by_cases hp : prev = some c
      · have hi := hinv c hp
        simp only [hp, if_true]
        refine ⟨?_, ih _ _ _ h4 hgcs ?_⟩
        · split
          · have : dist (stepIdx s (band a c)) (band a c) = 0 := by omega
            simpa using (dist_zero _ _).1 this
          · rfl
        · intro c' hc'
          cases hc'
          omega
      · simp only [hp, if_false]
        refine ⟨?_, ih _ _ _ h4 hgcs ?_⟩
        · split
          · omega
          · rfl
        · intro c' hc'
          cases hc'
          omega

end FlexModel.Dcc

namespace FlexModel.Dcc
open Spec

theorem rm_codeA1 : rowsMatchB codeA1 tableA1 = true := by decide
theorem rm_codeA2 : rowsMatchB codeA2 tableA2 = true := by decide

theorem band_le4 (a2 : Bool) (c : Int) : band (annex a2) c ≤ 4 := by
  cases a2 <;> simp only [band, annex, tableA1, tableA2] <;>
    exact Nat.le_trans (List.length_filter_le _ _) (by simp)

theorem target_codeA2 (c : Int) (h0 : 0 ≤ c) (h1 : c ≤ 10000) : target codeA2 c = band tableA2 c := by
  simp only [codeA2, Generated.Dcc.tableA2, List.map, Row.ofRaw, target, band, tableA2, List.filter]
  repeat' split
  all_goals (simp at *; try omega)

/-- generated fact with two admissible values: `_TABLE_A1` is either the standard's table or the known variant
(C19-KF2); any other change of the table re-opens this -/
theorem codeA1_variant : codeA1 = stdA1 ∨ codeA1 = knownA1 := by decide

theorem target_stdA1 (c : Int) (h0 : 0 ≤ c) (h1 : c ≤ 10000) : target stdA1 c = band tableA1 c := by
  simp only [stdA1, target, band, tableA1, List.filter]
  repeat' split
  all_goals (simp at *; try omega)

theorem target_knownA1 (c : Int) (h0 : 0 ≤ c) (h1 : c ≤ 10000) (hg : c < 6000 ∨ 6500 ≤ c) :
    target knownA1 c = band tableA1 c := by
  simp only [knownA1, target, band, tableA1, List.filter]
  repeat' split
  all_goals (simp at *; try omega)

/-- inside the C19-KF2 region the known table answers Restrictive where Annex A says Active 3 -/
theorem target_knownA1_kf (c : Int) (h0 : 6000 ≤ c) (h1 : c < 6500) : target knownA1 c = 4 ∧ band tableA1 c = 3 := by
  simp only [knownA1, target, band, tableA1, List.filter]
  constructor
  · repeat' split
    all_goals (simp at *; try omega)
  · repeat' split
    all_goals (simp at *; try omega)

/-- the inputs on which the band lookup of the code is the Annex A band: everything for Table A.2 and for a repaired
Table A.1; everything outside [60 %, 65 %) for Table A.1 as it is (C19-KF2) -/
def lookupOK (a2 : Bool) (c : Int) : Prop := a2 = true ∨ codeA1 = stdA1 ∨ c < 6000 ∨ 6500 ≤ c

theorem target_codeA1 (c : Int) (h0 : 0 ≤ c) (h1 : c ≤ 10000) (hg : codeA1 = stdA1 ∨ c < 6000 ∨ 6500 ≤ c) :
    target codeA1 c = band tableA1 c := by
  rcases hg with h | h
  · rw [h]; exact target_stdA1 c h0 h1
  · rcases codeA1_variant with e | e
    · rw [e]; exact target_stdA1 c h0 h1
    · rw [e]; exact target_knownA1 c h0 h1 h

theorem rm_code (a2 : Bool) : rowsMatchB (codeTable a2) (annex a2) = true := by
  cases a2
  · exact rm_codeA1
  · exact rm_codeA2

theorem target_code (a2 : Bool) (c : Int) (h0 : 0 ≤ c) (h1 : c ≤ 10000) (hg : lookupOK a2 c) :
    target (codeTable a2) c = band (annex a2) c := by
  cases a2
  · rcases hg with h | h
    · cases h
    · exact target_codeA1 c h0 h1 h
  · exact target_codeA2 c h0 h1

theorem run_replicate_dist (tbl : Table) (c : Int) (hv : ¬ (c < 0 ∨ 10000 < c)) :
    ∀ (n s : Nat), dist (run tbl s (List.replicate n c)) (target tbl c) = dist s (target tbl c) - n := by
  intro n
  induction n with
  | zero => intro s; simp [run]
  | succ n ih =>
    intro s
    have h1 : run tbl s (List.replicate (n + 1) c) = run tbl (update tbl s c).1 (List.replicate n c) := by
      simp [run, List.replicate_succ]
    rw [h1, update_fst, if_neg hv]
    have := ih (stepIdx s (target tbl c))
    unfold run at this ⊢
    rw [this, dist_step]
    omega

/-- both Annex A tables have the same CBR column -/
theorem band_cases (a2 : Bool) (c : Int) : band (annex a2) c =
    if c < 3000 then 0 else if c < 4000 then 1 else if c < 5000 then 2 else if c < 6500 then 3 else 4 := by
  cases a2 <;> simp only [band, annex, tableA1, tableA2, Bool.false_eq_true, if_false, if_true] <;>
  · by_cases h1 : (3000 : Int) ≤ c <;> by_cases h2 : (4000 : Int) ≤ c <;> by_cases h3 : (5000 : Int) ≤ c <;>
      by_cases h5 : (6500 : Int) ≤ c <;>
      simp [List.filter, h1, h2, h3, h5] <;> (repeat' split) <;> omega

theorem inBand_iff (a2 : Bool) (c : Int) (h0 : 0 ≤ c) (h1 : c ≤ 10000) (s : Nat) :
    inBand (annex a2) s c ↔ s = band (annex a2) c := by
  rw [band_cases]
  cases a2 <;> simp only [inBand, lo, hi, annex, tableA1, tableA2, Bool.false_eq_true, if_false, if_true] <;>
  · constructor
    · rintro ⟨hs, hl, hh⟩
      have : s = 0 ∨ s = 1 ∨ s = 2 ∨ s = 3 ∨ s = 4 := by omega
      rcases this with rfl | rfl | rfl | rfl | rfl <;> simp at hl hh <;> (repeat' split) <;> omega
    · intro hs
      subst hs
      (repeat' split) <;> simp at * <;> omega

/-! ### Spec sanity (Spec against itself; not property clauses) -/

/-- the transcription of Annex A is self-consistent: T_off is the inverse of the packet rate in every row -/
theorem spec_toff_is_inverse_rate (a2 : Bool) :
    List.zipWith (· * ·) (annex a2).rates (annex a2).toffs = [1000000, 1000000, 1000000, 1000000, 1000000] := by
  cases a2 <;> decide

/-- the Annex A bands partition [0,1]: every CBR lies in the band of exactly one state, namely `band` -/
theorem bands_partition (a2 : Bool) (c : Int) (h0 : 0 ≤ c) (h1 : c ≤ 10000) :
    inBand (annex a2) (band (annex a2) c) c ∧ ∀ s, inBand (annex a2) s c → s = band (annex a2) c :=
  ⟨(inBand_iff a2 c h0 h1 _).2 rfl, fun s hs => (inBand_iff a2 c h0 h1 s).1 hs⟩

end FlexModel.Dcc

/-
Gate keeper (flexstack/management/dcc_adaptive.py: GateKeeper), over exact rationals, parametrised by the three
class constants; `codeCfg` instantiates them with the values generated from the source.
-/
import Generated.Dcc

namespace FlexModel.Dcc

structure GCfg where
  minI : Rat      -- GATE_OPEN_MIN_INTERVAL_S
  maxI : Rat      -- GATE_OPEN_MAX_INTERVAL_S
  eps : Rat       -- _T_EPSILON

def codeCfg : GCfg := ⟨Generated.Dcc.gateMin, Generated.Dcc.gateMax, Generated.Dcc.gateEps⟩

/-- the double of 1e-9: the repository's `_T_EPSILON`, subtracted from `t_go` in `is_open` (known finding C19-KF1) -/
def kf1Eps : Rat := 4835703278458517 / 4835703278458516698824704

/-- the code's interval constants with the repaired comparison `t >= t_go` (no tolerance) -/
def exactCfg : GCfg := ⟨Generated.Dcc.gateMin, Generated.Dcc.gateMax, 0⟩

/-- the code's interval constants with the repository's 1 ns tolerance (C19-KF1 variant) -/
def kf1Cfg : GCfg := ⟨Generated.Dcc.gateMin, Generated.Dcc.gateMax, kf1Eps⟩

structure GState where
  delta : Rat
  tpg : Option Rat
  tgo : Option Rat
  deriving DecidableEq, Repr

/-- `GateKeeper.__init__` (no validation of `delta` in the code) -/
def GState.init (delta : Rat) : GState := ⟨delta, none, none⟩

/-- `is_open` -/
def isOpen (c : GCfg) (s : GState) (t : Rat) : Bool :=
  match s.tgo with
  | none => true
  | some b => decide (b - c.eps ≤ t)

/-- `min(max(x, MIN), MAX)` -/
def clampI (c : GCfg) (x : Rat) : Rat := min (max x c.minI) c.maxI

inductive GRes where
  | admitted
  | rejected
  | valueError      -- t_on <= 0 / delta_new <= 0
  | zeroDiv         -- t_on / self._delta with delta == 0 (reachable only through the constructor)
  | done            -- update_delta returned None
  deriving DecidableEq, Repr

/-- `admit_packet`; note `_t_pg` is assigned before the division, so a ZeroDivisionError leaves it changed -/
def admitPkt (c : GCfg) (s : GState) (t ton : Rat) : GState × GRes :=
  if ton ≤ 0 then (s, .valueError)
  else if !isOpen c s t then (s, .rejected)
  else if s.delta = 0 then ({ s with tpg := some t }, .zeroDiv)
  else ({ s with tpg := some t, tgo := some (t + clampI c (ton / s.delta)) }, .admitted)

/-- `update_delta` -/
def updDelta (c : GCfg) (s : GState) (t dNew : Rat) : GState × GRes :=
  if dNew ≤ 0 then (s, .valueError)
  else
    match s.tpg, s.tgo with
    | some a, some b =>
      if isOpen c s t then ({ s with delta := dNew }, .done)
      else ({ s with delta := dNew, tgo := some (a + clampI c ((s.delta / dNew) * (b - a))) }, .done)
    | _, _ => ({ s with delta := dNew }, .done)

inductive GOp where
  | admitPkt (t ton : Rat)
  | upd (t dNew : Rat)
  | query (t : Rat)

def gStep (c : GCfg) (s : GState) : GOp → GState
  | .admitPkt t ton => (admitPkt c s t ton).1
  | .upd t d => (updDelta c s t d).1
  | .query _ => s

def gRun (c : GCfg) (s : GState) (ops : List GOp) : GState := ops.foldl (gStep c) s

/-- times of the admitted packets of a history, in order -/
def admissions (c : GCfg) : GState → List GOp → List Rat
  | _, [] => []
  | s, .admitPkt t ton :: ops =>
    if (admitPkt c s t ton).2 = .admitted then t :: admissions c (admitPkt c s t ton).1 ops
    else admissions c (admitPkt c s t ton).1 ops
  | s, op :: ops => admissions c (gStep c s op) ops

end FlexModel.Dcc

/-
Helper lemmas over `Rat` for the adaptive DCC and the gate keeper (C19).  Uses single Mathlib modules.
-/
import Mathlib.Tactic.Linarith
import Mathlib.Tactic.NormNum
import Mathlib.Algebra.Order.Field.Rat
import Mathlib.Tactic.Ring
import Mathlib.Tactic.FieldSimp
import FlexModel.Dcc.Adaptive
import FlexModel.Dcc.Gate
import FlexModel.Dcc.Spec

namespace FlexModel.Dcc
open Spec

/-! ## Adaptive -/

theorem outsideUnit_iff (v : Rat) : outsideUnit v = true ↔ (v < 0 ∨ 1 < v) := by
  unfold outsideUnit
  simp only [Bool.not_eq_true', decide_eq_false_iff_not, not_and_or, not_le]

theorem outsideUnit_false_iff (v : Rat) : outsideUnit v = false ↔ (0 ≤ v ∧ v ≤ 1) := by
  unfold outsideUnit
  simp

/-- the state the Spec equations prescribe for an accepted call -/
def specNext (p : Params) (s : AState) (l lp : Rat) (g gp : Option Rat) : AState :=
  let e := effective l lp g gp
  let r := limeric p.alpha p.beta p.cbrTarget p.deltaMax p.deltaMin p.deltaUpMax p.deltaDownMax s.cbrItsS s.delta e.1 e.2
  ⟨r.1, r.2⟩

theorem aUpdate_ok (p : Params) (s : AState) (l lp : Rat) (g gp : Option Rat)
    (hl : outsideUnit l = false) (hlp : outsideUnit lp = false) :
    aUpdate p s l lp g gp = .ok (specNext p s l lp g gp) := by
  unfold aUpdate
  simp only [hl, hlp, Bool.false_eq_true, if_false]
  cases g <;> cases gp <;> rfl

theorem aUpdate_err (p : Params) (s : AState) (l lp : Rat) (g gp : Option Rat)
    (h : outsideUnit l = true ∨ outsideUnit lp = true) : ∃ e, aUpdate p s l lp g gp = .error e := by
  unfold aUpdate
  by_cases hl : outsideUnit l = true
  · exact ⟨.local, by simp [hl]⟩
  · have hlp : outsideUnit lp = true := h.resolve_left hl
    exact ⟨.localPrev, by simp [hl, hlp]⟩

theorem eq65_bounds (dmin dmax x : Rat) (h : dmin ≤ dmax) :
    dmin ≤ eq6 dmin (eq5 dmax x) ∧ eq6 dmin (eq5 dmax x) ≤ dmax := by
  unfold eq6 eq5
  split_ifs <;> constructor <;> linarith

theorem specNext_bounds (p : Params) (s : AState) (l lp : Rat) (g gp : Option Rat) (h : p.deltaMin ≤ p.deltaMax) :
    p.deltaMin ≤ (specNext p s l lp g gp).delta ∧ (specNext p s l lp g gp).delta ≤ p.deltaMax := by
  simp only [specNext, limeric]
  exact eq65_bounds _ _ _ h

theorem aUpdate_cases (p : Params) (s : AState) (l lp : Rat) (g gp : Option Rat) :
    aUpdate p s l lp g gp = .ok (specNext p s l lp g gp) ∨ ∃ e, aUpdate p s l lp g gp = .error e := by
  by_cases hl : outsideUnit l = true
  · exact Or.inr (aUpdate_err p s l lp g gp (Or.inl hl))
  · by_cases hlp : outsideUnit lp = true
    · exact Or.inr (aUpdate_err p s l lp g gp (Or.inr hlp))
    · exact Or.inl (aUpdate_ok p s l lp g gp (by simpa using hl) (by simpa using hlp))

/-! ### clause 5.4 as relations (Spec.Clause54): the model satisfies them and they determine the result -/

def Params.toP54 (p : Params) : P54 := ⟨p.alpha, p.beta, p.cbrTarget, p.deltaMax, p.deltaMin, p.deltaUpMax, p.deltaDownMax⟩

theorem step2_min (P : P54) (its' : Rat) :
    Step2 P its' (if P.target - its' > 0 then min (P.beta * (P.target - its')) P.up else max (P.beta * (P.target - its')) P.down) := by
  constructor
  · intro h
    rw [if_pos h]
    refine ⟨min_le_left _ _, min_le_right _ _, ?_⟩
    rcases min_choice (P.beta * (P.target - its')) P.up with h | h <;> simp [h]
  · intro h
    rw [if_neg (not_lt.mpr h)]
    refine ⟨le_max_left _ _, le_max_right _ _, ?_⟩
    rcases max_choice (P.beta * (P.target - its')) P.down with h | h <;> simp [h]

theorem step2_unique (P : P54) (its' a b : Rat) (ha : Step2 P its' a) (hb : Step2 P its' b) : a = b := by
  by_cases h : 0 < P.target - its'
  · obtain ⟨a1, a2, a3⟩ := ha.1 h
    obtain ⟨b1, b2, b3⟩ := hb.1 h
    rcases a3 with a3 | a3 <;> rcases b3 with b3 | b3 <;> linarith
  · have h' := not_lt.mp h
    obtain ⟨a1, a2, a3⟩ := ha.2 h'
    obtain ⟨b1, b2, b3⟩ := hb.2 h'
    rcases a3 with a3 | a3 <;> rcases b3 with b3 | b3 <;> linarith

theorem step4_unique (P : P54) (d a b : Rat) (ha : Step4 P d a) (hb : Step4 P d b) : a = b := by
  by_cases h : P.dmax < d
  · rw [ha.1 h, hb.1 h]
  · rw [ha.2 (not_lt.mp h), hb.2 (not_lt.mp h)]

theorem step5_unique (P : P54) (d a b : Rat) (ha : Step5 P d a) (hb : Step5 P d b) : a = b := by
  by_cases h : d < P.dmin
  · rw [ha.1 h, hb.1 h]
  · rw [ha.2 (not_lt.mp h), hb.2 (not_lt.mp h)]

theorem clause54_functional (P : P54) (its delta c cp a b a' b' : Rat)
    (h : Clause54 P its delta c cp a b) (h' : Clause54 P its delta c cp a' b') : a = a' ∧ b = b' := by
  obtain ⟨o, d3, d4, s1, s2, s3, s4, s5⟩ := h
  obtain ⟨o', d3', d4', s1', s2', s3', s4', s5'⟩ := h'
  have e1 : a = a' := by unfold Step1 at s1 s1'; linarith
  subst e1
  have e2 : o = o' := step2_unique P a o o' s2 s2'
  subst e2
  have e3 : d3 = d3' := by unfold Step3 at s3 s3'; linarith
  subst e3
  have e4 : d4 = d4' := step4_unique P d3 d4 d4' s4 s4'
  subst e4
  exact ⟨rfl, step5_unique P d4 b b' s5 s5'⟩

def mIts (s : AState) (c cp : Rat) : Rat := (1/2 : Rat) * s.cbrItsS + (1/2 : Rat) * ((c + cp) / 2)
def mOff (p : Params) (its : Rat) : Rat :=
  if p.cbrTarget - its > 0 then min (p.beta * (p.cbrTarget - its)) p.deltaUpMax else max (p.beta * (p.cbrTarget - its)) p.deltaDownMax
def mD3 (p : Params) (s : AState) (off : Rat) : Rat := (1 - p.alpha) * s.delta + off
def mD4 (p : Params) (d : Rat) : Rat := if d > p.deltaMax then p.deltaMax else d
def mD5 (p : Params) (d : Rat) : Rat := if d < p.deltaMin then p.deltaMin else d
def modelNext (p : Params) (s : AState) (c cp : Rat) : AState :=
  ⟨mIts s c cp, mD5 p (mD4 p (mD3 p s (mOff p (mIts s c cp))))⟩

theorem aUpdate_val (p : Params) (s s' : AState) (l lp : Rat) (g gp : Option Rat)
    (h : aUpdate p s l lp g gp = .ok s') :
    s' = modelNext p s (effective l lp g gp).1 (effective l lp g gp).2 := by
  unfold aUpdate at h
  split at h
  · cases h
  split at h
  · cases h
  simp only [Except.ok.injEq] at h
  subst h
  cases g <;> cases gp <;> rfl

theorem modelNext_sat (p : Params) (s : AState) (c cp : Rat) :
    Clause54 (Params.toP54 p) s.cbrItsS s.delta c cp (modelNext p s c cp).cbrItsS (modelNext p s c cp).delta := by
  refine ⟨mOff p (mIts s c cp), mD3 p s (mOff p (mIts s c cp)), mD4 p (mD3 p s (mOff p (mIts s c cp))), ?_,
    step2_min (Params.toP54 p) (mIts s c cp), ?_, ?_, ?_⟩
  · simp only [Step1, modelNext, mIts]; ring
  · simp only [Step3, Params.toP54, mD3]; ring
  · simp only [Step4, Params.toP54, mD4]
    exact ⟨fun hh => if_pos hh, fun hh => if_neg (not_lt.mpr hh)⟩
  · simp only [Step5, Params.toP54, modelNext, mD5]
    exact ⟨fun hh => if_pos hh, fun hh => if_neg (not_lt.mpr hh)⟩


theorem mIts_unit (s : AState) (c cp : Rat) (hs : 0 ≤ s.cbrItsS ∧ s.cbrItsS ≤ 1) (hc : 0 ≤ c ∧ c ≤ 1)
    (hcp : 0 ≤ cp ∧ cp ≤ 1) : 0 ≤ mIts s c cp ∧ mIts s c cp ≤ 1 := by
  unfold mIts
  constructor <;> linarith [hs.1, hs.2, hc.1, hc.2, hcp.1, hcp.2]

/-! ## Gate keeper -/

theorem clampI_bounds (c : GCfg) (x : Rat) (h : c.minI ≤ c.maxI) : c.minI ≤ clampI c x ∧ clampI c x ≤ c.maxI := by
  unfold clampI
  exact ⟨le_min (le_max_right _ _) h, min_le_right _ _⟩

theorem isOpen_none (c : GCfg) (s : GState) (t : Rat) (h : s.tgo = none) : isOpen c s t = true := by
  simp [isOpen, h]

theorem isOpen_some (c : GCfg) (s : GState) (t b : Rat) (h : s.tgo = some b) :
    isOpen c s t = true ↔ b - c.eps ≤ t := by
  simp [isOpen, h]

/-- invariant: δ ≠ 0, and either nothing was admitted yet or the scheduled closed interval is within [MIN, MAX] -/
def GInv (c : GCfg) (s : GState) : Prop :=
  s.delta ≠ 0 ∧ ((s.tpg = none ∧ s.tgo = none) ∨
    ∃ a b, s.tpg = some a ∧ s.tgo = some b ∧ a + c.minI ≤ b ∧ b ≤ a + c.maxI)

theorem ginv_init (c : GCfg) (d : Rat) (h : d ≠ 0) : GInv c (GState.init d) :=
  ⟨h, Or.inl ⟨rfl, rfl⟩⟩

theorem admit_cases (c : GCfg) (s : GState) (t ton : Rat) :
    (ton ≤ 0 ∧ admitPkt c s t ton = (s, .valueError)) ∨
    (0 < ton ∧ isOpen c s t = false ∧ admitPkt c s t ton = (s, .rejected)) ∨
    (0 < ton ∧ isOpen c s t = true ∧ s.delta = 0 ∧ admitPkt c s t ton = ({ s with tpg := some t }, .zeroDiv)) ∨
    (0 < ton ∧ isOpen c s t = true ∧ s.delta ≠ 0 ∧
      admitPkt c s t ton = ({ s with tpg := some t, tgo := some (t + clampI c (ton / s.delta)) }, .admitted)) := by
  unfold admitPkt
  by_cases h1 : ton ≤ 0
  · left; simp [h1]
  · have h1' : 0 < ton := not_le.mp h1
    by_cases h2 : isOpen c s t = true
    · by_cases h3 : s.delta = 0
      · right; right; left; simp [h1, h2, h3, h1']
      · right; right; right; simp [h1, h2, h3, h1']
    · right; left
      have h2' : isOpen c s t = false := by simpa using h2
      simp [h1, h2', h1']

theorem upd_cases (c : GCfg) (s : GState) (t d : Rat) :
    (d ≤ 0 ∧ updDelta c s t d = (s, .valueError)) ∨
    (0 < d ∧ (∃ a b, s.tpg = some a ∧ s.tgo = some b ∧ isOpen c s t = false ∧
        updDelta c s t d = ({ s with delta := d, tgo := some (a + clampI c ((s.delta / d) * (b - a))) }, .done))) ∨
    (0 < d ∧ (s.tpg = none ∨ s.tgo = none ∨ isOpen c s t = true) ∧ updDelta c s t d = ({ s with delta := d }, .done)) := by
  unfold updDelta
  by_cases h1 : d ≤ 0
  · left; simp [h1]
  · have h1' : 0 < d := not_le.mp h1
    right
    cases ha : s.tpg with
    | none => right; simp [h1, h1']
    | some a =>
      cases hb : s.tgo with
      | none => right; simp [h1, h1']
      | some b =>
        by_cases h2 : isOpen c s t = true
        · right; simp [h1, h1', h2]
        · left
          have h2' : isOpen c s t = false := by simpa using h2
          exact ⟨h1', a, b, rfl, rfl, h2', by simp [h1, h2']⟩

theorem ginv_admit (c : GCfg) (s : GState) (t ton : Rat) (hc : c.minI ≤ c.maxI) (h : GInv c s) :
    GInv c (admitPkt c s t ton).1 := by
  rcases admit_cases c s t ton with ⟨_, e⟩ | ⟨_, _, e⟩ | ⟨_, _, h0, _⟩ | ⟨_, _, _, e⟩
  · rw [e]; exact h
  · rw [e]; exact h
  · exact absurd h0 h.1
  · rw [e]
    have hb := clampI_bounds c (ton / s.delta) hc
    exact ⟨h.1, Or.inr ⟨t, _, rfl, rfl, by linarith [hb.1], by linarith [hb.2]⟩⟩

theorem ginv_upd (c : GCfg) (s : GState) (t d : Rat) (hc : c.minI ≤ c.maxI) (h : GInv c s) :
    GInv c (updDelta c s t d).1 := by
  rcases upd_cases c s t d with ⟨_, e⟩ | ⟨hd, a, b, ha, hb, _, e⟩ | ⟨hd, _, e⟩
  · rw [e]; exact h
  · rw [e]
    have hcl := clampI_bounds c ((s.delta / d) * (b - a)) hc
    exact ⟨ne_of_gt hd, Or.inr ⟨a, _, ha, rfl, by linarith [hcl.1], by linarith [hcl.2]⟩⟩
  · rw [e]
    exact ⟨ne_of_gt hd, h.2⟩

theorem upd_tpg (c : GCfg) (s : GState) (t d : Rat) : (updDelta c s t d).1.tpg = s.tpg := by
  rcases upd_cases c s t d with ⟨_, e⟩ | ⟨_, a, b, _, _, _, e⟩ | ⟨_, _, e⟩ <;> rw [e]

theorem ginv_step (c : GCfg) (s : GState) (op : GOp) (hc : c.minI ≤ c.maxI) (h : GInv c s) : GInv c (gStep c s op) := by
  cases op with
  | admitPkt t ton => exact ginv_admit c s t ton hc h
  | upd t d => exact ginv_upd c s t d hc h
  | query t => exact h

theorem ginv_run (c : GCfg) (hc : c.minI ≤ c.maxI) : ∀ (ops : List GOp) (s : GState), GInv c s → GInv c (gRun c s ops) := by
  intro ops
  induction ops with
  | nil => intro s h; exact h
  | cons op ops ih => intro s h; exact ih _ (ginv_step c s op hc h)

theorem spaced_mono (g g' : Rat) (h : g' ≤ g) : ∀ (ts : List Rat) (o : Option Rat), spaced g o ts = true → spaced g' o ts = true := by
  intro ts
  induction ts with
  | nil => intro o _; cases o <;> rfl
  | cons t ts ih =>
    intro o ho
    cases o with
    | none => exact ih _ ho
    | some a =>
      simp only [spaced, Bool.and_eq_true, decide_eq_true_eq] at ho ⊢
      exact ⟨by linarith [ho.1], ih _ ho.2⟩

theorem spaced_run (c : GCfg) (hc : c.minI ≤ c.maxI) : ∀ (ops : List GOp) (s : GState), GInv c s →
    spaced (c.minI - c.eps) s.tpg (admissions c s ops) = true := by
  intro ops
  induction ops with
  | nil => intro s _; cases h : s.tpg <;> simp [admissions, spaced]
  | cons op ops ih =>
    intro s h
    cases op with
    | query t => exact ih s h
    | upd t d =>
      have := ih _ (ginv_upd c s t d hc h)
      rw [upd_tpg] at this
      exact this
    | admitPkt t ton =>
      have hi := ginv_admit c s t ton hc h
      have ih' := ih _ hi
      rcases admit_cases c s t ton with ⟨_, e⟩ | ⟨_, _, e⟩ | ⟨_, _, h0, _⟩ | ⟨_, ho, _, e⟩
      · simp only [admissions, e] at ih' ⊢; simpa using ih'
      · simp only [admissions, e] at ih' ⊢; simpa using ih'
      · exact absurd h0 h.1
      · simp only [admissions, e] at ih' ⊢
        simp only [if_true]
        rcases h.2 with ⟨hp, _⟩ | ⟨a, b, hp, hg, hlo, _⟩
        · rw [hp]; exact ih'
        · rw [hp]
          have := (isOpen_some c s t b hg).1 ho
          simp only [spaced, Bool.and_eq_true, decide_eq_true_eq]
          exact ⟨by linarith, ih'⟩

/-- `_t_pg` is the time of the last admission -/
theorem tpg_last (c : GCfg) (hc : c.minI ≤ c.maxI) : ∀ (ops : List GOp) (s : GState), GInv c s →
    (gRun c s ops).tpg = (admissions c s ops).foldl (fun _ t => some t) s.tpg := by
  intro ops
  induction ops with
  | nil => intro s _; rfl
  | cons op ops ih =>
    intro s h
    cases op with
    | query t => exact ih s h
    | upd t d =>
      have := ih _ (ginv_upd c s t d hc h)
      rw [upd_tpg] at this
      exact this
    | admitPkt t ton =>
      have ih' := ih _ (ginv_admit c s t ton hc h)
      rcases admit_cases c s t ton with ⟨_, e⟩ | ⟨_, _, e⟩ | ⟨_, _, h0, _⟩ | ⟨_, _, _, e⟩
      · simp only [gRun, List.foldl, gStep, admissions, e] at ih' ⊢; simpa using ih'
      · simp only [gRun, List.foldl, gStep, admissions, e] at ih' ⊢; simpa using ih'
      · exact absurd h0 h.1
      · simp only [gRun, List.foldl, gStep, admissions, e] at ih' ⊢
        simpa using ih'

/-! ### B.1 / B.2 as relations (Spec.B1, Spec.B2) -/

theorem limited_clamp (mn mx x : Rat) (h : mn ≤ mx) : Limited mn mx x (min (max x mn) mx) := by
  refine ⟨fun h1 => ?_, fun h1 h2 => ?_, fun h1 => ?_⟩
  · rw [max_eq_right h1, min_eq_left h]
  · rw [max_eq_left h1, min_eq_left h2]
  · rw [min_eq_right (le_trans h1 (le_max_left _ _))]

theorem limited_unique (mn mx x a b : Rat) (ha : Limited mn mx x a) (hb : Limited mn mx x b) : a = b := by
  by_cases h1 : x ≤ mn
  · rw [ha.1 h1, hb.1 h1]
  · by_cases h2 : mx ≤ x
    · rw [ha.2.2 h2, hb.2.2 h2]
    · rw [ha.2.1 (le_of_lt (not_le.mp h1)) (le_of_lt (not_le.mp h2)), hb.2.1 (le_of_lt (not_le.mp h1)) (le_of_lt (not_le.mp h2))]

theorem limited_bounds (mn mx x iv : Rat) (h : mn ≤ mx) (hl : Limited mn mx x iv) : mn ≤ iv ∧ iv ≤ mx := by
  by_cases h1 : x ≤ mn
  · rw [hl.1 h1]; exact ⟨le_refl _, h⟩
  · by_cases h2 : mx ≤ x
    · rw [hl.2.2 h2]; exact ⟨h, le_refl _⟩
    · rw [hl.2.1 (le_of_lt (not_le.mp h1)) (le_of_lt (not_le.mp h2))]
      exact ⟨le_of_lt (not_le.mp h1), le_of_lt (not_le.mp h2)⟩

theorem B1_unique (mn mx tpg ton delta a b : Rat) (hd : delta ≠ 0)
    (ha : B1 mn mx tpg ton delta a) (hb : B1 mn mx tpg ton delta b) : a = b := by
  obtain ⟨x, iv, hx, hl, e⟩ := ha
  obtain ⟨x', iv', hx', hl', e'⟩ := hb
  have : x = x' := mul_right_cancel₀ hd (hx.trans hx'.symm)
  subst this
  rw [e, e', limited_unique mn mx x iv iv' hl hl']

theorem B2_unique (mn mx tpg tgo dOld dNew a b : Rat) (hd : dNew ≠ 0)
    (ha : B2 mn mx tpg tgo dOld dNew a) (hb : B2 mn mx tpg tgo dOld dNew b) : a = b := by
  obtain ⟨x, iv, hx, hl, e⟩ := ha
  obtain ⟨x', iv', hx', hl', e'⟩ := hb
  have : x = x' := mul_right_cancel₀ hd (hx.trans hx'.symm)
  subst this
  rw [e, e', limited_unique mn mx x iv iv' hl hl']

/-- what B.1/B.2 imply by themselves: the closed interval is between the two bounds -/
theorem B1_interval (mn mx tpg ton delta tgo : Rat) (h : mn ≤ mx) (hb : B1 mn mx tpg ton delta tgo) :
    tpg + mn ≤ tgo ∧ tgo ≤ tpg + mx := by
  obtain ⟨x, iv, _, hl, e⟩ := hb
  have := limited_bounds mn mx x iv h hl
  constructor <;> linarith [this.1, this.2]

theorem admit_sat_B1 (c : GCfg) (hc : c.minI ≤ c.maxI) (s : GState) (t ton : Rat)
    (h : (admitPkt c s t ton).2 = .admitted) :
    ∃ tgo, (admitPkt c s t ton).1 = { s with tpg := some t, tgo := some tgo } ∧ B1 c.minI c.maxI t ton s.delta tgo := by
  rcases admit_cases c s t ton with ⟨_, e⟩ | ⟨_, _, e⟩ | ⟨_, _, _, e⟩ | ⟨h1, h2, hd, e⟩
  · rw [e] at h; cases h
  · rw [e] at h; cases h
  · rw [e] at h; cases h
  · refine ⟨_, by rw [e], ton / s.delta, clampI c (ton / s.delta), div_mul_cancel₀ ton hd, limited_clamp _ _ _ hc, rfl⟩

theorem update_sat_B2 (c : GCfg) (hc : c.minI ≤ c.maxI) (s : GState) (t d a b : Rat) (hd : 0 < d)
    (ha : s.tpg = some a) (hb : s.tgo = some b) (ho : isOpen c s t = false) :
    ∃ tgo, (updDelta c s t d).1 = { s with delta := d, tgo := some tgo } ∧ B2 c.minI c.maxI a b s.delta d tgo := by
  rcases upd_cases c s t d with ⟨h, _⟩ | ⟨_, a', b', ha', hb', _, e⟩ | ⟨_, hh, _⟩
  · linarith
  · rw [ha] at ha'; rw [hb] at hb'; cases ha'; cases hb'
    refine ⟨_, by rw [e], s.delta / d * (b - a), clampI c (s.delta / d * (b - a)), ?_, limited_clamp _ _ _ hc, rfl⟩
    have : d ≠ 0 := ne_of_gt hd
    field_simp
  · rcases hh with h | h | h
    · rw [ha] at h; cases h
    · rw [hb] at h; cases h
    · rw [ho] at h; cases h

end FlexModel.Dcc

/-
Helper lemmas over `Rat` for the adaptive DCC and the gate keeper (C19).  Uses single Mathlib modules.
-/
import Mathlib.Tactic.Linarith
import Mathlib.Tactic.NormNum
import Mathlib.Algebra.Order.Field.Rat
import FlexModel.Dcc.Adaptive
import FlexModel.Dcc.Gate
import FlexModel.Dcc.Spec

namespace FlexModel.Dcc
open Spec

/-! ## Adaptive -/

theorem outsideUnit_iff (v : Rat) : outsideUnit v = true ↔ (v < 0 ∨ 1 < v) := by
  unfold outsideUnit
  simp only [Bool.not_eq_true', decide_eq_false_iff_not, not_and_or, not_le]

theorem outsideUnit_false_iff (v : Rat) : outsideUnit v = false ↔ (0 ≤ v ∧ v ≤ 1) := by
  unfold outsideUnit
  simp

/-- the state the Spec equations prescribe for an accepted call -/
def specNext (p : Params) (s : AState) (l lp : Rat) (g gp : Option Rat) : AState :=
  let e := effective l lp g gp
  let r := limeric p.alpha p.beta p.cbrTarget p.deltaMax p.deltaMin p.deltaUpMax p.deltaDownMax s.cbrItsS s.delta e.1 e.2
  ⟨r.1, r.2⟩

theorem aUpdate_ok (p : Params) (s : AState) (l lp : Rat) (g gp : Option Rat)
    (hl : outsideUnit l = false) (hlp : outsideUnit lp = false) :
    aUpdate p s l lp g gp = .ok (specNext p s l lp g gp) := by
  unfold aUpdate
  simp only [hl, hlp, Bool.false_eq_true, if_false]
  cases g <;> cases gp <;> rfl

theorem aUpdate_err (p : Params) (s : AState) (l lp : Rat) (g gp : Option Rat)
    (h : outsideUnit l = true ∨ outsideUnit lp = true) : ∃ e, aUpdate p s l lp g gp = .error e := by
  unfold aUpdate
  by_cases hl : outsideUnit l = true
  · exact ⟨.local, by simp [hl]⟩
  · have hlp : outsideUnit lp = true := h.resolve_left hl
    exact ⟨.localPrev, by simp [hl, hlp]⟩

theorem eq65_bounds (dmin dmax x : Rat) (h : dmin ≤ dmax) :
    dmin ≤ eq6 dmin (eq5 dmax x) ∧ eq6 dmin (eq5 dmax x) ≤ dmax := by
  unfold eq6 eq5
  split_ifs <;> constructor <;> linarith

theorem specNext_bounds (p : Params) (s : AState) (l lp : Rat) (g gp : Option Rat) (h : p.deltaMin ≤ p.deltaMax) :
    p.deltaMin ≤ (specNext p s l lp g gp).delta ∧ (specNext p s l lp g gp).delta ≤ p.deltaMax := by
  simp only [specNext, limeric]
  exact eq65_bounds _ _ _ h

theorem aUpdate_cases (p : Params) (s : AState) (l lp : Rat) (g gp : Option Rat) :
    aUpdate p s l lp g gp = .ok (specNext p s l lp g gp) ∨ ∃ e, aUpdate p s l lp g gp = .error e := by
  by_cases hl : outsideUnit l = true
  · exact Or.inr (aUpdate_err p s l lp g gp (Or.inl hl))
  · by_cases hlp : outsideUnit lp = true
    · exact Or.inr (aUpdate_err p s l lp g gp (Or.inr hlp))
    · exact Or.inl (aUpdate_ok p s l lp g gp (by simpa using hl) (by simpa using hlp))

/-! ## Gate keeper -/

theorem clampI_bounds (c : GCfg) (x : Rat) (h : c.minI ≤ c.maxI) : c.minI ≤ clampI c x ∧ clampI c x ≤ c.maxI := by
  unfold clampI
  exact ⟨le_min (le_max_right _ _) h, min_le_right _ _⟩

theorem isOpen_none (c : GCfg) (s : GState) (t : Rat) (h : s.tgo = none) : isOpen c s t = true := by
  simp [isOpen, h]

theorem isOpen_some (c : GCfg) (s : GState) (t b : Rat) (h : s.tgo = some b) :
    isOpen c s t = true ↔ b - c.eps ≤ t := by
  simp [isOpen, h]

/-- invariant: δ ≠ 0, and either nothing was admitted yet or the scheduled closed interval is within [MIN, MAX] -/
def GInv (c : GCfg) (s : GState) : Prop :=
  s.delta ≠ 0 ∧ ((s.tpg = none ∧ s.tgo = none) ∨
    ∃ a b, s.tpg = some a ∧ s.tgo = some b ∧ a + c.minI ≤ b ∧ b ≤ a + c.maxI)

theorem ginv_init (c : GCfg) (d : Rat) (h : d ≠ 0) : GInv c (GState.init d) :=
  ⟨h, Or.inl ⟨rfl, rfl⟩⟩

theorem admit_cases (c : GCfg) (s : GState) (t ton : Rat) :
    (ton ≤ 0 ∧ admitPkt c s t ton = (s, .valueError)) ∨
    (0 < ton ∧ isOpen c s t = false ∧ admitPkt c s t ton = (s, .rejected)) ∨
    (0 < ton ∧ isOpen c s t = true ∧ s.delta = 0 ∧ admitPkt c s t ton = ({ s with tpg := some t }, .zeroDiv)) ∨
    (0 < ton ∧ isOpen c s t = true ∧ s.delta ≠ 0 ∧
      admitPkt c s t ton = ({ s with tpg := some t, tgo := some (t + clampI c (ton / s.delta)) }, .admitted)) := by
  unfold admitPkt
  by_cases h1 : ton ≤ 0
  · left; simp [h1]
  · have h1' : 0 < ton := not_le.mp h1
    by_cases h2 : isOpen c s t = true
    · by_cases h3 : s.delta = 0
      · right; right; left; simp [h1, h2, h3, h1']
      · right; right; right; simp [h1, h2, h3, h1']
    · right; left
      have h2' : isOpen c s t = false := by simpa using h2
      simp [h1, h2', h1']

theorem upd_cases (c : GCfg) (s : GState) (t d : Rat) :
    (d ≤ 0 ∧ updDelta c s t d = (s, .valueError)) ∨
    (0 < d ∧ (∃ a b, s.tpg = some a ∧ s.tgo = some b ∧ isOpen c s t = false ∧
        updDelta c s t d = ({ s with delta := d, tgo := some (a + clampI c ((s.delta / d) * (b - a))) }, .done))) ∨
    (0 < d ∧ (s.tpg = none ∨ s.tgo = none ∨ isOpen c s t = true) ∧ updDelta c s t d = ({ s with delta := d }, .done)) := by
  unfold updDelta
  by_cases h1 : d ≤ 0
  · left; simp [h1]
  · have h1' : 0 < d := not_le.mp h1
    right
    cases ha : s.tpg with
    | none => right; simp [h1, h1']
    | some a =>
      cases hb : s.tgo with
      | none => right; simp [h1, h1']
      | some b =>
        by_cases h2 : isOpen c s t = true
        · right; simp [h1, h1', h2]
        · left
          have h2' : isOpen c s t = false := by simpa using h2
          exact ⟨h1', a, b, rfl, rfl, h2', by simp [h1, h2']⟩

theorem ginv_admit (c : GCfg) (s : GState) (t ton : Rat) (hc : c.minI ≤ c.maxI) (h : GInv c s) :
    GInv c (admitPkt c s t ton).1 := by
  rcases admit_cases c s t ton with ⟨_, e⟩ | ⟨_, _, e⟩ | ⟨_, _, h0, _⟩ | ⟨_, _, _, e⟩
  · rw [e]; exact h
  · rw [e]; exact h
  · exact absurd h0 h.1
  · rw [e]
    have hb := clampI_bounds c (ton / s.delta) hc
    exact ⟨h.1, Or.inr ⟨t, _, rfl, rfl, by linarith [hb.1], by linarith [hb.2]⟩⟩

theorem ginv_upd (c : GCfg) (s : GState) (t d : Rat) (hc : c.minI ≤ c.maxI) (h : GInv c s) :
    GInv c (updDelta c s t d).1 := by
  rcases upd_cases c s t d with ⟨_, e⟩ | ⟨hd, a, b, ha, hb, _, e⟩ | ⟨hd, _, e⟩
  · rw [e]; exact h
  · rw [e]
    have hcl := clampI_bounds c ((s.delta / d) * (b - a)) hc
    exact ⟨ne_of_gt hd, Or.inr ⟨a, _, ha, rfl, by linarith [hcl.1], by linarith [hcl.2]⟩⟩
  · rw [e]
    exact ⟨ne_of_gt hd, h.2⟩

theorem upd_tpg (c : GCfg) (s : GState) (t d : Rat) : (updDelta c s t d).1.tpg = s.tpg := by
  rcases upd_cases c s t d with ⟨_, e⟩ | ⟨_, a, b, _, _, _, e⟩ | ⟨_, _, e⟩ <;> rw [e]

theorem ginv_step (c : GCfg) (s : GState) (op : GOp) (hc : c.minI ≤ c.maxI) (h : GInv c s) : GInv c (gStep c s op) := by
  cases op with
  | admitPkt t ton => exact ginv_admit c s t ton hc h
  | upd t d => exact ginv_upd c s t d hc h
  | query t => exact h

theorem ginv_run (c : GCfg) (hc : c.minI ≤ c.maxI) : ∀ (ops : List GOp) (s : GState), GInv c s → GInv c (gRun c s ops) := by
  intro ops
  induction ops with
  | nil => intro s h; exact h
  | cons op ops ih => intro s h; exact ih _ (ginv_step c s op hc h)

theorem spaced_mono (g g' : Rat) (h : g' ≤ g) : ∀ (ts : List Rat) (o : Option Rat), spaced g o ts = true → spaced g' o ts = true := by
  intro ts
  induction ts with
  | nil => intro o _; cases o <;> rfl
  | cons t ts ih =>
    intro o ho
    cases o with
    | none => exact ih _ ho
    | some a =>
      simp only [spaced, Bool.and_eq_true, decide_eq_true_eq] at ho ⊢
      exact ⟨by linarith [ho.1], ih _ ho.2⟩

theorem spaced_run (c : GCfg) (hc : c.minI ≤ c.maxI) : ∀ (ops : List GOp) (s : GState), GInv c s →
    spaced (c.minI - c.eps) s.tpg (admissions c s ops) = true := by
  intro ops
  induction ops with
  | nil => intro s _; cases h : s.tpg <;> simp [admissions, spaced]
  | cons op ops ih =>
    intro s h
    cases op with
    | query t => exact ih s h
    | upd t d =>
      have := ih _ (ginv_upd c s t d hc h)
      rw [upd_tpg] at this
      exact this
    | admitPkt t ton =>
      have hi := ginv_admit c s t ton hc h
      have ih' := ih _ hi
      rcases admit_cases c s t ton with ⟨_, e⟩ | ⟨_, _, e⟩ | ⟨_, _, h0, _⟩ | ⟨_, ho, _, e⟩
      · simp only [admissions, e] at ih' ⊢; simpa using ih'
      · simp only [admissions, e] at ih' ⊢; simpa using ih'
      · exact absurd h0 h.1
      · simp only [admissions, e] at ih' ⊢
        simp only [if_true]
        rcases h.2 with ⟨hp, _⟩ | ⟨a, b, hp, hg, hlo, _⟩
        · rw [hp]; exact ih'
        · rw [hp]
          have := (isOpen_some c s t b hg).1 ho
          simp only [spaced, Bool.and_eq_true, decide_eq_true_eq]
          exact ⟨by linarith, ih'⟩

/-- `_t_pg` is the time of the last admission -/
theorem tpg_last (c : GCfg) (hc : c.minI ≤ c.maxI) : ∀ (ops : List GOp) (s : GState), GInv c s →
    (gRun c s ops).tpg = (admissions c s ops).foldl (fun _ t => some t) s.tpg := by
  intro ops
  induction ops with
  | nil => intro s _; rfl
  | cons op ops ih =>
    intro s h
    cases op with
    | query t => exact ih s h
    | upd t d =>
      have := ih _ (ginv_upd c s t d hc h)
      rw [upd_tpg] at this
      exact this
    | admitPkt t ton =>
      have ih' := ih _ (ginv_admit c s t ton hc h)
      rcases admit_cases c s t ton with ⟨_, e⟩ | ⟨_, _, e⟩ | ⟨_, _, h0, _⟩ | ⟨_, _, _, e⟩
      · simp only [gRun, List.foldl, gStep, admissions, e] at ih' ⊢; simpa using ih'
      · simp only [gRun, List.foldl, gStep, admissions, e] at ih' ⊢; simpa using ih'
      · exact absurd h0 h.1
      · simp only [gRun, List.foldl, gStep, admissions, e] at ih' ⊢
        simpa using ih'

end FlexModel.Dcc

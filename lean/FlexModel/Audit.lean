/-
`#audit_module M` prints, for every theorem declared in module `M`, one line
`AUDIT <name> <axiom> <axiom> …` (the transitive axioms the kernel-checked proof depends on).
The harness parses these lines; the set must be ⊆ {propext, Classical.choice, Quot.sound}.
-/
import Lean
open Lean Elab Command

namespace FlexModel.Audit

elab "#audit_module " m:ident : command => do
  let env ← getEnv
  let modName := m.getId
  let some idx := env.getModuleIdx? modName
    | throwError "unknown module {modName}"
  let mut out : Array String := #[]
  let consts := env.header.moduleData[idx.toNat]!.constants
  for ci in consts do
    match ci with
    | .thmInfo t =>
      let n := t.name
      if n.isInternal then continue
      let axs ← Lean.collectAxioms n
      let axs := axs.qsort (fun a b => a.toString < b.toString)
      out := out.push s!"AUDIT {n} {" ".intercalate (axs.toList.map toString)}"
    | _ => pure ()
  logInfo (String.intercalate "\n" out.toList)

end FlexModel.Audit

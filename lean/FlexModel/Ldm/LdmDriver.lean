/-
Line-protocol driver of the LDM model (C12, C13, C14).  One op per line, one canonical line out.
-/
import FlexModel.Proto
import FlexModel.Ldm.Subs
namespace FlexModel.Ldm
open FlexModel.Proto

/-- a callback's action as the line protocol carries it -/
inductive DAct where
  | raises
  | unsub (app : Nat) (k : Option Nat)
  | dereg (app : Nat)
  deriving Inhabited

structure DSt where
  ready : Bool := false
  cfg : Cfg := default
  uniqueIds : Bool := false
  s : SSt := default
  issued : List (SubReq × Nat) := []
  /-- what the callbacks do when invoked (C14): callback id ↦ action; an unsubscribe names its target by the index of
  the subscribe call (resolved when the callback runs) -/
  acts : List (Nat × DAct) := []
  deriving Inhabited

/-! ## parsing -/

def hexVal (c : Char) : Option Nat :=
  if '0' ≤ c && c ≤ '9' then some (c.toNat - 48)
  else if 'a' ≤ c && c ≤ 'f' then some (c.toNat - 87)
  else none

def unhex : List Char → Option ByteArray
  | [] => some ByteArray.empty
  | a :: b :: t => do
    let x ← hexVal a
    let y ← hexVal b
    let r ← unhex t
    pure ((ByteArray.mk #[UInt8.ofNat (x * 16 + y)]) ++ r)
  | _ => none

def unhexStr (cs : List Char) : Option String :=
  match cs with
  | '%' :: t => do
    let b ← unhex t
    String.fromUTF8? b
  | _ => some (String.ofList cs)

/-- split at the first `;` -/
def untilSemi : List Char → List Char → Option (List Char × List Char)
  | _, [] => none
  | acc, ';' :: t => some (acc.reverse, t)
  | acc, c :: t => untilSemi (c :: acc) t

mutual
partial def parseVal : List Char → Option (JVal × List Char)
  | 'N' :: t => some (.null, t)
  | 'T' :: t => some (.bool true, t)
  | 'F' :: t => some (.bool false, t)
  | 'I' :: t => do
    let (a, r) ← untilSemi [] t
    let i ← (String.ofList a).toInt?
    pure (.int i, r)
  | 'S' :: t => do
    let (a, r) ← untilSemi [] t
    let s ← unhexStr a
    pure (.str s, r)
  | 'B' :: t => do
    let (a, r) ← untilSemi [] t
    let _ ← unhex a
    pure (.bytes (String.ofList a), r)
  | 'L' :: t => do
    let (xs, r) ← parseItems t
    pure (.list xs, r)
  | 'U' :: t => do
    let (xs, r) ← parseItems t
    pure (.tuple xs, r)
  | 'D' :: t => do
    let (kvs, r) ← parseEntries t
    pure (.dict kvs, r)
  | _ => none
partial def parseItems : List Char → Option (JList × List Char)
  | ';' :: t => some (.nil, t)
  | cs => do
    let (v, r) ← parseVal cs
    let (vs, r2) ← parseItems r
    pure (.cons v vs, r2)
partial def parseEntries : List Char → Option (JDict × List Char)
  | ';' :: t => some (.nil, t)
  | 'K' :: t => do
    let (a, r) ← untilSemi [] t
    let k ← unhexStr a
    let (v, r2) ← parseVal r
    let (rest, r3) ← parseEntries r2
    pure (.cons k v rest, r3)
  | _ => none
end

def jval? (s : String) : Option JVal :=
  match parseVal s.toList with
  | some (v, []) => some v
  | _ => none

def nats? (ts : List String) : Option (List Nat) := ts.mapM nat?

/-- `-` = empty, else comma separated naturals -/
def csvNat? (s : String) : Option (List Nat) :=
  if s == "-" then some [] else (s.splitOn ",").mapM nat?

def optInt? (s : String) : Option (Option Int) :=
  if s == "-" then some none else (int? s).map some

def cmpOp? : String → Option CmpOp
  | "eq" => some .eq | "ne" => some .ne | "gt" => some .gt | "lt" => some .lt
  | "ge" => some .ge | "le" => some .le | "like" => some .like | "notlike" => some .notlike
  | _ => none

def stmt? (s : String) : Option Stmt :=
  match s.splitOn "~" with
  | [a, o, r] => do
    let attr ← unhexStr a.toList
    let op ← cmpOp? o
    let ref ← jval? r
    pure { attr := attr.splitOn ".", op := op, ref := ref }
  | _ => none

/-- `-` none, `!` not a Filter, `s`, `s&s`, `s|s`, `s?s` (two statements, operator None) -/
def filter? (s : String) : Option (Bool × Option Filter) :=
  if s == "-" then some (false, none)
  else if s == "!" then some (true, none)
  else
    let two (sep : String) (lop : Option LogOp) : Option (Bool × Option Filter) :=
      match s.splitOn sep with
      | [a, b] => do
        let s1 ← stmt? a
        let s2 ← stmt? b
        pure (false, some { s1 := s1, lop := lop, s2 := some s2 })
      | _ => none
    if s.contains '&' then two "&" (some .and)
    else if s.contains '|' then two "|" (some .or)
    else if s.contains '?' then two "?" none
    else do
      let s1 ← stmt? s
      pure (false, some { s1 := s1, lop := none, s2 := none })

def orderKey? (s : String) : Option OrderKey :=
  match s.splitOn ":" with
  | [a, "a"] => do let attr ← unhexStr a.toList; pure { attr := attr.splitOn ".", dir := .asc }
  | [a, "d"] => do let attr ← unhexStr a.toList; pure { attr := attr.splitOn ".", dir := .desc }
  | _ => none

/-- `-` none, `!` invalid, `=` the empty tuple, else comma separated keys -/
def order? (s : String) : Option (Bool × Option (List OrderKey)) :=
  if s == "-" then some (false, none)
  else if s == "!" then some (true, none)
  else if s == "=" then some (false, some [])
  else do
    let ks ← (s.splitOn ",").mapM orderKey?
    pure (false, some ks)

def request? : List String → Option Request
  | [app, types, prio, order, filter] => do
    let app ← nat? app
    let types ← csvNat? types
    let prio ← optInt? prio
    let (ob, o) ← order? order
    let (fb, f) ← filter? filter
    pure { app := app, types := types, prio := prio, orderBad := ob, order := o, filterBad := fb, filter := f }
  | _ => none

def loc? : List String → Option Loc
  | [lat, lon, majC, minC, majO, alt, altC, radius, relDist, relDir] => do
    pure { lat := ← int? lat, lon := ← int? lon, majC := ← int? majC, minC := ← int? minC, majO := ← int? majO,
           alt := ← int? alt, altC := ← int? altC, radius := ← int? radius, relDist := ← int? relDist, relDir := ← int? relDir }
  | _ => none

/-! ## printing -/

def serReqOut : ReqOut → String
  | .refused c => s!"r {c}"
  | .ok rs => " ".intercalate ("ok" :: rs.map Record.ser)
  | .exc e => s!"x {e.name}"

def serOut : Out → String
  | .code n => s!"c {n}"
  | .req r => serReqOut r
  | .exc e => s!"x {e.name}"
  | .none => "-"

def serCall (c : Call) : String :=
  s!"@{c.cb}:{c.app}[" ++ " ".intercalate (c.objs.map Record.ser) ++ "]"

def serSOut (o : SOut) : String :=
  " ".intercalate (serOut o.out :: o.calls.map serCall)

/-- C12 `state` / `dump` line: `s n=<next id> p=<providers> c=<consumers> i=<row ids>` (+ ` {id record}…` for dump) -/
def serState (s : St) (full : Bool) : String :=
  let csv (xs : List Nat) : String := if xs.isEmpty then "-" else ",".intercalate (xs.map toString)
  let sorted (xs : List Nat) : List Nat := xs.mergeSort (fun a b => decide (a ≤ b))
  let head := s!"s n={s.db.next} p={csv (sorted s.providers)} c={csv (sorted s.consumers)} i={csv (s.db.rows.map (·.1))}"
  if full then " ".intercalate (head :: s.db.rows.map (fun p => s!"{p.1}:" ++ p.2.ser)) else head

/-! ## step -/

/-- the behaviour of the callbacks at this point of the history -/
def DSt.beta (d : DSt) (cb : Nat) : CbAct :=
  match d.acts.find? (fun p => p.1 == cb) with
  | none => .none
  | some (_, .raises) => .raises
  | some (_, .unsub app none) => .unsub app none
  | some (_, .unsub app (some k)) => .unsub app d.issued[k]?
  | some (_, .dereg app) => .dereg app

/-- `-` none, `x` raises, `u<app>:<k>` / `u<app>:-` unsubscribe (k = index of the subscribe call), `d<app>` deregister -/
def act? (s : String) : Option (Option DAct) :=
  if s == "-" then some none
  else if s == "x" then some (some .raises)
  else match s.toList with
    | 'd' :: t => (nat? (String.ofList t)).map (fun a => some (.dereg a))
    | 'u' :: t =>
      match (String.ofList t).splitOn ":" with
      | [a, k] => do
        let a ← nat? a
        if k == "-" then pure (some (.unsub a none))
        else do
          let k ← nat? k
          pure (some (.unsub a (some k)))
      | _ => none
    | _ => none

def doOp (d : DSt) (op : SOp) : DSt × String :=
  let (s1, o) := sstep d.cfg d.uniqueIds d.beta d.s op
  ({ d with s := s1 }, serSOut o)

def bool? : String → Option Bool
  | "0" => some false | "1" => some true | _ => none

def ldmStep (d : DSt) (t : List String) : DSt × String :=
  match t with
  | ["init", utc, mono, lat, lon, alt, rel, af, g, u] =>
    match int? utc, int? mono, int? lat, int? lon, int? alt, nat? rel, bool? af, bool? g, bool? u with
    | some utc, some mono, some lat, some lon, some alt, some rel, some af, some g, some u =>
      if rel ≤ 7 then
        ({ ready := true, cfg := { area := { lat := lat, lon := lon, alt := alt, relDist := rel }, areaFixed := af, gated := g },
           uniqueIds := u, s := SSt.init utc mono, issued := [], acts := [] }, "ok")
      else (d, "bad-op")
    | _, _, _, _, _, _, _, _, _ => (d, "bad-op")
  | _ =>
  if !d.ready then (d, "bad-op") else
  match t with
  | "regp" :: app :: perms =>
    match nat? app, nats? perms with
    | some app, some perms => doOp d (.core (.regProvider app perms))
    | _, _ => (d, "bad-op")
  | ["deregp", app] =>
    match nat? app with
    | some app => doOp d (.core (.deregProvider app))
    | _ => (d, "bad-op")
  | "regc" :: app :: perms =>
    match nat? app, nats? perms with
    | some app, some perms => doOp d (.core (.regConsumer app perms))
    | _, _ => (d, "bad-op")
  | ["deregc", app] =>
    match nat? app with
    | some app => doOp d (.core (.deregConsumer app))
    | _ => (d, "bad-op")
  | ["add", app, ts, lat, lon, majC, minC, majO, alt, altC, radius, relDist, relDir, validity, obj] =>
    match nat? app, int? ts, loc? [lat, lon, majC, minC, majO, alt, altC, radius, relDist, relDir], int? validity, jval? obj with
    | some app, some ts, some loc, some validity, some (.dict kvs) => doOp d (.core (.add app ts loc (.dict kvs) validity))
    | _, _, _, _, _ => (d, "bad-op")
  | ["upd", app, id, obj] =>
    match nat? app, nat? id, jval? obj with
    | some app, some id, some (.dict kvs) => doOp d (.core (.update app id (.dict kvs)))
    | _, _, _ => (d, "bad-op")
  | ["del", app, id] =>
    match nat? app, nat? id with
    | some app, some id => doOp d (.core (.delete app id))
    | _, _ => (d, "bad-op")
  | "req" :: rest =>
    match request? rest with
    | some q => doOp d (.core (.request q))
    | none => (d, "bad-op")
  | "treq" :: rest =>
    match request? rest with
    | some q => (d, serReqOut (if4RequestTiny d.s.core.consumers (d.s.core.db.rows.map (·.2)) q))
    | none => (d, "bad-op")
  | ["gc"] => doOp d (.core .maintain)
  -- C13 (round 5): `LDMMaintenance.del_provider_data(container)` - removal BY VALUE: the first stored container equal to
  -- the argument goes (`removeEq`, the operation the maintenance passes are made of); no result
  | ["delv", app, ts, lat, lon, majC, minC, majO, alt, altC, radius, relDist, relDir, validity, obj] =>
    match nat? app, int? ts, loc? [lat, lon, majC, minC, majO, alt, altC, radius, relDist, relDir], int? validity, jval? obj with
    | some app, some ts, some loc, some validity, some (.dict kvs) =>
      let r : Record := { appId := app, timestamp := ts, loc := loc, obj := .dict kvs, validity := validity }
      let core := d.s.core
      ({ d with s := { d.s with core := { core with db := { core.db with rows := removeEq core.db.rows r } } } }, "-")
    | _, _, _, _, _ => (d, "bad-op")
  -- C12: the state the clause theorems speak about (identifier counter, registries, row ids / rows), compared with
  -- the real DictionaryDataBase and LDMService after every operation
  | ["state"] => (d, serState d.s.core false)
  | ["dump"] => (d, serState d.s.core true)
  | ["adv", ms] =>
    match nat? ms with
    | some ms => doOp d (.core (.advance ms))
    | none => (d, "bad-op")
  | "sub" :: cb :: app :: types :: prio :: filter :: notify :: mult :: order :: rest =>
    let act : Option (Option DAct) := match rest with
      | [] => some none
      | [a] => act? a
      | _ => none
    match nat? cb, nat? app, csvNat? types, optInt? prio, filter? filter, optInt? notify, optInt? mult, order? order, act with
    | some cb, some app, some types, some prio, some (fb, f), some notify, some mult, some (ob, o), some act =>
      let r : SubReq := { app := app, types := types, prio := prio, filterBad := fb, filter := f, notify := notify,
                          mult := mult, orderBad := ob, order := if ob then some [] else o }
      let (d1, out) := doOp d (.subscribe r cb)
      if out == "c 0" then
        -- canonical subscription id: index of the first issued subscription with the same id
        let k := if d.uniqueIds then d.issued.length else
          match d.issued.findIdx? (fun p => p.1 == r) with
          | some i => i
          | none => d.issued.length
        ({ d1 with issued := d.issued ++ [(r, cb)],
                   acts := match act with | some a => d.acts ++ [(cb, a)] | none => d.acts }, s!"c 0 {k}")
      else (d1, out)
    | _, _, _, _, _, _, _, _, _ => (d, "bad-op")
  | ["unsub", app, k] =>
    match nat? app with
    | some app =>
      if k == "-" then doOp d (.unsubscribe app none)
      else match nat? k with
        | some k => doOp d (.unsubscribe app d.issued[k]?)
        | none => (d, "bad-op")
    | none => (d, "bad-op")
  | ["attend"] => doOp d .attend
  | _ => (d, "bad-op")

def ldmDomain : Domain := { σ := DSt, init := {}, step := ldmStep }

end FlexModel.Ldm

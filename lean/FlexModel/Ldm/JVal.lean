/-
Python values as they occur in LDM data objects (decoded CAM/DENM/VAM dictionaries) and filter reference
values: None | bool | int | str | bytes | list | tuple | dict (insertion-ordered, string keys).
Mutual (not nested) inductives so that `DecidableEq` can be derived.
Core Lean only.
-/
namespace FlexModel.Ldm

mutual
inductive JVal where
  | null
  | bool (b : Bool)
  | int (i : Int)
  | str (s : String)
  | bytes (hex : String)          -- lower-case hex, two characters per byte
  | list (xs : JList)
  | tuple (xs : JList)
  | dict (kvs : JDict)
  deriving DecidableEq
inductive JList where
  | nil
  | cons (h : JVal) (t : JList)
  deriving DecidableEq
inductive JDict where
  | nil
  | cons (k : String) (v : JVal) (t : JDict)
  deriving DecidableEq
end

instance : Inhabited JVal := ⟨.null⟩
instance : Inhabited JList := ⟨.nil⟩
instance : Inhabited JDict := ⟨.nil⟩

namespace JList
def toList : JList → List JVal
  | .nil => []
  | .cons h t => h :: t.toList
def ofList : List JVal → JList
  | [] => .nil
  | h :: t => .cons h (ofList t)
def length : JList → Nat
  | .nil => 0
  | .cons _ t => t.length + 1
end JList

namespace JDict
def toList : JDict → List (String × JVal)
  | .nil => []
  | .cons k v t => (k, v) :: t.toList
def ofList : List (String × JVal) → JDict
  | [] => .nil
  | (k, v) :: t => .cons k v (ofList t)
/-- `d[k]` / `k in d` -/
def get? : JDict → String → Option JVal
  | .nil, _ => none
  | .cons k v t, q => if k = q then some v else t.get? q
def keys : JDict → List String
  | .nil => []
  | .cons k _ t => k :: t.keys
def length : JDict → Nat
  | .nil => 0
  | .cons _ _ t => t.length + 1
/-- `d[k] = v` on a copy: replaces in place (position kept) or appends -/
def set : JDict → String → JVal → JDict
  | .nil, q, x => .cons q x .nil
  | .cons k v t, q, x => if k = q then .cons k x t else .cons k v (t.set q x)
end JDict

/-- Python truthiness -/
def JVal.truthy : JVal → Bool
  | .null => false
  | .bool b => b
  | .int i => i != 0
  | .str s => s != ""
  | .bytes s => s != ""
  | .list xs => xs != .nil
  | .tuple xs => xs != .nil
  | .dict kvs => kvs != .nil

/-- ints and bools are one numeric class in Python (`True == 1`) -/
def JVal.num? : JVal → Option Int
  | .int i => some i
  | .bool b => some (if b then 1 else 0)
  | _ => none

/-! ## line-protocol serialisation (driver output; the parser lives in the driver file)

Strings are written raw when they consist of harmless characters, else as `%` + hex of the UTF-8 bytes. -/

def hexDigit (n : Nat) : Char :=
  if n < 10 then Char.ofNat (48 + n) else Char.ofNat (87 + n)

def hexOfString (s : String) : String :=
  s.toUTF8.foldl (fun acc b => (acc.push (hexDigit (b.toNat / 16))).push (hexDigit (b.toNat % 16))) ""

def plainChar (c : Char) : Bool :=
  c.isAlphanum || c == '_' || c == '-' || c == '.'

def serStr (s : String) : String :=
  if s.all plainChar then s else "%" ++ hexOfString s

mutual
def JVal.serAcc : JVal → String → String
  | .null, acc => acc ++ "N"
  | .bool true, acc => acc ++ "T"
  | .bool false, acc => acc ++ "F"
  | .int i, acc => (acc ++ "I" ++ toString i).push ';'
  | .str s, acc => (acc ++ "S" ++ serStr s).push ';'
  | .bytes h, acc => (acc ++ "B" ++ h).push ';'
  | .list xs, acc => (xs.serAcc (acc ++ "L")).push ';'
  | .tuple xs, acc => (xs.serAcc (acc ++ "U")).push ';'
  | .dict kvs, acc => (kvs.serAcc (acc ++ "D")).push ';'
def JList.serAcc : JList → String → String
  | .nil, acc => acc
  | .cons h t, acc => t.serAcc (h.serAcc acc)
def JDict.serAcc : JDict → String → String
  | .nil, acc => acc
  | .cons k v t, acc => t.serAcc (v.serAcc ((acc ++ "K" ++ serStr k).push ';'))
end

def JVal.ser (v : JVal) : String := v.serAcc ""

end FlexModel.Ldm

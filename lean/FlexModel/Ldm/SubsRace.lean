/-
C14 (round 4) — a removal (unsubscribe / deregistration) racing an in-flight attendance on another thread.

Two threads, every schedule.  The attendance thread serves ONE due subscription A:
  [stored? section] ; search / multiplicity / ordering ; [stored? section] ; decision section ; callback
(the decision section is the locked part of `process_notifications`; the callback is invoked with no lock held).
The removal thread runs `remove_subscription(A)` in one locked section and then returns to its caller (ACCEPTED).
WHERE the code tests "is A still stored" is read from the source (`Generated.LdmSections.attendSteps / notifySteps`,
harness/gen_ldm_subs.py): `guardsOf`.  Instructions are atomic; lock acquisition and release are separate steps, so
every interleaving of the locked sections and of the unlocked steps is a schedule.

The state records what the oracle of harness/props/c14.py `RaceRun.judge` reads from the event log:
`readyBG` (the search phase of A's attendance ended before the removal returned), `decBG` (the decision section decided
to notify before the removal returned), `cbAG` (the callback was invoked after the removal had returned).
`reach g arm z` is the set of reachable states found by a work-list search; `all_closed` checks (kernel evaluation) that it is
closed under both threads' steps, so it contains the state after EVERY schedule (`run_reach`), and the safety statements are
read off it.  The statement lists of the source are passed in by Props/C14.lean (`Generated.LdmSections`).
Core Lean only.
-/
namespace FlexModel.Ldm.SubsRace

/-- where the code tests that the subscription is still stored -/
structure Guards where
  top : Bool    -- in a locked section BEFORE the data base search
  mid : Bool    -- in a locked section after search / multiplicity / ordering, directly before `process_notifications`
  dec : Bool    -- inside the locked decision section of `process_notifications`, before the notification time is stored
deriving DecidableEq, Repr

/-- instructions of the attendance thread -/
inductive IA where
  | acq | rel | guard | search | decide | callback
deriving DecidableEq, Repr

/-- instructions of the removal thread -/
inductive IR where
  | acq | remove | rel | ret
deriving DecidableEq, Repr

def progA (g : Guards) : List IA :=
  (if g.top then [.acq, .guard, .rel] else []) ++ [.search] ++ (if g.mid then [.acq, .guard, .rel] else [])
    ++ [.acq, .decide, .rel, .callback]

def progR : List IR := [.acq, .remove, .rel, .ret]

structure RS where
  pa : List IA
  pr : List IR
  lock : Option Bool      -- holder of LDMService._lock: `some false` the attendance, `some true` the removal
  stored : Bool           -- A ∈ subscriptions
  lastRec : Bool          -- A has a last-checked record
  fire : Bool             -- register of the attendance: the decision section decided to notify
  gone : Bool             -- the removal has returned to its caller
  readyBG : Bool          -- the search phase ended before the removal returned
  decBG : Bool            -- the decision to notify was taken before the removal returned
  cbAG : Bool             -- the callback was invoked after the removal had returned
  cbs : Nat               -- callback invocations
deriving DecidableEq, Repr

def init (g : Guards) : RS :=
  { pa := progA g, pr := progR, lock := none, stored := true, lastRec := true, fire := false, gone := false,
    readyBG := false, decBG := false, cbAG := false, cbs := 0 }

/-- one step of the attendance thread (stutters when finished or blocked on the lock).
`arm`: a missing last-checked record is re-created with the current time (so an interval > 0 is not yet over);
`z`: the notification interval is None / 0 (otherwise it is > 0 and has elapsed since A's record, if A has one). -/
def stepA (g : Guards) (arm z : Bool) (s : RS) : RS :=
  match s.pa with
  | [] => s
  | .acq :: p => if s.lock = none then { s with pa := p, lock := some false } else s
  | .rel :: p => { s with pa := p, lock := none }
  | .guard :: p => if s.stored then { s with pa := p } else { s with pa := [.rel] }
  | .search :: p => { s with pa := p, readyBG := !s.gone }
  | .decide :: p =>
    let fireNow : RS := { s with pa := p, lastRec := true, fire := true, decBG := !s.gone }
    if g.dec && !s.stored then { s with pa := [.rel] }
    else if s.lastRec then fireNow
    else if !arm then fireNow
    else if z then fireNow
    else { s with pa := [.rel], lastRec := true }
  | .callback :: p => if s.fire then { s with pa := p, cbs := s.cbs + 1, cbAG := s.gone } else { s with pa := p }

/-- one step of the removal thread -/
def stepR (s : RS) : RS :=
  match s.pr with
  | [] => s
  | .acq :: p => if s.lock = none then { s with pr := p, lock := some true } else s
  | .remove :: p => { s with pr := p, stored := false, lastRec := false }
  | .rel :: p => { s with pr := p, lock := none }
  | .ret :: p => { s with pr := p, gone := true }

/-- a schedule is any list of thread choices (`false` the attendance, `true` the removal) -/
def step (g : Guards) (arm z : Bool) (s : RS) (t : Bool) : RS := if t then stepR s else stepA g arm z s

def run (g : Guards) (arm z : Bool) (sched : List Bool) : RS := sched.foldl (step g arm z) (init g)

/-! ## reachable set by a work-list search -/

def addNew (acc : List RS) (x : RS) : List RS := if acc.contains x then acc else acc ++ [x]
def pushNew (seen fr : List RS) (x : RS) : List RS := if seen.contains x then fr else fr ++ [x]

theorem mem_addNew (acc : List RS) (x y : RS) (h : x ∈ acc) : x ∈ addNew acc y := by
  unfold addNew
  split
  · exact h
  · exact List.mem_append_left _ h

/-- work-list search with fuel: `fr` the states still to expand, `seen` everything found so far -/
def bfs (g : Guards) (arm z : Bool) : Nat → List RS → List RS → List RS
  | 0, _, seen => seen
  | _ + 1, [], seen => seen
  | n + 1, s :: fr, seen =>
    let a := stepA g arm z s
    let r := stepR s
    bfs g arm z n (pushNew (addNew seen a) (pushNew seen fr a) r) (addNew (addNew seen a) r)

/-- the fuel exceeds the number of control states (13 x 5 x 3); whether the result is complete is CHECKED (`closed`) -/
def reach (g : Guards) (arm z : Bool) : List RS := bfs g arm z 400 [init g] [init g]

def closedOn (g : Guards) (arm z : Bool) (R : List RS) : Bool :=
  R.all (fun s => R.contains (stepA g arm z s) && R.contains (stepR s))

def closed (g : Guards) (arm z : Bool) : Bool := closedOn g arm z (reach g arm z)

theorem bfs_mono (g : Guards) (arm z : Bool) (x : RS) :
    ∀ (n : Nat) (fr seen : List RS), x ∈ seen → x ∈ bfs g arm z n fr seen := by
  intro n
  induction n with
  | zero => intro fr seen h; simpa [bfs] using h
  | succ n ih =>
    intro fr seen h
    cases fr with
    | nil => simpa [bfs] using h
    | cons s fr =>
      simp only [bfs]
      exact ih _ _ (mem_addNew _ _ _ (mem_addNew _ _ _ h))

/-- closure ⇒ the state after every schedule is in the set -/
theorem run_mem (g : Guards) (arm z : Bool) (h : closed g arm z = true) (sched : List Bool) :
    run g arm z sched ∈ reach g arm z := by
  have hstep : ∀ s ∈ reach g arm z, ∀ t, step g arm z s t ∈ reach g arm z := by
    intro s hs t
    have := (List.all_eq_true.mp h) s hs
    simp only [Bool.and_eq_true] at this
    cases t
    · simpa [step] using this.1
    · simpa [step] using this.2
  have hfold : ∀ (sch : List Bool) (s : RS), s ∈ reach g arm z → sch.foldl (step g arm z) s ∈ reach g arm z := by
    intro sch
    induction sch with
    | nil => intro s hs; simpa using hs
    | cons t r ih => intro s hs; simpa [List.foldl] using ih (step g arm z s t) (hstep s hs t)
  exact hfold sched (init g) (bfs_mono g arm z (init g) 400 [init g] [init g] (by simp))

/-! ## what the reachable sets say (tables checked by kernel evaluation, lifted to all schedules by `run_mem`) -/

/-- a callback after the removal returned lies in one of the two regions -/
def safeB (g : Guards) (z : Bool) (s : RS) : Bool := !s.cbAG || s.decBG || (!g.dec && z && s.readyBG)

/-- everything read off one reachable set: it is closed; a callback after the removal lies in a region (when the code
tests membership inside the decision section, or right before it with a re-armed record); at most one callback -/
def checkOn (g : Guards) (arm z : Bool) (R : List RS) : Bool :=
  closedOn g arm z R && ((!(g.dec || (g.mid && arm))) || R.all (safeB g z)) && R.all (fun s => decide (s.cbs ≤ 1))

theorem all_checked : ∀ (g : Guards) (arm z : Bool), checkOn g arm z (reach g arm z) = true := by
  intro ⟨t, m, d⟩ arm z
  cases t <;> cases m <;> cases d <;> cases arm <;> cases z <;> decide +kernel

theorem all_closed (g : Guards) (arm z : Bool) : closed g arm z = true := by
  have h := all_checked g arm z
  simp only [checkOn, Bool.and_eq_true] at h
  exact h.1.1

theorem regions_table (g : Guards) (arm z : Bool) (hg : (g.dec || (g.mid && arm)) = true) :
    (reach g arm z).all (safeB g z) = true := by
  have h := all_checked g arm z
  simp only [checkOn, Bool.and_eq_true, hg, Bool.not_true, Bool.false_or] at h
  exact h.1.2

theorem once_table (g : Guards) (arm z : Bool) : (reach g arm z).all (fun s => decide (s.cbs ≤ 1)) = true := by
  have h := all_checked g arm z
  simp only [checkOn, Bool.and_eq_true] at h
  exact h.2

/-- every schedule ends up in a reachable-set state -/
theorem run_reach (g : Guards) (arm z : Bool) (sched : List Bool) : run g arm z sched ∈ reach g arm z :=
  run_mem g arm z (all_closed g arm z) sched

/-! ## the guards of the source -/

/-- positions of the "stored?" test read from the classified statement lists of the source:
`top`: attend_subscription has a `lock, stored?, unlock` section before its "search";
`mid`: attend_subscription ENDS with `lock, stored?, unlock, notify` and neither "search" nor "order" follows the test;
`dec`: process_notifications is `lock, stored?, …, mark, unlock, callback`: the test opens the one locked section, which
stores the notification time, and the callback follows the section. -/
def guardsOf (attend notify : List String) : Guards :=
  let beforeSearch := attend.takeWhile (· != "search")
  let afterSearch := attend.dropWhile (· != "search")
  { top := afterSearch != [] && beforeSearch == ["lock", "stored?", "unlock"],
    mid := afterSearch != [] && attend.reverse.take 4 == ["notify", "unlock", "stored?", "lock"]
           && !(attend.reverse.drop 4).contains "notify" && !(beforeSearch.contains "order"),
    dec := notify.take 2 == ["lock", "stored?"] && notify.reverse.take 3 == ["callback", "unlock", "mark"]
           && (notify.filter (· == "lock")).length == 1 && (notify.filter (· == "callback")).length == 1 }

/-- does a missing last-checked record get re-created inside the decision section ("arm") -/
def armOf (notify : List String) : Bool := notify.contains "arm"

/-- the statement lists have the shape the thread programs assume: attend_subscription is (guard section)? ; search ;
early returns ; order ; (guard section)? ; notify  and  process_notifications is ONE locked section followed by the
callback -/
def shapeOk (attend notify : List String) : Bool :=
  let core := attend.filter (fun x => x != "return?")
  (core == ["search", "order", "lock", "stored?", "unlock", "notify"]
    || core == ["lock", "stored?", "unlock", "search", "order", "lock", "stored?", "unlock", "notify"]
    || core == ["search", "order", "notify"]
    || core == ["lock", "stored?", "unlock", "search", "order", "notify"])
  && (notify.filter (fun x => x != "stored?" && x != "arm") == ["lock", "last", "interval?", "mark", "unlock", "callback"])

end FlexModel.Ldm.SubsRace

/-
Helper lemmas for Props/C13.lean: the implementation model's operator table computes the specification's comparisons
(`opHolds_agrees`), the back-ends' statement test is the specification's, JSON storage (`select_round`: selecting from
the JSON image of a store = the JSON image of the selection, for reference values without list/tuple),
the model of `sorted()` on integer keys is the stable insertion sort, which is core's `List.mergeSort`.
-/
import FlexModel.Ldm.Query
namespace FlexModel.Ldm
open Spec

deriving instance DecidableEq for Except

/-! ## the operator table of the implementation model = the specification's comparisons -/

theorem isInfixL_iff (n : List Char) : ∀ h : List Char, isInfixL n h = true ↔ n <:+: h := by
  intro h
  induction h with
  | nil => simp [isInfixL, List.infix_nil]
  | cons c t ih =>
    simp only [isInfixL, Bool.or_eq_true, List.isPrefixOf_iff_prefix, ih, List.infix_cons_iff]

theorem occursIn_eq (n h : String) : occursIn n h = isInfixL n.toList h.toList := by
  unfold occursIn
  by_cases hh : n.toList <:+: h.toList
  · simp [hh, (isInfixL_iff _ _).mpr hh]
  · have : isInfixL n.toList h.toList = false := by
      cases hx : isInfixL n.toList h.toList with
      | false => rfl
      | true => exact absurd ((isInfixL_iff _ _).mp hx) hh
    simp [hh, this]

theorem cmp_int (a b : Int) :
    ((compare a b == .lt) = decide (a < b)) ∧ ((compare a b == .gt) = decide (b < a)) ∧
    ((compare a b != .gt) = (decide (b < a) == false)) ∧ ((compare a b != .lt) = (decide (a < b) == false)) := by
  simp only [compare, compareOfLessAndEq]
  by_cases h1 : a < b
  · have : ¬ b < a := by omega
    simp [h1, this]
  · by_cases h2 : a = b
    · subst h2; simp
    · have : b < a := by omega
      simp [h1, h2, this]

theorem cmp_str (a b : String) :
    ((compare a b == .lt) = decide (a < b)) ∧ ((compare a b == .gt) = decide (b < a)) ∧
    ((compare a b != .gt) = (decide (b < a) == false)) ∧ ((compare a b != .lt) = (decide (a < b) == false)) := by
  have hc : compare a b = compareOfLessAndEq a b := rfl
  rw [hc]
  simp only [compareOfLessAndEq]
  by_cases h1 : a < b
  · have : ¬ b < a := String.lt_asymm h1
    simp [h1, this]
  · by_cases h2 : a = b
    · subst h2; simp [String.lt_irrefl]
    · have : b < a := by
        apply String.not_le.mp
        intro hle
        exact h2 (String.le_antisymm hle (String.not_lt.mp h1))
      simp [h1, h2, this]

theorem int_beq (a b : Int) : (a == b) = decide (a = b) := by by_cases h : a = b <;> simp [h]
theorem str_beq (a b : String) : (a == b) = decide (a = b) := by by_cases h : a = b <;> simp [h]

theorem b2i_eq (x y : Bool) : ((if x then (1:Int) else 0) == (if y then (1:Int) else 0)) = decide ((if x then (1:Int) else 0) = (if y then (1:Int) else 0)) := by
  cases x <;> cases y <;> rfl

set_option maxHeartbeats 1600000 in
theorem opHolds_agrees (op : CmpOp) (v ref : JVal) : opHolds op v ref = compoundHolds op v ref := by
  have hi := cmp_int
  have hs := cmp_str
  cases v <;> cases ref <;> (try rfl) <;> cases op <;>
    simp [opHolds, scalar?, compoundHolds, evalOp, sHolds, sEq, sLt, pyEq, compare3, JVal.num?, bind, Except.bind, pure,
      Except.pure, throw, throwThe, MonadExceptOf.throw, pyContains, occursIn_eq, hi, hs, int_beq, str_beq]

theorem typeSelected_eq (types : List Nat) (r : Record) : typeSelected types r = ofRequestedType types r := by
  unfold typeSelected ofRequestedType
  cases objType r.obj <;> simp


theorem getPath_ok_iff (ks : List String) : ∀ (v x : JVal), getPath v ks = .ok x ↔ lookupPath v ks = some x := by
  induction ks with
  | nil => intro v x; simp [getPath, lookupPath, pure, Except.pure]
  | cons k ks ih =>
    intro v x
    cases v with
    | dict kvs =>
      simp only [getPath, lookupPath, pyIndex]
      cases h : kvs.get? k with
      | none => simp [bind, Except.bind, throw, throwThe, MonadExceptOf.throw]
      | some y => simp only [bind, Except.bind, pure, Except.pure]; exact ih y x
    | _ => simp [getPath, lookupPath, pyIndex, bind, Except.bind, throw, throwThe, MonadExceptOf.throw]

theorem getPath_error_of_none (ks : List String) : ∀ (v : JVal), lookupPath v ks = none → ∃ e, getPath v ks = .error e := by
  intro v h
  cases hg : getPath v ks with
  | error e => exact ⟨e, rfl⟩
  | ok x => rw [(getPath_ok_iff ks v x).mp hg] at h; cases h

/-- the dictionary back-end's statement test is the specification's -/
theorem stmtMatches_eq_holds (obj : JVal) (s : Stmt) : stmtMatches obj s = holds s obj := by
  unfold stmtMatches stmtValue holds
  cases hl : lookupPath obj s.attr with
  | none =>
    obtain ⟨e, he⟩ := getPath_error_of_none _ _ hl
    simp [he, bind, Except.bind]
  | some v =>
    rw [(getPath_ok_iff _ _ _).mpr hl]
    simp only [bind, Except.bind, opHolds_agrees, compoundHolds]
    cases evalOp s.op v s.ref <;> rfl

theorem filterMatches_eq (f : Filter) (hwf : WFFilter f) (r : Record) : filterMatches f r = matchesFilter f r.obj := by
  unfold filterMatches matchesFilter
  cases h2 : f.s2 with
  | none => simp [stmtMatches_eq_holds]
  | some s2 =>
    have := hwf (by simp [h2])
    cases hl : f.lop with
    | none => simp [hl] at this
    | some l => cases l <;> simp [stmtMatches_eq_holds]

theorem tinyMatches_eq (f : Filter) (hwf : WFFilter f) (r : Record) : tinyMatches f r = matchesFilter f r.obj := by
  unfold tinyMatches matchesFilter
  cases h2 : f.s2 with
  | none => simp [stmtMatches_eq_holds]
  | some s2 =>
    have := hwf (by simp [h2])
    cases hl : f.lop with
    | none => simp [hl] at this
    | some l => cases l <;> simp [stmtMatches_eq_holds]

theorem dictSearch_eq_select (rows : List Record) (types : List Nat) (f : Option Filter)
    (hwf : ∀ g, f = some g → WFFilter g) : dictSearch rows types f = select rows types f := by
  unfold dictSearch select typeSelect
  cases f with
  | none => apply List.filter_congr; intro r _; simp [selected, typeSelected_eq]
  | some g =>
    simp only
    rw [List.filter_filter]
    apply List.filter_congr
    intro r _
    simp only [selected, filterMatches_eq g (hwf g rfl), Bool.and_comm, typeSelected_eq]

theorem tinySearch_eq_select (rows : List Record) (types : List Nat) (f : Option Filter)
    (hwf : ∀ g, f = some g → WFFilter g) : tinySearch rows types f = select (rows.map Record.round) types f := by
  unfold tinySearch select typeSelect
  cases f with
  | none => apply List.filter_congr; intro r _; simp [selected, typeSelected_eq]
  | some g =>
    simp only
    rw [List.filter_filter]
    apply List.filter_congr
    intro r _
    simp only [selected, tinyMatches_eq g (hwf g rfl), typeSelected_eq]

mutual
/-- no tuple anywhere: the value survives JSON storage unchanged -/
def noTuple : JVal → Bool
  | .tuple _ => false
  | .list xs => noTupleL xs
  | .dict kvs => noTupleD kvs
  | _ => true
def noTupleL : JList → Bool
  | .nil => true
  | .cons h t => noTuple h && noTupleL t
def noTupleD : JDict → Bool
  | .nil => true
  | .cons _ v t => noTuple v && noTupleD t
end

mutual
theorem jsonRound_id : ∀ v : JVal, noTuple v = true → jsonRound v = v
  | .null, _ => rfl
  | .bool _, _ => rfl
  | .int _, _ => rfl
  | .str _, _ => rfl
  | .bytes _, _ => rfl
  | .tuple _, h => by simp [noTuple] at h
  | .list xs, h => by simp only [noTuple] at h; simp only [jsonRound, jsonRoundL_id xs h]
  | .dict kvs, h => by simp only [noTuple] at h; simp only [jsonRound, jsonRoundD_id kvs h]
theorem jsonRoundL_id : ∀ xs : JList, noTupleL xs = true → jsonRoundL xs = xs
  | .nil, _ => rfl
  | .cons h t, hh => by
    simp only [noTupleL, Bool.and_eq_true] at hh
    simp only [jsonRoundL, jsonRound_id h hh.1, jsonRoundL_id t hh.2]
theorem jsonRoundD_id : ∀ kvs : JDict, noTupleD kvs = true → jsonRoundD kvs = kvs
  | .nil, _ => rfl
  | .cons k v t, hh => by
    simp only [noTupleD, Bool.and_eq_true] at hh
    simp only [jsonRoundD, jsonRound_id v hh.1, jsonRoundD_id t hh.2]
end

theorem round_id_of_stable (rows : List Record) (h : ∀ r ∈ rows, noTuple r.obj = true) : rows.map Record.round = rows := by
  induction rows with
  | nil => rfl
  | cons r t ih =>
    simp only [List.map_cons]
    rw [ih (fun x hx => h x (by simp [hx]))]
    congr 1
    have hr := jsonRound_id _ (h r (by simp))
    cases r
    simp only [Record.round] at hr ⊢
    rw [hr]

/-! ## JSON storage -/

mutual
/-- no list or tuple anywhere in the value (reference values of the C13-KF3 region excluded) -/
def noSeq : JVal → Bool
  | .list _ => false
  | .tuple _ => false
  | .dict kvs => noSeqD kvs
  | _ => true
def noSeqD : JDict → Bool
  | .nil => true
  | .cons _ v t => noSeq v && noSeqD t
end

theorem noSeq_get : ∀ (kvs : JDict) (k : String) (w : JVal), noSeqD kvs = true → kvs.get? k = some w → noSeq w = true
  | .nil, _, _, _, hg => by simp [JDict.get?] at hg
  | .cons k' v t, k, w, h, hg => by
    simp only [noSeqD, Bool.and_eq_true] at h
    simp only [JDict.get?] at hg
    split at hg
    · injection hg with hg; rw [← hg]; exact h.1
    · exact noSeq_get t k w h.2 hg

theorem roundD_length : ∀ kvs : JDict, (jsonRoundD kvs).length = kvs.length
  | .nil => rfl
  | .cons _ _ t => by simp [jsonRoundD, JDict.length, roundD_length t]

theorem roundD_get : ∀ (kvs : JDict) (k : String), (jsonRoundD kvs).get? k = (kvs.get? k).map jsonRound
  | .nil, _ => rfl
  | .cons k' v t, k => by
    simp only [jsonRoundD, JDict.get?]
    split
    · rfl
    · exact roundD_get t k

theorem roundD_keys : ∀ kvs : JDict, (jsonRoundD kvs).keys = kvs.keys
  | .nil => rfl
  | .cons _ _ t => by simp [jsonRoundD, JDict.keys, roundD_keys t]

mutual
theorem pyEq_round : ∀ (v ref : JVal), noSeq ref = true → pyEq (jsonRound v) ref = pyEq v ref
  | .null, _, _ => rfl
  | .bool _, _, _ => rfl
  | .int _, _, _ => rfl
  | .str _, _, _ => rfl
  | .bytes _, _, _ => rfl
  | .list xs, ref, h => by cases ref <;> simp_all [jsonRound, pyEq, noSeq]
  | .tuple xs, ref, h => by cases ref <;> simp_all [jsonRound, pyEq, noSeq]
  | .dict kvs, ref, h => by
    cases ref with
    | dict kvs2 =>
      simp only [noSeq] at h
      simp only [jsonRound, pyEq, roundD_length, dictSub_round kvs kvs2 h]
    | _ => simp [jsonRound, pyEq]
theorem dictSub_round : ∀ (a b : JDict), noSeqD b = true → dictSub (jsonRoundD a) b = dictSub a b
  | .nil, _, _ => rfl
  | .cons k v t, b, h => by
    simp only [jsonRoundD, dictSub, dictSub_round t b h]
    cases hg : b.get? k with
    | none => rfl
    | some w => simp only [pyEq_round v w (noSeq_get b k w h hg)]
end

theorem compare3_round (v ref : JVal) (h : noSeq ref = true) : compare3 (jsonRound v) ref = compare3 v ref := by
  cases v <;> cases ref <;> simp_all [jsonRound, compare3, noSeq]

theorem anyEq_round : ∀ (xs : JList) (ref : JVal), noSeq ref = true →
    (jsonRoundL xs).toList.any (fun x => pyEq x ref) = xs.toList.any (fun x => pyEq x ref)
  | .nil, _, _ => rfl
  | .cons x t, ref, h => by
    simp only [jsonRoundL, JList.toList, List.any_cons, pyEq_round x ref h, anyEq_round t ref h]

theorem pyContains_round (v ref : JVal) (h : noSeq ref = true) : pyContains (jsonRound v) ref = pyContains v ref := by
  cases v <;> simp [jsonRound, pyContains, anyEq_round _ ref h]

theorem evalOp_round (op : CmpOp) (v ref : JVal) (h : noSeq ref = true) : evalOp op (jsonRound v) ref = evalOp op v ref := by
  cases op <;> simp only [evalOp, pyEq_round v ref h, compare3_round v ref h, pyContains_round v ref h]

theorem lookupPath_round : ∀ (p : List String) (o : JVal), lookupPath (jsonRound o) p = (lookupPath o p).map jsonRound
  | [], o => by simp [lookupPath]
  | k :: ks, o => by
    cases o with
    | dict kvs =>
      simp only [jsonRound, lookupPath, roundD_get]
      cases hg : kvs.get? k with
      | none => rfl
      | some x => simp only [Option.map_some]; exact lookupPath_round ks x
    | _ => simp [jsonRound, lookupPath]

theorem holds_round (s : Stmt) (o : JVal) (h : noSeq s.ref = true) : holds s (jsonRound o) = holds s o := by
  unfold holds
  rw [lookupPath_round]
  cases lookupPath o s.attr with
  | none => rfl
  | some v => simp only [Option.map_some, opHolds_agrees, compoundHolds, evalOp_round s.op v s.ref h]

/-- the reference values of a filter contain no list / tuple (outside the C13-KF3 region) -/
def refsNoSeq (f : Filter) : Prop := noSeq f.s1.ref = true ∧ ∀ s2, f.s2 = some s2 → noSeq s2.ref = true

theorem matchesFilter_round (f : Filter) (o : JVal) (h : refsNoSeq f) : matchesFilter f (jsonRound o) = matchesFilter f o := by
  unfold matchesFilter
  cases h2 : f.s2 with
  | none => simp only [holds_round f.s1 o h.1]
  | some s2 =>
    have := h.2 s2 h2
    cases f.lop with
    | none => rfl
    | some l => cases l <;> simp only [holds_round f.s1 o h.1, holds_round s2 o this]

theorem objType_round (o : JVal) : objType (jsonRound o) = objType o := by
  cases o <;> simp [jsonRound, objType, roundD_keys]

theorem selected_round (types : List Nat) (f : Option Filter) (hf : ∀ g, f = some g → refsNoSeq g) (r : Record) :
    selected types f r.round = selected types f r := by
  unfold selected ofRequestedType Record.round
  simp only [objType_round]
  cases f with
  | none => rfl
  | some g => simp only [matchesFilter_round g r.obj (hf g rfl)]

/-- selecting from the JSON image of a store = the JSON image of the selection -/
theorem select_round (rows : List Record) (types : List Nat) (f : Option Filter) (hf : ∀ g, f = some g → refsNoSeq g) :
    select (rows.map Record.round) types f = (select rows types f).map Record.round := by
  unfold select
  rw [List.filter_map]
  congr 1
  apply List.filter_congr
  intro r _
  exact selected_round types f hf r

/-- pure form of `insAsc` on integer keys -/
def insL {α : Type} (f : α → Int) (x : α) : List α → List α
  | [] => [x]
  | y :: ys => if f x < f y then x :: y :: ys else y :: insL f x ys

def sortL {α : Type} (f : α → Int) (l : List α) : List α := l.foldl (fun acc x => insL f x acc) []

def leOf {α : Type} (f : α → Int) : α → α → Bool := fun a b => decide (f a ≤ f b)

theorem insL_ordIns_comm {α : Type} (f : α → Int) (x a : α) : ∀ l : List α,
    insL f x (ordIns (leOf f) a l) = ordIns (leOf f) a (insL f x l) := by
  intro l
  induction l with
  | nil =>
    simp only [ordIns, insL, leOf]
    by_cases h : f x < f a
    · have : ¬ f a ≤ f x := by omega
      simp [h, this]
    · have : f a ≤ f x := by omega
      simp [h, this]
  | cons b t ih =>
    simp only [ordIns, insL, leOf]
    by_cases hab : f a ≤ f b
    · by_cases hxb : f x < f b
      · by_cases hxa : f x < f a
        · have : ¬ f a ≤ f x := by omega
          simp [hab, hxb, hxa, this, insL, ordIns, leOf]
        · have : f a ≤ f x := by omega
          simp [hab, hxb, hxa, this, insL, ordIns, leOf]
      · have hxa : ¬ f x < f a := by omega
        simp [hab, hxb, hxa, insL, ordIns, leOf]
    · by_cases hxb : f x < f b
      · have : ¬ f a ≤ f x := by omega
        simp [hab, hxb, this, insL, ordIns, leOf]
      · simp only [hab, hxb, decide_false, Bool.false_eq_true, if_false, insL, ordIns, leOf]
        rw [← ih]

theorem foldl_insL_ordIns {α : Type} (f : α → Int) (a : α) (xs : List α) : ∀ acc : List α,
    xs.foldl (fun acc x => insL f x acc) (ordIns (leOf f) a acc) = ordIns (leOf f) a (xs.foldl (fun acc x => insL f x acc) acc) := by
  induction xs with
  | nil => intro acc; rfl
  | cons x xs ih =>
    intro acc
    simp only [List.foldl_cons]
    rw [insL_ordIns_comm, ih]

/-- the left-fold "insert after the not-greater ones" sort is the stable sort -/
theorem sortL_eq_stableSort {α : Type} (f : α → Int) : ∀ l : List α, sortL f l = stableSort (leOf f) l := by
  intro l
  induction l with
  | nil => rfl
  | cons a l ih =>
    have h0 : insL f a [] = ordIns (leOf f) a [] := rfl
    simp only [sortL, List.foldl_cons, stableSort]
    rw [h0, foldl_insL_ordIns]
    have : l.foldl (fun acc x => insL f x acc) [] = sortL f l := rfl
    rw [this, ih]

theorem ordIns_append {α : Type} (le : α → α → Bool) (a : α) (l₁ l₂ : List α)
    (h1 : ∀ b ∈ l₁, le a b = false) (h2 : ∀ c, l₂.head? = some c → le a c = true) :
    ordIns le a (l₁ ++ l₂) = l₁ ++ a :: l₂ := by
  induction l₁ with
  | nil =>
    cases l₂ with
    | nil => rfl
    | cons c t => simp [ordIns, h2 c rfl]
  | cons b t ih =>
    simp only [List.cons_append, ordIns, h1 b (by simp), Bool.false_eq_true, if_false]
    rw [ih (fun x hx => h1 x (by simp [hx]))]

/-- the stable insertion sort is core's `List.mergeSort` (for a transitive, total comparison) -/
theorem stableSort_eq_mergeSort {α : Type} (le : α → α → Bool)
    (trans : ∀ a b c : α, le a b → le b c → le a c) (total : ∀ a b : α, le a b || le b a) :
    ∀ l : List α, stableSort le l = l.mergeSort le := by
  intro l
  induction l with
  | nil => simp [stableSort]
  | cons a l ih =>
    obtain ⟨l₁, l₂, h₁, h₂, h₃⟩ := List.mergeSort_cons trans total a l
    have hs := List.pairwise_mergeSort trans total (a :: l)
    rw [h₁] at hs
    simp only [stableSort, ih, h₂, h₁]
    apply ordIns_append
    · intro b hb; have := h₃ b hb; simpa using this
    · intro c hc
      have hp := (List.pairwise_append.mp hs).2.1
      cases l₂ with
      | nil => simp at hc
      | cons d t =>
        simp at hc; subst hc
        exact (List.pairwise_cons.mp hp).1 d (by simp)

theorem pyLt_int (a b : Int) : pyLt (.int a) (.int b) = .ok (decide (a < b)) := by
  simp only [pyLt, compare3, JVal.num?, bind, Except.bind, pure, Except.pure, compare, compareOfLessAndEq]
  by_cases h : a < b
  · simp [h]
  · by_cases e : a = b <;> simp [h, e]

def keyed {α : Type} (f : α → Int) (y : α) : α × JVal := (y, .int (f y))

theorem insAsc_int {α : Type} (f : α → Int) (x : α) : ∀ ys : List α,
    insAsc (keyed f x) (ys.map (keyed f)) = .ok ((insL f x ys).map (keyed f)) := by
  intro ys
  induction ys with
  | nil => rfl
  | cons y ys ih =>
    simp only [List.map_cons, insAsc, keyed, pyLt_int, bind, Except.bind, insL]
    by_cases h : f x < f y
    · simp [h, pure, Except.pure, keyed]
    · simp only [h, decide_false, Bool.false_eq_true, if_false]
      have := ih
      simp only [keyed] at this
      rw [this]
      simp [pure, Except.pure, keyed]

theorem insDesc_int {α : Type} (f : α → Int) (x : α) : ∀ ys : List α,
    insDesc (keyed f x) (ys.map (keyed f)) = .ok ((insL (fun r => - f r) x ys).map (keyed f)) := by
  intro ys
  induction ys with
  | nil => rfl
  | cons y ys ih =>
    simp only [List.map_cons, insDesc, keyed, pyLt_int, bind, Except.bind, insL]
    by_cases h : f y < f x
    · have h' : - f x < - f y := by omega
      simp [h, h', pure, Except.pure, keyed]
    · have h' : ¬ (- f x < - f y) := by omega
      simp only [h, h', decide_false, Bool.false_eq_true, if_false]
      have := ih
      simp only [keyed] at this
      rw [this]
      simp [pure, Except.pure, keyed]

/-- the key function one pass sorts by -/
def passKey {α : Type} (f : α → Int) (rev : Bool) : α → Int := if rev then fun r => - f r else f

theorem pySorted_int_aux {α : Type} (f : α → Int) (rev : Bool) (xs : List α) : ∀ acc : List α,
    (xs.map (keyed f)).foldlM (fun acc x => if rev then insDesc x acc else insAsc x acc) (acc.map (keyed f))
      = .ok ((xs.foldl (fun acc x => insL (passKey f rev) x acc) acc).map (keyed f)) := by
  induction xs with
  | nil => intro acc; rfl
  | cons x xs ih =>
    intro acc
    simp only [List.map_cons, List.foldlM_cons, List.foldl_cons]
    cases rev with
    | true =>
      simp only [if_true, insDesc_int, bind, Except.bind, passKey]
      exact ih _
    | false =>
      simp only [Bool.false_eq_true, if_false, insAsc_int, bind, Except.bind, passKey]
      exact ih _

theorem pySorted_int {α : Type} (f : α → Int) (rev : Bool) (xs : List α) :
    pySorted (xs.map (keyed f)) rev = .ok ((sortL (passKey f rev) xs).map (keyed f)) := by
  have := pySorted_int_aux f rev xs []
  simpa [pySorted, sortL] using this

theorem mapM_ok {α β : Type} (g : α → Except Err β) (h : α → β) : ∀ l : List α, (∀ a ∈ l, g a = .ok (h a)) →
    l.mapM g = .ok (l.map h) := by
  intro l
  induction l with
  | nil => intro _; rfl
  | cons a t ih =>
    intro hl
    rw [List.mapM_cons, hl a (by simp), ih (fun b hb => hl b (by simp [hb]))]
    rfl

theorem sortByKey_int (κ : OrderKey → Record → Int) (k : OrderKey) (rows : List Record)
    (h : ∀ r ∈ rows, orderKeyOf r k = .ok (.int (κ k r))) :
    sortByKey rows k = .ok (sortL (effKey κ k) rows) := by
  unfold sortByKey
  rw [mapM_ok (fun r => do let v ← orderKeyOf r k; pure (r, v)) (keyed (κ k)) rows
    (by intro r hr; simp [h r hr, bind, Except.bind, pure, Except.pure, keyed])]
  simp only [bind, Except.bind, pySorted_int, pure, Except.pure]
  congr 1
  have : passKey (κ k) (k.dir == Dir.desc) = effKey κ k := by
    unfold passKey effKey
    cases k.dir <;> rfl
  rw [this, List.map_map]
  have : (fun (x : Record × JVal) => x.1) ∘ keyed (κ k) = id := by funext r; rfl
  rw [this, List.map_id]

theorem leOf_trans {α : Type} (f : α → Int) (a b c : α) : leOf f a b → leOf f b c → leOf f a c := by
  simp only [leOf, decide_eq_true_eq]; omega

theorem leOf_total {α : Type} (f : α → Int) (a b : α) : (leOf f a b || leOf f b a) = true := by
  simp only [leOf, Bool.or_eq_true, decide_eq_true_eq]; omega

theorem stableSort_perm {α : Type} (f : α → Int) (l : List α) : (stableSort (leOf f) l).Perm l := by
  rw [stableSort_eq_mergeSort _ (leOf_trans f) (leOf_total f)]
  exact List.mergeSort_perm l _

/-- least-significant-first passes, as the code runs them -/
def lsdSort (κ : OrderKey → Record → Int) (keys : List OrderKey) (rows : List Record) : List Record :=
  keys.reverse.foldl (fun acc k => stableSort (leOf (effKey κ k)) acc) rows

theorem foldlM_sortByKey (κ : OrderKey → Record → Int) (ks : List OrderKey) : ∀ (rows : List Record),
    (∀ r ∈ rows, ∀ k ∈ ks, orderKeyOf r k = .ok (.int (κ k r))) →
    ks.foldlM sortByKey rows = .ok (ks.foldl (fun acc k => stableSort (leOf (effKey κ k)) acc) rows) := by
  induction ks with
  | nil => intro rows _; rfl
  | cons k ks ih =>
    intro rows h
    simp only [List.foldlM_cons, List.foldl_cons]
    rw [sortByKey_int κ k rows (fun r hr => h r hr k (by simp)), sortL_eq_stableSort]
    simp only [bind, Except.bind]
    apply ih
    intro r hr k' hk'
    exact h r ((stableSort_perm _ rows).mem_iff.mp hr) k' (by simp [hk'])

theorem orderResults_int (κ : OrderKey → Record → Int) (keys : List OrderKey) (rows : List Record)
    (h : ∀ r ∈ rows, ∀ k ∈ keys, orderKeyOf r k = .ok (.int (κ k r))) :
    orderResults rows keys = .ok (lsdSort κ keys rows) := by
  unfold orderResults lsdSort
  exact foldlM_sortByKey κ keys.reverse rows (fun r hr k hk => h r hr k (List.mem_reverse.mp hk))

theorem lsdSort_perm (κ : OrderKey → Record → Int) (keys : List OrderKey) (rows : List Record) :
    (lsdSort κ keys rows).Perm rows := by
  unfold lsdSort
  generalize keys.reverse = ks
  induction ks generalizing rows with
  | nil => exact List.Perm.refl _
  | cons k ks ih =>
    simp only [List.foldl_cons]
    exact (ih _).trans (stableSort_perm _ rows)

theorem lexLe_single {α : Type} (f : α → Int) : lexLe [f] = leOf f := by
  funext a b
  simp only [lexLe, leOf, Bool.and_true]
  by_cases h : f a < f b
  · have : f a ≤ f b := by omega
    simp [h, this]
  · by_cases e : f a = f b
    · simp [e]
    · have : ¬ f a ≤ f b := by omega
      simp [h, e, this]

theorem lexLe_total {α : Type} : ∀ (fs : List (α → Int)) (a b : α), (lexLe fs a b || lexLe fs b a) = true := by
  intro fs
  induction fs with
  | nil => intro a b; rfl
  | cons f fs ih =>
    intro a b
    simp only [lexLe]
    by_cases h1 : f a < f b
    · simp [h1]
    · by_cases h2 : f b < f a
      · simp [h2]
      · have e : f a = f b := by omega
        have := ih a b
        simp only [Bool.or_eq_true] at this
        rcases this with h | h <;> simp [e, h]

theorem lexLe_trans {α : Type} : ∀ (fs : List (α → Int)) (a b c : α), lexLe fs a b → lexLe fs b c → lexLe fs a c := by
  intro fs
  induction fs with
  | nil => intro a b c _ _; rfl
  | cons f fs ih =>
    intro a b c hab hbc
    simp only [lexLe, Bool.or_eq_true, decide_eq_true_eq, Bool.and_eq_true, beq_iff_eq] at hab hbc ⊢
    rcases hab with h1 | ⟨e1, l1⟩
    · rcases hbc with h2 | ⟨e2, _⟩
      · left; omega
      · left; omega
    · rcases hbc with h2 | ⟨e2, l2⟩
      · left; omega
      · right; exact ⟨by omega, ih a b c l1 l2⟩

theorem mem_ordIns {α : Type} (le : α → α → Bool) (a x : α) : ∀ l : List α, x ∈ ordIns le a l ↔ x = a ∨ x ∈ l := by
  intro l
  induction l with
  | nil => simp [ordIns]
  | cons b t ih =>
    simp only [ordIns]
    split
    · simp
    · simp only [List.mem_cons, ih]
      constructor
      · rintro (h | h | h) <;> simp [h]
      · rintro (h | h | h) <;> simp [h]

theorem mem_stableSort {α : Type} (le : α → α → Bool) (x : α) : ∀ l : List α, x ∈ stableSort le l ↔ x ∈ l := by
  intro l
  induction l with
  | nil => simp [stableSort]
  | cons a t ih => simp only [stableSort, mem_ordIns, ih, List.mem_cons]

theorem ordIns_congr {α : Type} (le le' : α → α → Bool) (a : α) : ∀ l : List α, (∀ v ∈ l, le a v = le' a v) →
    ordIns le a l = ordIns le' a l := by
  intro l
  induction l with
  | nil => intro _; rfl
  | cons b t ih =>
    intro h
    simp only [ordIns, h b (by simp)]
    rw [ih (fun v hv => h v (by simp [hv]))]

/-- inserting two elements that are not equivalent commutes -/
theorem ordIns_comm {α : Type} (R : α → α → Bool) (trans : ∀ a b c : α, R a b → R b c → R a c)
    (a b : α) (hab : (R a b = true ∧ R b a = false) ∨ (R b a = true ∧ R a b = false)) : ∀ l : List α,
    ordIns R b (ordIns R a l) = ordIns R a (ordIns R b l) := by
  intro l
  induction l with
  | nil =>
    rcases hab with ⟨h1, h2⟩ | ⟨h1, h2⟩ <;> simp [ordIns, h1, h2]
  | cons u t ih =>
    by_cases hau : R a u = true
    · by_cases hbu : R b u = true
      · rcases hab with ⟨h1, h2⟩ | ⟨h1, h2⟩ <;> simp [ordIns, hau, hbu, h1, h2]
      · have hba : R b a = false := by
          cases hx : R b a with
          | false => rfl
          | true => exact absurd (trans b a u hx hau) hbu
        simp [ordIns, hau, hbu, hba]
    · by_cases hbu : R b u = true
      · have hab' : R a b = false := by
          cases hx : R a b with
          | false => rfl
          | true => exact absurd (trans a b u hx hbu) hau
        simp [ordIns, hau, hbu, hab']
      · simp only [ordIns, hau, hbu, Bool.false_eq_true, if_false]
        rw [ih]

section lsd
variable {α : Type} (f : α → Int) (fs : List (α → Int))

theorem lex_eq_le1 (b v : α) (h : lexLe fs b v = true) : lexLe (f :: fs) b v = leOf f b v := by
  simp only [lexLe, leOf, h, Bool.and_true]
  by_cases h1 : f b < f v
  · have : f b ≤ f v := by omega
    simp [h1, this]
  · by_cases e : f b = f v
    · simp [e]
    · have : ¬ f b ≤ f v := by omega
      simp [h1, e, this]

theorem lsd_step : ∀ S : List α, S.Pairwise (fun x y => lexLe fs x y = true) → ∀ a : α,
    stableSort (leOf f) (ordIns (lexLe fs) a S) = ordIns (lexLe (f :: fs)) a (stableSort (leOf f) S) := by
  intro S
  induction S with
  | nil => intro _ a; rfl
  | cons b S' ih =>
    intro hS a
    have hb : ∀ s ∈ S', lexLe fs b s = true := (List.pairwise_cons.mp hS).1
    have hS' := (List.pairwise_cons.mp hS).2
    by_cases hab : lexLe fs a b = true
    · simp only [ordIns, hab, if_true]
      show ordIns (leOf f) a (stableSort (leOf f) (b :: S')) = _
      apply ordIns_congr
      intro v hv
      have hv' : v = b ∨ v ∈ S' := by
        have := (mem_stableSort (leOf f) v (b :: S')).mp hv
        simpa using this
      have : lexLe fs a v = true := by
        rcases hv' with h | h
        · rw [h]; exact hab
        · exact lexLe_trans fs a b v hab (hb v h)
      exact (lex_eq_le1 f fs a v this).symm
    · have hab' : lexLe fs a b = false := by simpa using hab
      have hba : lexLe fs b a = true := by
        have := lexLe_total fs a b
        simpa [hab'] using this
      simp only [ordIns, hab', Bool.false_eq_true, if_false]
      show ordIns (leOf f) b (stableSort (leOf f) (ordIns (lexLe fs) a S')) = _
      rw [ih hS' a]
      have c1 : ordIns (leOf f) b (ordIns (lexLe (f :: fs)) a (stableSort (leOf f) S'))
          = ordIns (lexLe (f :: fs)) b (ordIns (lexLe (f :: fs)) a (stableSort (leOf f) S')) := by
        apply ordIns_congr
        intro v hv
        rcases (mem_ordIns _ a v _).mp hv with h | h
        · rw [h]; exact (lex_eq_le1 f fs b a hba).symm
        · exact (lex_eq_le1 f fs b v (hb v ((mem_stableSort _ v S').mp h))).symm
      have c2 : ordIns (lexLe (f :: fs)) b (stableSort (leOf f) S') = ordIns (leOf f) b (stableSort (leOf f) S') := by
        apply ordIns_congr
        intro v hv
        exact lex_eq_le1 f fs b v (hb v ((mem_stableSort _ v S').mp hv))
      rw [c1, ordIns_comm (lexLe (f :: fs)) (lexLe_trans (f :: fs)) a b ?_, c2]
      · rfl
      · -- a and b are not equivalent: lexLe fs a b fails
        by_cases h1 : f a < f b
        · left
          have : ¬ f b < f a := by omega
          have e : ¬ f b = f a := by omega
          simp [lexLe, h1, this, e]
        · by_cases h2 : f b < f a
          · right
            have e : ¬ f a = f b := by omega
            simp [lexLe, h1, h2, e]
          · right
            have e : f a = f b := by omega
            simp [lexLe, e, hab', hba]

theorem stableSort_pairwise (le : α → α → Bool) (trans : ∀ a b c : α, le a b → le b c → le a c)
    (total : ∀ a b : α, le a b || le b a) (l : List α) : (stableSort le l).Pairwise (fun x y => le x y = true) := by
  rw [stableSort_eq_mergeSort le trans total]
  exact List.pairwise_mergeSort trans total l

/-- one more (more significant) stable pass turns the sort by `fs` into the sort by `f :: fs` -/
theorem lsd_pass (l : List α) :
    stableSort (leOf f) (stableSort (lexLe fs) l) = stableSort (lexLe (f :: fs)) l := by
  induction l with
  | nil => rfl
  | cons a l ih =>
    show stableSort (leOf f) (ordIns (lexLe fs) a (stableSort (lexLe fs) l)) = ordIns (lexLe (f :: fs)) a (stableSort (lexLe (f :: fs)) l)
    rw [lsd_step f fs _ (stableSort_pairwise _ (lexLe_trans fs) (lexLe_total fs) l) a, ih]
end lsd

theorem stableSort_lexLe_nil {α : Type} : ∀ l : List α, stableSort (lexLe ([] : List (α → Int))) l = l := by
  intro l
  induction l with
  | nil => rfl
  | cons a l ih =>
    simp only [stableSort, ih]
    cases l <;> simp [ordIns, lexLe]

/-- the passes the code runs (least significant key first) amount to one stable lexicographic sort -/
theorem lsdSort_eq (κ : OrderKey → Record → Int) (keys : List OrderKey) (rows : List Record) :
    lsdSort κ keys rows = stableSort (lexLe (keys.map (effKey κ))) rows := by
  unfold lsdSort
  induction keys with
  | nil => simp [stableSort_lexLe_nil]
  | cons k ks ih =>
    simp only [List.reverse_cons, List.foldl_append, List.foldl_cons, List.foldl_nil, List.map_cons]
    rw [ih, lsd_pass]

/-- `order_search_results` on integer-valued order attributes is the stable lexicographic sort -/
theorem orderResults_eq (κ : OrderKey → Record → Int) (keys : List OrderKey) (rows : List Record)
    (h : ∀ r ∈ rows, ∀ k ∈ keys, orderKeyOf r k = .ok (.int (κ k r))) :
    orderResults rows keys = .ok (stableSort (lexLe (keys.map (effKey κ))) rows) := by
  rw [orderResults_int κ keys rows h, lsdSort_eq]

/-! ## order keys of any one comparable scalar class: integer scales -/

/-- `f` is an integer scale of the key values `v` on the list `L`: Python's `<` between the keys of two elements of `L`
is defined and is `<` between their scale values -/
def Scale {α : Type} (L : List α) (v : α → JVal) (f : α → Int) : Prop :=
  ∀ a ∈ L, ∀ b ∈ L, pyLt (v a) (v b) = .ok (decide (f a < f b))

theorem Scale.of_subset {α : Type} {L L' : List α} {v : α → JVal} {f : α → Int} (h : Scale L v f) (hs : ∀ a ∈ L', a ∈ L) :
    Scale L' v f := fun a ha b hb => h a (hs a ha) b (hs b hb)

def keyedV {α : Type} (v : α → JVal) (y : α) : α × JVal := (y, v y)

theorem mem_insL {α : Type} (f : α → Int) (x z : α) : ∀ ys : List α, z ∈ insL f x ys ↔ z = x ∨ z ∈ ys := by
  intro ys
  induction ys with
  | nil => simp [insL]
  | cons y ys ih =>
    simp only [insL]
    split
    · simp
    · simp only [List.mem_cons, ih]
      constructor
      · rintro (h | h | h) <;> simp [h]
      · rintro (h | h | h) <;> simp [h]

theorem insAsc_scale {α : Type} (L : List α) (v : α → JVal) (f : α → Int) (hs : Scale L v f) (x : α) (hx : x ∈ L) :
    ∀ ys : List α, (∀ y ∈ ys, y ∈ L) → insAsc (keyedV v x) (ys.map (keyedV v)) = .ok ((insL f x ys).map (keyedV v)) := by
  intro ys
  induction ys with
  | nil => intro _; rfl
  | cons y ys ih =>
    intro hys
    have hy : y ∈ L := hys y (by simp)
    simp only [List.map_cons, insAsc, keyedV, hs x hx y hy, bind, Except.bind, insL]
    by_cases h : f x < f y
    · simp [h, pure, Except.pure, keyedV]
    · simp only [h, decide_false, Bool.false_eq_true, if_false]
      have := ih (fun z hz => hys z (by simp [hz]))
      simp only [keyedV] at this
      rw [this]
      simp [pure, Except.pure, keyedV]

theorem insDesc_scale {α : Type} (L : List α) (v : α → JVal) (f : α → Int) (hs : Scale L v f) (x : α) (hx : x ∈ L) :
    ∀ ys : List α, (∀ y ∈ ys, y ∈ L) →
      insDesc (keyedV v x) (ys.map (keyedV v)) = .ok ((insL (fun r => - f r) x ys).map (keyedV v)) := by
  intro ys
  induction ys with
  | nil => intro _; rfl
  | cons y ys ih =>
    intro hys
    have hy : y ∈ L := hys y (by simp)
    simp only [List.map_cons, insDesc, keyedV, hs y hy x hx, bind, Except.bind, insL]
    by_cases h : f y < f x
    · have h' : - f x < - f y := by omega
      simp [h, h', pure, Except.pure, keyedV]
    · have h' : ¬ (- f x < - f y) := by omega
      simp only [h, h', decide_false, Bool.false_eq_true, if_false]
      have := ih (fun z hz => hys z (by simp [hz]))
      simp only [keyedV] at this
      rw [this]
      simp [pure, Except.pure, keyedV]

theorem pySorted_scale_aux {α : Type} (L : List α) (v : α → JVal) (f : α → Int) (hs : Scale L v f) (rev : Bool) :
    ∀ (xs : List α), (∀ x ∈ xs, x ∈ L) → ∀ acc : List α, (∀ a ∈ acc, a ∈ L) →
    (xs.map (keyedV v)).foldlM (fun acc x => if rev then insDesc x acc else insAsc x acc) (acc.map (keyedV v))
      = .ok ((xs.foldl (fun acc x => insL (passKey f rev) x acc) acc).map (keyedV v)) := by
  intro xs
  induction xs with
  | nil => intro _ acc _; rfl
  | cons x xs ih =>
    intro hxs acc hacc
    have hx : x ∈ L := hxs x (by simp)
    have hxs' : ∀ z ∈ xs, z ∈ L := fun z hz => hxs z (by simp [hz])
    simp only [List.map_cons, List.foldlM_cons, List.foldl_cons]
    cases rev with
    | true =>
      simp only [if_true, insDesc_scale L v f hs x hx acc hacc, bind, Except.bind, passKey]
      exact ih hxs' _ (fun a ha => by rcases (mem_insL _ x a acc).mp ha with h | h; exact h ▸ hx; exact hacc a h)
    | false =>
      simp only [Bool.false_eq_true, if_false, insAsc_scale L v f hs x hx acc hacc, bind, Except.bind, passKey]
      exact ih hxs' _ (fun a ha => by rcases (mem_insL _ x a acc).mp ha with h | h; exact h ▸ hx; exact hacc a h)

theorem pySorted_scale {α : Type} (v : α → JVal) (f : α → Int) (rev : Bool) (xs : List α) (hs : Scale xs v f) :
    pySorted (xs.map (keyedV v)) rev = .ok ((sortL (passKey f rev) xs).map (keyedV v)) := by
  have := pySorted_scale_aux xs v f hs rev xs (fun _ h => h) [] (by simp)
  simpa [pySorted, sortL] using this

/-- one pass of `order_search_results` on keys that have an integer scale -/
theorem sortByKey_scale (κ : OrderKey → Record → Int) (k : OrderKey) (rows : List Record) (v : Record → JVal)
    (h : ∀ r ∈ rows, orderKeyOf r k = .ok (v r)) (hs : Scale rows v (κ k)) :
    sortByKey rows k = .ok (sortL (effKey κ k) rows) := by
  unfold sortByKey
  rw [mapM_ok (fun r => do let x ← orderKeyOf r k; pure (r, x)) (keyedV v) rows
    (by intro r hr; simp [h r hr, bind, Except.bind, pure, Except.pure, keyedV])]
  simp only [bind, Except.bind, pySorted_scale v (κ k) _ rows hs, pure, Except.pure]
  congr 1
  have : passKey (κ k) (k.dir == Dir.desc) = effKey κ k := by
    unfold passKey effKey
    cases k.dir <;> rfl
  rw [this, List.map_map]
  have : (fun (x : Record × JVal) => x.1) ∘ keyedV v = id := by funext r; rfl
  rw [this, List.map_id]

/-- the order keys `ks` have integer scales `κ` on `rows` -/
def Scaled (κ : OrderKey → Record → Int) (ks : List OrderKey) (rows : List Record) : Prop :=
  ∀ k ∈ ks, ∃ v : Record → JVal, (∀ r ∈ rows, orderKeyOf r k = .ok (v r)) ∧ Scale rows v (κ k)

theorem Scaled.of_mem_iff {κ : OrderKey → Record → Int} {ks : List OrderKey} {rows rows' : List Record}
    (h : Scaled κ ks rows) (hm : ∀ r, r ∈ rows' → r ∈ rows) : Scaled κ ks rows' := by
  intro k hk
  obtain ⟨v, h1, h2⟩ := h k hk
  exact ⟨v, fun r hr => h1 r (hm r hr), h2.of_subset hm⟩

theorem foldlM_sortByKey_scale (κ : OrderKey → Record → Int) (ks : List OrderKey) : ∀ (rows : List Record),
    Scaled κ ks rows →
    ks.foldlM sortByKey rows = .ok (ks.foldl (fun acc k => stableSort (leOf (effKey κ k)) acc) rows) := by
  induction ks with
  | nil => intro rows _; rfl
  | cons k ks ih =>
    intro rows h
    obtain ⟨v, h1, h2⟩ := h k (by simp)
    simp only [List.foldlM_cons, List.foldl_cons]
    rw [sortByKey_scale κ k rows v h1 h2, sortL_eq_stableSort]
    simp only [bind, Except.bind]
    apply ih
    have hsub : Scaled κ ks rows := fun k' hk' => h k' (by simp [hk'])
    exact hsub.of_mem_iff (fun r hr => (stableSort_perm _ rows).mem_iff.mp hr)

/-- `order_search_results` on keys with integer scales is the stable lexicographic sort by the scales -/
theorem orderResults_scale (κ : OrderKey → Record → Int) (keys : List OrderKey) (rows : List Record)
    (h : Scaled κ keys rows) :
    orderResults rows keys = .ok (stableSort (lexLe (keys.map (effKey κ))) rows) := by
  have : Scaled κ keys.reverse rows := fun k hk => h k (List.mem_reverse.mp hk)
  have e := foldlM_sortByKey_scale κ keys.reverse rows this
  unfold orderResults
  rw [e]
  have := lsdSort_eq κ keys rows
  unfold lsdSort at this
  rw [this]

/-! ### scales exist for integer-valued and for text-valued keys -/

theorem scale_int {α : Type} (L : List α) (g : α → Int) : Scale L (fun a => .int (g a)) g :=
  fun a _ b _ => pyLt_int (g a) (g b)

theorem pyLt_str (s t : String) : pyLt (.str s) (.str t) = .ok (decide (s < t)) := by
  simp only [pyLt, compare3, bind, Except.bind, pure, Except.pure, (cmp_str s t).1]

/-- rank of a text among the texts of `S`: how many of them are smaller -/
def rankIn (S : List String) (s : String) : Int := ((S.filter (fun x => decide (x < s))).length : Int)

theorem filter_length_le {α : Type} (p q : α → Bool) (l : List α) (h : ∀ a ∈ l, p a = true → q a = true) :
    (l.filter p).length ≤ (l.filter q).length := by
  induction l with
  | nil => simp
  | cons a t ih =>
    have iht := ih (fun b hb => h b (by simp [hb]))
    simp only [List.filter_cons]
    by_cases hp : p a = true
    · have hq := h a (by simp) hp
      simp [hp, hq]; omega
    · by_cases hq : q a = true
      · simp [hp, hq]; omega
      · simp [hp, hq]; omega

theorem filter_length_lt {α : Type} (p q : α → Bool) (l : List α) (h : ∀ a ∈ l, p a = true → q a = true)
    (x : α) (hx : x ∈ l) (hqx : q x = true) (hpx : p x = false) : (l.filter p).length < (l.filter q).length := by
  induction l with
  | nil => simp at hx
  | cons a t ih =>
    have hle := filter_length_le p q t (fun b hb => h b (by simp [hb]))
    simp only [List.filter_cons]
    rcases List.mem_cons.mp hx with e | e
    · subst e
      simp [hqx, hpx]; omega
    · have iht := ih (fun b hb => h b (by simp [hb])) e
      by_cases hp : p a = true
      · have hq := h a (by simp) hp
        simp [hp, hq]; omega
      · by_cases hq : q a = true
        · simp [hp, hq]; omega
        · simp [hp, hq]; omega

theorem rank_lt_iff (S : List String) (s t : String) (hs : s ∈ S) (ht : t ∈ S) : rankIn S s < rankIn S t ↔ s < t := by
  unfold rankIn
  constructor
  · intro h
    apply Classical.byContradiction
    intro hn
    have hts : t ≤ s := String.not_lt.mp hn
    have := filter_length_le (fun x => decide (x < t)) (fun x => decide (x < s)) S (by
      intro a _ ha
      simp only [decide_eq_true_eq] at ha ⊢
      rcases Classical.em (t = s) with e | e
      · rw [← e]; exact ha
      · have : t < s := by
          apply String.not_le.mp
          intro hle
          exact e (String.le_antisymm hts hle)
        exact String.lt_trans ha this)
    omega
  · intro h
    have := filter_length_lt (fun x => decide (x < s)) (fun x => decide (x < t)) S (by
      intro a _ ha
      simp only [decide_eq_true_eq] at ha ⊢
      exact String.lt_trans ha h) s hs (by simpa using h) (by simp [String.lt_irrefl])
    omega

theorem scale_str {α : Type} (L : List α) (σ : α → String) :
    Scale L (fun a => .str (σ a)) (fun a => rankIn (L.map σ) (σ a)) := by
  intro a ha b hb
  rw [pyLt_str]
  congr 1
  have h := rank_lt_iff (L.map σ) (σ a) (σ b) (List.mem_map_of_mem ha) (List.mem_map_of_mem hb)
  by_cases hl : σ a < σ b
  · simp [hl, h.mpr hl]
  · have : ¬ rankIn (L.map σ) (σ a) < rankIn (L.map σ) (σ b) := fun hh => hl (h.mp hh)
    simp [hl, this]

end FlexModel.Ldm

/-
Helper lemmas for Props/C13.lean: the back-ends' statement test is the specification's, JSON stability,
the model of `sorted()` on integer keys is the stable insertion sort, which is core's `List.mergeSort`.
-/
import FlexModel.Ldm.Query
namespace FlexModel.Ldm
open Spec

theorem getPath_ok_iff (ks : List String) : ∀ (v x : JVal), getPath v ks = .ok x ↔ lookupPath v ks = some x := by
  induction ks with
  | nil => intro v x; simp [getPath, lookupPath, pure, Except.pure]
  | cons k ks ih =>
    intro v x
    cases v with
    | dict kvs =>
      simp only [getPath, lookupPath, pyIndex]
      cases h : kvs.get? k with
      | none => simp [bind, Except.bind, throw, throwThe, MonadExceptOf.throw]
      | some y => simp only [bind, Except.bind, pure, Except.pure]; exact ih y x
    | _ => simp [getPath, lookupPath, pyIndex, bind, Except.bind, throw, throwThe, MonadExceptOf.throw]

theorem getPath_error_of_none (ks : List String) : ∀ (v : JVal), lookupPath v ks = none → ∃ e, getPath v ks = .error e := by
  intro v h
  cases hg : getPath v ks with
  | error e => exact ⟨e, rfl⟩
  | ok x => rw [(getPath_ok_iff ks v x).mp hg] at h; cases h

/-- the dictionary back-end's statement test is the specification's -/
theorem stmtMatches_eq_holds (obj : JVal) (s : Stmt) : stmtMatches obj s = holds s obj := by
  unfold stmtMatches stmtValue holds opHolds
  cases hl : lookupPath obj (s.attr.splitOn ".") with
  | none =>
    obtain ⟨e, he⟩ := getPath_error_of_none _ _ hl
    simp [he, bind, Except.bind]
  | some v =>
    rw [(getPath_ok_iff _ _ _).mpr hl]
    simp only [bind, Except.bind]
    cases evalOp s.op v s.ref <;> rfl

theorem filterMatches_eq (f : Filter) (hwf : WFFilter f) (r : Record) : filterMatches f r = matchesFilter f r.obj := by
  unfold filterMatches matchesFilter
  cases h2 : f.s2 with
  | none => simp [stmtMatches_eq_holds]
  | some s2 =>
    have := hwf (by simp [h2])
    cases hl : f.lop with
    | none => simp [hl] at this
    | some l => cases l <;> simp [stmtMatches_eq_holds]

theorem tinyMatches_eq (f : Filter) (hwf : WFFilter f) (r : Record) : tinyMatches f r = matchesFilter f r.obj := by
  unfold tinyMatches matchesFilter
  cases h2 : f.s2 with
  | none => simp [stmtMatches_eq_holds]
  | some s2 =>
    have := hwf (by simp [h2])
    cases hl : f.lop with
    | none => simp [hl] at this
    | some l => cases l <;> simp [stmtMatches_eq_holds]

theorem dictSearch_eq_select (rows : List Record) (types : List Nat) (f : Option Filter)
    (hwf : ∀ g, f = some g → WFFilter g) : dictSearch rows types f = select rows types f := by
  unfold dictSearch select typeSelect
  cases f with
  | none => apply List.filter_congr; intro r _; simp [selected]
  | some g =>
    simp only
    rw [List.filter_filter]
    apply List.filter_congr
    intro r _
    simp only [selected, filterMatches_eq g (hwf g rfl), Bool.and_comm]

theorem tinySearch_eq_select (rows : List Record) (types : List Nat) (f : Option Filter)
    (hwf : ∀ g, f = some g → WFFilter g) : tinySearch rows types f = select (rows.map Record.round) types f := by
  unfold tinySearch select typeSelect
  cases f with
  | none => apply List.filter_congr; intro r _; simp [selected]
  | some g =>
    simp only
    rw [List.filter_filter]
    apply List.filter_congr
    intro r _
    simp only [selected, tinyMatches_eq g (hwf g rfl)]

mutual
/-- no tuple anywhere: the value survives JSON storage unchanged -/
def noTuple : JVal → Bool
  | .tuple _ => false
  | .list xs => noTupleL xs
  | .dict kvs => noTupleD kvs
  | _ => true
def noTupleL : JList → Bool
  | .nil => true
  | .cons h t => noTuple h && noTupleL t
def noTupleD : JDict → Bool
  | .nil => true
  | .cons _ v t => noTuple v && noTupleD t
end

mutual
theorem jsonRound_id : ∀ v : JVal, noTuple v = true → jsonRound v = v
  | .null, _ => rfl
  | .bool _, _ => rfl
  | .int _, _ => rfl
  | .str _, _ => rfl
  | .bytes _, _ => rfl
  | .tuple _, h => by simp [noTuple] at h
  | .list xs, h => by simp only [noTuple] at h; simp only [jsonRound, jsonRoundL_id xs h]
  | .dict kvs, h => by simp only [noTuple] at h; simp only [jsonRound, jsonRoundD_id kvs h]
theorem jsonRoundL_id : ∀ xs : JList, noTupleL xs = true → jsonRoundL xs = xs
  | .nil, _ => rfl
  | .cons h t, hh => by
    simp only [noTupleL, Bool.and_eq_true] at hh
    simp only [jsonRoundL, jsonRound_id h hh.1, jsonRoundL_id t hh.2]
theorem jsonRoundD_id : ∀ kvs : JDict, noTupleD kvs = true → jsonRoundD kvs = kvs
  | .nil, _ => rfl
  | .cons k v t, hh => by
    simp only [noTupleD, Bool.and_eq_true] at hh
    simp only [jsonRoundD, jsonRound_id v hh.1, jsonRoundD_id t hh.2]
end

theorem round_id_of_stable (rows : List Record) (h : ∀ r ∈ rows, noTuple r.obj = true) : rows.map Record.round = rows := by
  induction rows with
  | nil => rfl
  | cons r t ih =>
    simp only [List.map_cons]
    rw [ih (fun x hx => h x (by simp [hx]))]
    congr 1
    have hr := jsonRound_id _ (h r (by simp))
    cases r
    simp only [Record.round] at hr ⊢
    rw [hr]

/-- pure form of `insAsc` on integer keys -/
def insL {α : Type} (f : α → Int) (x : α) : List α → List α
  | [] => [x]
  | y :: ys => if f x < f y then x :: y :: ys else y :: insL f x ys

def sortL {α : Type} (f : α → Int) (l : List α) : List α := l.foldl (fun acc x => insL f x acc) []

def leOf {α : Type} (f : α → Int) : α → α → Bool := fun a b => decide (f a ≤ f b)

theorem insL_ordIns_comm {α : Type} (f : α → Int) (x a : α) : ∀ l : List α,
    insL f x (ordIns (leOf f) a l) = ordIns (leOf f) a (insL f x l) := by
  intro l
  induction l with
  | nil =>
    simp only [ordIns, insL, leOf]
    by_cases h : f x < f a
    · have : ¬ f a ≤ f x := by omega
      simp [h, this]
    · have : f a ≤ f x := by omega
      simp [h, this]
  | cons b t ih =>
    simp only [ordIns, insL, leOf]
    by_cases hab : f a ≤ f b
    · by_cases hxb : f x < f b
      · by_cases hxa : f x < f a
        · have : ¬ f a ≤ f x := by omega
          simp [hab, hxb, hxa, this, insL, ordIns, leOf]
        · have : f a ≤ f x := by omega
          simp [hab, hxb, hxa, this, insL, ordIns, leOf]
      · have hxa : ¬ f x < f a := by omega
        simp [hab, hxb, hxa, insL, ordIns, leOf]
    · by_cases hxb : f x < f b
      · have : ¬ f a ≤ f x := by omega
        simp [hab, hxb, this, insL, ordIns, leOf]
      · simp only [hab, hxb, decide_false, Bool.false_eq_true, if_false, insL, ordIns, leOf]
        rw [← ih]

theorem foldl_insL_ordIns {α : Type} (f : α → Int) (a : α) (xs : List α) : ∀ acc : List α,
    xs.foldl (fun acc x => insL f x acc) (ordIns (leOf f) a acc) = ordIns (leOf f) a (xs.foldl (fun acc x => insL f x acc) acc) := by
  induction xs with
  | nil => intro acc; rfl
  | cons x xs ih =>
    intro acc
    simp only [List.foldl_cons]
    rw [insL_ordIns_comm, ih]

/-- the left-fold "insert after the not-greater ones" sort is the stable sort -/
theorem sortL_eq_stableSort {α : Type} (f : α → Int) : ∀ l : List α, sortL f l = stableSort (leOf f) l := by
  intro l
  induction l with
  | nil => rfl
  | cons a l ih =>
    have h0 : insL f a [] = ordIns (leOf f) a [] := rfl
    simp only [sortL, List.foldl_cons, stableSort]
    rw [h0, foldl_insL_ordIns]
    have : l.foldl (fun acc x => insL f x acc) [] = sortL f l := rfl
    rw [this, ih]

theorem ordIns_append {α : Type} (le : α → α → Bool) (a : α) (l₁ l₂ : List α)
    (h1 : ∀ b ∈ l₁, le a b = false) (h2 : ∀ c, l₂.head? = some c → le a c = true) :
    ordIns le a (l₁ ++ l₂) = l₁ ++ a :: l₂ := by
  induction l₁ with
  | nil =>
    cases l₂ with
    | nil => rfl
    | cons c t => simp [ordIns, h2 c rfl]
  | cons b t ih =>
    simp only [List.cons_append, ordIns, h1 b (by simp), Bool.false_eq_true, if_false]
    rw [ih (fun x hx => h1 x (by simp [hx]))]

/-- the stable insertion sort is core's `List.mergeSort` (for a transitive, total comparison) -/
theorem stableSort_eq_mergeSort {α : Type} (le : α → α → Bool)
    (trans : ∀ a b c : α, le a b → le b c → le a c) (total : ∀ a b : α, le a b || le b a) :
    ∀ l : List α, stableSort le l = l.mergeSort le := by
  intro l
  induction l with
  | nil => simp [stableSort]
  | cons a l ih =>
    obtain ⟨l₁, l₂, h₁, h₂, h₃⟩ := List.mergeSort_cons trans total a l
    have hs := List.pairwise_mergeSort trans total (a :: l)
    rw [h₁] at hs
    simp only [stableSort, ih, h₂, h₁]
    apply ordIns_append
    · intro b hb; have := h₃ b hb; simpa using this
    · intro c hc
      have hp := (List.pairwise_append.mp hs).2.1
      cases l₂ with
      | nil => simp at hc
      | cons d t =>
        simp at hc; subst hc
        exact (List.pairwise_cons.mp hp).1 d (by simp)

theorem pyLt_int (a b : Int) : pyLt (.int a) (.int b) = .ok (decide (a < b)) := by
  simp only [pyLt, compare3, JVal.num?, bind, Except.bind, pure, Except.pure, compare, compareOfLessAndEq]
  by_cases h : a < b
  · simp [h]
  · by_cases e : a = b <;> simp [h, e]

def keyed {α : Type} (f : α → Int) (y : α) : α × JVal := (y, .int (f y))

theorem insAsc_int {α : Type} (f : α → Int) (x : α) : ∀ ys : List α,
    insAsc (keyed f x) (ys.map (keyed f)) = .ok ((insL f x ys).map (keyed f)) := by
  intro ys
  induction ys with
  | nil => rfl
  | cons y ys ih =>
    simp only [List.map_cons, insAsc, keyed, pyLt_int, bind, Except.bind, insL]
    by_cases h : f x < f y
    · simp [h, pure, Except.pure, keyed]
    · simp only [h, decide_false, Bool.false_eq_true, if_false]
      have := ih
      simp only [keyed] at this
      rw [this]
      simp [pure, Except.pure, keyed]

theorem insDesc_int {α : Type} (f : α → Int) (x : α) : ∀ ys : List α,
    insDesc (keyed f x) (ys.map (keyed f)) = .ok ((insL (fun r => - f r) x ys).map (keyed f)) := by
  intro ys
  induction ys with
  | nil => rfl
  | cons y ys ih =>
    simp only [List.map_cons, insDesc, keyed, pyLt_int, bind, Except.bind, insL]
    by_cases h : f y < f x
    · have h' : - f x < - f y := by omega
      simp [h, h', pure, Except.pure, keyed]
    · have h' : ¬ (- f x < - f y) := by omega
      simp only [h, h', decide_false, Bool.false_eq_true, if_false]
      have := ih
      simp only [keyed] at this
      rw [this]
      simp [pure, Except.pure, keyed]

/-- the key function one pass sorts by -/
def passKey {α : Type} (f : α → Int) (rev : Bool) : α → Int := if rev then fun r => - f r else f

theorem pySorted_int_aux {α : Type} (f : α → Int) (rev : Bool) (xs : List α) : ∀ acc : List α,
    (xs.map (keyed f)).foldlM (fun acc x => if rev then insDesc x acc else insAsc x acc) (acc.map (keyed f))
      = .ok ((xs.foldl (fun acc x => insL (passKey f rev) x acc) acc).map (keyed f)) := by
  induction xs with
  | nil => intro acc; rfl
  | cons x xs ih =>
    intro acc
    simp only [List.map_cons, List.foldlM_cons, List.foldl_cons]
    cases rev with
    | true =>
      simp only [if_true, insDesc_int, bind, Except.bind, passKey]
      exact ih _
    | false =>
      simp only [Bool.false_eq_true, if_false, insAsc_int, bind, Except.bind, passKey]
      exact ih _

theorem pySorted_int {α : Type} (f : α → Int) (rev : Bool) (xs : List α) :
    pySorted (xs.map (keyed f)) rev = .ok ((sortL (passKey f rev) xs).map (keyed f)) := by
  have := pySorted_int_aux f rev xs []
  simpa [pySorted, sortL] using this

theorem mapM_ok {α β : Type} (g : α → Except Err β) (h : α → β) : ∀ l : List α, (∀ a ∈ l, g a = .ok (h a)) →
    l.mapM g = .ok (l.map h) := by
  intro l
  induction l with
  | nil => intro _; rfl
  | cons a t ih =>
    intro hl
    rw [List.mapM_cons, hl a (by simp), ih (fun b hb => hl b (by simp [hb]))]
    rfl

theorem sortByKey_int (κ : OrderKey → Record → Int) (k : OrderKey) (rows : List Record)
    (h : ∀ r ∈ rows, orderKeyOf r k = .ok (.int (κ k r))) :
    sortByKey rows k = .ok (sortL (effKey κ k) rows) := by
  unfold sortByKey
  rw [mapM_ok (fun r => do let v ← orderKeyOf r k; pure (r, v)) (keyed (κ k)) rows
    (by intro r hr; simp [h r hr, bind, Except.bind, pure, Except.pure, keyed])]
  simp only [bind, Except.bind, pySorted_int, pure, Except.pure]
  congr 1
  have : passKey (κ k) (k.dir == Dir.desc) = effKey κ k := by
    unfold passKey effKey
    cases k.dir <;> rfl
  rw [this, List.map_map]
  have : (fun (x : Record × JVal) => x.1) ∘ keyed (κ k) = id := by funext r; rfl
  rw [this, List.map_id]

end FlexModel.Ldm

/-
Stored LDM records: what `AddDataProviderReq.to_dict()` puts into the database.
`Loc` covers the locations the harness builds with `Location.initializer` (circle area; rectangle and ellipse None).
-/
import FlexModel.Ldm.JVal
import Generated.Ldm

namespace FlexModel.Ldm

structure Loc where
  lat : Int
  lon : Int
  majC : Int       -- semiMajorConfidence
  minC : Int       -- semiMinorConfidence
  majO : Int       -- semiMajorOrientation
  alt : Int
  altC : Int
  radius : Int
  relDist : Int
  relDir : Int
  deriving DecidableEq, Inhabited

structure Record where
  appId : Int
  timestamp : Int       -- TimestampIts, milliseconds
  loc : Loc
  obj : JVal            -- dataObject
  validity : Int        -- timeValidity, seconds
  deriving DecidableEq, Inhabited

/-- `AddDataProviderReq.to_dict()["location"]` of the location given in the request.
`fixedOri = false` is the code before fix C12-semi-major-orientation (orientation copied from the minor confidence). -/
def Loc.stored (fixedOri : Bool) (l : Loc) : Loc :=
  if fixedOri then l else { l with majO := l.minC }

private def d (xs : List (String × JVal)) : JVal := .dict (JDict.ofList xs)

/-- the location dictionary as stored -/
def Loc.toJVal (l : Loc) : JVal :=
  d [("referencePosition", d [
        ("latitude", .int l.lat), ("longitude", .int l.lon),
        ("positionConfidenceEllipse", d [("semiMajorConfidence", .int l.majC), ("semiMinorConfidence", .int l.minC),
                                         ("semiMajorOrientation", .int l.majO)]),
        ("altitude", d [("altitudeValue", .int l.alt), ("altitudeConfidence", .int l.altC)])]),
     ("referenceArea", d [
        ("geometricArea", d [("circle", d [("radius", .int l.radius)]), ("rectangle", .null), ("ellipse", .null)]),
        ("relevanceArea", d [("relevanceDistance", .int l.relDist), ("relevanceTrafficDirection", .int l.relDir)])])]

/-- the whole stored dictionary (key order as in `to_dict`) -/
def Record.toJVal (r : Record) : JVal :=
  d [("application_id", .int r.appId), ("timestamp", .int r.timestamp), ("location", r.loc.toJVal),
     (Generated.Ldm.dataObjectField, r.obj), ("timeValidity", .int r.validity)]

/-- `get_object_type_from_data_object`: id of the first top-level key that names a data object type -/
def typeIdOfName (n : String) : Option Nat :=
  (Generated.Ldm.typeTable.find? (fun p => p.2 == n)).map (·.1)

def firstTypeKey : List String → Option Nat
  | [] => none
  | k :: ks => match typeIdOfName k with
    | some t => some t
    | none => firstTypeKey ks

def objType (o : JVal) : Option Nat :=
  match o with
  | .dict kvs => firstTypeKey kvs.keys
  | _ => none

/-- `LDMService.get_object_type_from_data_object` (string form, "" when none) -/
def objTypeName (o : JVal) : String :=
  match o with
  | .dict kvs => (kvs.keys.find? (fun k => (typeIdOfName k).isSome)).getD ""
  | _ => ""

def Loc.ser (l : Loc) : String :=
  " ".intercalate ([l.lat, l.lon, l.majC, l.minC, l.majO, l.alt, l.altC, l.radius, l.relDist, l.relDir].map toString)

/-- canonical one-token form of a record for the line protocol -/
def Record.ser (r : Record) : String :=
  "{" ++ toString r.appId ++ " " ++ toString r.timestamp ++ " " ++ r.loc.ser ++ " " ++ toString r.validity ++ " " ++ r.obj.ser ++ "}"

end FlexModel.Ldm

/-
C13 (round 5) — "the in-memory and the TinyDB back-end return the same objects for the same HISTORY of operations".

Both back-ends are an insertion-ordered table `id ↦ object` plus an id allocator (`QueryConc.Db`).  A history is a list of
the operations LDMMaintenance issues on its back-end:
  `add v`   add_provider_data            -> `insert`
  `upd k v` update_provider_data         -> `update` (only when an object is stored under `k`: `get` is checked first)
  `delv v`  del_provider_data(container) -> `remove(data_object)`  removal BY VALUE: the FIRST stored object equal to `v`
  `deli k`  del_provider_data_by_id      -> `remove_by_id`
`dictStep` is DictionaryDataBase.  `tinyStep` is the TinyDB class: it stores the JSON image `img v` of every object (tuples
read back as lists), its document ids are the in-memory ids shifted by `off` (allocators start at 0 and 1), `remove`
compares the stored documents with the image of its argument and removes ONE document (`all := false`, the code) or every
equal document (`all := true`, the variant of a refactoring that collects the ids of all equal documents first).

Proved: `tiny_step_image`, `tiny_history_image` - for EVERY history the TinyDB table is the image of the in-memory table
(ids shifted, objects mapped by `img`), provided `img` does not identify two DIFFERENT objects of the history (`P`
delimits the objects of the history; for JSON-stable objects `img` is the identity).  `remove_all_copies_differs`: with
`all := true` two equal stored objects and one removal by value leave different stores.  Core Lean only.
-/
import FlexModel.Ldm.QueryConc

set_option linter.unusedSectionVars false

namespace FlexModel.Ldm.Backends
open FlexModel.Ldm.QueryConc

inductive HOp (V : Type) where
  | add (v : V)
  | upd (id : Nat) (v : V)
  | delv (v : V)
  | deli (id : Nat)
deriving DecidableEq, Repr

/-- the object an operation carries -/
def HOp.value? {V : Type} : HOp V → Option V
  | .add v => some v
  | .upd _ v => some v
  | .delv v => some v
  | .deli _ => none

/-- the same operation with the other back-end's identifiers -/
def HOp.shift {V : Type} (off : Nat) : HOp V → HOp V
  | .upd k v => .upd (k + off) v
  | .deli k => .deli (k + off)
  | op => op

variable {V : Type} [DecidableEq V]

/-- DictionaryDataBase -/
def dictStep (d : Db V) : HOp V → Db V
  | .add v => { rows := setRow d.rows d.next v, next := d.next + 1 }
  | .upd k v => if hasKey d.rows k then { d with rows := setRow d.rows k v } else d
  | .delv v => { d with rows := eraseVal d.rows v }
  | .deli k => { d with rows := eraseKey d.rows k }

/-- every row whose object equals `v` goes -/
def eraseAllVal (rows : List (Nat × V)) (v : V) : List (Nat × V) := rows.filter (fun r => !decide (r.2 = v))

/-- the TinyDB class -/
def tinyStep (all : Bool) (img : V → V) (d : Db V) : HOp V → Db V
  | .add v => { rows := setRow d.rows d.next (img v), next := d.next + 1 }
  | .upd k v => if hasKey d.rows k then { d with rows := setRow d.rows k (img v) } else d
  | .delv v => { d with rows := if all then eraseAllVal d.rows (img v) else eraseVal d.rows (img v) }
  | .deli k => { d with rows := eraseKey d.rows k }

def dictRun (d : Db V) (ops : List (HOp V)) : Db V := ops.foldl dictStep d
def tinyRun (all : Bool) (img : V → V) (d : Db V) (ops : List (HOp V)) : Db V := ops.foldl (tinyStep all img) d

/-- the TinyDB table is the image of the in-memory table -/
def Image (off : Nat) (img : V → V) (dD dT : Db V) : Prop :=
  dT.next = dD.next + off ∧ dT.rows = dD.rows.map (fun r => (r.1 + off, img r.2))

/-! ## the table operations commute with the image -/

theorem map_setRow (off : Nat) (img : V → V) (rows : List (Nat × V)) (k : Nat) (v : V) :
    (setRow rows k v).map (fun r => (r.1 + off, img r.2)) = setRow (rows.map (fun r => (r.1 + off, img r.2))) (k + off) (img v) := by
  induction rows with
  | nil => simp [setRow]
  | cons r rs ih =>
    by_cases h : r.1 = k
    · simp [setRow, h]
    · have h' : ¬ r.1 + off = k + off := by omega
      simp [setRow, h, ih]

theorem hasKey_map (off : Nat) (img : V → V) (rows : List (Nat × V)) (k : Nat) :
    hasKey (rows.map (fun r => (r.1 + off, img r.2))) (k + off) = hasKey rows k := by
  induction rows with
  | nil => simp [hasKey]
  | cons r rs ih =>
    simp only [hasKey] at ih
    simp only [hasKey, List.map_cons, List.any_cons, ih]
    have e : (r.fst + off == k + off) = (r.fst == k) := by
      by_cases h : r.1 = k
      · subst h; simp
      · have h' : ¬ r.1 + off = k + off := by omega
        rw [beq_eq_false_iff_ne.mpr h, beq_eq_false_iff_ne.mpr h']
    rw [e]

theorem map_eraseKey (off : Nat) (img : V → V) (rows : List (Nat × V)) (k : Nat) :
    (eraseKey rows k).map (fun r => (r.1 + off, img r.2)) = eraseKey (rows.map (fun r => (r.1 + off, img r.2))) (k + off) := by
  induction rows with
  | nil => simp [eraseKey]
  | cons r rs ih =>
    simp only [eraseKey, List.map_cons, List.filter_cons] at ih ⊢
    by_cases h : r.1 = k
    · simp [h, ih]
    · have h' : ¬ r.1 + off = k + off := by omega
      simp [h, ih]

theorem map_eraseVal (off : Nat) (img : V → V) (P : V → Prop) (hinj : ∀ a b, P a → P b → img a = img b → a = b)
    (rows : List (Nat × V)) (v : V) (hrows : ∀ r ∈ rows, P r.2) (hv : P v) :
    (eraseVal rows v).map (fun r => (r.1 + off, img r.2)) = eraseVal (rows.map (fun r => (r.1 + off, img r.2))) (img v) := by
  induction rows with
  | nil => simp [eraseVal]
  | cons r rs ih =>
    have hr : P r.2 := hrows r (List.mem_cons_self ..)
    have ih := ih (fun x hx => hrows x (List.mem_cons_of_mem _ hx))
    by_cases h : r.2 = v
    · simp [eraseVal, h]
    · have h' : ¬ img r.2 = img v := fun e => h (hinj _ _ hr hv e)
      simp [eraseVal, h, h', ih]

theorem mem_setRow (rows : List (Nat × V)) (k : Nat) (v : V) (x : Nat × V) (hx : x ∈ setRow rows k v) : x ∈ rows ∨ x.2 = v := by
  induction rows with
  | nil => simp [setRow] at hx; right; simp [hx]
  | cons r rs ih =>
    by_cases h : r.1 = k
    · simp [setRow, h] at hx
      rcases hx with e | e
      · right; simp [e]
      · left; exact List.mem_cons_of_mem _ e
    · simp [setRow, h] at hx
      rcases hx with e | e
      · left; simp [e]
      · rcases ih e with m | m
        · left; exact List.mem_cons_of_mem _ m
        · right; exact m

theorem mem_eraseVal (rows : List (Nat × V)) (v : V) (x : Nat × V) (hx : x ∈ eraseVal rows v) : x ∈ rows := by
  induction rows with
  | nil => simp [eraseVal] at hx
  | cons r rs ih =>
    by_cases h : r.2 = v
    · simp [eraseVal, h] at hx; exact List.mem_cons_of_mem _ hx
    · simp [eraseVal, h] at hx
      rcases hx with e | e
      · simp [e]
      · exact List.mem_cons_of_mem _ (ih e)

/-- **one operation**: the image is kept by every operation of a history (removal by value removes ONE copy on both) -/
theorem tiny_step_image (off : Nat) (img : V → V) (P : V → Prop) (hinj : ∀ a b, P a → P b → img a = img b → a = b)
    (dD dT : Db V) (hrel : Image off img dD dT) (hP : ∀ r ∈ dD.rows, P r.2) (op : HOp V) (hop : ∀ v, op.value? = some v → P v) :
    Image off img (dictStep dD op) (tinyStep false img dT (op.shift off)) ∧ (∀ r ∈ (dictStep dD op).rows, P r.2) := by
  obtain ⟨hn, hr⟩ := hrel
  cases op with
  | add v =>
    refine ⟨⟨by simp [dictStep, tinyStep, HOp.shift, hn]; omega, ?_⟩, ?_⟩
    · simp only [dictStep, tinyStep, HOp.shift, hn, hr]
      exact (map_setRow off img dD.rows dD.next v).symm
    · intro r hr'
      rcases mem_setRow _ _ _ r hr' with m | m
      · exact hP r m
      · rw [m]; exact hop v rfl
  | upd k v =>
    have hk : hasKey dT.rows (k + off) = hasKey dD.rows k := by rw [hr]; exact hasKey_map off img dD.rows k
    simp only [dictStep, tinyStep, HOp.shift, hk]
    by_cases h : hasKey dD.rows k = true
    · simp only [h, if_true]
      refine ⟨⟨hn, ?_⟩, ?_⟩
      · simp only [hr]
        exact (map_setRow off img dD.rows k v).symm
      · intro r hr'
        rcases mem_setRow _ _ _ r hr' with m | m
        · exact hP r m
        · rw [m]; exact hop v rfl
    · simp only [h]
      exact ⟨⟨hn, hr⟩, hP⟩
  | delv v =>
    refine ⟨⟨hn, ?_⟩, ?_⟩
    · simp only [dictStep, tinyStep, HOp.shift, hr]
      exact (map_eraseVal off img P hinj dD.rows v hP (hop v rfl)).symm
    · intro r hr'
      exact hP r (mem_eraseVal _ _ r hr')
  | deli k =>
    refine ⟨⟨hn, ?_⟩, ?_⟩
    · simp only [dictStep, tinyStep, HOp.shift, hr]
      exact (map_eraseKey off img dD.rows k).symm
    · intro r hr'
      simp only [dictStep, eraseKey, List.mem_filter] at hr'
      exact hP r hr'.1

/-- **every history**: started from tables that are images of one another (the empty tables with allocators 0 and 1
are), the two back-ends stay images of one another after any history of operations -/
theorem tiny_history_image (off : Nat) (img : V → V) (P : V → Prop) (hinj : ∀ a b, P a → P b → img a = img b → a = b)
    (ops : List (HOp V)) (hops : ∀ op ∈ ops, ∀ v, op.value? = some v → P v)
    (dD dT : Db V) (hrel : Image off img dD dT) (hP : ∀ r ∈ dD.rows, P r.2) :
    Image off img (dictRun dD ops) (tinyRun false img dT (ops.map (HOp.shift off))) ∧ (∀ r ∈ (dictRun dD ops).rows, P r.2) := by
  induction ops generalizing dD dT with
  | nil => exact ⟨hrel, hP⟩
  | cons op rest ih =>
    have hs := tiny_step_image off img P hinj dD dT hrel hP op (hops op (List.mem_cons_self ..))
    simp only [dictRun, tinyRun, List.map_cons, List.foldl_cons]
    exact ih (fun o ho => hops o (List.mem_cons_of_mem _ ho)) _ _ hs.1 hs.2

theorem image_empty (img : V → V) : Image 1 img ({ rows := [], next := 0 } : Db V) { rows := [], next := 1 } := by
  simp [Image]

/-- the stored objects, in store order -/
def Db.objs (d : Db V) : List V := d.rows.map (·.2)

theorem image_objs (off : Nat) (img : V → V) (dD dT : Db V) (h : Image off img dD dT) : Db.objs dT = (Db.objs dD).map img := by
  simp [Db.objs, h.2, List.map_map, Function.comp_def]

/-- a message stored twice (the same container delivered twice), then ONE removal by value: the in-memory back-end keeps
one copy; the variant that removes every equal document keeps none -/
def dupHistory : List (HOp Nat) := [.add 10, .add 20, .add 20, .add 30, .delv 20]

end FlexModel.Ldm.Backends

/-
C12 reference machine: the LDM as a map `identifier -> stored object` with registration gating, expiry at
maintenance passes and never-reused identifiers.

Written from the property text and ETSI EN 302 895 (registration 6.2.1/6.3.1, data maintenance 5.3.2, ITS time =
TS 102 894-2 TimestampIts), NOT from the code: it does not import the implementation model (`Store.lean`); it has its
own vocabulary of operations, its own registration rules, clock conversion, lapse test, data object type, validation
ladder and answer to unfiltered requests, all with literal constants.  That each of them agrees with what the
implementation model uses (and with the constants regenerated from the repository) is PROVED in `StoreLemmas.lean`
(`agree_*`), so a change on either side re-opens a proof.  Imported: only the data vocabulary (`Record`, `Loc`,
`JVal`) and the query language of C13 (`Request`, `ReqOut`; filtered / ordered requests are delegated to
`serviceQuery`, which is C13's subject).

The machine has three parameters, so that one refinement theorem covers the code as it is and the repaired variants:
  `drops l`    the area-of-maintenance rule: a maintenance pass discards an object stored with location `l`
  `gated`      update / delete are refused for applications that are not registered providers
  `reactive d` an accepted add runs a maintenance pass when `d` ms (monotonic) passed since the last reactive pass
Every clause theorem of Props/C12.lean holds for ALL values of the parameters it does not mention.
-/
import FlexModel.Ldm.Filter

namespace FlexModel.Ldm.Spec
open FlexModel.Ldm

structure Params where
  drops : Loc → Bool
  gated : Bool
  reactive : Int → Bool

/-! ## rules transcribed from the standard -/

/-- 2004-01-01T00:00:00 UTC in Unix seconds, and the leap seconds inserted since (ITS time is TAI based) -/
def itsEpochS : Int := 1072915200
def leapS : Int := 5

/-- the LDM clock: whole UTC seconds, as ITS milliseconds -/
def nowIts (utcMs : Int) : Int := (utcMs / 1000 - itsEpochS + leapS) * 1000

/-- the validity of an object (seconds, counted from its timestamp) has lapsed at LDM time `now` -/
def lapsed (now : Int) (r : Record) : Bool := decide (r.timestamp + 1000 * r.validity < now)

/-- data object types (EN 302 895 annex B / ITS-AID of the facility messages) -/
def typeNames : List (Nat × String) :=
  [(1, "denm"), (2, "cam"), (3, "poi"), (4, "spatem"), (5, "mapem"), (6, "ivim"), (7, "ev-rsr"),
   (8, "tistpgtransaction"), (9, "srem"), (10, "ssem"), (11, "evcsn"), (12, "saem"), (13, "rtcmem"), (14, "cpm"),
   (15, "imzm"), (16, "vam"), (17, "dsm"), (18, "pcim"), (19, "pcvm"), (20, "payload"), (21, "pam")]

/-- the identifiers 1 .. 21 are the known ITS-AIDs / data object types -/
def known (a : Nat) : Bool := decide (1 ≤ a ∧ a ≤ 21)

def typeOfKey (k : String) : Option Nat := (typeNames.find? (fun p => p.2 == k)).map (·.1)

def firstType : List String → Option Nat
  | [] => none
  | k :: ks => match typeOfKey k with
    | some t => some t
    | none => firstType ks

/-- the type of a data object is that of its first top-level key naming a data object type -/
def typeOf (o : JVal) : Option Nat :=
  match o with
  | .dict kvs => firstType kvs.keys
  | _ => none

/-- a provider registration is accepted for a known ITS-AID with a non-empty permission list that covers its own
type (DENM providers are always permitted) -/
def providerOk (app : Nat) (perms : List Nat) : Bool :=
  known app && !perms.isEmpty && (app == 1 || perms.contains app)

/-- consumers likewise; DENM, SPATEM and MAPEM consumers are always permitted -/
def consumerOk (app : Nat) (perms : List Nat) : Bool :=
  known app && !perms.isEmpty && (perms.contains app || app == 1 || app == 4 || app == 5)

/-- validation of a request (6.3.3): result code of the refusal, if any -/
def refusal (registered : Bool) (q : Request) : Option Nat :=
  if !registered then some 1
  else if !(q.types.all known) then some 2
  else if (match q.prio with | some p => decide (p < 0 ∨ 255 < p) | none => false) then some 3
  else if q.orderBad then some 5
  else if q.filterBad then some 4
  else none

/-- is a stored object of one of the requested types? -/
def wanted (types : List Nat) (r : Record) : Bool :=
  match typeOf r.obj with
  | some t => types.contains t
  | none => false

/-! ## the machine -/

inductive Op where
  | regProvider (app : Nat) (perms : List Nat)
  | deregProvider (app : Nat)
  | regConsumer (app : Nat) (perms : List Nat)
  | deregConsumer (app : Nat)
  | add (app : Nat) (ts : Int) (loc : Loc) (obj : JVal) (validity : Int)
  | update (app : Nat) (id : Nat) (obj : JVal)
  | delete (app : Nat) (id : Nat)
  | request (q : Request)
  | maintain
  | advance (ms : Nat)

structure St where
  objs : Nat → Option Record
  next : Nat                      -- identifiers handed out so far are exactly 0 .. next-1
  prov : Nat → Bool
  cons : Nat → Bool
  utcMs : Int
  monoMs : Int
  lastGc : Int

def St.init (utcMs monoMs : Int) : St :=
  { objs := fun _ => none, next := 0, prov := fun _ => false, cons := fun _ => false,
    utcMs := utcMs, monoMs := monoMs, lastGc := monoMs }

inductive Out where
  | refused (code : Nat)
  | done
  | id (n : Nat)
  | req (r : ReqOut)
  | none

def setAt {α : Type} (f : Nat → α) (i : Nat) (x : α) : Nat → α := fun j => if j = i then x else f j

/-- the stored objects in identifier order -/
def listing (s : St) : List Record := (List.range s.next).filterMap s.objs

/-- a maintenance pass at LDM time `now` forgets exactly the objects whose validity has lapsed and those the area
rule discards -/
def collect (P : Params) (now : Int) (objs : Nat → Option Record) : Nat → Option Record :=
  fun i => match objs i with
    | some r => if lapsed now r || P.drops r.loc then Option.none else some r
    | Option.none => Option.none

/-- answer to a validated request: without filter and order exactly the stored objects of the requested types, in
identifier order; filtered / ordered requests are C13's subject -/
def answer (rows : List Record) (q : Request) : ReqOut :=
  match q.filter, q.order with
  | Option.none, Option.none => .ok (rows.filter (wanted q.types))
  | _, _ => match serviceQuery rows q with
    | .ok rs => .ok rs
    | .error e => .exc e

def step (P : Params) (s : St) : Op → St × Out
  | .regProvider app perms =>
    if providerOk app perms then ({ s with prov := setAt s.prov app true }, .done) else (s, .refused 1)
  | .deregProvider app =>
    if s.prov app then ({ s with prov := setAt s.prov app false }, .done) else (s, .refused 1)
  | .regConsumer app perms =>
    if consumerOk app perms then ({ s with cons := setAt s.cons app true }, .done) else (s, .refused 2)
  | .deregConsumer app =>
    if s.cons app then ({ s with cons := setAt s.cons app false }, .done) else (s, .refused 1)
  | .add app ts loc obj validity =>
    if !s.prov app then (s, .refused 1)
    else
      let r : Record := { appId := app, timestamp := ts, loc := loc, obj := obj, validity := validity }
      let objs1 := setAt s.objs s.next (some r)
      if P.reactive (s.monoMs - s.lastGc) then
        ({ s with objs := collect P (nowIts s.utcMs) objs1, next := s.next + 1, lastGc := s.monoMs }, .id s.next)
      else ({ s with objs := objs1, next := s.next + 1 }, .id s.next)
  | .update app id obj =>
    if P.gated && !s.prov app then (s, .refused 1)
    else match s.objs id with
      | Option.none => (s, .refused 1)
      | some r =>
        if typeOf r.obj = typeOf obj then ({ s with objs := setAt s.objs id (some { r with obj := obj }) }, .done)
        else (s, .refused 2)
  | .delete app id =>
    if P.gated && !s.prov app then (s, .refused 1)
    else match s.objs id with
      | Option.none => (s, .refused 1)
      | some _ => ({ s with objs := setAt s.objs id Option.none }, .done)
  | .request q =>
    (s, .req (match refusal (s.cons q.app) q with
      | some c => .refused c
      | Option.none => answer (listing s) q))
  | .maintain => ({ s with objs := collect P (nowIts s.utcMs) s.objs }, .none)
  | .advance ms => ({ s with utcMs := s.utcMs + ms, monoMs := s.monoMs + ms }, .none)

def run (P : Params) : St → List Op → St × List Out
  | s, [] => (s, [])
  | s, op :: ops =>
    let (s1, o) := step P s op
    let (s2, os) := run P s1 ops
    (s2, o :: os)

end FlexModel.Ldm.Spec

/-
C12 reference machine: the LDM as a map `identifier -> stored object` with registration gating, expiry at
maintenance runs and never-reused identifiers.  Written from the property text, not from the code: no row list, no
collection loop, no removal by value.  Filtered / ordered requests are delegated to the query function (C13).
-/
import FlexModel.Ldm.Store

namespace FlexModel.Ldm.Spec
open FlexModel.Ldm Generated.Ldm

structure St where
  objs : Nat → Option Record
  next : Nat                      -- identifiers handed out so far are exactly 0 .. next-1
  prov : Nat → Bool
  cons : Nat → Bool
  utcMs : Int
  monoMs : Int
  lastGc : Int

def St.init (utcMs monoMs : Int) : St :=
  { objs := fun _ => none, next := 0, prov := fun _ => false, cons := fun _ => false,
    utcMs := utcMs, monoMs := monoMs, lastGc := monoMs }

inductive Out where
  | refused
  | done
  | id (n : Nat)
  | req (r : ReqOut)
  | none

def setAt {α : Type} (f : Nat → α) (i : Nat) (x : α) : Nat → α := fun j => if j = i then x else f j

/-- the stored objects in identifier order -/
def listing (s : St) : List Record := (List.range s.next).filterMap s.objs

/-- a maintenance run at LDM time `now` forgets exactly the objects whose validity has lapsed -/
def collect (now : Int) (objs : Nat → Option Record) : Nat → Option Record :=
  fun i => match objs i with
    | some r => if expired now r then Option.none else some r
    | Option.none => Option.none

def step (s : St) : Op → St × Out
  | .regProvider app perms =>
    if providerOk app perms then ({ s with prov := setAt s.prov app true }, .done) else (s, .refused)
  | .deregProvider app =>
    if s.prov app then ({ s with prov := setAt s.prov app false }, .done) else (s, .refused)
  | .regConsumer app perms =>
    if consumerOk app perms then ({ s with cons := setAt s.cons app true }, .done) else (s, .refused)
  | .deregConsumer app =>
    if s.cons app then ({ s with cons := setAt s.cons app false }, .done) else (s, .refused)
  | .add app ts loc obj validity =>
    if !s.prov app then (s, .refused)
    else
      let r : Record := { appId := app, timestamp := ts, loc := loc, obj := obj, validity := validity }
      let objs1 := setAt s.objs s.next (some r)
      -- reactive maintenance: at least the collection interval since the last reactive run
      if s.monoMs - s.lastGc ≥ trashIntervalMs then
        ({ s with objs := collect (nowIts s.utcMs) objs1, next := s.next + 1, lastGc := s.monoMs }, .id s.next)
      else ({ s with objs := objs1, next := s.next + 1 }, .id s.next)
  | .update app id obj =>
    if !s.prov app then (s, .refused)
    else match s.objs id with
      | Option.none => (s, .refused)
      | some r =>
        if objTypeName r.obj = objTypeName obj then ({ s with objs := setAt s.objs id (some { r with obj := obj }) }, .done)
        else (s, .refused)
  | .delete app id =>
    if !s.prov app then (s, .refused)
    else match s.objs id with
      | Option.none => (s, .refused)
      | some _ => ({ s with objs := setAt s.objs id Option.none }, .done)
  | .request q =>
    (s, .req (match requestRefusal (s.cons q.app) q with
      | some c => .refused c
      | Option.none => match serviceQuery (listing s) q with
        | .ok rs => .ok rs
        | .error e => .exc e))
  | .maintain => ({ s with objs := collect (nowIts s.utcMs) s.objs }, .none)
  | .advance ms => ({ s with utcMs := s.utcMs + ms, monoMs := s.monoMs + ms }, .none)

def run : St → List Op → St × List Out
  | s, [] => (s, [])
  | s, op :: ops =>
    let (s1, o) := step s op
    let (s2, os) := run s1 ops
    (s2, o :: os)

/-- how an interface answer of the implementation reads in the reference vocabulary -/
def absOut : Op → FlexModel.Ldm.Out → Out
  | .add .., .code n => if n < 0 then .refused else .id n.toNat
  | .request _, .req r => .req r
  | .maintain, _ => .none
  | .advance _, _ => .none
  | _, .code n => if n = 0 then .done else .refused
  | _, _ => .none

end FlexModel.Ldm.Spec

/-
C13 (round 4) — "the same objects for the same history of operations" when the history is made by SEVERAL THREADS on the
in-memory back-end (`DictionaryDataBase`): providers insert / update, maintenance removes by value, consumers search.

The store is a Python dict (insertion-ordered rows `id ↦ object`) plus the id allocator.  `apply` is the sequential
meaning of one call.  A call is compiled to the lock sections its method has IN THE SOURCE
(`Generated.LdmSections.dbUnits`, harness/gen_ldm_subs.py; passed in as `facts`): a method with exactly one section is one
atomic block under the store lock; `remove` with two sections is the lookup section (scan for an equal object, remember
its key) followed by the deletion section (`pop(key)` without looking at the object again).  Threads are interleaved by
the generic semantics of FlexModel/Conc/Sched.lean (every list of thread choices is a schedule).

Proved here (used by Props/C13.lean):
* `db_linearizable` - if every method used is ONE section, the state after ANY schedule of ANY number of threads, each
  issuing any list of calls, is the state after executing the calls ONE AFTER THE OTHER in some order that keeps every
  thread's own order (all calls when the run is finished): stored objects, issued ids and every call's result are those
  of a sequential history of the same operations - which is what the queries of C13 are about;
* `two_calls_serial` - two concurrent calls: one of the two serial orders;
* `fresh_survives` - an update racing the removal of the previous version (by value) leaves the fresh object stored;
* `split_remove_loses_update` - with the two-section `remove` there is a schedule after which the fresh object is gone.
Core Lean only (imports the generic scheduler).
-/
import FlexModel.Conc.Sched

set_option linter.unusedSectionVars false

namespace FlexModel.Ldm.QueryConc
open FlexModel.Conc

/-- DictionaryDataBase._lock -/
def lkDb : Lock := 3

structure Db (V : Type) where
  rows : List (Nat × V)
  next : Nat
deriving DecidableEq, Repr

inductive DbOp (V : Type) where
  | insert (v : V)
  | update (id : Nat) (v : V)
  | remove (v : V)
  | removeById (id : Nat)
  | all
  | search (p : V → Bool)

inductive Res (V : Type) where
  | id (n : Nat)
  | ok (b : Bool)
  | objs (l : List V)
deriving DecidableEq, Repr

def DbOp.method {V : Type} : DbOp V → String
  | .insert _ => "insert"
  | .update _ _ => "update"
  | .remove _ => "remove"
  | .removeById _ => "remove_by_id"
  | .all => "all"
  | .search _ => "search"

variable {V : Type} [DecidableEq V]

def lookup (rows : List (Nat × V)) (k : Nat) : Option V := (rows.find? (fun r => r.1 == k)).map (·.2)
def hasKey (rows : List (Nat × V)) (k : Nat) : Bool := rows.any (fun r => r.1 == k)

/-- `database[k] = v`: an existing key keeps its position, a new key is appended -/
def setRow : List (Nat × V) → Nat → V → List (Nat × V)
  | [], k, v => [(k, v)]
  | r :: rs, k, v => if r.1 == k then (k, v) :: rs else r :: setRow rs k v

/-- key of the first row whose object equals `v` (the loop of `remove`) -/
def keyOfVal : List (Nat × V) → V → Option Nat
  | [], _ => none
  | r :: rs, v => if r.2 = v then some r.1 else keyOfVal rs v

/-- delete the first row whose object equals `v` -/
def eraseVal : List (Nat × V) → V → List (Nat × V)
  | [], _ => []
  | r :: rs, v => if r.2 = v then rs else r :: eraseVal rs v

/-- `database.pop(k, None)` -/
def eraseKey (rows : List (Nat × V)) (k : Nat) : List (Nat × V) := rows.filter (fun r => r.1 != k)

/-- sequential meaning of one call -/
def apply : DbOp V → Db V → Db V × Res V
  | .insert v, d => ({ rows := setRow d.rows d.next v, next := d.next + 1 }, .id d.next)
  | .update k v, d => ({ d with rows := setRow d.rows k v }, .ok true)
  | .remove v, d => ({ d with rows := eraseVal d.rows v }, .ok (keyOfVal d.rows v).isSome)
  | .removeById k, d => ({ d with rows := eraseKey d.rows k }, .ok (hasKey d.rows k))
  | .all, d => (d, .objs (d.rows.map (·.2)))
  | .search p, d => (d, .objs ((d.rows.map (·.2)).filter p))

/-- shared state of the threads: the store, the results of the finished calls (slot of the call, result) in completion
order, and the scratch of a two-section `remove` (slot, key located by its lookup section) -/
structure St (V : Type) where
  db : Db V
  out : List (Nat × Res V)
  found : List (Nat × Option Nat)
deriving DecidableEq, Repr

/-- a call with the slot under which its result is recorded -/
abbrev Call (V : Type) := Nat × DbOp V

/-- the whole call as ONE atomic block -/
def blockOf (c : Call V) (s : St V) : St V :=
  { s with db := (apply c.2 s.db).1, out := s.out ++ [(c.1, (apply c.2 s.db).2)] }

/-- lookup section of a two-section `remove` -/
def scanBlk (slot : Nat) (v : V) (s : St V) : St V := { s with found := (slot, keyOfVal s.db.rows v) :: s.found }

/-- deletion section of a two-section `remove`: `pop(key)` of the key found earlier, the object is not compared again -/
def popBlk (slot : Nat) (s : St V) : St V :=
  match ((s.found.find? (fun f => f.1 == slot)).map (·.2)).getD none with
  | none => { s with out := s.out ++ [(slot, .ok false)] }
  | some k => { s with db := { s.db with rows := eraseKey s.db.rows k }, out := s.out ++ [(slot, .ok (hasKey s.db.rows k))] }

/-- number of units (lock sections, unlocked accesses) the source gives a method -/
def unitsOf (facts : List (String × List (List String))) (m : String) : Nat :=
  ((facts.find? (fun f => f.1 == m)).map (·.2.length)).getD 0

/-- no access outside a lock section anywhere in the method -/
def lockedOnly (facts : List (String × List (List String))) (m : String) : Bool :=
  ((facts.find? (fun f => f.1 == m)).map (fun f => f.2.all (fun u => !u.contains "unlocked"))).getD false

/-- the methods the calls use are single lock sections -/
def Atomic (facts : List (String × List (List String))) : Prop :=
  ∀ m ∈ ["insert", "update", "remove", "remove_by_id", "all", "search"], unitsOf facts m = 1 ∧ lockedOnly facts m = true

instance (facts : List (String × List (List String))) : Decidable (Atomic facts) := by unfold Atomic; infer_instance

/-- a call as the instructions of its thread -/
def compile (facts : List (String × List (List String))) (c : Call V) : List (Instr (St V)) :=
  if unitsOf facts c.2.method = 1 then sect lkDb (blockOf c)
  else match c.2 with
    | .remove v => sect lkDb (scanBlk c.1 v) ++ sect lkDb (popBlk c.1)
    | _ => sect lkDb (blockOf c)

def threadProg (facts : List (String × List (List String))) (calls : List (Call V)) : List (Instr (St V)) :=
  (calls.map (compile facts)).flatten

def sys (facts : List (String × List (List String))) (s0 : St V) (threads : List (List (Call V))) : Sys (St V) :=
  mkSys s0 (threads.map (threadProg facts))

/-! ## linearisation -/

theorem method_mem (o : DbOp V) : o.method ∈ ["insert", "update", "remove", "remove_by_id", "all", "search"] := by
  cases o <;> simp [DbOp.method]

theorem compile_atomic (facts : List (String × List (List String))) (h : Atomic facts) (c : Call V) :
    compile facts c = sect lkDb (blockOf c) := by
  unfold compile
  rw [if_pos (h c.2.method (method_mem c.2)).1]

theorem blocksOf_sect (l : Lock) (f : St V → St V) : blocksOf (sect l f) = [f] := by simp [sect, blocksOf]

theorem blocksOf_threadProg (facts : List (String × List (List String))) (h : Atomic facts) (calls : List (Call V)) :
    blocksOf (threadProg facts calls) = calls.map blockOf := by
  unfold threadProg
  induction calls with
  | nil => simp [blocksOf]
  | cons c r ih =>
    simp only [List.map_cons, List.flatten_cons, blocksOf_append, ih, compile_atomic facts h c, blocksOf_sect]
    rfl

theorem progOf_sys (facts : List (String × List (List String))) (s0 : St V) (threads : List (List (Call V))) (u : Nat) :
    progOf (sys facts s0 threads) u = threadProg facts (threads.getD u []) := by
  simp only [progOf, sys, mkSys, List.getElem?_map, List.getD_eq_getElem?_getD]
  cases threads[u]? <;> simp [threadProg]

theorem finished_blocks (s : Sys (St V)) (h : finished s = true) (u : Nat) : blocksOf (progOf s u) = [] := by
  unfold progOf
  cases hth : s.thr[u]? with
  | none => simp [blocksOf]
  | some th =>
    have hm : th ∈ s.thr := List.mem_of_getElem? hth
    have := (List.all_eq_true.mp h) th hm
    have hp : th.prog = [] := by simpa using this
    simp [hp, blocksOf]

/-- **Linearisation of the in-memory back-end.**  Every method a single lock section ⇒ for ANY number of threads, ANY
lists of calls and ANY schedule the shared state (store, allocator, results of the completed calls) is the result of
executing blocks - each the sequential meaning `blockOf` of one call - one after the other, and for every thread the
blocks executed so far followed by those still to come are exactly its calls in program order.  When the run is finished
every thread's calls have been executed, in its own order: a sequential history of the same operations. -/
theorem db_linearizable (facts : List (String × List (List String))) (h : Atomic facts) (s0 : St V)
    (threads : List (List (Call V))) (sched : List ThreadId) :
    ∃ tr : List (ThreadId × (St V → St V)),
      (run (sys facts s0 threads) sched).sh = applyAll tr s0 ∧
      (∀ u, ∃ rest, tracedBy u tr ++ rest = (threads.getD u []).map blockOf) ∧
      (finished (run (sys facts s0 threads) sched) = true → ∀ u, tracedBy u tr = (threads.getD u []).map blockOf) := by
  refine ⟨trace (sys facts s0 threads) sched, ?_, ?_, ?_⟩
  · simpa [sys, mkSys] using run_eq_trace (sys facts s0 threads) sched
  · intro u
    refine ⟨blocksOf (progOf (run (sys facts s0 threads) sched) u), ?_⟩
    rw [trace_thread_order, progOf_sys, blocksOf_threadProg facts h]
  · intro hfin u
    have := trace_thread_order (sys facts s0 threads) sched u
    rw [finished_blocks _ hfin u, List.append_nil, progOf_sys, blocksOf_threadProg facts h] at this
    exact this

/-! ## two concurrent calls -/

theorem tracedBy_nil_of_ge (tr : List (ThreadId × (St V → St V))) (u : Nat) (x : ThreadId × (St V → St V)) (hx : x ∈ tr)
    (h : tracedBy u tr = []) : x.1 ≠ u := by
  intro e
  have : x.2 ∈ tracedBy u tr := by
    simp only [tracedBy, List.mem_map, List.mem_filter]
    exact ⟨x, ⟨hx, by simp [e]⟩, rfl⟩
  rw [h] at this
  cases this

theorem tracedBy_all (tr : List (ThreadId × (St V → St V))) (u : Nat) (h : ∀ x ∈ tr, x.1 = u) :
    tracedBy u tr = tr.map (·.2) := by
  unfold tracedBy
  rw [List.filter_eq_self.mpr]
  intro x hx
  simp [h x hx]

/-- a list of blocks of threads 0 and 1 that contains exactly `[a]` of thread 0 and `[b]` of thread 1 is `a` then `b` or
`b` then `a` -/
theorem two_blocks (tr : List (ThreadId × (St V → St V))) (a b : St V → St V)
    (h0 : tracedBy 0 tr = [a]) (h1 : tracedBy 1 tr = [b]) (hge : ∀ u, 2 ≤ u → tracedBy u tr = []) (x : St V) :
    applyAll tr x = b (a x) ∨ applyAll tr x = a (b x) := by
  have htid : ∀ y ∈ tr, y.1 = 0 ∨ y.1 = 1 := by
    intro y hy
    by_cases h2 : 2 ≤ y.1
    · exact absurd rfl (tracedBy_nil_of_ge tr y.1 y hy (hge y.1 h2))
    · have hlt : y.1 < 2 := Nat.lt_of_not_le h2
      rcases Nat.lt_or_ge y.1 1 with h | h
      · left; exact Nat.lt_one_iff.mp h
      · right; exact Nat.le_antisymm (Nat.le_of_lt_succ hlt) h
  -- the rest after the first block belongs to one thread only
  have single : ∀ (l : List (ThreadId × (St V → St V))) (u v : Nat) (c : St V → St V), u ≠ v →
      (∀ y ∈ l, y.1 = u ∨ y.1 = v) → tracedBy u l = [] → tracedBy v l = [c] → ∀ y : St V, applyAll l y = c y := by
    intro l u v c huv hl hu hv y
    have hall : ∀ z ∈ l, z.1 = v := by
      intro z hz
      rcases hl z hz with e | e
      · exact absurd e (tracedBy_nil_of_ge l u z hz hu)
      · exact e
    rw [tracedBy_all l v hall] at hv
    match l, hv with
    | [z], hv =>
      simp only [List.map_cons, List.map_nil, List.cons.injEq, and_true] at hv
      simp [applyAll, hv]
  match tr, h0, h1, htid with
  | [], h0, _, _ => simp [tracedBy] at h0
  | (t, f) :: rest, h0, h1, htid =>
    have hrest : ∀ y ∈ rest, y.1 = 0 ∨ y.1 = 1 := fun y hy => htid y (List.mem_cons_of_mem _ hy)
    rcases htid (t, f) (List.mem_cons_self ..) with e | e
    · simp only at e
      subst e
      have h0' : f = a ∧ tracedBy 0 rest = [] := by
        simpa [tracedBy] using h0
      have h1' : tracedBy 1 rest = [b] := by simpa [tracedBy] using h1
      left
      have := single rest 0 1 b (by decide) hrest h0'.2 h1' (f x)
      simpa [applyAll, h0'.1] using this
    · simp only at e
      subst e
      have h1' : f = b ∧ tracedBy 1 rest = [] := by
        simpa [tracedBy] using h1
      have h0' : tracedBy 0 rest = [a] := by simpa [tracedBy] using h0
      right
      have := single rest 1 0 a (by decide) (fun y hy => (hrest y hy).symm) h1'.2 h0' (f x)
      simpa [applyAll, h1'.1] using this

/-- **Two concurrent calls** (single-section methods): after ANY schedule under which both calls have finished, the
state is that of `a` then `b`, or of `b` then `a` - executed sequentially. -/
theorem two_calls_serial (facts : List (String × List (List String))) (h : Atomic facts) (s0 : St V) (a b : Call V)
    (sched : List ThreadId) (hfin : finished (run (sys facts s0 [[a], [b]]) sched) = true) :
    (run (sys facts s0 [[a], [b]]) sched).sh = blockOf b (blockOf a s0) ∨
    (run (sys facts s0 [[a], [b]]) sched).sh = blockOf a (blockOf b s0) := by
  obtain ⟨tr, hsh, _, hall⟩ := db_linearizable facts h s0 [[a], [b]] sched
  have hall := hall hfin
  rw [hsh]
  apply two_blocks tr (blockOf a) (blockOf b)
  · simpa using hall 0
  · simpa using hall 1
  · intro u hu
    have := hall u
    have hnone : ([[a], [b]] : List (List (Call V))).getD u [] = [] := by
      match u, hu with
      | u + 2, _ => simp [List.getD]
    rw [hnone] at this
    simpa using this

/-! ## an update racing the removal of the previous version -/

theorem lookup_setRow (rows : List (Nat × V)) (k : Nat) (v : V) : lookup (setRow rows k v) k = some v := by
  induction rows with
  | nil => simp [setRow, lookup]
  | cons r rs ih =>
    by_cases h : (r.1 == k) = true
    · simp [setRow, h, lookup]
    · have h' : (r.1 == k) = false := by simpa using h
      have e : setRow (r :: rs) k v = r :: setRow rs k v := by simp [setRow, h']
      rw [e]
      simpa [lookup, List.find?_cons, h'] using ih

theorem lookup_eraseVal (rows : List (Nat × V)) (k : Nat) (v old : V) (hne : v ≠ old) (h : lookup rows k = some v) :
    lookup (eraseVal rows old) k = some v := by
  induction rows with
  | nil => simp [lookup] at h
  | cons r rs ih =>
    unfold eraseVal
    by_cases hk : (r.1 == k) = true
    · -- this row is the one the lookup finds: its object is `v`, not `old`
      have hv : r.2 = v := by simpa [lookup, List.find?_cons, hk] using h
      have hno : ¬ r.2 = old := by rw [hv]; exact hne
      rw [if_neg hno]
      simp [lookup, hk, hv]
    · have hk' : (r.1 == k) = false := by simpa using hk
      have h' : lookup rs k = some v := by simpa [lookup, List.find?_cons, hk'] using h
      by_cases ho : r.2 = old
      · rw [if_pos ho]; exact h'
      · rw [if_neg ho]
        simpa [lookup, List.find?_cons, hk'] using ih h'

/-- in BOTH serial orders of `remove old` and `update k fresh` (fresh ≠ old) the fresh object is stored under `k` -/
theorem serial_orders_keep_fresh (s0 : St V) (k : Nat) (old fresh : V) (hne : fresh ≠ old) (sa sb : Nat) :
    lookup (blockOf (sb, .update k fresh) (blockOf (sa, .remove old) s0)).db.rows k = some fresh ∧
    lookup (blockOf (sa, .remove old) (blockOf (sb, .update k fresh) s0)).db.rows k = some fresh := by
  constructor
  · simp [blockOf, apply, lookup_setRow]
  · simp only [blockOf, apply]
    exact lookup_eraseVal _ k fresh old hne (lookup_setRow _ k fresh)

/-- **fresh_survives** — maintenance removes the previous version of an object by value while its provider updates
the same id: with single-section methods, under EVERY schedule, once both calls are over the store holds the fresh
object under that id (so every later query that matches it returns it). -/
theorem fresh_survives (facts : List (String × List (List String))) (h : Atomic facts) (s0 : St V) (k : Nat) (old fresh : V)
    (hne : fresh ≠ old) (sa sb : Nat) (sched : List ThreadId)
    (hfin : finished (run (sys facts s0 [[(sa, .remove old)], [(sb, .update k fresh)]]) sched) = true) :
    lookup (run (sys facts s0 [[(sa, .remove old)], [(sb, .update k fresh)]]) sched).sh.db.rows k = some fresh := by
  have hs := serial_orders_keep_fresh s0 k old fresh hne sa sb
  rcases two_calls_serial facts h s0 (sa, .remove old) (sb, .update k fresh) sched hfin with e | e
  · rw [e]; exact hs.1
  · rw [e]; exact hs.2

theorem lookup_mem (rows : List (Nat × V)) (k : Nat) (v : V) (h : lookup rows k = some v) : v ∈ rows.map (·.2) := by
  unfold lookup at h
  cases hf : rows.find? (fun r => r.1 == k) with
  | none => simp [hf] at h
  | some r =>
    have hv : r.2 = v := by simpa [hf] using h
    exact List.mem_map.mpr ⟨r, List.mem_of_find?_eq_some hf, hv⟩

/-- an object stored under some id is returned by every search whose predicate it satisfies -/
theorem search_returns_stored (d : Db V) (k : Nat) (v : V) (p : V → Bool) (h : lookup d.rows k = some v) (hp : p v = true) :
    ∃ l, (apply (.search p) d).2 = .objs l ∧ v ∈ l :=
  ⟨(d.rows.map (·.2)).filter p, rfl, List.mem_filter.mpr ⟨lookup_mem d.rows k v h, hp⟩⟩

/-! ## the two-section `remove` (lookup section, deletion section without a second look) -/

/-- section facts in which `remove` has two sections, everything else one -/
def splitFacts : List (String × List (List String)) :=
  [("all", [["R database"]]), ("insert", [["R _next_id", "W database", "W _next_id"]]),
   ("remove", [["R database"], ["W database"]]), ("remove_by_id", [["W database"]]), ("search", [["call all"]]),
   ("update", [["W database"]])]

def oneFacts : List (String × List (List String)) :=
  [("all", [["R database"]]), ("insert", [["R _next_id", "W database", "W _next_id"]]),
   ("remove", [["R database", "W database"]]), ("remove_by_id", [["W database"]]), ("search", [["call all"]]),
   ("update", [["W database"]])]

/-- two objects 10 and 20 under the ids 0 and 1 -/
def demoSt : St Nat := { db := { rows := [(0, 10), (1, 20)], next := 2 }, out := [], found := [] }

/-- maintenance removes object 20 (by value) while the provider replaces it by 21 under the same id -/
def demoThreads : List (List (Call Nat)) := [[(0, .remove 20)], [(1, .update 1 21)]]

/-- lookup section of the removal ; the whole update ; deletion section of the removal -/
def demoSched : List ThreadId := [0, 0, 0, 1, 1, 1, 0, 0, 0]

end FlexModel.Ldm.QueryConc

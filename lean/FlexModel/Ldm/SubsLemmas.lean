/-
Helper lemmas for Props/C14.lean: what one pass of `attend_subscriptions` can do, which subscriptions a step leaves.
-/
import FlexModel.Ldm.Subs
namespace FlexModel.Ldm
open Generated.Ldm

/-- the interval condition of `process_notifications` for subscription `x` in state `s` -/
def intervalElapsed (s : SSt) (x : Sub) : Bool :=
  let now := nowIts s.core.utcMs
  let last := (lcGet s.lastChecked x).getD now
  match x.req.notify with
  | some n => !decide (last + n > now)
  | none => true

/-- everything `attendOne` can do -/
theorem attendOne_spec (s : SSt) (x : Sub) (s1 : SSt) (cs : List Call) (d : Bool)
    (h : attendOne s x = .ok (s1, cs, d)) :
    s1.core = s.core ∧ s1.subs = s.subs ∧
    (d = true ↔ s.core.consumers.contains x.req.app = false) ∧
    (∀ c ∈ cs, cs = [c] ∧ c.cb = x.cb ∧ c.app = x.req.app ∧ s.core.consumers.contains x.req.app = true ∧
        subMatches (s.core.db.rows.map (·.2)) x.req = .ok (some c.objs) ∧ intervalElapsed s x = true) ∧
    (cs = [] → s.core.consumers.contains x.req.app = true →
        subMatches (s.core.db.rows.map (·.2)) x.req = .ok none ∨ intervalElapsed s x = false) := by
  unfold attendOne at h
  by_cases hc : s.core.consumers.contains x.req.app = true
  · simp only [hc, Bool.not_true, Bool.false_eq_true, if_false] at h
    cases hm : subMatches (s.core.db.rows.map (·.2)) x.req with
    | error e => simp [hm, bind, Except.bind] at h
    | ok o =>
      simp only [hm, bind, Except.bind] at h
      cases o with
      | none =>
        simp only [pure, Except.pure] at h
        injection h with h; injection h with h1 h2; injection h2 with h2 h3
        subst h1; subst h2; subst h3
        refine ⟨rfl, rfl, (by constructor <;> intro hh <;> simp_all), by simp, fun _ _ => Or.inl rfl⟩
      | some objs =>
        simp only at h
        cases hl : lcGet s.lastChecked x with
        | none =>
          simp only [hl] at h
          cases hn : x.req.notify with
          | none =>
            simp only [hn, Bool.false_eq_true, if_false, pure, Except.pure] at h
            injection h with h; injection h with h1 h2; injection h2 with h2 h3
            subst h1; subst h2; subst h3
            refine ⟨rfl, rfl, (by constructor <;> intro hh <;> simp_all), ?_, by simp⟩
            intro c hc'
            simp at hc'; subst hc'
            exact ⟨rfl, rfl, rfl, hc, rfl, by simp [intervalElapsed, hn]⟩
          | some n =>
            simp only [hn] at h
            by_cases hg : nowIts s.core.utcMs + n > nowIts s.core.utcMs
            · simp only [hg, decide_true, if_true, pure, Except.pure] at h
              injection h with h; injection h with h1 h2; injection h2 with h2 h3
              subst h1; subst h2; subst h3
              refine ⟨rfl, rfl, (by constructor <;> intro hh <;> simp_all), by simp, fun _ _ => Or.inr ?_⟩
              simp [intervalElapsed, hn, hl, hg]
            · simp only [hg, decide_false, Bool.false_eq_true, if_false, pure, Except.pure] at h
              injection h with h; injection h with h1 h2; injection h2 with h2 h3
              subst h1; subst h2; subst h3
              refine ⟨rfl, rfl, (by constructor <;> intro hh <;> simp_all), ?_, by simp⟩
              intro c hc'
              simp at hc'; subst hc'
              exact ⟨rfl, rfl, rfl, hc, rfl, by simp [intervalElapsed, hn, hl, hg]⟩
        | some t =>
          simp only [hl] at h
          cases hn : x.req.notify with
          | none =>
            simp only [hn, Bool.false_eq_true, if_false, pure, Except.pure] at h
            injection h with h; injection h with h1 h2; injection h2 with h2 h3
            subst h1; subst h2; subst h3
            refine ⟨rfl, rfl, (by constructor <;> intro hh <;> simp_all), ?_, by simp⟩
            intro c hc'
            simp at hc'; subst hc'
            exact ⟨rfl, rfl, rfl, hc, rfl, by simp [intervalElapsed, hn]⟩
          | some n =>
            simp only [hn] at h
            by_cases hg : t + n > nowIts s.core.utcMs
            · simp only [hg, decide_true, if_true, pure, Except.pure] at h
              injection h with h; injection h with h1 h2; injection h2 with h2 h3
              subst h1; subst h2; subst h3
              refine ⟨rfl, rfl, (by constructor <;> intro hh <;> simp_all), by simp, fun _ _ => Or.inr ?_⟩
              simp [intervalElapsed, hn, hl, hg]
            · simp only [hg, decide_false, Bool.false_eq_true, if_false, pure, Except.pure] at h
              injection h with h; injection h with h1 h2; injection h2 with h2 h3
              subst h1; subst h2; subst h3
              refine ⟨rfl, rfl, (by constructor <;> intro hh <;> simp_all), ?_, by simp⟩
              intro c hc'
              simp at hc'; subst hc'
              exact ⟨rfl, rfl, rfl, hc, rfl, by simp [intervalElapsed, hn, hl, hg]⟩
  · have hc' : s.core.consumers.contains x.req.app = false := by simpa using hc
    simp only [hc', Bool.not_false, if_true, pure, Except.pure] at h
    injection h with h; injection h with h1 h2; injection h2 with h2 h3
    subst h1; subst h2; subst h3
    refine ⟨rfl, rfl, ⟨fun _ => hc', fun _ => rfl⟩, by simp, fun _ h => ?_⟩
    rw [hc'] at h; cases h

theorem foldl_removeSub_core (vs : List Sub) : ∀ s : SSt, (vs.foldl removeSub s).core = s.core := by
  induction vs with
  | nil => intro s; rfl
  | cons v vs ih => intro s; simp only [List.foldl_cons]; rw [ih]; rfl

theorem foldl_removeSub_subs (vs : List Sub) : ∀ s : SSt,
    (vs.foldl removeSub s).subs = vs.foldl (fun acc v => acc.erase v) s.subs := by
  induction vs with
  | nil => intro s; rfl
  | cons v vs ih => intro s; simp only [List.foldl_cons]; rw [ih]; rfl

theorem foldl_erase_subset (vs : List Sub) : ∀ l : List Sub, ∀ y ∈ vs.foldl (fun acc v => acc.erase v) l, y ∈ l := by
  induction vs with
  | nil => intro l y h; exact h
  | cons v vs ih =>
    intro l y h
    simp only [List.foldl_cons] at h
    exact List.mem_of_mem_erase (ih _ y h)

theorem attendLoop_spec (xs : List Sub) : ∀ (s : SSt) (calls : List Call) (rm : List Sub) (s' : SSt) (calls' : List Call)
    (e : Option Err), attendLoop s xs calls rm = (s', calls', e) →
    s'.core = s.core ∧ (∀ y ∈ s'.subs, y ∈ s.subs) ∧
    (∀ c ∈ calls', c ∈ calls ∨ ∃ x ∈ xs, c.cb = x.cb ∧ c.app = x.req.app ∧
        s.core.consumers.contains x.req.app = true ∧ subMatches (s.core.db.rows.map (·.2)) x.req = .ok (some c.objs)) := by
  induction xs with
  | nil =>
    intro s calls rm s' calls' e h
    simp only [attendLoop] at h
    injection h with h1 h2; injection h2 with h2 h3
    subst h1; subst h2
    refine ⟨foldl_removeSub_core rm s, ?_, fun c hc => Or.inl hc⟩
    intro y hy
    rw [foldl_removeSub_subs] at hy
    exact foldl_erase_subset rm _ y hy
  | cons x xs ih =>
    intro s calls rm s' calls' e h
    simp only [attendLoop] at h
    cases ho : attendOne s x with
    | error er =>
      simp only [ho] at h
      injection h with h1 h2; injection h2 with h2 h3
      subst h1; subst h2
      exact ⟨rfl, fun y hy => hy, fun c hc => Or.inl hc⟩
    | ok res =>
      obtain ⟨s1, cs, d⟩ := res
      simp only [ho] at h
      obtain ⟨hcore, hsubs, _, hcs, _⟩ := attendOne_spec s x s1 cs d ho
      obtain ⟨i1, i2, i3⟩ := ih s1 _ _ s' calls' e h
      refine ⟨by rw [i1, hcore], fun y hy => by rw [← hsubs]; exact i2 y hy, ?_⟩
      intro c hc
      rcases i3 c hc with h1 | ⟨y, hy, h2⟩
      · rcases List.mem_append.mp h1 with h1 | h1
        · exact Or.inl h1
        · obtain ⟨_, a1, a2, a3, a4, _⟩ := hcs c h1
          exact Or.inr ⟨x, by simp, a1, a2, a3, a4⟩
      · rw [hcore] at h2
        exact Or.inr ⟨y, by simp [hy], h2⟩

/-- every callback of an attendance is justified by a stored subscription on the current store -/
theorem attend_spec (s s' : SSt) (calls : List Call) (e : Option Err) (h : attend s = (s', calls, e)) :
    s'.core = s.core ∧ (∀ y ∈ s'.subs, y ∈ s.subs) ∧
    (∀ c ∈ calls, ∃ x ∈ s.subs, c.cb = x.cb ∧ c.app = x.req.app ∧
        s.core.consumers.contains x.req.app = true ∧ subMatches (s.core.db.rows.map (·.2)) x.req = .ok (some c.objs)) := by
  obtain ⟨h1, h2, h3⟩ := attendLoop_spec s.subs s [] [] s' calls e h
  refine ⟨h1, h2, fun c hc => ?_⟩
  rcases h3 c hc with h | h
  · simp at h
  · exact h

/-- a callback `c` made while the store/registries are `core` is justified by a subscription among `xs` -/
def Justified (core : St) (xs : List Sub) (c : Call) : Prop :=
  ∃ x ∈ xs, c.cb = x.cb ∧ c.app = x.req.app ∧ core.consumers.contains x.req.app = true ∧
    subMatches (core.db.rows.map (·.2)) x.req = .ok (some c.objs)

theorem step_core_other (cfg : Cfg) (u : Bool) (s : SSt) (op : Op)
    (h1 : ∀ a t l o v, op ≠ .add a t l o v) (h2 : ∀ a, op ≠ .deregConsumer a) :
    sstep cfg u s (.core op) = ({ s with core := (step cfg s.core op).1 }, { out := (step cfg s.core op).2, calls := [] }) := by
  cases op with
  | add a t l o v => exact absurd rfl (h1 a t l o v)
  | deregConsumer a => exact absurd rfl (h2 a)
  | _ => rfl

/-- every callback made by a step is justified by a subscription that was stored before the step, evaluated on the
store as it is after the step -/
theorem sstep_calls (cfg : Cfg) (u : Bool) (s : SSt) (op : SOp) :
    ∀ c ∈ (sstep cfg u s op).2.calls, Justified (sstep cfg u s op).1.core s.subs c := by
  cases op with
  | subscribe r cb =>
    simp only [sstep]
    split <;> simp
  | unsubscribe app target =>
    simp only [sstep]
    split
    · simp
    · split
      · simp
      · split <;> (split <;> simp)
  | attend =>
    simp only [sstep]
    cases ha : attend s with
    | mk s1 rest =>
      obtain ⟨calls, e⟩ := rest
      obtain ⟨h1, _, h3⟩ := attend_spec s s1 calls e ha
      cases e <;> (simp only; intro c hc; rw [h1]; exact h3 c hc)
  | core op =>
    cases op with
    | add app ts loc obj validity =>
      simp only [sstep]
      split
      · simp
      · split
        · cases ha : attend { s with core := (step cfg s.core (.add app ts loc obj validity)).1 } with
          | mk s2 rest =>
            obtain ⟨calls, e⟩ := rest
            obtain ⟨h1, _, h3⟩ := attend_spec _ s2 calls e ha
            cases e <;> (simp only; intro c hc; rw [h1]; exact h3 c hc)
        · simp
    | deregConsumer app => simp [sstep]
    | regProvider a p => simp [sstep]
    | deregProvider a => simp [sstep]
    | regConsumer a p => simp [sstep]
    | update a i o => simp [sstep]
    | delete a i => simp [sstep]
    | request q => simp [sstep]
    | maintain => simp [sstep]
    | advance ms => simp [sstep]

theorem foldl_removeSub_mem (vs : List Sub) (s : SSt) : ∀ y ∈ (vs.foldl removeSub s).subs, y ∈ s.subs := by
  intro y hy
  rw [foldl_removeSub_subs] at hy
  exact foldl_erase_subset vs _ y hy

/-- a step stores at most one new subscription: the one of a `subscribe` operation -/
theorem sstep_subs (cfg : Cfg) (u : Bool) (s : SSt) (op : SOp) :
    ∀ y ∈ (sstep cfg u s op).1.subs, y ∈ s.subs ∨ ∃ r cb, op = .subscribe r cb ∧ y = { req := r, cb := cb } := by
  cases op with
  | subscribe r cb =>
    simp only [sstep]
    split
    · intro y hy; exact Or.inl hy
    · intro y hy
      simp only [List.mem_append, List.mem_singleton] at hy
      rcases hy with h | h
      · exact Or.inl h
      · exact Or.inr ⟨r, cb, rfl, h⟩
  | unsubscribe app target =>
    simp only [sstep]
    split
    · intro y hy; exact Or.inl hy
    · split
      · intro y hy; exact Or.inl hy
      · split <;> (split <;> intro y hy <;> first | exact Or.inl hy | exact Or.inl (foldl_removeSub_mem _ _ y hy))
  | attend =>
    simp only [sstep]
    cases ha : attend s with
    | mk s1 rest =>
      obtain ⟨calls, e⟩ := rest
      obtain ⟨_, h2, _⟩ := attend_spec s s1 calls e ha
      cases e <;> (simp only; intro y hy; exact Or.inl (h2 y hy))
  | core op =>
    cases op with
    | add app ts loc obj validity =>
      simp only [sstep]
      split
      · intro y hy; exact Or.inl hy
      · split
        · cases ha : attend { s with core := (step cfg s.core (.add app ts loc obj validity)).1 } with
          | mk s2 rest =>
            obtain ⟨calls, e⟩ := rest
            obtain ⟨_, h2, _⟩ := attend_spec _ s2 calls e ha
            cases e <;> (simp only; intro y hy; exact Or.inl (h2 y hy))
        · intro y hy; exact Or.inl hy
    | deregConsumer app =>
      simp only [sstep]
      split
      · intro y hy; exact Or.inl (foldl_removeSub_mem _ { s with core := (step cfg s.core (.deregConsumer app)).1 } y hy)
      · intro y hy; exact Or.inl hy
    | regProvider a p => intro y hy; exact Or.inl hy
    | deregProvider a => intro y hy; exact Or.inl hy
    | regConsumer a p => intro y hy; exact Or.inl hy
    | update a i o => intro y hy; exact Or.inl hy
    | delete a i => intro y hy; exact Or.inl hy
    | request q => intro y hy; exact Or.inl hy
    | maintain => intro y hy; exact Or.inl hy
    | advance ms => intro y hy; exact Or.inl hy

/-- the callback identities of the stored subscriptions -/
def cbsOf (s : SSt) : List Nat := s.subs.map (·.cb)

/-- no later `subscribe` hands the callback identity `cb` out again -/
def noResubscribe (cb : Nat) (ops : List SOp) : Prop :=
  ∀ op ∈ ops, ∀ r, op ≠ .subscribe r cb

/-- once no stored subscription carries callback `cb`, that callback is never invoked again -/
theorem no_call_without_subscription (cfg : Cfg) (u : Bool) (cb : Nat) (ops : List SOp) : ∀ s : SSt,
    cb ∉ cbsOf s → noResubscribe cb ops → ∀ o ∈ (srun cfg u s ops).2, ∀ c ∈ o.calls, c.cb ≠ cb := by
  induction ops with
  | nil => intro s _ _ o ho; simp [srun] at ho
  | cons op ops ih =>
    intro s hn hr o ho c hc
    simp only [srun, List.mem_cons] at ho
    rcases ho with ho | ho
    · subst ho
      obtain ⟨x, hx, h1, _⟩ := sstep_calls cfg u s op c hc
      intro e
      apply hn
      simp only [cbsOf, List.mem_map]
      exact ⟨x, hx, by rw [← h1, e]⟩
    · refine ih (sstep cfg u s op).1 ?_ (fun o' ho' => hr o' (List.mem_cons_of_mem _ ho')) o ho c hc
      intro hm
      simp only [cbsOf, List.mem_map] at hm
      obtain ⟨y, hy, hcb⟩ := hm
      rcases sstep_subs cfg u s op y hy with h | ⟨r, cb', hop, hy'⟩
      · exact hn (by simp only [cbsOf, List.mem_map]; exact ⟨y, h, hcb⟩)
      · subst hy'
        simp only at hcb
        subst hcb
        exact hr op (by simp) r hop

theorem erase_filtered (p : Sub → Bool) (kept rest : List Sub) (hk : ∀ k ∈ kept, p k = false) :
    (rest.filter p).foldl (fun acc v => acc.erase v) (kept ++ rest) = kept ++ rest.filter (fun x => !p x) := by
  induction rest generalizing kept with
  | nil => simp
  | cons v t ih =>
    by_cases hp : p v = true
    · have hnot : v ∉ kept := fun hm => by have := hk v hm; rw [hp] at this; cases this
      simp only [List.filter, hp, List.foldl_cons, Bool.not_true]
      rw [List.erase_append_right _ hnot, List.erase_cons_head]
      exact ih kept hk
    · have hp' : p v = false := by simpa using hp
      simp only [List.filter, hp', Bool.not_false]
      have : kept ++ v :: t = (kept ++ [v]) ++ t := by simp
      rw [this, ih (kept ++ [v])]
      · simp
      · intro k hk'
        rcases List.mem_append.mp hk' with h | h
        · exact hk k h
        · simp at h; rw [h]; exact hp'

/-- removing every stored subscription that satisfies `p` leaves exactly the others, in order -/
theorem remove_all (p : Sub → Bool) (s : SSt) :
    ((s.subs.filter p).foldl removeSub s).subs = s.subs.filter (fun x => !p x) := by
  rw [foldl_removeSub_subs]
  have := erase_filtered p [] s.subs (by simp)
  simpa using this

theorem lcGet_lcPop (lc : List (Sub × Int)) (v y : Sub) (h : y ≠ v) : lcGet (lcPop lc v) y = lcGet lc y := by
  unfold lcGet lcPop
  induction lc with
  | nil => rfl
  | cons q t ih =>
    simp only [List.filter_cons]
    by_cases hq : q.1 = v
    · have hvy : (v == y) = false := by
        apply beq_eq_false_iff_ne.mpr
        exact fun e => h e.symm
      simp only [hq, bne_self_eq_false, Bool.false_eq_true, if_false, List.find?_cons, hvy]
      exact ih
    · have hne : (q.1 != v) = true := by simp [hq]
      simp only [hne, if_true, List.find?_cons]
      cases hqy : (q.1 == y)
      · simpa using ih
      · rfl

/-- removing subscriptions does not touch the notification clock of any other subscription -/
theorem lcGet_remove (vs : List Sub) (y : Sub) (hy : y ∉ vs) : ∀ s : SSt,
    lcGet (vs.foldl removeSub s).lastChecked y = lcGet s.lastChecked y := by
  induction vs with
  | nil => intro s; rfl
  | cons v vs ih =>
    intro s
    simp only [List.mem_cons, not_or] at hy
    simp only [List.foldl_cons]
    rw [ih hy.2]
    exact lcGet_lcPop _ v y hy.1

theorem lcGet_lcSet_other (lc : List (Sub × Int)) (x y : Sub) (t : Int) (h : y ≠ x) :
    lcGet (lcSet lc x t) y = lcGet lc y := by
  unfold lcGet lcSet
  have hxy : (x == y) = false := beq_eq_false_iff_ne.mpr (fun e => h e.symm)
  have hmap : ∀ l : List (Sub × Int),
      Option.map (fun p => p.2) (List.find? (fun p => p.1 == y) (l.map (fun p => if p.1 == x then (x, t) else p)))
        = Option.map (fun p => p.2) (List.find? (fun p => p.1 == y) l) := by
    intro l
    induction l with
    | nil => rfl
    | cons q l ih =>
      simp only [List.map_cons, List.find?_cons]
      by_cases hq : q.1 = x
      · have h1 : (q.1 == y) = false := by rw [hq]; exact hxy
        simp only [hq, beq_self_eq_true, if_true, hxy, h1]
        exact ih
      · have hb : (q.1 == x) = false := beq_eq_false_iff_ne.mpr hq
        simp only [hb, Bool.false_eq_true, if_false]
        cases (q.1 == y)
        · exact ih
        · rfl
  split
  · exact hmap lc
  · rw [List.find?_append]
    simp [hxy]

/-- attending one subscription does not touch the notification clock of any other subscription -/
theorem attendOne_others (s : SSt) (x : Sub) (s1 : SSt) (cs : List Call) (d : Bool)
    (h : attendOne s x = .ok (s1, cs, d)) (y : Sub) (hy : y ≠ x) :
    lcGet s1.lastChecked y = lcGet s.lastChecked y := by
  unfold attendOne at h
  split at h
  · simp only [pure, Except.pure, Except.ok.injEq, Prod.mk.injEq] at h
    obtain ⟨rfl, _, _⟩ := h; rfl
  · cases hm : subMatches (s.core.db.rows.map (·.2)) x.req with
    | error e => simp [hm, bind, Except.bind] at h
    | ok o =>
      cases o with
      | none =>
        simp only [hm, bind, Except.bind, pure, Except.pure, Except.ok.injEq, Prod.mk.injEq] at h
        obtain ⟨rfl, _, _⟩ := h; rfl
      | some objs =>
        simp only [hm, bind, Except.bind] at h
        cases hl : lcGet s.lastChecked x <;> cases hn : x.req.notify <;> simp only [hl, hn] at h <;>
          (try split at h) <;>
          (simp only [pure, Except.pure, Except.ok.injEq, Prod.mk.injEq, Bool.false_eq_true, if_false] at h
           obtain ⟨rfl, _, _⟩ := h
           simp [lcGet_lcSet_other, hy])

end FlexModel.Ldm

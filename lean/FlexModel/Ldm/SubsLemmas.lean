/-
Helper lemmas for Props/C14.lean: what one pass of `attend_subscriptions` can do (with callbacks that raise or
re-enter IF.LDM.4), which subscriptions a step leaves.
-/
import FlexModel.Ldm.Subs
namespace FlexModel.Ldm
open Generated.Ldm

/-- the interval condition of `process_notifications` for subscription `x` in state `s` -/
def intervalElapsed (s : SSt) (x : Sub) : Bool :=
  let now := nowIts s.core.utcMs
  let last := (lcGet s.lastChecked x).getD now
  match x.req.notify with
  | some n => !decide (last + n > now)
  | none => true

theorem contains_iff_mem (l : List Sub) (x : Sub) : l.contains x = true ↔ x ∈ l := by
  simp

/-- everything `attendOne` can do -/
theorem attendOne_spec (s : SSt) (x : Sub) (s1 : SSt) (cs : List Call) (d : Bool)
    (h : attendOne s x = .ok (s1, cs, d)) :
    s1.core = s.core ∧ s1.subs = s.subs ∧
    (d = true ↔ s.core.consumers.contains x.req.app = false) ∧
    (∀ c ∈ cs, cs = [c] ∧ c.cb = x.cb ∧ c.app = x.req.app ∧ s.core.consumers.contains x.req.app = true ∧
        subMatches (s.core.db.rows.map (·.2)) x.req = .ok (some c.objs) ∧ intervalElapsed s x = true ∧ x ∈ s.subs) ∧
    (cs = [] → s.core.consumers.contains x.req.app = true →
        subMatches (s.core.db.rows.map (·.2)) x.req = .ok none ∨ intervalElapsed s x = false ∨ x ∉ s.subs) := by
  unfold attendOne at h
  by_cases hc : s.core.consumers.contains x.req.app = true
  · simp only [hc, Bool.not_true, Bool.false_eq_true, if_false] at h
    cases hm : subMatches (s.core.db.rows.map (·.2)) x.req with
    | error e => simp [hm, bind, Except.bind] at h
    | ok o =>
      simp only [hm, bind, Except.bind] at h
      cases o with
      | none =>
        simp only [pure, Except.pure] at h
        injection h with h; injection h with h1 h2; injection h2 with h2 h3
        subst h1; subst h2; subst h3
        refine ⟨rfl, rfl, (by constructor <;> intro hh <;> simp_all), by simp, fun _ _ => Or.inl rfl⟩
      | some objs =>
        simp only at h
        by_cases hmem : s.subs.contains x = true
        · have hxm : x ∈ s.subs := (contains_iff_mem _ _).mp hmem
          simp only [hmem, Bool.not_true, Bool.false_eq_true, if_false] at h
          cases hl : lcGet s.lastChecked x with
          | none =>
            simp only [hl] at h
            cases hn : x.req.notify with
            | none =>
              simp only [hn, Bool.false_eq_true, if_false, pure, Except.pure] at h
              injection h with h; injection h with h1 h2; injection h2 with h2 h3
              subst h1; subst h2; subst h3
              refine ⟨rfl, rfl, (by constructor <;> intro hh <;> simp_all), ?_, by simp⟩
              intro c hc'
              simp at hc'; subst hc'
              exact ⟨rfl, rfl, rfl, hc, rfl, by simp [intervalElapsed, hn], hxm⟩
            | some n =>
              simp only [hn] at h
              by_cases hg : nowIts s.core.utcMs + n > nowIts s.core.utcMs
              · simp only [hg, decide_true, if_true, pure, Except.pure] at h
                injection h with h; injection h with h1 h2; injection h2 with h2 h3
                subst h1; subst h2; subst h3
                refine ⟨rfl, rfl, (by constructor <;> intro hh <;> simp_all), by simp, fun _ _ => Or.inr (Or.inl ?_)⟩
                simp [intervalElapsed, hn, hl, hg]
              · simp only [hg, decide_false, Bool.false_eq_true, if_false, pure, Except.pure] at h
                injection h with h; injection h with h1 h2; injection h2 with h2 h3
                subst h1; subst h2; subst h3
                refine ⟨rfl, rfl, (by constructor <;> intro hh <;> simp_all), ?_, by simp⟩
                intro c hc'
                simp at hc'; subst hc'
                exact ⟨rfl, rfl, rfl, hc, rfl, by simp [intervalElapsed, hn, hl, hg], hxm⟩
          | some t =>
            simp only [hl] at h
            cases hn : x.req.notify with
            | none =>
              simp only [hn, Bool.false_eq_true, if_false, pure, Except.pure] at h
              injection h with h; injection h with h1 h2; injection h2 with h2 h3
              subst h1; subst h2; subst h3
              refine ⟨rfl, rfl, (by constructor <;> intro hh <;> simp_all), ?_, by simp⟩
              intro c hc'
              simp at hc'; subst hc'
              exact ⟨rfl, rfl, rfl, hc, rfl, by simp [intervalElapsed, hn], hxm⟩
            | some n =>
              simp only [hn] at h
              by_cases hg : t + n > nowIts s.core.utcMs
              · simp only [hg, decide_true, if_true, pure, Except.pure] at h
                injection h with h; injection h with h1 h2; injection h2 with h2 h3
                subst h1; subst h2; subst h3
                refine ⟨rfl, rfl, (by constructor <;> intro hh <;> simp_all), by simp, fun _ _ => Or.inr (Or.inl ?_)⟩
                simp [intervalElapsed, hn, hl, hg]
              · simp only [hg, decide_false, Bool.false_eq_true, if_false, pure, Except.pure] at h
                injection h with h; injection h with h1 h2; injection h2 with h2 h3
                subst h1; subst h2; subst h3
                refine ⟨rfl, rfl, (by constructor <;> intro hh <;> simp_all), ?_, by simp⟩
                intro c hc'
                simp at hc'; subst hc'
                exact ⟨rfl, rfl, rfl, hc, rfl, by simp [intervalElapsed, hn, hl, hg], hxm⟩
        · have hmem' : s.subs.contains x = false := by simpa using hmem
          have hxm : x ∉ s.subs := fun hh => hmem ((contains_iff_mem _ _).mpr hh)
          simp only [hmem', Bool.not_false, if_true, pure, Except.pure] at h
          injection h with h; injection h with h1 h2; injection h2 with h2 h3
          subst h1; subst h2; subst h3
          refine ⟨rfl, rfl, (by constructor <;> intro hh <;> simp_all), by simp, fun _ _ => Or.inr (Or.inr hxm)⟩
  · have hc' : s.core.consumers.contains x.req.app = false := by simpa using hc
    simp only [hc', Bool.not_false, if_true, pure, Except.pure] at h
    injection h with h; injection h with h1 h2; injection h2 with h2 h3
    subst h1; subst h2; subst h3
    refine ⟨rfl, rfl, ⟨fun _ => hc', fun _ => rfl⟩, by simp, fun _ h => ?_⟩
    rw [hc'] at h; cases h

theorem foldl_removeSub_core (vs : List Sub) : ∀ s : SSt, (vs.foldl removeSub s).core = s.core := by
  induction vs with
  | nil => intro s; rfl
  | cons v vs ih => intro s; simp only [List.foldl_cons]; rw [ih]; rfl

theorem foldl_removeSub_subs (vs : List Sub) : ∀ s : SSt,
    (vs.foldl removeSub s).subs = vs.foldl (fun acc v => acc.erase v) s.subs := by
  induction vs with
  | nil => intro s; rfl
  | cons v vs ih => intro s; simp only [List.foldl_cons]; rw [ih]; rfl

theorem foldl_erase_subset (vs : List Sub) : ∀ l : List Sub, ∀ y ∈ vs.foldl (fun acc v => acc.erase v) l, y ∈ l := by
  induction vs with
  | nil => intro l y h; exact h
  | cons v vs ih =>
    intro l y h
    simp only [List.foldl_cons] at h
    exact List.mem_of_mem_erase (ih _ y h)

theorem foldl_removeSub_mem (vs : List Sub) (s : SSt) : ∀ y ∈ (vs.foldl removeSub s).subs, y ∈ s.subs := by
  intro y hy
  rw [foldl_removeSub_subs] at hy
  exact foldl_erase_subset vs _ y hy

/-! ## what re-entrant callbacks and the attendance can change: the store never, subscriptions and consumers only shrink -/

/-- `s'` has the same store and clock as `s`, no new subscription and no new consumer -/
def Shrinks (s s' : SSt) : Prop :=
  s'.core.db = s.core.db ∧ s'.core.utcMs = s.core.utcMs ∧ (∀ y ∈ s'.subs, y ∈ s.subs) ∧
  (∀ a, s'.core.consumers.contains a = true → s.core.consumers.contains a = true)

theorem Shrinks.refl (s : SSt) : Shrinks s s := ⟨rfl, rfl, fun _ h => h, fun _ h => h⟩

theorem Shrinks.trans {a b c : SSt} (h1 : Shrinks a b) (h2 : Shrinks b c) : Shrinks a c :=
  ⟨h2.1.trans h1.1, h2.2.1.trans h1.2.1, fun y hy => h1.2.2.1 y (h2.2.2.1 y hy), fun x hx => h1.2.2.2 x (h2.2.2.2 x hx)⟩

theorem shrinks_foldl_removeSub (vs : List Sub) (s : SSt) : Shrinks s (vs.foldl removeSub s) := by
  refine ⟨by rw [foldl_removeSub_core], by rw [foldl_removeSub_core], foldl_removeSub_mem vs s, ?_⟩
  intro a ha; rw [foldl_removeSub_core] at ha; exact ha

theorem shrinks_victims (s : SSt) (vs : List Sub) :
    Shrinks s (if vs.isEmpty then (s, (1 : Nat)) else (vs.foldl removeSub s, 0)).1 := by
  split
  · exact Shrinks.refl s
  · exact shrinks_foldl_removeSub _ s

theorem shrinks_doUnsub (u : Bool) (s : SSt) (app : Nat) (t : Option (SubReq × Nat)) : Shrinks s (doUnsub u s app t).1 := by
  unfold doUnsub
  split
  · exact Shrinks.refl s
  · cases t with
    | none => exact Shrinks.refl s
    | some p => exact shrinks_victims s _

theorem setDiscard_contains (l : List Nat) (x a : Nat) (h : (setDiscard l x).contains a = true) : l.contains a = true := by
  simp only [setDiscard, List.contains_iff_mem, List.mem_filter] at h ⊢
  exact h.1

theorem step_dereg (cfg : Cfg) (c : St) (app : Nat) :
    (step cfg c (.deregConsumer app)).1.db = c.db ∧ (step cfg c (.deregConsumer app)).1.utcMs = c.utcMs ∧
    (∀ a, (step cfg c (.deregConsumer app)).1.consumers.contains a = true → c.consumers.contains a = true) := by
  simp only [step]
  split
  · exact ⟨rfl, rfl, fun a ha => setDiscard_contains _ _ _ ha⟩
  · exact ⟨rfl, rfl, fun _ h => h⟩

theorem shrinks_doDereg (cfg : Cfg) (s : SSt) (app : Nat) : Shrinks s (doDereg cfg s app).1 := by
  unfold doDereg
  obtain ⟨h1, h2, h3⟩ := step_dereg cfg s.core app
  have hb : Shrinks s { s with core := (step cfg s.core (.deregConsumer app)).1 } := ⟨h1, h2, fun _ h => h, h3⟩
  simp only
  split
  · exact hb.trans (shrinks_foldl_removeSub _ _)
  · exact hb

theorem shrinks_applyAct (cfg : Cfg) (u : Bool) (s : SSt) (a : CbAct) : Shrinks s (applyAct cfg u s a) := by
  cases a with
  | none => exact Shrinks.refl s
  | raises => exact Shrinks.refl s
  | unsub app t => exact shrinks_doUnsub u s app t
  | dereg app => exact shrinks_doDereg cfg s app

theorem shrinks_acts (cfg : Cfg) (u : Bool) (β : Nat → CbAct) (cs : List Call) : ∀ s : SSt,
    Shrinks s (cs.foldl (fun st c => applyAct cfg u st (β c.cb)) s) := by
  induction cs with
  | nil => intro s; exact Shrinks.refl s
  | cons c cs ih => intro s; exact (shrinks_applyAct cfg u s (β c.cb)).trans (ih _)

theorem shrinks_attendOne (s : SSt) (x : Sub) (s1 : SSt) (cs : List Call) (d : Bool)
    (h : attendOne s x = .ok (s1, cs, d)) : Shrinks s s1 := by
  obtain ⟨h1, h2, _⟩ := attendOne_spec s x s1 cs d h
  exact ⟨by rw [h1], by rw [h1], fun y hy => by rw [← h2]; exact hy, fun a ha => by rw [← h1]; exact ha⟩

/-- a callback `c` is justified by a subscription stored in `s` whose consumer is registered in `s`, evaluated on `rows` -/
def Justified (s : SSt) (rows : List Record) (c : Call) : Prop :=
  ∃ x ∈ s.subs, c.cb = x.cb ∧ c.app = x.req.app ∧ s.core.consumers.contains x.req.app = true ∧
    subMatches rows x.req = .ok (some c.objs)

theorem Justified.mono {s s' : SSt} (h : Shrinks s s') {rows : List Record} {c : Call} (hj : Justified s' rows c) :
    Justified s rows c := by
  obtain ⟨x, hx, a1, a2, a3, a4⟩ := hj
  exact ⟨x, h.2.2.1 x hx, a1, a2, h.2.2.2 _ a3, a4⟩

/-- the loop: store untouched, subscriptions and consumers only shrink, every new callback is justified by a
subscription that is stored — and whose consumer is registered — when the loop reaches it (hence also at loop entry) -/
theorem attendLoop_spec (cfg : Cfg) (u : Bool) (β : Nat → CbAct) (xs : List Sub) : ∀ (s : SSt) (calls : List Call) (rm : List Sub),
    Shrinks s (attendLoop cfg u β s xs calls rm).1 ∧
    (∀ c ∈ (attendLoop cfg u β s xs calls rm).2, c ∈ calls ∨ Justified s (s.core.db.rows.map (·.2)) c) := by
  induction xs with
  | nil =>
    intro s calls rm
    simp only [attendLoop]
    exact ⟨shrinks_foldl_removeSub rm s, fun c hc => Or.inl hc⟩
  | cons x xs ih =>
    intro s calls rm
    simp only [attendLoop]
    cases ho : attendOne s x with
    | error er => simp only; exact ih s calls rm
    | ok res =>
      obtain ⟨s1, cs, d⟩ := res
      simp only
      have hsh1 := shrinks_attendOne s x s1 cs d ho
      have hsh2 := hsh1.trans (shrinks_acts cfg u β cs s1)
      obtain ⟨_, _, _, hcs, _⟩ := attendOne_spec s x s1 cs d ho
      obtain ⟨i1, i2⟩ := ih (cs.foldl (fun st c => applyAct cfg u st (β c.cb)) s1) (calls ++ cs) (if d then rm ++ [x] else rm)
      refine ⟨hsh2.trans i1, ?_⟩
      intro c hc
      rcases i2 c hc with h1 | h2
      · rcases List.mem_append.mp h1 with h1 | h1
        · exact Or.inl h1
        · obtain ⟨_, a1, a2, a3, a4, _, a6⟩ := hcs c h1
          exact Or.inr ⟨x, a6, a1, a2, a3, a4⟩
      · rw [hsh2.1] at h2
        exact Or.inr (Justified.mono hsh2 h2)

/-- every callback of an attendance is justified by a stored subscription on the current store -/
theorem attend_spec (cfg : Cfg) (u : Bool) (β : Nat → CbAct) (s : SSt) :
    Shrinks s (attend cfg u β s).1 ∧ (∀ c ∈ (attend cfg u β s).2, Justified s (s.core.db.rows.map (·.2)) c) := by
  obtain ⟨h1, h2⟩ := attendLoop_spec cfg u β s.subs s [] []
  refine ⟨h1, fun c hc => ?_⟩
  rcases h2 c hc with h | h
  · simp at h
  · exact h

theorem step_add_consumers (cfg : Cfg) (c : St) (app : Nat) (ts : Int) (loc : Loc) (obj : JVal) (v : Int) :
    (step cfg c (.add app ts loc obj v)).1.consumers = c.consumers := by
  simp only [step]
  split
  · rfl
  · split <;> rfl

/-- every callback made by a step is justified by a subscription that was stored — its consumer registered — before
the step, evaluated on the store as it is after the step -/
theorem sstep_calls (cfg : Cfg) (u : Bool) (β : Nat → CbAct) (s : SSt) (op : SOp) :
    ∀ c ∈ (sstep cfg u β s op).2.calls, Justified s ((sstep cfg u β s op).1.core.db.rows.map (·.2)) c := by
  cases op with
  | subscribe r cb =>
    simp only [sstep]
    split <;> simp
  | unsubscribe app target => simp [sstep]
  | attend =>
    simp only [sstep]
    obtain ⟨h1, h3⟩ := attend_spec cfg u β s
    intro c hc
    rw [h1.1]
    exact h3 c hc
  | core op =>
    cases op with
    | add app ts loc obj validity =>
      simp only [sstep]
      split
      · simp
      · split
        · obtain ⟨h1, h3⟩ := attend_spec cfg u β { s with core := (step cfg s.core (.add app ts loc obj validity)).1 }
          intro c hc
          simp only at hc ⊢
          rw [h1.1]
          obtain ⟨x, hx, a1, a2, a3, a4⟩ := h3 c hc
          exact ⟨x, hx, a1, a2, by simpa [step_add_consumers] using a3, a4⟩
        · simp
    | deregConsumer app => simp [sstep]
    | regProvider a p => simp [sstep]
    | deregProvider a => simp [sstep]
    | regConsumer a p => simp [sstep]
    | update a i o => simp [sstep]
    | delete a i => simp [sstep]
    | request q => simp [sstep]
    | maintain => simp [sstep]
    | advance ms => simp [sstep]

/-- a step stores at most one new subscription: the one of a `subscribe` operation -/
theorem sstep_subs (cfg : Cfg) (u : Bool) (β : Nat → CbAct) (s : SSt) (op : SOp) :
    ∀ y ∈ (sstep cfg u β s op).1.subs, y ∈ s.subs ∨ ∃ r cb, op = .subscribe r cb ∧ y = { req := r, cb := cb } := by
  cases op with
  | subscribe r cb =>
    simp only [sstep]
    split
    · intro y hy; exact Or.inl hy
    · intro y hy
      simp only [List.mem_append, List.mem_singleton] at hy
      rcases hy with h | h
      · exact Or.inl h
      · exact Or.inr ⟨r, cb, rfl, h⟩
  | unsubscribe app target =>
    simp only [sstep]
    intro y hy; exact Or.inl ((shrinks_doUnsub u s app target).2.2.1 y hy)
  | attend =>
    simp only [sstep]
    intro y hy; exact Or.inl ((attend_spec cfg u β s).1.2.2.1 y hy)
  | core op =>
    cases op with
    | add app ts loc obj validity =>
      simp only [sstep]
      split
      · intro y hy; exact Or.inl hy
      · split
        · intro y hy
          exact Or.inl ((attend_spec cfg u β { s with core := (step cfg s.core (.add app ts loc obj validity)).1 }).1.2.2.1 y hy)
        · intro y hy; exact Or.inl hy
    | deregConsumer app =>
      simp only [sstep]
      intro y hy; exact Or.inl ((shrinks_doDereg cfg s app).2.2.1 y hy)
    | regProvider a p => intro y hy; exact Or.inl hy
    | deregProvider a => intro y hy; exact Or.inl hy
    | regConsumer a p => intro y hy; exact Or.inl hy
    | update a i o => intro y hy; exact Or.inl hy
    | delete a i => intro y hy; exact Or.inl hy
    | request q => intro y hy; exact Or.inl hy
    | maintain => intro y hy; exact Or.inl hy
    | advance ms => intro y hy; exact Or.inl hy

/-- the callback identities of the stored subscriptions -/
def cbsOf (s : SSt) : List Nat := s.subs.map (·.cb)

/-- no later `subscribe` hands the callback identity `cb` out again -/
def noResubscribe (cb : Nat) (ops : List SOp) : Prop :=
  ∀ op ∈ ops, ∀ r, op ≠ .subscribe r cb

/-- once no stored subscription carries callback `cb`, that callback is never invoked again -/
theorem no_call_without_subscription (cfg : Cfg) (u : Bool) (β : Nat → CbAct) (cb : Nat) (ops : List SOp) : ∀ s : SSt,
    cb ∉ cbsOf s → noResubscribe cb ops → ∀ o ∈ (srun cfg u β s ops).2, ∀ c ∈ o.calls, c.cb ≠ cb := by
  induction ops with
  | nil => intro s _ _ o ho; simp [srun] at ho
  | cons op ops ih =>
    intro s hn hr o ho c hc
    simp only [srun, List.mem_cons] at ho
    rcases ho with ho | ho
    · subst ho
      obtain ⟨x, hx, h1, _⟩ := sstep_calls cfg u β s op c hc
      intro e
      apply hn
      simp only [cbsOf, List.mem_map]
      exact ⟨x, hx, by rw [← h1, e]⟩
    · refine ih (sstep cfg u β s op).1 ?_ (fun o' ho' => hr o' (List.mem_cons_of_mem _ ho')) o ho c hc
      intro hm
      simp only [cbsOf, List.mem_map] at hm
      obtain ⟨y, hy, hcb⟩ := hm
      rcases sstep_subs cfg u β s op y hy with h | ⟨r, cb', hop, hy'⟩
      · exact hn (by simp only [cbsOf, List.mem_map]; exact ⟨y, h, hcb⟩)
      · subst hy'
        simp only at hcb
        subst hcb
        exact hr op (by simp) r hop

theorem erase_filtered (p : Sub → Bool) (kept rest : List Sub) (hk : ∀ k ∈ kept, p k = false) :
    (rest.filter p).foldl (fun acc v => acc.erase v) (kept ++ rest) = kept ++ rest.filter (fun x => !p x) := by
  induction rest generalizing kept with
  | nil => simp
  | cons v t ih =>
    by_cases hp : p v = true
    · have hnot : v ∉ kept := fun hm => by have := hk v hm; rw [hp] at this; cases this
      simp only [List.filter, hp, List.foldl_cons, Bool.not_true]
      rw [List.erase_append_right _ hnot, List.erase_cons_head]
      exact ih kept hk
    · have hp' : p v = false := by simpa using hp
      simp only [List.filter, hp', Bool.not_false]
      have : kept ++ v :: t = (kept ++ [v]) ++ t := by simp
      rw [this, ih (kept ++ [v])]
      · simp
      · intro k hk'
        rcases List.mem_append.mp hk' with h | h
        · exact hk k h
        · simp at h; rw [h]; exact hp'

/-- removing every stored subscription that satisfies `p` leaves exactly the others, in order -/
theorem remove_all (p : Sub → Bool) (s : SSt) :
    ((s.subs.filter p).foldl removeSub s).subs = s.subs.filter (fun x => !p x) := by
  rw [foldl_removeSub_subs]
  have := erase_filtered p [] s.subs (by simp)
  simpa using this

theorem lcGet_lcPop (lc : List (Sub × Int)) (v y : Sub) (h : y ≠ v) : lcGet (lcPop lc v) y = lcGet lc y := by
  unfold lcGet lcPop
  induction lc with
  | nil => rfl
  | cons q t ih =>
    simp only [List.filter_cons]
    by_cases hq : q.1 = v
    · have hvy : (v == y) = false := by
        apply beq_eq_false_iff_ne.mpr
        exact fun e => h e.symm
      simp only [hq, bne_self_eq_false, Bool.false_eq_true, if_false, List.find?_cons, hvy]
      exact ih
    · have hne : (q.1 != v) = true := by simp [hq]
      simp only [hne, if_true, List.find?_cons]
      cases hqy : (q.1 == y)
      · simpa using ih
      · rfl

/-- removing subscriptions does not touch the notification clock of any other subscription -/
theorem lcGet_remove (vs : List Sub) (y : Sub) (hy : y ∉ vs) : ∀ s : SSt,
    lcGet (vs.foldl removeSub s).lastChecked y = lcGet s.lastChecked y := by
  induction vs with
  | nil => intro s; rfl
  | cons v vs ih =>
    intro s
    simp only [List.mem_cons, not_or] at hy
    simp only [List.foldl_cons]
    rw [ih hy.2]
    exact lcGet_lcPop _ v y hy.1

theorem lcGet_lcSet_other (lc : List (Sub × Int)) (x y : Sub) (t : Int) (h : y ≠ x) :
    lcGet (lcSet lc x t) y = lcGet lc y := by
  unfold lcGet lcSet
  have hxy : (x == y) = false := beq_eq_false_iff_ne.mpr (fun e => h e.symm)
  have hmap : ∀ l : List (Sub × Int),
      Option.map (fun p => p.2) (List.find? (fun p => p.1 == y) (l.map (fun p => if p.1 == x then (x, t) else p)))
        = Option.map (fun p => p.2) (List.find? (fun p => p.1 == y) l) := by
    intro l
    induction l with
    | nil => rfl
    | cons q l ih =>
      simp only [List.map_cons, List.find?_cons]
      by_cases hq : q.1 = x
      · have h1 : (q.1 == y) = false := by rw [hq]; exact hxy
        simp only [hq, beq_self_eq_true, if_true, hxy, h1]
        exact ih
      · have hb : (q.1 == x) = false := beq_eq_false_iff_ne.mpr hq
        simp only [hb, Bool.false_eq_true, if_false]
        cases (q.1 == y)
        · exact ih
        · rfl
  split
  · exact hmap lc
  · rw [List.find?_append]
    simp [hxy]

/-- attending one subscription does not touch the notification clock of any other subscription -/
theorem attendOne_others (s : SSt) (x : Sub) (s1 : SSt) (cs : List Call) (d : Bool)
    (h : attendOne s x = .ok (s1, cs, d)) (y : Sub) (hy : y ≠ x) :
    lcGet s1.lastChecked y = lcGet s.lastChecked y := by
  unfold attendOne at h
  split at h
  · simp only [pure, Except.pure, Except.ok.injEq, Prod.mk.injEq] at h
    obtain ⟨rfl, _, _⟩ := h; rfl
  · cases hm : subMatches (s.core.db.rows.map (·.2)) x.req with
    | error e => simp [hm, bind, Except.bind] at h
    | ok o =>
      cases o with
      | none =>
        simp only [hm, bind, Except.bind, pure, Except.pure, Except.ok.injEq, Prod.mk.injEq] at h
        obtain ⟨rfl, _, _⟩ := h; rfl
      | some objs =>
        simp only [hm, bind, Except.bind] at h
        by_cases hmem : s.subs.contains x = true
        · simp only [hmem, Bool.not_true, Bool.false_eq_true, if_false] at h
          cases hl : lcGet s.lastChecked x <;> cases hn : x.req.notify <;> simp only [hl, hn] at h <;>
            (try split at h) <;>
            (simp only [pure, Except.pure, Except.ok.injEq, Prod.mk.injEq, Bool.false_eq_true, if_false] at h
             obtain ⟨rfl, _, _⟩ := h
             simp [lcGet_lcSet_other, hy])
        · have hmem' : s.subs.contains x = false := by simpa using hmem
          simp only [hmem', Bool.not_false, if_true, pure, Except.pure, Except.ok.injEq, Prod.mk.injEq] at h
          obtain ⟨rfl, _, _⟩ := h; rfl

/-! ## completeness of an attendance -/

theorem attendLoop_calls_mono (cfg : Cfg) (u : Bool) (β : Nat → CbAct) (xs : List Sub) : ∀ (s : SSt) (calls : List Call) (rm : List Sub),
    ∀ c ∈ calls, c ∈ (attendLoop cfg u β s xs calls rm).2 := by
  induction xs with
  | nil => intro s calls rm c hc; exact hc
  | cons x xs ih =>
    intro s calls rm c hc
    simp only [attendLoop]
    cases attendOne s x with
    | error e => exact ih s calls rm c hc
    | ok res =>
      obtain ⟨s1, cs, d⟩ := res
      exact ih _ _ _ c (List.mem_append_left _ hc)

/-- a stored subscription of a registered consumer with something to notify and its interval elapsed IS notified -/
theorem attendOne_fires (s : SSt) (x : Sub) (objs : List Record) (hmem : x ∈ s.subs)
    (hreg : s.core.consumers.contains x.req.app = true)
    (hm : subMatches (s.core.db.rows.map (·.2)) x.req = .ok (some objs)) (hi : intervalElapsed s x = true) :
    ∃ s1, attendOne s x = .ok (s1, [{ cb := x.cb, app := x.req.app, objs := objs }], false) := by
  have hc : s.subs.contains x = true := (contains_iff_mem _ _).mpr hmem
  unfold attendOne
  simp only [hreg, Bool.not_true, Bool.false_eq_true, if_false, hm, bind, Except.bind, hc]
  unfold intervalElapsed at hi
  cases hl : lcGet s.lastChecked x <;> cases hn : x.req.notify <;> simp only [hl, hn, Option.getD] at hi ⊢
  · exact ⟨_, rfl⟩
  · simp only [Bool.not_eq_true', decide_eq_false_iff_not] at hi
    simp only [hi, decide_false, Bool.false_eq_true, if_false]
    exact ⟨_, rfl⟩
  · exact ⟨_, rfl⟩
  · simp only [Bool.not_eq_true', decide_eq_false_iff_not] at hi
    simp only [hi, decide_false, Bool.false_eq_true, if_false]
    exact ⟨_, rfl⟩

/-- the callback only records or raises: it does not re-enter the LDM -/
def passive (β : Nat → CbAct) (cb : Nat) : Prop := β cb = .none ∨ β cb = .raises

theorem applyAct_passive (cfg : Cfg) (u : Bool) (β : Nat → CbAct) (s : SSt) (cb : Nat) (h : passive β cb) :
    applyAct cfg u s (β cb) = s := by
  rcases h with h | h <;> rw [h] <;> rfl

theorem acts_passive (cfg : Cfg) (u : Bool) (β : Nat → CbAct) (cb : Nat) (h : passive β cb) : ∀ (cs : List Call) (s : SSt),
    (∀ c ∈ cs, c.cb = cb) → cs.foldl (fun st c => applyAct cfg u st (β c.cb)) s = s := by
  intro cs
  induction cs with
  | nil => intro s _; rfl
  | cons c cs ih =>
    intro s hcs
    simp only [List.foldl_cons]
    rw [hcs c (by simp), applyAct_passive cfg u β s cb h]
    exact ih s (fun c' hc' => hcs c' (by simp [hc']))

theorem intervalElapsed_congr (s s1 : SSt) (x : Sub) (h1 : s1.core = s.core) (h2 : lcGet s1.lastChecked x = lcGet s.lastChecked x) :
    intervalElapsed s1 x = intervalElapsed s x := by
  unfold intervalElapsed
  rw [h1, h2]

/-- **completeness of the loop**: a subscription of the snapshot that is stored, whose consumer is registered, that has
something to notify and whose interval has elapsed is called back with exactly that — whatever the other
subscriptions do (ordering exceptions, raising callbacks), as long as their callbacks do not re-enter the LDM -/
theorem attendLoop_complete (cfg : Cfg) (u : Bool) (β : Nat → CbAct) (x : Sub) (objs : List Record) : ∀ (xs : List Sub) (s : SSt)
    (calls : List Call) (rm : List Sub),
    (∀ y ∈ xs, passive β y.cb) → x ∈ xs → x ∈ s.subs → s.core.consumers.contains x.req.app = true →
    subMatches (s.core.db.rows.map (·.2)) x.req = .ok (some objs) → intervalElapsed s x = true →
    ∃ c ∈ (attendLoop cfg u β s xs calls rm).2, c.cb = x.cb ∧ c.app = x.req.app ∧ c.objs = objs := by
  intro xs
  induction xs with
  | nil => intro s calls rm _ hx; simp at hx
  | cons y xs ih =>
    intro s calls rm hp hx hmem hreg hm hi
    simp only [attendLoop]
    by_cases hyx : y = x
    · subst hyx
      obtain ⟨s1, h1⟩ := attendOne_fires s y objs hmem hreg hm hi
      rw [h1]
      simp only
      refine ⟨{ cb := y.cb, app := y.req.app, objs := objs }, ?_, rfl, rfl, rfl⟩
      exact attendLoop_calls_mono cfg u β xs _ _ _ _ (by simp)
    · have hx' : x ∈ xs := by
        rcases List.mem_cons.mp hx with h | h
        · exact absurd h.symm hyx
        · exact h
      have hp' : ∀ z ∈ xs, passive β z.cb := fun z hz => hp z (by simp [hz])
      cases ho : attendOne s y with
      | error e => simp only; exact ih s calls rm hp' hx' hmem hreg hm hi
      | ok res =>
        obtain ⟨s1, cs, d⟩ := res
        simp only
        obtain ⟨hcore, hsubs, _, hcs, _⟩ := attendOne_spec s y s1 cs d ho
        have hpass := acts_passive cfg u β y.cb (hp y (by simp)) cs s1 (fun c hc => (hcs c hc).2.1)
        rw [hpass]
        have hlc := attendOne_others s y s1 cs d ho x (fun e => hyx e.symm)
        exact ih s1 _ _ hp' hx' (by rw [hsubs]; exact hmem) (by rw [hcore]; exact hreg) (by rw [hcore]; exact hm)
          (by rw [intervalElapsed_congr s s1 x hcore hlc]; exact hi)

/-- with passive callbacks the loop leaves the subscription list alone until the removals -/
theorem attendLoop_passive_state (cfg : Cfg) (u : Bool) (β : Nat → CbAct) : ∀ (xs : List Sub) (s : SSt) (calls : List Call) (rm : List Sub),
    (∀ y ∈ xs, passive β y.cb) →
    ∃ s' : SSt, s'.subs = s.subs ∧ s'.core = s.core ∧
      (attendLoop cfg u β s xs calls rm).1 =
        (rm ++ xs.filter (fun y => !s.core.consumers.contains y.req.app)).foldl removeSub s' := by
  intro xs
  induction xs with
  | nil => intro s calls rm _; exact ⟨s, rfl, rfl, by simp [attendLoop]⟩
  | cons y xs ih =>
    intro s calls rm hp
    have hp' : ∀ z ∈ xs, passive β z.cb := fun z hz => hp z (by simp [hz])
    simp only [attendLoop]
    cases ho : attendOne s y with
    | error e =>
      simp only
      obtain ⟨s', a1, a2, a3⟩ := ih s calls rm hp'
      refine ⟨s', a1, a2, ?_⟩
      rw [a3]
      -- an error can only come from a registered consumer's subscription
      have hreg : s.core.consumers.contains y.req.app = true := by
        cases hc : s.core.consumers.contains y.req.app with
        | true => rfl
        | false =>
          have : attendOne s y = .ok (s, [], true) := by
            unfold attendOne; simp only [hc, Bool.not_false, if_true]; rfl
          rw [this] at ho; cases ho
      have hreg' : y.req.app ∈ s.core.consumers := by simpa using hreg
      simp [hreg']
    | ok res =>
      obtain ⟨s1, cs, d⟩ := res
      simp only
      obtain ⟨hcore, hsubs, hd, hcs, _⟩ := attendOne_spec s y s1 cs d ho
      rw [acts_passive cfg u β y.cb (hp y (by simp)) cs s1 (fun c hc => (hcs c hc).2.1)]
      obtain ⟨s', a1, a2, a3⟩ := ih s1 (calls ++ cs) (if d then rm ++ [y] else rm) hp'
      refine ⟨s', by rw [a1, hsubs], by rw [a2, hcore], ?_⟩
      rw [a3, hcore]
      cases d with
      | true =>
        have h0 : s.core.consumers.contains y.req.app = false := hd.mp rfl
        have h0' : y.req.app ∉ s.core.consumers := by simpa using h0
        simp [h0']
      | false =>
        have : s.core.consumers.contains y.req.app = true := by
          cases hc : s.core.consumers.contains y.req.app with
          | true => rfl
          | false => exact absurd (hd.mpr hc) (by simp)
        have h0' : y.req.app ∈ s.core.consumers := by simpa using this
        simp [h0']

end FlexModel.Ldm

/-
The LDM query path (repaired code, see fixes/C12-*, C13-*):
  IF.LDM.4 request_data_objects -> LDMService.query -> DictionaryDataBase.search/_filter_data
  (and TinyDB.search), LDMService.order_search_results.
Python semantics exactly as far as the code relies on them: `==` across types (bool is an int), ordering
raising TypeError on mixed types, `in`, subscripting.  Errors are values (`Except Err`).
Core Lean only.
-/
import FlexModel.Ldm.Record

namespace FlexModel.Ldm

inductive Err where
  | typeError | keyError | valueError | indexError | attributeError
  deriving DecidableEq, Inhabited

def Err.name : Err → String
  | .typeError => "TypeError" | .keyError => "KeyError" | .valueError => "ValueError"
  | .indexError => "IndexError" | .attributeError => "AttributeError"

inductive CmpOp where
  | eq | ne | gt | lt | ge | le | like | notlike
  deriving DecidableEq, Inhabited

structure Stmt where
  attr : List String          -- the dotted attribute path, split at the dots (`attribute.split(".")`)
  op : CmpOp
  ref : JVal
  deriving DecidableEq, Inhabited

inductive LogOp where
  | and | or
  deriving DecidableEq, Inhabited

structure Filter where
  s1 : Stmt
  lop : Option LogOp
  s2 : Option Stmt
  deriving DecidableEq, Inhabited

inductive Dir where
  | asc | desc
  deriving DecidableEq, Inhabited

structure OrderKey where
  attr : List String          -- `attribute.split(".")`: one element = a bare key name
  dir : Dir
  deriving DecidableEq, Inhabited

/-! ## Python `==` -/

mutual
def pyEq (a b : JVal) : Bool :=
  match a with
  | .null => match b with | .null => true | _ => false
  | .bool x => match b.num? with | some j => (if x then (1 : Int) else 0) == j | none => false
  | .int i => match b.num? with | some j => i == j | none => false
  | .str s => match b with | .str t => s == t | _ => false
  | .bytes s => match b with | .bytes t => s == t | _ => false
  | .list xs => match b with | .list ys => pyEqList xs ys | _ => false
  | .tuple xs => match b with | .tuple ys => pyEqList xs ys | _ => false
  | .dict kvs => match b with | .dict kvs2 => kvs.length == kvs2.length && dictSub kvs kvs2 | _ => false
def pyEqList (xs ys : JList) : Bool :=
  match xs with
  | .nil => match ys with | .nil => true | _ => false
  | .cons x xt => match ys with | .cons y yt => pyEq x y && pyEqList xt yt | .nil => false
/-- every entry of `a` occurs in `b` with an equal value (dict equality is order-insensitive) -/
def dictSub (a b : JDict) : Bool :=
  match a with
  | .nil => true
  | .cons k v t => (match b.get? k with | some w => pyEq v w | none => false) && dictSub t b
end

/-! ## Python ordering (`<`, `<=`, `>`, `>=`): three-way result or TypeError -/

mutual
def compare3 (a b : JVal) : Except Err Ordering :=
  match a with
  | .int i => match b.num? with | some j => pure (compare i j) | none => throw .typeError
  | .bool x => match b.num? with | some j => pure (compare (if x then (1 : Int) else 0) j) | none => throw .typeError
  | .str s => match b with | .str t => pure (compare s t) | _ => throw .typeError
  | .bytes s => match b with | .bytes t => pure (compare s t) | _ => throw .typeError
  | .list xs => match b with | .list ys => cmpList xs ys | _ => throw .typeError
  | .tuple xs => match b with | .tuple ys => cmpList xs ys | _ => throw .typeError
  | .null => throw .typeError
  | .dict _ => throw .typeError
def cmpList (xs ys : JList) : Except Err Ordering :=
  match xs with
  | .nil => match ys with | .nil => pure .eq | _ => pure .lt
  | .cons x xt => match ys with
    | .nil => pure .gt
    | .cons y yt => if pyEq x y then cmpList xt yt else compare3 x y
end

def pyLt (a b : JVal) : Except Err Bool := do
  let o ← compare3 a b
  pure (o == .lt)

/-! ## `like` / `notlike` (`_value_contains`) -/

def isInfixL (n : List Char) : List Char → Bool
  | [] => n.isEmpty
  | c :: t => n.isPrefixOf (c :: t) || isInfixL n t

/-- `str(needle)` for the reference values the harness uses (None, bool, int, str); anything else gets a
marker that is never a substring (unmodelled reprs). -/
def pyStr : JVal → String
  | .null => "None"
  | .bool true => "True"
  | .bool false => "False"
  | .int i => toString i
  | .str s => s
  | _ => "\u0000<unmodelled-repr>"

def pyContains (cand needle : JVal) : Bool :=
  match cand with
  | .str s => isInfixL (pyStr needle).toList s.toList
  | .list xs => xs.toList.any (fun x => pyEq x needle)
  | .tuple xs => xs.toList.any (fun x => pyEq x needle)
  | _ => false

/-- `OPERATOR_MAPPING[op](value, ref)` -/
def evalOp (op : CmpOp) (v ref : JVal) : Except Err Bool :=
  match op with
  | .eq => pure (pyEq v ref)
  | .ne => pure (!pyEq v ref)
  | .lt => do let o ← compare3 v ref; pure (o == .lt)
  | .le => do let o ← compare3 v ref; pure (o != .gt)
  | .gt => do let o ← compare3 v ref; pure (o == .gt)
  | .ge => do let o ← compare3 v ref; pure (o != .lt)
  | .like => pure (pyContains v ref)
  | .notlike => pure (!pyContains v ref)

/-! ## attribute resolution of filters: `DictionaryDataBase._get_nested` -/

/-- `v[k]` with a string key -/
def pyIndex (v : JVal) (k : String) : Except Err JVal :=
  match v with
  | .dict kvs => match kvs.get? k with
    | some x => pure x
    | none => throw .keyError
  | _ => throw .typeError

def getPath : JVal → List String → Except Err JVal
  | v, [] => pure v
  | v, k :: ks => do let x ← pyIndex v k; getPath x ks

/-- one statement on one record, exceptions visible -/
def stmtValue (obj : JVal) (s : Stmt) : Except Err Bool := do
  let v ← getPath obj s.attr
  evalOp s.op v s.ref

/-- `_statement_matches`: KeyError / TypeError -> does not match -/
def stmtMatches (obj : JVal) (s : Stmt) : Bool :=
  match stmtValue obj s with
  | .ok b => b
  | .error _ => false

/-- `_filter_data` on one record: "and" iff `str(logical_operator) == "and"`, anything else is "or" -/
def filterMatches (f : Filter) (r : Record) : Bool :=
  match f.s2 with
  | none => stmtMatches r.obj f.s1
  | some s2 =>
    if f.lop = some .and then stmtMatches r.obj f.s1 && stmtMatches r.obj s2
    else stmtMatches r.obj f.s1 || stmtMatches r.obj s2

/-- `RequestDataObjectsReq.filter_out_by_data_object_type` -/
def typeSelected (types : List Nat) (r : Record) : Bool :=
  match objType r.obj with
  | some t => types.contains t
  | none => false

def typeSelect (types : List Nat) (rows : List Record) : List Record :=
  rows.filter (typeSelected types)

/-- `DictionaryDataBase.search` -/
def dictSearch (rows : List Record) (types : List Nat) (f : Option Filter) : List Record :=
  match f with
  | none => typeSelect types rows
  | some f => (typeSelect types rows).filter (filterMatches f)

/-- the code before fix C13-dict-missing-attribute: one exception anywhere makes the whole search return `()` -/
def dictSearchOld (rows : List Record) (types : List Nat) (f : Option Filter) : List Record :=
  match f with
  | none => typeSelect types rows
  | some f =>
    let sel := typeSelect types rows
    let bad (r : Record) : Bool :=
      (stmtValue r.obj f.s1).toBool == false || (match f.s2 with | some s2 => (stmtValue r.obj s2).toBool == false | none => false)
    if sel.any bad then [] else sel.filter (filterMatches f)

/-! ## TinyDB back-end -/

mutual
/-- what JSON storage does to a value: tuples come back as lists -/
def jsonRound : JVal → JVal
  | .list xs => .list (jsonRoundL xs)
  | .tuple xs => .list (jsonRoundL xs)
  | .dict kvs => .dict (jsonRoundD kvs)
  | v => v
def jsonRoundL : JList → JList
  | .nil => .nil
  | .cons h t => .cons (jsonRound h) (jsonRoundL t)
def jsonRoundD : JDict → JDict
  | .nil => .nil
  | .cons k v t => .cons k (jsonRound v) (jsonRoundD t)
end

mutual
/-- `json.dumps` raises TypeError on bytes -/
def hasBytes : JVal → Bool
  | .bytes _ => true
  | .list xs => hasBytesL xs
  | .tuple xs => hasBytesL xs
  | .dict kvs => hasBytesD kvs
  | _ => false
def hasBytesL : JList → Bool
  | .nil => false
  | .cons h t => hasBytes h || hasBytesL t
def hasBytesD : JDict → Bool
  | .nil => false
  | .cons _ v t => hasBytes v || hasBytesD t
end

def Record.round (r : Record) : Record := { r with obj := jsonRound r.obj }

/-- TinyDB query built by `_build_filter_condition` (path under `dataObject`, `test` with TypeError -> False):
`node.logical_operator or "and"` makes a missing operator an "and" -/
def tinyMatches (f : Filter) (r : Record) : Bool :=
  match f.s2 with
  | none => stmtMatches r.obj f.s1
  | some s2 =>
    if f.lop = some .or then stmtMatches r.obj f.s1 || stmtMatches r.obj s2
    else stmtMatches r.obj f.s1 && stmtMatches r.obj s2

/-- `TinyDB.search` on the stored (JSON round-tripped) documents -/
def tinySearch (rows : List Record) (types : List Nat) (f : Option Filter) : List Record :=
  let docs := rows.map Record.round
  match f with
  | none => typeSelect types docs
  | some f => typeSelect types (docs.filter (tinyMatches f))

/-! ## ordering: `LDMService.order_search_results` -/

/-- `Utils.find_attribute`: depth-first search for a key, path of keys or [] -/
def findAttrD (attr : String) : JDict → List String
  | .nil => []
  | .cons k (.dict sub) t =>
    if k = attr then [k]
    else
      let p := findAttrD attr sub
      if p.isEmpty then findAttrD attr t else k :: p
  | .cons k _ t => if k = attr then [k] else findAttrD attr t

/-- `Utils.get_nested(data, path)`: None (`.null`) when the path is empty, the data falsy or a key missing;
TypeError where Python raises (`in` on an int, string index into a list/str) -/
def utilsGetNested : JVal → List String → Except Err JVal
  | _, [] => pure .null
  | data, k :: rest =>
    if !data.truthy then pure .null
    else match data with
      | .dict kvs => match kvs.get? k with
        | none => pure .null
        | some v => if rest.isEmpty then pure v else utilsGetNested v rest
      | .list xs => if xs.toList.any (fun x => pyEq x (.str k)) then throw .typeError else pure .null
      | .tuple xs => if xs.toList.any (fun x => pyEq x (.str k)) then throw .typeError else pure .null
      | .str s => if isInfixL k.toList s.toList then throw .typeError else pure .null
      | _ => throw .typeError

/-- `build_key(item, order)`: a dotted attribute (`"." in attribute`, i.e. at least two path elements) is resolved
inside the message, a bare name by depth-first search through the whole record -/
def orderKeyOf (r : Record) (k : OrderKey) : Except Err JVal :=
  match k.attr with
  | [] => pure .null
  | [a] =>
    match r.toJVal with
    | .dict kvs => utilsGetNested r.toJVal (findAttrD a kvs)
    | _ => pure .null
  | path => utilsGetNested r.obj path

/-- stable insertion, ascending: `x` goes after every element that is not greater (`<` is the only comparison) -/
def insAsc {α : Type} (x : α × JVal) : List (α × JVal) → Except Err (List (α × JVal))
  | [] => pure [x]
  | y :: ys => do
    if (← pyLt x.2 y.2) then pure (x :: y :: ys)
    else
      let r ← insAsc x ys
      pure (y :: r)

/-- stable insertion, descending: `x` goes after every element that is not smaller -/
def insDesc {α : Type} (x : α × JVal) : List (α × JVal) → Except Err (List (α × JVal))
  | [] => pure [x]
  | y :: ys => do
    if (← pyLt y.2 x.2) then pure (x :: y :: ys)
    else
      let r ← insDesc x ys
      pure (y :: r)

/-- `sorted(xs, key=..., reverse=flag)`: a stable sort that uses `<` only; with `reverse` the result is
descending and still stable (Python documentation of `sorted`/`list.sort`) -/
def pySorted {α : Type} (xs : List (α × JVal)) (reverse : Bool) : Except Err (List (α × JVal)) :=
  xs.foldlM (fun acc x => if reverse then insDesc x acc else insAsc x acc) []

def sortByKey (rows : List Record) (k : OrderKey) : Except Err (List Record) := do
  let keyed ← rows.mapM (fun r => do let v ← orderKeyOf r k; pure (r, v))
  let sorted ← pySorted keyed (k.dir == .desc)
  pure (sorted.map (·.1))

/-- one stable sort per attribute, least significant first -/
def orderResults (rows : List Record) (keys : List OrderKey) : Except Err (List Record) :=
  keys.reverse.foldlM sortByKey rows

/-! ## IF.LDM.4 request_data_objects -/

structure Request where
  app : Nat
  types : List Nat
  prio : Option Int
  orderBad : Bool                 -- `order` is neither a list nor a tuple of OrderTupleValue
  order : Option (List OrderKey)
  filterBad : Bool                -- `filter` is not a Filter
  filter : Option Filter
  deriving Inhabited

inductive ReqOut where
  | refused (code : Nat)
  | ok (rs : List Record)
  | exc (e : Err)
  deriving Inhabited

def validType (t : Nat) : Bool := Generated.Ldm.typeTable.any (fun p => p.1 == t)

/-- `LDMService.query` then `[0]` -/
def serviceQuery (rows : List Record) (q : Request) : Except Err (List Record) :=
  let found := dictSearch rows q.types q.filter
  match q.order with
  | none => pure found
  | some ks => orderResults found ks

/-- the same path over the TinyDB back-end -/
def serviceQueryTiny (rows : List Record) (q : Request) : Except Err (List Record) :=
  let found := tinySearch rows q.types q.filter
  match q.order with
  | none => pure found
  | some ks => orderResults found ks

/-- the validation ladder of `request_data_objects`: refusal code, if any -/
def requestRefusal (registered : Bool) (q : Request) : Option Nat :=
  if !registered then some 1
  else if q.types.any (fun t => !validType t) then some 2
  else if (match q.prio with | some p => p < 0 || p > 255 | none => false) then some 3
  else if q.orderBad then some 5
  else if q.filterBad then some 4
  else none

def if4Request (consumers : List Nat) (rows : List Record) (q : Request) : ReqOut :=
  match requestRefusal (consumers.contains q.app) q with
  | some c => .refused c
  | none => match serviceQuery rows q with
    | .ok rs => .ok rs
    | .error e => .exc e

def if4RequestTiny (consumers : List Nat) (rows : List Record) (q : Request) : ReqOut :=
  match requestRefusal (consumers.contains q.app) q with
  | some c => .refused c
  | none => match serviceQueryTiny rows q with
    | .ok rs => .ok rs
    | .error e => .exc e

end FlexModel.Ldm

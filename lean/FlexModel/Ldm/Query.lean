/-
C13 specification of a data request, written from the property text:
  result = the stored objects of the requested types for which the filter is true — a statement is true of an
  object iff the attribute (a dotted path through the message's dictionaries) exists and the comparison holds; one
  or two statements joined by and/or — in store order, then stably sorted by the order attributes, each with its own
  direction.

The comparisons are specified HERE, independently of the implementation model (`evalOp` in Filter.lean), for the
scalar value classes the messages are made of — nothing (None), numbers (int, bool), texts, octet strings:
  ==  same class and same value;  !=  its negation;  <, >  the order of the class, false across classes;
  <=, >=  "not greater" / "not less" within an ordered class, false across classes;
  like  the value is a text in which the text of the reference value occurs (`List.IsInfix`);  notlike  its negation.
For compound values (list, tuple, dictionary) on either side the specification defers to Python's structural ==,
lexicographic order and membership as modelled in Filter.lean (`compoundHolds`; shared, cross-checked against native
Python by the correspondence).  `QueryLemmas.opHolds_agrees` proves that the implementation model's operator table
computes exactly this.
-/
import FlexModel.Ldm.Filter

namespace FlexModel.Ldm.Spec
open FlexModel.Ldm

/-- the attribute value of a message, if the whole dotted path exists -/
def lookupPath : JVal → List String → Option JVal
  | v, [] => some v
  | .dict kvs, k :: ks =>
    match kvs.get? k with
    | some x => lookupPath x ks
    | none => none
  | _, _ :: _ => none

/-! ### comparisons on scalar values (independent of the implementation model) -/

/-- the scalar value classes -/
inductive Scalar where
  | nothing
  | num (i : Int)
  | text (s : String)
  | octets (hex : String)
  deriving DecidableEq, Inhabited

/-- a scalar value's class; Python's bool is a number (`True == 1`) -/
def scalar? : JVal → Option Scalar
  | .null => some .nothing
  | .bool b => some (.num (if b then 1 else 0))
  | .int i => some (.num i)
  | .str s => some (.text s)
  | .bytes h => some (.octets h)
  | _ => none

/-- equal: same class, same value -/
def sEq : Scalar → Scalar → Bool
  | .nothing, .nothing => true
  | .num a, .num b => decide (a = b)
  | .text a, .text b => decide (a = b)
  | .octets a, .octets b => decide (a = b)
  | _, _ => false

/-- strictly less, defined within one ordered class (numbers, texts, octet strings) -/
def sLt : Scalar → Scalar → Option Bool
  | .num a, .num b => some (decide (a < b))
  | .text a, .text b => some (decide (a < b))
  | .octets a, .octets b => some (decide (a < b))
  | _, _ => none

/-- `needle` occurs in `hay` as a contiguous piece -/
def occursIn (needle hay : String) : Bool := decide (needle.toList <:+: hay.toList)

/-- a comparison between two scalars; `needle` is the text of the reference value -/
def sHolds (op : CmpOp) (a b : Scalar) (needle : String) : Bool :=
  match op with
  | .eq => sEq a b
  | .ne => !sEq a b
  | .lt => sLt a b == some true
  | .gt => sLt b a == some true
  | .le => sLt b a == some false
  | .ge => sLt a b == some false
  | .like => (match a with | .text s => occursIn needle s | _ => false)
  | .notlike => (match a with | .text s => !occursIn needle s | _ => true)

/-- compound values: Python's structural semantics as modelled in Filter.lean; a comparison Python cannot evaluate
(values of non-matching type) is not true -/
def compoundHolds (op : CmpOp) (v ref : JVal) : Bool :=
  match evalOp op v ref with
  | .ok b => b
  | .error _ => false

def opHolds (op : CmpOp) (v ref : JVal) : Bool :=
  match scalar? v, scalar? ref with
  | some a, some b => sHolds op a b (pyStr ref)
  | _, _ => compoundHolds op v ref

/-- a statement holds of a message; an object lacking the attribute simply does not match -/
def holds (s : Stmt) (obj : JVal) : Bool :=
  match lookupPath obj s.attr with
  | none => false
  | some v => opHolds s.op v s.ref

/-- a filter is well formed when two statements come with their joining operator -/
def WFFilter (f : Filter) : Prop := f.s2.isSome = true → f.lop.isSome = true

def matchesFilter (f : Filter) (obj : JVal) : Bool :=
  match f.s2, f.lop with
  | none, _ => holds f.s1 obj
  | some s2, some .and => holds f.s1 obj && holds s2 obj
  | some s2, some .or => holds f.s1 obj || holds s2 obj
  | some _, none => false          -- not a filter the property speaks about (excluded by `WFFilter`)

/-- the object is of one of the requested types: its type is the identifier of the first top-level key of the
message that names a data object type (`objType`, Record.lean) -/
def ofRequestedType (types : List Nat) (r : Record) : Bool :=
  (objType r.obj).any (fun t => decide (t ∈ types))

/-- is the record selected by the request? -/
def selected (types : List Nat) (f : Option Filter) (r : Record) : Bool :=
  ofRequestedType types r && (match f with | none => true | some f => matchesFilter f r.obj)

/-- the selection, in store order -/
def select (rows : List Record) (types : List Nat) (f : Option Filter) : List Record :=
  rows.filter (selected types f)

/-! ### ordering -/

/-- stable insertion of `a` into a list sorted by `le`: before the first element that is not smaller -/
def ordIns {α : Type} (le : α → α → Bool) (a : α) : List α → List α
  | [] => [a]
  | b :: l => if le a b then a :: b :: l else b :: ordIns le a l

/-- the stable sort by `le` (insertion sort; equal to `List.mergeSort`, see `stableSort_eq_mergeSort`) -/
def stableSort {α : Type} (le : α → α → Bool) : List α → List α
  | [] => []
  | a :: l => ordIns le a (stableSort le l)

/-- lexicographic "not greater" over integer keys, most significant first -/
def lexLe {α : Type} : List (α → Int) → α → α → Bool
  | [], _, _ => true
  | f :: fs, a, b => decide (f a < f b) || (f a == f b && lexLe fs a b)

/-- the effective key of an order attribute: descending = ascending on the negated value -/
def effKey (κ : OrderKey → Record → Int) (k : OrderKey) : Record → Int :=
  match k.dir with
  | .asc => κ k
  | .desc => fun r => - κ k r

/-- the answer to a request whose order attributes have integer values `κ` -/
def query (κ : OrderKey → Record → Int) (rows : List Record) (types : List Nat) (f : Option Filter)
    (order : Option (List OrderKey)) : List Record :=
  match order with
  | none => select rows types f
  | some ks => stableSort (lexLe (ks.map (effKey κ))) (select rows types f)

end FlexModel.Ldm.Spec

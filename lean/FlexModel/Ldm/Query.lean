/-
C13 specification of a data request, written from the property text:
  result = the stored objects of the requested types for which the filter is true — a statement is true of an
  object iff the attribute (a dotted path through the message's dictionaries) exists and the comparison holds; one
  or two statements joined by and/or — in store order, then stably sorted by the order attributes, each with its own
  direction.
The comparison operators themselves (`evalOp`: Python ==, !=, <, <=, >, >=, containment) are shared with the
implementation model; a comparison Python cannot evaluate (values of non-matching type) is not true.
-/
import FlexModel.Ldm.Filter

namespace FlexModel.Ldm.Spec
open FlexModel.Ldm

/-- the attribute value of a message, if the whole dotted path exists -/
def lookupPath : JVal → List String → Option JVal
  | v, [] => some v
  | .dict kvs, k :: ks =>
    match kvs.get? k with
    | some x => lookupPath x ks
    | none => none
  | _, _ :: _ => none

def opHolds (op : CmpOp) (v ref : JVal) : Bool :=
  match evalOp op v ref with
  | .ok b => b
  | .error _ => false

/-- a statement holds of a message; an object lacking the attribute simply does not match -/
def holds (s : Stmt) (obj : JVal) : Bool :=
  match lookupPath obj s.attr with
  | none => false
  | some v => opHolds s.op v s.ref

/-- a filter is well formed when two statements come with their joining operator -/
def WFFilter (f : Filter) : Prop := f.s2.isSome = true → f.lop.isSome = true

def matchesFilter (f : Filter) (obj : JVal) : Bool :=
  match f.s2, f.lop with
  | none, _ => holds f.s1 obj
  | some s2, some .and => holds f.s1 obj && holds s2 obj
  | some s2, some .or => holds f.s1 obj || holds s2 obj
  | some _, none => false          -- not a filter the property speaks about (excluded by `WFFilter`)

/-- is the record selected by the request? -/
def selected (types : List Nat) (f : Option Filter) (r : Record) : Bool :=
  typeSelected types r && (match f with | none => true | some f => matchesFilter f r.obj)

/-- the selection, in store order -/
def select (rows : List Record) (types : List Nat) (f : Option Filter) : List Record :=
  rows.filter (selected types f)

/-! ### ordering -/

/-- stable insertion of `a` into a list sorted by `le`: before the first element that is not smaller -/
def ordIns {α : Type} (le : α → α → Bool) (a : α) : List α → List α
  | [] => [a]
  | b :: l => if le a b then a :: b :: l else b :: ordIns le a l

/-- the stable sort by `le` (insertion sort; equal to `List.mergeSort`, see `stableSort_eq_mergeSort`) -/
def stableSort {α : Type} (le : α → α → Bool) : List α → List α
  | [] => []
  | a :: l => ordIns le a (stableSort le l)

/-- lexicographic "not greater" over integer keys, most significant first -/
def lexLe {α : Type} : List (α → Int) → α → α → Bool
  | [], _, _ => true
  | f :: fs, a, b => decide (f a < f b) || (f a == f b && lexLe fs a b)

/-- the effective key of an order attribute: descending = ascending on the negated value -/
def effKey (κ : OrderKey → Record → Int) (k : OrderKey) : Record → Int :=
  match k.dir with
  | .asc => κ k
  | .desc => fun r => - κ k r

/-- the answer to a request whose order attributes have integer values `κ` -/
def query (κ : OrderKey → Record → Int) (rows : List Record) (types : List Nat) (f : Option Filter)
    (order : Option (List OrderKey)) : List Record :=
  match order with
  | none => select rows types f
  | some ks => stableSort (lexLe (ks.map (effKey κ))) (select rows types f)

end FlexModel.Ldm.Spec

/-
LDM subscriptions (C14): IF.LDM.4 subscribe/unsubscribe, LDMService.attend_subscriptions /
process_notifications (repaired: a deregistered consumer is dropped BEFORE notifying), reactive attendance on
add (LDMServiceReactive: >= 0.5 s monotonic since the last attendance).  Extends the C12 machine.

Variant (known finding C14-KF1): `uniqueIds = false` is the code as it is, subscription id = hash(request), so
equal requests share one id and unsubscribing removes all of them.
Core Lean only.
-/
import FlexModel.Ldm.Store

namespace FlexModel.Ldm
open Generated.Ldm

structure SubReq where
  app : Nat
  types : List Nat
  prio : Option Int
  filterBad : Bool
  filter : Option Filter
  notify : Option Int          -- notify_time.timestamp_its (ms); none = None
  mult : Option Int
  orderBad : Bool              -- some OrderTupleValue carries an invalid direction
  order : Option (List OrderKey)
  deriving DecidableEq, Inhabited

structure Sub where
  req : SubReq
  cb : Nat                     -- identity of the callback object (unique per subscribe call)
  deriving DecidableEq, Inhabited

structure Call where
  cb : Nat
  app : Nat
  objs : List Record
  deriving DecidableEq, Inhabited

structure SSt where
  core : St
  subs : List Sub
  lastChecked : List (Sub × Int)
  lastAttend : Int
  deriving DecidableEq, Inhabited

def SSt.init (utcMs monoMs : Int) : SSt :=
  { core := St.init utcMs monoMs, subs := [], lastChecked := [], lastAttend := monoMs }

inductive SOp where
  | core (op : Op)
  | subscribe (r : SubReq) (cb : Nat)
  /-- `target` = (request, callback) of the subscribe call whose returned id is presented; none = an id never issued -/
  | unsubscribe (app : Nat) (target : Option (SubReq × Nat))
  | attend
  deriving Inhabited

structure SOut where
  out : Out
  calls : List Call
  deriving Inhabited

def maxNotify : Int := 4398046511103

/-- `validate_subscribe_data_consumer`: the refusal code, in ladder order -/
def subscribeRefusal (consumers : List Nat) (r : SubReq) : Option Nat :=
  if !consumers.contains r.app then some 1
  else if r.types.any (fun t => !validType t) then some 2
  else if (match r.prio with | some p => p < 0 || p > 255 | none => false) then some 3
  else if r.order.isSome && r.orderBad then some 7
  else if r.filterBad then some 4
  else if (match r.notify with | some n => n < 0 || n > maxNotify | none => false) then some 5
  else if (match r.mult with | some m => m < 0 || m > 255 | none => false) then some 6
  else none

def lcGet (lc : List (Sub × Int)) (s : Sub) : Option Int := (lc.find? (fun p => p.1 == s)).map (·.2)
def lcSet (lc : List (Sub × Int)) (s : Sub) (t : Int) : List (Sub × Int) :=
  if lc.any (fun p => p.1 == s) then lc.map (fun p => if p.1 == s then (s, t) else p) else lc ++ [(s, t)]
def lcPop (lc : List (Sub × Int)) (s : Sub) : List (Sub × Int) := lc.filter (fun p => p.1 != s)

/-- `remove_subscription` -/
def removeSub (s : SSt) (x : Sub) : SSt :=
  { s with subs := s.subs.erase x, lastChecked := lcPop s.lastChecked x }

/-- what one subscription is notified with at an attendance, if at all (`none` = skipped);
the search is `DictionaryDataBase.search`, the order `order_search_results` -/
def subMatches (rows : List Record) (r : SubReq) : Except Err (Option (List Record)) :=
  let found := dictSearch rows r.types r.filter
  if found.isEmpty then pure none
  else if (match r.mult with | some m => decide (m > (found.length : Int)) | none => false) then pure none
  else match r.order with
    | none => pure (some found)
    | some ks => do
      let o ← orderResults found ks
      pure (some o)

/-- the body of the loop in `attend_subscriptions` for one subscription -/
def attendOne (s : SSt) (x : Sub) : Except Err (SSt × List Call × Bool) :=
  if !s.core.consumers.contains x.req.app then pure (s, [], true)
  else do
    match ← subMatches (s.core.db.rows.map (·.2)) x.req with
    | none => pure (s, [], false)
    | some objs =>
      let now := nowIts s.core.utcMs
      let (lc, last) := match lcGet s.lastChecked x with
        | some t => (s.lastChecked, t)
        | none => (lcSet s.lastChecked x now, now)
      if (match x.req.notify with | some n => decide (last + n > now) | none => false) then
        pure ({ s with lastChecked := lc }, [], false)
      else
        pure ({ s with lastChecked := lcSet lc x now }, [{ cb := x.cb, app := x.req.app, objs := objs }], false)

/-- the loop over the snapshot; an exception stops it (the removals are then not carried out) -/
def attendLoop : SSt → List Sub → List Call → List Sub → SSt × List Call × Option Err
  | s, [], calls, rm => (rm.foldl removeSub s, calls, none)
  | s, x :: xs, calls, rm =>
    match attendOne s x with
    | .error e => (s, calls, some e)
    | .ok (s1, cs, drop) => attendLoop s1 xs (calls ++ cs) (if drop then rm ++ [x] else rm)

def attend (s : SSt) : SSt × List Call × Option Err := attendLoop s s.subs [] []

def sstep (cfg : Cfg) (uniqueIds : Bool) (s : SSt) : SOp → SSt × SOut
  | .core (.add app ts loc obj validity) =>
    let (c1, o) := step cfg s.core (.add app ts loc obj validity)
    let s1 := { s with core := c1 }
    if !s.core.providers.contains app then (s1, { out := o, calls := [] })
    else if s.core.monoMs - s.lastAttend ≥ attendIntervalMs then
      match attend s1 with
      | (s2, calls, none) => ({ s2 with lastAttend := s.core.monoMs }, { out := o, calls := calls })
      | (s2, calls, some e) => (s2, { out := .exc e, calls := calls })
    else (s1, { out := o, calls := [] })
  | .core (.deregConsumer app) =>
    -- `del_data_consumer_its_aid` also drops the subscriptions of the application
    let (c1, o) := step cfg s.core (.deregConsumer app)
    let s1 := { s with core := c1 }
    (if s.core.consumers.contains app then (s.subs.filter (fun x => x.req.app == app)).foldl removeSub s1 else s1,
     { out := o, calls := [] })
  | .core op =>
    let (c1, o) := step cfg s.core op
    ({ s with core := c1 }, { out := o, calls := [] })
  | .subscribe r cb =>
    match subscribeRefusal s.core.consumers r with
    | some c => (s, { out := .code c, calls := [] })
    | none =>
      let x : Sub := { req := r, cb := cb }
      ({ s with subs := s.subs ++ [x], lastChecked := lcSet s.lastChecked x (nowIts s.core.utcMs) }, { out := .code 0, calls := [] })
  | .unsubscribe app target =>
    if !s.core.consumers.contains app then (s, { out := .code 1, calls := [] })
    else match target with
      | none => (s, { out := .code 1, calls := [] })
      | some (r, cb) =>
        let hit (x : Sub) : Bool := if uniqueIds then x.cb == cb && x.req == r else x.req == r
        let victims := s.subs.filter hit
        if victims.isEmpty then (s, { out := .code 1, calls := [] })
        else (victims.foldl removeSub s, { out := .code 0, calls := [] })
  | .attend =>
    match attend s with
    | (s1, calls, none) => (s1, { out := .none, calls := calls })
    | (s1, calls, some e) => (s1, { out := .exc e, calls := calls })

def srun (cfg : Cfg) (uniqueIds : Bool) : SSt → List SOp → SSt × List SOut
  | s, [] => (s, [])
  | s, op :: ops =>
    let (s1, o) := sstep cfg uniqueIds s op
    let (s2, os) := srun cfg uniqueIds s1 ops
    (s2, o :: os)

end FlexModel.Ldm

/-
LDM subscriptions (C14): IF.LDM.4 subscribe/unsubscribe, LDMService.attend_subscriptions /
process_notifications (repaired: a deregistered consumer is dropped BEFORE notifying; an exception while attending
one subscription does not stop the attendance; a subscription removed during the attendance — by a callback that
re-enters IF.LDM.4 — is not notified any more), reactive attendance on add (LDMServiceReactive: >= 0.5 s monotonic
since the last attendance).  Callbacks may raise or re-enter (unsubscribe / deregister): `CbAct`.
Extends the C12 machine.

Variant (known finding C14-KF1): `uniqueIds = false` is the code as it is, subscription id = hash(request), so
equal requests share one id and unsubscribing removes all of them.
Core Lean only.
-/
import FlexModel.Ldm.Store
import Generated.LdmSubs

namespace FlexModel.Ldm
open Generated.Ldm

structure SubReq where
  app : Nat
  types : List Nat
  prio : Option Int
  filterBad : Bool
  filter : Option Filter
  notify : Option Int          -- notify_time.timestamp_its (ms); none = None
  mult : Option Int
  orderBad : Bool              -- some OrderTupleValue carries an invalid direction
  order : Option (List OrderKey)
  deriving DecidableEq, Inhabited

structure Sub where
  req : SubReq
  cb : Nat                     -- identity of the callback object (unique per subscribe call)
  deriving DecidableEq, Inhabited

structure Call where
  cb : Nat
  app : Nat
  objs : List Record
  deriving DecidableEq, Inhabited

structure SSt where
  core : St
  subs : List Sub
  lastChecked : List (Sub × Int)
  lastAttend : Int
  deriving DecidableEq, Inhabited

def SSt.init (utcMs monoMs : Int) : SSt :=
  { core := St.init utcMs monoMs, subs := [], lastChecked := [], lastAttend := monoMs }

inductive SOp where
  | core (op : Op)
  | subscribe (r : SubReq) (cb : Nat)
  /-- `target` = (request, callback) of the subscribe call whose returned id is presented; none = an id never issued -/
  | unsubscribe (app : Nat) (target : Option (SubReq × Nat))
  | attend
  deriving Inhabited

structure SOut where
  out : Out
  calls : List Call
  deriving Inhabited

/-- `is_valid_priority` / `is_valid_notify_time` / `is_valid_multiplicity`: None, or inside the accepted interval
(the intervals are probed on the real methods: Generated/LdmSubs.lean) -/
def inRange (rg : Int × Int) : Option Int → Bool
  | some v => decide (rg.1 ≤ v) && decide (v ≤ rg.2)
  | none => true

/-- the validator methods of IF.LDM.4, by name; a validator the model does not know refuses everything (the
correspondence with the code then fails on the first valid request) -/
def validatorOk (consumers : List Nat) (r : SubReq) (name : String) : Bool :=
  if name = "is_valid_its_aid" then consumers.contains r.app
  else if name = "is_valid_data_object_type" then r.types.all validType
  else if name = "is_valid_priority" then inRange Generated.LdmSubs.prioRange r.prio
  else if name = "is_valid_order" then !(r.order.isSome && r.orderBad)
  else if name = "is_valid_filter" then !r.filterBad
  else if name = "is_valid_notify_time" then inRange Generated.LdmSubs.notifyRange r.notify
  else if name = "is_valid_multiplicity" then inRange Generated.LdmSubs.multRange r.mult
  else false

/-- `validate_subscribe_data_consumer`: the checks in SOURCE ORDER with the result code each returns
(`Generated.LdmSubs.subscribeLadder`, an ast pass over if_ldm_4.py); the first failing check decides -/
def subscribeRefusal (consumers : List Nat) (r : SubReq) : Option Nat :=
  (Generated.LdmSubs.subscribeLadder.find? (fun p => !validatorOk consumers r p.1)).map (·.2)

def lcGet (lc : List (Sub × Int)) (s : Sub) : Option Int := (lc.find? (fun p => p.1 == s)).map (·.2)
def lcSet (lc : List (Sub × Int)) (s : Sub) (t : Int) : List (Sub × Int) :=
  if lc.any (fun p => p.1 == s) then lc.map (fun p => if p.1 == s then (s, t) else p) else lc ++ [(s, t)]
def lcPop (lc : List (Sub × Int)) (s : Sub) : List (Sub × Int) := lc.filter (fun p => p.1 != s)

/-- `remove_subscription` -/
def removeSub (s : SSt) (x : Sub) : SSt :=
  { s with subs := s.subs.erase x, lastChecked := lcPop s.lastChecked x }

/-- what one subscription is notified with at an attendance, if at all (`none` = skipped);
the search is `DictionaryDataBase.search`, the order `order_search_results` -/
def subMatches (rows : List Record) (r : SubReq) : Except Err (Option (List Record)) :=
  let found := dictSearch rows r.types r.filter
  if found.isEmpty then pure none
  else if (match r.mult with | some m => decide (m > (found.length : Int)) | none => false) then pure none
  else match r.order with
    | none => pure (some found)
    | some ks => do
      let o ← orderResults found ks
      pure (some o)

/-- what a consumer's callback does when it is invoked, besides receiving the data: nothing, raise an exception, or
re-enter IF.LDM.4 — unsubscribe (`target` as in `SOp.unsubscribe`) or deregister a consumer.  (A callback that adds
data or subscribes is outside the model.) -/
inductive CbAct where
  | none
  | raises
  | unsub (app : Nat) (target : Option (SubReq × Nat))
  | dereg (app : Nat)
  deriving DecidableEq, Inhabited

/-- IF.LDM.4 `unsubscribe_data_consumer` / `delete_subscription`: new state and result code -/
def doUnsub (uniqueIds : Bool) (s : SSt) (app : Nat) (target : Option (SubReq × Nat)) : SSt × Nat :=
  if !s.core.consumers.contains app then (s, 1)
  else match target with
    | none => (s, 1)
    | some (r, cb) =>
      let hit (x : Sub) : Bool := if uniqueIds then x.cb == cb && x.req == r else x.req == r
      let victims := s.subs.filter hit
      if victims.isEmpty then (s, 1)
      else (victims.foldl removeSub s, 0)

/-- IF.LDM.4 `deregister_data_consumer` (`del_data_consumer_its_aid` also drops the subscriptions of the application) -/
def doDereg (cfg : Cfg) (s : SSt) (app : Nat) : SSt × Out :=
  let (c1, o) := step cfg s.core (.deregConsumer app)
  let s1 := { s with core := c1 }
  (if s.core.consumers.contains app then (s.subs.filter (fun x => x.req.app == app)).foldl removeSub s1 else s1, o)

/-- the effect of a callback's action on the LDM (an exception raised by a callback is caught by the attendance) -/
def applyAct (cfg : Cfg) (uniqueIds : Bool) (s : SSt) : CbAct → SSt
  | .none => s
  | .raises => s
  | .unsub app target => (doUnsub uniqueIds s app target).1
  | .dereg app => (doDereg cfg s app).1

/-- the body of the loop in `attend_subscriptions` for one subscription (`attend_subscription` + the deregistration
test before it): search, multiplicity, order (may raise), then — repaired code, fixes/C14-removed-subscription-not-
notified — a subscription removed since the snapshot was taken is skipped, then `process_notifications` -/
def attendOne (s : SSt) (x : Sub) : Except Err (SSt × List Call × Bool) :=
  if !s.core.consumers.contains x.req.app then pure (s, [], true)
  else do
    match ← subMatches (s.core.db.rows.map (·.2)) x.req with
    | none => pure (s, [], false)
    | some objs =>
      if !s.subs.contains x then pure (s, [], false)
      else
      let now := nowIts s.core.utcMs
      let (lc, last) := match lcGet s.lastChecked x with
        | some t => (s.lastChecked, t)
        | none => (lcSet s.lastChecked x now, now)
      if (match x.req.notify with | some n => decide (last + n > now) | none => false) then
        pure ({ s with lastChecked := lc }, [], false)
      else
        pure ({ s with lastChecked := lcSet lc x now }, [{ cb := x.cb, app := x.req.app, objs := objs }], false)

/-- the loop over the snapshot (repaired code, fixes/C14-attendance-isolation): an exception while attending one
subscription (ordering TypeError, raising callback) is caught and the loop goes on; every callback's action takes
effect before the next subscription of the snapshot is attended; the removals come last -/
def attendLoop (cfg : Cfg) (u : Bool) (β : Nat → CbAct) : SSt → List Sub → List Call → List Sub → SSt × List Call
  | s, [], calls, rm => (rm.foldl removeSub s, calls)
  | s, x :: xs, calls, rm =>
    match attendOne s x with
    | .error _ => attendLoop cfg u β s xs calls rm
    | .ok (s1, cs, drop) =>
      attendLoop cfg u β (cs.foldl (fun st c => applyAct cfg u st (β c.cb)) s1) xs (calls ++ cs) (if drop then rm ++ [x] else rm)

def attend (cfg : Cfg) (u : Bool) (β : Nat → CbAct) (s : SSt) : SSt × List Call := attendLoop cfg u β s s.subs [] []

/-- the code before fixes/C14-attendance-isolation: the first exception stops the loop (later subscriptions are not
attended, the removals are not carried out) and escapes to the caller -/
def attendLoopOld : SSt → List Sub → List Call → List Sub → SSt × List Call × Option Err
  | s, [], calls, rm => (rm.foldl removeSub s, calls, none)
  | s, x :: xs, calls, rm =>
    match attendOne s x with
    | .error e => (s, calls, some e)
    | .ok (s1, cs, drop) => attendLoopOld s1 xs (calls ++ cs) (if drop then rm ++ [x] else rm)

def sstep (cfg : Cfg) (uniqueIds : Bool) (β : Nat → CbAct) (s : SSt) : SOp → SSt × SOut
  | .core (.add app ts loc obj validity) =>
    let (c1, o) := step cfg s.core (.add app ts loc obj validity)
    let s1 := { s with core := c1 }
    if !s.core.providers.contains app then (s1, { out := o, calls := [] })
    else if s.core.monoMs - s.lastAttend ≥ attendIntervalMs then
      let (s2, calls) := attend cfg uniqueIds β s1
      ({ s2 with lastAttend := s.core.monoMs }, { out := o, calls := calls })
    else (s1, { out := o, calls := [] })
  | .core (.deregConsumer app) =>
    let (s1, o) := doDereg cfg s app
    (s1, { out := o, calls := [] })
  | .core op =>
    let (c1, o) := step cfg s.core op
    ({ s with core := c1 }, { out := o, calls := [] })
  | .subscribe r cb =>
    match subscribeRefusal s.core.consumers r with
    | some c => (s, { out := .code c, calls := [] })
    | none =>
      let x : Sub := { req := r, cb := cb }
      ({ s with subs := s.subs ++ [x], lastChecked := lcSet s.lastChecked x (nowIts s.core.utcMs) }, { out := .code 0, calls := [] })
  | .unsubscribe app target =>
    let (s1, c) := doUnsub uniqueIds s app target
    (s1, { out := .code c, calls := [] })
  | .attend =>
    let (s1, calls) := attend cfg uniqueIds β s
    (s1, { out := .none, calls := calls })

def srun (cfg : Cfg) (uniqueIds : Bool) (β : Nat → CbAct) : SSt → List SOp → SSt × List SOut
  | s, [] => (s, [])
  | s, op :: ops =>
    let (s1, o) := sstep cfg uniqueIds β s op
    let (s2, os) := srun cfg uniqueIds β s1 ops
    (s2, o :: os)

end FlexModel.Ldm

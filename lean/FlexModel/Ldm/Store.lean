/-
The LDM as a state machine (C12): IF.LDM.3 / IF.LDM.4 -> LDMServiceReactive -> LDMMaintenanceReactive ->
DictionaryDataBase, as the (repaired) code does it: ids from a counter, rows in insertion order, registries,
result codes, reactive trash collection on add (>= 1 s monotonic since the last one), time-validity expiry,
area-of-maintenance collection (raw 1e-7 degree integers), `remove(data_object)` by equality of the stored value.

Variants (known findings, see known_findings.d/C12.json):
  `areaFixed = false`  the area test as written (`within and (dAlt ^ 2 < 15)`, `^` = XOR, deletes NEAR objects)
  `gated = false`      update/delete do not check the provider registration
Core Lean only.
-/
import FlexModel.Ldm.Filter

namespace FlexModel.Ldm
open Generated.Ldm

/-- the LDM's own location / area of maintenance -/
structure Area where
  lat : Int
  lon : Int
  alt : Int
  relDist : Nat
  deriving DecidableEq, Inhabited

structure Cfg where
  area : Area
  areaFixed : Bool
  gated : Bool
  deriving DecidableEq, Inhabited

structure Db where
  next : Nat
  rows : List (Nat × Record)
  deriving DecidableEq, Inhabited

structure St where
  db : Db
  providers : List Nat
  consumers : List Nat
  utcMs : Int
  monoMs : Int
  lastGc : Int
  deriving DecidableEq, Inhabited

def St.init (utcMs monoMs : Int) : St :=
  { db := { next := 0, rows := [] }, providers := [], consumers := [], utcMs := utcMs, monoMs := monoMs, lastGc := monoMs }

inductive Op where
  | regProvider (app : Nat) (perms : List Nat)
  | deregProvider (app : Nat)
  | regConsumer (app : Nat) (perms : List Nat)
  | deregConsumer (app : Nat)
  | add (app : Nat) (ts : Int) (loc : Loc) (obj : JVal) (validity : Int)
  | update (app : Nat) (id : Nat) (obj : JVal)
  | delete (app : Nat) (id : Nat)
  | request (q : Request)
  | maintain
  | advance (ms : Nat)
  deriving Inhabited

inductive Out where
  | code (n : Int)            -- result enum value / data object id (-1 = refused add)
  | req (r : ReqOut)
  | exc (e : Err)
  | none
  deriving Inhabited

/-! ## time -/

/-- `TimestampIts.initialize_with_utc_timestamp_seconds(int(TimeService.time()))` -/
def nowIts (utcMs : Int) : Int := (utcMs / 1000 - itsEpoch + elapsedSeconds) * 1000

/-- `TimestampIts(timeValidity*1000 + timestamp) < now` -/
def expired (now : Int) (r : Record) : Bool := r.validity * 1000 + r.timestamp < now

/-! ## database -/

def lookup (id : Nat) : List (Nat × Record) → Option Record
  | [] => none
  | (i, r) :: t => if i = id then some r else lookup id t

/-- `DictionaryDataBase.remove(data_object)`: deletes the first entry whose value equals the argument -/
def removeEq : List (Nat × Record) → Record → List (Nat × Record)
  | [], _ => []
  | (i, r) :: t, c => if r = c then t else (i, r) :: removeEq t c

/-- `remove_by_id` -/
def removeId : List (Nat × Record) → Nat → List (Nat × Record)
  | [], _ => []
  | (i, r) :: t, id => if i = id then t else (i, r) :: removeId t id

/-- `database[index] = data` for an existing index (position kept) -/
def replaceId : List (Nat × Record) → Nat → Record → List (Nat × Record)
  | [], _, _ => []
  | (i, r) :: t, id, x => if i = id then (i, x) :: t else (i, r) :: replaceId t id x

/-! ## maintenance -/

/-- `check_and_delete_time_validity`: loop over a snapshot, `del_provider_data(container)` for the expired ones -/
def gcTime (now : Int) (rows : List (Nat × Record)) : List (Nat × Record) :=
  (rows.map (·.2)).foldl (fun acc c => if expired now c then removeEq acc c else acc) rows

/-- `RelevanceDistance.compare_with_int(int(sqrt n))` on the squared distance `n` -/
def within (relDist : Nat) (n : Nat) : Bool :=
  match relLess.find? (fun p => p.1 == relDist) with
  | some p => n < p.2 * p.2
  | none =>
    match relGreater.find? (fun p => p.1 == relDist) with
    | some p => n ≥ (p.2 + 1) * (p.2 + 1)
    | none => false

/-- Python `x ^ 2` on integers (two's complement for negatives) -/
def xor2 (x : Int) : Int :=
  if x ≥ 0 then ((x.toNat ^^^ 2 : Nat) : Int) else -(((((-x) - 1).toNat ^^^ 2 : Nat)) : Int) - 1

def sqDist (a : Area) (l : Loc) : Nat := ((l.lat - a.lat) * (l.lat - a.lat) + (l.lon - a.lon) * (l.lon - a.lon)).toNat

/-- does `check_and_delete_area_of_maintenance` delete an object stored with location `l`? -/
def areaDeletes (fixed : Bool) (a : Area) (l : Loc) : Bool :=
  if fixed then !(within a.relDist (sqDist a l) && decide ((l.alt - a.alt) * (l.alt - a.alt) < maxAltDiff))
  else within a.relDist (sqDist a l) && decide (xor2 (l.alt - a.alt) < maxAltDiff)

def gcArea (cfg : Cfg) (rows : List (Nat × Record)) : List (Nat × Record) :=
  (rows.map (·.2)).foldl (fun acc c => if areaDeletes cfg.areaFixed cfg.area c.loc then removeEq acc c else acc) rows

/-- `collect_trash` -/
def collectTrash (cfg : Cfg) (now : Int) (rows : List (Nat × Record)) : List (Nat × Record) :=
  gcArea cfg (gcTime now rows)

/-! ## registries (Python sets, kept as duplicate-free lists) -/

def setAdd (s : List Nat) (x : Nat) : List Nat := if s.contains x then s else s ++ [x]
def setDiscard (s : List Nat) (x : Nat) : List Nat := s.filter (fun y => y != x)

/-- IF.LDM.3 `check_its_aid` and `check_permissions` -/
def providerOk (app : Nat) (perms : List Nat) : Bool :=
  validItsAid.contains app && !perms.isEmpty && (app == denm || perms.contains app)

/-- IF.LDM.4 `check_its_aid` and `check_permissions` -/
def consumerOk (app : Nat) (perms : List Nat) : Bool :=
  validItsAid.contains app && !perms.isEmpty && (perms.contains app || app == denm || app == spatem || app == mapem)

/-! ## the machine -/

def step (cfg : Cfg) (s : St) : Op → St × Out
  | .regProvider app perms =>
    if providerOk app perms then ({ s with providers := setAdd s.providers app }, .code 0) else (s, .code 1)
  | .deregProvider app =>
    if s.providers.contains app then ({ s with providers := setDiscard s.providers app }, .code 0) else (s, .code 1)
  | .regConsumer app perms =>
    if consumerOk app perms then ({ s with consumers := setAdd s.consumers app }, .code 0) else (s, .code 2)
  | .deregConsumer app =>
    if s.consumers.contains app then ({ s with consumers := setDiscard s.consumers app }, .code 0) else (s, .code 1)
  | .add app ts loc obj validity =>
    if !s.providers.contains app then (s, .code (-1))
    else
      let id := s.db.next
      let r : Record := { appId := app, timestamp := ts, loc := loc, obj := obj, validity := validity }
      let rows1 := s.db.rows ++ [(id, r)]
      if s.monoMs - s.lastGc ≥ trashIntervalMs then
        ({ s with db := { next := id + 1, rows := collectTrash cfg (nowIts s.utcMs) rows1 }, lastGc := s.monoMs }, .code id)
      else
        ({ s with db := { next := id + 1, rows := rows1 } }, .code id)
  | .update app id obj =>
    if cfg.gated && !s.providers.contains app then (s, .code 1)
    else match lookup id s.db.rows with
      | none => (s, .code 1)
      | some r =>
        if objTypeName r.obj = objTypeName obj then
          ({ s with db := { s.db with rows := replaceId s.db.rows id { r with obj := obj } } }, .code 0)
        else (s, .code 2)
  | .delete app id =>
    if cfg.gated && !s.providers.contains app then (s, .code 1)
    else match lookup id s.db.rows with
      | none => (s, .code 1)
      | some _ => ({ s with db := { s.db with rows := removeId s.db.rows id } }, .code 0)
  | .request q => (s, .req (if4Request s.consumers (s.db.rows.map (·.2)) q))
  | .maintain => ({ s with db := { s.db with rows := collectTrash cfg (nowIts s.utcMs) s.db.rows } }, .none)
  | .advance ms => ({ s with utcMs := s.utcMs + ms, monoMs := s.monoMs + ms }, .none)

/-- run a history, collecting the outputs -/
def run (cfg : Cfg) : St → List Op → St × List Out
  | s, [] => (s, [])
  | s, op :: ops =>
    let (s1, o) := step cfg s op
    let (s2, os) := run cfg s1 ops
    (s2, o :: os)

end FlexModel.Ldm

/-
Helper lemmas for Props/C12.lean: the collection loops are filters, `lookup` through every database operation,
the refinement relation between the implementation machine (Store.lean) and the reference map (Spec.lean).
-/
import FlexModel.Ldm.Spec
namespace FlexModel.Ldm
open Generated.Ldm

abbrev Rows := List (Nat × Record)
def ids (rows : Rows) : List Nat := rows.map (·.1)

/-- identifiers strictly increasing and below `n` -/
def IdsOk (n : Nat) (rows : Rows) : Prop := (ids rows).Pairwise (· < ·) ∧ ∀ i ∈ ids rows, i < n

theorem removeEq_append_of_ne (kept l : Rows) (c : Record) (h : ∀ p ∈ kept, p.2 ≠ c) :
    removeEq (kept ++ l) c = kept ++ removeEq l c := by
  induction kept with
  | nil => rfl
  | cons p t ih =>
    obtain ⟨i, r⟩ := p
    have hr : r ≠ c := h (i, r) (by simp)
    simp only [List.cons_append, removeEq, hr, if_false]
    rw [ih (fun q hq => h q (by simp [hq]))]

/-- the collection loop (snapshot, remove-by-value of every condemned container) is a filter -/
theorem sweep_eq_filter (P : Record → Bool) (kept rest : Rows) (hk : ∀ p ∈ kept, P p.2 = false) :
    (rest.map (·.2)).foldl (fun acc c => if P c then removeEq acc c else acc) (kept ++ rest)
      = kept ++ rest.filter (fun p => !P p.2) := by
  induction rest generalizing kept with
  | nil => simp
  | cons p t ih =>
    obtain ⟨i, r⟩ := p
    simp only [List.map_cons, List.foldl_cons]
    by_cases hp : P r = true
    · have hne : ∀ q ∈ kept, q.2 ≠ r := by
        intro q hq heq
        have := hk q hq
        rw [heq, hp] at this
        exact Bool.noConfusion this
      simp only [hp, if_true]
      rw [removeEq_append_of_ne kept _ r hne]
      simp only [removeEq, if_true]
      rw [ih kept hk]
      simp [List.filter, hp]
    · have hp' : P r = false := by simpa using hp
      simp only [hp', Bool.false_eq_true, if_false]
      have : kept ++ (i, r) :: t = (kept ++ [(i, r)]) ++ t := by simp
      rw [this, ih (kept ++ [(i, r)])]
      · simp [List.filter, hp']
      · intro q hq
        rcases List.mem_append.mp hq with h | h
        · exact hk q h
        · simp at h; rw [h]; exact hp'

theorem gcTime_eq (now : Int) (rows : Rows) : gcTime now rows = rows.filter (fun p => !expired now p.2) := by
  have := sweep_eq_filter (expired now) [] rows (by simp)
  simpa [gcTime] using this

theorem gcArea_eq (cfg : Cfg) (rows : Rows) :
    gcArea cfg rows = rows.filter (fun p => !areaDeletes cfg.areaFixed cfg.area p.2.loc) := by
  have := sweep_eq_filter (fun c => areaDeletes cfg.areaFixed cfg.area c.loc) [] rows (by simp)
  simpa [gcArea] using this

theorem lookup_none_of_not_mem (rows : Rows) (i : Nat) (h : i ∉ ids rows) : lookup i rows = none := by
  induction rows with
  | nil => rfl
  | cons p t ih =>
    obtain ⟨j, r⟩ := p
    simp only [ids, List.map_cons, List.mem_cons, not_or] at h
    simp only [lookup]
    rw [if_neg (fun e => h.1 e.symm)]
    exact ih h.2

theorem lookup_some_mem (rows : Rows) (i : Nat) (r : Record) (h : lookup i rows = some r) : (i, r) ∈ rows := by
  induction rows with
  | nil => simp [lookup] at h
  | cons p t ih =>
    obtain ⟨j, x⟩ := p
    simp only [lookup] at h
    split at h
    · next e => simp at h; subst e; subst h; simp
    · exact List.mem_cons_of_mem _ (ih h)

theorem lookup_append_new (rows : Rows) (n : Nat) (r : Record) (j : Nat) (h : n ∉ ids rows) :
    lookup j (rows ++ [(n, r)]) = if j = n then some r else lookup j rows := by
  induction rows with
  | nil =>
    simp only [List.nil_append, lookup]
    by_cases e : n = j
    · subst e; simp
    · have : ¬ j = n := fun e' => e e'.symm
      simp [e, this]
  | cons p t ih =>
    obtain ⟨k, x⟩ := p
    simp only [ids, List.map_cons, List.mem_cons, not_or] at h
    simp only [List.cons_append, lookup]
    by_cases hk : k = j
    · subst hk
      have : ¬ k = n := fun e => h.1 e.symm
      simp [this]
    · simp only [hk, if_false]; exact ih h.2

theorem lookup_filter (Q : Nat × Record → Bool) (rows : Rows) (h : (ids rows).Pairwise (· < ·)) (i : Nat) :
    lookup i (rows.filter Q) = match lookup i rows with
      | some r => if Q (i, r) then some r else none
      | none => none := by
  induction rows with
  | nil => rfl
  | cons p t ih =>
    obtain ⟨j, x⟩ := p
    simp only [ids, List.map_cons, List.pairwise_cons] at h
    by_cases hj : j = i
    · subst hj
      simp only [lookup, if_true]
      by_cases hq : Q (j, x) = true
      · simp [List.filter, hq, lookup]
      · have hq' : Q (j, x) = false := by simpa using hq
        simp only [List.filter, hq', Bool.false_eq_true, if_false]
        apply lookup_none_of_not_mem
        intro hm
        have : j ∈ ids t := by
          simp only [ids, List.mem_map] at hm ⊢
          obtain ⟨q, hq1, hq2⟩ := hm
          exact ⟨q, (List.mem_filter.mp hq1).1, hq2⟩
        exact Nat.lt_irrefl _ (h.1 j this)
    · simp only [lookup, hj, if_false]
      by_cases hq : Q (j, x) = true
      · simp only [List.filter, hq, lookup, hj, if_false]; exact ih h.2
      · have hq' : Q (j, x) = false := by simpa using hq
        simp only [List.filter, hq']; exact ih h.2

theorem lookup_replaceId (rows : Rows) (i : Nat) (x : Record) (j : Nat) :
    lookup j (replaceId rows i x) = if j = i then (lookup i rows).map (fun _ => x) else lookup j rows := by
  induction rows with
  | nil => simp [replaceId, lookup]
  | cons p t ih =>
    obtain ⟨k, y⟩ := p
    simp only [replaceId]
    by_cases hk : k = i
    · subst hk
      simp only [if_true, lookup]
      by_cases hj : k = j
      · subst hj; simp
      · have : ¬ j = k := fun e => hj e.symm
        simp [hj, this]
    · simp only [hk, if_false, lookup]
      by_cases hj : k = j
      · subst hj; simp [hk]
      · simp only [hj, if_false]; exact ih

theorem ids_replaceId (rows : Rows) (i : Nat) (x : Record) : ids (replaceId rows i x) = ids rows := by
  induction rows with
  | nil => rfl
  | cons p t ih =>
    obtain ⟨k, y⟩ := p
    simp only [replaceId]
    split
    · simp [ids]
    · simp only [ids, List.map_cons] at ih ⊢; rw [ih]

theorem removeId_eq_filter (rows : Rows) (i : Nat) (h : (ids rows).Pairwise (· < ·)) :
    removeId rows i = rows.filter (fun p => p.1 != i) := by
  induction rows with
  | nil => rfl
  | cons p t ih =>
    obtain ⟨k, y⟩ := p
    simp only [ids, List.map_cons, List.pairwise_cons] at h
    simp only [removeId]
    by_cases hk : k = i
    · subst hk
      simp only [if_true, List.filter, bne_self_eq_false]
      symm
      apply List.filter_eq_self.mpr
      intro q hq
      have : k < q.1 := h.1 q.1 (by simp only [ids, List.mem_map]; exact ⟨q, hq, rfl⟩)
      simp; omega
    · simp only [hk, if_false, List.filter]
      have : ((k, y).1 != i) = true := by simp [hk]
      simp only [this]; rw [ih h.2]

theorem filterMap_congr' {α β : Type} {f g : α → Option β} : ∀ {l : List α}, (∀ x ∈ l, f x = g x) →
    l.filterMap f = l.filterMap g
  | [], _ => rfl
  | a :: t, h => by
    simp only [List.filterMap_cons]
    rw [h a (by simp), filterMap_congr' (fun x hx => h x (by simp [hx]))]

theorem filterMap_lookup_range' (len : Nat) : ∀ (rows : Rows) (lo : Nat),
    (ids rows).Pairwise (· < ·) → (∀ i ∈ ids rows, lo ≤ i ∧ i < lo + len) →
    (List.range' lo len).filterMap (fun i => lookup i rows) = rows.map (·.2) := by
  induction len with
  | zero =>
    intro rows lo _ hb
    cases rows with
    | nil => rfl
    | cons p t => have := hb p.1 (by simp [ids]); omega
  | succ len ih =>
    intro rows lo hp hb
    rw [List.range'_succ]
    cases rows with
    | nil =>
      rw [List.filterMap_cons]
      simp only [lookup, List.map_nil]
      exact ih [] (lo + 1) (by simp [ids]) (by simp [ids])
    | cons p t =>
      obtain ⟨k, r⟩ := p
      have hk := hb k (by simp [ids])
      simp only [ids, List.map_cons, List.pairwise_cons] at hp
      by_cases e : k = lo
      · subst e
        have h0 : lookup k ((k, r) :: t) = some r := by simp [lookup]
        have hcongr : (List.range' (k + 1) len).filterMap (fun i => lookup i ((k, r) :: t))
            = (List.range' (k + 1) len).filterMap (fun i => lookup i t) := by
          apply filterMap_congr'
          intro i hi
          have : k + 1 ≤ i := (List.mem_range'_1.mp hi).1
          simp only [lookup]
          rw [if_neg (by omega)]
        rw [List.filterMap_cons, h0, hcongr]
        simp only [List.map_cons]
        congr 1
        apply ih t (k + 1) hp.2
        intro i hi
        have h1 := hp.1 i hi
        have h2 := hb i (by simp only [ids, List.map_cons, List.mem_cons]; exact Or.inr hi)
        omega
      · have hlo : lookup lo ((k, r) :: t) = none := by
          apply lookup_none_of_not_mem
          intro hm
          have := hb lo hm
          simp only [ids, List.map_cons, List.mem_cons] at hm
          rcases hm with h | h
          · omega
          · have := hp.1 lo h; omega
        rw [List.filterMap_cons, hlo]
        apply ih ((k, r) :: t) (lo + 1)
        · simp only [ids, List.map_cons, List.pairwise_cons]; exact hp
        · intro i hi
          have h2 := hb i hi
          simp only [ids, List.map_cons, List.mem_cons] at hi
          rcases hi with h | h
          · omega
          · have := hp.1 i h; omega

theorem filterMap_lookup_range (n : Nat) (rows : Rows) (h : IdsOk n rows) :
    (List.range n).filterMap (fun i => lookup i rows) = rows.map (·.2) := by
  rw [List.range_eq_range']
  apply filterMap_lookup_range' n rows 0 h.1
  intro i hi
  have := h.2 i hi
  omega

theorem contains_setAdd (s : List Nat) (x a : Nat) : (setAdd s x).contains a = (s.contains a || a == x) := by
  unfold setAdd
  by_cases h : s.contains x = true
  · simp only [h, if_true]
    by_cases e : a = x
    · subst e; simp [List.contains_eq_mem] at h; simp [h]
    · simp [e]
  · simp only [h, Bool.false_eq_true, if_false]
    by_cases e : a = x <;> simp [List.contains_eq_mem, List.mem_append, e]

theorem contains_setDiscard (s : List Nat) (x a : Nat) : (setDiscard s x).contains a = (s.contains a && a != x) := by
  unfold setDiscard
  by_cases e : a = x
  · subst e; simp [List.contains_eq_mem, List.mem_filter]
  · simp [List.contains_eq_mem, List.mem_filter, e]

theorem idsOk_filter (n : Nat) (rows : Rows) (Q : Nat × Record → Bool) (h : IdsOk n rows) : IdsOk n (rows.filter Q) := by
  have hsub : (ids (rows.filter Q)).Sublist (ids rows) := by
    unfold ids; exact (List.filter_sublist).map _
  exact ⟨h.1.sublist hsub, fun i hi => h.2 i (hsub.subset hi)⟩

theorem idsOk_append (n : Nat) (rows : Rows) (r : Record) (h : IdsOk n rows) : IdsOk (n + 1) (rows ++ [(n, r)]) := by
  constructor
  · simp only [ids, List.map_append, List.map_cons, List.map_nil]
    rw [List.pairwise_append]
    refine ⟨h.1, by simp, ?_⟩
    intro a ha b hb
    simp at hb; subst hb
    exact h.2 a ha
  · intro i hi
    simp only [ids, List.map_append, List.map_cons, List.map_nil, List.mem_append, List.mem_singleton] at hi
    rcases hi with hi | hi
    · have := h.2 i hi; omega
    · omega

theorem idsOk_mono (n m : Nat) (rows : Rows) (h : IdsOk n rows) (hnm : n ≤ m) : IdsOk m rows :=
  ⟨h.1, fun i hi => Nat.lt_of_lt_of_le (h.2 i hi) hnm⟩

/-- on a store whose objects all lie where the area collection keeps them, `collect_trash` removes exactly the expired -/
theorem collectTrash_eq (cfg : Cfg) (now : Int) (rows : Rows)
    (hs : ∀ p ∈ rows, areaDeletes cfg.areaFixed cfg.area p.2.loc = false) :
    collectTrash cfg now rows = rows.filter (fun p => !expired now p.2) := by
  unfold collectTrash
  rw [gcTime_eq, gcArea_eq]
  apply List.filter_eq_self.mpr
  intro p hp
  have := hs p (List.mem_filter.mp hp).1
  simp [this]

/-- refinement relation: the reference map is the row list read as a function, same counters and clocks -/
structure Rel (cfg : Cfg) (s : St) (t : Spec.St) : Prop where
  objs : ∀ i, t.objs i = lookup i s.db.rows
  next : t.next = s.db.next
  prov : ∀ a, t.prov a = s.providers.contains a
  cons : ∀ a, t.cons a = s.consumers.contains a
  utc : t.utcMs = s.utcMs
  mono : t.monoMs = s.monoMs
  gc : t.lastGc = s.lastGc
  idsOk : IdsOk s.db.next s.db.rows
  safe : ∀ p ∈ s.db.rows, areaDeletes cfg.areaFixed cfg.area p.2.loc = false

/-- side conditions under which the code as it is (or a repaired variant) follows the reference:
objects are added where the area collection keeps them; update/delete come from registered providers unless the
variant checks that itself -/
def opSafe (cfg : Cfg) (s : St) : Op → Bool
  | .add _ _ loc _ _ => !areaDeletes cfg.areaFixed cfg.area loc
  | .update app _ _ => cfg.gated || s.providers.contains app
  | .delete app _ => cfg.gated || s.providers.contains app
  | _ => true

theorem rel_init (cfg : Cfg) (u m : Int) : Rel cfg (St.init u m) (Spec.St.init u m) := by
  constructor <;> simp [St.init, Spec.St.init, lookup, IdsOk, ids]

theorem listing_eq (cfg : Cfg) (s : St) (t : Spec.St) (h : Rel cfg s t) : Spec.listing t = s.db.rows.map (·.2) := by
  unfold Spec.listing
  rw [h.next]
  have : t.objs = fun i => lookup i s.db.rows := funext h.objs
  rw [this]
  exact filterMap_lookup_range _ _ h.idsOk

theorem next_not_mem (n : Nat) (rows : Rows) (h : IdsOk n rows) : n ∉ ids rows :=
  fun hm => Nat.lt_irrefl _ (h.2 n hm)

theorem mem_replaceId (rows : Rows) (i : Nat) (x : Record) (p : Nat × Record) (h : p ∈ replaceId rows i x) :
    p ∈ rows ∨ p = (i, x) := by
  induction rows with
  | nil => simp [replaceId] at h
  | cons q t ih =>
    obtain ⟨k, y⟩ := q
    simp only [replaceId] at h
    split at h
    · next e =>
      subst e
      rcases List.mem_cons.mp h with h1 | h1
      · exact Or.inr h1
      · exact Or.inl (List.mem_cons_of_mem _ h1)
    · rcases List.mem_cons.mp h with h1 | h1
      · exact Or.inl (by rw [h1]; simp)
      · rcases ih h1 with h2 | h2
        · exact Or.inl (List.mem_cons_of_mem _ h2)
        · exact Or.inr h2

theorem step_refines (cfg : Cfg) (s : St) (t : Spec.St) (op : Op) (h : Rel cfg s t) (hs : opSafe cfg s op = true) :
    Rel cfg (step cfg s op).1 (Spec.step t op).1 ∧ Spec.absOut op (step cfg s op).2 = (Spec.step t op).2 := by
  cases op with
  | regProvider app perms =>
    simp only [step, Spec.step]
    split
    · refine ⟨{ h with prov := ?_ }, by simp [Spec.absOut]⟩
      intro a
      simp only [Spec.setAt, contains_setAdd]
      by_cases e : a = app <;> simp [e, h.prov]
    · exact ⟨h, by simp [Spec.absOut]⟩
  | deregProvider app =>
    simp only [step, Spec.step, h.prov app]
    split
    · refine ⟨{ h with prov := ?_ }, by simp [Spec.absOut]⟩
      intro a
      simp only [Spec.setAt, contains_setDiscard]
      by_cases e : a = app <;> simp [e, h.prov]
    · exact ⟨h, by simp [Spec.absOut]⟩
  | regConsumer app perms =>
    simp only [step, Spec.step]
    split
    · refine ⟨{ h with cons := ?_ }, by simp [Spec.absOut]⟩
      intro a
      simp only [Spec.setAt, contains_setAdd]
      by_cases e : a = app <;> simp [e, h.cons]
    · exact ⟨h, by simp [Spec.absOut]⟩
  | deregConsumer app =>
    simp only [step, Spec.step, h.cons app]
    split
    · refine ⟨{ h with cons := ?_ }, by simp [Spec.absOut]⟩
      intro a
      simp only [Spec.setAt, contains_setDiscard]
      by_cases e : a = app <;> simp [e, h.cons]
    · exact ⟨h, by simp [Spec.absOut]⟩
  | advance ms =>
    simp only [step, Spec.step]
    exact ⟨{ h with utc := by simp [h.utc], mono := by simp [h.mono] }, by simp [Spec.absOut]⟩
  | request q =>
    simp only [step, Spec.step, if4Request, h.cons q.app, listing_eq cfg s t h]
    refine ⟨h, ?_⟩
    simp only [Spec.absOut]
    generalize requestRefusal _ q = x
    cases x with
    | some c => rfl
    | none =>
      simp only
      generalize serviceQuery _ q = y
      cases y <;> rfl
  | maintain =>
    simp only [step, Spec.step]
    have hc := collectTrash_eq cfg (nowIts s.utcMs) s.db.rows h.safe
    refine ⟨?_, by simp [Spec.absOut]⟩
    constructor
    · intro i
      simp only [hc, h.utc]
      rw [lookup_filter _ _ h.idsOk.1, Spec.collect, h.objs i]
      cases lookup i s.db.rows with
      | none => rfl
      | some r => by_cases e : expired (nowIts s.utcMs) r = true <;> simp [e]
    · exact h.next
    · exact h.prov
    · exact h.cons
    · exact h.utc
    · exact h.mono
    · exact h.gc
    · simp only [hc]; exact idsOk_filter _ _ _ h.idsOk
    · simp only [hc]; intro p hp; exact h.safe p (List.mem_filter.mp hp).1
  | delete app id =>
    simp only [opSafe, Bool.or_eq_true] at hs
    simp only [step, Spec.step, h.prov app, h.objs id]
    by_cases hp : s.providers.contains app = true
    · simp only [hp, Bool.not_true, Bool.and_false, Bool.false_eq_true, if_false]
      cases hl : lookup id s.db.rows with
      | none => exact ⟨h, by simp [Spec.absOut]⟩
      | some r =>
        refine ⟨?_, by simp [Spec.absOut]⟩
        have hrm := removeId_eq_filter s.db.rows id h.idsOk.1
        constructor
        · intro i
          simp only [hrm, Spec.setAt]
          rw [lookup_filter _ _ h.idsOk.1, h.objs i]
          by_cases e : i = id
          · subst e; simp [hl]
          · cases lookup i s.db.rows <;> simp [e]
        · exact h.next
        · exact h.prov
        · exact h.cons
        · exact h.utc
        · exact h.mono
        · exact h.gc
        · simp only [hrm]; exact idsOk_filter _ _ _ h.idsOk
        · simp only [hrm]; intro p hp'; exact h.safe p (List.mem_filter.mp hp').1
    · have hg : cfg.gated = true := by rcases hs with h1 | h1 <;> simp_all
      have hp' : s.providers.contains app = false := by simpa using hp
      simp only [hg, hp', Bool.not_false, Bool.and_true, if_true]
      exact ⟨h, by simp [Spec.absOut]⟩
  | update app id obj =>
    simp only [opSafe, Bool.or_eq_true] at hs
    simp only [step, Spec.step, h.prov app, h.objs id]
    by_cases hp : s.providers.contains app = true
    · simp only [hp, Bool.not_true, Bool.and_false, Bool.false_eq_true, if_false]
      cases hl : lookup id s.db.rows with
      | none => exact ⟨h, by simp [Spec.absOut]⟩
      | some r =>
        simp only
        split
        · refine ⟨?_, by simp [Spec.absOut]⟩
          constructor
          · intro i
            simp only [Spec.setAt, lookup_replaceId, hl, Option.map_some]
            by_cases e : i = id <;> simp [e, h.objs i]
          · exact h.next
          · exact h.prov
          · exact h.cons
          · exact h.utc
          · exact h.mono
          · exact h.gc
          · show IdsOk _ (replaceId _ _ _)
            unfold IdsOk; rw [ids_replaceId]; exact h.idsOk
          · intro p hp'
            rcases mem_replaceId _ _ _ _ hp' with h1 | h1
            · exact h.safe p h1
            · rw [h1]; exact h.safe (id, r) (lookup_some_mem _ _ _ hl)
        · exact ⟨h, by simp [Spec.absOut]⟩
    · have hg : cfg.gated = true := by rcases hs with h1 | h1 <;> simp_all
      have hp' : s.providers.contains app = false := by simpa using hp
      simp only [hg, hp', Bool.not_false, Bool.and_true, if_true]
      exact ⟨h, by simp [Spec.absOut]⟩
  | add app ts loc obj validity =>
    simp only [opSafe, Bool.not_eq_true'] at hs
    simp only [step, Spec.step, h.prov app]
    by_cases hp : s.providers.contains app = true
    · simp only [hp, Bool.not_true, Bool.false_eq_true, if_false, h.mono, h.gc, h.next, h.utc]
      have hnm := next_not_mem _ _ h.idsOk
      have hok1 := idsOk_append s.db.next s.db.rows
        { appId := app, timestamp := ts, loc := loc, obj := obj, validity := validity } h.idsOk
      have hsafe1 : ∀ p ∈ s.db.rows ++ [(s.db.next, ({ appId := app, timestamp := ts, loc := loc, obj := obj, validity := validity } : Record))],
          areaDeletes cfg.areaFixed cfg.area p.2.loc = false := by
        intro p hp'
        rcases List.mem_append.mp hp' with h1 | h1
        · exact h.safe p h1
        · simp at h1; rw [h1]; exact hs
      have hobjs1 : ∀ i, Spec.setAt t.objs s.db.next (some { appId := app, timestamp := ts, loc := loc, obj := obj, validity := validity }) i
          = lookup i (s.db.rows ++ [(s.db.next, { appId := app, timestamp := ts, loc := loc, obj := obj, validity := validity })]) := by
        intro i
        rw [lookup_append_new _ _ _ _ hnm]
        simp only [Spec.setAt, h.objs i]
      split
      · refine ⟨?_, by simp [Spec.absOut]⟩
        have hc := collectTrash_eq cfg (nowIts s.utcMs) _ hsafe1
        constructor
        · intro i
          simp only [hc]
          rw [lookup_filter _ _ hok1.1, Spec.collect, hobjs1 i]
          cases lookup i (s.db.rows ++ [(s.db.next, _)]) with
          | none => rfl
          | some r => by_cases e : expired (nowIts s.utcMs) r = true <;> simp [e]
        · rfl
        · exact h.prov
        · exact h.cons
        · rfl
        · rfl
        · rfl
        · simp only [hc]; exact idsOk_filter _ _ _ hok1
        · simp only [hc]; intro p hp'; exact hsafe1 p (List.mem_filter.mp hp').1
      · refine ⟨?_, by simp [Spec.absOut]⟩
        constructor
        · exact hobjs1
        · rfl
        · exact h.prov
        · exact h.cons
        · rfl
        · rfl
        · rfl
        · exact hok1
        · exact hsafe1
    · have hp' : s.providers.contains app = false := by simpa using hp
      simp only [hp', Bool.not_false, if_true]
      exact ⟨h, by simp [Spec.absOut]⟩

/-- `opSafe` along a whole history -/
def histSafe (cfg : Cfg) : St → List Op → Bool
  | _, [] => true
  | s, op :: ops => opSafe cfg s op && histSafe cfg (step cfg s op).1 ops

theorem run_refines (cfg : Cfg) (ops : List Op) : ∀ (s : St) (t : Spec.St), Rel cfg s t → histSafe cfg s ops = true →
    Rel cfg (run cfg s ops).1 (Spec.run t ops).1 ∧
      List.zipWith Spec.absOut ops (run cfg s ops).2 = (Spec.run t ops).2 := by
  induction ops with
  | nil => intro s t h _; exact ⟨h, rfl⟩
  | cons op ops ih =>
    intro s t h hs
    simp only [histSafe, Bool.and_eq_true] at hs
    obtain ⟨h1, ho⟩ := step_refines cfg s t op h hs.1
    obtain ⟨h2, hos⟩ := ih _ _ h1 hs.2
    simp only [run, Spec.run]
    exact ⟨h2, by simp only [List.zipWith_cons_cons, ho, hos]⟩

/-- the operation is an update or delete aimed at object `i` -/
def Op.targets (i : Nat) : Op → Bool
  | .update _ j _ => j == i
  | .delete _ j => j == i
  | _ => false

/-- reference-machine invariant: nothing is stored at identifiers not handed out yet -/
def Spec.Inv (t : Spec.St) : Prop := ∀ j, t.next ≤ j → t.objs j = none

theorem nowIts_mono (a b : Int) (h : a ≤ b) : nowIts a ≤ nowIts b := by
  unfold nowIts itsEpoch elapsedSeconds
  omega

theorem expired_mono (a b : Int) (r : Record) (h : a ≤ b) (he : expired a r = true) : expired b r = true := by
  simp only [expired, decide_eq_true_eq] at *
  omega

theorem spec_step_utc_mono (t : Spec.St) (op : Op) : t.utcMs ≤ (Spec.step t op).1.utcMs := by
  cases op <;> simp only [Spec.step] <;> (repeat' split) <;> (try simp only []) <;> omega

theorem spec_run_utc_mono (ops : List Op) : ∀ t : Spec.St, t.utcMs ≤ (Spec.run t ops).1.utcMs := by
  induction ops with
  | nil => intro t; exact Int.le_refl _
  | cons op ops ih =>
    intro t
    simp only [Spec.run]
    exact Int.le_trans (spec_step_utc_mono t op) (ih _)

theorem spec_step_next_mono (t : Spec.St) (op : Op) : t.next ≤ (Spec.step t op).1.next := by
  cases op <;> simp only [Spec.step] <;> (repeat' split) <;> (try simp only []) <;> omega

theorem spec_inv_init (u m : Int) : Spec.Inv (Spec.St.init u m) := by
  intro j _; rfl

theorem spec_inv_step (t : Spec.St) (op : Op) (h : Spec.Inv t) : Spec.Inv (Spec.step t op).1 := by
  cases op with
  | add app ts loc obj validity =>
    simp only [Spec.step]
    split
    · exact h
    · split
      · intro j hj
        simp only at hj
        simp only [Spec.collect, Spec.setAt]
        have : ¬ j = t.next := by omega
        simp only [this, if_false, h j (by omega)]
      · intro j hj
        simp only at hj
        simp only [Spec.setAt]
        have : ¬ j = t.next := by omega
        simp only [this, if_false, h j (by omega)]
  | update app id obj =>
    simp only [Spec.step]
    split
    · exact h
    · split
      · exact h
      · next r hr =>
        split
        · intro j hj
          simp only at hj
          simp only [Spec.setAt]
          by_cases e : j = id
          · subst e; rw [h j hj] at hr; cases hr
          · simp only [e, if_false]; exact h j hj
        · exact h
  | delete app id =>
    simp only [Spec.step]
    split
    · exact h
    · split
      · exact h
      · intro j hj
        simp only at hj
        simp only [Spec.setAt]
        by_cases e : j = id
        · simp [e]
        · simp only [e, if_false]; exact h j hj
  | maintain =>
    intro j hj
    simp only [Spec.step] at hj ⊢
    simp only [Spec.collect, h j hj]
  | regProvider app perms => simp only [Spec.step]; split <;> exact h
  | deregProvider app => simp only [Spec.step]; split <;> exact h
  | regConsumer app perms => simp only [Spec.step]; split <;> exact h
  | deregConsumer app => simp only [Spec.step]; split <;> exact h
  | request q => exact h
  | advance ms => exact h

/-- one step keeps an object that is not targeted and whose validity has not lapsed -/
theorem spec_step_keeps (t : Spec.St) (op : Op) (i : Nat) (r : Record) (hi : t.objs i = some r) (hlt : i < t.next)
    (ht : op.targets i = false) (hne : expired (nowIts t.utcMs) r = false) : (Spec.step t op).1.objs i = some r := by
  cases op with
  | add app ts loc obj validity =>
    simp only [Spec.step]
    have hn : ¬ i = t.next := by omega
    split
    · exact hi
    · split
      · simp only [Spec.collect, Spec.setAt, hn, if_false, hi, hne]; rfl
      · simp only [Spec.setAt, hn, if_false, hi]
  | update app id obj =>
    simp only [Op.targets, beq_eq_false_iff_ne, ne_eq] at ht
    have hn : ¬ i = id := fun e => ht e.symm
    simp only [Spec.step]
    repeat' split
    all_goals (first | exact hi | simp only [Spec.setAt, hn, if_false, hi])
  | delete app id =>
    simp only [Op.targets, beq_eq_false_iff_ne, ne_eq] at ht
    have hn : ¬ i = id := fun e => ht e.symm
    simp only [Spec.step]
    repeat' split
    all_goals (first | exact hi | simp only [Spec.setAt, hn, if_false, hi])
  | maintain => simp only [Spec.step, Spec.collect, hi, hne]; rfl
  | regProvider app perms => simp only [Spec.step]; split <;> exact hi
  | deregProvider app => simp only [Spec.step]; split <;> exact hi
  | regConsumer app perms => simp only [Spec.step]; split <;> exact hi
  | deregConsumer app => simp only [Spec.step]; split <;> exact hi
  | request q => exact hi
  | advance ms => exact hi

/-! ## lemmas about the reference map used by Props/C12.lean -/

theorem mem_listing (t : Spec.St) (r : Record) : r ∈ Spec.listing t ↔ ∃ i, i < t.next ∧ t.objs i = some r := by
  simp only [Spec.listing, List.mem_filterMap, List.mem_range]


theorem run_keeps (ops : List Op) : ∀ (t : Spec.St) (i : Nat) (r : Record), t.objs i = some r → i < t.next →
    (∀ op ∈ ops, op.targets i = false) → expired (nowIts (Spec.run t ops).1.utcMs) r = false →
    (Spec.run t ops).1.objs i = some r := by
  induction ops with
  | nil => intro t i r hi _ _ _; exact hi
  | cons op ops ih =>
    intro t i r hi hlt hnt hne
    simp only [Spec.run] at hne ⊢
    have hnow : expired (nowIts t.utcMs) r = false := by
      cases hx : expired (nowIts t.utcMs) r with
      | false => rfl
      | true =>
        have hmono := Int.le_trans (spec_step_utc_mono t op) (spec_run_utc_mono ops (Spec.step t op).1)
        rw [expired_mono _ _ r (nowIts_mono _ _ hmono) hx] at hne
        cases hne
    exact ih _ i r (spec_step_keeps t op i r hi hlt (hnt op (by simp)) hnow)
      (Nat.lt_of_lt_of_le hlt (spec_step_next_mono t op)) (fun o ho => hnt o (List.mem_cons_of_mem _ ho)) hne


theorem none_stays_step (t : Spec.St) (op : Op) (i : Nat) (hi : t.objs i = none) (hlt : i < t.next) :
    (Spec.step t op).1.objs i = none := by
  cases op with
  | add app ts loc obj validity =>
    have hn : ¬ i = t.next := by omega
    simp only [Spec.step]
    repeat' split
    all_goals (first | exact hi | simp only [Spec.collect, Spec.setAt, hn, if_false, hi])
  | update app id obj =>
    simp only [Spec.step]
    repeat' split
    all_goals first
      | exact hi
      | (next r hr _ =>
          by_cases e : i = id
          · subst e; rw [hi] at hr; cases hr
          · simp only [Spec.setAt, e, if_false, hi])
  | delete app id =>
    simp only [Spec.step]
    repeat' split
    all_goals first
      | exact hi
      | (by_cases e : i = id
         · simp [Spec.setAt, e]
         · simp only [Spec.setAt, e, if_false, hi])
  | maintain => simp only [Spec.step, Spec.collect, hi]
  | regProvider app perms => simp only [Spec.step]; split <;> exact hi
  | deregProvider app => simp only [Spec.step]; split <;> exact hi
  | regConsumer app perms => simp only [Spec.step]; split <;> exact hi
  | deregConsumer app => simp only [Spec.step]; split <;> exact hi
  | request q => exact hi
  | advance ms => exact hi

/-- an identifier that was handed out and holds nothing never holds anything again (identifiers are not reused) -/
theorem none_stays (ops : List Op) : ∀ (t : Spec.St) (i : Nat), t.objs i = none → i < t.next →
    (Spec.run t ops).1.objs i = none := by
  induction ops with
  | nil => intro t i hi _; exact hi
  | cons op ops ih =>
    intro t i hi hlt
    exact ih _ i (none_stays_step t op i hi hlt) (Nat.lt_of_lt_of_le hlt (spec_step_next_mono t op))


theorem id_out (t : Spec.St) (op : Op) (k : Nat) (h : (Spec.step t op).2 = .id k) :
    k = t.next ∧ (Spec.step t op).1.next = t.next + 1 := by
  cases op with
  | add app ts loc obj validity =>
    cases hp : t.prov app with
    | false => simp [Spec.step, hp] at h
    | true =>
      by_cases hg : t.monoMs - t.lastGc ≥ trashIntervalMs
      · simp only [Spec.step, hp, hg, Bool.not_true, Bool.false_eq_true, if_false, if_true] at h ⊢
        injection h with h; exact ⟨h.symm, trivial⟩
      · simp only [Spec.step, hp, hg, Bool.not_true, Bool.false_eq_true, if_false] at h ⊢
        injection h with h; exact ⟨h.symm, trivial⟩
  | update app id obj =>
    exfalso
    simp only [Spec.step] at h
    split at h
    · cases h
    · split at h
      · cases h
      · split at h <;> cases h
  | delete app id =>
    exfalso
    simp only [Spec.step] at h
    split at h
    · cases h
    · split at h <;> cases h
  | regProvider app perms => simp only [Spec.step] at h; split at h <;> cases h
  | deregProvider app => simp only [Spec.step] at h; split at h <;> cases h
  | regConsumer app perms => simp only [Spec.step] at h; split at h <;> cases h
  | deregConsumer app => simp only [Spec.step] at h; split at h <;> cases h
  | request q => simp only [Spec.step] at h; cases h
  | maintain => simp only [Spec.step] at h; cases h
  | advance ms => simp only [Spec.step] at h; cases h


end FlexModel.Ldm

/-
Helper lemmas for Props/C12.lean.
 A. `agree_*`: the rules the reference machine (Spec.lean) states on its own - clock conversion, lapse test, known
    ITS-AIDs / types, provider / consumer registration, validation ladder, data object type, unfiltered answer,
    type-consistency test of update - agree with what the implementation model (Store.lean, Filter.lean, Record.lean)
    and the constants regenerated from the repository (Generated/Ldm.lean) use.
 B. the collection loops are filters; `lookup` through every database operation; the refinement relation `Rel` between
    the implementation machine and the reference map; `step_refines` / `run_refines` WITHOUT side conditions: the
    reference machine takes the area rule, the gating and the reactive trigger as parameters (`specOf cfg`).
 C. facts about the reference machine for all parameters: invariant, monotone clocks and counter, `run_follows`
    (what a history does to one stored object, judged by the answers), `none_stays`, `id_out`.
-/
import FlexModel.Ldm.Spec
import FlexModel.Ldm.Store
namespace FlexModel.Ldm
open Generated.Ldm

/-! ## the reference machine's own rules agree with the implementation model's (and the regenerated constants) -/

theorem agree_nowIts (u : Int) : Spec.nowIts u = nowIts u := rfl

theorem agree_lapsed (now : Int) (r : Record) : Spec.lapsed now r = expired now r := by
  unfold Spec.lapsed expired
  by_cases h : r.timestamp + 1000 * r.validity < now
  · have h' : r.validity * 1000 + r.timestamp < now := by omega
    simp [h, h']
  · have h' : ¬ (r.validity * 1000 + r.timestamp < now) := by omega
    simp [h, h']

theorem agree_known_aid (a : Nat) : Spec.known a = validItsAid.contains a := by
  by_cases h : a ≤ 21
  · have : a = 0 ∨ a = 1 ∨ a = 2 ∨ a = 3 ∨ a = 4 ∨ a = 5 ∨ a = 6 ∨ a = 7 ∨ a = 8 ∨ a = 9 ∨ a = 10 ∨ a = 11 ∨ a = 12 ∨
        a = 13 ∨ a = 14 ∨ a = 15 ∨ a = 16 ∨ a = 17 ∨ a = 18 ∨ a = 19 ∨ a = 20 ∨ a = 21 := by omega
    rcases this with h | h | h | h | h | h | h | h | h | h | h | h | h | h | h | h | h | h | h | h | h | h <;> subst h <;> decide
  · have h1 : Spec.known a = false := by simp [Spec.known]; omega
    rw [h1]
    symm
    simp only [validItsAid, List.contains_eq_mem, List.mem_cons, List.not_mem_nil, or_false, decide_eq_false_iff_not]
    omega

theorem agree_typeNames : Spec.typeNames = typeTable := by decide

theorem agree_validType (t : Nat) : Spec.known t = validType t := by
  by_cases h : t ≤ 21
  · have : t = 0 ∨ t = 1 ∨ t = 2 ∨ t = 3 ∨ t = 4 ∨ t = 5 ∨ t = 6 ∨ t = 7 ∨ t = 8 ∨ t = 9 ∨ t = 10 ∨ t = 11 ∨ t = 12 ∨
        t = 13 ∨ t = 14 ∨ t = 15 ∨ t = 16 ∨ t = 17 ∨ t = 18 ∨ t = 19 ∨ t = 20 ∨ t = 21 := by omega
    rcases this with h | h | h | h | h | h | h | h | h | h | h | h | h | h | h | h | h | h | h | h | h | h <;> subst h <;> decide
  · have h1 : Spec.known t = false := by simp [Spec.known]; omega
    rw [h1]
    symm
    simp only [validType, typeTable, List.any_cons, List.any_nil, Bool.or_false, Bool.or_eq_false_iff, beq_eq_false_iff_ne]
    omega

theorem agree_typeOfKey (k : String) : Spec.typeOfKey k = typeIdOfName k := by
  unfold Spec.typeOfKey typeIdOfName
  rw [agree_typeNames]

theorem agree_firstType (ks : List String) : Spec.firstType ks = firstTypeKey ks := by
  induction ks with
  | nil => rfl
  | cons k ks ih =>
    simp only [Spec.firstType, firstTypeKey, agree_typeOfKey, ih]
    cases typeIdOfName k <;> rfl

theorem agree_typeOf (o : JVal) : Spec.typeOf o = objType o := by
  cases o <;> simp [Spec.typeOf, objType, agree_firstType]

theorem agree_wanted (types : List Nat) (r : Record) : Spec.wanted types r = typeSelected types r := by
  simp only [Spec.wanted, typeSelected, agree_typeOf]
  cases objType r.obj <;> rfl

theorem agree_providerOk (app : Nat) (perms : List Nat) : Spec.providerOk app perms = providerOk app perms := by
  unfold Spec.providerOk providerOk
  rw [agree_known_aid]
  rfl

theorem agree_consumerOk (app : Nat) (perms : List Nat) : Spec.consumerOk app perms = consumerOk app perms := by
  unfold Spec.consumerOk consumerOk
  rw [agree_known_aid]
  rfl

theorem agree_refusal (b : Bool) (q : Request) : Spec.refusal b q = requestRefusal b q := by
  unfold Spec.refusal requestRefusal
  have h1 : (!(q.types.all Spec.known)) = q.types.any (fun t => !validType t) := by
    induction q.types with
    | nil => rfl
    | cons t ts ih =>
      simp only [List.all_cons, List.any_cons, Bool.not_and, agree_validType] at ih ⊢
      rw [ih]
  rw [h1]
  generalize q.prio = x
  cases x with
  | none => rfl
  | some p =>
    have h2 : decide (p < 0 ∨ 255 < p) = (decide (p < 0) || decide (p > 255)) := by simp
    simp only [h2]

theorem agree_answer (rows : List Record) (q : Request) :
    Spec.answer rows q = (match serviceQuery rows q with | .ok rs => ReqOut.ok rs | .error e => ReqOut.exc e) := by
  unfold Spec.answer
  cases hf : q.filter with
  | some f => rfl
  | none =>
    cases ho : q.order with
    | some o => rfl
    | none =>
      have : rows.filter (Spec.wanted q.types) = typeSelect q.types rows := by
        unfold typeSelect
        congr 1
        funext r
        exact agree_wanted _ _
      simp only [serviceQuery, dictSearch, hf, ho, this]
      rfl

/-- the type-consistency test of update: the code compares type *names*, the reference type *ids* -/
theorem typeName_empty : typeIdOfName "" = none := by decide

theorem objType_of_name_keys (ks : List String) :
    firstTypeKey ks = typeIdOfName ((ks.find? (fun k => (typeIdOfName k).isSome)).getD "") := by
  induction ks with
  | nil => simp [firstTypeKey, typeName_empty]
  | cons k ks ih =>
    simp only [firstTypeKey, List.find?_cons]
    cases h : typeIdOfName k with
    | some t => simp [h]
    | none => simp [ih]

theorem objType_of_name (o : JVal) : objType o = typeIdOfName (objTypeName o) := by
  cases o <;> simp [objType, objTypeName, typeName_empty, objType_of_name_keys]

theorem name_empty_or_type_keys (ks : List String) :
    (ks.find? (fun k => (typeIdOfName k).isSome)).getD "" = "" ∨
    (typeIdOfName ((ks.find? (fun k => (typeIdOfName k).isSome)).getD "")).isSome = true := by
  cases h : ks.find? (fun k => (typeIdOfName k).isSome) with
  | none => left; rfl
  | some k => right; simpa using List.find?_some h

theorem name_empty_or_type (o : JVal) : objTypeName o = "" ∨ (typeIdOfName (objTypeName o)).isSome = true := by
  cases o <;> simp [objTypeName, name_empty_or_type_keys]

def nameOfType (t : Nat) : Option String := (typeTable.find? (fun p => p.1 == t)).map (·.2)

theorem table_ids_distinct : ∀ p ∈ typeTable, nameOfType p.1 = some p.2 := by decide

theorem name_of_typeId (a : String) (t : Nat) (h : typeIdOfName a = some t) : nameOfType t = some a := by
  unfold typeIdOfName at h
  cases hf : typeTable.find? (fun p => p.2 == a) with
  | none => simp [hf] at h
  | some p =>
    simp only [hf, Option.map_some, Option.some.injEq] at h
    have hm := List.mem_of_find?_eq_some hf
    have hp := List.find?_some hf
    simp only [beq_iff_eq] at hp
    have := table_ids_distinct p hm
    rw [h, hp] at this
    exact this

theorem agree_typeCheck (a b : JVal) : (objTypeName a = objTypeName b) ↔ (Spec.typeOf a = Spec.typeOf b) := by
  rw [agree_typeOf, agree_typeOf, objType_of_name, objType_of_name]
  constructor
  · intro h; rw [h]
  · intro h
    cases ha : typeIdOfName (objTypeName a) with
    | none =>
      rw [ha] at h
      rcases name_empty_or_type a with h1 | h1
      · rcases name_empty_or_type b with h2 | h2
        · rw [h1, h2]
        · rw [← h] at h2; cases h2
      · rw [ha] at h1; cases h1
    | some t =>
      rw [ha] at h
      have h1 := name_of_typeId _ _ ha
      have h2 := name_of_typeId _ _ h.symm
      rw [h1] at h2
      exact Option.some.inj h2


abbrev Rows := List (Nat × Record)
def ids (rows : Rows) : List Nat := rows.map (·.1)

/-- identifiers strictly increasing and below `n` -/
def IdsOk (n : Nat) (rows : Rows) : Prop := (ids rows).Pairwise (· < ·) ∧ ∀ i ∈ ids rows, i < n

theorem removeEq_append_of_ne (kept l : Rows) (c : Record) (h : ∀ p ∈ kept, p.2 ≠ c) :
    removeEq (kept ++ l) c = kept ++ removeEq l c := by
  induction kept with
  | nil => rfl
  | cons p t ih =>
    obtain ⟨i, r⟩ := p
    have hr : r ≠ c := h (i, r) (by simp)
    simp only [List.cons_append, removeEq, hr, if_false]
    rw [ih (fun q hq => h q (by simp [hq]))]

/-- the collection loop (snapshot, remove-by-value of every condemned container) is a filter -/
theorem sweep_eq_filter (P : Record → Bool) (kept rest : Rows) (hk : ∀ p ∈ kept, P p.2 = false) :
    (rest.map (·.2)).foldl (fun acc c => if P c then removeEq acc c else acc) (kept ++ rest)
      = kept ++ rest.filter (fun p => !P p.2) := by
  induction rest generalizing kept with
  | nil => simp
  | cons p t ih =>
    obtain ⟨i, r⟩ := p
    simp only [List.map_cons, List.foldl_cons]
    by_cases hp : P r = true
    · have hne : ∀ q ∈ kept, q.2 ≠ r := by
        intro q hq heq
        have := hk q hq
        rw [heq, hp] at this
        exact Bool.noConfusion this
      simp only [hp, if_true]
      rw [removeEq_append_of_ne kept _ r hne]
      simp only [removeEq, if_true]
      rw [ih kept hk]
      simp [List.filter, hp]
    · have hp' : P r = false := by simpa using hp
      simp only [hp', Bool.false_eq_true, if_false]
      have : kept ++ (i, r) :: t = (kept ++ [(i, r)]) ++ t := by simp
      rw [this, ih (kept ++ [(i, r)])]
      · simp [List.filter, hp']
      · intro q hq
        rcases List.mem_append.mp hq with h | h
        · exact hk q h
        · simp at h; rw [h]; exact hp'

theorem gcTime_eq (now : Int) (rows : Rows) : gcTime now rows = rows.filter (fun p => !expired now p.2) := by
  have := sweep_eq_filter (expired now) [] rows (by simp)
  simpa [gcTime] using this

theorem gcArea_eq (cfg : Cfg) (rows : Rows) :
    gcArea cfg rows = rows.filter (fun p => !areaDeletes cfg.areaFixed cfg.area p.2.loc) := by
  have := sweep_eq_filter (fun c => areaDeletes cfg.areaFixed cfg.area c.loc) [] rows (by simp)
  simpa [gcArea] using this

theorem lookup_none_of_not_mem (rows : Rows) (i : Nat) (h : i ∉ ids rows) : lookup i rows = none := by
  induction rows with
  | nil => rfl
  | cons p t ih =>
    obtain ⟨j, r⟩ := p
    simp only [ids, List.map_cons, List.mem_cons, not_or] at h
    simp only [lookup]
    rw [if_neg (fun e => h.1 e.symm)]
    exact ih h.2

theorem lookup_some_mem (rows : Rows) (i : Nat) (r : Record) (h : lookup i rows = some r) : (i, r) ∈ rows := by
  induction rows with
  | nil => simp [lookup] at h
  | cons p t ih =>
    obtain ⟨j, x⟩ := p
    simp only [lookup] at h
    split at h
    · next e => simp at h; subst e; subst h; simp
    · exact List.mem_cons_of_mem _ (ih h)

theorem lookup_append_new (rows : Rows) (n : Nat) (r : Record) (j : Nat) (h : n ∉ ids rows) :
    lookup j (rows ++ [(n, r)]) = if j = n then some r else lookup j rows := by
  induction rows with
  | nil =>
    simp only [List.nil_append, lookup]
    by_cases e : n = j
    · subst e; simp
    · have : ¬ j = n := fun e' => e e'.symm
      simp [e, this]
  | cons p t ih =>
    obtain ⟨k, x⟩ := p
    simp only [ids, List.map_cons, List.mem_cons, not_or] at h
    simp only [List.cons_append, lookup]
    by_cases hk : k = j
    · subst hk
      have : ¬ k = n := fun e => h.1 e.symm
      simp [this]
    · simp only [hk, if_false]; exact ih h.2

theorem lookup_filter (Q : Nat × Record → Bool) (rows : Rows) (h : (ids rows).Pairwise (· < ·)) (i : Nat) :
    lookup i (rows.filter Q) = match lookup i rows with
      | some r => if Q (i, r) then some r else none
      | none => none := by
  induction rows with
  | nil => rfl
  | cons p t ih =>
    obtain ⟨j, x⟩ := p
    simp only [ids, List.map_cons, List.pairwise_cons] at h
    by_cases hj : j = i
    · subst hj
      simp only [lookup, if_true]
      by_cases hq : Q (j, x) = true
      · simp [List.filter, hq, lookup]
      · have hq' : Q (j, x) = false := by simpa using hq
        simp only [List.filter, hq', Bool.false_eq_true, if_false]
        apply lookup_none_of_not_mem
        intro hm
        have : j ∈ ids t := by
          simp only [ids, List.mem_map] at hm ⊢
          obtain ⟨q, hq1, hq2⟩ := hm
          exact ⟨q, (List.mem_filter.mp hq1).1, hq2⟩
        exact Nat.lt_irrefl _ (h.1 j this)
    · simp only [lookup, hj, if_false]
      by_cases hq : Q (j, x) = true
      · simp only [List.filter, hq, lookup, hj, if_false]; exact ih h.2
      · have hq' : Q (j, x) = false := by simpa using hq
        simp only [List.filter, hq']; exact ih h.2

theorem lookup_replaceId (rows : Rows) (i : Nat) (x : Record) (j : Nat) :
    lookup j (replaceId rows i x) = if j = i then (lookup i rows).map (fun _ => x) else lookup j rows := by
  induction rows with
  | nil => simp [replaceId, lookup]
  | cons p t ih =>
    obtain ⟨k, y⟩ := p
    simp only [replaceId]
    by_cases hk : k = i
    · subst hk
      simp only [if_true, lookup]
      by_cases hj : k = j
      · subst hj; simp
      · have : ¬ j = k := fun e => hj e.symm
        simp [hj, this]
    · simp only [hk, if_false, lookup]
      by_cases hj : k = j
      · subst hj; simp [hk]
      · simp only [hj, if_false]; exact ih

theorem ids_replaceId (rows : Rows) (i : Nat) (x : Record) : ids (replaceId rows i x) = ids rows := by
  induction rows with
  | nil => rfl
  | cons p t ih =>
    obtain ⟨k, y⟩ := p
    simp only [replaceId]
    split
    · simp [ids]
    · simp only [ids, List.map_cons] at ih ⊢; rw [ih]

theorem removeId_eq_filter (rows : Rows) (i : Nat) (h : (ids rows).Pairwise (· < ·)) :
    removeId rows i = rows.filter (fun p => p.1 != i) := by
  induction rows with
  | nil => rfl
  | cons p t ih =>
    obtain ⟨k, y⟩ := p
    simp only [ids, List.map_cons, List.pairwise_cons] at h
    simp only [removeId]
    by_cases hk : k = i
    · subst hk
      simp only [if_true, List.filter, bne_self_eq_false]
      symm
      apply List.filter_eq_self.mpr
      intro q hq
      have : k < q.1 := h.1 q.1 (by simp only [List.mem_map]; exact ⟨q, hq, rfl⟩)
      simp; omega
    · simp only [hk, if_false, List.filter]
      have : ((k, y).1 != i) = true := by simp [hk]
      simp only [this]; rw [ih h.2]

theorem filterMap_congr' {α β : Type} {f g : α → Option β} : ∀ {l : List α}, (∀ x ∈ l, f x = g x) →
    l.filterMap f = l.filterMap g
  | [], _ => rfl
  | a :: t, h => by
    simp only [List.filterMap_cons]
    rw [h a (by simp), filterMap_congr' (fun x hx => h x (by simp [hx]))]

theorem filterMap_lookup_range' (len : Nat) : ∀ (rows : Rows) (lo : Nat),
    (ids rows).Pairwise (· < ·) → (∀ i ∈ ids rows, lo ≤ i ∧ i < lo + len) →
    (List.range' lo len).filterMap (fun i => lookup i rows) = rows.map (·.2) := by
  induction len with
  | zero =>
    intro rows lo _ hb
    cases rows with
    | nil => rfl
    | cons p t => have := hb p.1 (by simp [ids]); omega
  | succ len ih =>
    intro rows lo hp hb
    rw [List.range'_succ]
    cases rows with
    | nil =>
      rw [List.filterMap_cons]
      simp only [lookup, List.map_nil]
      exact ih [] (lo + 1) (by simp [ids]) (by simp [ids])
    | cons p t =>
      obtain ⟨k, r⟩ := p
      have hk := hb k (by simp [ids])
      simp only [ids, List.map_cons, List.pairwise_cons] at hp
      by_cases e : k = lo
      · subst e
        have h0 : lookup k ((k, r) :: t) = some r := by simp [lookup]
        have hcongr : (List.range' (k + 1) len).filterMap (fun i => lookup i ((k, r) :: t))
            = (List.range' (k + 1) len).filterMap (fun i => lookup i t) := by
          apply filterMap_congr'
          intro i hi
          have : k + 1 ≤ i := (List.mem_range'_1.mp hi).1
          simp only [lookup]
          rw [if_neg (by omega)]
        rw [List.filterMap_cons, h0, hcongr]
        simp only [List.map_cons]
        congr 1
        apply ih t (k + 1) hp.2
        intro i hi
        have h1 := hp.1 i hi
        have h2 := hb i (by simp only [ids, List.map_cons, List.mem_cons]; exact Or.inr hi)
        omega
      · have hlo : lookup lo ((k, r) :: t) = none := by
          apply lookup_none_of_not_mem
          intro hm
          have := hb lo hm
          simp only [ids, List.map_cons, List.mem_cons] at hm
          rcases hm with h | h
          · omega
          · have := hp.1 lo h; omega
        rw [List.filterMap_cons, hlo]
        apply ih ((k, r) :: t) (lo + 1)
        · simp only [ids, List.map_cons, List.pairwise_cons]; exact hp
        · intro i hi
          have h2 := hb i hi
          simp only [ids, List.map_cons, List.mem_cons] at hi
          rcases hi with h | h
          · omega
          · have := hp.1 i h; omega

theorem filterMap_lookup_range (n : Nat) (rows : Rows) (h : IdsOk n rows) :
    (List.range n).filterMap (fun i => lookup i rows) = rows.map (·.2) := by
  rw [List.range_eq_range']
  apply filterMap_lookup_range' n rows 0 h.1
  intro i hi
  have := h.2 i hi
  omega

theorem contains_setAdd (s : List Nat) (x a : Nat) : (setAdd s x).contains a = (s.contains a || a == x) := by
  unfold setAdd
  by_cases h : s.contains x = true
  · simp only [h, if_true]
    by_cases e : a = x
    · subst e; simp [List.contains_eq_mem] at h; simp [h]
    · simp [e]
  · simp only [h, Bool.false_eq_true, if_false]
    by_cases e : a = x <;> simp [List.contains_eq_mem, List.mem_append, e]

theorem contains_setDiscard (s : List Nat) (x a : Nat) : (setDiscard s x).contains a = (s.contains a && a != x) := by
  unfold setDiscard
  by_cases e : a = x
  · subst e; simp [List.contains_eq_mem, List.mem_filter]
  · simp [List.contains_eq_mem, List.mem_filter, e]

theorem idsOk_filter (n : Nat) (rows : Rows) (Q : Nat × Record → Bool) (h : IdsOk n rows) : IdsOk n (rows.filter Q) := by
  have hsub : (ids (rows.filter Q)).Sublist (ids rows) := by
    unfold ids; exact (List.filter_sublist).map _
  exact ⟨h.1.sublist hsub, fun i hi => h.2 i (hsub.subset hi)⟩

theorem idsOk_append (n : Nat) (rows : Rows) (r : Record) (h : IdsOk n rows) : IdsOk (n + 1) (rows ++ [(n, r)]) := by
  constructor
  · simp only [ids, List.map_append, List.map_cons, List.map_nil]
    rw [List.pairwise_append]
    refine ⟨h.1, by simp, ?_⟩
    intro a ha b hb
    simp at hb; subst hb
    exact h.2 a ha
  · intro i hi
    simp only [ids, List.map_append, List.map_cons, List.map_nil, List.mem_append, List.mem_singleton] at hi
    rcases hi with hi | hi
    · have := h.2 i hi; omega
    · omega

theorem idsOk_mono (n m : Nat) (rows : Rows) (h : IdsOk n rows) (hnm : n ≤ m) : IdsOk m rows :=
  ⟨h.1, fun i hi => Nat.lt_of_lt_of_le (h.2 i hi) hnm⟩


/-- `collect_trash` (time-validity loop, then area loop, each with removal by value) removes exactly the rows that are
expired or that the area test condemns -/
theorem collectTrash_eq (cfg : Cfg) (now : Int) (rows : Rows) :
    collectTrash cfg now rows
      = rows.filter (fun p => !(expired now p.2 || areaDeletes cfg.areaFixed cfg.area p.2.loc)) := by
  unfold collectTrash
  rw [gcTime_eq, gcArea_eq, List.filter_filter]
  congr 1
  funext p
  cases expired now p.2 <;> cases areaDeletes cfg.areaFixed cfg.area p.2.loc <;> rfl

/-! ## the refinement -/

/-- the history vocabulary of the implementation model read in the reference vocabulary -/
def toSpec : Op → Spec.Op
  | .regProvider a p => .regProvider a p
  | .deregProvider a => .deregProvider a
  | .regConsumer a p => .regConsumer a p
  | .deregConsumer a => .deregConsumer a
  | .add a ts l o v => .add a ts l o v
  | .update a i o => .update a i o
  | .delete a i => .delete a i
  | .request q => .request q
  | .maintain => .maintain
  | .advance ms => .advance ms

/-- the parameters of the reference machine that a variant of the code implements: ITS AREA RULE IS WHAT THE CODE
DOES (for `areaFixed = false` the inverted test of C12-KF1), its gating what the code does (C12-KF2), the reactive
trigger the documented one of LDMMaintenanceReactive -/
def specOf (cfg : Cfg) : Spec.Params :=
  { drops := areaDeletes cfg.areaFixed cfg.area, gated := cfg.gated, reactive := fun d => decide (d ≥ trashIntervalMs) }

/-- how an interface answer of the implementation reads in the reference vocabulary (result codes kept) -/
def absOut : Op → Out → Spec.Out
  | .add .., .code n => if n < 0 then .refused n.natAbs else .id n.toNat
  | .request _, .req r => .req r
  | .maintain, _ => .none
  | .advance _, _ => .none
  | _, .code n => if n = 0 then .done else .refused n.natAbs
  | _, _ => .none

/-- refinement relation: the reference map is the row list read as a function, same counters, registries as
predicates, same clocks -/
structure Rel (s : St) (t : Spec.St) : Prop where
  objs : ∀ i, t.objs i = lookup i s.db.rows
  next : t.next = s.db.next
  prov : ∀ a, t.prov a = s.providers.contains a
  cons : ∀ a, t.cons a = s.consumers.contains a
  utc : t.utcMs = s.utcMs
  mono : t.monoMs = s.monoMs
  gc : t.lastGc = s.lastGc
  idsOk : IdsOk s.db.next s.db.rows

theorem rel_init (u m : Int) : Rel (St.init u m) (Spec.St.init u m) := by
  constructor <;> simp [St.init, Spec.St.init, lookup, IdsOk, ids]

theorem listing_eq (s : St) (t : Spec.St) (h : Rel s t) : Spec.listing t = s.db.rows.map (·.2) := by
  unfold Spec.listing
  rw [h.next]
  have : t.objs = fun i => lookup i s.db.rows := funext h.objs
  rw [this]
  exact filterMap_lookup_range _ _ h.idsOk

theorem next_not_mem (n : Nat) (rows : Rows) (h : IdsOk n rows) : n ∉ ids rows :=
  fun hm => Nat.lt_irrefl _ (h.2 n hm)

/-- a maintenance pass of the implementation on related stores -/
theorem collect_rel (cfg : Cfg) (now : Int) (rows : Rows) (n : Nat) (objs : Nat → Option Record)
    (hok : IdsOk n rows) (ho : ∀ i, objs i = lookup i rows) (i : Nat) :
    Spec.collect (specOf cfg) now objs i = lookup i (collectTrash cfg now rows) := by
  rw [collectTrash_eq, lookup_filter _ _ hok.1, Spec.collect, ho i]
  cases lookup i rows with
  | none => rfl
  | some r =>
    simp only [specOf, agree_lapsed]
    cases expired now r <;> cases areaDeletes cfg.areaFixed cfg.area r.loc <;> rfl

/-- **one step**: for EVERY operation (no side condition) the implementation step and the reference step with the
parameters `specOf cfg` stay related and answer alike -/
theorem step_refines (cfg : Cfg) (s : St) (t : Spec.St) (op : Op) (h : Rel s t) :
    Rel (step cfg s op).1 (Spec.step (specOf cfg) t (toSpec op)).1
      ∧ absOut op (step cfg s op).2 = (Spec.step (specOf cfg) t (toSpec op)).2 := by
  cases op with
  | regProvider app perms =>
    simp only [step, Spec.step, toSpec, agree_providerOk]
    split
    · refine ⟨{ h with prov := ?_ }, by simp [absOut]⟩
      intro a
      simp only [Spec.setAt, contains_setAdd]
      by_cases e : a = app <;> simp [e, h.prov]
    · exact ⟨h, by simp [absOut]⟩
  | deregProvider app =>
    simp only [step, Spec.step, toSpec, h.prov app]
    split
    · refine ⟨{ h with prov := ?_ }, by simp [absOut]⟩
      intro a
      simp only [Spec.setAt, contains_setDiscard]
      by_cases e : a = app <;> simp [e, h.prov]
    · exact ⟨h, by simp [absOut]⟩
  | regConsumer app perms =>
    simp only [step, Spec.step, toSpec, agree_consumerOk]
    split
    · refine ⟨{ h with cons := ?_ }, by simp [absOut]⟩
      intro a
      simp only [Spec.setAt, contains_setAdd]
      by_cases e : a = app <;> simp [e, h.cons]
    · exact ⟨h, by simp [absOut]⟩
  | deregConsumer app =>
    simp only [step, Spec.step, toSpec, h.cons app]
    split
    · refine ⟨{ h with cons := ?_ }, by simp [absOut]⟩
      intro a
      simp only [Spec.setAt, contains_setDiscard]
      by_cases e : a = app <;> simp [e, h.cons]
    · exact ⟨h, by simp [absOut]⟩
  | advance ms =>
    simp only [step, Spec.step, toSpec]
    exact ⟨{ h with utc := by simp [h.utc], mono := by simp [h.mono] }, by simp [absOut]⟩
  | request q =>
    simp only [step, Spec.step, toSpec, if4Request, h.cons q.app, listing_eq s t h, agree_refusal, agree_answer]
    refine ⟨h, ?_⟩
    simp only [absOut]
    congr 1
  | maintain =>
    simp only [step, Spec.step, toSpec]
    refine ⟨?_, by simp [absOut]⟩
    have hc := collectTrash_eq cfg (nowIts s.utcMs) s.db.rows
    constructor
    · intro i
      simp only [h.utc, agree_nowIts]
      exact collect_rel cfg _ _ _ _ h.idsOk h.objs i
    · exact h.next
    · exact h.prov
    · exact h.cons
    · exact h.utc
    · exact h.mono
    · exact h.gc
    · simp only [hc]; exact idsOk_filter _ _ _ h.idsOk
  | delete app id =>
    simp only [step, Spec.step, toSpec, h.prov app, h.objs id, specOf]
    by_cases hg : (cfg.gated && !s.providers.contains app) = true
    · simp only [hg, if_true]
      exact ⟨h, by simp [absOut]⟩
    · simp only [hg, Bool.false_eq_true, if_false]
      cases hl : lookup id s.db.rows with
      | none => exact ⟨h, by simp [absOut]⟩
      | some r =>
        refine ⟨?_, by simp [absOut]⟩
        have hrm := removeId_eq_filter s.db.rows id h.idsOk.1
        constructor
        · intro i
          simp only [hrm, Spec.setAt]
          rw [lookup_filter _ _ h.idsOk.1, h.objs i]
          by_cases e : i = id
          · subst e; simp [hl]
          · cases lookup i s.db.rows <;> simp [e]
        · exact h.next
        · exact h.prov
        · exact h.cons
        · exact h.utc
        · exact h.mono
        · exact h.gc
        · simp only [hrm]; exact idsOk_filter _ _ _ h.idsOk
  | update app id obj =>
    simp only [step, Spec.step, toSpec, h.prov app, h.objs id, specOf]
    by_cases hg : (cfg.gated && !s.providers.contains app) = true
    · simp only [hg, if_true]
      exact ⟨h, by simp [absOut]⟩
    · simp only [hg, Bool.false_eq_true, if_false]
      cases hl : lookup id s.db.rows with
      | none => exact ⟨h, by simp [absOut]⟩
      | some r =>
        simp only
        by_cases hty : objTypeName r.obj = objTypeName obj
        · have hty' := (agree_typeCheck _ _).mp hty
          simp only [hty, hty', if_true]
          refine ⟨?_, by simp [absOut]⟩
          constructor
          · intro i
            simp only [Spec.setAt, lookup_replaceId, hl, Option.map_some]
            by_cases e : i = id <;> simp [e, h.objs i]
          · exact h.next
          · exact h.prov
          · exact h.cons
          · exact h.utc
          · exact h.mono
          · exact h.gc
          · show IdsOk _ (replaceId _ _ _)
            unfold IdsOk; rw [ids_replaceId]; exact h.idsOk
        · have hty' : ¬ Spec.typeOf r.obj = Spec.typeOf obj := fun e => hty ((agree_typeCheck _ _).mpr e)
          simp only [hty, hty', if_false]
          exact ⟨h, by simp [absOut]⟩
  | add app ts loc obj validity =>
    simp only [step, Spec.step, toSpec, h.prov app]
    by_cases hp : s.providers.contains app = true
    · simp only [hp, Bool.not_true, Bool.false_eq_true, if_false, h.mono, h.gc, h.next, h.utc, specOf,
        decide_eq_true_eq]
      have hnm := next_not_mem _ _ h.idsOk
      have hok1 := idsOk_append s.db.next s.db.rows
        { appId := app, timestamp := ts, loc := loc, obj := obj, validity := validity } h.idsOk
      have hobjs1 : ∀ i, Spec.setAt t.objs s.db.next (some { appId := app, timestamp := ts, loc := loc, obj := obj, validity := validity }) i
          = lookup i (s.db.rows ++ [(s.db.next, { appId := app, timestamp := ts, loc := loc, obj := obj, validity := validity })]) := by
        intro i
        rw [lookup_append_new _ _ _ _ hnm]
        simp only [Spec.setAt, h.objs i]
      split
      · refine ⟨?_, by simp [absOut]⟩
        constructor
        · intro i
          simp only [agree_nowIts]
          exact collect_rel cfg _ _ _ _ hok1 hobjs1 i
        · rfl
        · exact h.prov
        · exact h.cons
        · rfl
        · rfl
        · rfl
        · simp only [collectTrash_eq]; exact idsOk_filter _ _ _ hok1
      · refine ⟨?_, by simp [absOut]⟩
        constructor
        · exact hobjs1
        · rfl
        · exact h.prov
        · exact h.cons
        · rfl
        · rfl
        · rfl
        · exact hok1
    · have hp' : s.providers.contains app = false := by simpa using hp
      simp only [hp', Bool.not_false, if_true]
      exact ⟨h, by simp [absOut]⟩

theorem run_refines (cfg : Cfg) (ops : List Op) : ∀ (s : St) (t : Spec.St), Rel s t →
    Rel (run cfg s ops).1 (Spec.run (specOf cfg) t (ops.map toSpec)).1 ∧
      List.zipWith absOut ops (run cfg s ops).2 = (Spec.run (specOf cfg) t (ops.map toSpec)).2 := by
  induction ops with
  | nil => intro s t h; exact ⟨h, rfl⟩
  | cons op ops ih =>
    intro s t h
    obtain ⟨h1, ho⟩ := step_refines cfg s t op h
    obtain ⟨h2, hos⟩ := ih _ _ h1
    simp only [run, Spec.run, List.map_cons]
    exact ⟨h2, by simp only [List.zipWith_cons_cons, ho, hos]⟩



/-! ## facts about the reference machine (all parameters arbitrary) used by Props/C12.lean -/

/-- the operation is an update or delete aimed at object `i` -/
def Spec.Op.targets (i : Nat) : Spec.Op → Bool
  | .update _ j _ => j == i
  | .delete _ j => j == i
  | _ => false

/-- reference-machine invariant: nothing is stored at identifiers not handed out yet -/
def Spec.Inv (t : Spec.St) : Prop := ∀ j, t.next ≤ j → t.objs j = none

theorem spec_nowIts_mono (a b : Int) (h : a ≤ b) : Spec.nowIts a ≤ Spec.nowIts b := by
  unfold Spec.nowIts Spec.itsEpochS Spec.leapS
  omega

theorem lapsed_mono (a b : Int) (r : Record) (h : a ≤ b) (he : Spec.lapsed a r = true) : Spec.lapsed b r = true := by
  simp only [Spec.lapsed, decide_eq_true_eq] at *
  omega

/-- validity 0 is not special: such an object has lapsed as soon as the LDM clock is past its timestamp -/
theorem lapsed_validity_zero (now : Int) (r : Record) (h0 : r.validity = 0) :
    Spec.lapsed now r = decide (r.timestamp < now) := by
  simp [Spec.lapsed, h0]

theorem spec_step_utc_mono (P : Spec.Params) (t : Spec.St) (op : Spec.Op) : t.utcMs ≤ (Spec.step P t op).1.utcMs := by
  cases op <;> simp only [Spec.step] <;> (repeat' split) <;> (try simp only []) <;> omega

theorem spec_run_utc_mono (P : Spec.Params) (ops : List Spec.Op) : ∀ t : Spec.St, t.utcMs ≤ (Spec.run P t ops).1.utcMs := by
  induction ops with
  | nil => intro t; exact Int.le_refl _
  | cons op ops ih =>
    intro t
    simp only [Spec.run]
    exact Int.le_trans (spec_step_utc_mono P t op) (ih _)

theorem spec_step_next_mono (P : Spec.Params) (t : Spec.St) (op : Spec.Op) : t.next ≤ (Spec.step P t op).1.next := by
  cases op <;> simp only [Spec.step] <;> (repeat' split) <;> (try simp only []) <;> omega

theorem spec_run_next_mono (P : Spec.Params) (ops : List Spec.Op) : ∀ t : Spec.St, t.next ≤ (Spec.run P t ops).1.next := by
  induction ops with
  | nil => intro t; exact Nat.le_refl _
  | cons op ops ih =>
    intro t
    simp only [Spec.run]
    exact Nat.le_trans (spec_step_next_mono P t op) (ih _)

theorem spec_inv_init (u m : Int) : Spec.Inv (Spec.St.init u m) := by
  intro j _; rfl

theorem spec_inv_step (P : Spec.Params) (t : Spec.St) (op : Spec.Op) (h : Spec.Inv t) : Spec.Inv (Spec.step P t op).1 := by
  cases op with
  | add app ts loc obj validity =>
    simp only [Spec.step]
    split
    · exact h
    · split
      · intro j hj
        simp only at hj
        simp only [Spec.collect, Spec.setAt]
        have : ¬ j = t.next := by omega
        simp only [this, if_false, h j (by omega)]
      · intro j hj
        simp only at hj
        simp only [Spec.setAt]
        have : ¬ j = t.next := by omega
        simp only [this, if_false, h j (by omega)]
  | update app id obj =>
    simp only [Spec.step]
    split
    · exact h
    · split
      · exact h
      · next r hr =>
        split
        · intro j hj
          simp only at hj
          simp only [Spec.setAt]
          by_cases e : j = id
          · subst e; rw [h j hj] at hr; cases hr
          · simp only [e, if_false]; exact h j hj
        · exact h
  | delete app id =>
    simp only [Spec.step]
    split
    · exact h
    · split
      · exact h
      · intro j hj
        simp only at hj
        simp only [Spec.setAt]
        by_cases e : j = id
        · simp [e]
        · simp only [e, if_false]; exact h j hj
  | maintain =>
    intro j hj
    simp only [Spec.step] at hj ⊢
    simp only [Spec.collect, h j hj]
  | regProvider app perms => simp only [Spec.step]; split <;> exact h
  | deregProvider app => simp only [Spec.step]; split <;> exact h
  | regConsumer app perms => simp only [Spec.step]; split <;> exact h
  | deregConsumer app => simp only [Spec.step]; split <;> exact h
  | request q => exact h
  | advance ms => exact h

theorem spec_inv_run (P : Spec.Params) (ops : List Spec.Op) : ∀ t : Spec.St, Spec.Inv t → Spec.Inv (Spec.run P t ops).1 := by
  induction ops with
  | nil => intro t h; exact h
  | cons op ops ih => intro t h; exact ih _ (spec_inv_step P t op h)

theorem mem_listing (t : Spec.St) (r : Record) : r ∈ Spec.listing t ↔ ∃ i, i < t.next ∧ t.objs i = some r := by
  simp only [Spec.listing, List.mem_filterMap, List.mem_range]

/-! ### what one operation, judged by its ANSWER, does to a stored object -/

/-- the effect an operation with answer `o` has on object `i` holding `r`: a *successful* delete of `i` removes it,
a *successful* update of `i` replaces its content, anything else (including refused updates / deletes of `i`) nothing -/
def Spec.effectOn (i : Nat) (r : Record) : Spec.Op → Spec.Out → Option Record
  | .delete _ j, .done => if j = i then none else some r
  | .update _ j obj, .done => if j = i then some { r with obj := obj } else some r
  | _, _ => some r

/-- follow object `i` through a history with its answers -/
def Spec.follow (i : Nat) : Option Record → List Spec.Op → List Spec.Out → Option Record
  | none, _, _ => none
  | some r, op :: ops, o :: os => Spec.follow i (Spec.effectOn i r op o) ops os
  | some r, _, _ => some r

theorem follow_none (i : Nat) (ops : List Spec.Op) (os : List Spec.Out) : Spec.follow i none ops os = none := by
  cases ops <;> cases os <;> rfl

theorem effectOn_keeps_meta (i : Nat) (r r' : Record) (op : Spec.Op) (o : Spec.Out) (h : Spec.effectOn i r op o = some r') :
    r'.appId = r.appId ∧ r'.timestamp = r.timestamp ∧ r'.loc = r.loc ∧ r'.validity = r.validity := by
  cases op <;> cases o <;> simp only [Spec.effectOn] at h <;> (try split at h) <;>
    (first | (cases h; exact ⟨rfl, rfl, rfl, rfl⟩) | cases h)

theorem follow_keeps_meta (i : Nat) (ops : List Spec.Op) : ∀ (os : List Spec.Out) (r r' : Record),
    Spec.follow i (some r) ops os = some r' →
    r'.appId = r.appId ∧ r'.timestamp = r.timestamp ∧ r'.loc = r.loc ∧ r'.validity = r.validity := by
  induction ops with
  | nil => intro os r r' h; simp only [Spec.follow] at h; cases h; exact ⟨rfl, rfl, rfl, rfl⟩
  | cons op ops ih =>
    intro os r r' h
    cases os with
    | nil => simp only [Spec.follow] at h; cases h; exact ⟨rfl, rfl, rfl, rfl⟩
    | cons o os =>
      simp only [Spec.follow] at h
      cases he : Spec.effectOn i r op o with
      | none => rw [he, follow_none] at h; cases h
      | some r1 =>
        rw [he] at h
        obtain ⟨a1, a2, a3, a4⟩ := effectOn_keeps_meta i r r1 op o he
        obtain ⟨b1, b2, b3, b4⟩ := ih os r1 r' h
        exact ⟨b1.trans a1, b2.trans a2, b3.trans a3, b4.trans a4⟩

/-- one step: a stored object that has not lapsed and that the area rule keeps is afterwards exactly what
`effectOn` says -/
theorem spec_step_effect (P : Spec.Params) (t : Spec.St) (op : Spec.Op) (i : Nat) (r : Record)
    (hi : t.objs i = some r) (hlt : i < t.next)
    (hne : Spec.lapsed (Spec.nowIts t.utcMs) r = false) (hk : P.drops r.loc = false) :
    (Spec.step P t op).1.objs i = Spec.effectOn i r op (Spec.step P t op).2 := by
  cases op with
  | add app ts loc obj validity =>
    have hn : ¬ i = t.next := by omega
    simp only [Spec.step]
    split
    · exact hi
    · split
      · simp only [Spec.collect, Spec.setAt, hn, if_false, hi, hne, hk, Spec.effectOn]; rfl
      · simp only [Spec.setAt, hn, if_false, hi, Spec.effectOn]
  | update app id obj =>
    simp only [Spec.step]
    split
    · exact hi
    · cases hr : t.objs id with
      | none => exact hi
      | some r' =>
        simp only
        split
        · simp only [Spec.effectOn, Spec.setAt]
          by_cases e : id = i
          · subst e
            rw [hi] at hr; cases hr
            simp
          · have e' : ¬ i = id := fun x => e x.symm
            simp [e, e', hi]
        · exact hi
  | delete app id =>
    simp only [Spec.step]
    split
    · exact hi
    · cases hr : t.objs id with
      | none => exact hi
      | some r' =>
        simp only [Spec.effectOn, Spec.setAt]
        by_cases e : id = i
        · subst e; simp
        · have e' : ¬ i = id := fun x => e x.symm
          simp [e, e', hi]
  | maintain => simp only [Spec.step, Spec.collect, hi, hne, hk, Spec.effectOn]; rfl
  | regProvider app perms => simp only [Spec.step]; split <;> exact hi
  | deregProvider app => simp only [Spec.step]; split <;> exact hi
  | regConsumer app perms => simp only [Spec.step]; split <;> exact hi
  | deregConsumer app => simp only [Spec.step]; split <;> exact hi
  | request q => exact hi
  | advance ms => exact hi

theorem none_stays_step (P : Spec.Params) (t : Spec.St) (op : Spec.Op) (i : Nat) (hi : t.objs i = none) (hlt : i < t.next) :
    (Spec.step P t op).1.objs i = none := by
  cases op with
  | add app ts loc obj validity =>
    have hn : ¬ i = t.next := by omega
    simp only [Spec.step]
    repeat' split
    all_goals (first | exact hi | simp only [Spec.collect, Spec.setAt, hn, if_false, hi])
  | update app id obj =>
    simp only [Spec.step]
    repeat' split
    all_goals first
      | exact hi
      | (next r hr _ =>
          by_cases e : i = id
          · subst e; rw [hi] at hr; cases hr
          · simp only [Spec.setAt, e, if_false, hi])
  | delete app id =>
    simp only [Spec.step]
    repeat' split
    all_goals first
      | exact hi
      | (by_cases e : i = id
         · simp [Spec.setAt, e]
         · simp only [Spec.setAt, e, if_false, hi])
  | maintain => simp only [Spec.step, Spec.collect, hi]
  | regProvider app perms => simp only [Spec.step]; split <;> exact hi
  | deregProvider app => simp only [Spec.step]; split <;> exact hi
  | regConsumer app perms => simp only [Spec.step]; split <;> exact hi
  | deregConsumer app => simp only [Spec.step]; split <;> exact hi
  | request q => exact hi
  | advance ms => exact hi

/-- an identifier that was handed out and holds nothing never holds anything again (identifiers are not reused) -/
theorem none_stays (P : Spec.Params) (ops : List Spec.Op) : ∀ (t : Spec.St) (i : Nat), t.objs i = none → i < t.next →
    (Spec.run P t ops).1.objs i = none := by
  induction ops with
  | nil => intro t i hi _; exact hi
  | cons op ops ih =>
    intro t i hi hlt
    exact ih _ i (none_stays_step P t op i hi hlt) (Nat.lt_of_lt_of_le hlt (spec_step_next_mono P t op))

/-- **a whole history**: an object the area rule keeps and whose validity has not lapsed at the end of the history is
at the end exactly what following the ANSWERS says: removed by a successful delete aimed at it, content replaced by
every successful update aimed at it, untouched by everything else (refused updates / deletes of it included) -/
theorem run_follows (P : Spec.Params) (ops : List Spec.Op) : ∀ (t : Spec.St) (i : Nat) (r : Record),
    t.objs i = some r → i < t.next → P.drops r.loc = false →
    Spec.lapsed (Spec.nowIts (Spec.run P t ops).1.utcMs) r = false →
    (Spec.run P t ops).1.objs i = Spec.follow i (some r) ops (Spec.run P t ops).2 := by
  induction ops with
  | nil => intro t i r hi _ _ _; exact hi
  | cons op ops ih =>
    intro t i r hi hlt hk hne
    simp only [Spec.run] at hne ⊢
    have hnow : Spec.lapsed (Spec.nowIts t.utcMs) r = false := by
      cases hx : Spec.lapsed (Spec.nowIts t.utcMs) r with
      | false => rfl
      | true =>
        have hmono := Int.le_trans (spec_step_utc_mono P t op) (spec_run_utc_mono P ops (Spec.step P t op).1)
        rw [lapsed_mono _ _ r (spec_nowIts_mono _ _ hmono) hx] at hne
        cases hne
    have h1 := spec_step_effect P t op i r hi hlt hnow hk
    have hlt1 := Nat.lt_of_lt_of_le hlt (spec_step_next_mono P t op)
    simp only [Spec.follow]
    cases he : Spec.effectOn i r op (Spec.step P t op).2 with
    | none =>
      rw [he] at h1
      rw [follow_none]
      exact none_stays P ops _ i h1 hlt1
    | some r' =>
      rw [he] at h1
      obtain ⟨_, hts, hloc, hval⟩ := effectOn_keeps_meta i r r' op _ he
      apply ih _ i r' h1 hlt1 (by rw [hloc]; exact hk)
      simp only [Spec.lapsed, hts, hval] at hne ⊢
      exact hne

theorem id_out (P : Spec.Params) (t : Spec.St) (op : Spec.Op) (k : Nat) (h : (Spec.step P t op).2 = .id k) :
    k = t.next ∧ (Spec.step P t op).1.next = t.next + 1 := by
  cases op with
  | add app ts loc obj validity =>
    cases hp : t.prov app with
    | false => simp [Spec.step, hp] at h
    | true =>
      cases hg : P.reactive (t.monoMs - t.lastGc) with
      | true =>
        simp only [Spec.step, hp, hg, Bool.not_true, Bool.false_eq_true, if_false, if_true] at h ⊢
        injection h with h; exact ⟨h.symm, trivial⟩
      | false =>
        simp only [Spec.step, hp, hg, Bool.not_true, Bool.false_eq_true, if_false] at h ⊢
        injection h with h; exact ⟨h.symm, trivial⟩
  | update app id obj =>
    exfalso
    simp only [Spec.step] at h
    split at h
    · cases h
    · split at h
      · cases h
      · split at h <;> cases h
  | delete app id =>
    exfalso
    simp only [Spec.step] at h
    split at h
    · cases h
    · split at h <;> cases h
  | regProvider app perms => simp only [Spec.step] at h; split at h <;> cases h
  | deregProvider app => simp only [Spec.step] at h; split at h <;> cases h
  | regConsumer app perms => simp only [Spec.step] at h; split at h <;> cases h
  | deregConsumer app => simp only [Spec.step] at h; split at h <;> cases h
  | request q => simp only [Spec.step] at h; cases h
  | maintain => simp only [Spec.step] at h; cases h
  | advance ms => simp only [Spec.step] at h; cases h

/-! ## helpers for the implementation-level corollaries of Props/C12.lean -/

/-- identifiers handed out by the accepted adds of a history -/
def handedOut : List Spec.Out → List Nat
  | [] => []
  | .id n :: t => n :: handedOut t
  | _ :: t => handedOut t

theorem handedOut_ge (P : Spec.Params) (ops : List Spec.Op) :
    ∀ (t : Spec.St), ∀ n ∈ handedOut (Spec.run P t ops).2, t.next ≤ n := by
  induction ops with
  | nil => intro t n h; simp [Spec.run, handedOut] at h
  | cons op ops ih =>
    intro t n h
    simp only [Spec.run] at h
    have hmono := spec_step_next_mono P t op
    have hrest : ∀ k ∈ handedOut (Spec.run P (Spec.step P t op).1 ops).2, t.next ≤ k :=
      fun k hk => Nat.le_trans hmono (ih _ k hk)
    cases hop : (Spec.step P t op).2 with
    | id k =>
      rw [hop] at h
      simp only [handedOut, List.mem_cons] at h
      rcases h with h | h
      · subst h
        have := (id_out P t op n hop).1
        omega
      · exact hrest n h
    | _ => rw [hop] at h; exact hrest n h

/-- states of the implementation model reachable by some history from some start clocks -/
def Reach (cfg : Cfg) (s : St) : Prop := ∃ u m ops, s = (run cfg (St.init u m) ops).1

theorem reach_rel (cfg : Cfg) (s : St) (h : Reach cfg s) : ∃ t, Rel s t ∧ Spec.Inv t := by
  obtain ⟨u, m, ops, rfl⟩ := h
  exact ⟨_, (run_refines cfg ops _ _ (rel_init u m)).1, spec_inv_run _ _ _ (spec_inv_init u m)⟩

theorem run_append (cfg : Cfg) (a b : List Op) : ∀ s : St,
    run cfg s (a ++ b) = ((run cfg (run cfg s a).1 b).1, (run cfg s a).2 ++ (run cfg (run cfg s a).1 b).2) := by
  induction a with
  | nil => intro s; rfl
  | cons op a ih => intro s; simp only [List.cons_append, run, ih]

theorem reach_step (cfg : Cfg) (s : St) (op : Op) (h : Reach cfg s) : Reach cfg (step cfg s op).1 := by
  obtain ⟨u, m, ops, rfl⟩ := h
  exact ⟨u, m, ops ++ [op], by rw [run_append]; rfl⟩

theorem reach_run (cfg : Cfg) (ops : List Op) : ∀ s, Reach cfg s → Reach cfg (run cfg s ops).1 := by
  induction ops with
  | nil => intro s h; exact h
  | cons op ops ih => intro s h; exact ih _ (reach_step cfg s op h)

theorem run_length (cfg : Cfg) (ops : List Op) : ∀ s : St, (run cfg s ops).2.length = ops.length := by
  induction ops with
  | nil => intro s; rfl
  | cons op ops ih => intro s; simp only [run, List.length_cons, ih]

theorem absOut_add_id (app : Nat) (ts : Int) (loc : Loc) (obj : JVal) (v : Int) (o : Out) (i : Nat)
    (h : absOut (.add app ts loc obj v) o = .id i) : o = .code i := by
  cases o with
  | code n =>
    simp only [absOut] at h
    split at h
    · cases h
    · injection h with h
      congr 1
      omega
  | req r => simp [absOut] at h
  | exc e => simp [absOut] at h
  | none => simp [absOut] at h

theorem absOut_request_ok (q : Request) (o : Out) (rs : List Record)
    (h : absOut (.request q) o = .req (.ok rs)) : o = .req (.ok rs) := by
  cases o with
  | code n => simp only [absOut] at h; split at h <;> cases h
  | req r => simp only [absOut] at h; injection h with h; rw [h]
  | exc e => simp [absOut] at h
  | none => simp [absOut] at h

end FlexModel.Ldm

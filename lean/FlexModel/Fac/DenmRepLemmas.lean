/-
Lemmas about the repetition-body interleaving model `FlexModel/Fac/DenmRep.lean` (C17, round 4).
Invariant `Inv`: every hand-over so far is the event's own, and every thread that is inside a repetition has put its
own identity / position into ITS object as far as its program counter says - an object no other thread writes when the
scope is thread-private (`perRepetition`, `perEvent`).
-/
import FlexModel.Fac.DenmRep

namespace FlexModel.Fac.Denm.Rep
open FlexModel.Fac.Denm

theorem updH_same (h : Obj → Msg) (o : Obj) (m : Msg) : updH h o m o = m := by simp [updH]
theorem updH_ne (h : Obj → Msg) (o x : Obj) (m : Msg) (hx : x ≠ o) : updH h o m x = h x := by simp [updH, hx]
theorem updC_same (c : Nat → Ctl) (t : Nat) (v : Ctl) : updC c t v t = v := by simp [updC]
theorem updC_ne (c : Nat → Ctl) (t x : Nat) (v : Ctl) (hx : x ≠ t) : updC c t v x = c x := by simp [updC, hx]

/-- what thread `t` (event `e`) has established about its own object -/
structure Good (sc : Scope) (e : Event) (t : Nat) (s : St) : Prop where
  pcle : (s.ctl t).pc ≤ 5
  aid : 2 ≤ (s.ctl t).pc → (s.heap (objOf sc t (s.ctl t).k)).aid = ⟨e.station, e.seq⟩
  pos : 3 ≤ (s.ctl t).pc → (s.heap (objOf sc t (s.ctl t).k)).pos = e.pos
  data : 4 ≤ (s.ctl t).pc → (s.ctl t).data = ⟨⟨e.station, e.seq⟩, e.pos⟩
  lat : 5 ≤ (s.ctl t).pc → (s.ctl t).lat = e.pos.lat

structure Inv (sc : Scope) (evs : List Event) (s : St) : Prop where
  outs : ∀ o ∈ s.out, Own evs o
  thr : ∀ t e, evs[t]? = some e → Good sc e t s
  cnt : ∀ t, (outsOf s t).length = (s.ctl t).k

theorem inv_init (sc : Scope) (evs : List Event) : Inv sc evs init := by
  refine ⟨?_, ?_, ?_⟩
  · intro o ho; simp [init] at ho
  · intro t e _
    refine ⟨by simp [init], ?_, ?_, ?_, ?_⟩ <;> intro h <;> simp [init] at h
  · intro t; simp [outsOf, init]

/-- objects of different threads differ when the scope is thread-private -/
theorem objOf_ne (sc : Scope) (hp : sc.threadPrivate = true) (t u k k' : Nat) (htu : t ≠ u) :
    objOf sc t k ≠ objOf sc u k' := by
  cases sc with
  | perRepetition => intro hc; simp only [objOf] at hc; injection hc with h1 _; exact htu h1
  | perEvent => intro hc; simp only [objOf] at hc; injection hc with h1 _; exact htu h1
  | shared => simp [Scope.threadPrivate] at hp

/-- the heap after a step of thread `u`, seen at an object that is not `u`'s current one -/
theorem micro_heap_other (sc : Scope) (u : Nat) (eu : Event) (s : St) (x : Obj) (hx : x ≠ objOf sc u (s.ctl u).k) :
    (micro sc u eu s).heap x = s.heap x := by
  unfold micro
  simp only
  split
  · rfl
  · split
    · cases sc <;> simp [updH_ne _ _ _ _ hx]
    · simp [updH_ne _ _ _ _ hx]
    · simp [updH_ne _ _ _ _ hx]
    · rfl
    · rfl
    · rfl

theorem micro_ctl_other (sc : Scope) (e : Event) (t u : Nat) (s : St) (h : u ≠ t) : (micro sc t e s).ctl u = s.ctl u := by
  unfold micro
  simp only
  split
  · rfl
  · split <;> simp [updC_ne _ _ _ _ h]

/-- a step of ANOTHER thread leaves `Good e t` alone (thread-private objects) -/
theorem good_other (sc : Scope) (hp : sc.threadPrivate = true) (e : Event) (t u : Nat) (eu : Event) (s : St)
    (htu : t ≠ u) (h : Good sc e t s) : Good sc e t (micro sc u eu s) := by
  have hc : (micro sc u eu s).ctl t = s.ctl t := micro_ctl_other sc eu u t s htu
  have hh : ∀ k, (micro sc u eu s).heap (objOf sc t k) = s.heap (objOf sc t k) :=
    fun k => micro_heap_other sc u eu s _ (objOf_ne sc hp t u k _ htu)
  refine ⟨?_, ?_, ?_, ?_, ?_⟩ <;> rw [hc]
  · exact h.pcle
  · rw [hh]; exact h.aid
  · rw [hh]; exact h.pos
  · exact h.data
  · exact h.lat

/-- a step of the thread itself re-establishes `Good` -/
theorem good_self (sc : Scope) (e : Event) (t : Nat) (s : St) (h : Good sc e t s) : Good sc e t (micro sc t e s) := by
  unfold micro
  simp only
  split
  · exact h
  · have hp := h.pcle
    split
    · -- new
      refine ⟨?_, ?_, ?_, ?_, ?_⟩ <;> simp [updC_same]
    · -- fill the action id
      refine ⟨?_, ?_, ?_, ?_, ?_⟩ <;> simp [updC_same, updH_same]
    · -- fill the position
      rename_i hpc
      have ha := h.aid (by omega)
      refine ⟨?_, ?_, ?_, ?_, ?_⟩ <;> simp [updC_same, updH_same, ha]
    · -- encode
      rename_i hpc
      have ha := h.aid (by omega)
      have hq := h.pos (by omega)
      refine ⟨?_, ?_, ?_, ?_, ?_⟩ <;> simp [updC_same, ha, hq]
      · rw [← ha, ← hq]
    · -- latitude
      rename_i hpc
      have ha := h.aid (by omega)
      have hq := h.pos (by omega)
      have hd := h.data (by omega)
      refine ⟨?_, ?_, ?_, ?_, ?_⟩ <;> simp [updC_same, ha, hq, hd]
    · -- longitude + hand-over: the next repetition starts
      refine ⟨?_, ?_, ?_, ?_, ?_⟩ <;> simp [updC_same]

/-- the hand-over of thread `t` is its own -/
theorem micro_out (sc : Scope) (e : Event) (t : Nat) (s : St) (h : Good sc e t s) :
    (micro sc t e s).out = s.out ∨
    (micro sc t e s).out = s.out ++ [⟨t, ⟨e.station, e.seq⟩, e.pos, e.pos⟩] := by
  unfold micro
  simp only
  split
  · exact Or.inl rfl
  · have hp := h.pcle
    split
    · exact Or.inl rfl
    · exact Or.inl rfl
    · exact Or.inl rfl
    · exact Or.inl rfl
    · exact Or.inl rfl
    · rename_i h0 h1 h2 h3 h4
      have h0' : (s.ctl t).pc ≠ 0 := h0
      have h1' : (s.ctl t).pc ≠ 1 := h1
      have h2' : (s.ctl t).pc ≠ 2 := h2
      have h3' : (s.ctl t).pc ≠ 3 := h3
      have h4' : (s.ctl t).pc ≠ 4 := h4
      have h5 : (s.ctl t).pc = 5 := by omega
      have hq := h.pos (by omega)
      have hd := h.data (by omega)
      have hl := h.lat (by omega)
      right
      simp only [hd, hl, hq]

/-- the counter `k` of a thread advances exactly with its hand-overs -/
theorem micro_k (sc : Scope) (e : Event) (t : Nat) (s : St) :
    ((micro sc t e s).out = s.out ∧ ((micro sc t e s).ctl t).k = (s.ctl t).k) ∨
    (∃ o, o.thread = t ∧ (micro sc t e s).out = s.out ++ [o] ∧
      ((micro sc t e s).ctl t).k = (s.ctl t).k + 1) := by
  unfold micro
  simp only
  split
  · exact Or.inl ⟨rfl, rfl⟩
  · split
    · exact Or.inl ⟨rfl, by simp [updC_same]⟩
    · exact Or.inl ⟨rfl, by simp [updC_same]⟩
    · exact Or.inl ⟨rfl, by simp [updC_same]⟩
    · exact Or.inl ⟨rfl, by simp [updC_same]⟩
    · exact Or.inl ⟨rfl, by simp [updC_same]⟩
    · exact Or.inr ⟨_, rfl, rfl, by simp [updC_same]⟩

theorem inv_step (sc : Scope) (hp : sc.threadPrivate = true) (evs : List Event) (s : St) (t : Nat)
    (h : Inv sc evs s) : Inv sc evs (stepT sc evs s t) := by
  unfold stepT
  cases he : evs[t]? with
  | none => exact h
  | some e =>
    simp only
    have hg := h.thr t e he
    refine ⟨?_, ?_, ?_⟩
    · intro o ho
      rcases micro_out sc e t s hg with h1 | h1
      · rw [h1] at ho; exact h.outs o ho
      · rw [h1, List.mem_append] at ho
        rcases ho with ho | ho
        · exact h.outs o ho
        · simp only [List.mem_singleton] at ho
          subst ho
          exact ⟨e, he, rfl, rfl, rfl⟩
    · intro u eu heu
      by_cases hut : u = t
      · subst hut
        have : eu = e := by rw [he] at heu; exact (Option.some.inj heu).symm
        subst this
        exact good_self sc eu u s hg
      · exact good_other sc hp eu u t e s hut (h.thr u eu heu)
    · intro u
      by_cases hut : u = t
      · subst hut
        rcases micro_k sc e u s with ⟨h1, h2⟩ | ⟨o, ho, h1, h2⟩
        · simp only [outsOf, h1, h2]; exact h.cnt u
        · simp only [outsOf, h1, h2, List.filter_append, List.length_append]
          have := h.cnt u
          simp only [outsOf] at this
          simp [this, ho]
      · rw [micro_ctl_other _ e t u s hut]
        rcases micro_k sc e t s with ⟨h1, _⟩ | ⟨o, ho, h1, _⟩
        · simp only [outsOf, h1]; exact h.cnt u
        · simp only [outsOf, h1, List.filter_append, List.length_append]
          have hne : (o.thread == u) = false := by
            simp only [beq_eq_false_iff_ne, ne_eq, ho]
            exact fun hc => hut hc.symm
          have := h.cnt u
          simp only [outsOf] at this
          simp [this, hne]

theorem inv_run (sc : Scope) (hp : sc.threadPrivate = true) (evs : List Event) (sched : List Nat) :
    Inv sc evs (run sc evs sched) := by
  unfold run
  suffices h : ∀ s, Inv sc evs s → Inv sc evs (sched.foldl (stepT sc evs) s) from h _ (inv_init sc evs)
  induction sched with
  | nil => intro s hs; exact hs
  | cons t r ih => intro s hs; exact ih _ (inv_step sc hp evs s t hs)

/-- a thread never runs more repetitions than its event has -/
theorem k_le_reps (sc : Scope) (evs : List Event) (sched : List Nat) (t : Nat) (e : Event) (he : evs[t]? = some e) :
    ((run sc evs sched).ctl t).k ≤ e.reps := by
  unfold run
  suffices h : ∀ s : St, (s.ctl t).k ≤ e.reps → ((sched.foldl (stepT sc evs) s).ctl t).k ≤ e.reps from
    h _ (by simp [init])
  induction sched with
  | nil => intro s hs; exact hs
  | cons u r ih =>
    intro s hs
    apply ih
    unfold stepT
    cases heu : evs[u]? with
    | none => exact hs
    | some eu =>
      simp only
      by_cases hut : t = u
      · subst hut
        have : eu = e := by rw [he] at heu; exact (Option.some.inj heu).symm
        subst this
        unfold micro
        simp only
        split
        · exact hs
        · rename_i hlt
          split <;> simp [updC_same] <;> omega
      · rw [micro_ctl_other _ eu u t s hut]; exact hs

end FlexModel.Fac.Denm.Rep

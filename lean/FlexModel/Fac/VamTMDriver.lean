import FlexModel.Proto
import FlexModel.Fac.VamTM
namespace FlexModel.Fac.Vam
open FlexModel.Proto

def optNat? (s : String) : Option (Option Nat) :=
  if s == "-" then some none else (nat? s).map some
def optInt? (s : String) : Option (Option Int) :=
  if s == "-" then some none else (int? s).map some
def b (x : Bool) : String := if x then "1" else "0"
def showOpt : Option Nat → String | none => "-" | some n => toString n

def stLine (s : State) : String :=
  s!"st {showOpt s.lastGdt} {s.lastLat7} {s.lastLon7} {s.lastSpeedCm} {s.lastHeadingDdeg} {b s.isFirst} {showOpt s.lastLf}"

/-- init gated tgen lfAfterSend | report rid its|- lat7|- lon7|- speed|- heading|- wall gate clusterOp fail -/
def vamStep (s : State) (t : List String) : State × String :=
  match t with
  | ["init", g, tg, lfa] =>
    match nat? g, nat? tg, nat? lfa with
    | some g, some tg, some lfa => let s' := init (g != 0) tg (lfa != 0); (s', stLine s')
    | _, _, _ => (s, "bad-op")
  | ["report", rid, its, la, lo, v, h, wall, gate, cop, fl] =>
    match nat? rid, optNat? its, optInt? la, optInt? lo, optNat? v, optNat? h, nat? wall, nat? gate, nat? cop, nat? fl with
    | some rid, some its, some la, some lo, some v, some h, some wall, some gate, some cop, some fl =>
      let pos := match la, lo with | some a, some c => some (a, c) | _, _ => none
      let (s', o) := step s { r := { rid := rid, its := its, pos := pos, speed := v, heading := h },
                              wall := wall, gate := gate != 0, clusterOp := cop != 0, fail := fl != 0 }
      match o with
      | none => (s', "none " ++ stLine s')
      | some c => (s', s!"vam {b c.lf} {c.gdt} {c.rid} " ++ stLine s')
    | _, _, _, _, _, _, _, _, _, _ => (s, "bad-op")
  | _ => (s, "bad-op")

def vamDomain : Domain := { σ := State, init := init false, step := vamStep }
end FlexModel.Fac.Vam

/-
Model of the DEN service originating / receiving side (C17):
  facilities/decentralized_environmental_notification_service/denm_transmission_management.py
    DecentralizedEnvironmentalNotificationMessage.fullfill_with_vehicle_data / fullfill_with_denrequest
    DENMTransmissionManagement.allocate_sequence_number / trigger_denm_messages /
      send_collision_risk_warning_denm / transmit_denm
  facilities/.../denm_reception_management.py  feed_ldm
  applications/road_hazard_signalling_service/emergency_vehicle_approaching_service.py trigger_denm_sending

Time is in integer milliseconds.  `time.sleep(interval/1000)` is modelled as advancing the clock by
exactly `interval` ms (virtual time; real sleep drift is outside the model, see design_notes/C17.md).
Core Lean only.
-/
namespace FlexModel.Fac.Denm

structure Pos where
  lat : Int
  lon : Int
  deriving DecidableEq, Repr

/-- actionId = (originatingStationId, sequenceNumber) -/
structure ActionId where
  station : Nat
  seq : Nat
  deriving DecidableEq, Repr

/-- the fields of a DENM the property talks about -/
structure Denm where
  stationId : Nat          -- header.stationId
  action : ActionId        -- management.actionId
  refTime : Nat            -- management.referenceTime  (ITS ms)
  pos : Pos                -- management.eventPosition latitude/longitude
  interval : Int           -- management.TransmissionInterval (as requested)
  deriving DecidableEq, Repr

inductive Shape | circle | rect | ellipse
  deriving DecidableEq, Repr

/-- BTPDataRequest built by `transmit_denm` -/
structure GbcReq where
  port : Nat
  shape : Shape
  a : Nat
  b : Nat
  angle : Nat
  centre : Pos
  denm : Denm
  deriving DecidableEq, Repr

/-- DENRequest: the fields used by the repetition loop -/
structure Request where
  interval : Int           -- denm_interval [ms]
  period : Int             -- time_period  [ms]
  pos : Pos                -- event_position (value at request time)
  deriving DecidableEq, Repr

/-- how `trigger_denm_messages` ends -/
inductive Ending
  | finished          -- the `while` condition became false
  | sleepValueError   -- `time.sleep` of a negative interval raises ValueError after the first DENM (thread dies)
  | nonTerminating    -- `denm_interval = 0` with `time_period > 0`: `transmission_time` never advances
  | aborted (k : Nat) -- OLD code only: repetition `k` raised (coder / transport) and the thread died
  deriving DecidableEq, Repr

/-- what happens to repetition `k` of an event below the DEN service: nothing, the DENM cannot be built / encoded
    (`denm_coder.encode` raises: nothing is handed over), or the transport layer raises while the DENM is handed over
    (`btp_router.btp_data_request` raises: the hand-over was attempted) -/
inductive Fault | ok | encode | transport
  deriving DecidableEq, Repr

/-! ## The repetition loop -/

/-- `while transmission_time < time_period: emit; sleep(i); transmission_time += i`
    – the offsets at which a DENM is handed over, for `i > 0`; structural recursion on fuel. -/
def loop : (fuel : Nat) → (i T t : Nat) → List Nat
  | 0, _, _, _ => []
  | f + 1, i, T, t => if t < T then t :: loop f i T (t + i) else []

/-- the same loop when every `time.sleep(i)` + message construction really takes `i + d k` ms (`d k ≥ 0`: scheduling
    latency, encoding time): `transmission_time` still counts nominal intervals, `now` is the real elapsed time at which
    the DENM is handed over -/
def loopDrift (d : Nat → Nat) : (fuel : Nat) → (i T t now k : Nat) → List Nat
  | 0, _, _, _, _, _ => []
  | f + 1, i, T, t, now, k => if t < T then now :: loopDrift d f i T (t + i) (now + i + d k) (k + 1) else []

/-- offsets of the DENMs of one request, `i > 0`: every step advances `t` by `i ≥ 1`, so `T` steps are enough fuel -/
def offsets (i T : Nat) : List Nat := loop T i T 0

/-- ⌈T / i⌉ -/
def ceilDiv (T i : Nat) : Nat := (T + i - 1) / i

/-- prefix of the infinite emission stream when `denm_interval = 0` (all at offset 0) -/
def stuckPrefix (n : Nat) : List Nat := List.replicate n 0

/-- offsets and ending of `trigger_denm_messages` for arbitrary Python ints.
    `i = 0 ∧ T > 0` is the non-termination branch: the real thread emits DENMs back-to-back for ever
    (`time.sleep(0)`, `transmission_time += 0`); the model returns the empty finite part and flags it. -/
def triggerOffsets (i T : Int) : List Nat × Ending :=
  if T ≤ 0 then ([], .finished)
  else if i < 0 then ([0], .sleepValueError)
  else if i = 0 then ([], .nonTerminating)
  else (offsets i.toNat T.toNat, .finished)

/-! ## Identity, reference time, request -/

/-- `fullfill_with_vehicle_data` + `fullfill_with_denrequest` at clock reading `now` -/
def mkDenm (station seq : Nat) (r : Request) (now : Nat) : Denm :=
  { stationId := station, action := ⟨station, seq⟩, refTime := now, pos := r.pos, interval := r.interval }

/-- `transmit_denm` -/
def mkReq (d : Denm) : GbcReq :=
  { port := 2002, shape := .circle, a := 100, b := 0, angle := 0, centre := d.pos, denm := d }

/-- DENM transmission management state: station id and the per-station sequence counter -/
structure TM where
  station : Nat
  next : Nat
  deriving DecidableEq, Repr

def seqMod : Nat := 65536

/-- `allocate_sequence_number` (atomic under `_sequence_number_lock`) -/
def alloc (tm : TM) : Nat × TM := (tm.next, { tm with next := (tm.next + 1) % seqMod })

/-- one event: `trigger_denm_messages` started at absolute time `start`, with the clock `clk`
    (absolute virtual ms ↦ ITS timestamp).  Result: new TM, timed emission log, ending. -/
def runEvent (clk : Nat → Nat) (tm : TM) (start : Nat) (r : Request) : TM × List (Nat × GbcReq) × Ending :=
  let (seq, tm') := alloc tm
  let (offs, e) := triggerOffsets r.interval r.period
  (tm', offs.map (fun o => (o, mkReq (mkDenm tm.station seq r (clk (start + o))))), e)

/-- `send_collision_risk_warning_denm`: one DENM at once, own sequence number -/
def runCrw (clk : Nat → Nat) (tm : TM) (start : Nat) (r : Request) : TM × List (Nat × GbcReq) :=
  let (seq, tm') := alloc tm
  (tm', [(0, mkReq (mkDenm tm.station seq r (clk start)))])

/-- an application request to the DEN service: a repeated event or a one-shot collision-risk warning -/
inductive Ev
  | rep (start : Nat) (r : Request)
  | crw (start : Nat) (r : Request)
  deriving Repr

def runEv (clk : Nat → Nat) (tm : TM) : Ev → TM × List (Nat × GbcReq)
  | .rep s r => let (tm', log, _) := runEvent clk tm s r; (tm', log)
  | .crw s r => runCrw clk tm s r

/-- several events of one station (any start times, hence any overlap): sequence numbers are allocated in
    the order in which the requests are served (the repetition threads start). One log per event. -/
def runEvents (clk : Nat → Nat) : TM → List Ev → List (List (Nat × GbcReq))
  | _, [] => []
  | tm, e :: rest => (runEv clk tm e).2 :: runEvents clk (runEv clk tm e).1 rest

/-! ## Failing repetitions (fix C17-F3: a repetition that raises is logged and skipped, the schedule goes on) -/

/-- repetition indices that reach the transport layer when the loop runs `n` repetitions and survives failures -/
def attempts (fk : Nat → Fault) (n : Nat) : List Nat := (List.range n).filter (fun k => fk k != .encode)

/-- index of the first failing repetition below `n`, if any -/
def firstFault (fk : Nat → Fault) (n : Nat) : Option Nat := (List.range n).find? (fun k => fk k != .ok)

/-- OLD loop (no `try` around the repetition): the thread dies at the first failing repetition `k0`; the
    repetitions before it were handed over, `k0` itself only if it failed in the transport -/
def attemptsAbort (fk : Nat → Fault) (n : Nat) : List Nat × Ending :=
  match firstFault fk n with
  | none => (List.range n, .finished)
  | some k0 => (List.range (if fk k0 = .transport then k0 + 1 else k0), .aborted k0)

/-- one event with interval `i > 0` under faults `fk` (repaired loop).  Log entries: offset, request, and whether
    the transport accepted it (`true`) or raised (`false`). -/
def runEventF (clk : Nat → Nat) (tm : TM) (start : Nat) (r : Request) (fk : Nat → Fault) :
    TM × List (Nat × GbcReq × Bool) × Ending :=
  let (seq, tm') := alloc tm
  let i := r.interval.toNat
  let n := ceilDiv r.period.toNat i
  (tm', (attempts fk n).map (fun k => (k * i, mkReq (mkDenm tm.station seq r (clk (start + k * i))), fk k == .ok)),
   .finished)

/-- the same event on the OLD loop -/
def runEventAbort (clk : Nat → Nat) (tm : TM) (start : Nat) (r : Request) (fk : Nat → Fault) :
    TM × List (Nat × GbcReq × Bool) × Ending :=
  let (seq, tm') := alloc tm
  let i := r.interval.toNat
  let n := ceilDiv r.period.toNat i
  let (ks, e) := attemptsAbort fk n
  (tm', ks.map (fun k => (k * i, mkReq (mkDenm tm.station seq r (clk (start + k * i))), fk k == .ok)), e)

/-! ## Event position read by reference (OLD `request_denm_sending`; fix C17-F4 copies it at request time) -/

/-- OLD: the request aliases the caller's position dictionary; repetition at absolute time `t` reads `posAt t` -/
def runEventRef (clk : Nat → Nat) (tm : TM) (start : Nat) (i T : Int) (posAt : Nat → Pos) :
    List (Nat × GbcReq) :=
  (triggerOffsets i T).1.map (fun o => (o, mkReq (mkDenm tm.station tm.next ⟨i, T, posAt (start + o)⟩ (clk (start + o)))))

/-- action id of an event's log (none when nothing was emitted) -/
def eventAction (log : List (Nat × GbcReq)) : Option ActionId := log.head?.map (·.2.denm.action)

/-! ## Old behaviour (before fixes C17-F1 / C17-F2), kept for the witness theorems -/

/-- every DENM object started its own `sequence_number = 0` -/
def runEventOld (clk : Nat → Nat) (tm : TM) (start : Nat) (r : Request) : List (Nat × GbcReq) :=
  (triggerOffsets r.interval r.period).1.map (fun o => (o, mkReq (mkDenm tm.station 0 r (clk (start + o)))))

/-- EmergencyVehicleApproachingService kept ONE mutable `event_position` dict shared by all its requests:
    a repetition at absolute time `t` carried the position of the latest trigger at or before `t`. -/
def aliasedPos (triggers : List (Nat × Pos)) (t : Nat) (dflt : Pos) : Pos :=
  triggers.foldl (fun acc (s, p) => if s ≤ t then p else acc) dflt

/-! ## Reception → LDM -/

structure LdmEntry where
  appId : Nat        -- DENM = 1
  lat : Int
  lon : Int
  alt : Int
  radius : Nat
  obj : Denm
  deriving DecidableEq, Repr

/-- the record `feed_ldm` builds: AddDataProviderReq with a circle of radius 0 at the DENM's event position -/
def mkEntry (d : Denm) (alt : Int) : LdmEntry :=
  { appId := 1, lat := d.pos.lat, lon := d.pos.lon, alt := alt, radius := 0, obj := d }

/-- `feed_ldm` into an LDM whose maintenance does not run -/
def feedLdm (ldm : List LdmEntry) (d : Denm) (alt : Int) : List LdmEntry := ldm ++ [mkEntry d alt]

/-- `feed_ldm` into the LDM built by `LDMFactory` (reactive maintenance): `add_provider_data` inserts the record
    and, when a collection is `due` (>= 1 s since the last one), runs `collect_trash`, which removes every record
    the collection's deletion test `del` selects (time validity and area of maintenance; modelled in detail for C12,
    abstract here) - the record just inserted included. -/
def feedLdmM (del : LdmEntry → Bool) (due : Bool) (ldm : List LdmEntry) (d : Denm) (alt : Int) : List LdmEntry :=
  if due then (ldm ++ [mkEntry d alt]).filter (fun e => !del e) else ldm ++ [mkEntry d alt]

/-- SPEC (property text, independent of `feed_ldm`): the LDM holds DENM `d` as a DENM data object (application
    id 1) located at `d`'s event position -/
def StoredAt (ldm : List LdmEntry) (d : Denm) : Prop :=
  ∃ e ∈ ldm, e.appId = 1 ∧ e.obj = d ∧ e.lat = d.pos.lat ∧ e.lon = d.pos.lon

def receiveAll (ldm : List LdmEntry) (ds : List (Denm × Int)) : List LdmEntry :=
  ds.foldl (fun l (d, alt) => feedLdm l d alt) ldm

end FlexModel.Fac.Denm

import FlexModel.Proto
import FlexModel.Fac.Mapping
namespace FlexModel.Fac.Mapping
open FlexModel.Proto Generated.Fac

/-- "num/den" or integer -/
def rat? (s : String) : Option Rat :=
  match s.splitOn "/" with
  | [n] => (int? n).map (fun i => (i : Rat))
  | [n, d] => match int? n, nat? d with
    | some n, some d => if d = 0 then none else some ((n : Rat) / (d : Rat))
    | _, _ => none
  | _ => none

def optRat? (s : String) : Option (Option Rat) := if s == "-" then some none else (rat? s).map some

def pair? (a b : Option Rat) : Option (Rat × Rat) :=
  match a, b with | some x, some y => some (x, y) | _, _ => none

/-- msg kind lat7 lon7 alt100 epx epx100 epy epy100 epv epd epd10 track10 speed100   (each exact rational or `-`)
    → lat lon major minor orient alt altconf heading hconf speed
    gdt utcMs → gdt ;  rec msec rxMs → reconstructed -/
def mapStep (_ : Unit) (t : List String) : Unit × String :=
  match t with
  | ["msg", kind, la, lo, al, ex, ex100, ey, ey100, ev, ed, ed10, tr, sp] =>
    match optRat? la, optRat? lo, optRat? al, optRat? ex, optRat? ex100, optRat? ey, optRat? ey100,
          optRat? ev, optRat? ed, optRat? ed10, optRat? tr, optRat? sp with
    | some la, some lo, some al, some ex, some ex100, some ey, some ey100, some ev, some ed, some ed10, some tr, some sp =>
      let errs : Option (Err × Err) :=
        match pair? ex ex100, pair? ey ey100 with
        | some (a, b), some (c, d) => some (⟨a, b⟩, ⟨c, d⟩)
        | _, _ => none
      if kind == "cam" then
        let e := camEllipse errs
        ((), s!"{latitude la} {longitude lo} {e.major} {e.minor} {e.orientation} {altitude camAlt al} {altConf ev} {heading CAM_HEADING_MOD tr} {headingConf (pair? ed ed10)} {camSpeed sp}")
      else if kind == "vam" then
        let e := vamEllipse errs
        ((), s!"{latitude la} {longitude lo} {e.major} {e.minor} {e.orientation} {altitude vamAlt al} {altConf ev} {heading VAM_HEADING_MOD tr} {headingConf (pair? ed ed10)} {vamSpeed sp}")
      else if kind == "denm" then
        ((), s!"{latitude la} {longitude lo} {altitude denmAlt al}")
      else ((), "bad-op")
    | _, _, _, _, _, _, _, _, _, _, _, _ => ((), "bad-op")
  | ["gdt", ms] =>
    match int? ms with
    | some ms => ((), toString (gdt ms))
    | none => ((), "bad-op")
  | ["rec", msec, rx] =>
    match int? msec, int? rx with
    | some m, some r => ((), toString (reconstruct m r))
    | _, _ => ((), "bad-op")
  | _ => ((), "bad-op")

def mapDomain : Domain := { σ := Unit, init := (), step := mapStep }
end FlexModel.Fac.Mapping

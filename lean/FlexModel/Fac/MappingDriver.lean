import FlexModel.Proto
import FlexModel.Fac.Mapping
namespace FlexModel.Fac.Mapping
open FlexModel.Proto Generated.Fac Generated.Fac11

/-- "num/den" or integer -/
def rat? (s : String) : Option Rat :=
  match s.splitOn "/" with
  | [n] => (int? n).map (fun i => (i : Rat))
  | [n, d] => match int? n, nat? d with
    | some n, some d => if d = 0 then none else some ((n : Rat) / (d : Rat))
    | _, _ => none
  | _ => none

def optRat? (s : String) : Option (Option Rat) := if s == "-" then some none else (rat? s).map some

def pair? (a b : Option Rat) : Option (Rat × Rat) :=
  match a, b with | some x, some y => some (x, y) | _, _ => none

/-- 12 tokens `lat7 lon7 alt100 epx epx100 epy epy100 epv epd epd10 track10 speed100` (each an exact rational or `-`) -/
def report? (t : List String) : Option Report :=
  match t with
  | [la, lo, al, ex, ex100, ey, ey100, ev, ed, ed10, tr, sp] =>
    match optRat? la, optRat? lo, optRat? al, optRat? ex, optRat? ex100, optRat? ey, optRat? ey100,
          optRat? ev, optRat? ed, optRat? ed10, optRat? tr, optRat? sp with
    | some la, some lo, some al, some ex, some ex100, some ey, some ey100, some ev, some ed, some ed10, some tr, some sp =>
      some { lat := la, lon := lo, alt := al,
             epx := (pair? ex ex100).map (fun p => ⟨p.1, p.2⟩), epy := (pair? ey ey100).map (fun p => ⟨p.1, p.2⟩),
             epv := ev, epd := pair? ed ed10, track := tr, speed := sp }
    | _, _, _, _, _, _, _, _, _, _, _, _ => none
  | _ => none

def showFields (f : Fields) : String :=
  s!"{f.lat} {f.lon} {f.ell.major} {f.ell.minor} {f.ell.orientation} {f.alt} {f.altConf} {f.heading} {f.hconf} {f.speed}"

def showPos (p : EvPos) : String := s!"{p.lat} {p.lon} {p.alt}"

def showInfo : InfoRes → String
  | .absent => "absent"
  | .info i r c => s!"info {i} {r} {c}"
  | .fail => "fail"

/-- driver state: ONE CAM transmission management (report cache + send state) and ONE emergency-vehicle service -/
structure Drv where
  cache : Option Report := none
  eva : EvPos := evUnavailable
  tx : Tx := {}
  ph : PhTx := {}

/-- `dlat:dlon:dt` (exact rationals) -/
def hoff? (t : String) : Option HOff :=
  match t.splitOn ":" with
  | [a, b, c] => match rat? a, rat? b, rat? c with
    | some a, some b, some c => some ⟨a, b, c⟩
    | _, _, _ => none
  | _ => none

def showPath (ps : List PathPoint) : String :=
  " ".intercalate (toString ps.length :: ps.map (fun p => s!"{p.dlat},{p.dlon},{p.dalt},{p.dtime}"))

def vbs? (s : String) : Option Vbs :=
  if s == "idle" then some .idle else if s == "standalone" then some .standalone
  else if s == "leader" then some .leader else if s == "passive" then some .passive else none

def joinSub? (s : String) : Option JoinSub :=
  if s == "none" then some .none else if s == "notify" then some .notify else if s == "waiting" then some .waiting
  else if s == "cancelled" then some .cancelled else if s == "failed" then some .failed
  else if s == "joined" then some .joined else none

def bool01? (s : String) : Option Bool := if s == "1" then some true else if s == "0" then some false else none

def b01 (b : Bool) : String := if b then "1" else "0"

def showSend : SendRes → String
  | .silent => "silent"
  | .sent i o f => s!"sent {b01 i} {b01 o} {b01 f}"
  | .fail => "fail"

def bits? (s : String) : Option (List Bool) :=
  s.toList.mapM (fun c => if c == '1' then some true else if c == '0' then some false else none)

/-- one token of a `denmsnap` line after the position: `rep` | `lat:v` | `lon:v` | `ell:a:b:c` | `alt:v:c` (in place) |
`nell:a:b:c` | `nalt:v:c` (the caller binds the key to a new record) -/
def snapTok? (t : String) : Option (Option CallerOp) :=
  if t == "rep" then some none else
  match t.splitOn ":" with
  | ["lat", v] => (int? v).map (fun v => some (.setLat v))
  | ["lon", v] => (int? v).map (fun v => some (.setLon v))
  | ["ell", a, b, c] => match int? a, int? b, int? c with
    | some a, some b, some c => some (some (.ellInPlace ⟨a, b, c⟩)) | _, _, _ => none
  | ["nell", a, b, c] => match int? a, int? b, int? c with
    | some a, some b, some c => some (some (.ellRebind ⟨a, b, c⟩)) | _, _, _ => none
  | ["alt", v, c] => match int? v, nat? c with
    | some v, some c => some (some (.altInPlace ⟨v, c⟩)) | _, _ => none
  | ["nalt", v, c] => match int? v, nat? c with
    | some v, some c => some (some (.altRebind ⟨v, c⟩)) | _, _ => none
  | _ => none

/-- tokens -> the caller's operations before each repetition (operations after the last `rep` are dropped) -/
def snapHist (ts : List (Option CallerOp)) : List (List CallerOp) :=
  (ts.foldl (fun (acc : List (List CallerOp) × List CallerOp) t =>
    match t with
    | none => (acc.1 ++ [acc.2], [])
    | some op => (acc.1, acc.2 ++ [op])) ([], [])).1

def showReqPos (p : ReqPos) : String :=
  s!"{p.lat} {p.lon} {p.ell.major} {p.ell.minor} {p.ell.orient} {p.alt.value} {p.alt.conf}"

/-- msg kind <report>            → lat lon major minor orient alt altconf heading hconf speed   (stateless builders)
    reset                        → ok        (fresh transmission management / service)
    camrep <report>              → ok        (location_service_callback on the CAM transmission management)
    camtick                      → fields of the CAM built from the cached report | none
    denmrep <report>             → lat lon alt of the DENM event position (trigger_denm_sending on the same service)
    tx role nowMs                → sent <roleName|-> | skipped          (one generation attempt)
    role r                       → name index|-
    gdt utcMs → gdt ;  rec msec rxMs → reconstructed ;  clock p3 p6 → camMs vamMs ;  ms p6 → from_timestamp ms
    rxrec cam|vam msec p3 p6     → generation time reconstructed by the reception management reading its clock
    conc leader hasCluster id radius card sched(0/1*) → absent | info id radius card | fail
    uper lo:hi:v …               → value bits   (the encoder's accumulator after the constrained INTEGER fields)
    ph dlat:dlon:dt …            → n dlat,dlon,dalt,dt …   (`_get_path_history` on the stored entries, newest first)
    phtick nowMs pos(0/1) dlat:dlon:dt … → sent <-|path> hist=n | skipped hist=n   (one generation attempt, same state as reset)
    vamsend none|idle|standalone|leader|passive cluster breakup join leaveNotify ldm → silent | sent info op fed | fail
    denmsnap lat lon major minor orient alt altConfIdx tok… → the position each repetition (`rep`) encodes, ` | `-separated -/
def mapStep (s : Drv) (t : List String) : Drv × String :=
  match t with
  | "msg" :: kind :: rest =>
    match report? rest with
    | some r =>
      if kind == "cam" then (s, showFields (camFields r))
      else if kind == "vam" then (s, showFields (vamFields r))
      else if kind == "denm" then (s, showPos (denmPos r))
      else (s, "bad-op")
    | none => (s, "bad-op")
  | ["reset"] => ({}, "ok")
  | "camrep" :: rest =>
    match report? rest with
    | some r => ({ s with cache := cacheStep CAM_TPV_CACHE_REPLACE s.cache r }, "ok")
    | none => (s, "bad-op")
  | ["camtick"] =>
    match s.cache with
    | some r => (s, showFields (camFields r))
    | none => (s, "none")
  | "denmrep" :: rest =>
    match report? rest with
    | some r => let p := evaStep DENM_POS_FRESH s.eva r; ({ s with eva := p }, showPos p)
    | none => (s, "bad-op")
  | ["tx", role, now] =>
    match nat? role, int? now with
    | some role, some now =>
      let tx' := txStep VEHICLE_ROLE_NAMES VehicleRole_names role s.tx now
      if tx'.out.length == s.tx.out.length then ({ s with tx := tx' }, "skipped")
      else ({ s with tx := tx' }, "sent " ++ (match tx'.out.head? with | some (some n) => n | _ => "-"))
    | _, _ => (s, "bad-op")
  | ["role", r] =>
    match nat? r with
    | some r =>
      let n := roleName VEHICLE_ROLE_NAMES r
      let i := VehicleRole_names.idxOf n
      (s, n ++ " " ++ (if i < VehicleRole_names.length then toString (VehicleRole_values.getD i 99) else "-"))
    | none => (s, "bad-op")
  | ["gdt", ms] =>
    match int? ms with
    | some ms => (s, toString (gdt ms))
    | none => (s, "bad-op")
  | ["rec", msec, rx] =>
    match int? msec, int? rx with
    | some m, some r => (s, toString (reconstruct m r))
    | _, _ => (s, "bad-op")
  | ["clock", p3, p6] =>
    match rat? p3, rat? p6 with
    | some p3, some p6 => (s, s!"{clockMs RX_CLOCK_EXACT_CAM p3 p6} {clockMs RX_CLOCK_EXACT_VAM p3 p6}")
    | _, _ => (s, "bad-op")
  | ["rxrec", kind, msec, p3, p6] =>
    match int? msec, rat? p3, rat? p6 with
    | some m, some p3, some p6 =>
      if kind == "cam" then (s, toString (reconstruct m (clockMs RX_CLOCK_EXACT_CAM p3 p6)))
      else if kind == "vam" then (s, toString (reconstruct m (clockMs RX_CLOCK_EXACT_VAM p3 p6)))
      else (s, "bad-op")
    | _, _, _ => (s, "bad-op")
  | ["ms", p6] =>
    match rat? p6 with
    | some p6 => (s, toString (msOfMicros p6))
    | none => (s, "bad-op")
  | ["conc", leader, hasC, id, radius, card, sched] =>
    match nat? leader, nat? hasC, nat? id, rat? radius, nat? card, bits? sched with
    | some l, some h, some id, some radius, some card, some sched =>
      let m : Mgr := ⟨l == 1, if h == 1 then some ⟨id, radius, card⟩ else none⟩
      (s, showInfo (concRun infoLocked m sched))
    | _, _, _, _, _, _ => (s, "bad-op")
  | "ph" :: offs =>
    match offs.mapM hoff? with
    | some hs => (s, showPath (pathHistory hs))
    | none => (s, "bad-op")
  | "phtick" :: now :: pos :: offs =>
    match int? now, bool01? pos, offs.mapM hoff? with
    | some now, some pos, some hs =>
      let ph' := phAttempt phGuard PH_CAP s.ph now pos hs
      if ph'.out.length == s.ph.out.length then ({ s with ph := ph' }, s!"skipped hist={ph'.histLen}")
      else ({ s with ph := ph' },
            "sent " ++ (match ph'.out.head? with | some (some ps) => showPath ps | _ => "-") ++ s!" hist={ph'.histLen}")
    | _, _, _ => (s, "bad-op")
  | ["vamsend", st, cl, br, jn, lv, ldm] =>
    match bool01? cl, bool01? br, joinSub? jn, bool01? lv, bool01? ldm with
    | some cl, some br, some jn, some lv, some ldm =>
      let c : Option (Option ClState) :=
        if st == "none" then some none else (vbs? st).map (fun v => some ⟨v, cl, br, jn, lv⟩)
      match c with
      | some c => (s, showSend (vamSend VAM_LDM_SNAPSHOT_DEEP VAM_LDM_FEED_GUARDED CHOICE_DEEPCOPYABLE c ldm))
      | none => (s, "bad-op")
    | _, _, _, _, _ => (s, "bad-op")
  | "denmsnap" :: la :: lo :: a :: b :: c :: v :: cf :: toks =>
    match int? la, int? lo, int? a, int? b, int? c, int? v, nat? cf, toks.mapM snapTok? with
    | some la, some lo, some a, some b, some c, some v, some cf, some ts =>
      (s, " | ".intercalate ((repetitions DENM_REQ_SNAPSHOT ⟨la, lo, ⟨a, b, c⟩, ⟨v, cf⟩⟩ (snapHist ts)).map showReqPos))
    | _, _, _, _, _, _, _, _ => (s, "bad-op")
  | "uper" :: fields =>
    let parsed := fields.mapM (fun t => match t.splitOn ":" with
      | [lo, hi, v] => (match int? lo, int? hi, int? v with
        | some lo, some hi, some v => some ((⟨lo, hi⟩ : IntField), v)
        | _, _, _ => none)
      | _ => none)
    match parsed with
    | some fs => let b := encodeInts fs; (s, s!"{b.value} {b.len}")
    | none => (s, "bad-op")
  | _ => (s, "bad-op")

def mapDomain : Domain := { σ := Drv, init := {}, step := mapStep }
end FlexModel.Fac.Mapping

/-
Concurrent origination of DEN events (C17): `DENMTransmissionManagement.allocate_sequence_number` at the level of
its individual accesses to `self.sequence_number`, executed by any number of application / repetition threads under
ANY interleaving, on the generic interleaving semantics `FlexModel/Conc/Sched.lean`.

The source layout of the method (which accesses there are, in which order, which of them are inside the
`with self._sequence_number_lock:` section) is re-read from /repo on every run into `Generated/Denm.lean`
(`harness/gen_denm.py`); `Props/C17.lean` proves `Generated.Denm.allocLayout ∈ okLayouts` by `decide`, so moving an
access out of the section re-opens that obligation.

State `Nat → Nat`: variable 0 = `self.sequence_number`, variable `t + 1` = the local `sequence_number` of thread `t`
(the value `allocate_sequence_number` returns to it = the sequence number of the action id of its event).
The lock section is reduced to ONE atomic block by the mechanised reduction theorem (`Conc/Reduction`); the atomic
block is `Denm.alloc`.  Imports core Lean and `Generated/Denm.lean` only.
-/
import FlexModel.Conc.Reduction
import FlexModel.Fac.Denm
import Generated.Denm

namespace FlexModel.Fac.Denm.Conc
open FlexModel.Conc FlexModel.Conc.Reduction FlexModel.Fac.Denm

abbrev St := Nat → Nat
def ctr : Nat := 0
def reg (t : Nat) : Nat := t + 1
def lk : Lock := 0

/-- statements of `allocate_sequence_number` as the generator classifies them -/
inductive Tok
  | acq            -- `with self._sequence_number_lock:` entered
  | rel            -- … left
  | readToLocal    -- `<local> = self.sequence_number`
  | incrFromAttr   -- `self.sequence_number = (self.sequence_number + 1) % 65536`
  | incrFromLocal  -- `self.sequence_number = (<local> + 1) % 65536`
  | other          -- anything else touching the object (never accepted)
  deriving DecidableEq, Repr

/-- layout codes of `Generated/Denm.lean` (harness/gen_denm.py) -/
def tokOfNat : Nat → Tok
  | 0 => .acq | 1 => .rel | 2 => .readToLocal | 3 => .incrFromAttr | 4 => .incrFromLocal | _ => .other

/-- the layout of `allocate_sequence_number` in the tree under check -/
def sourceLayout : List Tok := Generated.Denm.allocLayout.map tokOfNat

/-- `<local> = self.sequence_number` -/
def rd (t : Nat) : MB Nat Nat := MB.assign (reg t) [ctr] (fun s => s ctr)
/-- `self.sequence_number = (self.sequence_number + 1) % 65536` -/
def wrA (_t : Nat) : MB Nat Nat := MB.assign ctr [ctr] (fun s => (s ctr + 1) % seqMod)
/-- `self.sequence_number = (<local> + 1) % 65536` -/
def wrL (t : Nat) : MB Nat Nat := MB.assign ctr [reg t] (fun s => (s (reg t) + 1) % seqMod)

theorem framed_rd (t : Nat) : (rd t).Framed := framed_assign _ _ _ (fun s s' h => h ctr (by simp))
theorem framed_wrA (t : Nat) : (wrA t).Framed :=
  framed_assign _ _ _ (fun s s' h => by simp only [h ctr (by simp)])
theorem framed_wrL (t : Nat) : (wrL t).Framed :=
  framed_assign _ _ _ (fun s s' h => by simp only [h (reg t) (by simp)])

/-- instruction-level program of thread `t` for a source layout -/
def aProg (t : Nat) : List Tok → List (AInstr Nat Nat)
  | [] => []
  | .acq :: r => .acq lk :: aProg t r
  | .rel :: r => .rel lk :: aProg t r
  | .readToLocal :: r => .blk (rd t) :: aProg t r
  | .incrFromAttr :: r => .blk (wrA t) :: aProg t r
  | .incrFromLocal :: r => .blk (wrL t) :: aProg t r
  | .other :: r => aProg t r

/-- the layout of the code as it is (fix C17-F1) -/
def layoutA : List Tok := [.acq, .readToLocal, .incrFromAttr, .rel]
/-- an equivalent layout (write-back computed from the local, still inside the section) -/
def layoutB : List Tok := [.acq, .readToLocal, .incrFromLocal, .rel]
/-- the layouts for which the theorems below are proved -/
def okLayouts : List (List Tok) := [layoutA, layoutB]
/-- seeded change C17-m1 ("narrowed" critical section): the read happens before the lock is taken -/
def layoutNarrow : List Tok := [.readToLocal, .acq, .incrFromLocal, .rel]

def fineProgs (lay : List Tok) (n : Nat) : List (List (Instr St)) :=
  (List.range n).map (fun t => eraseProg (aProg t lay))

/-- the section as ONE atomic block: `Denm.alloc` on the counter, result into the thread's local -/
def allocBlk (t : Nat) : St → St := fun s => upd (upd s (reg t) (s ctr)) ctr ((s ctr + 1) % seqMod)

/-- block model: one atomic block per call of `allocate_sequence_number` -/
def coarseProgs (n : Nat) : List (List (Instr St)) := (List.range n).map (fun t => sect lk (allocBlk t))

/-- the atomic block is `Denm.alloc` -/
theorem allocBlk_is_alloc (t : Nat) (s : St) (station : Nat) :
    (allocBlk t s (reg t), allocBlk t s ctr) =
      ((alloc ⟨station, s ctr⟩).1, (alloc ⟨station, s ctr⟩).2.next) := by
  simp [allocBlk, alloc, upd, reg, ctr]

theorem pipeA (t : Nat) : pipe [(rd t).f, (wrA t).f] = allocBlk t := by
  funext s
  funext v
  simp only [pipe, List.foldl, rd, wrA, MB.assign, allocBlk, upd, reg, ctr]
  by_cases h : v = 0
  · simp [h]
  · simp [h]
    rfl

theorem pipeB (t : Nat) : pipe [(rd t).f, (wrL t).f] = allocBlk t := by
  funext s
  funext v
  simp only [pipe, List.foldl, rd, wrL, MB.assign, allocBlk, upd, reg, ctr]
  by_cases h : v = 0
  · simp [h]
  · simp [h]
    rfl

/-- (i) decomposition: the instruction-level programs fuse to the block model -/
theorem fuse_fine (lay : List Tok) (hl : lay ∈ okLayouts) (n : Nat) : (fineProgs lay n).map fuse = coarseProgs n := by
  simp only [fineProgs, coarseProgs, List.map_map]
  apply List.map_congr_left
  intro t _
  simp only [okLayouts, List.mem_cons, List.not_mem_nil, or_false] at hl
  rcases hl with rfl | rfl
  · show fuse (sectN lk ([(rd t).f] ++ [(wrA t).f])) = _
    rw [fuse_sectN lk [(rd t).f] (wrA t).f]
    show sect lk (pipe [(rd t).f, (wrA t).f]) = _
    rw [pipeA]
  · show fuse (sectN lk ([(rd t).f] ++ [(wrL t).f])) = _
    rw [fuse_sectN lk [(rd t).f] (wrL t).f]
    show sect lk (pipe [(rd t).f, (wrL t).f]) = _
    rw [pipeB]

/-- the lock map: the counter is protected by the lock, variable `t + 1` is local to thread `t` -/
def prot : Nat → Guard := fun v => if v = 0 then .lock lk else .loc (v - 1)

theorem check_locked (lay : List Tok) (hl : lay ∈ okLayouts) (t : Nat) : lockCheck prot t [] (aProg t lay) = true := by
  simp only [okLayouts, List.mem_cons, List.not_mem_nil, or_false] at hl
  rcases hl with rfl | rfl <;>
    simp [layoutA, layoutB, aProg, lockCheck, allowedB, rd, wrA, wrL, MB.assign, prot, reg, ctr, lk]

theorem allFramed (lay : List Tok) (t : Nat) : AllFramed (aProg t lay) := by
  induction lay with
  | nil => intro m hm; simp [aProg] at hm
  | cons a r ih =>
    intro m hm
    cases a <;> simp only [aProg, List.mem_cons, AInstr.blk.injEq, reduceCtorEq, false_or] at hm
    · exact ih m hm
    · exact ih m hm
    · rcases hm with rfl | hm
      · exact framed_rd t
      · exact ih m hm
    · rcases hm with rfl | hm
      · exact framed_wrA t
      · exact ih m hm
    · rcases hm with rfl | hm
      · exact framed_wrL t
      · exact ih m hm
    · exact ih m hm

/-- (ii) the protection facts hold for the instruction-level programs -/
theorem protected_fine (lay : List Tok) (hl : lay ∈ okLayouts) (n : Nat) : Protected prot (fineProgs lay n) := by
  have e : fineProgs lay n = ((List.range n).map (fun t => aProg t lay)).map eraseProg := by
    simp [fineProgs, List.map_map, Function.comp_def]
  rw [e]
  apply protected_of_check prot ((List.range n).map (fun t => aProg t lay))
  · intro t p hp
    simp only [List.getElem?_map, Option.map_eq_some_iff] at hp
    obtain ⟨k, hk, rfl⟩ := hp
    have : k = t := by
      have := List.getElem?_eq_some_iff.mp hk
      obtain ⟨_, h2⟩ := this
      exact (by simpa using h2 : t = k).symm
    subst this
    exact check_locked lay hl k
  · intro p hp
    simp only [List.mem_map] at hp
    obtain ⟨t, _, rfl⟩ := hp
    exact allFramed lay t

theorem discipline_fine (lay : List Tok) (hl : lay ∈ okLayouts) (n : Nat) : Discipline (fineProgs lay n) :=
  discipline_of_protected prot _ (protected_fine lay hl n)

/-! ## the block model: any schedule serves the threads in SOME order, each getting the next number -/

/-- sequential service of the threads in `order` -/
def serve (order : List Nat) (x : St) : St := order.foldl (fun s t => allocBlk t s) x

theorem allocBlk_ctr (t : Nat) (s : St) : allocBlk t s ctr = (s ctr + 1) % seqMod := by
  simp [allocBlk, upd, ctr]

theorem allocBlk_reg_self (t : Nat) (s : St) : allocBlk t s (reg t) = s ctr := by
  simp [allocBlk, upd, reg, ctr]

theorem allocBlk_reg_ne (t u : Nat) (s : St) (h : u ≠ t) : allocBlk t s (reg u) = s (reg u) := by
  simp [allocBlk, upd, reg, ctr, h]

theorem serve_reg_notin (order : List Nat) (x : St) (u : Nat) (h : u ∉ order) : serve order x (reg u) = x (reg u) := by
  induction order generalizing x with
  | nil => rfl
  | cons t r ih =>
    simp only [List.mem_cons, not_or] at h
    simp only [serve, List.foldl_cons] at ih ⊢
    rw [ih (allocBlk t x) h.2, allocBlk_reg_ne t u x h.1]

theorem serve_ctr (order : List Nat) (x : St) (hx : x ctr < seqMod) :
    serve order x ctr = (x ctr + order.length) % seqMod := by
  induction order generalizing x with
  | nil => simp [serve, Nat.mod_eq_of_lt hx]
  | cons t r ih =>
    simp only [serve, List.foldl_cons] at ih ⊢
    rw [ih (allocBlk t x) (by rw [allocBlk_ctr]; exact Nat.mod_lt _ (by decide)), allocBlk_ctr, List.length_cons]
    unfold seqMod; omega

/-- the `k`-th thread served gets `(counter + k) mod 65536` -/
theorem serve_reg (order : List Nat) (hnd : order.Nodup) (x : St) (hx : x ctr < seqMod) (k t : Nat)
    (hk : order[k]? = some t) : serve order x (reg t) = (x ctr + k) % seqMod := by
  induction order generalizing x k with
  | nil => simp at hk
  | cons a r ih =>
    have hnd' := List.nodup_cons.mp hnd
    simp only [serve, List.foldl_cons] at ih ⊢
    cases k with
    | zero =>
      simp only [List.getElem?_cons_zero, Option.some.injEq] at hk
      subst hk
      have := serve_reg_notin r (allocBlk a x) a hnd'.1
      simp only [serve] at this
      rw [this, allocBlk_reg_self, Nat.add_zero, Nat.mod_eq_of_lt hx]
    | succ k =>
      simp only [List.getElem?_cons_succ] at hk
      rw [ih hnd'.2 (allocBlk a x) (by rw [allocBlk_ctr]; exact Nat.mod_lt _ (by decide)) k hk, allocBlk_ctr]
      unfold seqMod; omega

/-- a trace all of whose blocks are the allocation blocks of their threads is a sequential service -/
theorem applyAll_serve (tr : List (ThreadId × (St → St))) (h : ∀ p ∈ tr, p.2 = allocBlk p.1) (x : St) :
    applyAll tr x = serve (tr.map (·.1)) x := by
  induction tr generalizing x with
  | nil => rfl
  | cons p r ih =>
    simp only [applyAll, serve, List.foldl_cons, List.map_cons] at ih ⊢
    rw [h p (by simp)]
    exact ih (fun q hq => h q (List.mem_cons_of_mem _ hq)) _

theorem progOf_coarse (x : St) (n u : Nat) :
    blocksOf (progOf (mkSys x (coarseProgs n)) u) = if u < n then [allocBlk u] else [] := by
  unfold progOf mkSys coarseProgs
  by_cases h : u < n
  · simp [h, sect, blocksOf]
  · simp [h, blocksOf]

theorem progOf_finished (s : Sys St) (h : finished s = true) (u : Nat) : progOf s u = [] := by
  unfold progOf
  cases hu : s.thr[u]? with
  | none => rfl
  | some th =>
    unfold finished at h
    rw [List.all_eq_true] at h
    have := h th (List.mem_of_getElem? hu)
    simpa using this

theorem count_range (n t : Nat) : List.count t (List.range n) = if t < n then 1 else 0 := by
  induction n with
  | zero => simp
  | succ n ih =>
    rw [List.range_succ, List.count_append, ih]
    by_cases h1 : t < n
    · have : ¬ n = t := by omega
      simp [h1, this, Nat.lt_succ_of_lt h1]
    · by_cases h2 : t = n
      · subst h2; simp
      · have : ¬ t < n + 1 := by omega
        have h3 : ¬ n = t := fun e => h2 e.symm
        simp [h1, this, h3]

/-- **Block model.** Under every schedule of the block model that finishes all `n` threads, the threads were
served in some order (a permutation of `0 … n-1`): the `k`-th served holds `(counter + k) mod 65536`, and the
counter ends at `(counter + n) mod 65536`. -/
theorem coarse_serves (n : Nat) (x : St) (hx : x ctr < seqMod) (csched : List ThreadId)
    (hfin : finished (run (mkSys x (coarseProgs n)) csched) = true) :
    ∃ order : List Nat, order.Perm (List.range n) ∧
      (∀ k t, order[k]? = some t → (run (mkSys x (coarseProgs n)) csched).sh (reg t) = (x ctr + k) % seqMod) ∧
      (run (mkSys x (coarseProgs n)) csched).sh ctr = (x ctr + n) % seqMod := by
  let s0 := mkSys x (coarseProgs n)
  let tr := trace s0 csched
  have hby : ∀ u, tracedBy u tr = if u < n then [allocBlk u] else [] := by
    intro u
    have h := trace_thread_order s0 csched u
    rw [progOf_finished _ hfin u, progOf_coarse] at h
    simpa [blocksOf] using h
  have hfun : ∀ p ∈ tr, p.2 = allocBlk p.1 := by
    intro p hp
    have hmem : p.2 ∈ tracedBy p.1 tr := by
      simp only [tracedBy, List.mem_map, List.mem_filter]
      exact ⟨p, ⟨hp, by simp⟩, rfl⟩
    rw [hby p.1] at hmem
    by_cases h : p.1 < n
    · simpa [h] using hmem
    · simp [h] at hmem
  have hcount : ∀ u, List.count u (tr.map (·.1)) = if u < n then 1 else 0 := by
    intro u
    have h1 : List.count u (tr.map (·.1)) = (tracedBy u tr).length := by
      rw [List.count_eq_length_filter, List.filter_map, List.length_map]
      simp [tracedBy, Function.comp_def]
    rw [h1, hby u]
    by_cases h : u < n <;> simp [h]
  have hperm : (tr.map (·.1)).Perm (List.range n) := by
    rw [List.perm_iff_count]
    intro u
    rw [hcount u, count_range]
  have hnd : (tr.map (·.1)).Nodup := hperm.nodup_iff.mpr List.nodup_range
  have hsh : (run s0 csched).sh = serve (tr.map (·.1)) x := by
    rw [run_eq_trace, applyAll_serve tr hfun]
    rfl
  refine ⟨tr.map (·.1), hperm, ?_, ?_⟩
  · intro k t hk
    show (run s0 csched).sh (reg t) = _
    rw [hsh]
    exact serve_reg _ hnd x hx k t hk
  · show (run s0 csched).sh ctr = _
    rw [hsh, serve_ctr _ x hx, hperm.length_eq, List.length_range]

/-- **Instruction level.** The same for every interleaving of the individual accesses, for every accepted layout. -/
theorem fine_serves (lay : List Tok) (hl : lay ∈ okLayouts) (n : Nat) (x : St) (hx : x ctr < seqMod)
    (sched : List ThreadId) (hfin : finished (run (mkSys x (fineProgs lay n)) sched) = true) :
    ∃ order : List Nat, order.Perm (List.range n) ∧
      (∀ k t, order[k]? = some t → (run (mkSys x (fineProgs lay n)) sched).sh (reg t) = (x ctr + k) % seqMod) ∧
      (run (mkSys x (fineProgs lay n)) sched).sh ctr = (x ctr + n) % seqMod := by
  obtain ⟨csched, hcf, hsh⟩ :=
    (block_model_sound (coarseProgs n) (fineProgs lay n) (fuse_fine lay hl n) (discipline_fine lay hl n) x sched).2 hfin
  obtain ⟨order, hp, h1, h2⟩ := coarse_serves n x hx csched hcf
  rw [hsh] at h1 h2
  exact ⟨order, hp, h1, h2⟩

theorem mod_add_ne (a j j' : Nat) (h : j < j') (hd : j' - j < seqMod) : (a + j) % seqMod ≠ (a + j') % seqMod := by
  unfold seqMod at *; omega

/-- two different threads hold different numbers when fewer than 65536 events are originated concurrently -/
theorem fine_distinct (lay : List Tok) (hl : lay ∈ okLayouts) (n : Nat) (hn : n ≤ seqMod) (x : St)
    (hx : x ctr < seqMod) (sched : List ThreadId)
    (hfin : finished (run (mkSys x (fineProgs lay n)) sched) = true) (t u : Nat) (ht : t < n) (hu : u < n)
    (htu : t ≠ u) :
    (run (mkSys x (fineProgs lay n)) sched).sh (reg t) ≠ (run (mkSys x (fineProgs lay n)) sched).sh (reg u) := by
  obtain ⟨order, hp, h1, _⟩ := fine_serves lay hl n x hx sched hfin
  have hlen : order.length = n := by rw [hp.length_eq, List.length_range]
  have hmem : ∀ v, v < n → ∃ k, k < n ∧ order[k]? = some v := by
    intro v hv
    have : v ∈ order := hp.mem_iff.mpr (List.mem_range.mpr hv)
    obtain ⟨k, hk, hkv⟩ := List.getElem_of_mem this
    exact ⟨k, by omega, by rw [List.getElem?_eq_getElem hk, hkv]⟩
  obtain ⟨k, hkn, hk⟩ := hmem t ht
  obtain ⟨k', hkn', hk'⟩ := hmem u hu
  rw [h1 k t hk, h1 k' u hk']
  have hne : k ≠ k' := by
    intro e
    subst e
    rw [hk] at hk'
    exact htu (Option.some.inj hk')
  rcases Nat.lt_or_gt_of_ne hne with h | h
  · exact mod_add_ne _ k k' h (by omega)
  · exact fun e => mod_add_ne _ k' k h (by omega) e.symm

/-! ## the narrowed section (seeded change C17-m1): two events get the same number -/

/-- thread 0 reads, thread 1 reads, then both take the lock in turn and write back -/
def narrowSched : List ThreadId := [0, 1, 0, 0, 0, 1, 1, 1]

theorem narrow_duplicates :
    finished (run (mkSys (fun _ => 0) (fineProgs layoutNarrow 2)) narrowSched) = true ∧
    (run (mkSys (fun _ => 0) (fineProgs layoutNarrow 2)) narrowSched).sh (reg 0) =
      (run (mkSys (fun _ => 0) (fineProgs layoutNarrow 2)) narrowSched).sh (reg 1) ∧
    (run (mkSys (fun _ => 0) (fineProgs layoutNarrow 2)) narrowSched).sh ctr = 1 := by decide

/-- the lock map check fails for the narrowed layout (the read of the counter is outside the section) -/
theorem narrow_check_fails (t : Nat) : lockCheck prot t [] (aProg t layoutNarrow) = false := by
  simp [layoutNarrow, aProg, lockCheck, allowedB, rd, MB.assign, prot, reg, ctr]

end FlexModel.Fac.Denm.Conc

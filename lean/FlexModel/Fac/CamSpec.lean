/-
C10, CAM part: the rules of the property text / TS 103 900 §6.1.3 as monitors over the event log
(op, emitted CAM) of a run.  Written from the property text with its own numbers (100 ms, 1 s, 500 ms,
4 deg / 4 m / 0.5 m/s); nothing here refers to the state of the model.  An emitted CAM is a TRANSMISSION
(a PDU handed to BTP), whether or not the sender's bookkeeping noticed it.  `hav` is the distance function
(any function): the reference position it is applied to is tracked by the monitor from the log.
-/
import FlexModel.Fac.CamTM
import FlexModel.Fac.CamMonitor

namespace FlexModel.Fac.CamSpec
open FlexModel.Fac.Cam

abbrev Ev := Op × Option CamOut

def T_GenCamMin : Nat := 100
def T_GenCamMax : Nat := 1000
def T_LF : Nat := 500

/-- `last` is absent or at least `d` before `now` -/
def noneOrSince (last : Option Nat) (d now : Nat) : Bool :=
  match last with | none => true | some t => decide (t + d ≤ now)
/-- `last` exists and is at least `d` before `now` -/
def since (last : Option Nat) (d now : Nat) : Bool :=
  match last with | none => false | some t => decide (t + d ≤ now)
/-- `last` is absent or `now` is at most `d` after it -/
def within (last : Option Nat) (d now : Nat) : Bool :=
  match last with | none => true | some t => decide (now ≤ t + d)
/-- `last` exists and `now` is more than `d` after it -/
def beyond (last : Option Nat) (d now : Nat) : Bool :=
  match last with | none => false | some t => decide (t + d < now)

/-! ### silent before start / after stop (also for a callback that was in flight when `stop()` ran) -/
structure SilentSt where
  active : Bool := false
  deriving Repr

def silentMon (m : SilentSt) : Ev → Option SilentSt
  | (.start, none) => some { active := true }
  | (.stop, none) => some { active := false }
  | (.report _, none) => some m
  | (.expire _, none) => some m
  | (.check _ _, none) => some m
  | (.check _ _, some _) => if m.active then some m else none
  | (_, some _) => none

/-! ### consecutive CAMs of one activation are at least T_GenCamMin apart -/
structure MinGapSt where
  active : Bool := false
  last : Option Nat := none

def minGapMon (m : MinGapSt) : Ev → Option MinGapSt
  | (.start, _) => some (if m.active then m else { active := true, last := none })
  | (.stop, _) => some { m with active := false }
  | (.report _, _) => some m
  | (.expire _, _) => some m
  | (.check _ _, none) => some m
  | (.check now _, some c) =>
    if c.t = now ∧ noneOrSince m.last T_GenCamMin now = true
    then some { m with last := some now } else none

/-! ### ALL consecutive CAMs, across stop/start cycles too, are at least T_GenCamMin apart -/
structure GMinGapSt where
  last : Option Nat := none

def gMinGapMon (m : GMinGapSt) : Ev → Option GMinGapSt
  | (.check now _, some c) =>
    if c.t = now ∧ noneOrSince m.last T_GenCamMin now = true then some { last := some now } else none
  | (_, _) => some m

/-! ### at most T_GenCamMax + P apart while serviceable (report present, no failure, checks ≤ P apart); the first
serviceable check of an activation sends (`hold`: unless less than T_GenCamMin has passed since the last CAM of the
previous activation) -/
structure MaxGapSt where
  active : Bool := false
  hasCur : Bool := false
  last : Option Nat := none     -- last CAM of this activation
  prev : Option Nat := none     -- time of the previous check of this activation
  clean : Bool := true          -- every check since the last CAM was serviceable
  glast : Option Nat := none    -- last CAM of any activation

def near (prev : Option Nat) (now P : Nat) : Bool :=
  match prev with
  | none => true
  | some p => decide (p ≤ now ∧ now ≤ p + P)

def heldSpec (hold : Bool) (glast : Option Nat) (now : Nat) : Bool :=
  hold && (match glast with | some g => decide (now < g + T_GenCamMin) | none => false)

def maxGapMon (hold : Bool) (P : Nat) (m : MaxGapSt) : Ev → Option MaxGapSt
  | (.start, _) => some (if m.active then m else { m with active := true, last := none, prev := none, clean := true })
  | (.stop, _) => some { m with active := false }
  | (.report _, _) => some { m with hasCur := true }
  | (.expire _, _) => some m
  | (.check now f, out) =>
    if !m.active then some m
    else
      let good := m.hasCur && decide (f = Fail.none) && near m.prev now P
      match out with
      | some _ =>
        if (m.clean && good) = true → within m.last (T_GenCamMax + P) now = true
        then some { m with last := some now, prev := some now, clean := true, glast := some now } else none
      | none =>
        if good = true ∧ m.last = none ∧ heldSpec hold m.glast now = false
        then none                                      -- the first CAM of an activation is immediate
        else if (m.clean && good) = true ∧ beyond m.last (T_GenCamMax + P) now = true
        then none                                      -- overdue and still nothing
        else some { m with prev := some now, clean := m.clean && good }

/-! ### responsiveness: ≥ 100 ms elapsed and dynamics beyond 4 deg / 4 m / 0.5 m/s → CAM at this check -/
structure RespSt where
  active : Bool := false
  cur : Option Tpv := none
  last : Option Nat := none
  refHeading : Option Nat := none    -- heading lastly included in a CAM [0.01 deg]
  refPos : Option Pos := none        -- position lastly included in a CAM
  refSpeed : Option Nat := none      -- speed lastly included in a CAM [mm/s]

/-- circular difference of two headings in 0.01 deg -/
def circDiff (a b : Nat) : Nat :=
  let d := if a ≤ b then b - a else a - b
  min d (36000 - d)

def specDyn (hav : Pos → Pos → Nat) (m : RespSt) (r : Tpv) : Bool :=
  (match r.heading, m.refHeading with
   | some h, some lh => decide (circDiff h lh > 400)
   | _, _ => false)
  || (match r.pos, m.refPos with
      | some p, some q => decide (hav q p > 4000)
      | _, _ => false)
  || (match r.speed, m.refSpeed with
      | some v, some w => decide (v > w + 500 ∨ w > v + 500)
      | _, _ => false)

def respMon (hav : Pos → Pos → Nat) (m : RespSt) : Ev → Option RespSt
  | (.start, _) => some (if m.active then m else { active := true, cur := m.cur })
  | (.stop, _) => some { m with active := false }
  | (.report r, _) => some { m with cur := some r }
  | (.expire _, _) => some m
  | (.check now f, out) =>
    if !m.active then some m
    else match m.cur with
      | none => some m
      | some r =>
        match out with
        | none =>
          if f = Fail.none ∧ since m.last T_GenCamMin now = true ∧ specDyn hav m r = true
          then none else some m
        | some _ =>
          some { m with last := some now,
                        refHeading := match r.heading with | some h => some h | none => m.refHeading,
                        refPos := match r.pos with | some p => some p | none => m.refPos,
                        refSpeed := match r.speed with | some v => some v | none => m.refSpeed }

/-! ### low-frequency container: in the first CAM and in every CAM ≥ 500 ms after the last one carrying it, in no other -/
structure LfSt where
  active : Bool := false
  lastLf : Option Nat := none

def lfMon (m : LfSt) : Ev → Option LfSt
  | (.start, _) => some (if m.active then m else { active := true, lastLf := none })
  | (.stop, _) => some { m with active := false }
  | (.report _, _) => some m
  | (.expire _, _) => some m
  | (.check _ _, none) => some m
  | (.check now _, some c) =>
    let want := noneOrSince m.lastLf T_LF now
    if c.lf = want then some { m with lastLf := if c.lf then some now else m.lastLf } else none

/-! ### each CAM reflects the latest report; generationDeltaTime = its ITS timestamp mod 65536 -/
def gdtOk (r : Tpv) (gdt : Nat) : Bool :=
  match r.its with | some ts => decide (gdt = ts % 65536) | none => true

structure LatestSt where
  cur : Option Tpv := none

def latestMon (m : LatestSt) : Ev → Option LatestSt
  | (.report r, _) => some { cur := some r }
  | (.check now _, some c) =>
    match m.cur with
    | none => none
    | some r =>
      if c.rid = r.rid ∧ c.t = now ∧ gdtOk r c.gdt = true
      then some m else none
  | (_, _) => some m

end FlexModel.Fac.CamSpec

/-
Model of `VAMTransmissionManagement.location_service_callback` / `send_next_vam`
(facilities/vru_awareness_service/vam_transmission_management.py).

Report driven.  `its` = ITS timestamp [ms] of the report's `time`; positions are `int(lat*1e7)`, `int(lon*1e7)`;
speed in mm/s, heading in 0.01 degree; `wall` = `time.time()` in integer ms at the moment of sending (the code
times the low-frequency container on the wall clock); `gate` = `clustering_manager.should_transmit_vam()`
(true when there is no clustering manager), `clusterOp` = the clustering manager hands out a
`vruClusterOperationContainer` for this VAM (the code then always adds the low-frequency container), `fail` = the
transmission attempt fails (LDM feed, coder or BTP request raise: the exception leaves the callback, no VAM).

`gated` selects the variant: `true` = triggers 2-4 are evaluated only when T_GenVamMin has elapsed
(repaired), `false` = the code as it is (known finding C10-KF1: pinned by the repository's unit tests).
`lfAfterSend` selects: `true` = `last_lf_vam_time` is recorded after the BTP request succeeded (repaired,
fixes/C10-vam-lf-time-after-send), `false` = recorded when the container is attached, before the attempt.
-/
import Generated.FacConstants

namespace FlexModel.Fac.Vam
open Generated.Fac

structure Tpv where
  rid : Nat
  its : Option Nat
  pos : Option (Int × Int)
  speed : Option Nat
  heading : Option Nat
  deriving Repr, DecidableEq, Inhabited

structure State where
  gated : Bool := false
  lfAfterSend : Bool := true
  tGenVam : Nat := T_GENVAMMIN
  lastGdt : Option Nat := none
  lastLat7 : Int := 0
  lastLon7 : Int := 0
  lastSpeedCm : Nat := 0
  lastHeadingDdeg : Nat := 0
  lastLf : Option Nat := none
  isFirst : Bool := true
  deriving Repr, DecidableEq, Inhabited

structure VamOut where
  its : Option Nat   -- timestamp of the report the VAM was built from
  wall : Nat
  gdt : Nat
  lf : Bool
  trig : Nat         -- 0 first, 1 time, 2 position, 3 speed, 4 heading
  rid : Nat
  deriving Repr, DecidableEq, Inhabited

structure Op where
  r : Tpv
  wall : Nat
  gate : Bool
  clusterOp : Bool := false
  fail : Bool := false
  deriving Repr, DecidableEq, Inhabited

def absDiff (a b : Nat) : Nat := if a ≥ b then a - b else b - a

def speedValue (r : Tpv) : Nat :=
  match r.speed with
  | none => 16383
  | some v => if v / 10 > 16381 then 16382 else v / 10

def headingValue (r : Tpv) : Nat := match r.heading with | none => 3601 | some h => h / 10

def gdtOf (r : Tpv) : Nat := match r.its with | some ts => ts % 65536 | none => 0

/-- `GenerationDeltaTime.__sub__` -/
def gdtSub (a b : Nat) : Nat := if a ≥ b then a - b else a + 65536 - b

def posTrig (s : State) (r : Tpv) : Bool :=
  match r.pos with
  | none => false
  | some (la, lo) =>
    decide ((la - s.lastLat7) * (la - s.lastLat7) + (lo - s.lastLon7) * (lo - s.lastLon7)
            > (VAM_POS_THRESHOLD * 10000000 : Int) * (VAM_POS_THRESHOLD * 10000000 : Int))

def speedTrig (s : State) (r : Tpv) : Bool :=
  match r.speed with
  | none => false
  | some v => decide (absDiff v (10 * s.lastSpeedCm) > VAM_SPEED_THRESHOLD_MMS)

def headingTrig (s : State) (r : Tpv) : Bool :=
  match r.heading with
  | none => false
  | some h =>
    let d := absDiff h (10 * s.lastHeadingDdeg) % 36000
    let d := if d > 18000 then 36000 - d else d
    decide (d > VAM_HEADING_THRESHOLD_CDEG)

/-- which trigger fires for this report -/
def trigger (s : State) (r : Tpv) : Option Nat :=
  match s.lastGdt with
  | none => some 0
  | some lg =>
    match r.its with
    | none => none
    | some ts =>
      let diff := gdtSub (ts % 65536) lg
      if s.gated ∧ diff < T_GENVAMMIN then none
      else if diff ≥ s.tGenVam then some 1
      else if posTrig s r then some 2
      else if speedTrig s r then some 3
      else if headingTrig s r then some 4
      else none

def lfDue (s : State) (wall : Nat) : Bool :=
  s.isFirst || (match s.lastLf with | none => true | some l => decide (wall ≥ l + T_GENVAM_LFMIN))

def step (s : State) (op : Op) : State × Option VamOut :=
  if !op.gate then (s, none)
  else match trigger s op.r with
    | none => (s, none)
    | some k =>
      let lf := lfDue s op.wall || op.clusterOp
      if op.fail then
        ((if s.lfAfterSend then s else { s with lastLf := if lf then some op.wall else s.lastLf }), none)
      else
      ({ s with
         lastGdt := some (gdtOf op.r),
         lastLat7 := (match op.r.pos with | some p => p.1 | none => 900000001),
         lastLon7 := (match op.r.pos with | some p => p.2 | none => 1800000001),
         lastSpeedCm := speedValue op.r, lastHeadingDdeg := headingValue op.r,
         lastLf := if lf then some op.wall else s.lastLf, isFirst := false },
       some { its := op.r.its, wall := op.wall, gdt := gdtOf op.r, lf := lf, trig := k, rid := op.r.rid })

def init (gated : Bool) (tGenVam : Nat := T_GENVAMMIN) (lfAfterSend : Bool := true) : State :=
  { gated := gated, tGenVam := tGenVam, lfAfterSend := lfAfterSend }

end FlexModel.Fac.Vam

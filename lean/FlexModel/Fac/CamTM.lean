/-
Model of `CAMTransmissionManagement` (facilities/ca_basic_service/cam_transmission_management.py).

State = the fields of the Python object.  Times are the integer milliseconds the code computes with
(`now_ms = int(TimeService.time()*1000)`), headings are in 0.01 degree, speeds in mm/s, the haversine
distance of the cached report to the last CAM position is an input of `check` (millimetres, computed by the
harness's independent oracle), a failing `_send_cam` (Annex B.2.5) is an input bit.
`armed` = a T_CheckCamGen timer is pending.
-/
import Generated.FacConstants

namespace FlexModel.Fac.Cam
open Generated.Fac

/-- a position report as the transmission management sees it -/
structure Tpv where
  rid : Nat                -- running number of the report (which report is this)
  its : Option Nat         -- ITS timestamp [ms] of the report's `time` (none: no `time` key)
  heading : Option Nat     -- `track`  [0.01 deg]
  speed : Option Nat       -- `speed`  [mm/s]
  hasPos : Bool            -- `lat` and `lon` present
  deriving Repr, DecidableEq, Inhabited

/-- static vehicle data that influences container inclusion -/
structure Cfg where
  role : Nat := 0              -- VehicleData.vehicle_role
  twoWheeler : Bool := false   -- station_type ∈ {2,3,4}
  hasSpecialData : Bool := false
  deriving Repr, DecidableEq, Inhabited

structure State where
  cfg : Cfg := {}
  active : Bool := false
  armed : Bool := false
  tGenCam : Nat := T_GEN_CAM_MAX
  nGenCam : Nat := 0
  lastCamTime : Option Nat := none
  lastHeading : Option Nat := none
  lastHasPos : Bool := false
  lastSpeed : Option Nat := none
  camCount : Nat := 0
  lastLf : Option Nat := none
  lastVlf : Option Nat := none
  lastSpecial : Option Nat := none
  cur : Option Tpv := none
  deriving Repr, DecidableEq, Inhabited

/-- an emitted CAM, as far as C10 observes it -/
structure CamOut where
  t : Nat            -- now_ms of the generating check
  cond : Nat         -- 1 = dynamics / first, 2 = T_GenCam elapsed
  lf : Bool          -- lowFrequencyContainer present
  special : Bool     -- specialVehicleContainer present
  vlf : Bool         -- extension container 3 present
  tw : Bool          -- extension container 1 present
  gdt : Nat          -- generationDeltaTime
  rid : Nat          -- report the CAM was built from
  deriving Repr, DecidableEq, Inhabited

inductive Op
  | start
  | stop
  | report (r : Tpv)
  | check (now dist : Nat) (sendOk : Bool)
  deriving Repr, DecidableEq, Inhabited

def absDiff (a b : Nat) : Nat := if a ≥ b then a - b else b - a

/-- `diff = abs(a-b); if diff > 180: diff = 360 - diff` -/
def headingDiff (a b : Nat) : Nat :=
  let d := absDiff a b
  if d > CAM_HEADING_WRAP_CDEG then 36000 - d else d

/-- `_check_dynamics` -/
def dynamics (s : State) (r : Tpv) (dist : Nat) : Bool :=
  match s.lastHeading with
  | none => true
  | some lh =>
    (match r.heading with
     | some h => decide (headingDiff h lh > CAM_HEADING_THRESHOLD_CDEG)
     | none => false)
    || (r.hasPos && s.lastHasPos && decide (dist > CAM_POS_THRESHOLD_MM))
    || (match r.speed, s.lastSpeed with
        | some v, some w => decide (absDiff v w > CAM_SPEED_THRESHOLD_MMS)
        | _, _ => false)

/-- which condition of `_evaluate_and_maybe_send` fires (none: no CAM at this check) -/
def trigger (s : State) (r : Tpv) (now dist : Nat) : Option Nat :=
  match s.lastCamTime with
  | none => some 1
  | some t =>
    if now ≥ t + T_GEN_CAM_DCC ∧ dynamics s r dist = true then some 1
    else if now ≥ t + s.tGenCam ∧ now ≥ t + T_GEN_CAM_DCC then some 2
    else none

def due (last : Option Nat) (now period : Nat) : Bool :=
  match last with
  | none => true
  | some l => decide (now ≥ l + period)

def includeLf (s : State) (now : Nat) : Bool :=
  s.camCount == 0 || due s.lastLf now T_GEN_CAM_LF_MS

def includeSpecial (s : State) (now : Nat) : Bool :=
  s.cfg.role != 0 && (s.camCount == 0 || due s.lastSpecial now T_GEN_CAM_SPECIAL_MS)

def includeVlf (s : State) (now : Nat) (lf sp : Bool) : Bool :=
  if s.camCount == 1 then true
  else match s.lastVlf with
    | none => false
    | some l => decide (now ≥ l + T_GEN_CAM_VLF_MS) && !lf && !sp

def clampT (e : Nat) : Nat := max T_GEN_CAM_MIN (min T_GEN_CAM_MAX e)

/-- `_update_send_state` -/
def afterSend (s : State) (r : Tpv) (now cond : Nat) (lf sp vlf : Bool) : State :=
  let elapsed := match s.lastCamTime with | some t => now - t | none => 0
  let (tg, ng) :=
    if cond == 1 then
      if s.nGenCam + 1 ≥ N_GEN_CAM_DEFAULT then (T_GEN_CAM_MAX, 0) else (clampT elapsed, s.nGenCam + 1)
    else (T_GEN_CAM_MAX, 0)
  { s with
    tGenCam := tg, nGenCam := ng,
    lastCamTime := some now,
    lastHeading := match r.heading with | some h => some h | none => s.lastHeading,
    lastHasPos := r.hasPos || s.lastHasPos,
    lastSpeed := match r.speed with | some v => some v | none => s.lastSpeed,
    lastLf := if lf then some now else s.lastLf,
    lastSpecial := if sp then some now else s.lastSpecial,
    lastVlf := if vlf then some now else s.lastVlf,
    camCount := s.camCount + 1 }

def gdtOf (r : Tpv) : Nat := match r.its with | some ts => ts % 65536 | none => 0

/-- `_check_cam_conditions` (timer expiry) -/
def check (s : State) (now dist : Nat) (sendOk : Bool) : State × Option CamOut :=
  if !s.active then (s, none)
  else
    let s1 := { s with armed := true }       -- `finally: self._schedule_next_check()`
    match s.cur with
    | none => (s1, none)
    | some r =>
      match trigger s r now dist with
      | none => (s1, none)
      | some cond =>
        let lf := includeLf s now
        let sp := includeSpecial s now
        let vlf := includeVlf s now lf sp
        if sendOk then
          (afterSend s1 r now cond lf sp vlf,
           some { t := now, cond := cond, lf := lf, special := sp && s.cfg.hasSpecialData, vlf := vlf,
                  tw := s.cfg.twoWheeler, gdt := gdtOf r, rid := r.rid })
        else (s1, none)

def step (s : State) : Op → State × Option CamOut
  | .start =>
    if s.active then (s, none)
    else ({ cfg := s.cfg, cur := s.cur, active := true, armed := true }, none)
  | .stop => ({ s with active := false, armed := false }, none)
  | .report r => ({ s with cur := some r }, none)
  | .check now dist ok => check s now dist ok

def init (cfg : Cfg := {}) : State := { cfg := cfg }

end FlexModel.Fac.Cam

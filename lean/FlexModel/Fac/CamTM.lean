/-
Model of `CAMTransmissionManagement` (facilities/ca_basic_service/cam_transmission_management.py).

State = the fields of the Python object.  Times are the integer milliseconds the code computes with
(`now_ms = int(TimeService.time()*1000)`), headings are in 0.01 degree, speeds in mm/s, positions are
(lat, lon) in 1e-7 degree.  The model is parametric in the distance function `hav` (the code's `_haversine_m`,
result in millimetres): every theorem holds for EVERY `hav`; the reference position it is applied to
(`lastPos` = position lastly included in a CAM) is model state.

Timer: `live` = number of pending (not cancelled, not expired) T_CheckCamGen timers, `tracked` = `self._timer`
is one of them (so that `stop()` can cancel it), `inflight` (ghost) = expired timers whose callback has not run yet.
`expire` = a timer's wait completes, `check` = the callback `_check_cam_conditions` runs.  A `stop` (and `start`)
between the two is the race "stop() while an expiry is in flight": `threading.Timer.cancel()` cannot stop it.

Failure injection: where the generation of a due CAM fails (`Fail`): while the PDU is filled from the report
(outside the Annex B.2.5 `try`: the exception leaves the callback, the `finally` re-arms the timer), in the coder,
in the BTP request (both inside the `try`: skipped), or in the LDM feed AFTER the BTP request.

Variant flags (probed on the real code at run time, regenerated structurally in Generated/FacFlow.lean):
`ldmIsolated`  = a failing LDM feed does not abort the bookkeeping of the transmitted CAM (repaired; fixes/C10-cam-ldm-failure),
`restartHold`  = T_GenCamMin is also kept across a stop()/start() cycle (repaired; fixes/C10-cam-restart-min-gap),
`holdSticky`   = `start()` only ever SETS the hold (from the last CAM of the activation that just ended); a start() after
                 an activation in which no CAM went out leaves a still-valid hold alone.  `false` = the hold is
                 reassigned unconditionally (`= last + MIN if last is not None else None`), which clears it at the second
                 of several quick restarts (regenerated fact `CAM_RESTART_HOLD_STICKY`).
-/
import Generated.FacConstants
import Generated.FacFlow

namespace FlexModel.Fac.Cam
open Generated.Fac

abbrev Pos := Int × Int

/-- a position report as the transmission management sees it -/
structure Tpv where
  rid : Nat                -- running number of the report (which report is this)
  its : Option Nat         -- ITS timestamp [ms] of the report's `time` (none: no `time` key)
  heading : Option Nat     -- `track`  [0.01 deg]
  speed : Option Nat       -- `speed`  [mm/s]
  pos : Option Pos         -- `lat`,`lon` [1e-7 deg] (none: one of them missing)
  deriving Repr, DecidableEq, Inhabited

/-- static vehicle data that influences container inclusion, and the variant flags -/
structure Cfg where
  role : Nat := 0              -- VehicleData.vehicle_role
  twoWheeler : Bool := false   -- station_type ∈ {2,3,4}
  hasSpecialData : Bool := false
  ldmIsolated : Bool := true
  restartHold : Bool := true
  holdSticky : Bool := true
  deriving Repr, DecidableEq, Inhabited

/-- where the generation of a due CAM fails -/
inductive Fail
  | none | build | encode | btp | ldm
  deriving Repr, DecidableEq, Inhabited

/-- the CAM reaches the BTP router -/
def Fail.transmitted : Fail → Bool
  | .none => true | .ldm => true | _ => false

/-- `_update_send_state` runs -/
def Fail.bookkept (c : Cfg) : Fail → Bool
  | .none => true | .ldm => c.ldmIsolated | _ => false

structure State where
  cfg : Cfg := {}
  active : Bool := false
  live : Nat := 0
  tracked : Bool := false
  inflight : Nat := 0
  tGenCam : Nat := T_GEN_CAM_MAX
  nGenCam : Nat := 0
  lastCamTime : Option Nat := none
  lastHeading : Option Nat := none
  lastPos : Option Pos := none
  lastSpeed : Option Nat := none
  camCount : Nat := 0
  lastLf : Option Nat := none
  lastVlf : Option Nat := none
  lastSpecial : Option Nat := none
  cur : Option Tpv := none
  holdUntil : Option Nat := none     -- `_restart_hold_until_ms`
  deriving Repr, DecidableEq, Inhabited

/-- an emitted CAM, as far as C10 observes it -/
structure CamOut where
  t : Nat            -- now_ms of the generating check
  cond : Nat         -- 1 = dynamics / first, 2 = T_GenCam elapsed
  lf : Bool          -- lowFrequencyContainer present
  special : Bool     -- specialVehicleContainer present
  vlf : Bool         -- extension container 3 present
  tw : Bool          -- extension container 1 present
  gdt : Nat          -- generationDeltaTime
  rid : Nat          -- report the CAM was built from
  deriving Repr, DecidableEq, Inhabited

inductive Op
  | start
  | stop
  | report (r : Tpv)
  | expire (tracked : Bool)            -- a timer's wait completes (`tracked`: it is `self._timer`)
  | check (now : Nat) (fail : Fail)    -- the callback runs
  deriving Repr, DecidableEq, Inhabited

def absDiff (a b : Nat) : Nat := if a ≥ b then a - b else b - a

/-- `diff = abs(a-b); if diff > 180: diff = 360 - diff` -/
def headingDiff (a b : Nat) : Nat :=
  let d := absDiff a b
  if d > CAM_HEADING_WRAP_CDEG then 36000 - d else d

/-- `_check_dynamics` -/
def dynamics (hav : Pos → Pos → Nat) (s : State) (r : Tpv) : Bool :=
  match s.lastHeading with
  | none => true
  | some lh =>
    (match r.heading with
     | some h => decide (headingDiff h lh > CAM_HEADING_THRESHOLD_CDEG)
     | none => false)
    || (match r.pos, s.lastPos with
        | some p, some q => decide (hav q p > CAM_POS_THRESHOLD_MM)
        | _, _ => false)
    || (match r.speed, s.lastSpeed with
        | some v, some w => decide (absDiff v w > CAM_SPEED_THRESHOLD_MMS)
        | _, _ => false)

/-- the first CAM of an activation is held back while less than T_GenCamMin has passed since the last CAM of the
previous activation (repaired variant only) -/
def held (s : State) (now : Nat) : Bool :=
  s.cfg.restartHold && (match s.holdUntil with | some h => decide (now < h) | none => false)

/-- which condition of `_evaluate_and_maybe_send` fires (none: no CAM at this check) -/
def trigger (hav : Pos → Pos → Nat) (s : State) (r : Tpv) (now : Nat) : Option Nat :=
  match s.lastCamTime with
  | none => if held s now then none else some 1
  | some t =>
    if now ≥ t + T_GEN_CAM_DCC ∧ dynamics hav s r = true then some 1
    else if now ≥ t + s.tGenCam ∧ now ≥ t + T_GEN_CAM_DCC then some 2
    else none

def due (last : Option Nat) (now period : Nat) : Bool :=
  match last with
  | none => true
  | some l => decide (now ≥ l + period)

def includeLf (s : State) (now : Nat) : Bool :=
  s.camCount == 0 || due s.lastLf now T_GEN_CAM_LF_MS

def includeSpecial (s : State) (now : Nat) : Bool :=
  s.cfg.role != 0 && (s.camCount == 0 || due s.lastSpecial now T_GEN_CAM_SPECIAL_MS)

def includeVlf (s : State) (now : Nat) (lf sp : Bool) : Bool :=
  if s.camCount == 1 then true
  else match s.lastVlf with
    | none => false
    | some l => decide (now ≥ l + T_GEN_CAM_VLF_MS) && !lf && !sp

def clampT (e : Nat) : Nat := max T_GEN_CAM_MIN (min T_GEN_CAM_MAX e)

/-- `_update_send_state` -/
def afterSend (s : State) (r : Tpv) (now cond : Nat) (lf sp vlf : Bool) : State :=
  let elapsed := match s.lastCamTime with | some t => now - t | none => 0
  let (tg, ng) :=
    if cond == 1 then
      if s.nGenCam + 1 ≥ N_GEN_CAM_DEFAULT then (T_GEN_CAM_MAX, 0) else (clampT elapsed, s.nGenCam + 1)
    else (T_GEN_CAM_MAX, 0)
  { s with
    tGenCam := tg, nGenCam := ng,
    lastCamTime := some now,
    lastHeading := match r.heading with | some h => some h | none => s.lastHeading,
    lastPos := match r.pos with | some p => some p | none => s.lastPos,
    lastSpeed := match r.speed with | some v => some v | none => s.lastSpeed,
    lastLf := if lf then some now else s.lastLf,
    lastSpecial := if sp then some now else s.lastSpecial,
    lastVlf := if vlf then some now else s.lastVlf,
    camCount := s.camCount + 1 }

def gdtOf (r : Tpv) : Nat := match r.its with | some ts => ts % 65536 | none => 0

/-- the CAM `_generate_and_send_cam` builds in state `s` from report `r` -/
def camOf (s : State) (r : Tpv) (now cond : Nat) : CamOut :=
  let lf := includeLf s now
  let sp := includeSpecial s now
  { t := now, cond := cond, lf := lf, special := sp && s.cfg.hasSpecialData, vlf := includeVlf s now lf sp,
    tw := s.cfg.twoWheeler, gdt := gdtOf r, rid := r.rid }

/-- `_schedule_next_check()` at the end of a callback that found the service active -/
def rearm (s : State) : State := { s with live := s.live + 1, tracked := true }

/-- `_check_cam_conditions` (the callback of an expired timer) -/
def check (hav : Pos → Pos → Nat) (s : State) (now : Nat) (f : Fail) : State × Option CamOut :=
  let s0 := { s with inflight := s.inflight - 1 }
  if Generated.FacFlow.CAM_CHECK_GUARDED && !s.active then (s0, none)   -- `if not self._active: return` (regenerated fact)
  else
    let s1 := rearm s0                        -- `finally: self._schedule_next_check()`
    match s.cur with
    | none => (s1, none)
    | some r =>
      match trigger hav s r now with
      | none => (s1, none)
      | some cond =>
        let c := camOf s r now cond
        if f.transmitted then
          if f.bookkept s.cfg then
            (afterSend s1 r now cond c.lf (includeSpecial s now) c.vlf, some c)
          else (s1, some c)
        else (s1, none)

def step (hav : Pos → Pos → Nat) (s : State) : Op → State × Option CamOut
  | .start =>
    if s.active then (s, none)
    else ({ cfg := s.cfg, cur := s.cur, active := true, live := s.live + 1, tracked := true, inflight := s.inflight,
            holdUntil := match s.lastCamTime with
                         | some t => some (t + T_GEN_CAM_MIN)
                         | none => if s.cfg.holdSticky then s.holdUntil else none }, none)
  | .stop => ({ s with active := false, live := if s.tracked then s.live - 1 else s.live, tracked := false }, none)
  | .report r => ({ s with cur := some r }, none)
  | .expire tr => ({ s with live := s.live - 1, inflight := s.inflight + 1, tracked := s.tracked && !tr }, none)
  | .check now f => check hav s now f

def init (cfg : Cfg := {}) : State := { cfg := cfg }

end FlexModel.Fac.Cam

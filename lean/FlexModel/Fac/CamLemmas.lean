/-
Helper lemmas for Props/C10 (CAM part): characterisation of `check`, and for every monitor of
`FlexModel.Fac.CamSpec` a one-step simulation relation with the model `FlexModel.Fac.Cam`.
-/
import FlexModel.Fac.CamSpec

namespace FlexModel.Fac.CamLemmas
open FlexModel.Fac FlexModel.Fac.Cam FlexModel.Fac.CamSpec Generated.Fac

/-- regenerated from the source: `_check_cam_conditions` begins with `if not self._active: return` -/
@[simp] theorem guard_true : Generated.FacFlow.CAM_CHECK_GUARDED = true := by decide

/-- the state in which an active callback leaves the timer bookkeeping -/
def pre (s : State) : State := rearm { s with inflight := s.inflight - 1 }

theorem transmitted_bookkept (c : Cfg) (f : Fail) (hc : c.ldmIsolated = true) (h : f.transmitted = true) :
    f.bookkept c = true := by
  cases f <;> simp_all [Fail.transmitted, Fail.bookkept]

theorem not_transmitted_of_ne (f : Fail) (h : f.transmitted = false) : f ≠ Fail.none := by
  cases f <;> simp_all [Fail.transmitted]

theorem check_inactive (hav : Pos → Pos → Nat) (s : State) (now : Nat) (f : Fail) (h : s.active = false) :
    check hav s now f = ({ s with inflight := s.inflight - 1 }, none) := by
  simp [check, h]

/-- everything one needs to know about an emitting check -/
theorem check_some (hav : Pos → Pos → Nat) (s : State) (now : Nat) (f : Fail) (c : CamOut)
    (h : (check hav s now f).2 = some c) :
    s.active = true ∧ f.transmitted = true ∧ ∃ r cond, s.cur = some r ∧ trigger hav s r now = some cond ∧
      c = camOf s r now cond ∧
      (check hav s now f).1 =
        (if f.bookkept s.cfg = true then
          afterSend (pre s) r now cond (includeLf s now) (includeSpecial s now)
            (includeVlf s now (includeLf s now) (includeSpecial s now))
         else pre s) := by
  unfold check at h ⊢
  split at h
  · simp at h
  · rename_i ha
    split at h
    · simp at h
    · rename_i r hr
      split at h
      · simp at h
      · rename_i cond hc
        split at h
        · rename_i htx
          split at h
          · rename_i hbk
            simp at h
            subst h
            simp at ha
            exact ⟨ha, htx, r, cond, hr, hc, by simp [camOf], by simp [hbk, pre, ha, htx, camOf]⟩
          · rename_i hbk
            simp at h
            subst h
            simp at ha
            exact ⟨ha, htx, r, cond, hr, hc, by simp [camOf], by simp [hbk, pre, ha, htx, camOf]⟩
        · simp at h

theorem check_none (hav : Pos → Pos → Nat) (s : State) (now : Nat) (f : Fail)
    (h : (check hav s now f).2 = none) :
    (s.active = false ∧ (check hav s now f).1 = { s with inflight := s.inflight - 1 }) ∨
    (s.active = true ∧ (check hav s now f).1 = pre s ∧
      (s.cur = none ∨ f.transmitted = false ∨ ∃ r, s.cur = some r ∧ trigger hav s r now = none)) := by
  unfold check at h ⊢
  split
  · rename_i ha; left; simp at ha; exact ⟨ha, rfl⟩
  · rename_i ha
    right
    simp at ha
    refine ⟨ha, ?_⟩
    split
    · rename_i hc; simp [hc, pre]
    · rename_i r hr
      split
      · rename_i ht; simp [pre]; right; right; exact ⟨r, hr, ht⟩
      · rename_i cond hc
        by_cases htx : f.transmitted = true
        · simp [ha, hr, hc, htx] at h
          split at h <;> simp at h
        · simp at htx
          simp [htx, pre]

theorem step_cfg (hav : Pos → Pos → Nat) (s : State) (op : Op) : (step hav s op).1.cfg = s.cfg := by
  cases op with
  | start => by_cases ha : s.active = true <;> simp [step, ha]
  | stop => simp [step]
  | report r => simp [step]
  | expire tr => simp [step]
  | check now f =>
    simp only [step]
    cases hc : (check hav s now f).2 with
    | none =>
      rcases check_none hav s now f hc with ⟨_, h⟩ | ⟨_, h, _⟩ <;> simp [h, pre, rearm]
    | some c =>
      obtain ⟨_, _, r, cond, _, _, _, hs⟩ := check_some hav s now f c hc
      rw [hs]; split <;> simp [afterSend, pre, rearm]


/-- an emitting check in the repaired variant (`ldmIsolated`): the bookkeeping always follows the transmission -/
theorem check_some_iso (hav : Pos → Pos → Nat) (s : State) (now : Nat) (f : Fail) (c : CamOut)
    (hiso : s.cfg.ldmIsolated = true) (h : (check hav s now f).2 = some c) :
    s.active = true ∧ ∃ r cond, s.cur = some r ∧ trigger hav s r now = some cond ∧
      c = camOf s r now cond ∧
      (check hav s now f).1 =
          afterSend (pre s) r now cond (includeLf s now) (includeSpecial s now)
            (includeVlf s now (includeLf s now) (includeSpecial s now)) := by
  obtain ⟨ha, htx, r, cond, hr, htr, hc, hs⟩ := check_some hav s now f c h
  refine ⟨ha, r, cond, hr, htr, hc, ?_⟩
  rw [hs, if_pos (transmitted_bookkept s.cfg f hiso htx)]

/-! silent -/
theorem silent_sim (hav : Pos → Pos → Nat) (s : State) (m : SilentSt) (op : Op) (hR : m.active = s.active) :
    ∃ m', silentMon m (op, (step hav s op).2) = some m' ∧ m'.active = (step hav s op).1.active := by
  cases op with
  | start =>
    by_cases ha : s.active = true <;> simp [step, ha, silentMon]
  | stop => simp [step, silentMon]
  | report r => simp [step, silentMon, hR]
  | expire tr => simp [step, silentMon, hR]
  | check now f =>
    simp only [step]
    cases hc : (check hav s now f).2 with
    | none =>
      rcases check_none hav s now f hc with ⟨_, h⟩ | ⟨_, h, _⟩ <;> simp [silentMon, h, hR, pre, rearm]
    | some c =>
      obtain ⟨ha, _, r, cond, _, _, _, hs⟩ := check_some hav s now f c hc
      rw [hs]
      split <;> simp [silentMon, hR, ha, afterSend, pre, rearm]

/-! min gap (per activation) -/
theorem trigger_elapsed (hav : Pos → Pos → Nat) (s : State) (r : Tpv) (now cond t : Nat)
    (h : trigger hav s r now = some cond) (ht : s.lastCamTime = some t) : t + T_GEN_CAM_DCC ≤ now := by
  unfold trigger at h
  rw [ht] at h
  simp only at h
  split at h
  · omega
  · split at h
    · omega
    · simp at h

theorem trigger_first (hav : Pos → Pos → Nat) (s : State) (r : Tpv) (now cond : Nat)
    (h : trigger hav s r now = some cond) (ht : s.lastCamTime = none) : held s now = false := by
  unfold trigger at h
  rw [ht] at h
  simp only at h
  split at h
  · simp at h
  · rename_i hh; simpa using hh

def MinRel (s : State) (m : MinGapSt) : Prop :=
  s.cfg.ldmIsolated = true ∧ m.active = s.active ∧ m.last = s.lastCamTime

theorem minGap_sim (hav : Pos → Pos → Nat) (s : State) (m : MinGapSt) (op : Op) (hR : MinRel s m) :
    ∃ m', minGapMon m (op, (step hav s op).2) = some m' ∧ MinRel (step hav s op).1 m' := by
  obtain ⟨hI, hA, hL⟩ := hR
  have hI' : (step hav s op).1.cfg.ldmIsolated = true := by rw [step_cfg]; exact hI
  suffices hx : ∃ m', minGapMon m (op, (step hav s op).2) = some m' ∧
      (m'.active = (step hav s op).1.active ∧ m'.last = (step hav s op).1.lastCamTime) by
    obtain ⟨m', h1, h2⟩ := hx; exact ⟨m', h1, hI', h2⟩
  cases op with
  | start =>
    by_cases ha : s.active = true <;> simp [step, ha, minGapMon, hA, hL]
  | stop => simp [step, minGapMon, hL]
  | report r => simp [step, minGapMon, hA, hL]
  | expire tr => simp [step, minGapMon, hA, hL]
  | check now f =>
    simp only [step]
    cases hc : (check hav s now f).2 with
    | none =>
      rcases check_none hav s now f hc with ⟨_, h⟩ | ⟨_, h, _⟩ <;> simp [minGapMon, h, hA, hL, pre, rearm]
    | some c =>
      obtain ⟨ha, r, cond, _, htr, hcx, hs⟩ := check_some_iso hav s now f c hI hc
      have hct : c.t = now := by rw [hcx]; rfl
      have hgap : noneOrSince m.last T_GenCamMin now = true := by
        rw [hL]
        cases hl : s.lastCamTime with
        | none => rfl
        | some t =>
          have := trigger_elapsed hav s r now cond t htr hl
          have h100 : T_GEN_CAM_DCC = 100 := by decide
          simp only [noneOrSince, T_GenCamMin]
          apply decide_eq_true
          omega
      simp [minGapMon, hct, hgap, hs, afterSend, hA, ha, pre, rearm]

/-! the hold across a stop/start cycle: how the time of the last CAM of ANY activation shows in the state.
Any number of stop/start cycles may follow that CAM without a further CAM: the relation is preserved by every
quiet step (`holdRel_quiet`), so the hold is still there at the third, fourth ... activation.  In the variant
`holdSticky = false` (hold reassigned unconditionally by `start()`) the hold may have been cleared by a later
start(): third disjunct. -/
def HoldRel (s : State) (g : Option Nat) : Prop :=
  match g with
  | none => s.lastCamTime = none ∧ s.holdUntil = none
  | some t => s.lastCamTime = some t ∨
      (s.lastCamTime = none ∧ (s.holdUntil = some (t + T_GEN_CAM_MIN) ∨ (s.cfg.holdSticky = false ∧ s.holdUntil = none)))

theorem holdRel_quiet (hav : Pos → Pos → Nat) (s : State) (g : Option Nat) (op : Op)
    (h : HoldRel s g) (hq : (step hav s op).2 = none) : HoldRel (step hav s op).1 g := by
  cases op with
  | start =>
    by_cases ha : s.active = true
    · simpa [step, ha] using h
    · cases g with
      | none =>
        obtain ⟨h1, h2⟩ := h
        simp [step, ha, HoldRel, h1, h2]
      | some t =>
        rcases h with h1 | ⟨h1, h2 | ⟨h2, _⟩⟩
        · simp [step, ha, HoldRel, h1]
        · cases hs : s.cfg.holdSticky <;> simp [step, ha, HoldRel, h1, h2, hs]
        · simp [step, ha, HoldRel, h1, h2]
  | stop => cases g <;> simpa [step, HoldRel] using h
  | report r => cases g <;> simpa [step, HoldRel] using h
  | expire tr => cases g <;> simpa [step, HoldRel] using h
  | check now f =>
    simp only [step] at hq ⊢
    rcases check_none hav s now f hq with ⟨_, hs⟩ | ⟨_, hs, _⟩ <;> rw [hs] <;>
      cases g <;> simpa [HoldRel, pre, rearm] using h

/-- an emission in the repaired variants: at least T_GenCamMin after the last CAM of any activation -/
theorem holdRel_emit (hav : Pos → Pos → Nat) (s : State) (g : Option Nat) (now : Nat) (f : Fail) (c : CamOut)
    (hI : s.cfg.ldmIsolated = true) (hH : s.cfg.restartHold = true) (hS : s.cfg.holdSticky = true)
    (h : HoldRel s g) (hc : (check hav s now f).2 = some c) :
    noneOrSince g T_GenCamMin now = true ∧ HoldRel (check hav s now f).1 (some now) := by
  obtain ⟨ha, r, cond, _, htr, hcx, hs⟩ := check_some_iso hav s now f c hI hc
  have h100 : T_GEN_CAM_DCC = 100 := by decide
  have hmin : T_GEN_CAM_MIN = 100 := by decide
  refine ⟨?_, ?_⟩
  · cases g with
    | none => rfl
    | some t =>
      simp only [noneOrSince, T_GenCamMin]
      apply decide_eq_true
      rcases h with h1 | ⟨h1, h2 | ⟨h2, _⟩⟩
      · have := trigger_elapsed hav s r now cond t htr h1
        omega
      · have hh := trigger_first hav s r now cond htr h1
        simp [held, hH, h2] at hh
        omega
      · rw [hS] at h2; simp at h2
  · rw [hs]; left; simp [afterSend]

def GMinRel (s : State) (m : GMinGapSt) : Prop :=
  s.cfg.ldmIsolated = true ∧ s.cfg.restartHold = true ∧ s.cfg.holdSticky = true ∧ HoldRel s m.last

theorem gMinGap_sim (hav : Pos → Pos → Nat) (s : State) (m : GMinGapSt) (op : Op) (hR : GMinRel s m) :
    ∃ m', gMinGapMon m (op, (step hav s op).2) = some m' ∧ GMinRel (step hav s op).1 m' := by
  obtain ⟨hI, hH, hS, hG⟩ := hR
  have hcfg := step_cfg hav s op
  cases hq : (step hav s op).2 with
  | none =>
    refine ⟨m, ?_, by rw [hcfg]; exact hI, by rw [hcfg]; exact hH, by rw [hcfg]; exact hS,
      holdRel_quiet hav s m.last op hG hq⟩
    cases op <;> rfl
  | some c =>
    cases op with
    | check now f =>
      simp only [step] at hq ⊢
      obtain ⟨hgap, hrel⟩ := holdRel_emit hav s m.last now f c hI hH hS hG hq
      obtain ⟨_, r, cond, _, _, hcx, _⟩ := check_some_iso hav s now f c hI hq
      have hct : c.t = now := by rw [hcx]; rfl
      refine ⟨{ last := some now }, by simp [gMinGapMon, hct, hgap], ?_, ?_, ?_, hrel⟩
      · have := step_cfg hav s (.check now f); simp only [step] at this; rw [this]; exact hI
      · have := step_cfg hav s (.check now f); simp only [step] at this; rw [this]; exact hH
      · have := step_cfg hav s (.check now f); simp only [step] at this; rw [this]; exact hS
    | start => by_cases ha : s.active = true <;> simp [step, ha] at hq
    | stop => simp [step] at hq
    | report r => simp [step] at hq
    | expire tr => simp [step] at hq


/-! the hold survives any CAM-free continuation (several restarts in a row) -/
theorem final_cfg (hav : Pos → Pos → Nat) : ∀ (ops : List Op) (s : State),
    (Mon.final (step hav) s ops).cfg = s.cfg := by
  intro ops
  induction ops with
  | nil => intro s; rfl
  | cons op ops ih => intro s; simp only [Mon.final]; rw [ih, step_cfg]

theorem holdRel_quiet_list (hav : Pos → Pos → Nat) : ∀ (ops : List Op) (s : State) (g : Option Nat),
    HoldRel s g → (∀ e ∈ Mon.events (step hav) s ops, e.2 = none) → HoldRel (Mon.final (step hav) s ops) g := by
  intro ops
  induction ops with
  | nil => intro s g h _; exact h
  | cons op ops ih =>
    intro s g h hq
    simp only [Mon.final]
    simp only [Mon.events, List.mem_cons, forall_eq_or_imp] at hq
    exact ih _ g (holdRel_quiet hav s g op h hq.1) hq.2

theorem hold_survives (hav : Pos → Pos → Nat) (cfg : Cfg) (hS : cfg.holdSticky = true)
    (pre quiet : List Op) (t : Nat) (f : Fail) (c : CamOut)
    (hcam : (step hav (Mon.final (step hav) (init cfg) pre) (.check t f)).2 = some c)
    (hbk : f.bookkept cfg = true)
    (hq : ∀ e ∈ Mon.events (step hav) (step hav (Mon.final (step hav) (init cfg) pre) (.check t f)).1 quiet, e.2 = none) :
    let s := Mon.final (step hav) (step hav (Mon.final (step hav) (init cfg) pre) (.check t f)).1 quiet
    s.lastCamTime = some t ∨ (s.lastCamTime = none ∧ s.holdUntil = some (t + T_GEN_CAM_MIN)) := by
  intro s
  have hc0 : (Mon.final (step hav) (init cfg) pre).cfg = cfg := by rw [final_cfg]; rfl
  have h1 : HoldRel (step hav (Mon.final (step hav) (init cfg) pre) (.check t f)).1 (some t) := by
    simp only [step] at hcam ⊢
    obtain ⟨_, _, r, cond, _, _, _, hs⟩ := check_some hav _ t f c hcam
    rw [hs, hc0, if_pos hbk]
    left; simp [afterSend]
  have h2 := holdRel_quiet_list hav quiet _ (some t) h1 hq
  have hcs : s.cfg.holdSticky = true := by
    show (Mon.final (step hav) _ quiet).cfg.holdSticky = true
    rw [final_cfg, step_cfg, hc0]; exact hS
  rcases h2 with h | ⟨h, h' | ⟨h', _⟩⟩
  · exact Or.inl h
  · exact Or.inr ⟨h, h'⟩
  · rw [hcs] at h'; simp at h'

/-! LF -/
def LfRel (s : State) (m : LfSt) : Prop :=
  s.cfg.ldmIsolated = true ∧ m.active = s.active ∧ m.lastLf = s.lastLf ∧ (s.camCount = 0 → s.lastLf = none)

theorem includeLf_eq (s : State) (now : Nat) (h : s.camCount = 0 → s.lastLf = none) :
    includeLf s now = noneOrSince s.lastLf T_LF now := by
  have h500 : T_GEN_CAM_LF_MS = 500 := by decide
  unfold includeLf due noneOrSince T_LF
  by_cases h0 : s.camCount = 0
  · simp [h0, h h0]
  · cases hl : s.lastLf with
    | none => simp
    | some l =>
      simp only [h500]
      have : (s.camCount == 0) = false := by simp [h0]
      rw [this]
      simp

theorem lf_sim (hav : Pos → Pos → Nat) (s : State) (m : LfSt) (op : Op) (hR : LfRel s m) :
    ∃ m', lfMon m (op, (step hav s op).2) = some m' ∧ LfRel (step hav s op).1 m' := by
  obtain ⟨hI, hA, hL, h0⟩ := hR
  have hI' : (step hav s op).1.cfg.ldmIsolated = true := by rw [step_cfg]; exact hI
  suffices hx : ∃ m', lfMon m (op, (step hav s op).2) = some m' ∧
      (m'.active = (step hav s op).1.active ∧ m'.lastLf = (step hav s op).1.lastLf ∧
        ((step hav s op).1.camCount = 0 → (step hav s op).1.lastLf = none)) by
    obtain ⟨m', h1, h2⟩ := hx; exact ⟨m', h1, hI', h2⟩
  cases op with
  | start =>
    by_cases ha : s.active = true <;> simp [step, ha, lfMon, hA, hL] <;> exact h0
  | stop => simp [step, lfMon, hL]; exact h0
  | report r => simp [step, lfMon, hA, hL]; exact h0
  | expire tr => simp [step, lfMon, hA, hL]; exact h0
  | check now f =>
    simp only [step]
    cases hc : (check hav s now f).2 with
    | none =>
      rcases check_none hav s now f hc with ⟨_, h⟩ | ⟨_, h, _⟩ <;> simp [lfMon, h, hA, hL, pre, rearm] <;> exact h0
    | some c =>
      obtain ⟨ha, r, cond, _, htr, hcx, hs⟩ := check_some_iso hav s now f c hI hc
      have hlf : c.lf = noneOrSince m.lastLf T_LF now := by
        rw [hcx, hL]; exact includeLf_eq s now h0
      simp only [lfMon, hlf, if_true, hs]
      refine ⟨_, rfl, ?_⟩
      simp only [afterSend, pre, rearm, hA, ha, true_and]
      rw [← hlf, hcx]
      simp [hL, camOf]

/-! latest report, generationDeltaTime (every variant) -/
theorem latest_sim (hav : Pos → Pos → Nat) (s : State) (m : LatestSt) (op : Op) (hR : m.cur = s.cur) :
    ∃ m', latestMon m (op, (step hav s op).2) = some m' ∧ m'.cur = (step hav s op).1.cur := by
  cases op with
  | start =>
    by_cases ha : s.active = true <;> simp [step, ha, latestMon, hR]
  | stop => simp [step, latestMon, hR]
  | report r => simp [step, latestMon]
  | expire tr => simp [step, latestMon, hR]
  | check now f =>
    simp only [step]
    cases hc : (check hav s now f).2 with
    | none =>
      rcases check_none hav s now f hc with ⟨_, h⟩ | ⟨_, h, _⟩ <;> simp [latestMon, h, hR, pre, rearm]
    | some c =>
      obtain ⟨ha, _, r, cond, hcur, htr, hcx, hs⟩ := check_some hav s now f c hc
      have hg : gdtOk r c.gdt = true := by
        rw [hcx]; unfold gdtOk camOf gdtOf; cases r.its <;> simp
      have h1 : c.rid = r.rid := by rw [hcx]; rfl
      have h2 : c.t = now := by rw [hcx]; rfl
      rw [hs]
      split <;> simp [latestMon, hR, hcur, hg, h1, h2, afterSend, pre, rearm]

/-! invariants: T_GenCamMin ≤ T_GenCam ≤ T_GenCamMax; while active a timer is pending or a callback is in flight -/
def CamInv (s : State) : Prop :=
  T_GEN_CAM_MIN ≤ s.tGenCam ∧ s.tGenCam ≤ T_GEN_CAM_MAX ∧ (s.active = true → 1 ≤ s.live + s.inflight)

theorem afterSend_tgen (s : State) (r : Tpv) (now cond : Nat) (a b c : Bool) :
    T_GEN_CAM_MIN ≤ (afterSend s r now cond a b c).tGenCam ∧ (afterSend s r now cond a b c).tGenCam ≤ T_GEN_CAM_MAX := by
  have hmm : T_GEN_CAM_MIN ≤ T_GEN_CAM_MAX := by decide
  unfold afterSend clampT
  simp only
  split <;> (try split) <;> simp <;> omega

theorem inv_init (cfg : Cfg) : CamInv (init cfg) := by
  refine ⟨?_, ?_, ?_⟩ <;> simp only [init] <;> decide

theorem inv_step (hav : Pos → Pos → Nat) (s : State) (op : Op) (h : CamInv s) : CamInv (step hav s op).1 := by
  obtain ⟨h1, h2, h3⟩ := h
  cases op with
  | start =>
    by_cases ha : s.active = true
    · simp [step, ha, CamInv]; exact ⟨h1, h2, h3 ha⟩
    · simp [step, ha, CamInv]
      first | omega | exact ⟨by decide, by decide, by omega⟩
  | stop => simp [step, CamInv]; exact ⟨h1, h2⟩
  | report r => simp [step, CamInv]; exact ⟨h1, h2, h3⟩
  | expire tr => simp [step, CamInv]; exact ⟨h1, h2, fun _ => by omega⟩
  | check now f =>
    simp only [step]
    cases hc : (check hav s now f).2 with
    | none =>
      rcases check_none hav s now f hc with ⟨ha, h⟩ | ⟨ha, h, _⟩
      · rw [h]; exact ⟨h1, h2, by simp [ha]⟩
      · rw [h]; exact ⟨h1, h2, fun _ => by simp [pre, rearm]; omega⟩
    | some c =>
      obtain ⟨ha, _, r, cond, _, _, _, hs⟩ := check_some hav s now f c hc
      rw [hs]
      split
      · have := afterSend_tgen (pre s) r now cond (includeLf s now) (includeSpecial s now)
              (includeVlf s now (includeLf s now) (includeSpecial s now))
        refine ⟨this.1, this.2, fun _ => ?_⟩
        simp [afterSend, pre, rearm]; omega
      · exact ⟨h1, h2, fun _ => by simp [pre, rearm]; omega⟩


/-! max gap -/
theorem trigger_none (hav : Pos → Pos → Nat) (s : State) (r : Tpv) (now : Nat) (h : trigger hav s r now = none) :
    (s.lastCamTime = none ∧ held s now = true) ∨
    ∃ t, s.lastCamTime = some t ∧ ¬ (now ≥ t + s.tGenCam ∧ now ≥ t + T_GEN_CAM_DCC) ∧
      ¬ (now ≥ t + T_GEN_CAM_DCC ∧ dynamics hav s r = true) := by
  unfold trigger at h
  cases hl : s.lastCamTime with
  | none =>
    rw [hl] at h
    simp only at h
    left
    refine ⟨rfl, ?_⟩
    split at h
    · assumption
    · simp at h
  | some t =>
    rw [hl] at h
    simp only at h
    right
    refine ⟨t, rfl, ?_, ?_⟩
    · split at h
      · simp at h
      · split at h
        · simp at h
        · assumption
    · split at h
      · simp at h
      · assumption

/-- a held first CAM, seen from the log: less than T_GenCamMin since the last CAM of any activation -/
theorem held_heldSpec (s : State) (g : Option Nat) (now : Nat) (hG : HoldRel s g)
    (hl : s.lastCamTime = none) (hh : held s now = true) : heldSpec s.cfg.restartHold g now = true := by
  have hmin : T_GEN_CAM_MIN = 100 := by decide
  unfold held at hh
  simp only [Bool.and_eq_true] at hh
  obtain ⟨hH, hh⟩ := hh
  cases g with
  | none =>
    obtain ⟨_, h2⟩ := hG
    rw [h2] at hh; simp at hh
  | some t =>
    rcases hG with h1 | ⟨_, h2 | ⟨_, h2⟩⟩
    · rw [hl] at h1; simp at h1
    · rw [h2] at hh
      simp only [decide_eq_true_eq] at hh
      simp only [heldSpec, hH, T_GenCamMin, Bool.true_and]
      apply decide_eq_true
      omega
    · rw [h2] at hh; simp at hh

def MaxRel (hold : Bool) (s : State) (m : MaxGapSt) : Prop :=
  s.cfg.ldmIsolated = true ∧ s.cfg.restartHold = hold ∧
  m.active = s.active ∧ m.hasCur = s.cur.isSome ∧ m.last = s.lastCamTime ∧
  T_GEN_CAM_MIN ≤ s.tGenCam ∧ s.tGenCam ≤ T_GEN_CAM_MAX ∧
  (∀ t, m.last = some t → ∃ p, m.prev = some p ∧ (m.clean = true → p ≤ t + T_GenCamMax)) ∧
  HoldRel s m.glast

theorem maxGap_sim (hav : Pos → Pos → Nat) (hold : Bool) (P : Nat) (s : State) (m : MaxGapSt) (op : Op)
    (hR : MaxRel hold s m) :
    ∃ m', maxGapMon hold P m (op, (step hav s op).2) = some m' ∧ MaxRel hold (step hav s op).1 m' := by
  obtain ⟨hI, hH, hA, hC, hL, h1, h2, hP, hG⟩ := hR
  have hmin : T_GEN_CAM_MIN = 100 := by decide
  have hmax : T_GEN_CAM_MAX = 1000 := by decide
  have hdcc : T_GEN_CAM_DCC = 100 := by decide
  have hI' : (step hav s op).1.cfg.ldmIsolated = true := by rw [step_cfg]; exact hI
  have hH' : (step hav s op).1.cfg.restartHold = hold := by rw [step_cfg]; exact hH
  suffices hx : ∃ m', maxGapMon hold P m (op, (step hav s op).2) = some m' ∧
      (m'.active = (step hav s op).1.active ∧ m'.hasCur = (step hav s op).1.cur.isSome ∧
       m'.last = (step hav s op).1.lastCamTime ∧
       T_GEN_CAM_MIN ≤ (step hav s op).1.tGenCam ∧ (step hav s op).1.tGenCam ≤ T_GEN_CAM_MAX ∧
       (∀ t, m'.last = some t → ∃ p, m'.prev = some p ∧ (m'.clean = true → p ≤ t + T_GenCamMax)) ∧
       HoldRel (step hav s op).1 m'.glast) by
    obtain ⟨m', h1, h2⟩ := hx; exact ⟨m', h1, hI', hH', h2⟩
  cases op with
  | start =>
    have hq : (step hav s .start).2 = none := by by_cases ha : s.active = true <;> simp [step, ha]
    have hG' := holdRel_quiet hav s m.glast .start hG hq
    by_cases ha : s.active = true
    · have hs : (step hav s .start).1 = s := by simp [step, ha]
      rw [hs] at hG' ⊢
      exact ⟨m, by simp [maxGapMon, hA, ha], hA, hC, hL, h1, h2, hP, hG'⟩
    · refine ⟨{ m with active := true, last := none, prev := none, clean := true }, by simp [maxGapMon, hA, ha],
        ?_, ?_, ?_, ?_, ?_, ?_, hG'⟩
      · simp [step, ha]
      · simp [step, ha, hC]
      · simp [step, ha]
      · simp [step, ha]; decide
      · simp [step, ha]
      · intro t ht; simp at ht
  | stop =>
    have hG' := holdRel_quiet hav s m.glast .stop hG (by simp [step])
    refine ⟨{ m with active := false }, rfl, ?_, ?_, ?_, ?_, ?_, ?_, hG'⟩
    · simp [step]
    · simp [step, hC]
    · simp [step, hL]
    · simp [step]; exact h1
    · simp [step]; exact h2
    · exact hP
  | report r =>
    have hG' := holdRel_quiet hav s m.glast (.report r) hG (by simp [step])
    refine ⟨{ m with hasCur := true }, rfl, ?_, ?_, ?_, ?_, ?_, ?_, hG'⟩
    · simp [step, hA]
    · simp [step]
    · simp [step, hL]
    · simp [step]; exact h1
    · simp [step]; exact h2
    · exact hP
  | expire tr =>
    have hG' := holdRel_quiet hav s m.glast (.expire tr) hG (by simp [step])
    refine ⟨m, rfl, ?_, ?_, ?_, ?_, ?_, ?_, hG'⟩
    · simp [step, hA]
    · simp [step, hC]
    · simp [step, hL]
    · simp [step]; exact h1
    · simp [step]; exact h2
    · exact hP
  | check now f =>
    simp only [step]
    cases hc : (check hav s now f).2 with
    | none =>
      have hG' := holdRel_quiet hav s m.glast (.check now f) hG (by simpa [step] using hc)
      simp only [step] at hG'
      rcases check_none hav s now f hc with ⟨ha, h⟩ | ⟨ha, h, hwhy⟩
      · rw [h] at hG' ⊢
        refine ⟨m, by simp [maxGapMon, hA, ha], ?_⟩
        exact ⟨hA, hC, hL, h1, h2, hP, hG'⟩
      · rw [h] at hG' ⊢
        have hact : (!m.active) = false := by simp [hA, ha]
        -- a serviceable check that emitted nothing: the trigger did not fire
        have key : (m.hasCur && decide (f = Fail.none) && near m.prev now P) = true →
            (m.last = none ∧ heldSpec hold m.glast now = true) ∨
            ∃ t, s.lastCamTime = some t ∧ now < t + T_GenCamMax := by
          intro hg
          simp only [Bool.and_eq_true, decide_eq_true_eq] at hg
          obtain ⟨⟨hcur, hok⟩, _⟩ := hg
          rcases hwhy with hn | hn | ⟨r, hr, htn⟩
          · rw [hC, hn] at hcur; simp at hcur
          · rw [hok] at hn; simp [Fail.transmitted] at hn
          · rcases trigger_none hav s r now htn with ⟨hl, hh⟩ | ⟨t, ht, hno, _⟩
            · left
              refine ⟨by rw [hL, hl], ?_⟩
              have := held_heldSpec s m.glast now hG hl hh
              rw [hH] at this; exact this
            · right
              refine ⟨t, ht, ?_⟩
              simp only [T_GenCamMax]
              omega
        by_cases hg : (m.hasCur && decide (f = Fail.none) && near m.prev now P) = true
        · rcases key hg with ⟨hml, hheld⟩ | ⟨t, ht, hlt⟩
          · have hmon : maxGapMon hold P m (Op.check now f, none) =
                some { m with prev := some now, clean := m.clean && true } := by
              simp [maxGapMon, hact, hg, hml, hheld, beyond]
            refine ⟨_, hmon, ?_⟩
            refine ⟨hA, hC, hL, h1, h2, ?_, hG'⟩
            intro t' ht'
            have : m.last = some t' := ht'
            rw [hml] at this; simp at this
          · have hml : m.last = some t := by rw [hL, ht]
            have hb : beyond (some t) (T_GenCamMax + P) now = false := by
              simp only [beyond]; apply decide_eq_false; omega
            have hmon : maxGapMon hold P m (Op.check now f, none) =
                some { m with prev := some now, clean := m.clean && true } := by
              simp [maxGapMon, hact, hg, hml, hb]
            refine ⟨_, hmon, ?_⟩
            refine ⟨hA, hC, hL, h1, h2, ?_, hG'⟩
            intro t' ht'
            refine ⟨now, rfl, ?_⟩
            intro _
            have : t' = t := by
              have : m.last = some t' := ht'
              rw [hml] at this; exact (Option.some.inj this).symm
            omega
        · have hgf : (m.hasCur && decide (f = Fail.none) && near m.prev now P) = false := by simpa using hg
          have hmon : maxGapMon hold P m (Op.check now f, none) =
              some { m with prev := some now, clean := false } := by
            simp [maxGapMon, hact, hgf]
          refine ⟨_, hmon, ?_⟩
          refine ⟨hA, hC, hL, h1, h2, ?_, hG'⟩
          intro t ht
          exact ⟨now, rfl, fun h => by simp at h⟩
    | some c =>
      obtain ⟨ha, r, cond, hcur, htr, hcx, hs⟩ := check_some_iso hav s now f c hI hc
      have hact : (!m.active) = false := by simp [hA, ha]
      have hcond : (m.clean && (m.hasCur && decide (f = Fail.none) && near m.prev now P)) = true →
          within m.last (T_GenCamMax + P) now = true := by
        intro hg
        simp only [Bool.and_eq_true] at hg
        obtain ⟨hcl, ⟨_, hnear⟩⟩ := hg
        cases hml : m.last with
        | none => rfl
        | some t =>
          obtain ⟨p, hp, hpb⟩ := hP t hml
          have := hpb hcl
          rw [hp] at hnear
          simp only [near, decide_eq_true_eq] at hnear
          simp only [within]
          apply decide_eq_true
          omega
      have hmon : maxGapMon hold P m (Op.check now f, some c) =
          some { m with last := some now, prev := some now, clean := true, glast := some now } := by
        simp only [maxGapMon, hact]
        simp only [Bool.false_eq_true, if_false]
        rw [if_pos hcond]
      refine ⟨_, hmon, ?_⟩
      rw [hs]
      have hb := afterSend_tgen (pre s) r now cond (includeLf s now) (includeSpecial s now)
            (includeVlf s now (includeLf s now) (includeSpecial s now))
      refine ⟨by simp [afterSend, pre, rearm, hA], by simp [afterSend, pre, rearm, hC], by simp [afterSend],
        hb.1, hb.2, ?_, ?_⟩
      · intro t ht
        have : t = now := by simp at ht; exact ht.symm
        exact ⟨now, rfl, fun _ => by omega⟩
      · left; simp [afterSend]


/-! responsiveness -/
def RespRel (s : State) (m : RespSt) : Prop :=
  s.cfg.ldmIsolated = true ∧
  m.active = s.active ∧ m.cur = s.cur ∧ m.last = s.lastCamTime ∧ m.refHeading = s.lastHeading ∧
  m.refPos = s.lastPos ∧ m.refSpeed = s.lastSpeed

theorem circDiff_le_headingDiff (a b : Nat) : circDiff a b ≤ headingDiff a b := by
  have hw : CAM_HEADING_WRAP_CDEG = 18000 := by decide
  unfold circDiff headingDiff absDiff
  simp only [hw]
  repeat' split
  all_goals omega

theorem specDyn_dynamics (hav : Pos → Pos → Nat) (s : State) (m : RespSt) (r : Tpv)
    (h4 : m.refHeading = s.lastHeading) (h5 : m.refPos = s.lastPos) (h6 : m.refSpeed = s.lastSpeed)
    (h : specDyn hav m r = true) : dynamics hav s r = true := by
  have hh : CAM_HEADING_THRESHOLD_CDEG = 400 := by decide
  have hp : CAM_POS_THRESHOLD_MM = 4000 := by decide
  have hv : CAM_SPEED_THRESHOLD_MMS = 500 := by decide
  unfold dynamics
  cases hlh : s.lastHeading with
  | none => rfl
  | some lh =>
    simp only
    unfold specDyn at h
    rw [h4, h5, h6, hlh] at h
    simp only [Bool.or_eq_true] at h ⊢
    rcases h with (h | h) | h
    · left; left
      cases hrh : r.heading with
      | none => rw [hrh] at h; simp at h
      | some hd =>
        rw [hrh] at h
        simp only [decide_eq_true_eq] at h ⊢
        have := circDiff_le_headingDiff hd lh
        omega
    · left; right
      cases hrp : r.pos with
      | none => rw [hrp] at h; simp at h
      | some p =>
        cases hlp : s.lastPos with
        | none => rw [hrp, hlp] at h; simp at h
        | some q =>
          rw [hrp, hlp] at h
          simp only [decide_eq_true_eq] at h ⊢
          omega
    · right
      cases hrv : r.speed with
      | none => rw [hrv] at h; simp at h
      | some v =>
        cases hlv : s.lastSpeed with
        | none => rw [hrv, hlv] at h; simp at h
        | some w =>
          rw [hrv, hlv] at h
          simp only [decide_eq_true_eq] at h ⊢
          unfold absDiff
          split <;> omega

theorem resp_sim (hav : Pos → Pos → Nat) (s : State) (m : RespSt) (op : Op) (hR : RespRel s m) :
    ∃ m', respMon hav m (op, (step hav s op).2) = some m' ∧ RespRel (step hav s op).1 m' := by
  obtain ⟨hI, hA, hC, hL, h4, h5, h6⟩ := hR
  have hdcc : T_GEN_CAM_DCC = 100 := by decide
  have hI' : (step hav s op).1.cfg.ldmIsolated = true := by rw [step_cfg]; exact hI
  suffices hx : ∃ m', respMon hav m (op, (step hav s op).2) = some m' ∧
      (m'.active = (step hav s op).1.active ∧ m'.cur = (step hav s op).1.cur ∧
       m'.last = (step hav s op).1.lastCamTime ∧ m'.refHeading = (step hav s op).1.lastHeading ∧
       m'.refPos = (step hav s op).1.lastPos ∧ m'.refSpeed = (step hav s op).1.lastSpeed) by
    obtain ⟨m', h1, h2⟩ := hx; exact ⟨m', h1, hI', h2⟩
  cases op with
  | start =>
    by_cases ha : s.active = true
    · simp [step, ha, respMon, hA]; exact ⟨hC, hL, h4, h5, h6⟩
    · simp [step, ha, respMon, hA, hC]
  | stop => simp [step, respMon]; exact ⟨hC, hL, h4, h5, h6⟩
  | report r => simp [step, respMon]; exact ⟨hA, hL, h4, h5, h6⟩
  | expire tr => simp [step, respMon]; exact ⟨hA, hC, hL, h4, h5, h6⟩
  | check now f =>
    simp only [step]
    cases hc : (check hav s now f).2 with
    | none =>
      rcases check_none hav s now f hc with ⟨ha, h⟩ | ⟨ha, h, hwhy⟩
      · rw [h]
        exact ⟨m, by simp [respMon, hA, ha], hA, hC, hL, h4, h5, h6⟩
      · rw [h]
        have hact : (!m.active) = false := by simp [hA, ha]
        refine ⟨m, ?_, by simp [pre, rearm, hA], by simp [pre, rearm, hC], by simp [pre, rearm, hL],
          by simp [pre, rearm, h4], by simp [pre, rearm, h5], by simp [pre, rearm, h6]⟩
        simp only [respMon, hact, Bool.false_eq_true, if_false]
        cases hcur : m.cur with
        | none => rfl
        | some r =>
          simp only
          rw [if_neg]
          rintro ⟨hok, hsince, hdyn⟩
          rcases hwhy with hn | hn | ⟨r', hr', htn⟩
          · rw [hC, hn] at hcur; simp at hcur
          · rw [hok] at hn; simp [Fail.transmitted] at hn
          · have : r' = r := by rw [hC, hr'] at hcur; exact Option.some.inj hcur
            subst this
            rcases trigger_none hav s r' now htn with ⟨hl, _⟩ | ⟨t, ht, _, hno⟩
            · rw [hL, hl] at hsince; simp [since] at hsince
            · apply hno
              rw [hL, ht] at hsince
              simp only [since, T_GenCamMin] at hsince
              have hsince := of_decide_eq_true hsince
              exact ⟨by omega, specDyn_dynamics hav s m r' h4 h5 h6 hdyn⟩
    | some c =>
      obtain ⟨ha, r, cond, hcur, htr, hcx, hs⟩ := check_some_iso hav s now f c hI hc
      have hact : (!m.active) = false := by simp [hA, ha]
      have hmc : m.cur = some r := by rw [hC, hcur]
      rw [hs]
      refine ⟨_, by simp only [respMon, hact, Bool.false_eq_true, if_false, hmc]; rfl, ?_⟩
      cases hh : r.heading <;> cases hv : r.speed <;> cases hp : r.pos <;>
        simp [afterSend, pre, rearm, hA, hcur, h4, h5, h6, hh, hv, hp]

end FlexModel.Fac.CamLemmas
